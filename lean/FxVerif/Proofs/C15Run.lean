import FxVerif.Model.C15
import FxVerif.Proofs.C15
import FxVerif.Proofs.C15Queue
import FxVerif.Proofs.C15Tally
/-!
# C15 — queue consistency and the vote store as invariants of every operation; the end-blocker is total

`QInv` (queues = open proposals, `C15Queue`) and `VInv` (every stored vote passed the `MsgVoteWeighted` validation,
belongs to a proposal in its voting period, one per (proposal, voter)) are preserved by every operation.  Together with
the deposit invariant `Inv` they make both walks of the end-blocker succeed on every entry.
-/
namespace FxVerif.Proofs.C15
open FxVerif.Gen.C15 FxVerif.Model.C15

/-! ### the vote store -/

structure VI (props : List Proposal) (votes : List Vote) : Prop where
  valid : ∀ v ∈ votes, optsValid v.opts = true
  voting : ∀ v ∈ votes, ∃ p, findProp props v.pid = some p ∧ p.status = .voting
  uniq : votes.Pairwise (fun a b => ¬ (a.pid = b.pid ∧ a.voter = b.voter))

def VInv (s : State) : Prop := VI s.props s.votes

theorem init_vinv : VInv init :=
  ⟨by intro v hv; simp [init] at hv, by intro v hv; simp [init] at hv, by simp [init]⟩

theorem mem_votesNot {vs : List Vote} {pid : Nat} {v : Vote} : v ∈ votesNot vs pid ↔ v ∈ vs ∧ v.pid ≠ pid := by
  simp [votesNot]

theorem mem_votesOf {vs : List Vote} {pid : Nat} {v : Vote} : v ∈ votesOf vs pid ↔ v ∈ vs ∧ v.pid = pid := by
  simp [votesOf]

/-- replacing a stored proposal by one that is in its voting period whenever the old one was -/
theorem vi_put {props : List Proposal} {votes : List Vote} (h : VI props votes) {p q : Proposal}
    (hp : findProp props q.id = some p) (hs : p.status = .voting → q.status = .voting) : VI (putProp props q) votes := by
  refine ⟨h.valid, ?_, h.uniq⟩
  intro v hv
  obtain ⟨r, hr, hst⟩ := h.voting v hv
  rw [findProp_putProp]
  by_cases hid : v.pid = q.id
  · rw [hid] at hr
    rw [hp] at hr; cases hr
    exact ⟨q, by simp [hid, hp], hs hst⟩
  · exact ⟨r, by simp [hid, hr], hst⟩

/-- a stored proposal leaves the voting period (or is deleted) once none of its votes is left -/
theorem vi_put_none {props : List Proposal} {votes : List Vote} (h : VI props votes) {q : Proposal}
    (hn : ∀ v ∈ votes, v.pid ≠ q.id) : VI (putProp props q) votes := by
  refine ⟨h.valid, ?_, h.uniq⟩
  intro v hv
  obtain ⟨r, hr, hst⟩ := h.voting v hv
  exact ⟨r, by rw [findProp_putProp]; simp [hn v hv, hr], hst⟩

theorem vi_drop {props : List Proposal} {votes : List Vote} (h : VI props votes) {pid : Nat}
    (hn : ∀ v ∈ votes, v.pid ≠ pid) : VI (dropProp props pid) votes := by
  refine ⟨h.valid, ?_, h.uniq⟩
  intro v hv
  obtain ⟨r, hr, hst⟩ := h.voting v hv
  exact ⟨r, by rw [findProp_dropProp]; simp [hn v hv, hr], hst⟩

theorem vi_votesNot {props : List Proposal} {votes : List Vote} (h : VI props votes) (pid : Nat) :
    VI props (votesNot votes pid) :=
  ⟨fun v hv => h.valid v (mem_votesNot.mp hv).1, fun v hv => h.voting v (mem_votesNot.mp hv).1,
   List.Pairwise.filter _ h.uniq⟩

theorem vi_append {props : List Proposal} {votes : List Vote} (h : VI props votes) (p : Proposal) :
    VI (props ++ [p]) votes := by
  refine ⟨h.valid, ?_, h.uniq⟩
  intro v hv
  obtain ⟨r, hr, hst⟩ := h.voting v hv
  exact ⟨r, by rw [findProp_append, hr], hst⟩

/-- votes of a proposal that is not in its voting period do not exist -/
theorem vi_no_votes {props : List Proposal} {votes : List Vote} (h : VI props votes) {p : Proposal} {pid : Nat}
    (hp : findProp props pid = some p) (hs : p.status ≠ .voting) : ∀ v ∈ votes, v.pid ≠ pid := by
  intro v hv he
  obtain ⟨r, hr, hst⟩ := h.voting v hv
  rw [he, hp] at hr
  cases hr
  exact hs hst

theorem vi_setVote {props : List Proposal} {votes : List Vote} (h : VI props votes) {v : Vote} {p : Proposal}
    (hv : optsValid v.opts = true) (hp : findProp props v.pid = some p) (hs : p.status = .voting) :
    VI props (setVote votes v) := by
  unfold setVote
  refine ⟨?_, ?_, ?_⟩
  · intro x hx
    rcases List.mem_append.mp hx with hx | hx
    · exact h.valid x (List.mem_filter.mp hx).1
    · simp only [List.mem_singleton] at hx; rw [hx]; exact hv
  · intro x hx
    rcases List.mem_append.mp hx with hx | hx
    · exact h.voting x (List.mem_filter.mp hx).1
    · simp only [List.mem_singleton] at hx; rw [hx]; exact ⟨p, hp, hs⟩
  · rw [List.pairwise_append]
    refine ⟨List.Pairwise.filter _ h.uniq, List.pairwise_singleton _ _, ?_⟩
    intro a ha b hb
    simp only [List.mem_singleton] at hb
    subst hb
    have := (List.mem_filter.mp ha).2
    intro ⟨e1, e2⟩
    simp [e1, e2] at this

/-! ### each operation keeps `QInv` and `VInv` -/

/-- the two invariants only look at these components -/
structure Both (s : State) : Prop where
  q : QInv s
  v : VInv s

theorem both_of_eq {s s' : State} (h : Both s) (h1 : s'.props = s.props) (h2 : s'.nextId = s.nextId)
    (h3 : s'.inactive = s.inactive) (h4 : s'.active = s.active) (h5 : s'.votes = s.votes) : Both s' := by
  refine ⟨?_, ?_⟩
  · unfold QInv; rw [h1, h2, h3, h4]; exact h.q
  · unfold VInv; rw [h1, h5]; exact h.v

theorem refundDeposits_both {s s' : State} {pid : Nat} (hb : Both s) (hg : s.gov = sumAmt s.deps)
    (h : refundDeposits pid s = .ok s') : Both s' := by
  have sp := refundDeposits_spec hg h
  exact both_of_eq hb sp.2.2.1 sp.2.2.2.2.2.2.2.2.1 sp.2.2.2.1 sp.2.2.2.2.1 sp.2.2.2.2.2.2.2.2.2

theorem burnDeposits_both {s s' : State} {pid : Nat} (hb : Both s) (hg : s.gov = sumAmt s.deps)
    (h : burnDeposits pid s = .ok s') : Both s' := by
  have sp := burnDeposits_spec hg h
  exact both_of_eq hb sp.2.2.1 sp.2.2.2.2.2.2.2.2.1 sp.2.2.2.1 sp.2.2.2.2.1 sp.2.2.2.2.2.2.2.2.2

theorem depositEffect_both {s : State} {p : Proposal} {who amt : Nat} (hb : Both s) (hp : findProp s.props p.id = some p) :
    Both (depositEffect s p who amt) := by
  have q1 : QI (putProp s.props { p with total := p.total + amt }) s.nextId s.inactive s.active :=
    qi_put_same hb.q (q := { p with total := p.total + amt }) hp rfl rfl rfl rfl
  have v1 : VI (putProp s.props { p with total := p.total + amt }) s.votes :=
    vi_put hb.v (q := { p with total := p.total + amt }) hp (fun h => h)
  have f1 : findProp (putProp s.props { p with total := p.total + amt }) p.id = some { p with total := p.total + amt } := by
    rw [findProp_putProp]; simp [hp]
  unfold depositEffect
  simp only
  split
  · rename_i hc
    simp only [Bool.and_eq_true, beq_iff_eq] at hc
    refine ⟨?_, ?_⟩
    · exact qi_activate q1 (p := { p with total := p.total + amt }) (pid := p.id) f1 hc.1 rfl rfl rfl
    · exact vi_put v1 (p := { p with total := p.total + amt }) f1 (fun _ => rfl)
  · exact ⟨q1, v1⟩

theorem addDeposit_both {s s' : State} {pid who amt : Nat} (hb : Both s) (h : addDeposit s pid who amt = .ok s') : Both s' := by
  obtain ⟨p, hp, _, rfl⟩ := addDeposit_ok h
  have hpid : p.id = pid := findProp_id hp
  subst hpid
  exact depositEffect_both hb hp

theorem submit_both {s s' : State} {who : Addr} {msgs : List Msg} {initial : Nat} {exp : Bool} (hb : Both s)
    (h : submit s who msgs initial exp = .ok s') : Both s' := by
  rw [submit_eq] at h
  unfold submitSpec at h
  split at h
  · cases h
  · rename_i hcm
    split at h
    · cases h
    · split at h
      · cases h
      · simp only at h
        refine addDeposit_both ⟨?_, ?_⟩ h
        · show QI (s.props ++ [_]) (s.nextId + 1) (insertQ _ s.inactive) s.active
          exact qi_submit hb.q rfl rfl (by simpa using hcm)
        · exact vi_append hb.v _

theorem cancel_both {s s' : State} {pid : Nat} {who : Addr} (hb : Both s) (h : cancel s pid who = .ok s') : Both s' := by
  unfold cancel at h
  split at h
  · cases h
  · rename_i p hp
    split at h
    · cases h
    · split at h
      · cases h
      · split at h
        · cases h
        · split at h
          · cases h
          · split at h
            · cases h
            · cases h
              refine ⟨qi_drop hb.q hp, ?_⟩
              show VI (dropProp s.props pid) (if (p.status == Status.voting) = true then votesNot s.votes pid else s.votes)
              by_cases hst : p.status = .voting
              · simp only [hst, beq_self_eq_true, if_true]
                exact vi_drop (vi_votesNot hb.v pid) (fun v hv => (mem_votesNot.mp hv).2)
              · have : (p.status == Status.voting) = false := by simpa using hst
                simp only [this, Bool.false_eq_true, if_false]
                exact vi_drop hb.v (vi_no_votes hb.v hp hst)

theorem vote_both {s s' : State} {pid : Nat} {voter : Addr} {opts : List (Opt × Nat)} (hb : Both s)
    (h : vote s pid voter opts = .ok s') : Both s' := by
  rw [vote_eq] at h
  unfold voteSpec at h
  split at h
  · cases h
  · rename_i hv
    split at h
    · cases h
    · rename_i p hp
      split at h
      · rename_i hst
        cases h
        refine ⟨hb.q, ?_⟩
        exact vi_setVote hb.v (v := ⟨pid, voter, opts⟩) (by simpa using hv) hp (by simpa using hst)
      · cases h

/-- an inactive-queue entry: the proposal is in its deposit period, so it has no votes -/
theorem dropInactive_both {s s' : State} {pid : Nat} (hb : Both s) (hi : Inv s) (hq : ∃ t, (t, pid) ∈ s.inactive)
    (h : dropInactive pid s = .ok s') : Both s' := by
  obtain ⟨t, ht⟩ := hq
  obtain ⟨p0, hp0, hst0, _⟩ := hb.q.inactSound t pid ht
  rw [dropInactive_eq] at h
  unfold dropInactiveSpec at h
  rw [hp0] at h
  simp only at h
  have b1 : Both { s with props := dropProp s.props pid, inactive := removeQ (p0.depositEnd, pid) s.inactive,
                          active := removeQ (p0.votingEnd, pid) s.active } :=
    ⟨qi_drop hb.q hp0, vi_drop hb.v (vi_no_votes hb.v hp0 (by rw [hst0]; intro h; cases h))⟩
  split at h
  · split at h
    · exact refundDeposits_both b1 hi.bal h
    · exact burnDeposits_both b1 hi.bal h
  · cases h; exact b1

theorem runProposalMsgs_both {ms : List Msg} {s : State} (hc : execInCacheCtx = true) (hb : Both s) :
    Both (runProposalMsgs ms s).1 := by
  have f := runProposalMsgs_same hc ms s
  exact both_of_eq hb f.1 f.2.2.2.2.2.2.2.1 f.2.2.2.1 f.2.2.2.2.1 f.2.2.2.2.2.2.2.2

/-- an active-queue entry after `Tally`: the proposal is in its voting period and its votes have been removed -/
theorem finishTally_both {s s' : State} {pid : Nat} {p : Proposal} {passes burn : Bool} {res : Nat × Nat × Nat × Nat}
    (hsh : settleShapeOk = true) (hc : execInCacheCtx = true) (hb : Both s) (hi : Inv s)
    (hp : findProp s.props pid = some p) (hst : p.status = .voting) (hn : ∀ v ∈ s.votes, v.pid ≠ pid)
    (h : finishTally passes burn res p pid s = .ok s') : Both s' := by
  have hpid : p.id = pid := findProp_id hp
  unfold finishTally at h
  simp only [refundRun_eq, burnRun_eq] at h
  simp only [hsh, Bool.not_true, Bool.false_and, Bool.false_eq_true, if_false] at h
  simp only [hsh, if_true] at h
  -- the settlement keeps props, queues and votes
  have settle : ∀ s1 : State,
      (if (!(p.expedited && !passes)) = true then (if burn = true then burnDeposits pid s else refundDeposits pid s) else Except.ok s) = .ok s1 →
      Both s1 ∧ s1.props = s.props ∧ s1.votes = s.votes ∧ s1.active = s.active ∧ s1.inactive = s.inactive ∧ s1.nextId = s.nextId := by
    intro s1 h1
    split at h1
    · split at h1
      · have sp := burnDeposits_spec hi.bal h1
        exact ⟨burnDeposits_both hb hi.bal h1, sp.2.2.1, sp.2.2.2.2.2.2.2.2.2, sp.2.2.2.2.1, sp.2.2.2.1, sp.2.2.2.2.2.2.2.2.1⟩
      · have sp := refundDeposits_spec hi.bal h1
        exact ⟨refundDeposits_both hb hi.bal h1, sp.2.2.1, sp.2.2.2.2.2.2.2.2.2, sp.2.2.2.2.1, sp.2.2.2.1, sp.2.2.2.2.2.2.2.2.1⟩
    · cases h1; exact ⟨hb, rfl, rfl, rfl, rfl, rfl⟩
  split at h
  · cases h
  · rename_i s1 h1
    obtain ⟨b1, e1, e2, e3, e4, e5⟩ := settle s1 h1
    have hp1 : findProp s1.props pid = some p := by rw [e1]; exact hp
    have hn1 : ∀ v ∈ s1.votes, v.pid ≠ pid := by rw [e2]; exact hn
    split at h
    · -- passes: the messages run (they touch neither the proposals nor the queues nor the votes), status passed / failed
      generalize hr : runProposalMsgs p.msgs { s1 with active := removeQ (p.votingEnd, pid) s1.active } = rr at h
      obtain ⟨s3, ok⟩ := rr
      simp only at h
      cases h
      have fr : s3.props = s1.props ∧ s3.nextId = s1.nextId ∧ s3.inactive = s1.inactive ∧
          s3.active = removeQ (p.votingEnd, pid) s1.active ∧ s3.votes = s1.votes := by
        have : s3 = (runProposalMsgs p.msgs { s1 with active := removeQ (p.votingEnd, pid) s1.active }).1 := by rw [hr]
        rw [this]
        have f := runProposalMsgs_same hc p.msgs { s1 with active := removeQ (p.votingEnd, pid) s1.active }
        exact ⟨f.1, f.2.2.2.2.2.2.2.1, f.2.2.2.1, f.2.2.2.2.1, f.2.2.2.2.2.2.2.2⟩
      refine ⟨?_, ?_⟩
      · show QI (putProp s3.props _) s3.nextId s3.inactive s3.active
        rw [fr.1, fr.2.1, fr.2.2.1, fr.2.2.2.1]
        refine qi_end_voting b1.q hp1 hst hpid ?_ ?_ rfl <;> (simp only; split <;> (intro hx; cases hx))
      · show VI (putProp s3.props _) s3.votes
        rw [fr.1, fr.2.2.2.2]
        exact vi_put_none b1.v (by simpa [hpid] using hn1)
    · split at h
      · -- expedited, failed: converted to a regular proposal with a new voting end
        cases h
        refine ⟨?_, ?_⟩
        · show QI (putProp s1.props _) s1.nextId s1.inactive (insertQ _ (removeQ _ s1.active))
          exact qi_move_voting b1.q hp1 hst hpid hst rfl
        · exact vi_put_none b1.v (by simpa [hpid] using hn1)
      · cases h
        refine ⟨?_, ?_⟩
        · exact qi_end_voting b1.q (q := { p with status := .rejected, tallyRes := res }) hp1 hst hpid
            (by intro hx; cases hx) (by intro hx; cases hx) rfl
        · exact vi_put_none b1.v (by simpa [hpid] using hn1)

/-! ### the walks -/

theorem runAll_total {f : Nat → State → Except Err State} {P : State → Prop} {Q : Nat → State → Prop}
    (hstep : ∀ id s, P s → Q id s → ∃ s', f id s = .ok s' ∧ P s' ∧ ∀ id', id' ≠ id → Q id' s → Q id' s') :
    ∀ (ids : List Nat) (s : State), ids.Nodup → (∀ id ∈ ids, Q id s) → P s → ∃ s', runAll f ids s = .ok s' ∧ P s' := by
  intro ids
  induction ids with
  | nil => intro s _ _ hp; exact ⟨s, rfl, hp⟩
  | cons id r ih =>
    intro s hnd hq hp
    obtain ⟨s1, h1, p1, q1⟩ := hstep id s hp (hq id List.mem_cons_self)
    have hnd' := List.nodup_cons.mp hnd
    obtain ⟨s2, h2, p2⟩ := ih s1 hnd'.2 (fun x hx => q1 x (fun he => hnd'.1 (he ▸ hx)) (hq x (List.mem_cons_of_mem _ hx))) p1
    exact ⟨s2, by simp only [runAll, h1, h2], p2⟩

/-- the ids of the due entries of a consistent queue are distinct -/
theorem dueIds_nodup {q : Q} (hs : q.Pairwise qlt) (hf : ∀ t t' id, (t, id) ∈ q → (t', id) ∈ q → t = t') (now : Nat) :
    (dueIds q now).Nodup := by
  unfold dueIds
  have hs' : (q.filter (fun x => decide (x.1 ≤ now))).Pairwise qlt := List.Pairwise.filter _ hs
  have hf' : ∀ t t' id, (t, id) ∈ q.filter (fun x => decide (x.1 ≤ now)) → (t', id) ∈ q.filter (fun x => decide (x.1 ≤ now)) → t = t' :=
    fun t t' id h1 h2 => hf t t' id (List.mem_filter.mp h1).1 (List.mem_filter.mp h2).1
  generalize q.filter (fun x => decide (x.1 ≤ now)) = l at hs' hf'
  induction l with
  | nil => simp
  | cons x r ih =>
    have hx := List.pairwise_cons.mp hs'
    simp only [List.map_cons, List.nodup_cons]
    refine ⟨?_, ih hx.2 (fun t t' id h1 h2 => hf' t t' id (List.mem_cons_of_mem _ h1) (List.mem_cons_of_mem _ h2))⟩
    intro hm
    obtain ⟨y, hy, hyx⟩ := List.mem_map.mp hm
    have e : y.1 = x.1 := hf' y.1 x.1 x.2 (by rw [← hyx]; exact List.mem_cons_of_mem _ hy) List.mem_cons_self
    have : y = x := Prod.ext e hyx
    rw [this] at hy
    exact qlt_irrefl x (hx.1 x hy)

theorem mem_dueIds {q : Q} {now id : Nat} (h : id ∈ dueIds q now) : ∃ t, (t, id) ∈ q := by
  unfold dueIds at h
  obtain ⟨y, hy, hyx⟩ := List.mem_map.mp h
  exact ⟨y.1, by rw [← hyx]; exact (List.mem_filter.mp hy).1⟩

structure All (s : State) : Prop where
  inv : Inv s
  both : Both s

theorem runAll_pres {f : Nat → State → Except Err State} {P : State → Prop} {Q : Nat → State → Prop}
    (hstep : ∀ id s s', P s → Q id s → f id s = .ok s' → P s' ∧ ∀ id', id' ≠ id → Q id' s → Q id' s') :
    ∀ (ids : List Nat) (s s' : State), ids.Nodup → (∀ id ∈ ids, Q id s) → P s → runAll f ids s = .ok s' → P s' := by
  intro ids
  induction ids with
  | nil => intro s s' _ _ hp h; simp [runAll] at h; subst h; exact hp
  | cons id r ih =>
    intro s s' hnd hq hp h
    simp only [runAll] at h
    split at h
    · rename_i s1 h1
      obtain ⟨p1, q1⟩ := hstep id s s1 hp (hq id List.mem_cons_self) h1
      have hnd' := List.nodup_cons.mp hnd
      exact ih s1 s' hnd'.2 (fun x hx => q1 x (fun he => hnd'.1 (he ▸ hx)) (hq x (List.mem_cons_of_mem _ hx))) p1 h
    · cases h

/-- one inactive-queue entry: never fails … -/
theorem dropInactive_tot {s : State} {id : Nat} (h1 : inactiveSettleShapeOk = true) (ha : All s)
    (hq : ∃ t, (t, id) ∈ s.inactive) : ∃ s', dropInactive id s = .ok s' := by
  obtain ⟨t, ht⟩ := hq
  obtain ⟨p0, hp0, _, _⟩ := ha.both.q.inactSound t id ht
  rw [dropInactive_eq]
  unfold dropInactiveSpec
  simp only [hp0, h1, if_true]
  split
  · exact refundDeposits_total (by simpa using ha.inv.bal)
  · exact burnDeposits_total (by simpa using ha.inv.bal)

/-- … keeps the invariants and the entries of the other proposals -/
theorem dropInactive_step {s s' : State} {id : Nat} (h1 : inactiveSettleShapeOk = true) (ha : All s)
    (hq : ∃ t, (t, id) ∈ s.inactive) (hs' : dropInactive id s = .ok s') :
    All s' ∧ ∀ id', id' ≠ id → (∃ t, (t, id') ∈ s.inactive) → ∃ t, (t, id') ∈ s'.inactive := by
  obtain ⟨t, ht⟩ := hq
  obtain ⟨p0, hp0, _, _⟩ := ha.both.q.inactSound t id ht
  refine ⟨⟨dropInactive_inv h1 ha.inv hs', dropInactive_both ha.both ha.inv ⟨t, ht⟩ hs'⟩, ?_⟩
  intro id' hne ⟨t', ht'⟩
  refine ⟨t', ?_⟩
  have hia : s'.inactive = removeQ (p0.depositEnd, id) s.inactive := by
    rw [dropInactive_eq] at hs'
    unfold dropInactiveSpec at hs'
    simp only [hp0, h1, if_true] at hs'
    split at hs'
    · exact (refundDeposits_spec (by simpa using ha.inv.bal) hs').2.2.2.1
    · exact (burnDeposits_spec (by simpa using ha.inv.bal) hs').2.2.2.1
  rw [hia]
  exact mem_removeQ.mpr ⟨ht', fun he => hne (Prod.mk.inj he).2⟩

/-- `finishTally` cannot fail in a state whose module balance covers the deposits -/
theorem finishTally_tot {s : State} (h2 : settleShapeOk = true) (hb : s.gov = sumAmt s.deps) (passes burn : Bool)
    (res : Nat × Nat × Nat × Nat) (p : Proposal) (pid : Nat) : ∃ s', finishTally passes burn res p pid s = .ok s' := by
  unfold finishTally
  simp only [refundRun_eq, burnRun_eq]
  simp only [h2, Bool.not_true, Bool.false_and, Bool.false_eq_true, if_false]
  simp only [h2, if_true]
  by_cases hk : (p.expedited && !passes) = true
  · simp only [hk, Bool.not_true, Bool.false_eq_true, if_false]
    split
    · exact ⟨_, rfl⟩
    · split <;> exact ⟨_, rfl⟩
  · have hk' : (p.expedited && !passes) = false := by simpa using hk
    simp only [hk', Bool.not_false, if_true]
    have : ∃ s1, (if burn = true then burnDeposits pid s else refundDeposits pid s) = .ok s1 := by
      split
      · exact burnDeposits_total hb
      · exact refundDeposits_total hb
    obtain ⟨s1, h1'⟩ := this
    rw [h1']
    simp only
    split
    · exact ⟨_, rfl⟩
    · split <;> exact ⟨_, rfl⟩

/-- one active-queue entry: never fails when bonded validators have delegator shares … -/
theorem tallyOne_tot {s : State} {stk : Staking} {id : Nat} (h2 : settleShapeOk = true) (h4 : tallyRemovesVotes = true)
    (h5 : tallyDelegationNeedsBondedValidator = true) (ha : All s) (hq : ∃ t, (t, id) ∈ s.active) (hs : stakingOk stk) :
    ∃ s', tallyOne stk id s = .ok s' := by
  obtain ⟨t, ht⟩ := hq
  obtain ⟨p0, hp0, _, _⟩ := ha.both.q.actSound t id ht
  have hvalid : ∀ v ∈ votesOf s.votes id, optsValid v.opts = true :=
    fun v hv => ha.both.v.valid v (mem_votesOf.mp hv).1
  obtain ⟨n, hn, hj, _⟩ := tallyNums_ok (votes := votesOf s.votes id) hvalid hs h5
  obtain ⟨⟨passes, burn⟩, hr⟩ := tally_ok s p0 hj
  unfold tallyOne
  simp only [hp0, hn, hr, h4, if_true]
  exact finishTally_tot (s := { s with votes := votesNot s.votes id }) h2 ha.inv.bal passes burn _ p0 id

/-- … keeps the invariants and the entries of the other proposals -/
theorem tallyOne_step {s s' : State} {stk : Staking} {id : Nat} (h2 : settleShapeOk = true) (h3 : execInCacheCtx = true)
    (h4 : tallyRemovesVotes = true) (ha : All s) (hq : ∃ t, (t, id) ∈ s.active) (hs' : tallyOne stk id s = .ok s') :
    All s' ∧ ∀ id', id' ≠ id → (∃ t, (t, id') ∈ s.active) → ∃ t, (t, id') ∈ s'.active := by
  obtain ⟨t, ht⟩ := hq
  obtain ⟨p0, hp0, hst0, _⟩ := ha.both.q.actSound t id ht
  unfold tallyOne at hs'
  simp only [hp0] at hs'
  split at hs'
  · cases hs'
  · rename_i n hn
    split at hs'
    · cases hs'
    · rename_i passes burn hr
      simp only [h4, if_true] at hs'
      have hi0 : Inv { s with votes := votesNot s.votes id } := ⟨ha.inv.bal, ha.inv.recs, ha.inv.clean⟩
      have hb0 : Both { s with votes := votesNot s.votes id } := ⟨ha.both.q, vi_votesNot ha.both.v id⟩
      have hn0 : ∀ v ∈ votesNot s.votes id, v.pid ≠ id := fun v hv => (mem_votesNot.mp hv).2
      refine ⟨⟨finishTally_inv h2 h3 hi0 hp0 hs', finishTally_both h2 h3 hb0 hi0 hp0 hst0 hn0 hs'⟩, ?_⟩
      intro id' hne ⟨t', ht'⟩
      refine ⟨t', ?_⟩
      unfold finishTally at hs'
      simp only [refundRun_eq, burnRun_eq] at hs'
      simp only [h2, Bool.not_true, Bool.false_and, Bool.false_eq_true, if_false] at hs'
      simp only [h2, if_true] at hs'
      have settle : ∀ s1 : State,
          (if (!(p0.expedited && !passes)) = true then (if burn = true then burnDeposits id { s with votes := votesNot s.votes id }
            else refundDeposits id { s with votes := votesNot s.votes id }) else Except.ok { s with votes := votesNot s.votes id }) = .ok s1 →
          s1.active = s.active := by
        intro s1 hx
        split at hx
        · split at hx
          · exact (burnDeposits_spec hi0.bal hx).2.2.2.2.1
          · exact (refundDeposits_spec hi0.bal hx).2.2.2.2.1
        · cases hx; rfl
      split at hs'
      · cases hs'
      · rename_i s1 hx
        have ea := settle s1 hx
        have hm : (t', id') ∈ removeQ (p0.votingEnd, id) s1.active := by
          rw [ea]; exact mem_removeQ.mpr ⟨ht', fun he => hne (Prod.mk.inj he).2⟩
        split at hs'
        · generalize hr' : runProposalMsgs p0.msgs { s1 with active := removeQ (p0.votingEnd, id) s1.active } = rr at hs'
          obtain ⟨s3, ok⟩ := rr
          simp only at hs'
          cases hs'
          have : s3.active = removeQ (p0.votingEnd, id) s1.active := by
            have e3 : s3 = (runProposalMsgs p0.msgs { s1 with active := removeQ (p0.votingEnd, id) s1.active }).1 := by rw [hr']
            rw [e3]
            exact (runProposalMsgs_same h3 p0.msgs { s1 with active := removeQ (p0.votingEnd, id) s1.active }).2.2.2.2.1
          show (t', id') ∈ s3.active
          rw [this]; exact hm
        · split at hs'
          · cases hs'
            exact mem_insertQ.mpr (Or.inr hm)
          · cases hs'
            exact hm

theorem dueIds_inactive_nodup {s : State} (ha : All s) : (dueIds s.inactive s.time).Nodup :=
  dueIds_nodup ha.both.q.inactSorted (fun t t' id m1 m2 => by
    obtain ⟨p1, f1, _, d1⟩ := ha.both.q.inactSound t id m1
    obtain ⟨p2, f2, _, d2⟩ := ha.both.q.inactSound t' id m2
    rw [f1] at f2; cases f2; rw [← d1, ← d2]) s.time

theorem dueIds_active_nodup {s : State} (ha : All s) : (dueIds s.active s.time).Nodup :=
  dueIds_nodup ha.both.q.actSorted (fun t t' id m1 m2 => by
    obtain ⟨p1, f1, _, d1⟩ := ha.both.q.actSound t id m1
    obtain ⟨p2, f2, _, d2⟩ := ha.both.q.actSound t' id m2
    rw [f1] at f2; cases f2; rw [← d1, ← d2]) s.time

/-- the end-blocker keeps the invariants, whatever the staking numbers are -/
theorem endBlock_pres {s s' : State} {stk : Staking} (h1 : inactiveSettleShapeOk = true) (h2 : settleShapeOk = true)
    (h3 : execInCacheCtx = true) (h4 : tallyRemovesVotes = true) (ha : All s) (h : endBlock stk s = .ok s') : All s' := by
  unfold endBlock at h
  split at h
  · cases h
  · rename_i s1 e1
    have a1 : All s1 := runAll_pres (f := dropInactive) (P := All) (Q := fun id s => ∃ t, (t, id) ∈ s.inactive)
      (fun id s s' ha hq hs' => dropInactive_step h1 ha hq hs') _ s s1 (dueIds_inactive_nodup ha)
      (fun id hid => mem_dueIds hid) ha e1
    exact runAll_pres (f := tallyOne stk) (P := All) (Q := fun id s => ∃ t, (t, id) ∈ s.active)
      (fun id s s' ha hq hs' => tallyOne_step h2 h3 h4 ha hq hs') _ s1 s' (dueIds_active_nodup a1)
      (fun id hid => mem_dueIds hid) a1 h

/-- **the end-blocker is total**: in a state that satisfies the three invariants, with bonded validators that have
delegator shares, both walks succeed on every due entry — no refund or burn lacks funds, no queue entry lacks its
proposal, no tally divides by zero — and the invariants hold again afterwards -/
theorem endBlock_total {s : State} {stk : Staking} (h1 : inactiveSettleShapeOk = true) (h2 : settleShapeOk = true)
    (h3 : execInCacheCtx = true) (h4 : tallyRemovesVotes = true) (h5 : tallyDelegationNeedsBondedValidator = true)
    (ha : All s) (hs : stakingOk stk) : ∃ s', endBlock stk s = .ok s' ∧ All s' := by
  unfold endBlock
  obtain ⟨s1, e1, a1⟩ := runAll_total (f := dropInactive) (P := All) (Q := fun id s => ∃ t, (t, id) ∈ s.inactive)
    (by
      intro id s ha hq
      obtain ⟨s', hs'⟩ := dropInactive_tot h1 ha hq
      have := dropInactive_step h1 ha hq hs'
      exact ⟨s', hs', this.1, this.2⟩)
    (dueIds s.inactive s.time) s (dueIds_inactive_nodup ha) (fun id hid => mem_dueIds hid) ha
  simp only [e1]
  exact runAll_total (f := tallyOne stk) (P := All) (Q := fun id s => ∃ t, (t, id) ∈ s.active)
    (by
      intro id s ha hq
      obtain ⟨s', hs'⟩ := tallyOne_tot h2 h4 h5 ha hq hs
      have := tallyOne_step h2 h3 h4 ha hq hs'
      exact ⟨s', hs', this.1, this.2⟩)
    (dueIds s1.active s1.time) s1 (dueIds_active_nodup a1) (fun id hid => mem_dueIds hid) a1

/-! ### every history -/

theorem step_all (h1 : inactiveSettleShapeOk = true) (h2 : settleShapeOk = true) (h3 : execInCacheCtx = true)
    (h4 : tallyRemovesVotes = true) {s : State} (op : Op) (hop : opNoGovSpend op = true) (ha : All s) : All (step s op).1 := by
  refine ⟨step_inv h1 h2 h3 op hop ha.inv, ?_⟩
  cases op with
  | mint who amt => exact both_of_eq ha.both rfl rfl rfl rfl rfl
  | updateParams p => simp only [step]; split <;> exact both_of_eq ha.both rfl rfl rfl rfl rfl
  | updateCustom url c =>
    simp only [step]
    split
    · exact both_of_eq ha.both rfl rfl rfl rfl rfl
    · split <;> exact both_of_eq ha.both rfl rfl rfl rfl rfl
  | submit who msgs initial exp =>
    simp only [step, Model.C15.ofExcept]
    split
    · rename_i s' h; exact submit_both ha.both h
    · exact ha.both
  | deposit pid who amt =>
    simp only [step, Model.C15.ofExcept]
    split
    · rename_i s' h
      unfold deposit at h
      split at h
      · cases h
      · exact addDeposit_both ha.both h
    · exact ha.both
  | depositX pid who fx other =>
    simp only [step, Model.C15.ofExcept]
    split
    · rename_i s' h
      have h := (depositX_ok h).2
      unfold deposit at h
      split at h
      · cases h
      · exact addDeposit_both ha.both h
    · exact ha.both
  | cancel pid who =>
    simp only [step, Model.C15.ofExcept, cancelRun_eq]
    split
    · rename_i s' h; exact cancel_both ha.both h
    · exact ha.both
  | vote pid voter opts =>
    simp only [step, Model.C15.ofExcept]
    split
    · rename_i s' h; exact vote_both ha.both h
    · exact ha.both
  | spend who amt =>
    simp only [step]
    split
    · exact ha.both
    · exact both_of_eq ha.both rfl rfl rfl rfl rfl
  | endBlock dt stk =>
    simp only [step]
    split
    · rename_i s' hs'
      exact both_of_eq (endBlock_pres h1 h2 h3 h4 ha hs').both rfl rfl rfl rfl rfl
    · exact ha.both

/-- the invariants hold after every history, whatever the staking numbers handed to the blocks were (a block whose
end-blocker returns an error leaves the model state unchanged) -/
theorem run_all (h1 : inactiveSettleShapeOk = true) (h2 : settleShapeOk = true) (h3 : execInCacheCtx = true)
    (h4 : tallyRemovesVotes = true) : ∀ (ops : List Op), NoGovSpend ops = true → ∀ (s : State), All s → All (run s ops) := by
  intro ops
  induction ops with
  | nil => intro _ s ha; exact ha
  | cons o r ih =>
    intro hc s ha
    have hc' : opNoGovSpend o = true ∧ NoGovSpend r = true := by simpa [NoGovSpend] using hc
    exact ih hc'.2 _ (step_all h1 h2 h3 h4 o hc'.1 ha)

theorem init_all : All init := ⟨init_inv, init_qinv, init_vinv⟩

end FxVerif.Proofs.C15
