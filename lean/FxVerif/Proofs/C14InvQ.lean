import FxVerif.Proofs.C14Inv
/-!
# C14 — an invariant of every history: every element of a time-queue slice announces an entry of its record

`QueueInv m q`: the queue has one slice per completion time, and every element `x` of the slice stored under `t` names a
record `x` of `m` that holds an entry completing at `t`.  `QInv s` is this for the unbonding queue (0x41) and the
redelegation queue (0x42).  It holds without staking records and is preserved by every operation, migrations included.
-/
namespace FxVerif.Proofs.C14
open FxVerif.Model.C14

theorem mem_put {κ ν : Type} [BEq κ] [LawfulBEq κ] (m : Store κ ν) (k : κ) (v : ν) (p : κ × ν) :
    p ∈ put m k v ↔ p = (k, v) ∨ (p ∈ m ∧ p.1 ≠ k) := by
  simp only [put, del, List.mem_cons, List.mem_filter, Bool.not_eq_true', beq_eq_false_iff_ne, ne_eq]

theorem nodup_keys_filter {κ ν : Type} (m : Store κ ν) (P : κ × ν → Bool) (h : (m.map (·.1)).Nodup) :
    ((m.filter P).map (·.1)).Nodup :=
  List.Nodup.sublist ((List.filter_sublist (l := m)).map _) h

theorem nodup_put {κ ν : Type} [BEq κ] [LawfulBEq κ] (m : Store κ ν) (k : κ) (v : ν) (h : (m.map (·.1)).Nodup) :
    ((put m k v).map (·.1)).Nodup := by
  simp only [put, List.map_cons, List.nodup_cons]
  refine ⟨fun hm => ?_, nodup_keys_filter m _ h⟩
  obtain ⟨p, hp, e⟩ := List.mem_map.mp hm
  have := (List.mem_filter.mp hp).2
  simp [e] at this

section queue
variable {γ : Type} [BEq γ] [LawfulBEq γ]

abbrev Recs (γ : Type) := Store (Addr × γ) (List (Time × Nat × Nat))

structure QueueInv (m : Recs γ) (q : Queue γ) : Prop where
  nodup : (q.map (·.1)).Nodup
  ann : ∀ p ∈ q, ∀ x ∈ p.2, ∃ es, get m x = some es ∧ ∃ e ∈ es, e.1 = p.1

theorem mem_of_get_nodup {κ ν : Type} [BEq κ] [LawfulBEq κ] (m : Store κ ν) (h : (m.map (·.1)).Nodup) (p : κ × ν) (hp : p ∈ m) :
    get m p.1 = some p.2 := by
  induction m with
  | nil => cases hp
  | cons r m ih =>
    have hnd : r.1 ∉ m.map (·.1) ∧ (m.map (·.1)).Nodup := List.nodup_cons.mp h
    rw [get_cons]
    rcases List.mem_cons.mp hp with rfl | hp'
    · simp
    · have : (p.1 == r.1) = false := by
        cases hh : p.1 == r.1
        · rfl
        · exact absurd (List.mem_map.mpr ⟨p, hp', eq_of_beq hh⟩) hnd.1
      simp only [this, Bool.false_eq_true, ↓reduceIte]
      exact ih hnd.2 hp'

/-- a new entry list `es'` for record `x` (keeping the completion times it had, with an entry at `t`) and the element
`x` appended to the slice of `t` -/
theorem QueueInv.push {m : Recs γ} {q : Queue γ} (h : QueueInv m q) (x : Addr × γ) (t : Time)
    (es' : List (Time × Nat × Nat)) (hkeep : ∀ es, get m x = some es → ∀ e ∈ es, ∃ e' ∈ es', e'.1 = e.1)
    (hnew : ∃ e ∈ es', e.1 = t) :
    QueueInv (put m x es') (put q t ((get q t).getD [] ++ [x])) := by
  refine ⟨nodup_put q t _ h.nodup, fun p hp y hy => ?_⟩
  have rec_of : ∀ (y : Addr × γ) (t' : Time), (∃ es, get m y = some es ∧ ∃ e ∈ es, e.1 = t') →
      ∃ es, get (put m x es') y = some es ∧ ∃ e ∈ es, e.1 = t' := by
    intro y t' ⟨es, hg, e, he, het⟩
    by_cases hyx : y = x
    · subst hyx
      obtain ⟨e', he', het'⟩ := hkeep es hg e he
      exact ⟨es', get_put_eq _ _ _, e', he', het'.trans het⟩
    · exact ⟨es, by rw [get_put_ne _ _ _ _ hyx]; exact hg, e, he, het⟩
  rcases (mem_put q t _ p).mp hp with rfl | ⟨hpq, _⟩
  · simp only [List.mem_append, List.mem_cons, List.not_mem_nil, or_false] at hy
    rcases hy with hy | rfl
    · cases hg : get q t with
      | none => rw [hg] at hy; simp at hy
      | some sl =>
        rw [hg] at hy
        simp only [Option.getD_some] at hy
        exact rec_of y t (h.ann (t, sl) (get_some_mem q t sl hg) y hy)
    · obtain ⟨e, he, het⟩ := hnew
      exact ⟨es', get_put_eq _ _ _, e, he, het⟩
  · exact rec_of y p.1 (h.ann p hpq y hy)

/-- maturation of one record: entries up to `now` leave; the slices that remain all lie after `now` -/
theorem QueueInv.complete {m : Recs γ} {q : Queue γ} (h : QueueInv m q) (now : Time) (hq : ∀ p ∈ q, ¬ p.1 ≤ now)
    (x : Addr × γ) (es : List (Time × Nat × Nat)) (hes : get m x = some es) :
    QueueInv (if (es.filter (fun e => !(e.1 ≤ now))).isEmpty then del m x else put m x (es.filter (fun e => !(e.1 ≤ now)))) q := by
  refine ⟨h.nodup, fun p hp y hy => ?_⟩
  obtain ⟨es0, hg, e, he, het⟩ := h.ann p hp y hy
  by_cases hyx : y = x
  · subst hyx
    rw [hes] at hg; cases hg
    have hin : e ∈ es.filter (fun e => !(e.1 ≤ now)) := by
      refine List.mem_filter.mpr ⟨he, ?_⟩
      have := hq p hp
      rw [← het] at this
      simpa using this
    have hne : (es.filter (fun e => !(e.1 ≤ now))).isEmpty = false := by
      cases hh : (es.filter (fun e => !(e.1 ≤ now))) with
      | nil => rw [hh] at hin; cases hin
      | cons _ _ => rfl
    rw [hne]
    exact ⟨_, get_put_eq _ _ _, e, hin, het⟩
  · refine ⟨es0, ?_, e, he, het⟩
    split
    · rw [get_del_ne _ _ _ hyx]; exact hg
    · rw [get_put_ne _ _ _ _ hyx]; exact hg

/-- the records and the queue after `Execute` moved the records of `frm` to `to` -/
theorem QueueInv.migrate {m : Recs γ} {q : Queue γ} (h : QueueInv m q) (frm to : Addr) (hne : frm ≠ to)
    (hto : ∀ p ∈ m, p.1.1 ≠ to) :
    QueueInv ((entriesOf m frm).foldl (rekeyStep frm to) m) ((entryTimes m frm).foldl (qStep frm to) q) := by
  rw [qFold_exact frm to hne _ q h.nodup]
  have hkeys : (q.map (fun p => if p.1 ∈ entryTimes m frm then (p.1, p.2.map (renG frm to)) else p)).map (·.1) = q.map (·.1) := by
    rw [List.map_map]
    apply List.map_congr_left
    intro p _
    by_cases h1 : p.1 ∈ entryTimes m frm <;> simp [h1]
  refine ⟨by rw [hkeys]; exact h.nodup, fun p' hp' y' hy' => ?_⟩
  obtain ⟨p, hp, rfl⟩ := List.mem_map.mp hp'
  -- the element before renaming, and its record
  have key : ∀ y ∈ p.2, ∃ es, get ((entriesOf m frm).foldl (rekeyStep frm to) m) (renG frm to y) = some es ∧
      ∃ e ∈ es, e.1 = p.1 := by
    intro y hy
    obtain ⟨es, hg, e, he, het⟩ := h.ann p hp y hy
    refine ⟨es, ?_, e, he, het⟩
    obtain ⟨ya, yx⟩ := y
    have hya : ya ≠ to := fun e' => hto ((ya, yx), es) (get_some_mem m _ _ hg) e'
    by_cases h1 : ya = frm
    · subst h1
      have : renG ya to (ya, yx) = (to, yx) := by simp [renG]
      rw [this, rekey_spec m ya to hne hto to yx]
      simp [hg]
    · rw [renG_of_ne frm to (ya, yx) h1, rekey_spec m frm to hne hto ya yx]
      simp [h1, hya, hg]
  by_cases ht : p.1 ∈ entryTimes m frm
  · rw [if_pos ht] at hy' ⊢
    obtain ⟨y, hy, rfl⟩ := List.mem_map.mp hy'
    exact key y hy
  · rw [if_neg ht] at hy' ⊢
    obtain ⟨es, hg, e, he, het⟩ := h.ann p hp y' hy'
    have h1 : y'.1 ≠ frm := by
      intro e1
      apply ht
      refine (mem_entryTimes m frm p.1).mpr ⟨y'.2, es, ?_, e, he, het⟩
      rw [← e1]; exact hg
    have := key y' hy'
    rwa [renG_of_ne frm to y' h1] at this

end queue

/-- both time queues announce entries of their records -/
structure QInv (s : State) : Prop where
  u : QueueInv s.ubds s.ubdQ
  r : QueueInv s.reds s.redQ

theorem qInv_of_fields {s s' : State} (h : QInv s) (e1 : s'.ubds = s.ubds) (e2 : s'.ubdQ = s.ubdQ)
    (e3 : s'.reds = s.reds) (e4 : s'.redQ = s.redQ) : QInv s' :=
  ⟨by rw [e1, e2]; exact h.u, by rw [e3, e4]; exact h.r⟩

/-- the four fields of the queue invariant are left alone -/
structure QFrame (s s' : State) : Prop where
  ubds : s'.ubds = s.ubds
  ubdQ : s'.ubdQ = s.ubdQ
  reds : s'.reds = s.reds
  redQ : s'.redQ = s.redQ

theorem QFrame.refl (s : State) : QFrame s s := ⟨rfl, rfl, rfl, rfl⟩
theorem QFrame.trans {a b c : State} (h1 : QFrame a b) (h2 : QFrame b c) : QFrame a c :=
  ⟨h2.ubds.trans h1.ubds, h2.ubdQ.trans h1.ubdQ, h2.reds.trans h1.reds, h2.redQ.trans h1.redQ⟩
theorem QInv.frame {s s' : State} (h : QInv s) (f : QFrame s s') : QInv s' := qInv_of_fields h f.ubds f.ubdQ f.reds f.redQ

theorem qframe_touchPre {s s' : State} {d v rw} (e : touchPre s d v rw = some s') : QFrame s s' := by
  unfold touchPre at e
  split at e
  · cases e; exact ⟨rfl, rfl, rfl, rfl⟩
  · split at e
    · cases e
    · cases e; exact ⟨rfl, rfl, rfl, rfl⟩

theorem qframe_addShares {s s' : State} {d v amt rw} (e : addShares s d v amt rw = some s') : QFrame s s' := by
  unfold addShares at e
  split at e
  · cases e
  · rename_i s1 h1
    cases e
    exact (qframe_touchPre h1).trans ⟨rfl, rfl, rfl, rfl⟩

theorem qframe_delegate {s s' : State} {d v amt rw} (e : delegate s d v amt rw = some s') : QFrame s s' := by
  unfold delegate at e
  split at e
  · cases e
  · split at e
    · cases e
    · rename_i s1 h1
      split at e
      · cases e
      · cases e; exact (qframe_touchPre h1).trans ⟨rfl, rfl, rfl, rfl⟩

theorem qframe_unbond {s s' : State} {d v amt rw} (e : unbond s d v amt rw = some s') : QFrame s s' := by
  unfold unbond at e
  split at e
  · cases e
  · split at e
    · cases e
    · split at e
      · cases e
      · rename_i s1 h1
        cases e
        refine (qframe_touchPre h1).trans ?_
        split <;> exact ⟨rfl, rfl, rfl, rfl⟩

theorem qframe_withdraw {s s' : State} {d v rw} (e : withdraw s d v rw = some s') : QFrame s s' := by
  unfold withdraw at e
  split at e
  · cases e
  · split at e
    · cases e
    · rename_i s1 h1
      cases e; exact (qframe_touchPre h1).trans ⟨rfl, rfl, rfl, rfl⟩

theorem addEntry_keep (es : List (Time × Nat × Nat)) (t amt id lo : Nat) :
    ∀ e ∈ es, ∃ e' ∈ (addEntry es t amt id lo).1, e'.1 = e.1 := by
  intro e he
  unfold addEntry
  split
  · exact ⟨_, List.mem_map.mpr ⟨e, he, rfl⟩, by split <;> rfl⟩
  · exact ⟨e, List.mem_append_left _ he, rfl⟩

theorem addEntry_new (es : List (Time × Nat × Nat)) (t amt id lo : Nat) : ∃ e ∈ (addEntry es t amt id lo).1, e.1 = t := by
  unfold addEntry
  split
  · rename_i h
    obtain ⟨e, he, het⟩ := List.any_eq_true.mp h
    have h1 : (e.1 == t) = true := by simp only [Bool.and_eq_true] at het; exact het.1
    exact ⟨_, List.mem_map.mpr ⟨e, he, rfl⟩, by simp only [het, ↓reduceIte]; exact eq_of_beq h1⟩
  · exact ⟨(t, amt, id), List.mem_append_right _ (List.mem_cons_self ..), rfl⟩

theorem qInv_undelegate {s s' : State} {d v amt rw} (h : QInv s) (e : undelegate s d v amt rw = some s') : QInv s' := by
  unfold undelegate at e
  split at e
  · cases e
  · simp only [] at e
    split at e
    · cases e
    · split at e
      · cases e
      · rename_i s1 h1
        split at e
        · cases e
        · cases e
          have f1 := qframe_unbond h1
          have i1 := h.frame f1
          refine ⟨?_, i1.r⟩
          refine i1.u.push (d, v) (s.now + s.unbondTime) _ (fun es hes e he => ?_) (addEntry_new _ _ _ _ _)
          have : (get s.ubds (d, v)).getD [] = es := by rw [← f1.ubds, hes]; rfl
          rw [this]
          exact addEntry_keep es _ _ _ _ e he

theorem qInv_redelegate {s s' : State} {d a b amt r1 r2} (h : QInv s) (e : redelegate s d a b amt r1 r2 = some s') :
    QInv s' := by
  unfold redelegate at e
  split at e
  · cases e
  · split at e
    · cases e
    · simp only [] at e
      split at e
      · cases e
      · split at e
        · cases e
        · rename_i s1 h1
          split at e
          · cases e
          · rename_i s2 h2
            cases e
            have f2 := (qframe_unbond h1).trans (qframe_addShares h2)
            have i2 := h.frame f2
            refine ⟨i2.u, ?_⟩
            refine i2.r.push (d, a, b) (s.now + s.unbondTime) _ (fun es hes e he => ?_)
              ⟨_, List.mem_append_right _ (List.mem_cons_self ..), rfl⟩
            have : (get s.reds (d, a, b)).getD [] = es := by rw [← f2.reds, hes]; rfl
            rw [this]
            exact ⟨e, List.mem_append_left _ he, rfl⟩

/-- the fold of the unbonding half of the end blocker: the clock stands, the remaining slices lie after it -/
structure EndU (now : Time) (s0 s : State) : Prop where
  now_ : s.now = now
  q : QueueInv s.ubds s.ubdQ
  after : ∀ p ∈ s.ubdQ, ¬ p.1 ≤ now
  reds : s.reds = s0.reds
  redQ : s.redQ = s0.redQ

theorem endU_completeUnbonding {now : Time} {s0 s : State} (h : EndU now s0 s) (d : Addr) (v : Val) :
    EndU now s0 (completeUnbonding s d v) := by
  unfold completeUnbonding
  split
  · exact h
  · rename_i es hes
    simp only []
    have hc := h.q.complete now h.after (d, v) es hes
    rw [h.now_]
    split
    · rename_i hemp
      rw [hemp] at hc
      exact ⟨rfl, hc, h.after, h.reds, h.redQ⟩
    · rename_i hemp
      have : (es.filter (fun e => !(e.1 ≤ now))).isEmpty = false := by simpa using hemp
      rw [this] at hc
      exact ⟨rfl, hc, h.after, h.reds, h.redQ⟩

structure EndR (now : Time) (s0 s : State) : Prop where
  now_ : s.now = now
  q : QueueInv s.reds s.redQ
  after : ∀ p ∈ s.redQ, ¬ p.1 ≤ now
  ubds : s.ubds = s0.ubds
  ubdQ : s.ubdQ = s0.ubdQ

theorem endR_completeRedelegation {now : Time} {s0 s : State} (h : EndR now s0 s) (d : Addr) (a b : Val) :
    EndR now s0 (completeRedelegation s d a b) := by
  unfold completeRedelegation
  split
  · exact h
  · rename_i es hes
    simp only []
    have hc := h.q.complete now h.after (d, a, b) es hes
    rw [h.now_]
    split
    · rename_i hemp
      rw [hemp] at hc
      exact ⟨rfl, hc, h.after, h.ubds, h.ubdQ⟩
    · rename_i hemp
      have : (es.filter (fun e => !(e.1 ≤ now))).isEmpty = false := by simpa using hemp
      rw [this] at hc
      exact ⟨rfl, hc, h.after, h.ubds, h.ubdQ⟩

theorem queueInv_filter {γ : Type} [BEq γ] [LawfulBEq γ] {m : Recs γ} {q : Queue γ} (h : QueueInv m q) (P : Time × List (Addr × γ) → Bool) :
    QueueInv m (q.filter P) :=
  ⟨nodup_keys_filter q P h.nodup, fun p hp => h.ann p (List.mem_filter.mp hp).1⟩

theorem qInv_stakingEnd {s : State} (h : QInv s) : QInv (stakingEnd s) := by
  rw [stakingEnd_eq]
  have hU : EndU s.now s (stakingEndU s) := by
    unfold stakingEndU
    refine foldl_inv (EndU s.now s) _ (fun s' (p : Addr × Val) hs => endU_completeUnbonding hs p.1 p.2) _ _ ?_
    exact ⟨rfl, queueInv_filter h.u _, fun p hp => by simpa using (List.mem_filter.mp hp).2, rfl, rfl⟩
  have hR : EndR (stakingEndU s).now (stakingEndU s) (stakingEndR (stakingEndU s)) := by
    unfold stakingEndR
    refine foldl_inv (EndR (stakingEndU s).now (stakingEndU s)) _
      (fun s' (p : Addr × Val × Val) hs => endR_completeRedelegation hs p.1 p.2.1 p.2.2) _ _ ?_
    refine ⟨rfl, queueInv_filter ?_ _, fun p hp => by simpa using (List.mem_filter.mp hp).2, rfl, rfl⟩
    rw [hU.reds, hU.redQ]; exact h.r
  refine ⟨?_, hR.q⟩
  rw [hR.ubds, hR.ubdQ]; exact hU.q

theorem govEnd_qframe (s : State) : QFrame s (govEnd s) := by
  unfold govEnd
  refine ⟨?_, ?_, ?_, ?_⟩
  · exact (foldl_keep (fun s : State => s.ubds) _ (by intros; rfl) _ _).trans (foldl_keep (fun s : State => s.ubds) _ (by intros; rfl) _ _)
  · exact (foldl_keep (fun s : State => s.ubdQ) _ (by intros; rfl) _ _).trans (foldl_keep (fun s : State => s.ubdQ) _ (by intros; rfl) _ _)
  · exact (foldl_keep (fun s : State => s.reds) _ (by intros; rfl) _ _).trans (foldl_keep (fun s : State => s.reds) _ (by intros; rfl) _ _)
  · exact (foldl_keep (fun s : State => s.redQ) _ (by intros; rfl) _ _).trans (foldl_keep (fun s : State => s.redQ) _ (by intros; rfl) _ _)

theorem qInv_endBlock {s : State} (h : QInv s) (dt : Nat) : QInv (endBlock s dt) := by
  unfold endBlock
  exact ((qInv_stakingEnd h).frame (govEnd_qframe _)).frame ⟨rfl, rfl, rfl, rfl⟩

theorem qInv_stakingExecute (c : Cfg) (hq1 : c.qEveryEntry = true) (hq2 : c.qByDelegator = true) {s : State} (h : QInv s)
    (frm to : Addr) (hne : frm ≠ to) (hto : (∀ p ∈ s.ubds, p.1.1 ≠ to) ∧ (∀ p ∈ s.reds, p.1.1 ≠ to)) :
    QInv (stakingExecute c s frm to) := by
  refine ⟨?_, ?_⟩
  · rw [exec_ubdsG, exec_ubdQ c hq1 hq2]; exact h.u.migrate frm to hne hto.1
  · rw [exec_reds, exec_redQ c hq1 hq2]; exact h.r.migrate frm to hne hto.2

end FxVerif.Proofs.C14
