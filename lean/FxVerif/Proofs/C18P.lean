import FxVerif.Model.C18P
import Lean.Elab.Tactic
/-!
# C18 — symbolic execution of the regenerated boundary programs: evaluation lemmas, loop rule

`exec` is evaluated lazily: `exec (.seq a b) st = seqK (exec a st) b`, and `seqK` only continues with `b` once the result
of `a` is a literal (or pushes itself into the branches of an `if`), so the statements after an early `return` are never
unfolded on a symbolic state.  Loops stay folded; they are discharged with the Hoare rule `iterate_inv`.
-/
namespace FxVerif.Proofs.C18P
open FxVerif.Gen.C18 FxVerif.Model.C18P

def NoPanic (env : Env) : Prop := ∀ n i, env.panics n i = false

/-! ## continuation forms -/

def seqK (env : Env) (r : Flow × St) (b : Stmt) (it : Nat) : Flow × St :=
  match r with
  | (.norm, st') => exec env b it st'
  | r => r

def blockK (r : Flow × St) : Flow × St :=
  match r with
  | (.brk, st') => (.norm, st')
  | r => r

def inlK (r : Flow × St) (named recov err : Option Var) : Flow × St :=
  match r with
  | (.ret ok, st') => (.norm, setVar st' err ok)
  | (.norm, st') => (.norm, setVar st' err true)
  | (.panic, st') =>
    match recov with
    | none => (.panic, st')
    | some v =>
      let st'' := if v.id == 0 then st' else setVar st' (some v) false
      let ok := match named with
        | some n => st''.isOk n
        | none => true
      (.norm, setVar st'' err ok)
  | r => r

theorem exec_seq (env : Env) (a b : Stmt) (it : Nat) (st : St) :
    exec env (.seq a b) it st = seqK env (exec env a it st) b it := by
  simp only [exec, seqK]
  generalize exec env a it st = r
  obtain ⟨fl, st'⟩ := r
  cases fl <;> rfl

theorem exec_block (env : Env) (b : Stmt) (it : Nat) (st : St) :
    exec env (.block b) it st = blockK (exec env b it st) := by
  simp only [exec, blockK]
  generalize exec env b it st = r
  obtain ⟨fl, st'⟩ := r
  cases fl <;> rfl

theorem exec_inl (env : Env) (n : String) (named recov err : Option Var) (b : Stmt) (it : Nat) (st : St) :
    exec env (.inl n named recov err b) it st = inlK (exec env b it st) named recov err := by
  simp only [exec, inlK]
  generalize exec env b it st = r
  obtain ⟨fl, st'⟩ := r
  cases fl <;> rfl

theorem exec_skip (env : Env) (it : Nat) (st : St) : exec env .skip it st = (.norm, st) := by simp only [exec]
theorem exec_open (env : Env) (k : Nat) (p : Ctx) (it : Nat) (st : St) :
    exec env (.openCache k p) it st = (.norm, { st with caches := (k, p, []) :: st.caches.filter (fun c => c.1 != k) }) := by
  simp only [exec]
theorem exec_commit (env : Env) (k : Nat) (it : Nat) (st : St) : exec env (.commit k) it st = (.norm, commitCache st k) := by
  simp only [exec]
/-- a call forks on everything the later control flow can depend on (ok / error, VM error kind), so that the state
stays a literal in every branch -/
theorem exec_call (env : Env) (name : String) (c : Ctx) (err resp : Option Var) (args : List Var) (it : Nat) (st : St) :
    exec env (.call name c err resp args) it st =
      if env.panics name it then (.panic, markFailed (writeMany st c [⟨name, it, args.map st.isOk⟩]) c true)
      else if env.ok name it then
        (if env.evm name it = .ok ∨ resp = none then
          (.norm, setEvm (setVar (writeMany st c [⟨name, it, args.map st.isOk⟩]) err true) resp (env.evm name it))
        else (.norm, markFailed (setEvm (setVar (writeMany st c [⟨name, it, args.map st.isOk⟩]) err true) resp (env.evm name it)) c true))
      else (.norm, markFailed (setEvm (setVar (writeMany st c [⟨name, it, args.map st.isOk⟩]) err false) resp (env.evm name it)) c true) := by
  simp only [exec]
  cases env.panics name it <;> cases hok : env.ok name it <;> cases resp <;> simp [markFailed]
  · cases c <;> simp
  · cases c <;> simp
    split <;> simp_all
theorem exec_panic (env : Env) (it : Nat) (st : St) : exec env .panic it st = (.panic, st) := by simp only [exec]
theorem exec_setErr (env : Env) (v : Var) (ok : Bool) (it : Nat) (st : St) :
    exec env (.setErr v ok) it st = (.norm, setVar st (some v) ok) := by simp only [exec]
theorem exec_ite (env : Env) (c : Cond) (t e : Stmt) (it : Nat) (st : St) :
    exec env (.ite c t e) it st = if evalCond env it st c then exec env t it st else exec env e it st := by simp only [exec]
theorem exec_brk (env : Env) (it : Nat) (st : St) : exec env .brk it st = (.brk, st) := by simp only [exec]
theorem exec_cont (env : Env) (it : Nat) (st : St) : exec env .cont it st = (.cont, st) := by simp only [exec]
theorem exec_ret (env : Env) (r : Ret) (it : Nat) (st : St) : exec env (.ret r) it st = (.ret (retOk env it st r), st) := by
  simp only [exec]
theorem exec_loop (env : Env) (id : Nat) (b : Stmt) (it : Nat) (st : St) :
    exec env (.loop id b) it st = iterate (fun i s => exec env b i s) (env.iters id it) (it * env.stride) st := by simp only [exec]

theorem seqK_norm (env : Env) (st : St) (b : Stmt) (it : Nat) : seqK env (.norm, st) b it = exec env b it st := rfl
theorem seqK_brk (env : Env) (st : St) (b : Stmt) (it : Nat) : seqK env (.brk, st) b it = (.brk, st) := rfl
theorem seqK_cont (env : Env) (st : St) (b : Stmt) (it : Nat) : seqK env (.cont, st) b it = (.cont, st) := rfl
theorem seqK_ret (env : Env) (ok : Bool) (st : St) (b : Stmt) (it : Nat) : seqK env (.ret ok, st) b it = (.ret ok, st) := rfl
theorem seqK_panic (env : Env) (st : St) (b : Stmt) (it : Nat) : seqK env (.panic, st) b it = (.panic, st) := rfl
theorem seqK_ite (env : Env) (c : Prop) [Decidable c] (x y : Flow × St) (b : Stmt) (it : Nat) :
    seqK env (if c then x else y) b it = if c then seqK env x b it else seqK env y b it := by
  split <;> rfl

theorem blockK_norm (st : St) : blockK (.norm, st) = (.norm, st) := rfl
theorem blockK_brk (st : St) : blockK (.brk, st) = (.norm, st) := rfl
theorem blockK_cont (st : St) : blockK (.cont, st) = (.cont, st) := rfl
theorem blockK_ret (ok : Bool) (st : St) : blockK (.ret ok, st) = (.ret ok, st) := rfl
theorem blockK_panic (st : St) : blockK (.panic, st) = (.panic, st) := rfl
theorem blockK_ite (c : Prop) [Decidable c] (x y : Flow × St) :
    blockK (if c then x else y) = if c then blockK x else blockK y := by
  split <;> rfl

theorem inlK_norm (st : St) (named recov err : Option Var) : inlK (.norm, st) named recov err = (.norm, setVar st err true) := rfl
theorem inlK_ret (ok : Bool) (st : St) (named recov err : Option Var) :
    inlK (.ret ok, st) named recov err = (.norm, setVar st err ok) := rfl
theorem inlK_brk (st : St) (named recov err : Option Var) : inlK (.brk, st) named recov err = (.brk, st) := rfl
theorem inlK_cont (st : St) (named recov err : Option Var) : inlK (.cont, st) named recov err = (.cont, st) := rfl
theorem inlK_panic_none (st : St) (named err : Option Var) : inlK (.panic, st) named none err = (.panic, st) := rfl
theorem inlK_panic_some (st : St) (named err : Option Var) (v : Var) :
    inlK (.panic, st) named (some v) err =
      (.norm, setVar (if v.id == 0 then st else setVar st (some v) false) err
        (match named with
          | some n => (if v.id == 0 then st else setVar st (some v) false).isOk n
          | none => true)) := rfl
theorem inlK_ite (c : Prop) [Decidable c] (x y : Flow × St) (named recov err : Option Var) :
    inlK (if c then x else y) named recov err = if c then inlK x named recov err else inlK y named recov err := by
  split <;> rfl

/-! ## Hoare rule for loops -/

theorem iterate_inv (f : Nat → St → Flow × St) (Inv : Nat → St → Prop) (Q : Flow × St → Prop)
    (hstep : ∀ i st, Inv i st →
      match f i st with
      | (.norm, st') => Inv (i + 1) st'
      | (.cont, st') => Inv (i + 1) st'
      | (.brk, st') => Q (.norm, st')
      | r => Q r) :
    ∀ n i st, Inv i st → (∀ st', Inv (i + n) st' → Q (.norm, st')) → Q (iterate f n i st) := by
  intro n
  induction n with
  | zero => intro i st h hend; exact hend st h
  | succ n ih =>
    intro i st h hend
    have hs := hstep i st h
    have hend' : ∀ st', Inv (i + 1 + n) st' → Q (.norm, st') := by
      intro st' h'
      apply hend
      have : i + (n + 1) = i + 1 + n := by omega
      rw [this]; exact h'
    unfold iterate
    generalize f i st = r at hs
    obtain ⟨fl, st'⟩ := r
    cases fl <;> simp only at hs ⊢
    · exact ih _ _ hs hend'
    · exact hs
    · exact ih _ _ hs hend'
    · exact hs
    · exact hs

/-- the same with the iteration index bounded in the step obligation -/
theorem iterate_inv_bdd (f : Nat → St → Flow × St) (Inv : Nat → St → Prop) (Q : Flow × St → Prop) :
    ∀ n i st, Inv i st →
    (∀ j st, i ≤ j → j < i + n → Inv j st →
      match f j st with
      | (.norm, st') => Inv (j + 1) st'
      | (.cont, st') => Inv (j + 1) st'
      | (.brk, st') => Q (.norm, st')
      | r => Q r) →
    (∀ st', Inv (i + n) st' → Q (.norm, st')) → Q (iterate f n i st) := by
  intro n
  induction n with
  | zero => intro i st h _ hend; exact hend st h
  | succ n ih =>
    intro i st h hstep hend
    have hs := hstep i st (Nat.le_refl i) (by omega) h
    have hend' : ∀ st', Inv (i + 1 + n) st' → Q (.norm, st') := by
      intro st' h'
      apply hend
      have : i + (n + 1) = i + 1 + n := by omega
      rw [this]; exact h'
    have hstep' : ∀ j st, i + 1 ≤ j → j < i + 1 + n → Inv j st →
        match f j st with
        | (.norm, st') => Inv (j + 1) st'
        | (.cont, st') => Inv (j + 1) st'
        | (.brk, st') => Q (.norm, st')
        | r => Q r := fun j st h1 h2 h3 => hstep j st (by omega) (by omega) h3
    unfold iterate
    generalize f i st = r at hs
    obtain ⟨fl, st'⟩ := r
    cases fl <;> simp only at hs ⊢
    · exact ih _ _ hs hstep' hend'
    · exact hs
    · exact ih _ _ hs hstep' hend'
    · exact hs
    · exact hs

theorem toks_snoc (name : String) : ∀ n i, toks name (n + 1) i = toks name n i ++ [⟨name, i + n, []⟩] := by
  intro n
  induction n with
  | zero => intro i; simp [toks]
  | succ n ih =>
    intro i
    rw [toks, ih (i + 1), toks]
    have : i + 1 + n = i + (n + 1) := by omega
    simp [this]

/-- lazy symbolic evaluation of `exec` on a literal state (loops stay folded) -/
macro "c18eval" : tactic => `(tactic| simp [run, seqs, exec_seq, exec_block, exec_inl, exec_skip, exec_open, exec_commit, exec_call, exec_panic,
  exec_setErr, exec_ite, exec_brk, exec_cont, exec_ret, seqK_norm, seqK_brk, seqK_cont, seqK_ret, seqK_panic, seqK_ite,
  blockK_norm, blockK_brk, blockK_cont, blockK_ret, blockK_panic, blockK_ite, inlK_norm, inlK_ret, inlK_brk, inlK_cont,
  inlK_panic_none, inlK_panic_some, inlK_ite, writeMany, isOpen, markFailed, setVar, setEvm, evalCond, St.isOk, St.evmOf,
  retOk, commitCache, St.init, List.filter_cons, List.filter_nil, *])

macro "c18eval" "at" h:ident : tactic => `(tactic| simp [run, seqs, exec_seq, exec_block, exec_inl, exec_skip, exec_open, exec_commit, exec_call, exec_panic,
  exec_setErr, exec_ite, exec_brk, exec_cont, exec_ret, seqK_norm, seqK_brk, seqK_cont, seqK_ret, seqK_panic, seqK_ite,
  blockK_norm, blockK_brk, blockK_cont, blockK_ret, blockK_panic, blockK_ite, inlK_norm, inlK_ret, inlK_brk, inlK_cont,
  inlK_panic_none, inlK_panic_some, inlK_ite, writeMany, isOpen, markFailed, setVar, setEvm, evalCond, St.isOk, St.evmOf,
  retOk, commitCache, St.init, List.filter_cons, List.filter_nil] at $h:ident)

open Lean Elab Tactic Meta in
/-- case split on the condition of the outermost `if` of the goal and simplify with it -/
elab "c18split" : tactic => withMainContext do
  let t ← instantiateMVars (← getMainTarget)
  match t.find? (fun e => e.isAppOfArity ``ite 5 && !(e.getArg! 1).hasLooseBVars) with
  | none => throwError "no if-then-else in the goal"
  | some c =>
    let stx ← Term.exprToSyntax (c.getArg! 1)
    evalTactic (← `(tactic| by_cases h : $stx <;> simp [h]))

/-- the loop statement with the given id inside a program -/
def loopOf : Stmt → Nat → Option Stmt
  | .seq a b, k => match loopOf a k with | some x => some x | none => loopOf b k
  | .loop id body, k => if id = k then some (.loop id body) else loopOf body k
  | .ite _ t e, k => match loopOf t k with | some x => some x | none => loopOf e k
  | .inl _ _ _ _ body, k => loopOf body k
  | .block body, k => loopOf body k
  | _, _ => none

/-! ## 1. observed event whose handler fails -/

def attPre (it : Nat) : List Tok :=
  [⟨"k.SetLastObservedEventNonce", it, []⟩, ⟨"k.SetLastObservedBlockHeight", it, []⟩, ⟨"k.SetAttestation", it, []⟩]

def attPost (it : Nat) : List Tok :=
  [⟨"k.cleanupTimedOutBatches", it, []⟩, ⟨"k.cleanupTimeOutBridgeCall", it, []⟩, ⟨"k.pruneAttestations", it, []⟩]

/-- the designated outcome of a failed handler: the observed mark and the handler-independent clean-up -/
def attDesignated (it : Nat) : List Tok := attPre it ++ attPost it

def AttGood (it : Nat) (r : Flow × St) : Prop :=
  r.2.failed ≠ [] → r.1 = .brk ∧ r.2.outer = attDesignated it

theorem att_fail (env : Env) (it : Nat) (hp : NoPanic env) : AttGood it (run env attestationProg it) := by
  have hp' := fun n i => hp n i
  unfold attestationProg
  c18eval
  repeat' c18split
  all_goals simp [AttGood, attDesignated, attPre, attPost]

theorem att_ghost (env : Env) (it : Nat) (hp : NoPanic env) :
    (run env attestationProg it).2.failed ≠ [] ↔ env.ok "k.AttestationHandler" it = false := by
  have hp' := fun n i => hp n i
  unfold attestationProg
  by_cases hh : env.ok "k.AttestationHandler" it <;> c18eval

theorem att_ok (env : Env) (it : Nat) (hp : NoPanic env) (h : env.ok "k.AttestationHandler" it = true) :
    (run env attestationProg it).1 = .brk ∧
    (run env attestationProg it).2.outer = attPre it ++ [⟨"k.AttestationHandler", it, []⟩] ++ attPost it := by
  have hp' := fun n i => hp n i
  unfold attestationProg
  c18eval
  simp [attPre, attPost]

theorem att_panic (env : Env) (it : Nat) (hp : ∀ n i, n ≠ "k.AttestationHandler" → env.panics n i = false)
    (h : env.panics "k.AttestationHandler" it = true) : (run env attestationProg it).1 = .panic := by
  have p1 := hp "k.SetLastObservedEventNonce" it (by decide)
  have p2 := hp "k.SetLastObservedBlockHeight" it (by decide)
  have p3 := hp "k.SetAttestation" it (by decide)
  unfold attestationProg
  c18eval

/-! ## 2. inbound bridge call whose contract call fails -/

def bciPre : List Tok := [⟨"k.DeletePendingExecuteClaim", 0, []⟩, ⟨"k.CreateBridgeAccount", 0, []⟩]

def Bci1Inv (i : Nat) (st : St) : Prop :=
  st.outer = bciPre ++ toks "k.BridgeTokenToBaseCoin" i 0 ∧ st.caches = [] ∧ st.failed = []

def Bci1Post (n : Nat) (r : Flow × St) : Prop :=
  (r.1 = .ret false ∧ r.2.caches = [] ∧ r.2.failed = []) ∨
  (r.1 = .norm ∧ r.2.outer = bciPre ++ toks "k.BridgeTokenToBaseCoin" n 0 ∧ r.2.caches = [] ∧ r.2.failed = [])

/-- the loop that credits every token to the receiver on the OUTER context: either one credit fails (the whole native
action returns the error) or all `n` credits are on the outer context and nothing else -/
theorem bci_loop1 (env : Env) (hp : NoPanic env) (L : Stmt) (hL : loopOf executeClaimProg 1 = some L)
    (bad : List Nat) (evm : List (Nat × EvmKind)) :
    Bci1Post (env.iters 1 0) (exec env L 0 { outer := bciPre, caches := [], bad := bad, evm := evm, failed := [] }) := by
  simp [loopOf, executeClaimProg, seqs] at hL
  subst hL
  rw [exec_loop, Nat.zero_mul]
  refine iterate_inv _ Bci1Inv (Bci1Post (env.iters 1 0)) ?_ (env.iters 1 0) 0 _ ⟨by simp [toks], rfl, rfl⟩ ?_
  · intro i st hst
    obtain ⟨outer, caches, bad, evm, failed⟩ := st
    obtain ⟨h1, h2, h3⟩ := hst
    simp only at h1 h2 h3
    subst h1 h2 h3
    have hp' := fun n i => hp n i
    c18eval
    by_cases h : env.ok "k.BridgeTokenToBaseCoin" i <;> simp [h, Bci1Inv, Bci1Post, toks_snoc]
  · intro st hst
    obtain ⟨h1, h2, h3⟩ := hst
    simp at h1
    exact Or.inr ⟨rfl, h1, h2, h3⟩

def Bci2Inv (o : List Tok) (_ : Nat) (st : St) : Prop :=
  st.outer = o ∧ (∃ ts, st.caches = [(1, Ctx.outer, ts)]) ∧ st.failed = []

def Bci2Post (o : List Tok) (r : Flow × St) : Prop :=
  r.2.outer = o ∧ (∃ ts, r.2.caches = [(1, Ctx.outer, ts)]) ∧
    ((r.1 = .norm ∧ r.2.failed = []) ∨ (r.1 = .ret false ∧ r.2.failed = [1]))

/-- the loop that converts every coin to ERC-20 on the CACHE: whichever conversion fails (first, middle, last), the
outer context is untouched and the failure is returned -/
theorem bci_loop2 (env : Env) (hp : NoPanic env) (L : Stmt) (hL : loopOf executeClaimProg 2 = some L)
    (o : List Tok) (bad : List Nat) (evm : List (Nat × EvmKind)) :
    Bci2Post o (exec env L 0 { outer := o, caches := [(1, Ctx.outer, [])], bad := bad, evm := evm, failed := [] }) := by
  simp [loopOf, executeClaimProg, seqs] at hL
  subst hL
  rw [exec_loop, Nat.zero_mul]
  refine iterate_inv _ (Bci2Inv o) (Bci2Post o) ?_ (env.iters 2 0) 0 _ ⟨rfl, ⟨[], rfl⟩, rfl⟩ ?_
  · intro i st hst
    obtain ⟨outer, caches, bad, evm, failed⟩ := st
    obtain ⟨h1, ⟨ts, h2⟩, h3⟩ := hst
    simp only at h1 h2 h3
    subst h1 h2 h3
    have hp' := fun n i => hp n i
    c18eval
    by_cases h : env.ok "k.BaseCoinToEvm" i <;> simp [h, Bci2Inv, Bci2Post]
  · intro st hst
    obtain ⟨h1, h2, h3⟩ := hst
    exact ⟨h1, h2, Or.inl ⟨rfl, h3⟩⟩

/-- the designated outcome of a failed inbound bridge call: claim consumed, bridge account, the credits, the move of
the credited coins to the refund address (when it differs from the receiver), the refund record -/
def bciDesignated (env : Env) : List Tok :=
  bciPre ++ toks "k.BridgeTokenToBaseCoin" (env.iters 1 0) 0 ++
    (if env.cond "Keeper.BridgeCallHandler: baseCoins.IsZero()" 0 = false ∧ env.cond "Keeper.BridgeCallHandler: bytes.Equal(receiverAddr.Bytes(), refundAddr.Bytes())" 0 = false
      then [⟨"k.bankKeeper.SendCoins", 0, []⟩] else []) ++
    [⟨"k.AddOutgoingBridgeCall", 0, []⟩]

def BciGood (env : Env) (r : Flow × St) : Prop :=
  1 ∈ r.2.failed → r.1 = .ret true ∧ r.2.outer = bciDesignated env

theorem bci_fail (env : Env) (hp : NoPanic env)
    (hs : env.ok "k.bankKeeper.SendCoins" 0 = true) (ha : env.ok "k.AddOutgoingBridgeCall" 0 = true) :
    BciGood env (run env executeClaimProg) := by
  have k1 := bci_loop1 env hp
  have k2 := bci_loop2 env hp
  have hp' := fun n i => hp n i
  unfold executeClaimProg at k1 k2 ⊢
  simp only [seqs, loopOf] at k1 k2
  simp only [run, seqs]
  generalize hL1 : Stmt.loop 1 _ = L1 at k1 k2 ⊢
  generalize hL2 : Stmt.loop 2 _ = L2 at k1 k2 ⊢
  have k1' := k1 L1 (by simp)
  have k2' := k2 L2 (by simp)
  clear k1 k2 hL1 hL2 hp
  c18eval
  repeat' c18split
  all_goals try (simp [BciGood]; done)
  all_goals (
    generalize hr : exec env L1 0 _ = r1
    have k : Bci1Post (env.iters 1 0) r1 := by rw [← hr]; exact k1' _ _
    clear hr
    obtain ⟨fl, ⟨outer, caches, bad, evm, failed⟩⟩ := r1
    rcases k with ⟨h1, h2, h3⟩ | ⟨h1, h2, h3, h4⟩ <;> simp only at h1 h2 h3 <;> subst h1 h2 h3
    · c18eval
      simp [BciGood]
    · simp only at h4
      subst h4
      c18eval
      generalize hr : exec env L2 0 _ = r2
      have k : Bci2Post (bciPre ++ toks "k.BridgeTokenToBaseCoin" (env.iters 1 0) 0) r2 := by rw [← hr]; exact k2' _ _ _
      clear hr
      obtain ⟨fl, ⟨outer, caches, bad, evm, failed⟩⟩ := r2
      obtain ⟨h1, ⟨ts, h2⟩, h3⟩ := k
      simp only at h1 h2 h3
      subst h1 h2
      rcases h3 with ⟨h3, h4⟩ | ⟨h3, h4⟩ <;> subst h3 h4
      · c18eval
        repeat' c18split
        all_goals (simp [BciGood, bciDesignated, bciPre]; try simp_all)
      · c18eval
        repeat' c18split
        all_goals (simp [BciGood, bciDesignated, bciPre]; try simp_all))

/-! ## 3. passed proposals: a BLOCK of proposals whose voting period ended (the walk over the active proposals) -/

/-- every message of proposal `p` (the first `n` of them) is handled without error and without panic -/
def GovAllOkP (env : Env) (p n : Nat) : Prop :=
  ∀ j, j < n → env.ok "handler" (p * env.stride + j) = true ∧ env.panics "handler" (p * env.stride + j) = false

theorem GovAllOkP_succ (env : Env) (p k : Nat) (h : GovAllOkP env p k)
    (hp : env.panics "handler" (p * env.stride + k) = false) (hok : env.ok "handler" (p * env.stride + k) = true) :
    GovAllOkP env p (k + 1) := by
  intro j hj
  rcases Nat.lt_succ_iff_lt_or_eq.mp hj with h1 | h1
  · exact h j h1
  · subst h1; exact ⟨hok, hp⟩

abbrev Caches := List (Nat × Ctx × List Tok)

def GovMsgInv (env : Env) (p : Nat) (o : List Tok) (rest : Caches) (f0 : List Nat) (i : Nat) (st : St) : Prop :=
  ∃ k, i = p * env.stride + k ∧ st.outer = o ∧ st.caches = (2, Ctx.outer, toks "handler" k (p * env.stride)) :: rest ∧
    st.failed = f0 ∧ st.bad.contains 4 = false ∧ GovAllOkP env p k

def GovMsgPost (env : Env) (p : Nat) (o : List Tok) (rest : Caches) (f0 : List Nat) (r : Flow × St) : Prop :=
  r.1 = .norm ∧ r.2.outer = o ∧
    ((r.2.caches = (2, Ctx.outer, toks "handler" (env.iters 2 p) (p * env.stride)) :: rest ∧ r.2.failed = f0 ∧
        r.2.bad.contains 4 = false ∧ GovAllOkP env p (env.iters 2 p)) ∨
     ((∃ ts, r.2.caches = (2, Ctx.outer, ts) :: rest) ∧ r.2.failed = 2 :: f0 ∧ r.2.bad.contains 4 = true ∧
        ¬ GovAllOkP env p (env.iters 2 p)))

/-- the message loop of ONE proposal `p`: all its handlers run on the cache opened for THIS proposal; the first failing
message (error or recovered panic, any index) ends the loop with the error variable set, nothing on the outer context
and the other open caches (`rest`) untouched -/
theorem gov_msg_loop (env : Env) (L : Stmt) (hL : loopOf govProg 2 = some L) (p : Nat)
    (o : List Tok) (rest : Caches) (hrest : rest = [] ∨ ∃ a, rest = [(3, Ctx.outer, a)])
    (bad : List Nat) (hb : bad.contains 4 = false) (evm : List (Nat × EvmKind)) (f0 : List Nat) :
    GovMsgPost env p o rest f0
      (exec env L p { outer := o, caches := (2, Ctx.outer, []) :: rest, bad := bad, evm := evm, failed := f0 }) := by
  simp [loopOf, govProg, seqs] at hL
  subst hL
  rw [exec_loop]
  refine iterate_inv_bdd _ (GovMsgInv env p o rest f0) (GovMsgPost env p o rest f0) (env.iters 2 p) (p * env.stride) _
    ⟨0, rfl, rfl, by simp [toks], rfl, hb, fun j hj => absurd hj (Nat.not_lt_zero j)⟩ ?_ ?_
  · intro i st _ hi hst
    obtain ⟨outer, caches, bad, evm, failed⟩ := st
    obtain ⟨k, hk, h1, h2, h3, h4, h5⟩ := hst
    simp only at h1 h2 h3 h4
    subst hk h1 h2 h3
    have hkn : k < env.iters 2 p := by omega
    have hno : (env.ok "handler" (p * env.stride + k) = false ∨ env.panics "handler" (p * env.stride + k) = true) →
        ¬ GovAllOkP env p (env.iters 2 p) := by
      intro hf hall
      have := hall k hkn
      rcases hf with hf | hf <;> simp [hf] at this
    have h4' : 4 ∉ bad := by simpa using h4
    rcases hrest with hr | ⟨a, hr⟩ <;> subst hr <;>
    by_cases hpn : env.panics "handler" (p * env.stride + k) <;> by_cases hok : env.ok "handler" (p * env.stride + k) <;> c18eval
    all_goals first
      | exact ⟨by simp [GovMsgPost], by simp [GovMsgPost], Or.inr ⟨⟨_, rfl⟩, rfl, by simp, hno (Or.inr hpn)⟩⟩
      | exact ⟨by simp [GovMsgPost], by simp [GovMsgPost], Or.inr ⟨⟨_, rfl⟩, rfl, by simp, hno (Or.inl (by simpa using hok))⟩⟩
      | exact ⟨k + 1, by omega, rfl, by simp [toks_snoc], rfl, by simp [h4'], GovAllOkP_succ env p k h5 (by simpa using hpn) hok⟩
  · intro st hst
    obtain ⟨k, hk, h1, h2, h3, h4, h5⟩ := hst
    have : k = env.iters 2 p := by omega
    subst this
    exact ⟨rfl, h1, Or.inl ⟨h2, h3, h4, h5⟩⟩

/-- `gov_msg_loop` keyed by the equation that names the result (all arguments are read off the equation) -/
theorem gov_msg_loop_eq (env : Env) (L : Stmt) (hL : loopOf govProg 2 = some L) (p : Nat) (st : St) (r : Flow × St)
    (hr : exec env L p st = r)
    (hc : st.caches = [(2, Ctx.outer, [])] ∨ ∃ a, st.caches = [(2, Ctx.outer, []), (3, Ctx.outer, a)])
    (hb : st.bad.contains 4 = false) :
    GovMsgPost env p st.outer (st.caches.drop 1) st.failed r := by
  obtain ⟨outer, caches, bad, evm, failed⟩ := st
  subst hr
  rcases hc with hc | ⟨a, hc⟩ <;> simp only at hc <;> subst hc
  · exact gov_msg_loop env L hL p outer [] (Or.inl rfl) bad hb evm failed
  · exact gov_msg_loop env L hL p outer [(3, Ctx.outer, a)] (Or.inr ⟨a, rfl⟩) bad hb evm failed

/-- the calls of the per-proposal body that run on the outer context succeed (an error of any of them is returned by
`EndBlocker`: the block fails as a whole), and nothing but a message handler panics -/
structure GovOuterOk (env : Env) : Prop where
  nopanic : ∀ n i, n ≠ "handler" → env.panics n i = false
  get : ∀ p, env.ok "keeper.Proposals.Get" p = true
  tally : ∀ p, env.ok "keeper.Tally" p = true
  burn : ∀ p, env.ok "keeper.DeleteAndBurnDeposits" p = true
  refund : ∀ p, env.ok "keeper.RefundAndDeleteDeposits" p = true
  remove : ∀ p, env.ok "keeper.ActiveProposalsQueue.Remove #2" p = true
  params : ∀ p, env.ok "keeper.Params.Get" p = true
  qset : ∀ p, env.ok "keeper.ActiveProposalsQueue.Set" p = true
  setp : ∀ p, env.ok "keeper.SetProposal" p = true

open Classical in
/-- what proposal `p` of the block leaves on the outer context.  A passed proposal one of whose messages fails
contributes its bookkeeping, `Status = Failed`, `SetProposal` and the hook — and NO handler write. -/
noncomputable def govContribution (env : Env) (p : Nat) : List Tok :=
  [⟨"keeper.Tally", p, []⟩] ++
  (if env.cond "EndBlocker: proposal.Expedited" p = false ∨ env.cond "EndBlocker: passes" p = true then
     (if env.cond "EndBlocker: burnDeposits" p = true then [⟨"keeper.DeleteAndBurnDeposits", p, []⟩]
      else [⟨"keeper.RefundAndDeleteDeposits", p, []⟩])
   else []) ++
  [⟨"keeper.ActiveProposalsQueue.Remove #2", p, []⟩] ++
  (if env.cond "EndBlocker: passes #2" p = true then
     (if env.ok "proposal.GetMsgs" p = true then
        (if GovAllOkP env p (env.iters 2 p) then
          ⟨"set proposal.Status = v1.StatusPassed", p, []⟩ :: toks "handler" (env.iters 2 p) (p * env.stride)
         else [⟨"set proposal.Status = v1.StatusFailed #2", p, []⟩])
      else [⟨"set proposal.Status = v1.StatusFailed", p, []⟩])
   else if env.cond "EndBlocker: proposal.Expedited #2" p = true then [⟨"keeper.ActiveProposalsQueue.Set", p, []⟩]
   else [⟨"set proposal.Status = v1.StatusRejected", p, []⟩]) ++
  [⟨"keeper.SetProposal", p, []⟩] ++
  (if env.ok "keeper.Hooks().AfterProposalVotingPeriodEnded" p = true then [⟨"keeper.Hooks().AfterProposalVotingPeriodEnded", p, []⟩] else [])

/-- the outer context after the first `n` proposals of the block -/
noncomputable def govBlock (env : Env) : Nat → List Tok
  | 0 => []
  | n + 1 => govBlock env n ++ govContribution env n

def CachesOK (cs : Caches) : Prop :=
  cs = [] ∨ (∃ a, cs = [(3, Ctx.outer, a)]) ∨ (∃ a b, cs = [(3, Ctx.outer, a), (2, Ctx.outer, b)])

def GovBlockInv (env : Env) (p : Nat) (st : St) : Prop :=
  st.outer = govBlock env p ∧ CachesOK st.caches ∧ st.bad.contains 1 = false

def GovBlockPost (env : Env) (r : Flow × St) : Prop :=
  r.1 = .norm ∧ r.2.outer = govBlock env (env.iters 1 0) ∧ r.2.bad.contains 1 = false

theorem gov_block_loop (env : Env) (hok : GovOuterOk env) (L : Stmt) (hL : loopOf govProg 1 = some L) :
    GovBlockPost env (exec env L 0 {}) := by
  simp [loopOf, govProg, seqs] at hL
  generalize hL2 : Stmt.loop 2 _ = L2 at hL
  have kmsg := gov_msg_loop_eq env L2 (by rw [← hL2]; simp [loopOf, govProg, seqs])
  subst hL
  rw [exec_loop, Nat.zero_mul]
  refine iterate_inv_bdd _ (GovBlockInv env) (GovBlockPost env) (env.iters 1 0) 0 _ ⟨rfl, Or.inl rfl, rfl⟩ ?_ ?_
  · intro p st _ _ hst
    obtain ⟨outer, caches, bad, evm, failed⟩ := st
    obtain ⟨h1, h2, h3⟩ := hst
    simp only at h1 h2 h3
    subst h1
    have h3' : 1 ∉ bad := by simpa using h3
    have q1 := hok.nopanic "keeper.Proposals.Get" p (by decide)
    have q2 := hok.nopanic "keeper.Tally" p (by decide)
    have q3 := hok.nopanic "keeper.DeleteAndBurnDeposits" p (by decide)
    have q4 := hok.nopanic "keeper.RefundAndDeleteDeposits" p (by decide)
    have q5 := hok.nopanic "keeper.ActiveProposalsQueue.Remove #2" p (by decide)
    have q6 := hok.nopanic "proposal.GetMsgs" p (by decide)
    have q7 := hok.nopanic "set proposal.Status = v1.StatusFailed" p (by decide)
    have q8 := hok.nopanic "set proposal.Status = v1.StatusFailed #2" p (by decide)
    have q9 := hok.nopanic "set proposal.Status = v1.StatusPassed" p (by decide)
    have q10 := hok.nopanic "set proposal.Status = v1.StatusRejected" p (by decide)
    have q11 := hok.nopanic "keeper.Params.Get" p (by decide)
    have q12 := hok.nopanic "keeper.ActiveProposalsQueue.Set" p (by decide)
    have q13 := hok.nopanic "keeper.SetProposal" p (by decide)
    have q14 := hok.nopanic "keeper.Hooks().AfterProposalVotingPeriodEnded" p (by decide)
    have o1 := hok.get p
    have o2 := hok.tally p
    have o3 := hok.burn p
    have o4 := hok.refund p
    have o5 := hok.remove p
    have o6 := hok.params p
    have o7 := hok.qset p
    have o8 := hok.setp p
    clear hok
    rcases h2 with hc | ⟨a, hc⟩ | ⟨a, b, hc⟩ <;> subst hc
    all_goals (
      c18eval
      repeat' c18split
      all_goals try (simp [GovBlockInv, CachesOK, govBlock, govContribution, *]; done)
      all_goals try (simp [GovBlockInv, CachesOK, govBlock, govContribution, *]; done))
    all_goals (
      generalize hr : exec env L2 p _ = r
      have k := kmsg p _ _ hr (by simp) (by simp [h3'])
      clear hr
      obtain ⟨fl, ⟨outer', caches', bad', evm', failed'⟩⟩ := r
      obtain ⟨k1, k2, k4⟩ := k
      simp only [List.drop] at k1 k2 k4
      subst k1 k2
      rcases k4 with ⟨k5, k6, k7, k8⟩ | ⟨⟨ts, k5⟩, k6, k7, k8⟩ <;> subst k5 k6
      · have k7' : 4 ∉ bad' := by simpa using k7
        c18eval
        repeat' c18split
        all_goals (simp [GovBlockInv, CachesOK, govBlock, govContribution, *])
      · have k7' : 4 ∈ bad' := by simpa using k7
        c18eval
        repeat' c18split
        all_goals (simp [GovBlockInv, CachesOK, govBlock, govContribution, *]))
  · intro st hst
    obtain ⟨h1, _, h3⟩ := hst
    simp at h1
    exact ⟨rfl, h1, h3⟩

/-- **a block of proposals**: `EndBlocker`'s walk over the active proposals returns nil and the outer context carries,
proposal after proposal, exactly each proposal's own contribution -/
theorem gov_block (env : Env) (hok : GovOuterOk env) :
    (run env govProg).1 = .ret true ∧ (run env govProg).2.outer = govBlock env (env.iters 1 0) := by
  have k := gov_block_loop env hok
  unfold govProg at k ⊢
  simp only [seqs, loopOf] at k
  simp only [run, seqs]
  generalize hL : Stmt.loop 1 _ = L at k ⊢
  have k' := k L (by simp)
  clear k hL
  c18eval
  generalize exec env L 0 _ = r at k'
  obtain ⟨fl, ⟨outer, caches, bad, evm, failed⟩⟩ := r
  obtain ⟨h1, h2, h3⟩ := k'
  simp only at h1 h2 h3
  subst h1 h2
  have h3' : 1 ∉ bad := by simpa using h3
  c18eval

theorem mem_toks (name : String) (t : Tok) : ∀ n b, t ∈ toks name n b → t.name = name ∧ b ≤ t.iter ∧ t.iter < b + n := by
  intro n
  induction n with
  | zero => intro b h; simp [toks] at h
  | succ n ih =>
    intro b h
    simp only [toks, List.mem_cons] at h
    rcases h with h | h
    · subst h; exact ⟨rfl, Nat.le_refl _, by show b < b + (n + 1); omega⟩
    · have := ih (b + 1) h
      exact ⟨this.1, by omega, by omega⟩

/-- a handler write is on the outer context only if it belongs to a proposal ALL of whose messages succeeded -/
theorem handler_in_contribution (env : Env) (p : Nat) (t : Tok) (ht : t ∈ govContribution env p) (hn : t.name = "handler") :
    GovAllOkP env p (env.iters 2 p) ∧ p * env.stride ≤ t.iter ∧ t.iter < p * env.stride + env.iters 2 p := by
  unfold govContribution at ht
  simp only [List.mem_append, List.mem_cons, List.mem_singleton, List.not_mem_nil, or_false] at ht
  rcases ht with ((((ht | ht) | ht) | ht) | ht) | ht
  · subst ht; simp at hn
  · split at ht
    · split at ht <;> simp at ht <;> subst ht <;> simp at hn
    · simp at ht
  · subst ht; simp at hn
  · split at ht
    · split at ht
      · split at ht
        · rename_i hall
          simp only [List.mem_cons] at ht
          rcases ht with ht | ht
          · subst ht; simp at hn
          · exact ⟨hall, (mem_toks _ _ _ _ ht).2⟩
        · simp at ht; subst ht; simp at hn
      · simp at ht; subst ht; simp at hn
    · split at ht <;> simp at ht <;> subst ht <;> simp at hn
  · subst ht; simp at hn
  · split at ht
    · simp at ht; subst ht; simp at hn
    · simp at ht

theorem handler_in_block (env : Env) (t : Tok) (hn : t.name = "handler") :
    ∀ P, t ∈ govBlock env P → ∃ p, p < P ∧ GovAllOkP env p (env.iters 2 p) ∧
      p * env.stride ≤ t.iter ∧ t.iter < p * env.stride + env.iters 2 p := by
  intro P
  induction P with
  | zero => intro h; simp [govBlock] at h
  | succ P ih =>
    intro h
    simp only [govBlock, List.mem_append] at h
    rcases h with h | h
    · obtain ⟨p, hp, rest⟩ := ih h
      exact ⟨p, by omega, rest⟩
    · exact ⟨P, by omega, handler_in_contribution env P t h hn⟩

/-! ## 2b. the executeClaim precompile: the context on which the keeper's ExecuteClaim runs -/

/-- the executeClaim precompile: either nothing at all is written (and `Run` returns an error: the EVM transaction
fails), or the keeper's `ExecuteClaim` AND the event both succeeded and exactly the claim's writes are journaled -/
def XcGood (env : Env) (r : Flow × St) : Prop :=
  (r.1 = .ret false ∧ r.2.outer = []) ∨
  (env.ok "crosschainKeeper.ExecuteClaim" 0 = true ∧ env.ok "m.NewExecuteClaimEvent" 0 = true ∧
    r.2.outer = [⟨"crosschainKeeper.ExecuteClaim", 0, []⟩])

theorem xc_total (env : Env) (hp : NoPanic env) : XcGood env (run env executeClaimPrecompileProg) := by
  have hp' := fun n i => hp n i
  unfold executeClaimPrecompileProg
  c18eval
  clear hp hp'
  repeat' c18split
  all_goals simp [XcGood, *]

/-! ## 4. IBC packet whose follow-up fails -/

/-- the designated outcome: core's own bookkeeping and the acknowledgement, written with an UNSUCCESSFUL ack -/
def ibcDesignated : List Tok :=
  [⟨"k.ChannelKeeper.LookupModuleByChannel", 0, []⟩, ⟨"k.ChannelKeeper.RecvPacket", 0, []⟩,
   ⟨"k.ChannelKeeper.WriteAcknowledgement", 0, [false]⟩]

def IbcGood (r : Flow × St) : Prop :=
  2 ∈ r.2.failed → r.1 = .ret true ∧ r.2.outer = ibcDesignated

theorem ibc_fail (env : Env) (hp : NoPanic env)
    (hsync' : env.cond "RecvPacket: ack == nil" 0 = false)
    (hw : env.ok "k.ChannelKeeper.WriteAcknowledgement" 0 = true) :
    IbcGood (run env recvPacketProg) := by
  have hp' := fun n i => hp n i
  unfold recvPacketProg
  c18eval
  clear hp hp'
  repeat' c18split
  all_goals simp [IbcGood, ibcDesignated]

/-! ## complete outcome characterisations (every path of the regenerated programs) -/

theorem all_succ (p : Nat → Prop) (i : Nat) (h : ∀ j, j < i → p j) (hi : p i) : ∀ j, j < i + 1 → p j := by
  intro j hj
  rcases Nat.lt_succ_iff_lt_or_eq.mp hj with h1 | h1
  · exact h j h1
  · subst h1; exact hi

/-! ### inbound bridge call -/

def BciAll1 (env : Env) (i : Nat) : Prop := ∀ j, j < i → env.ok "k.BridgeTokenToBaseCoin" j = true
def BciAll2 (env : Env) (i : Nat) : Prop := ∀ j, j < i → env.ok "k.BaseCoinToEvm" j = true

def Bci1Inv' (env : Env) (i : Nat) (st : St) : Prop :=
  st.outer = bciPre ++ toks "k.BridgeTokenToBaseCoin" i 0 ∧ st.caches = [] ∧ st.failed = [] ∧ BciAll1 env i

def Bci1Post' (env : Env) (n : Nat) (r : Flow × St) : Prop :=
  (¬ BciAll1 env n ∧ r.1 = .ret false ∧ r.2.caches = [] ∧ r.2.failed = []) ∨
  (BciAll1 env n ∧ r.1 = .norm ∧ r.2.outer = bciPre ++ toks "k.BridgeTokenToBaseCoin" n 0 ∧ r.2.caches = [] ∧ r.2.failed = [])

theorem bci_loop1' (env : Env) (hp : NoPanic env) (L : Stmt) (hL : loopOf executeClaimProg 1 = some L)
    (bad : List Nat) (evm : List (Nat × EvmKind)) :
    Bci1Post' env (env.iters 1 0) (exec env L 0 { outer := bciPre, caches := [], bad := bad, evm := evm, failed := [] }) := by
  simp [loopOf, executeClaimProg, seqs] at hL
  subst hL
  rw [exec_loop, Nat.zero_mul]
  refine iterate_inv_bdd _ (Bci1Inv' env) (Bci1Post' env (env.iters 1 0)) (env.iters 1 0) 0 _
    ⟨by simp [toks], rfl, rfl, fun j hj => absurd hj (Nat.not_lt_zero j)⟩ ?_ ?_
  · intro i st _ hi hst
    obtain ⟨outer, caches, bad, evm, failed⟩ := st
    obtain ⟨h1, h2, h3, h4⟩ := hst
    simp only at h1 h2 h3
    subst h1 h2 h3
    have hp' := fun n i => hp n i
    have hno : env.ok "k.BridgeTokenToBaseCoin" i = false → ¬ BciAll1 env (env.iters 1 0) := by
      intro hf hall
      have := hall i (by omega)
      simp [hf] at this
    by_cases h : env.ok "k.BridgeTokenToBaseCoin" i <;> c18eval
    · exact ⟨by simp [toks_snoc], rfl, rfl, all_succ _ i h4 h⟩
    · exact Or.inl ⟨hno (by simpa using h), rfl, rfl, rfl⟩
  · intro st hst
    obtain ⟨h1, h2, h3, h4⟩ := hst
    simp at h1 h4
    exact Or.inr ⟨h4, rfl, h1, h2, h3⟩

def Bci2Inv' (env : Env) (o : List Tok) (i : Nat) (st : St) : Prop :=
  st.outer = o ∧ st.caches = [(1, Ctx.outer, toks "k.BaseCoinToEvm" i 0)] ∧ st.failed = [] ∧ BciAll2 env i

def Bci2Post' (env : Env) (o : List Tok) (n : Nat) (r : Flow × St) : Prop :=
  r.2.outer = o ∧
    ((BciAll2 env n ∧ r.1 = .norm ∧ r.2.caches = [(1, Ctx.outer, toks "k.BaseCoinToEvm" n 0)] ∧ r.2.failed = []) ∨
     (¬ BciAll2 env n ∧ r.1 = .ret false ∧ (∃ ts, r.2.caches = [(1, Ctx.outer, ts)]) ∧ r.2.failed = [1]))

theorem bci_loop2' (env : Env) (hp : NoPanic env) (L : Stmt) (hL : loopOf executeClaimProg 2 = some L)
    (o : List Tok) (bad : List Nat) (evm : List (Nat × EvmKind)) :
    Bci2Post' env o (env.iters 2 0) (exec env L 0 { outer := o, caches := [(1, Ctx.outer, [])], bad := bad, evm := evm, failed := [] }) := by
  simp [loopOf, executeClaimProg, seqs] at hL
  subst hL
  rw [exec_loop, Nat.zero_mul]
  refine iterate_inv_bdd _ (Bci2Inv' env o) (Bci2Post' env o (env.iters 2 0)) (env.iters 2 0) 0 _
    ⟨rfl, by simp [toks], rfl, fun j hj => absurd hj (Nat.not_lt_zero j)⟩ ?_ ?_
  · intro i st _ hi hst
    obtain ⟨outer, caches, bad, evm, failed⟩ := st
    obtain ⟨h1, h2, h3, h4⟩ := hst
    simp only at h1 h2 h3
    subst h1 h2 h3
    have hp' := fun n i => hp n i
    have hno : env.ok "k.BaseCoinToEvm" i = false → ¬ BciAll2 env (env.iters 2 0) := by
      intro hf hall
      have := hall i (by omega)
      simp [hf] at this
    by_cases h : env.ok "k.BaseCoinToEvm" i <;> c18eval
    · exact ⟨rfl, by simp [toks_snoc], rfl, all_succ _ i h4 h⟩
    · exact ⟨rfl, Or.inr ⟨hno (by simpa using h), rfl, ⟨_, rfl⟩, rfl⟩⟩
  · intro st hst
    obtain ⟨h1, h2, h3, h4⟩ := hst
    simp at h2 h4
    exact ⟨h1, Or.inl ⟨h4, rfl, h2, h3⟩⟩

/-- the cached region of the inbound bridge call fails: a conversion fails, or (the target is a contract and) packing
the callback fails, `CallEVM` returns an error, or the response carries a VM error of any kind -/
def bciCachedFails (env : Env) : Prop :=
  ¬ BciAll2 env (env.iters 2 0) ∨
  (env.cond "Keeper.BridgeCallEvm: k.evmKeeper.IsContract(ctx, to)" 0 = true ∧
    ((env.cond "Keeper.BridgeCallEvm: isMemoSendCallTo" 0 = false ∧ env.ok "types.PackBridgeCallback" 0 = false) ∨
     env.ok "k.evmKeeper.CallEVM" 0 = false ∨ env.evm "k.evmKeeper.CallEVM" 0 ≠ .ok))

def bciSuccess (env : Env) : List Tok :=
  bciPre ++ toks "k.BridgeTokenToBaseCoin" (env.iters 1 0) 0 ++ toks "k.BaseCoinToEvm" (env.iters 2 0) 0 ++
    (if env.cond "Keeper.BridgeCallEvm: k.evmKeeper.IsContract(ctx, to)" 0 = true then [⟨"k.evmKeeper.CallEVM", 0, []⟩] else [])

def BciOutcome (env : Env) (r : Flow × St) : Prop :=
  (¬ BciAll1 env (env.iters 1 0) ∧ r.1 = .ret false) ∨
  (BciAll1 env (env.iters 1 0) ∧ r.1 = .ret true ∧
    ((¬ bciCachedFails env ∧ r.2.outer = bciSuccess env ∧ 1 ∉ r.2.failed) ∨
     (bciCachedFails env ∧ r.2.outer = bciDesignated env)))

theorem bci_total (env : Env) (hp : NoPanic env)
    (hfound : env.cond "ExecuteClaim: found" 0 = true)
    (ht1 : env.cond "ExecuteClaim: externalClaim.(type) is *types.MsgSendToFxClaim" 0 = false)
    (ht2 : env.cond "ExecuteClaim: externalClaim.(type) is *types.MsgBridgeCallClaim" 0 = true)
    (hmod : env.ok "k.ak.GetAccount" 0 = true ∨ env.cond "Keeper.BridgeCallHandler: ok" 0 = false)
    (hs : env.ok "k.bankKeeper.SendCoins" 0 = true) (ha : env.ok "k.AddOutgoingBridgeCall" 0 = true) :
    BciOutcome env (run env executeClaimProg) := by
  have k1 := bci_loop1' env hp
  have k2 := bci_loop2' env hp
  have hp' := fun n i => hp n i
  unfold executeClaimProg at k1 k2 ⊢
  simp only [seqs, loopOf] at k1 k2
  simp only [run, seqs]
  generalize hL1 : Stmt.loop 1 _ = L1 at k1 k2 ⊢
  generalize hL2 : Stmt.loop 2 _ = L2 at k1 k2 ⊢
  have k1' := k1 L1 (by simp)
  have k2' := k2 L2 (by simp)
  clear k1 k2 hL1 hL2 hp
  c18eval
  repeat' c18split
  all_goals try (simp_all; done)
  all_goals (
    generalize hr : exec env L1 0 _ = r1
    have k : Bci1Post' env (env.iters 1 0) r1 := by rw [← hr]; exact k1' _ _
    clear hr
    obtain ⟨fl, ⟨outer, caches, bad, evm, failed⟩⟩ := r1
    rcases k with ⟨hall1, h1, h2, h3⟩ | ⟨hall1, h1, h2, h3, h4⟩ <;> simp only at h1 h2 h3 <;> subst h1 h2 h3
    · c18eval
      exact Or.inl ⟨hall1, by simp⟩
    · simp only at h4
      subst h4
      c18eval
      generalize hr : exec env L2 0 _ = r2
      have k : Bci2Post' env (bciPre ++ toks "k.BridgeTokenToBaseCoin" (env.iters 1 0) 0) (env.iters 2 0) r2 := by rw [← hr]; exact k2' _ _ _
      clear hr
      obtain ⟨fl, ⟨outer, caches, bad, evm, failed⟩⟩ := r2
      obtain ⟨h1, h3⟩ := k
      simp only at h1 h3
      subst h1
      rcases h3 with ⟨hall2, h3, h4, h5⟩ | ⟨hall2, h3, ⟨ts, h4⟩, h5⟩ <;> subst h3 h4 h5
      · c18eval
        repeat' c18split
        all_goals (refine Or.inr ⟨hall1, ?_⟩; simp [bciCachedFails, bciSuccess, bciDesignated, bciPre, hall2]; try simp_all)
      · c18eval
        repeat' c18split
        all_goals (refine Or.inr ⟨hall1, ?_⟩; simp [bciCachedFails, bciSuccess, bciDesignated, bciPre, hall2]; try simp_all))

/-! ### the complete outcome of the IBC receive boundary -/

/-- core reaches the application callback -/
def ibcReached (env : Env) : Prop :=
  env.ok "sdk.AccAddressFromBech32" 0 = true ∧ env.ok "k.ChannelKeeper.LookupModuleByChannel" 0 = true ∧
  env.cond "RecvPacket: ok" 0 = true ∧ env.ok "k.ChannelKeeper.RecvPacket" 0 = true

/-- the packet is rejected before or by the transfer application -/
def ibcAppFails (env : Env) : Prop :=
  env.ok "transfertypes.ModuleCdc.UnmarshalJSON" 0 = false ∨ env.ok "fxtypes.ParseAddress" 0 = false ∨
  env.ok "im.IBCModule.OnRecvPacket" 0 = false

/-- the follow-up of the fx middleware fails: bad receiver / amount, a non-FX coin to a bech32 receiver, a failing
conversion, or — when the memo is an ibc-call packet — failing validation, an unknown call type, a `CallEVM` error or a
VM error of any kind -/
def ibcHookFails (env : Env) : Prop :=
  env.ok "fxtypes.ParseAddress #2" 0 = false ∨ env.cond "Keeper.OnRecvPacket: ok" 0 = false ∨
  (env.cond "Keeper.OnRecvPacket: receiveCoin.GetDenom() != fxtypes.DefaultDenom" 0 = true ∧
    (env.cond "Keeper.OnRecvPacket: isEvmAddr" 0 = false ∨ env.ok "k.crossChainKeeper.IBCCoinToEvm" 0 = false)) ∨
  (env.cond "Keeper.OnRecvPacket: len(data.Memo) > 0" 0 = true ∧ env.ok "k.cdc.UnmarshalInterfaceJSON" 0 = true ∧
    (env.ok "mp.ValidateBasic" 0 = false ∨ env.cond "Keeper.HandlerIbcCall: mp.(type) is *types.IbcCallEvmPacket" 0 = false ∨
     env.ok "k.evmKeeper.CallEVM" 0 = false ∨ env.evm "k.evmKeeper.CallEVM" 0 ≠ .ok))

def ibcSuccess (env : Env) : List Tok :=
  [⟨"k.ChannelKeeper.LookupModuleByChannel", 0, []⟩, ⟨"k.ChannelKeeper.RecvPacket", 0, []⟩, ⟨"im.IBCModule.OnRecvPacket", 0, []⟩] ++
  (if env.cond "Keeper.OnRecvPacket: receiveCoin.GetDenom() != fxtypes.DefaultDenom" 0 = true then [⟨"k.crossChainKeeper.IBCCoinToEvm", 0, []⟩] else []) ++
  (if env.cond "Keeper.OnRecvPacket: len(data.Memo) > 0" 0 = true ∧ env.ok "k.cdc.UnmarshalInterfaceJSON" 0 = true then [⟨"k.evmKeeper.CallEVM", 0, []⟩] else []) ++
  [⟨"k.ChannelKeeper.WriteAcknowledgement", 0, [true]⟩]

def IbcOutcome (env : Env) (r : Flow × St) : Prop :=
  r.1 = .ret true ∧
    (((ibcAppFails env ∨ ibcHookFails env) ∧ r.2.outer = ibcDesignated) ∨
     (¬ (ibcAppFails env ∨ ibcHookFails env) ∧ r.2.outer = ibcSuccess env ∧ 2 ∉ r.2.failed))

theorem ibc_total (env : Env) (hp : NoPanic env) (hr : ibcReached env)
    (hsync' : env.cond "RecvPacket: ack == nil" 0 = false)
    (hw : env.ok "k.ChannelKeeper.WriteAcknowledgement" 0 = true) :
    IbcOutcome env (run env recvPacketProg) := by
  have hp' := fun n i => hp n i
  obtain ⟨r1, r2, r3, r4⟩ := hr
  unfold recvPacketProg
  c18eval
  clear hp hp'
  repeat' c18split
  all_goals (simp [IbcOutcome, ibcAppFails, ibcHookFails, ibcSuccess, ibcDesignated]; try simp_all)

/-! ## concrete environments for the non-vacuity examples of Props/C18 -/

/-- every leaf succeeds; three tokens / messages; the claim is a bridge call to a contract; the packet carries a
non-FX coin for a hex receiver with an ibc-call memo -/
def envOk : Env :=
  { ok := fun _ _ => true, panics := fun _ _ => false, evm := fun _ _ => .ok, iters := fun _ _ => 3, stride := 10,
    cond := fun t _ => t ∈ ["EndBlocker: passes", "EndBlocker: passes #2", "Run: has", "ExecuteClaim: found", "ExecuteClaim: externalClaim.(type) is *types.MsgBridgeCallClaim",
      "Keeper.BridgeCallEvm: k.evmKeeper.IsContract(ctx, to)", "RecvPacket: ok",
      "Keeper.OnRecvPacket: ok", "Keeper.OnRecvPacket: isEvmAddr",
      "Keeper.OnRecvPacket: receiveCoin.GetDenom() != fxtypes.DefaultDenom", "Keeper.OnRecvPacket: len(data.Memo) > 0",
      "Keeper.HandlerIbcCall: mp.(type) is *types.IbcCallEvmPacket"] }
def failAt (e : Env) (name : String) (i : Nat) : Env := { e with ok := fun n j => if n == name && j == i then false else e.ok n j }
def panicAt (e : Env) (name : String) (i : Nat) : Env := { e with panics := fun n j => if n == name && j == i then true else e.panics n j }
def vmErr (e : Env) (name : String) (k : EvmKind) : Env := { e with evm := fun n j => if n == name then k else e.evm n j }


end FxVerif.Proofs.C18P
