import FxVerif.Model.C08Journal
import FxVerif.Proofs.C08Cache
/-! helper lemmas for the journal model (Model/C08Journal.lean): reverting a failed sub-call frame gives back the view of the
snapshot and consistent caches, provided the frame completed no keeper-level call; coherent transactions with frames equal
the sequential reference semantics in which a failed frame is a no-op -/
namespace FxVerif.Proofs.C08Cache
open FxVerif.Model.C08Cache

theorem lookup_map_val (f : Slot → Nat) (k : Slot) (l : List (Slot × Nat)) :
    lookup k (l.map fun kv => (kv.1, f kv.1)) = (lookup k l).map (fun _ => f k) := by
  induction l with
  | nil => rfl
  | cons x xs ih =>
    obtain ⟨k', v'⟩ := x
    by_cases e : k' = k
    · subst e; simp [lookup]
    · simp [lookup, e, ih]

/-- `b` is a later state of the same frame as `a`, with no change of the native store: dirty slots stay dirty (values may
differ), origin entries stay as they are -/
structure Ext (a b : Outer) : Prop where
  store_eq : b.store = a.store
  dirty_keep : ∀ k, (lookup k a.dirty).isSome → (lookup k b.dirty).isSome
  origin_keep : ∀ k w, lookup k a.origin = some w → lookup k b.origin = some w

theorem ext_refl (a : Outer) : Ext a a := ⟨rfl, fun _ h => h, fun _ _ h => h⟩

theorem ext_read {a o : Outer} (h : Ext a o) (k : Slot) : Ext a (o.read k).2 := by
  cases hd : lookup k o.dirty with
  | some v =>
    have e : o.read k = (v, o) := by simp [Outer.read, hd]
    rw [e]; exact h
  | none =>
    cases ho : lookup k o.origin with
    | some w =>
      have e : o.read k = (w, o) := by simp [Outer.read, hd, ho]
      rw [e]; exact h
    | none =>
      have e : o.read k = (o.store k, { o with origin := (k, o.store k) :: o.origin }) := by simp [Outer.read, hd, ho]
      rw [e]
      refine ⟨h.store_eq, h.dirty_keep, fun k' w hl => ?_⟩
      have := h.origin_keep _ _ hl
      by_cases e' : k = k'
      · subst e'; rw [ho] at this; cases this
      · simp only; rw [lookup_cons_ne _ _ _ _ e']; exact this

theorem ext_write {a o : Outer} (h : Ext a o) (k : Slot) (v : Nat) : Ext a (o.write k v) := by
  have h1 := ext_read h k
  simp only [Outer.write]
  split
  · exact h1
  · refine ⟨h1.store_eq, fun k' hk => ?_, h1.origin_keep⟩
    by_cases e : k = k'
    · subst e; simp [lookup]
    · simp only; rw [lookup_cons_ne _ _ _ _ e]; exact h1.dirty_keep _ hk

theorem ext_runOuter (p : TProg) {a o : Outer} (h : Ext a o) : Ext a (runOuter p o).2 := by
  induction p generalizing o with
  | done ok => exact h
  | read k cont ih => simp only [runOuter]; exact ih _ (ext_read h k)
  | write k v cont ih => simp only [runOuter]; exact ih (ext_write h k v)

/-- **reverting a frame gives back the snapshot's view and consistent caches** -/
theorem revertTo_spec (snap cur : Outer) (hs : Cons snap) (hc : Cons cur) (he : Ext snap cur) :
    (snap.revertTo cur).view = snap.view ∧ Cons (snap.revertTo cur) := by
  have hd : ∀ k, lookup k (snap.revertTo cur).dirty =
      (lookup k cur.dirty).map (fun _ => match lookup k snap.dirty with
        | some v => v
        | none => (lookup k cur.origin).getD 0) := by
    intro k
    simp only [Outer.revertTo]
    exact lookup_map_val (fun k => match lookup k snap.dirty with
        | some v => v
        | none => (lookup k cur.origin).getD 0) k cur.dirty
  have hstore : ∀ k w, lookup k cur.origin = some w → snap.store k = w := by
    intro k w h; rw [← he.store_eq]; exact hc.origin_ok _ _ h
  constructor
  · funext k
    simp only [Outer.view]
    rw [hd k]
    cases hcd : lookup k cur.dirty with
    | some x =>
      simp only [Option.map_some]
      cases hsd : lookup k snap.dirty with
      | some v0 => rfl
      | none =>
        simp only
        have := hc.dirty_ok _ _ hcd
        cases hco : lookup k cur.origin with
        | none => rw [hco] at this; cases this
        | some w =>
          simp only [Option.getD_some]
          have hw := hstore _ _ hco
          cases hso : lookup k snap.origin with
          | none => exact hw.symm
          | some w' => simp only; rw [← hw]; exact hs.origin_ok _ _ hso
    | none =>
      simp only [Option.map_none]
      have hsd : lookup k snap.dirty = none := by
        cases hx : lookup k snap.dirty with
        | none => rfl
        | some v => have := he.dirty_keep k (by rw [hx]; rfl); rw [hcd] at this; cases this
      rw [hsd]
      simp only [Outer.revertTo]
      cases hco : lookup k cur.origin with
      | some w =>
        simp only
        have hw := hstore _ _ hco
        cases hso : lookup k snap.origin with
        | none => exact hw.symm
        | some w' => simp only; rw [← hw]; exact hs.origin_ok _ _ hso
      | none =>
        simp only
        cases hso : lookup k snap.origin with
        | none => rfl
        | some w' => have := he.origin_keep _ _ hso; rw [hco] at this; cases this
  · constructor
    · intro k v h
      exact hstore k v h
    · intro k v h
      rw [hd k] at h
      cases hcd : lookup k cur.dirty with
      | none => rw [hcd] at h; cases h
      | some x => exact hc.dirty_ok _ _ hcd

theorem runTxF_runTx (g : List MStep) (s : TxSt) :
    ((runTxF g s).2 = true → runTx g s = some (runTxF g s).1) ∧ ((runTxF g s).2 = false → runTx g s = none) := by
  induction g generalizing s with
  | nil => exact ⟨fun _ => rfl, fun h => by simp [runTxF] at h⟩
  | cons st rest ih =>
    cases st with
    | evm p pay =>
      simp only [runTxF, runTx]
      cases runOuter p s.o with
      | mk ok o1 =>
        cases ok with
        | false => exact ⟨fun h => (by cases h), fun _ => rfl⟩
        | true =>
          simp only
          by_cases hp : s.esc < pay
          · simp only [hp, ↓reduceIte]; exact ⟨fun h => (by cases h), fun _ => trivial⟩
          · simp only [hp, ↓reduceIte]; exact ih _
    | nested p pay gain =>
      simp only [runTxF, runTx]
      cases nestedCall p s.o.store with
      | mk ok st' =>
        cases ok with
        | false => exact ⟨fun h => (by cases h), fun _ => rfl⟩
        | true =>
          simp only
          by_cases hp : s.esc < pay
          · simp only [hp, ↓reduceIte]; exact ⟨fun h => (by cases h), fun _ => trivial⟩
          · simp only [hp, ↓reduceIte]; exact ih _

/-- a frame that fails before completing a keeper-level call has only extended the caches of its snapshot -/
theorem runTxF_fail_ext (g : List MStep) (a : Outer) (s : TxSt) (he : Ext a s.o) (hc : Cons s.o)
    (hn : noNestedSuccess g s = true) (hf : (runTxF g s).2 = false) :
    Ext a (runTxF g s).1.o ∧ Cons (runTxF g s).1.o := by
  induction g generalizing s with
  | nil => simp [runTxF] at hf
  | cons st rest ih =>
    cases st with
    | evm p pay =>
      have he1 := ext_runOuter p he
      obtain ⟨_, _, hc1, _⟩ := runOuter_refines p s.o hc
      simp only [runTxF, noNestedSuccess] at hf hn ⊢
      cases hr : runOuter p s.o with
      | mk ok o1 =>
        rw [hr] at he1 hc1 hf hn
        (try simp only at he1 hc1 hf hn ⊢)
        cases ok with
        | false => exact ⟨he1, hc1⟩
        | true =>
          (try simp only at hf hn ⊢)
          by_cases hp : s.esc < pay
          · simp only [hp, ↓reduceIte]; exact ⟨he1, hc1⟩
          · simp only [hp, ↓reduceIte] at hf hn ⊢
            exact ih ⟨o1, s.esc - pay⟩ he1 hc1 hn hf
    | nested p pay gain =>
      simp only [runTxF, noNestedSuccess] at hf hn ⊢
      cases hr : nestedCall p s.o.store with
      | mk ok st' =>
        rw [hr] at hf hn
        (try simp only at hf hn ⊢)
        cases ok with
        | false => exact ⟨he, hc⟩
        | true =>
          (try simp only at hf hn ⊢)
          have hp : s.esc < pay := by simpa using hn
          simp only [hp, ↓reduceIte]; exact ⟨he, hc⟩

/-- **coherent transactions with swallowed sub-call failures equal the sequential semantics in which a failed frame is a
no-op** -/
theorem runTxX_coherent (steps : List XStep) (s : TxSt) (h : Cons s.o) (hc : CoherentX steps s) :
    (runTxX steps s).map (fun s' => (s'.o.view, s'.esc)) = runSeqX steps (s.o.view, s.esc) ∧
    ∀ s', runTxX steps s = some s' → Cons s'.o := by
  induction steps generalizing s with
  | nil => exact ⟨rfl, fun s' hs => by simp [runTxX] at hs; subst hs; exact h⟩
  | cons st rest ih =>
    cases st with
    | plain m =>
      simp only [CoherentX] at hc
      obtain ⟨hc1, hc2⟩ := hc
      obtain ⟨r1, r2⟩ := runTx_coherent [m] s h hc1
      simp only [runTxX, runSeqX]
      cases hr : runTx [m] s with
      | none =>
        rw [hr] at r1; simp only [Option.map_none] at r1
        rw [← r1]; exact ⟨rfl, fun _ hs => by cases hs⟩
      | some s1 =>
        rw [hr] at r1 hc2; simp only [Option.map_some] at r1 hc2
        rw [← r1]
        exact ih s1 (r2 s1 hr) hc2
    | attempt g =>
      simp only [CoherentX] at hc
      obtain ⟨hc1, hc2⟩ := hc
      obtain ⟨r1, r2⟩ := runTx_coherent g s h hc1
      obtain ⟨f1, f2⟩ := runTxF_runTx g s
      simp only [runTxX, runSeqX]
      cases hF : runTxF g s with
      | mk s1 ok =>
        rw [hF] at hc2 f1 f2
        simp only at hc2 f1 f2 ⊢
        cases ok with
        | true =>
          have hr := f1 rfl
          rw [hr] at r1; simp only [Option.map_some] at r1
          rw [← r1]
          exact ih s1 (r2 s1 hr) hc2
        | false =>
          have hr := f2 rfl
          rw [hr] at r1; simp only [Option.map_none] at r1
          rw [← r1]
          obtain ⟨hn, hc3⟩ := hc2
          have hx := runTxF_fail_ext g s.o s (ext_refl _) h hn (by rw [hF])
          rw [hF] at hx
          obtain ⟨v1, v2⟩ := revertTo_spec s.o s1.o h hx.2 hx.1
          have := ih ⟨s.o.revertTo s1.o, s.esc⟩ v2 hc3
          simp only [v1] at this
          exact this

theorem txResultX_coherent (steps : List XStep) (st : Store) (esc : Nat)
    (hc : CoherentX steps ⟨{ store := st }, esc⟩) : txResultX steps st esc = seqResultX steps st esc := by
  obtain ⟨h1, h2⟩ := runTxX_coherent steps ⟨{ store := st }, esc⟩ (cons_fresh st) hc
  have hv : ({ store := st } : Outer).view = st := by funext k; simp [Outer.view, lookup]
  simp only [hv] at h1
  simp only [txResultX, seqResultX]
  cases hr : runTxX steps ⟨{ store := st }, esc⟩ with
  | none => rw [hr] at h1; simp only [Option.map_none] at h1; rw [← h1]
  | some s' =>
    rw [hr] at h1; simp only [Option.map_some] at h1
    rw [← h1]
    show (true, s'.o.commit, s'.esc) = (true, s'.o.view, s'.esc)
    rw [commit_eq_view _ (h2 s' hr)]

theorem coherentXB_iff (steps : List XStep) (s : TxSt) : coherentXB steps s = true ↔ CoherentX steps s := by
  induction steps generalizing s with
  | nil => simp [coherentXB, CoherentX]
  | cons st rest ih =>
    cases st with
    | plain m =>
      simp only [coherentXB, CoherentX, Bool.and_eq_true, coherentTxB_iff]
      cases runTx [m] s with
      | none => simp
      | some s1 => simp [ih]
    | attempt g =>
      simp only [coherentXB, CoherentX, Bool.and_eq_true, coherentTxB_iff]
      cases runTxF g s with
      | mk s1 ok =>
        cases ok with
        | true => simp [ih]
        | false => simp [ih]

theorem runSeqX_tokDiff (hs : List Nat) (hn : hs.Nodup) (steps : List XStep)
    (hm : ∀ x ∈ steps, ∀ st ∈ x.steps, ∃ m : Method, st.prog = m.prog ∧ ∀ a ∈ m.holders, a ∈ hs) (st : Store) (esc : Nat)
    (st' : Store) (esc' : Nat) (h : runSeqX steps (st, esc) = some (st', esc')) : tokDiff hs st' = tokDiff hs st := by
  induction steps generalizing st esc with
  | nil => simp [runSeqX] at h; rw [h.1]
  | cons x rest ih =>
    have hrest := fun st esc h => ih (fun x' hx' => hm x' (by simp [hx'])) st esc h
    cases x with
    | plain m =>
      simp only [runSeqX] at h
      cases hr : runSeq [m] (st, esc) with
      | none => rw [hr] at h; cases h
      | some r =>
        rw [hr] at h
        have := runSeq_tokDiff hs hn [m] (hm (.plain m) (by simp)) st esc r.1 r.2 hr
        rw [hrest _ _ h, this]
    | attempt g =>
      simp only [runSeqX] at h
      cases hr : runSeq g (st, esc) with
      | none => rw [hr] at h; exact hrest _ _ h
      | some r =>
        rw [hr] at h
        have := runSeq_tokDiff hs hn g (hm (.attempt g) (by simp)) st esc r.1 r.2 hr
        rw [hrest _ _ h, this]

end FxVerif.Proofs.C08Cache
