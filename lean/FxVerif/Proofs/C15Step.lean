import FxVerif.Model.C15
import FxVerif.Proofs.C15
import FxVerif.Proofs.C15Queue
import FxVerif.Proofs.C15Tally
import FxVerif.Proofs.C15Run
/-!
# C15 — what one operation does to ONE stored proposal (frame and shape lemmas)

For the history-level statements "a proposal enters voting exactly when a deposit brings its total to the minimum" and
"voting ends exactly at the queue time": every operation other than a block leaves a stored proposal as it is, except a
successful deposit on it (`afterDeposit`), its cancellation, and — for an id that is not yet stored — its submission; a block
processes exactly the due queue entries, each walk step touching the proposal of its own entry only.
-/
namespace FxVerif.Proofs.C15
open FxVerif.Gen.C15 FxVerif.Model.C15

/-- the proposal stored under `p.id` after a successful `AddDeposit` of `amt` -/
def afterDeposit (s : State) (p : Proposal) (amt : Nat) : Proposal :=
  if p.status == .deposit && reaches (p.total + amt) (minForMsgs s.custom (defaultMin s p.expedited) p.msgs) then
    { p with total := p.total + amt, status := .voting, votingStart := s.time,
             votingEnd := s.time + activationPeriod s { p with total := p.total + amt } }
  else { p with total := p.total + amt }

theorem findProp_depositEffect (s : State) (p : Proposal) (who amt : Nat) (hp : findProp s.props p.id = some p) (id : Nat) :
    findProp (depositEffect s p who amt).props id = if id = p.id then some (afterDeposit s p amt) else findProp s.props id := by
  unfold depositEffect afterDeposit
  simp only
  by_cases hc : (p.status == .deposit && reaches (p.total + amt) (minForMsgs s.custom (defaultMin s p.expedited) p.msgs)) = true
  · simp only [hc, if_true, activate, findProp_putProp]
    by_cases hid : id = p.id
    · subst hid; simp [hp, activationPeriod]
    · simp [hid]
  · simp only [hc, Bool.false_eq_true, if_false, findProp_putProp]
    by_cases hid : id = p.id
    · subst hid; simp [hp]
    · simp [hid]

/-- the proposal a `MsgSubmitProposal` stores before its initial deposit -/
def newProp (s : State) (proposer : Addr) (msgs : List Msg) (expedited : Bool) : Proposal :=
  { id := s.nextId, msgs := msgs, proposer := proposer, status := .deposit, total := 0,
    depositEnd := s.time + s.params.maxDepositPeriod, votingStart := 0, votingEnd := 0, expedited := expedited }

theorem findProp_none_of_ge {props : List Proposal} {n : Nat} {ia ac : Q} (h : QI props n ia ac) {id : Nat} (hge : n ≤ id) :
    findProp props id = none := by
  cases hf : findProp props id with
  | none => rfl
  | some p => have := h.ids id p hf; omega

/-- **one operation other than a block, one id**: the stored proposal is untouched, or it received a deposit, or it was
cancelled by its proposer, or it is the freshly submitted one -/
theorem step_findProp (s : State) (op : Op) (hne : ∀ dt stk, op ≠ .endBlock dt stk) (hq : QInv s) (pid : Nat) :
    findProp (step s op).1.props pid = findProp s.props pid ∨
    (∃ p who amt, findProp s.props pid = some p ∧ isOpenSt p.status = true ∧
        (op = .deposit pid who amt ∨ ∃ other, op = .depositX pid who amt other) ∧ amt ≠ 0 ∧
        findProp (step s op).1.props pid = some (afterDeposit s p amt)) ∨
    (∃ who p, op = .cancel pid who ∧ findProp s.props pid = some p ∧ isOpenSt p.status = true ∧
        findProp (step s op).1.props pid = none) ∨
    (∃ who msgs initial exp, op = .submit who msgs initial exp ∧ pid = s.nextId ∧ findProp s.props pid = none ∧
        checkMsgs msgs = true ∧
        findProp (step s op).1.props pid = some (afterDeposit s (newProp s who msgs exp) initial)) := by
  cases op with
  | mint who amt => exact Or.inl rfl
  | updateParams p => simp only [step]; split <;> exact Or.inl rfl
  | updateCustom url c =>
    simp only [step]
    split
    · exact Or.inl rfl
    · split <;> exact Or.inl rfl
  | spend who amt => simp only [step]; split <;> exact Or.inl rfl
  | vote pid' voter opts =>
    simp only [step, Model.C15.ofExcept]
    split
    · rename_i s' h
      rw [vote_eq] at h
      unfold voteSpec at h
      split at h
      · cases h
      · split at h
        · cases h
        · split at h
          · cases h; exact Or.inl rfl
          · cases h
    · exact Or.inl rfl
  | endBlock dt stk => exact absurd rfl (hne dt stk)
  | deposit pid' who amt =>
    simp only [step, Model.C15.ofExcept]
    split
    · rename_i s' h
      unfold deposit at h
      split at h
      · cases h
      · rename_i hamt
        obtain ⟨p, hp, ho, rfl⟩ := addDeposit_ok h
        have hpid : p.id = pid' := findProp_id hp
        subst hpid
        rw [findProp_depositEffect s p who amt hp pid]
        by_cases hid : pid = p.id
        · subst hid
          refine Or.inr (Or.inl ⟨p, who, amt, hp, ho, Or.inl rfl, ?_, by simp⟩)
          simpa using hamt
        · simp [hid]
    · exact Or.inl rfl
  | depositX pid' who amt other =>
    simp only [step, Model.C15.ofExcept]
    split
    · rename_i s' h
      have h := (depositX_ok h).2
      unfold deposit at h
      split at h
      · cases h
      · rename_i hamt
        obtain ⟨p, hp, ho, rfl⟩ := addDeposit_ok h
        have hpid : p.id = pid' := findProp_id hp
        subst hpid
        rw [findProp_depositEffect s p who amt hp pid]
        by_cases hid : pid = p.id
        · subst hid
          refine Or.inr (Or.inl ⟨p, who, amt, hp, ho, Or.inr ⟨other, rfl⟩, ?_, by simp⟩)
          simpa using hamt
        · simp [hid]
    · exact Or.inl rfl
  | cancel pid' who =>
    simp only [step, Model.C15.ofExcept, cancelRun_eq]
    split
    · rename_i s' h
      unfold cancel at h
      split at h
      · cases h
      · rename_i p hp
        split at h
        · cases h
        · split at h
          · cases h
          · rename_i hopen
            have ho : isOpenSt p.status = true := by
              cases hs : p.status <;> simp_all [isOpenSt]
            split at h
            · cases h
            · split at h
              · cases h
              · split at h
                · cases h
                · cases h
                  simp only [findProp_dropProp]
                  by_cases hid : pid = pid'
                  · subst hid
                    exact Or.inr (Or.inr (Or.inl ⟨who, p, rfl, hp, ho, by simp⟩))
                  · simp [hid]
    · exact Or.inl rfl
  | submit who msgs initial exp =>
    simp only [step, Model.C15.ofExcept]
    split
    · rename_i s' h
      rw [submit_eq] at h
      unfold submitSpec at h
      split at h
      · cases h
      · rename_i hchk
        split at h
        · cases h
        · split at h
          · cases h
          · simp only at h
            obtain ⟨p, hp, ho, rfl⟩ := addDeposit_ok h
            have hnone : findProp s.props s.nextId = none := findProp_none_of_ge hq (Nat.le_refl _)
            simp only [findProp_append, hnone, if_true] at hp
            cases hp
            have hp' : findProp (s.props ++ [newProp s who msgs exp]) (newProp s who msgs exp).id = some (newProp s who msgs exp) := by
              simp [findProp_append, hnone, newProp]
            have := findProp_depositEffect
              { s with nextId := s.nextId + 1, props := s.props ++ [newProp s who msgs exp],
                       inactive := insertQ ((newProp s who msgs exp).depositEnd, (newProp s who msgs exp).id) s.inactive }
              (newProp s who msgs exp) who initial hp' pid
            simp only [newProp] at this ⊢
            rw [this]
            by_cases hid : pid = s.nextId
            · subst hid
              refine Or.inr (Or.inr (Or.inr ⟨who, msgs, initial, exp, rfl, rfl, hnone, by simpa using hchk, ?_⟩))
              simp [afterDeposit, defaultMin, activationPeriod]
            · have : ¬ s.nextId = pid := fun e => hid e.symm
              simp only [hid, if_false, findProp_append]
              cases hf : findProp s.props pid <;> simp [this]
    · exact Or.inl rfl

/-! ### the walks of the end-blocker, seen from one id -/

/-- nothing that concerns `pid` (or the clock, or the parameters) changed between two states -/
def Same (pid : Nat) (a b : State) : Prop :=
  findProp b.props pid = findProp a.props pid ∧ b.time = a.time ∧ b.params = a.params

theorem Same.refl (pid : Nat) (a : State) : Same pid a a := ⟨rfl, rfl, rfl⟩
theorem Same.trans {pid : Nat} {a b c : State} (h1 : Same pid a b) (h2 : Same pid b c) : Same pid a c :=
  ⟨h2.1.trans h1.1, h2.2.1.trans h1.2.1, h2.2.2.trans h1.2.2⟩

/-- a walk whose steps each leave the other ids alone: either `pid` is not among the ids and nothing happened to it, or
there is exactly one moment at which its own step ran, on the proposal as it was at the start -/
theorem runAll_split {f : Nat → State → Except Err State} {P : State → Prop} {Q : Nat → State → Prop} (pid : Nat)
    (hstep : ∀ id s s', P s → Q id s → f id s = .ok s' →
      P s' ∧ (∀ id', id' ≠ id → Q id' s → Q id' s') ∧ (id ≠ pid → Same pid s s')) :
    ∀ (ids : List Nat) (s s' : State), ids.Nodup → (∀ id ∈ ids, Q id s) → P s → runAll f ids s = .ok s' →
      (pid ∉ ids → Same pid s s') ∧
      (pid ∈ ids → ∃ sm sm', P sm ∧ Q pid sm ∧ Same pid s sm ∧ f pid sm = .ok sm' ∧ Same pid sm' s') := by
  intro ids
  induction ids with
  | nil =>
    intro s s' _ _ _ h
    simp [runAll] at h; subst h
    exact ⟨fun _ => Same.refl _ _, fun hm => by cases hm⟩
  | cons id r ih =>
    intro s s' hnd hq hp h
    simp only [runAll] at h
    split at h
    · rename_i s1 h1
      obtain ⟨p1, q1, f1⟩ := hstep id s s1 hp (hq id List.mem_cons_self) h1
      have hnd' := List.nodup_cons.mp hnd
      have ih' := ih s1 s' hnd'.2 (fun x hx => q1 x (fun he => hnd'.1 (he ▸ hx)) (hq x (List.mem_cons_of_mem _ hx))) p1 h
      refine ⟨?_, ?_⟩
      · intro hn
        have hne : id ≠ pid := fun e => hn (e ▸ List.mem_cons_self)
        exact (f1 hne).trans (ih'.1 (fun hm => hn (List.mem_cons_of_mem _ hm)))
      · intro hm
        by_cases he : id = pid
        · subst he
          exact ⟨s, s1, hp, hq id List.mem_cons_self, Same.refl _ _, h1, ih'.1 hnd'.1⟩
        · have hm' : pid ∈ r := by
            rcases List.mem_cons.mp hm with e | e
            · exact absurd e.symm he
            · exact e
          obtain ⟨sm, sm', a, b, c, d, e⟩ := ih'.2 hm'
          exact ⟨sm, sm', a, b, (f1 he).trans c, d, e⟩
    · cases h

/-- one inactive-queue entry: the other proposals, the clock and the parameters stay; its own proposal is deleted -/
theorem dropInactive_same {s s' : State} {id : Nat} (h1 : inactiveSettleShapeOk = true) (ha : All s)
    (hq : ∃ t, (t, id) ∈ s.inactive) (hs' : dropInactive id s = .ok s') :
    (∀ pid, pid ≠ id → Same pid s s') ∧ findProp s'.props id = none ∧ s'.time = s.time ∧ s'.params = s.params := by
  obtain ⟨t, ht⟩ := hq
  obtain ⟨p0, hp0, _, _⟩ := ha.both.q.inactSound t id ht
  have key : s'.props = dropProp s.props id ∧ s'.time = s.time ∧ s'.params = s.params := by
    rw [dropInactive_eq] at hs'
    unfold dropInactiveSpec at hs'
    simp only [hp0, h1, if_true] at hs'
    split at hs'
    · have sp := refundDeposits_spec (by simpa using ha.inv.bal) hs'
      exact ⟨sp.2.2.1, sp.2.2.2.2.2.1, sp.2.2.2.2.2.2.1⟩
    · have sp := burnDeposits_spec (by simpa using ha.inv.bal) hs'
      exact ⟨sp.2.2.1, sp.2.2.2.2.2.1, sp.2.2.2.2.2.2.1⟩
  refine ⟨fun pid hne => ⟨?_, key.2.1, key.2.2⟩, ?_, key.2.1, key.2.2⟩
  · rw [key.1, findProp_dropProp]; simp [hne]
  · rw [key.1, findProp_dropProp]; simp

/-- what the end of a voting period leaves of the proposal `p` (in state `s`, with tally outcome `passes`) -/
def Ended (s : State) (p q : Proposal) (passes : Bool) : Prop :=
  q.msgs = p.msgs ∧ q.votingStart = p.votingStart ∧ q.depositEnd = p.depositEnd ∧ q.id = p.id ∧
  ((passes = true ∧ (q.status = .passed ∨ q.status = .failed)) ∨
   (passes = false ∧ p.expedited = true ∧ q.status = p.status ∧ q.expedited = false ∧
      q.votingEnd = p.votingStart + conversionPeriod s p) ∨
   (passes = false ∧ p.expedited = false ∧ q.status = .rejected))

theorem conversionPeriod_congr {a b : State} (h1 : a.params = b.params) (h2 : a.custom = b.custom) (p : Proposal) :
    conversionPeriod a p = conversionPeriod b p := by
  simp [conversionPeriod, h1, h2]


/-- `finishTally` on the stored proposal `p` of `pid`: the other proposals, the clock and the parameters stay, and the
proposal ends as `Ended` says — passed or failed, rejected, or (expedited, not passed) converted with the period of the
conversion taken in this very state -/
theorem finishTally_shape {s s' : State} {pid : Nat} {p : Proposal} {passes burn : Bool} {res : Nat × Nat × Nat × Nat}
    (h2 : settleShapeOk = true) (h3 : execInCacheCtx = true) (hb : s.gov = sumAmt s.deps)
    (hp : findProp s.props pid = some p) (h : finishTally passes burn res p pid s = .ok s') :
    s'.time = s.time ∧ s'.params = s.params ∧ (∀ id, id ≠ pid → findProp s'.props id = findProp s.props id) ∧
    ∃ q, findProp s'.props pid = some q ∧ Ended s p q passes := by
  have hpid : p.id = pid := findProp_id hp
  unfold finishTally at h
  simp only [refundRun_eq, burnRun_eq] at h
  simp only [h2, Bool.not_true, Bool.false_and, Bool.false_eq_true, if_false] at h
  simp only [if_true] at h
  have settle : ∀ s1 : State,
      (if (!(p.expedited && !passes)) = true then (if burn = true then burnDeposits pid s else refundDeposits pid s)
        else Except.ok s) = .ok s1 →
      s1.props = s.props ∧ s1.time = s.time ∧ s1.params = s.params ∧ s1.custom = s.custom := by
    intro s1 hx
    split at hx
    · split at hx
      · have sp := burnDeposits_spec hb hx
        exact ⟨sp.2.2.1, sp.2.2.2.2.2.1, sp.2.2.2.2.2.2.1, sp.2.2.2.2.2.2.2.1⟩
      · have sp := refundDeposits_spec hb hx
        exact ⟨sp.2.2.1, sp.2.2.2.2.2.1, sp.2.2.2.2.2.2.1, sp.2.2.2.2.2.2.2.1⟩
    · cases hx; exact ⟨rfl, rfl, rfl, rfl⟩
  split at h
  · cases h
  · rename_i s1 hx
    obtain ⟨e1, e2, e3, e4⟩ := settle s1 hx
    split at h
    · rename_i hpass
      generalize hr' : runProposalMsgs p.msgs { s1 with active := removeQ (p.votingEnd, pid) s1.active } = rr at h
      obtain ⟨s3, ok⟩ := rr
      simp only at h
      cases h
      have e3' : s3 = (runProposalMsgs p.msgs { s1 with active := removeQ (p.votingEnd, pid) s1.active }).1 := by rw [hr']
      have fr := runProposalMsgs_same h3 p.msgs { s1 with active := removeQ (p.votingEnd, pid) s1.active }
      rw [← e3'] at fr
      refine ⟨fr.2.2.2.2.2.1.trans e2, fr.2.2.2.2.2.2.1.trans e3, ?_, ?_⟩
      · intro id hid
        have : ¬ id = p.id := by rw [hpid]; exact hid
        simp only [findProp_putProp, this, if_false]
        rw [fr.1]; show findProp s1.props id = _; rw [e1]
      · refine ⟨{ p with status := if ok = true then .passed else .failed, tallyRes := res }, ?_, rfl, rfl, rfl, rfl, ?_⟩
        · simp only [findProp_putProp, hpid, if_true]
          rw [fr.1]; show (findProp s1.props pid).map _ = _; rw [e1, hp]; rfl
        · refine Or.inl ⟨hpass, ?_⟩
          cases ok <;> simp
    · rename_i hpass
      have hpass' : passes = false := by simpa using hpass
      split at h
      · rename_i hexp
        cases h
        refine ⟨e2, e3, ?_, ?_⟩
        · intro id hid
          have : ¬ id = p.id := by rw [hpid]; exact hid
          simp only [findProp_putProp, this, if_false]
          rw [e1]
        · refine ⟨{ p with expedited := false, votingEnd := p.votingStart +
              conversionPeriod { s1 with active := removeQ (p.votingEnd, pid) s1.active } p, tallyRes := res },
            ?_, rfl, rfl, rfl, rfl, Or.inr (Or.inl ⟨hpass', hexp, rfl, rfl, ?_⟩)⟩
          · simp only [findProp_putProp, hpid, if_true]
            rw [e1, hp]; rfl
          · show p.votingStart + conversionPeriod _ p = p.votingStart + conversionPeriod s p
            rw [conversionPeriod_congr (a := { s1 with active := removeQ (p.votingEnd, pid) s1.active }) (b := s) e3 e4]
      · rename_i hexp
        have hexp' : p.expedited = false := by simpa using hexp
        cases h
        refine ⟨e2, e3, ?_, ?_⟩
        · intro id hid
          have : ¬ id = p.id := by rw [hpid]; exact hid
          simp only [findProp_putProp, this, if_false]
          rw [e1]
        · refine ⟨{ p with status := .rejected, tallyRes := res }, ?_, rfl, rfl, rfl, rfl, Or.inr (Or.inr ⟨hpass', hexp', rfl⟩)⟩
          simp only [findProp_putProp, hpid, if_true]
          rw [e1, hp]; rfl

/-- one active-queue entry: the other proposals, the clock and the parameters stay; its own proposal ends (`Ended`) with
the outcome `Tally` computes from the stored votes and the block's staking numbers, in the state of that moment -/
theorem tallyOne_same {s s' : State} {stk : Staking} {id : Nat} (h2 : settleShapeOk = true) (h3 : execInCacheCtx = true)
    (ha : All s) (hq : ∃ t, (t, id) ∈ s.active) (hs' : tallyOne stk id s = .ok s') :
    (∀ pid, pid ≠ id → Same pid s s') ∧ s'.time = s.time ∧ s'.params = s.params ∧
    ∃ p q n passes burn, findProp s.props id = some p ∧ findProp s'.props id = some q ∧
      tallyNums (votesOf s.votes id) stk = some n ∧ tally s p n = .ok (passes, burn) ∧ Ended s p q passes := by
  obtain ⟨t, ht⟩ := hq
  obtain ⟨p0, hp0, _, _⟩ := ha.both.q.actSound t id ht
  unfold tallyOne at hs'
  simp only [hp0] at hs'
  split at hs'
  · cases hs'
  · rename_i n hn
    split at hs'
    · cases hs'
    · rename_i passes burn hr
      have sh := finishTally_shape (s := { s with votes := if tallyRemovesVotes then votesNot s.votes id else s.votes })
        h2 h3 ha.inv.bal hp0 hs'
      refine ⟨fun pid hne => ⟨sh.2.2.1 pid hne, sh.1, sh.2.1⟩, sh.1, sh.2.1, ?_⟩
      obtain ⟨q, hq1, hq2⟩ := sh.2.2.2
      refine ⟨p0, q, n, passes, burn, hp0, hq1, hn, hr, ?_⟩
      obtain ⟨a, b, c, d, e⟩ := hq2
      refine ⟨a, b, c, d, ?_⟩
      rcases e with e | e | e
      · exact Or.inl e
      · refine Or.inr (Or.inl ⟨e.1, e.2.1, e.2.2.1, e.2.2.2.1, ?_⟩)
        rw [e.2.2.2.2]; rfl
      · exact Or.inr (Or.inr e)


theorem mem_dueIds_iff {q : Q} {now id : Nat} : id ∈ dueIds q now ↔ ∃ t, (t, id) ∈ q ∧ t ≤ now := by
  unfold dueIds
  constructor
  · intro h
    obtain ⟨y, hy, hyx⟩ := List.mem_map.mp h
    have := List.mem_filter.mp hy
    exact ⟨y.1, by rw [← hyx]; exact this.1, by simpa using this.2⟩
  · intro ⟨t, ht, hle⟩
    exact List.mem_map.mpr ⟨(t, id), List.mem_filter.mpr ⟨ht, by simpa using hle⟩, rfl⟩

/-- **the end-blocker, seen from one id**: there is the state `s1` between the two walks; in each walk either the id is
not due and nothing happens to its proposal, or its own step runs exactly once, on the proposal as the block found it -/
theorem endBlock_split {s s' : State} {stk : Staking} (h1 : inactiveSettleShapeOk = true) (h2 : settleShapeOk = true)
    (h3 : execInCacheCtx = true) (h4 : tallyRemovesVotes = true) (ha : All s) (h : endBlock stk s = .ok s') (pid : Nat) :
    ∃ s1, All s1 ∧ s1.time = s.time ∧ s1.params = s.params ∧
      (pid ∉ dueIds s.inactive s.time → Same pid s s1) ∧
      (pid ∈ dueIds s.inactive s.time → findProp s1.props pid = none) ∧
      (pid ∉ dueIds s1.active s1.time → Same pid s1 s') ∧
      (pid ∈ dueIds s1.active s1.time → ∃ sm sm', All sm ∧ Same pid s1 sm ∧ tallyOne stk pid sm = .ok sm' ∧ Same pid sm' s') := by
  unfold endBlock at h
  split at h
  · cases h
  · rename_i s1 e1
    -- inactive walk, invariant: All ∧ clock/parameters as at the start
    have w1 := runAll_split (f := dropInactive) (P := fun x => All x ∧ x.time = s.time ∧ x.params = s.params)
      (Q := fun id x => ∃ t, (t, id) ∈ x.inactive) pid
      (by
        intro id x x' hx hq hx'
        have st := dropInactive_step h1 hx.1 hq hx'
        have sm := dropInactive_same h1 hx.1 hq hx'
        exact ⟨⟨st.1, sm.2.2.1.trans hx.2.1, sm.2.2.2.trans hx.2.2⟩, st.2, fun hne => sm.1 pid (fun e => hne e.symm)⟩)
      (dueIds s.inactive s.time) s s1 (dueIds_inactive_nodup ha) (fun id hid => mem_dueIds hid) ⟨ha, rfl, rfl⟩ e1
    have a1 : All s1 ∧ s1.time = s.time ∧ s1.params = s.params := by
      have := runAll_pres (f := dropInactive) (P := fun x => All x ∧ x.time = s.time ∧ x.params = s.params)
        (Q := fun id x => ∃ t, (t, id) ∈ x.inactive)
        (by
          intro id x x' hx hq hx'
          have st := dropInactive_step h1 hx.1 hq hx'
          have sm := dropInactive_same h1 hx.1 hq hx'
          exact ⟨⟨st.1, sm.2.2.1.trans hx.2.1, sm.2.2.2.trans hx.2.2⟩, st.2⟩)
        (dueIds s.inactive s.time) s s1 (dueIds_inactive_nodup ha) (fun id hid => mem_dueIds hid) ⟨ha, rfl, rfl⟩ e1
      exact this
    have w2 := runAll_split (f := tallyOne stk) (P := All) (Q := fun id x => ∃ t, (t, id) ∈ x.active) pid
      (by
        intro id x x' hx hq hx'
        have st := tallyOne_step h2 h3 h4 hx hq hx'
        have sm := tallyOne_same h2 h3 hx hq hx'
        exact ⟨st.1, st.2, fun hne => sm.1 pid (fun e => hne e.symm)⟩)
      (dueIds s1.active s1.time) s1 s' (dueIds_active_nodup a1.1) (fun id hid => mem_dueIds hid) a1.1 h
    refine ⟨s1, a1.1, a1.2.1, a1.2.2, w1.1, ?_, w2.1, ?_⟩
    · intro hm
      obtain ⟨sm, sm', hsm, hq, _, hd, hsame⟩ := w1.2 hm
      have := (dropInactive_same h1 hsm.1 hq hd).2.1
      rw [hsame.1]; exact this
    · intro hm
      obtain ⟨sm, sm', hsm, _, hs1, hd, hsame⟩ := w2.2 hm
      exact ⟨sm, sm', hsm, hs1, hd, hsame⟩

/-- a proposal in its voting period and a block: before its voting end nothing happens to it; from its voting end on it
is tallied in this block — in some state `sm` of the walk in which it is still as the block found it — and ends as `Ended` says -/
theorem endBlock_voting {s s' : State} {stk : Staking} (h1 : inactiveSettleShapeOk = true) (h2 : settleShapeOk = true)
    (h3 : execInCacheCtx = true) (h4 : tallyRemovesVotes = true) (ha : All s) (h : endBlock stk s = .ok s')
    {pid : Nat} {p : Proposal} (hp : findProp s.props pid = some p) (hst : p.status = .voting) :
    (s.time < p.votingEnd → findProp s'.props pid = some p) ∧
    (p.votingEnd ≤ s.time → ∃ sm q n passes burn, All sm ∧ sm.params = s.params ∧ sm.time = s.time ∧
        findProp sm.props pid = some p ∧ tallyNums (votesOf sm.votes pid) stk = some n ∧ tally sm p n = .ok (passes, burn) ∧
        findProp s'.props pid = some q ∧ Ended sm p q passes) := by
  obtain ⟨s1, a1, t1, p1, i1, _, ac1, ac2⟩ := endBlock_split h1 h2 h3 h4 ha h pid
  have hni : pid ∉ dueIds s.inactive s.time := by
    intro hm
    obtain ⟨t, ht, _⟩ := mem_dueIds_iff.mp hm
    obtain ⟨p', hp', hs', _⟩ := ha.both.q.inactSound t pid ht
    rw [hp] at hp'; cases hp'; rw [hst] at hs'; cases hs'
  have sm1 := i1 hni
  have hp1 : findProp s1.props pid = some p := by rw [sm1.1]; exact hp
  have hdue : pid ∈ dueIds s1.active s1.time ↔ p.votingEnd ≤ s.time := by
    rw [mem_dueIds_iff, t1]
    constructor
    · intro ⟨t, ht, hle⟩
      obtain ⟨p', hp', _, he⟩ := a1.both.q.actSound t pid ht
      rw [hp1] at hp'; cases hp'; omega
    · intro hle
      exact ⟨p.votingEnd, a1.both.q.actComplete pid p hp1 hst, hle⟩
  refine ⟨?_, ?_⟩
  · intro hlt
    have := ac1 (fun hm => by have := hdue.mp hm; omega)
    rw [this.1]; exact hp1
  · intro hle
    obtain ⟨sm, sm', hsm, hs1, hd, hsame⟩ := ac2 (hdue.mpr hle)
    have hpm : findProp sm.props pid = some p := by rw [hs1.1]; exact hp1
    have hq : ∃ t, (t, pid) ∈ sm.active := ⟨p.votingEnd, hsm.both.q.actComplete pid p hpm hst⟩
    obtain ⟨_, _, _, p', q, n, passes, burn, hp', hq', hn, hr, he⟩ := tallyOne_same h2 h3 hsm hq hd
    rw [hpm] at hp'; cases hp'
    exact ⟨sm, q, n, passes, burn, hsm, hs1.2.2.trans p1, hs1.2.1.trans t1, hpm, hn, hr, by rw [hsame.1]; exact hq', he⟩

/-- a proposal in its deposit period and a block: before its deposit end nothing happens to it, from its deposit end on it
is deleted in this block -/
theorem endBlock_deposit {s s' : State} {stk : Staking} (h1 : inactiveSettleShapeOk = true) (h2 : settleShapeOk = true)
    (h3 : execInCacheCtx = true) (h4 : tallyRemovesVotes = true) (ha : All s) (h : endBlock stk s = .ok s')
    {pid : Nat} {p : Proposal} (hp : findProp s.props pid = some p) (hst : p.status = .deposit) :
    (s.time < p.depositEnd → findProp s'.props pid = some p) ∧ (p.depositEnd ≤ s.time → findProp s'.props pid = none) := by
  obtain ⟨s1, a1, t1, p1, i1, i2, ac1, _⟩ := endBlock_split h1 h2 h3 h4 ha h pid
  have hdue : pid ∈ dueIds s.inactive s.time ↔ p.depositEnd ≤ s.time := by
    rw [mem_dueIds_iff]
    constructor
    · intro ⟨t, ht, hle⟩
      obtain ⟨p', hp', _, he⟩ := ha.both.q.inactSound t pid ht
      rw [hp] at hp'; cases hp'; omega
    · intro hle
      exact ⟨p.depositEnd, ha.both.q.inactComplete pid p hp hst, hle⟩
  have hna : ∀ x, findProp s1.props pid = x → (∀ p', x = some p' → p'.status = .deposit) → pid ∉ dueIds s1.active s1.time := by
    intro x hx hd hm
    obtain ⟨t, ht, _⟩ := mem_dueIds_iff.mp hm
    obtain ⟨p', hp', hs', _⟩ := a1.both.q.actSound t pid ht
    have := hd p' (by rw [← hx]; exact hp')
    rw [this] at hs'; cases hs'
  refine ⟨?_, ?_⟩
  · intro hlt
    have sm1 := i1 (fun hm => by have := hdue.mp hm; omega)
    have hp1 : findProp s1.props pid = some p := by rw [sm1.1]; exact hp
    have := ac1 (hna _ hp1 (fun p' e => by cases e; exact hst))
    rw [this.1]; exact hp1
  · intro hle
    have hp1 := i2 (hdue.mpr hle)
    have := ac1 (hna _ hp1 (fun p' e => by cases e))
    rw [this.1]; exact hp1

/-- a block does nothing to an id that is in neither queue (not stored, or ended) -/
theorem endBlock_closed {s s' : State} {stk : Staking} (h1 : inactiveSettleShapeOk = true) (h2 : settleShapeOk = true)
    (h3 : execInCacheCtx = true) (h4 : tallyRemovesVotes = true) (ha : All s) (h : endBlock stk s = .ok s')
    {pid : Nat} (hcl : ∀ p, findProp s.props pid = some p → isOpenSt p.status = false) :
    findProp s'.props pid = findProp s.props pid := by
  obtain ⟨s1, a1, _, _, i1, _, ac1, _⟩ := endBlock_split h1 h2 h3 h4 ha h pid
  have hni : pid ∉ dueIds s.inactive s.time := by
    intro hm
    obtain ⟨t, ht, _⟩ := mem_dueIds_iff.mp hm
    obtain ⟨p', hp', hs', _⟩ := ha.both.q.inactSound t pid ht
    have := hcl p' hp'
    rw [hs'] at this; simp [isOpenSt] at this
  have sm1 := i1 hni
  have hna : pid ∉ dueIds s1.active s1.time := by
    intro hm
    obtain ⟨t, ht, _⟩ := mem_dueIds_iff.mp hm
    obtain ⟨p', hp', hs', _⟩ := a1.both.q.actSound t pid ht
    rw [sm1.1] at hp'
    have := hcl p' hp'
    rw [hs'] at this; simp [isOpenSt] at this
  rw [(ac1 hna).1, sm1.1]

end FxVerif.Proofs.C15
