import FxVerif.Model.C05Ext
import FxVerif.Proofs.C05Sorted
import FxVerif.Proofs.C06
/-!
The invariant tying fxcore's records to what the external chain can still run: every batch / outgoing bridge call the
bridge contract still accepts is still held by fxcore.  Preserved by every operation and every *admissible* observed event.
-/
namespace FxVerif.Proofs.C05
open FxVerif.Gen.C05 FxVerif.Model.C05 FxVerif.Proofs.C06 List

/-! ## what the clean-ups touch -/

theorem foldl_refundCall_misc (cs : List Call) (s : State) :
    (cs.foldl refundCall s).obsExt = s.obsExt ∧ (cs.foldl refundCall s).nextBatchId = s.nextBatchId ∧
    (cs.foldl refundCall s).fxHeight = s.fxHeight ∧ (cs.foldl refundCall s).eventNonce = s.eventNonce := by
  induction cs generalizing s with
  | nil => simp
  | cons c cs ih =>
    simp only [foldl_cons]
    obtain ⟨h1, h2, h3, h4⟩ := ih (refundCall s c)
    exact ⟨by rw [h1]; rfl, by rw [h2]; rfl, by rw [h3]; rfl, by rw [h4]; rfl⟩

theorem batchExpired_iff (h : Nat) (b : Batch) : batchExpired h b = true ↔ b.timeout < h := by
  have h1 : batchCleanupCmp = .lt := by decide
  have h2 : batchCleanupCancels = true := by decide
  simp [batchExpired, h1, h2, Cmp.eval]

theorem keptCalls_eq (h : Nat) (cs : List Call) : keptCalls h cs = cs.dropWhile (fun c => decide (c.timeout ≤ h)) := by
  have h1 : callCleanupStopCmp = .gt := by decide
  have h2 : callCleanupStops = true := by decide
  have e : (fun c : Call => !callStops h c) = (fun c => decide (c.timeout ≤ h)) := by
    funext c; simp only [callStops, h1, Cmp.eval]; exact not_lt_decide _ _
  simp [keptCalls, h2, e]

/-- both clean-ups at once, field by field (with the height source the code has now) -/
theorem cleanup_fields (z : State) :
    let f := cleanupCalls (cleanupBatches z)
    f.batches = z.batches.filter (fun b => decide (z.obsExt ≤ b.timeout)) ∧
    f.calls = z.calls.dropWhile (fun c => decide (c.timeout ≤ z.obsExt)) ∧
    f.pending = z.pending ∧ f.obsExt = z.obsExt ∧ f.nextBatchId = z.nextBatchId ∧ f.nextCallId = z.nextCallId := by
  have e1 : batchCleanupSrc = .observedExternal := by decide
  have e2 : callCleanupSrc = .observedExternal := by decide
  have hd : callCleanupDeletes = true := by decide
  have hb : heightOf batchCleanupSrc z = z.obsExt := by rw [e1]; rfl
  have hc : heightOf callCleanupSrc (cleanupBatches z) = z.obsExt := by rw [e2]; rfl
  simp only
  obtain ⟨fm, er, hfm⟩ := cleanupCalls_core (cleanupBatches z)
  rw [hfm]
  unfold cleanupCallsCore
  obtain ⟨_, h2, h3, _, h5, h6, _⟩ := foldl_refundCall (expiredCalls (heightOf callCleanupSrc (cleanupBatches z)) (cleanupBatches z).calls)
    { cleanupBatches z with calls := if callCleanupDeletes then keptCalls (heightOf callCleanupSrc (cleanupBatches z)) (cleanupBatches z).calls else (cleanupBatches z).calls }
  obtain ⟨m1, m2, _, _⟩ := foldl_refundCall_misc (expiredCalls (heightOf callCleanupSrc (cleanupBatches z)) (cleanupBatches z).calls)
    { cleanupBatches z with calls := if callCleanupDeletes then keptCalls (heightOf callCleanupSrc (cleanupBatches z)) (cleanupBatches z).calls else (cleanupBatches z).calls }
  refine ⟨?_, ?_, ?_, ?_, ?_, ?_⟩
  · rw [h2]
    simp only [cleanupBatches, cancelBatches, hb]
    congr 1
    funext b
    have := batchExpired_iff z.obsExt b
    by_cases hlt : b.timeout < z.obsExt
    · have : ¬ z.obsExt ≤ b.timeout := by omega
      simp_all
    · have : z.obsExt ≤ b.timeout := by omega
      simp_all
  · rw [h3]
    simp only [hd, if_true, hc, keptCalls_eq]
    rfl
  · rw [h6]; rfl
  · rw [m1]; rfl
  · rw [m2]; rfl
  · rw [h5]; rfl

theorem mem_dropWhile_of_false {α : Type} (p : α → Bool) : ∀ (l : List α) (a : α), a ∈ l → p a = false → a ∈ l.dropWhile p
  | [], _, h, _ => by cases h
  | x :: xs, a, h, hp => by
    rw [dropWhile_cons]
    split
    · rename_i hx
      simp only [mem_cons] at h
      rcases h with rfl | h
      · rw [hp] at hx; cases hx
      · exact mem_dropWhile_of_false p xs a h hp
    · exact h

/-! ## the invariant -/

structure J (s : State) (x : Ext) : Prop where
  height : s.obsExt = x.height
  /-- a batch the contract still accepts (nonce above the token's last executed nonce, timeout not passed) is held -/
  batches : ∀ b ∈ x.created, x.lastNonce b.token < b.nonce → x.height ≤ b.timeout → b ∈ s.batches
  /-- a bridge call the contract still accepts (nonce unused, timeout not reached) is held -/
  calls : ∀ c ∈ x.createdCalls, c.nonce ∉ x.callDone → x.height < c.timeout → c ∈ s.calls
  pend : ∀ p ∈ s.pending, p.2.1 ∈ x.callDone
  /-- the nonces of all batches ever created are exactly 1 .. nextBatchId-1, in creation order -/
  nonces : x.created.map (·.nonce) = range' 1 (s.nextBatchId - 1)
  npos : 1 ≤ s.nextBatchId
  cnonces : x.createdCalls.map (·.nonce) = range' 1 (s.nextCallId - 1)
  cpos : 1 ≤ s.nextCallId
  sub : ∀ b ∈ s.batches, b ∈ x.created
  csub : ∀ c ∈ s.calls, c ∈ x.createdCalls

theorem J_init {s : State} (h : IsInit s) : J s {} := by
  obtain ⟨_, h2, h3, _, h5, h6, h7, _, _, h10, _⟩ := h
  refine ⟨h10, ?_, ?_, ?_, ?_, by omega, ?_, by omega, ?_, ?_⟩
  · intro b hb; cases hb
  · intro c hc; cases hc
  · rw [h7]; intro p hp; cases hp
  · simp [h2]
  · simp [h3]
  · rw [h5]; intro b hb; cases hb
  · rw [h6]; intro c hc; cases hc

/-- a state change that leaves batches, calls, pending, heights and the two counters alone keeps `J` -/
theorem J_frame {s s' : State} {x : Ext} (hj : J s x) (hb : s'.batches = s.batches) (hc : s'.calls = s.calls)
    (hp : s'.pending = s.pending) (ho : s'.obsExt = s.obsExt) (hn : s'.nextBatchId = s.nextBatchId)
    (hm : s'.nextCallId = s.nextCallId) : J s' x :=
  ⟨by rw [ho]; exact hj.height, by rw [hb]; exact hj.batches, by rw [hc]; exact hj.calls, by rw [hp]; exact hj.pend,
   by rw [hn]; exact hj.nonces, by rw [hn]; exact hj.npos, by rw [hm]; exact hj.cnonces, by rw [hm]; exact hj.cpos,
   by rw [hb]; exact hj.sub, by rw [hc]; exact hj.csub⟩

/-- the two clean-ups keep `J`: they release only what the contract can no longer run -/
theorem J_cleanup {z : State} {x : Ext} (hj : J z x) : J (cleanupCalls (cleanupBatches z)) x := by
  obtain ⟨f1, f2, f3, f4, f5, f6⟩ := cleanup_fields z
  refine ⟨by rw [f4]; exact hj.height, ?_, ?_, by rw [f3]; exact hj.pend, by rw [f5]; exact hj.nonces,
    by rw [f5]; exact hj.npos, by rw [f6]; exact hj.cnonces, by rw [f6]; exact hj.cpos, ?_, ?_⟩
  · intro b hb h1 h2
    rw [f1, mem_filter]
    exact ⟨hj.batches b hb h1 h2, by rw [hj.height]; simpa using h2⟩
  · intro c hc h1 h2
    rw [f2]
    refine mem_dropWhile_of_false _ _ _ (hj.calls c hc h1 h2) ?_
    rw [hj.height]
    simp only [decide_eq_false_iff_not]
    omega
  · intro b hb
    rw [f1] at hb
    exact hj.sub b (mem_filter.mp hb).1
  · intro c hc
    rw [f2] at hc
    exact hj.csub c ((dropWhile_sublist _).subset hc)

/-! ## creation -/

theorem bridgeCall_cases (s : State) (a r : Addr) (to d m : String) (cs : List (Token × Nat)) :
    (doBridgeCall s a r to d m cs).1 = s ∨
    ∃ bal' erc' fm, 0 < calTimeout s s.params.callTimeout ∧ (doBridgeCall s a r to d m cs).1 =
      { s with nextCallId := s.nextCallId + 1, bal := bal', erc := erc', fromMsg := fm,
               calls := s.calls ++ [⟨s.nextCallId, a, r, cs, to, d, m, calTimeout s s.params.callTimeout, s.fxHeight⟩] } := by
  have h5 : callZeroTimeoutCmp = .le := by decide
  have h6 : callZeroTimeoutRejects = true := by decide
  unfold doBridgeCall
  split
  · left; rfl
  · split
    · left; rfl
    · simp only [h5, h6, Cmp.eval, Bool.true_and, decide_eq_true_eq, Nat.le_zero_eq]
      split
      · left; rfl
      · right; exact ⟨_, s.erc, _, by omega, rfl⟩

/-- the `bridgeCall` precompile creates the record exactly as the message does (other ledger, no from-message mark) -/
theorem pcall_cases (s : State) (a r : Addr) (to d m : String) (cs : List (Token × Nat)) :
    (doPCall s a r to d m cs).1 = s ∨
    ∃ bal' erc' fm, 0 < calTimeout s s.params.callTimeout ∧ (doPCall s a r to d m cs).1 =
      { s with nextCallId := s.nextCallId + 1, bal := bal', erc := erc', fromMsg := fm,
               calls := s.calls ++ [⟨s.nextCallId, a, r, cs, to, d, m, calTimeout s s.params.callTimeout, s.fxHeight⟩] } := by
  have h5 : callZeroTimeoutCmp = .le := by decide
  have h6 : callZeroTimeoutRejects = true := by decide
  unfold doPCall
  split
  · simp only [h5, h6, Cmp.eval, Bool.true_and, decide_eq_true_eq, Nat.le_zero_eq]
    split
    · left; rfl
    · right; exact ⟨_, _, _, by omega, rfl⟩
  · left; rfl

theorem range'_succ_concat (n : Nat) (h : 1 ≤ n) : range' 1 (n + 1 - 1) = range' 1 (n - 1) ++ [n] := by
  have : n + 1 - 1 = (n - 1) + 1 := by omega
  rw [this, range'_concat]
  congr 2
  omega

theorem J_reqBatch {s : State} {x : Ext} (hj : J s x) (t : Token) (mf bf : Nat) (fr : String) :
    J (step s (.reqBatch t mf bf fr)).1 (x.nextStd s (.reqBatch t mf bf fr)) := by
  simp only [Ext.nextStd, step]
  rcases reqBatch_not_ok s t mf bf fr with ⟨n, hn⟩ | hsame
  · have hpair : doReqBatch s t mf bf fr = ((doReqBatch s t mf bf fr).1, .ok n) := by rw [← hn]
    obtain ⟨_, hs'⟩ := reqBatch_ok hpair
    rw [hs']
    simp only [drop_left]
    refine ⟨hj.height, ?_, hj.calls, hj.pend, ?_, by simp, hj.cnonces, hj.cpos, ?_, hj.csub⟩
    · intro b hb h1 h2
      simp only [mem_append, mem_singleton] at hb ⊢
      rcases hb with hb | rfl
      · exact Or.inl (hj.batches b hb h1 h2)
      · exact Or.inr rfl
    · simp only [map_append, map_cons, map_nil, hj.nonces]
      exact (range'_succ_concat _ hj.npos).symm
    · intro b hb
      simp only [mem_append, mem_singleton] at hb ⊢
      rcases hb with hb | rfl
      · exact Or.inl (hj.sub b hb)
      · exact Or.inr rfl
  · rw [hsame]
    simp only [drop_length, map_nil, append_nil]
    exact hj

theorem J_bridgeCall {s : State} {x : Ext} (hj : J s x) (a r : Addr) (to d m : String) (cs : List (Token × Nat)) :
    J (step s (.bridgeCall a r to d m cs)).1 (x.nextStd s (.bridgeCall a r to d m cs)) := by
  simp only [Ext.nextStd, step]
  rcases bridgeCall_cases s a r to d m cs with hsame | ⟨bal', erc', fm, timeout, hs'⟩
  · rw [hsame]
    simp only [drop_length, map_nil, append_nil]
    exact hj
  · rw [hs']
    simp only [drop_left]
    refine ⟨hj.height, hj.batches, ?_, hj.pend, hj.nonces, hj.npos, ?_, by simp, hj.sub, ?_⟩
    · intro c hc h1 h2
      simp only [mem_append, mem_singleton] at hc ⊢
      rcases hc with hc | rfl
      · exact Or.inl (hj.calls c hc h1 h2)
      · exact Or.inr rfl
    · simp only [map_append, map_cons, map_nil, hj.cnonces]
      exact (range'_succ_concat _ hj.cpos).symm
    · intro c hc
      simp only [mem_append, mem_singleton] at hc ⊢
      rcases hc with hc | rfl
      · exact Or.inl (hj.csub c hc)
      · exact Or.inr rfl

theorem J_pcall {s : State} {x : Ext} (hj : J s x) (a r : Addr) (to d m : String) (cs : List (Token × Nat)) :
    J (step s (.pcall a r to d m cs)).1 (x.nextStd s (.pcall a r to d m cs)) := by
  simp only [Ext.nextStd, step]
  rcases pcall_cases s a r to d m cs with hsame | ⟨bal', erc', fm, timeout, hs'⟩
  · rw [hsame]
    simp only [drop_length, map_nil, append_nil]
    exact hj
  · rw [hs']
    simp only [drop_left]
    refine ⟨hj.height, hj.batches, ?_, hj.pend, hj.nonces, hj.npos, ?_, by simp, hj.sub, ?_⟩
    · intro c hc h1 h2
      simp only [mem_append, mem_singleton] at hc ⊢
      rcases hc with hc | rfl
      · exact Or.inl (hj.calls c hc h1 h2)
      · exact Or.inr rfl
    · simp only [map_append, map_cons, map_nil, hj.cnonces]
      exact (range'_succ_concat _ hj.cpos).symm
    · intro c hc
      simp only [mem_append, mem_singleton] at hc ⊢
      rcases hc with hc | rfl
      · exact Or.inl (hj.csub c hc)
      · exact Or.inr rfl

/-! ## applying a pending result -/

theorem J_exec {s : State} {x : Ext} (hj : J s x) (n : Nat) : J (doExec s n).1 x := by
  rw [doExec_flags]; unfold doExecFlags
  split
  · exact hj
  · rename_i p hp
    have hpm : p ∈ s.pending := mem_of_find?_eq_some hp
    split
    · exact hj
    · rename_i c hf
      have hcn : c.nonce = p.2.1 := by simpa using find?_some hf
      have hkeep : ∀ c' ∈ x.createdCalls, c'.nonce ∉ x.callDone → x.height < c'.timeout → c' ∈ s.calls.erase c := by
        intro c' hc' h1 h2
        have hne : c' ≠ c := by
          intro he
          apply h1
          rw [he, hcn]
          exact hj.pend p hpm
        exact (mem_erase_of_ne hne).mpr (hj.calls c' hc' h1 h2)
      have hsubp : ∀ q ∈ s.pending.erase p, q.2.1 ∈ x.callDone := fun q hq => hj.pend q (mem_of_mem_erase hq)
      have hcsub : ∀ c' ∈ s.calls.erase c, c' ∈ x.createdCalls := fun c' hc' => hj.csub c' (mem_of_mem_erase hc')
      simp only
      split
      · exact ⟨hj.height, hj.batches, hkeep, hsubp, hj.nonces, hj.npos, hj.cnonces, hj.cpos, hj.sub, hcsub⟩
      · simp only [refundCall]
        exact ⟨hj.height, hj.batches, hkeep, hsubp, hj.nonces, hj.npos, hj.cnonces, hj.cpos, hj.sub, hcsub⟩

/-! ## observed events -/

/-- an admissibleStd batch execution finds its batch on fxcore -/
theorem admissible_batch_found {s : State} {x : Ext} (hj : J s x) {h t n : Nat}
    (ha : admissibleStd x (.observe h (.batch t n))) :
    ∃ b, s.batches.find? (fun b => decide (b.token = t ∧ b.nonce = n)) = some b ∧ b ∈ s.batches ∧ b.token = t ∧ b.nonce = n := by
  have hs1 : solBatchNonceCmp = .lt := by decide
  have hs2 : solBatchTimeoutCmp = .lt := by decide
  obtain ⟨hh, b, hb, ht, hn, hnonce, htime⟩ := ha
  simp only [hs1, hs2, Cmp.eval, decide_eq_true_eq] at hnonce htime
  have hmem : b ∈ s.batches := hj.batches b hb (by rw [ht, hn]; exact hnonce) (by omega)
  cases hf : s.batches.find? (fun b => decide (b.token = t ∧ b.nonce = n)) with
  | none =>
    have := find?_eq_none.mp hf b hmem
    simp [ht, hn] at this
  | some b' =>
    have := find?_some hf
    simp only [decide_eq_true_eq] at this
    exact ⟨b', rfl, mem_of_find?_eq_some hf, this.1, this.2⟩

theorem J_observe {s : State} {x : Ext} (hj : J s x) (h : Nat) (ev : Ev) (ha : admissibleStd x (.observe h ev)) :
    J (doObserve s h ev).1 (x.nextStd s (.observe h ev)) ∧ (doObserve s h ev).2 ≠ .panic := by
  have hs1 : solBatchNonceCmp = .lt := by decide
  have hs2 : solBatchTimeoutCmp = .lt := by decide
  have hs3 : solCallTimeoutCmp = .lt := by decide
  have hs4 : solCallNonceOnce = true := by decide
  have hcmp : executedCancelsCmp = .lt := by decide
  have hsame : executedCancelsSameToken = true := by decide
  rw [doObserve_eq]
  unfold doObserveStd
  simp only
  cases ev with
  | other =>
    simp only [handleEvent, Ext.nextStd]
    have hh : x.height ≤ h := ha
    refine ⟨J_cleanup ?_, by simp⟩
    exact ⟨rfl, fun b hb h1 h2 => hj.batches b hb h1 (by simp only at h2; omega),
      fun c hc h1 h2 => hj.calls c hc h1 (by simp only at h2; omega), hj.pend, hj.nonces, hj.npos, hj.cnonces, hj.cpos,
      hj.sub, hj.csub⟩
  | result c ok =>
    simp only [handleEvent, Ext.nextStd]
    obtain ⟨hh, _⟩ := ha
    refine ⟨J_cleanup ?_, by simp⟩
    refine ⟨rfl, fun b hb h1 h2 => hj.batches b hb h1 (by simp only at h2; omega), ?_, ?_, hj.nonces, hj.npos,
      hj.cnonces, hj.cpos, hj.sub, hj.csub⟩
    · intro c' hc' h1 h2
      simp only [mem_cons, not_or] at h1
      exact hj.calls c' hc' h1.2 (by simp only at h2; omega)
    · intro p hp
      simp only [mem_append, mem_singleton] at hp
      rcases hp with hp | rfl
      · exact mem_cons_of_mem _ (hj.pend p hp)
      · exact mem_cons_self
  | batch t n =>
    obtain ⟨b0, hfind, hb0, hb0t, hb0n⟩ := admissible_batch_found hj ha
    obtain ⟨hh, bb, _, _, _, hnonce, _⟩ := ha
    simp only [hs1, Cmp.eval, decide_eq_true_eq] at hnonce
    simp only [handleEvent, hfind, Ext.nextStd]
    refine ⟨J_cleanup ?_, by simp⟩
    simp only [executeBatch, cancelBatches, hcmp, hsame, Cmp.eval, Bool.not_true, Bool.false_or]
    refine ⟨rfl, ?_, fun c hc h1 h2 => hj.calls c hc h1 (by simp only at h2; omega), hj.pend, hj.nonces, hj.npos,
      hj.cnonces, hj.cpos, ?_, hj.csub⟩
    · intro b hb h1 h2
      simp only at h1 h2
      have hne : b ≠ b0 := by
        intro he
        subst he
        simp only [hb0t, if_true] at h1
        omega
      refine (mem_erase_of_ne hne).mpr (mem_filter.mpr ⟨?_, ?_⟩)
      · refine hj.batches b hb ?_ (by omega)
        by_cases hbt : b.token = t
        · simp only [hbt, if_true] at h1
          rw [hbt]; omega
        · simpa [hbt] using h1
      · by_cases hbt : b.token = t
        · simp only [hbt, if_true] at h1
          simp [hb0n, hb0t, hbt]
          omega
        · simp [hb0t, hbt]
    · intro b hb
      exact hj.sub b (mem_filter.mp (mem_of_mem_erase hb)).1

/-- the part of the ghost the send / fee-increase logs do not touch -/
theorem next_send_fields (x : Ext) (s : State) (a : Addr) (d : String) (t am f : Nat) :
    (x.nextStd s (.send a d t am f)).height = x.height ∧ (x.nextStd s (.send a d t am f)).lastNonce = x.lastNonce ∧
    (x.nextStd s (.send a d t am f)).created = x.created ∧ (x.nextStd s (.send a d t am f)).createdCalls = x.createdCalls ∧
    (x.nextStd s (.send a d t am f)).callDone = x.callDone := by
  simp only [Ext.nextStd]
  split <;> exact ⟨rfl, rfl, rfl, rfl, rfl⟩

theorem next_psend_fields (x : Ext) (s : State) (a : Addr) (d : String) (t am f : Nat) :
    (x.nextStd s (.psend a d t am f)).height = x.height ∧ (x.nextStd s (.psend a d t am f)).lastNonce = x.lastNonce ∧
    (x.nextStd s (.psend a d t am f)).created = x.created ∧ (x.nextStd s (.psend a d t am f)).createdCalls = x.createdCalls ∧
    (x.nextStd s (.psend a d t am f)).callDone = x.callDone := by
  simp only [Ext.nextStd]
  split <;> exact ⟨rfl, rfl, rfl, rfl, rfl⟩

theorem next_incFee_fields (x : Ext) (s : State) (id : Nat) (who : Addr) (t add : Nat) (evm : Bool) :
    (x.nextStd s (.incFee id who t add evm)).height = x.height ∧ (x.nextStd s (.incFee id who t add evm)).lastNonce = x.lastNonce ∧
    (x.nextStd s (.incFee id who t add evm)).created = x.created ∧ (x.nextStd s (.incFee id who t add evm)).createdCalls = x.createdCalls ∧
    (x.nextStd s (.incFee id who t add evm)).callDone = x.callDone := by
  simp only [Ext.nextStd]
  split <;> exact ⟨rfl, rfl, rfl, rfl, rfl⟩

theorem J_ext {s : State} {x x' : Ext} (hj : J s x)
    (h : x'.height = x.height ∧ x'.lastNonce = x.lastNonce ∧ x'.created = x.created ∧
      x'.createdCalls = x.createdCalls ∧ x'.callDone = x.callDone) : J s x' := by
  obtain ⟨h1, h2, h3, h4, h5⟩ := h
  exact ⟨by rw [h1]; exact hj.height, by rw [h1, h2, h3]; exact hj.batches, by rw [h1, h4, h5]; exact hj.calls,
    by rw [h5]; exact hj.pend, by rw [h3]; exact hj.nonces, hj.npos, by rw [h4]; exact hj.cnonces, hj.cpos,
    by rw [h3]; exact hj.sub, by rw [h4]; exact hj.csub⟩

/-- every operation keeps `J`, provided an observed event is admissibleStd -/
theorem J_step {s : State} {x : Ext} (hj : J s x) (op : Op) (ha : admissibleStd x op) : J (step s op).1 (x.nextStd s op) := by
  cases op with
  | send a d t am f =>
    refine J_ext ?_ (next_send_fields x s a d t am f)
    simp only [step]; unfold doSend
    repeat' split
    all_goals first | exact hj | exact J_frame hj rfl rfl rfl rfl rfl rfl
  | psend a d t am f =>
    refine J_ext ?_ (next_psend_fields x s a d t am f)
    simp only [step]; unfold doPSend
    repeat' split
    all_goals first | exact hj | exact J_frame hj rfl rfl rfl rfl rfl rfl
  | cancel id who =>
    simp only [step, Ext.nextStd]; unfold doCancel
    repeat' split
    all_goals first | exact hj | exact J_frame hj rfl rfl rfl rfl rfl rfl
  | incFee id who t add evm =>
    refine J_ext ?_ (next_incFee_fields x s id who t add evm)
    simp only [step]; unfold doIncFee
    repeat' split
    all_goals first | exact hj | exact J_frame hj rfl rfl rfl rfl rfl rfl
  | reqBatch t mf bf fr => exact J_reqBatch hj t mf bf fr
  | bridgeCall a r to d m cs => exact J_bridgeCall hj a r to d m cs
  | pcall a r to d m cs => exact J_pcall hj a r to d m cs
  | observe h ev => exact (J_observe hj h ev ha).1
  | exec n => simp only [step, Ext.nextStd]; exact J_exec hj n
  | setParams p =>
    simp only [step, Ext.nextStd]
    split
    · exact hj
    · exact J_frame hj rfl rfl rfl rfl rfl rfl
  | block n =>
    simp only [step, Ext.nextStd, endBlock_eq]
    exact J_frame hj rfl rfl rfl rfl rfl rfl

theorem J_run {s : State} {x : Ext} (hj : J s x) (ops : List Op) (ha : AdmissibleRunStd s x ops) :
    J (runExtStd s x ops).1 (runExtStd s x ops).2 := by
  induction ops generalizing s x with
  | nil => exact hj
  | cons op ops ih => exact ih (J_step hj op ha.1) ha.2

theorem runExt_fst (s : State) (x : Ext) (ops : List Op) : (runExtStd s x ops).1 = run s ops := by
  induction ops generalizing s x with
  | nil => rfl
  | cons op ops ih => simp only [runExtStd, run, foldl_cons]; exact ih _ _

theorem admissibleRun_append {s : State} {x : Ext} {ops1 ops2 : List Op} (h : AdmissibleRunStd s x (ops1 ++ ops2)) :
    AdmissibleRunStd s x ops1 ∧ AdmissibleRunStd (runExtStd s x ops1).1 (runExtStd s x ops1).2 ops2 := by
  induction ops1 generalizing s x with
  | nil => exact ⟨trivial, h⟩
  | cons op ops ih =>
    obtain ⟨h1, h2⟩ := h
    obtain ⟨h3, h4⟩ := ih h2
    exact ⟨⟨h1, h3⟩, h4⟩

end FxVerif.Proofs.C05

namespace FxVerif.Proofs.C05
open FxVerif.Gen.C05 FxVerif.Model.C05 FxVerif.Proofs.C06 List

/-! ## records leave fxcore only at an observation (or by applying an observed result) -/

theorem observe_fields (s : State) (h : Nat) (ev : Ev) :
    (doObserve s h ev).1 = s ∨
    ∃ s2, handleEvent { s with eventNonce := s.eventNonce + 1, obsExt := h, obsFx := s.fxHeight } ev = some s2 ∧
      (doObserve s h ev).1 = cleanupCalls (cleanupBatches s2) := by
  rw [doObserve_eq]
  unfold doObserveStd
  simp only
  cases hh : handleEvent { s with eventNonce := s.eventNonce + 1, obsExt := h, obsFx := s.fxHeight } ev with
  | none => left; rfl
  | some s2 => right; exact ⟨s2, rfl, rfl⟩

theorem handleEvent_fields {s1 s2 : State} {ev : Ev} (hh : handleEvent s1 ev = some s2) :
    s2.calls = s1.calls ∧ s2.obsExt = s1.obsExt ∧ s2.nextBatchId = s1.nextBatchId ∧ s2.nextCallId = s1.nextCallId ∧
    (∀ b ∈ s2.batches, b ∈ s1.batches) ∧
    (∀ b ∈ s1.batches, b ∉ s2.batches → ∃ t n, ev = .batch t n ∧ b.token = t ∧ b.nonce ≤ n) := by
  have hcmp : executedCancelsCmp = .lt := by decide
  have hsame : executedCancelsSameToken = true := by decide
  cases ev with
  | other => cases hh; exact ⟨rfl, rfl, rfl, rfl, fun b hb => hb, fun b hb hn => absurd hb hn⟩
  | result c ok => cases hh; exact ⟨rfl, rfl, rfl, rfl, fun b hb => hb, fun b hb hn => absurd hb hn⟩
  | batch t n =>
    simp only [handleEvent] at hh
    cases hf : s1.batches.find? (fun b => decide (b.token = t ∧ b.nonce = n)) with
    | none => rw [hf] at hh; cases hh
    | some b0 =>
      rw [hf] at hh
      cases hh
      have hb0 := find?_some hf
      simp only [decide_eq_true_eq] at hb0
      simp only [executeBatch, cancelBatches, hcmp, hsame, Cmp.eval, Bool.not_true, Bool.false_or]
      refine ⟨trivial, trivial, trivial, trivial, fun b hb => (mem_filter.mp (mem_of_mem_erase hb)).1, fun b hb hn => ?_⟩
      refine ⟨t, n, rfl, ?_⟩
      by_cases hbt : b.token = t
      · refine ⟨hbt, ?_⟩
        apply Decidable.byContradiction
        intro hgt
        apply hn
        have hne : b ≠ b0 := by intro he; subst he; omega
        refine (mem_erase_of_ne hne).mpr (mem_filter.mpr ⟨hb, ?_⟩)
        simp [hb0.1, hb0.2, hbt]
        omega
      · exfalso
        apply hn
        have hne : b ≠ b0 := by intro he; subst he; exact hbt hb0.1
        refine (mem_erase_of_ne hne).mpr (mem_filter.mpr ⟨hb, ?_⟩)
        simp [hb0.1, hbt]

/-- `released_only_by_observation`: a batch leaves fxcore's store only at the observation of an external event whose
height is above its timeout, or whose payload is the execution of a batch of the same token with the same or a higher
nonce; an outgoing bridge call leaves only at the observation of an event whose height has reached its timeout, or
when an observed result for it is applied.  No message, no block, no parameter change releases anything. -/
theorem released_only_by_observation (s : State) (op : Op) :
    (∀ b ∈ s.batches, b ∉ (step s op).1.batches →
      ∃ h ev, op = .observe h ev ∧ (b.timeout < h ∨ ∃ t n, ev = .batch t n ∧ b.token = t ∧ b.nonce ≤ n)) ∧
    (∀ c ∈ s.calls, c ∉ (step s op).1.calls →
      (∃ h ev, op = .observe h ev ∧ c.timeout ≤ h) ∨ (∃ n ok, op = .exec n ∧ (n, c.nonce, ok) ∈ s.pending)) := by
  cases op with
  | send a d t am f =>
    simp only [step]; unfold doSend
    constructor <;> intro r hr hn <;> exfalso <;> apply hn <;> (repeat' split) <;> exact hr
  | psend a d t am f =>
    simp only [step]; unfold doPSend
    constructor <;> intro r hr hn <;> exfalso <;> apply hn <;> (repeat' split) <;> exact hr
  | cancel id who =>
    simp only [step]; unfold doCancel
    constructor <;> intro r hr hn <;> exfalso <;> apply hn <;> (repeat' split) <;> exact hr
  | incFee id who t add evm =>
    simp only [step]; unfold doIncFee
    constructor <;> intro r hr hn <;> exfalso <;> apply hn <;> (repeat' split) <;> exact hr
  | reqBatch t mf bf fr =>
    simp only [step]
    constructor <;> intro r hr hn <;> exfalso <;> apply hn
    · rcases reqBatch_not_ok s t mf bf fr with ⟨n, hn'⟩ | hsame
      · have hpair : doReqBatch s t mf bf fr = ((doReqBatch s t mf bf fr).1, .ok n) := by rw [← hn']
        rw [(reqBatch_ok hpair).2]
        exact mem_append_left _ hr
      · rw [hsame]; exact hr
    · rcases reqBatch_not_ok s t mf bf fr with ⟨n, hn'⟩ | hsame
      · have hpair : doReqBatch s t mf bf fr = ((doReqBatch s t mf bf fr).1, .ok n) := by rw [← hn']
        rw [(reqBatch_ok hpair).2]
        exact hr
      · rw [hsame]; exact hr
  | bridgeCall a r to d m cs =>
    simp only [step]
    constructor <;> intro q hq hn <;> exfalso <;> apply hn
    · rcases bridgeCall_cases s a r to d m cs with hsame | ⟨_, _, _, _, hs'⟩
      · rw [hsame]; exact hq
      · rw [hs']; exact hq
    · rcases bridgeCall_cases s a r to d m cs with hsame | ⟨_, _, _, _, hs'⟩
      · rw [hsame]; exact hq
      · rw [hs']; exact mem_append_left _ hq
  | pcall a r to d m cs =>
    simp only [step]
    constructor <;> intro q hq hn <;> exfalso <;> apply hn
    · rcases pcall_cases s a r to d m cs with hsame | ⟨_, _, _, _, hs'⟩
      · rw [hsame]; exact hq
      · rw [hs']; exact hq
    · rcases pcall_cases s a r to d m cs with hsame | ⟨_, _, _, _, hs'⟩
      · rw [hsame]; exact hq
      · rw [hs']; exact mem_append_left _ hq
  | setParams p =>
    simp only [step]
    constructor <;> intro r hr hn <;> exfalso <;> apply hn <;> split <;> exact hr
  | block n =>
    simp only [step, endBlock_eq]
    constructor <;> intro r hr hn <;> exact absurd hr hn
  | exec n =>
    simp only [step]
    constructor
    · intro b hb hn
      exfalso; apply hn
      rw [doExec_flags]; unfold doExecFlags
      repeat' split
      all_goals first | exact hb | (simp only [refundCall]; exact hb)
    · intro c hc hn
      right
      rw [doExec_flags] at hn; unfold doExecFlags at hn
      split at hn
      · exact absurd hc hn
      · rename_i p hp
        split at hn
        · exact absurd hc hn
        · rename_i c' hf
          have hpn : p.1 = n := by simpa using find?_some hp
          have hcn : c'.nonce = p.2.1 := by simpa using find?_some hf
          have hceq : c = c' := by
            apply Decidable.byContradiction
            intro hne
            apply hn
            simp only
            split
            · exact (mem_erase_of_ne hne).mpr hc
            · simp only [refundCall]; exact (mem_erase_of_ne hne).mpr hc
          refine ⟨n, p.2.2, rfl, ?_⟩
          have : (n, c.nonce, p.2.2) = p := by rw [hceq, hcn, ← hpn]
          rw [this]
          exact mem_of_find?_eq_some hp
  | observe h ev =>
    simp only [step]
    rcases observe_fields s h ev with hsame | ⟨s2, hh, hfin⟩
    · rw [hsame]
      exact ⟨fun b hb hn => absurd hb hn, fun c hc hn => absurd hc hn⟩
    · rw [hfin]
      obtain ⟨f1, f2, _, _, _, _⟩ := cleanup_fields s2
      obtain ⟨g1, g2, _, _, g5, g6⟩ := handleEvent_fields hh
      constructor
      · intro b hb hn
        refine ⟨h, ev, rfl, ?_⟩
        by_cases hlt : b.timeout < h
        · exact Or.inl hlt
        · right
          apply g6 b hb
          intro hb2
          apply hn
          rw [f1, mem_filter, g2]
          exact ⟨hb2, by simp only [decide_eq_true_eq]; omega⟩
      · intro c hc hn
        left
        refine ⟨h, ev, rfl, ?_⟩
        apply Decidable.byContradiction
        intro hgt
        apply hn
        rw [f2, g1, g2]
        exact mem_dropWhile_of_false _ _ _ hc (by simp only [decide_eq_false_iff_not]; exact hgt)

/-! ## runs -/

theorem settled_grows_run (s : State) (ops : List Op) : ∃ l, (run s ops).settled = s.settled ++ l := by
  induction ops generalizing s with
  | nil => exact ⟨[], by simp [run]⟩
  | cons op ops ih =>
    obtain ⟨l1, h1⟩ := settled_grows s op
    obtain ⟨l2, h2⟩ := ih (step s op).1
    refine ⟨l1 ++ l2, ?_⟩
    simp only [run, foldl_cons] at h2 ⊢
    rw [h2, h1, append_assoc]

theorem run_append (s : State) (ops1 ops2 : List Op) : run s (ops1 ++ ops2) = run (run s ops1) ops2 := by
  simp [run, foldl_append]

/-- an admissibleStd batch execution is applied: the batch is found, the claim does not panic, every transfer of the batch
is logged as executed -/
theorem admissible_execution_applies_aux {s : State} {x : Ext} (hj : J s x) {h t n : Nat}
    (ha : admissibleStd x (.observe h (.batch t n))) :
    ∃ b ∈ s.batches, b.token = t ∧ b.nonce = n ∧ (doObserve s h (.batch t n)).2 = .ok (s.eventNonce + 1) ∧
      ∀ tx ∈ b.txs, (⟨false, tx.id, .executed, 0, [(tx.token, tx.amount + tx.fee)]⟩ : Settle)
        ∈ (doObserve s h (.batch t n)).1.settled := by
  obtain ⟨b0, hfind, hb0, hb0t, hb0n⟩ := admissible_batch_found hj ha
  refine ⟨b0, hb0, hb0t, hb0n, ?_, ?_⟩
  · rw [doObserve_eq]; simp only [doObserveStd, handleEvent, hfind]
  · intro tx htx
    rw [doObserve_eq]
    simp only [doObserveStd, handleEvent, hfind]
    obtain ⟨l, hl⟩ := cleanup_settled (executeBatch { s with eventNonce := s.eventNonce + 1, obsExt := h, obsFx := s.fxHeight } b0)
    rw [hl]
    refine mem_append_left _ ?_
    simp only [executeBatch, cancelBatches, mem_append, mem_map]
    exact Or.inr ⟨tx, htx, rfl⟩

end FxVerif.Proofs.C05

namespace FxVerif.Proofs.C05
open FxVerif.Gen.C05 FxVerif.Model.C05 FxVerif.Proofs.C06 List

/-! ## identifiers of batches and bridge calls: no admissibility needed -/

structure N (s : State) (x : Ext) : Prop where
  nonces : x.created.map (·.nonce) = range' 1 (s.nextBatchId - 1)
  npos : 1 ≤ s.nextBatchId
  cnonces : x.createdCalls.map (·.nonce) = range' 1 (s.nextCallId - 1)
  cpos : 1 ≤ s.nextCallId
  sub : ∀ b ∈ s.batches, b ∈ x.created
  csub : ∀ c ∈ s.calls, c ∈ x.createdCalls

theorem N_init {s : State} (h : IsInit s) : N s {} := by
  obtain ⟨_, h2, h3, _, h5, h6, _⟩ := h
  refine ⟨by simp [h2], by omega, by simp [h3], by omega, ?_, ?_⟩
  · rw [h5]; intro b hb; cases hb
  · rw [h6]; intro c hc; cases hc

theorem N_shrink {s s' : State} {x x' : Ext} (hn : N s x) (hc : x'.created = x.created) (hcc : x'.createdCalls = x.createdCalls)
    (hb : ∀ b ∈ s'.batches, b ∈ s.batches) (hcl : ∀ c ∈ s'.calls, c ∈ s.calls)
    (h1 : s'.nextBatchId = s.nextBatchId) (h2 : s'.nextCallId = s.nextCallId) : N s' x' :=
  ⟨by rw [hc, h1]; exact hn.nonces, by rw [h1]; exact hn.npos, by rw [hcc, h2]; exact hn.cnonces, by rw [h2]; exact hn.cpos,
   fun b hb' => by rw [hc]; exact hn.sub b (hb b hb'), fun c hc' => by rw [hcc]; exact hn.csub c (hcl c hc')⟩

theorem N_step {s : State} {x : Ext} (hn : N s x) (op : Op) : N (step s op).1 (x.nextStd s op) := by
  cases op with
  | send a d t am f =>
    obtain ⟨_, _, e3, e4, _⟩ := next_send_fields x s a d t am f
    simp only [step]; unfold doSend
    repeat' split
    all_goals exact N_shrink hn e3 e4 (fun _ h => h) (fun _ h => h) rfl rfl
  | psend a d t am f =>
    obtain ⟨_, _, e3, e4, _⟩ := next_psend_fields x s a d t am f
    simp only [step]; unfold doPSend
    repeat' split
    all_goals exact N_shrink hn e3 e4 (fun _ h => h) (fun _ h => h) rfl rfl
  | cancel id who =>
    simp only [step, Ext.nextStd]; unfold doCancel
    repeat' split
    all_goals first | exact hn | exact N_shrink hn rfl rfl (fun _ h => h) (fun _ h => h) rfl rfl
  | incFee id who t add evm =>
    obtain ⟨_, _, e3, e4, _⟩ := next_incFee_fields x s id who t add evm
    simp only [step]; unfold doIncFee
    repeat' split
    all_goals exact N_shrink hn e3 e4 (fun _ h => h) (fun _ h => h) rfl rfl
  | reqBatch t mf bf fr =>
    simp only [Ext.nextStd, step]
    rcases reqBatch_not_ok s t mf bf fr with ⟨n, hn'⟩ | hsame
    · have hpair : doReqBatch s t mf bf fr = ((doReqBatch s t mf bf fr).1, .ok n) := by rw [← hn']
      rw [(reqBatch_ok hpair).2]
      simp only [drop_left]
      refine ⟨?_, by simp, hn.cnonces, hn.cpos, ?_, hn.csub⟩
      · simp only [map_append, map_cons, map_nil, hn.nonces]
        exact (range'_succ_concat _ hn.npos).symm
      · intro b hb
        simp only [mem_append, mem_singleton] at hb ⊢
        rcases hb with hb | rfl
        · exact Or.inl (hn.sub b hb)
        · exact Or.inr rfl
    · rw [hsame]
      simp only [drop_length, map_nil, append_nil]
      exact hn
  | bridgeCall a r to d m cs =>
    simp only [Ext.nextStd, step]
    rcases bridgeCall_cases s a r to d m cs with hsame | ⟨bal', erc', fm, timeout, hs'⟩
    · rw [hsame]
      simp only [drop_length, map_nil, append_nil]
      exact hn
    · rw [hs']
      simp only [drop_left]
      refine ⟨hn.nonces, hn.npos, ?_, by simp, hn.sub, ?_⟩
      · simp only [map_append, map_cons, map_nil, hn.cnonces]
        exact (range'_succ_concat _ hn.cpos).symm
      · intro c hc
        simp only [mem_append, mem_singleton] at hc ⊢
        rcases hc with hc | rfl
        · exact Or.inl (hn.csub c hc)
        · exact Or.inr rfl
  | pcall a r to d m cs =>
    simp only [Ext.nextStd, step]
    rcases pcall_cases s a r to d m cs with hsame | ⟨bal', erc', fm, timeout, hs'⟩
    · rw [hsame]
      simp only [drop_length, map_nil, append_nil]
      exact hn
    · rw [hs']
      simp only [drop_left]
      refine ⟨hn.nonces, hn.npos, ?_, by simp, hn.sub, ?_⟩
      · simp only [map_append, map_cons, map_nil, hn.cnonces]
        exact (range'_succ_concat _ hn.cpos).symm
      · intro c hc
        simp only [mem_append, mem_singleton] at hc ⊢
        rcases hc with hc | rfl
        · exact Or.inl (hn.csub c hc)
        · exact Or.inr rfl
  | observe h ev =>
    have hx : (x.nextStd s (.observe h ev)).created = x.created ∧ (x.nextStd s (.observe h ev)).createdCalls = x.createdCalls := by
      cases ev <;> exact ⟨rfl, rfl⟩
    simp only [step]
    rcases observe_fields s h ev with hsame | ⟨s2, hh, hfin⟩
    · rw [hsame]; exact N_shrink hn hx.1 hx.2 (fun _ h => h) (fun _ h => h) rfl rfl
    · rw [hfin]
      obtain ⟨f1, f2, _, _, f5, f6⟩ := cleanup_fields s2
      obtain ⟨g1, _, g3, g4, g5, _⟩ := handleEvent_fields hh
      refine N_shrink hn hx.1 hx.2 ?_ ?_ (by rw [f5, g3]) (by rw [f6, g4])
      · intro b hb
        rw [f1] at hb
        exact g5 b (mem_filter.mp hb).1
      · intro c hc
        rw [f2, g1] at hc
        exact (dropWhile_sublist _).subset hc
  | exec n =>
    simp only [step, Ext.nextStd]; rw [doExec_flags]; unfold doExecFlags
    repeat' split
    all_goals first
      | exact hn
      | exact N_shrink hn rfl rfl (fun _ h => h) (fun _ h => mem_of_mem_erase h) rfl rfl
      | (simp only [refundCall]; exact N_shrink hn rfl rfl (fun _ h => h) (fun _ h => mem_of_mem_erase h) rfl rfl)
  | setParams p =>
    simp only [step, Ext.nextStd]
    split
    · exact hn
    · exact N_shrink hn rfl rfl (fun _ h => h) (fun _ h => h) rfl rfl
  | block n =>
    simp only [step, Ext.nextStd, endBlock_eq]
    exact N_shrink hn rfl rfl (fun _ h => h) (fun _ h => h) rfl rfl

theorem N_run {s : State} {x : Ext} (hn : N s x) (ops : List Op) : N (runExtStd s x ops).1 (runExtStd s x ops).2 := by
  induction ops generalizing s x with
  | nil => exact hn
  | cons op ops ih => exact ih (N_step hn op)

end FxVerif.Proofs.C05

namespace FxVerif.Proofs.C05
open FxVerif.Gen.C05 FxVerif.Model.C05 FxVerif.Proofs.C06 List

/-! ## everything ever created was created after an observation -/

theorem calTimeout_pos_obs (s : State) (p : Nat) (hp : 0 < calTimeout s p) : 0 < s.obsExt := by
  by_cases hz : s.obsExt = 0
  · have h1 : calTimeoutGuardCmp = .eq := by decide
    have h2 : calTimeoutGuardReturnsZero = true := by decide
    simp [calTimeout, h1, h2, hz, Cmp.eval] at hp
  · omega

theorem reqBatch_timeout_pos {s s' : State} {t : Token} {mf bf : Nat} {fr : String} {n : Nat}
    (h : doReqBatch s t mf bf fr = (s', .ok n)) : 0 < calTimeout s s.params.batchTimeout := by
  have h3 : batchZeroTimeoutCmp = .le := by decide
  have h4 : batchZeroTimeoutRejects = true := by decide
  unfold doReqBatch at h
  simp only [h3, h4, Cmp.eval, Bool.true_and, decide_eq_true_eq, Nat.le_zero_eq] at h
  repeat' split at h
  all_goals first
    | (cases h; omega)
    | cases h

/-- every batch and every outgoing bridge call ever created carries a positive timeout and was created when an external
height had been observed -/
structure T (x : Ext) : Prop where
  batches : ∀ b ∈ x.created, 0 < b.timeout
  calls : ∀ c ∈ x.createdCalls, 0 < c.timeout

theorem T_step {s : State} {x : Ext} (ht : T x) (op : Op) : T (x.nextStd s op) := by
  cases op with
  | send a d t am f =>
    obtain ⟨_, _, e3, e4, _⟩ := next_send_fields x s a d t am f
    exact ⟨by rw [e3]; exact ht.batches, by rw [e4]; exact ht.calls⟩
  | psend a d t am f =>
    obtain ⟨_, _, e3, e4, _⟩ := next_psend_fields x s a d t am f
    exact ⟨by rw [e3]; exact ht.batches, by rw [e4]; exact ht.calls⟩
  | incFee id who t add evm =>
    obtain ⟨_, _, e3, e4, _⟩ := next_incFee_fields x s id who t add evm
    exact ⟨by rw [e3]; exact ht.batches, by rw [e4]; exact ht.calls⟩
  | cancel id who => exact ht
  | exec n => exact ht
  | setParams p => exact ht
  | block n => exact ht
  | observe h ev => cases ev <;> exact ⟨ht.batches, ht.calls⟩
  | reqBatch t mf bf fr =>
    simp only [Ext.nextStd, step]
    rcases reqBatch_not_ok s t mf bf fr with ⟨n, hn'⟩ | hsame
    · have hpair : doReqBatch s t mf bf fr = ((doReqBatch s t mf bf fr).1, .ok n) := by rw [← hn']
      have hpos := reqBatch_timeout_pos hpair
      rw [(reqBatch_ok hpair).2]
      simp only [drop_left]
      refine ⟨fun b hb => ?_, ht.calls⟩
      simp only [mem_append, mem_singleton] at hb
      rcases hb with hb | rfl
      · exact ht.batches b hb
      · exact hpos
    · rw [hsame]
      simp only [drop_length, map_nil, append_nil]
      exact ht
  | bridgeCall a r to d m cs =>
    simp only [Ext.nextStd, step]
    rcases bridgeCall_cases s a r to d m cs with hsame | ⟨bal', erc', fm, timeout, hs'⟩
    · rw [hsame]
      simp only [drop_length, map_nil, append_nil]
      exact ht
    · rw [hs']
      simp only [drop_left]
      refine ⟨ht.batches, fun c hc => ?_⟩
      simp only [mem_append, mem_singleton] at hc
      rcases hc with hc | rfl
      · exact ht.calls c hc
      · exact timeout

  | pcall a r to d m cs =>
    simp only [Ext.nextStd, step]
    rcases pcall_cases s a r to d m cs with hsame | ⟨bal', erc', fm, timeout, hs'⟩
    · rw [hsame]
      simp only [drop_length, map_nil, append_nil]
      exact ht
    · rw [hs']
      simp only [drop_left]
      refine ⟨ht.batches, fun c hc => ?_⟩
      simp only [mem_append, mem_singleton] at hc
      rcases hc with hc | rfl
      · exact ht.calls c hc
      · exact timeout

theorem T_run {s : State} {x : Ext} (ht : T x) (ops : List Op) : T (runExtStd s x ops).2 := by
  induction ops generalizing s x with
  | nil => exact ht
  | cons op ops ih => exact ih (T_step ht op)

end FxVerif.Proofs.C05
