import FxVerif.Model.C05Ext
/-!
# The interpreted bridge contract and its closed form coincide (C05 / C06)

`admissible` / `Ext.next` (Model/C05Ext.lean) run the regenerated statement lists `solSubmitBatch` /
`solSubmitBridgeCall` of `FxBridgeLogic.sol`; `admissibleStd` / `Ext.nextStd` are the closed forms the invariant proofs
use.  For the program as it is in the source now the two are equal — so every theorem proved for the closed form is a
theorem about the interpreted contract.  If a `require` is dropped, weakened, or moved behind the state update it
protects, `solRun_batch` / `solRun_call` stop checking.
-/
namespace FxVerif.Proofs.C05
open FxVerif.Gen.C05 FxVerif.Model.C05 List

/-- what `submitBatch` does, as interpreted: it reverts unless `lastNonce < nonce` and `block.number < timeout`;
otherwise it records the nonce and only then moves value -/
theorem solRun_batch (st : SolSt) :
    solRun solSubmitBatch st =
      if st.lastNonce < st.nonce ∧ st.blockNumber < st.timeout
      then some { st with lastNonce := st.nonce, moved := true } else none := by
  by_cases h1 : st.lastNonce < st.nonce <;> by_cases h2 : st.blockNumber < st.timeout <;>
    simp [solRun, solStep, evalVar, solSubmitBatch, Cmp.eval, h1, h2]

/-- what `submitBridgeCall` does, as interpreted: it reverts unless the nonce is unused and `block.number < timeout`;
otherwise it marks the nonce and only then runs the transfer and the callback -/
theorem solRun_call (st : SolSt) :
    solRun solSubmitBridgeCall st =
      if st.nonceUsed = false ∧ st.blockNumber < st.timeout
      then some { st with nonceUsed := true, moved := true } else none := by
  cases hu : st.nonceUsed <;> by_cases h2 : st.blockNumber < st.timeout <;>
    simp [solRun, solStep, evalVar, solSubmitBridgeCall, Cmp.eval, hu, h2]

theorem admissible_iff (x : Ext) (op : Op) : admissible x op ↔ admissibleStd x op := by
  have h1 : solBatchNonceCmp = .lt := by decide
  have h2 : solBatchTimeoutCmp = .lt := by decide
  have h3 : solCallTimeoutCmp = .lt := by decide
  have h4 : solCallNonceOnce = true := by decide
  cases op with
  | observe h ev =>
    cases ev with
    | other => exact Iff.rfl
    | batch t n =>
      simp only [admissible, admissibleStd, solRun_batch, h1, h2, Cmp.eval, decide_eq_true_eq]
      constructor
      · rintro ⟨hh, b, hb, ht, hn, hs⟩
        refine ⟨hh, b, hb, ht, hn, ?_⟩
        split at hs
        · rename_i hc; exact hc
        · cases hs
      · rintro ⟨hh, b, hb, ht, hn, hs⟩
        refine ⟨hh, b, hb, ht, hn, ?_⟩
        rw [if_pos hs]; rfl
    | result c ok =>
      simp only [admissible, admissibleStd, solRun_call, h3, h4, Cmp.eval, decide_eq_true_eq, forall_const,
        decide_eq_false_iff_not]
      constructor
      · rintro ⟨hh, cl, hcl, hn, hs⟩
        refine ⟨hh, cl, hcl, hn, ?_⟩
        split at hs
        · rename_i hc; exact hc
        · cases hs
      · rintro ⟨hh, cl, hcl, hn, hs⟩
        refine ⟨hh, cl, hcl, hn, ?_⟩
        rw [if_pos hs]; rfl
  | send _ _ _ _ _ => exact Iff.rfl
  | cancel _ _ => exact Iff.rfl
  | incFee _ _ _ _ _ => exact Iff.rfl
  | reqBatch _ _ _ _ => exact Iff.rfl
  | bridgeCall _ _ _ _ _ _ => exact Iff.rfl
  | psend _ _ _ _ _ => exact Iff.rfl
  | pcall _ _ _ _ _ _ => exact Iff.rfl
  | exec _ => exact Iff.rfl
  | setParams _ => exact Iff.rfl
  | block _ => exact Iff.rfl

theorem next_eq (x : Ext) (s : State) (op : Op) : x.next s op = x.nextStd s op := by
  cases op with
  | observe h ev =>
    cases ev with
    | other => rfl
    | batch t n =>
      simp only [Ext.next, Ext.nextStd, solRun_batch]
      congr 1
      funext t'
      split
      · split
        · rename_i st heq
          split at heq
          · cases heq; rfl
          · cases heq
        · rfl
      · rfl
    | result c ok =>
      simp only [Ext.next, Ext.nextStd, solRun_call]
      split
      · rename_i st heq
        split at heq
        · cases heq; rfl
        · cases heq
      · rfl
  | send _ _ _ _ _ => rfl
  | cancel _ _ => rfl
  | incFee _ _ _ _ _ => rfl
  | reqBatch _ _ _ _ => rfl
  | bridgeCall _ _ _ _ _ _ => rfl
  | psend _ _ _ _ _ => rfl
  | pcall _ _ _ _ _ _ => rfl
  | exec _ => rfl
  | setParams _ => rfl
  | block _ => rfl

theorem runExt_eq (s : State) (x : Ext) (ops : List Op) : runExt s x ops = runExtStd s x ops := by
  induction ops generalizing s x with
  | nil => rfl
  | cons op ops ih => simp only [runExt, runExtStd, next_eq]; exact ih _ _

theorem admissibleRun_iff (s : State) (x : Ext) (ops : List Op) : AdmissibleRun s x ops ↔ AdmissibleRunStd s x ops := by
  induction ops generalizing s x with
  | nil => exact Iff.rfl
  | cons op ops ih => simp only [AdmissibleRun, AdmissibleRunStd, next_eq, admissible_iff, ih]

end FxVerif.Proofs.C05
