import FxVerif.Proofs.C13Inv
/-!
The `uint64` hypothesis of the crosschain end-blocker, derived for reachable states.

`GetCurrentOracleSet` adds the powers of the ONLINE oracles in a `uint64`.  In every reachable state an online oracle is on
the governance list, records have distinct addresses, the list has at most `MaxOracleSize` entries and every recorded stake
is at most `threshold × multiple`; so the sum is at most `MaxOracleSize × (threshold × multiple / powerReduction)`.
-/
namespace FxVerif.Proofs.C13
open FxVerif.Model.C13 FxVerif.Gen.C13

/-! ## lists -/

theorem length_le_of_nodup_subset {α : Type} [DecidableEq α] : ∀ (l m : List α), l.Nodup → (∀ x ∈ l, x ∈ m) → l.length ≤ m.length := by
  intro l
  induction l with
  | nil => intro m _ _; simp
  | cons a t ih =>
    intro m hn hs
    have ha : a ∈ m := hs a (by simp)
    have hn' := List.nodup_cons.mp hn
    have hsub : ∀ x ∈ t, x ∈ m.erase a := by
      intro x hx
      have hxa : x ≠ a := by intro e; subst e; exact hn'.1 hx
      exact (List.mem_erase_of_ne hxa).mpr (hs x (by simp [hx]))
    have := ih (m.erase a) hn'.2 hsub
    have hl := List.length_erase_of_mem ha
    have hpos : 0 < m.length := List.length_pos_of_mem ha
    simp only [List.length_cons]
    omega

theorem sum_le_length_mul {α : Type} (f : α → Nat) (b : Nat) : ∀ (l : List α), (∀ x ∈ l, f x ≤ b) → (l.map f).sum ≤ l.length * b := by
  intro l
  induction l with
  | nil => intro _; simp
  | cons a t ih =>
    intro h
    have h1 := h a (by simp)
    have h2 := ih (fun x hx => h x (by simp [hx]))
    simp only [List.map_cons, List.sum_cons, List.length_cons]
    rw [Nat.add_mul]
    omega

/-! ## the invariant -/

structure FitInv (s : State) : Prop where
  nodup : (s.oracles.map (·.1)).Nodup
  key : ∀ p ∈ s.oracles, p.2.addr = p.1
  onl : ∀ p ∈ s.oracles, p.2.online = true → p.1 ∈ s.proposal
  len : s.proposal.length ≤ maxOracleSize
  amt : ∀ p ∈ s.oracles, p.2.amount ≤ s.p.thr * s.p.mult

theorem mem_erase_store {κ α : Type} [DecidableEq κ] (s : Store κ α) (k : κ) (p : κ × α) (h : p ∈ Store.erase s k) :
    p ∈ s ∧ p.1 ≠ k := by
  unfold Store.erase at h
  have := List.mem_filter.mp h
  exact ⟨this.1, by simpa using this.2⟩

theorem nodup_erase_store {κ α : Type} [DecidableEq κ] (s : Store κ α) (k : κ) (h : (s.map (·.1)).Nodup) :
    ((Store.erase s k).map (·.1)).Nodup := by
  unfold Store.erase
  exact List.Nodup.sublist (List.Sublist.map _ (List.filter_sublist)) h

theorem nodup_set_store {κ α : Type} [DecidableEq κ] (s : Store κ α) (k : κ) (v : α) (h : (s.map (·.1)).Nodup) :
    ((Store.set s k v).map (·.1)).Nodup := by
  unfold Store.set
  simp only [List.map_cons, List.nodup_cons]
  refine ⟨?_, nodup_erase_store s k h⟩
  intro hm
  obtain ⟨p, hp, hk⟩ := List.mem_map.mp hm
  exact (mem_erase_store s k p hp).2 hk

theorem mem_set_store {κ α : Type} [DecidableEq κ] (s : Store κ α) (k : κ) (v : α) (p : κ × α) (h : p ∈ Store.set s k v) :
    p = (k, v) ∨ (p ∈ s ∧ p.1 ≠ k) := by
  unfold Store.set at h
  rcases List.mem_cons.mp h with h | h
  · exact Or.inl h
  · exact Or.inr (mem_erase_store s k p h)

theorem mem_of_get {κ α : Type} [DecidableEq κ] (s : Store κ α) (k : κ) (v : α) (h : Store.get s k = some v) : (k, v) ∈ s := by
  unfold Store.get at h
  cases hf : s.find? (fun p => p.1 == k) with
  | none => rw [hf] at h; simp at h
  | some p =>
    rw [hf] at h
    simp at h
    have hm := List.mem_of_find?_eq_some hf
    have hk := List.find?_some hf
    have : p.1 = k := by simpa using hk
    obtain ⟨a, b⟩ := p
    simp only at this h
    subst this; subst h
    exact hm

/-- unchanged records, list and parameters -/
theorem fit_same (s t : State) (hi : FitInv s) (ho : t.oracles = s.oracles) (hp : t.proposal = s.proposal) (hpar : t.p = s.p) :
    FitInv t :=
  ⟨by rw [ho]; exact hi.nodup, by rw [ho]; exact hi.key, by rw [ho, hp]; exact hi.onl, by rw [hp]; exact hi.len,
   by rw [ho, hpar]; exact hi.amt⟩

/-- records mapped by a function that keeps address and amount and never switches a record online -/
theorem fit_mapVals (s t : State) (g : Oracle → Oracle) (hi : FitInv s) (ho : t.oracles = Store.mapVals g s.oracles)
    (hlen : t.proposal.length ≤ maxOracleSize) (hpar : t.p = s.p)
    (hg : ∀ o, (g o).addr = o.addr ∧ (g o).amount = o.amount ∧ ((g o).online = true → o.online = true))
    (hp : ∀ p ∈ s.oracles, (g p.2).online = true → p.1 ∈ s.proposal → p.1 ∈ t.proposal) :
    FitInv t := by
  have hmem : ∀ q ∈ t.oracles, ∃ p ∈ s.oracles, q = (p.1, g p.2) := by
    intro q hq
    rw [ho] at hq
    unfold Store.mapVals at hq
    obtain ⟨p, hp, e⟩ := List.mem_map.mp hq
    exact ⟨p, hp, e.symm⟩
  refine ⟨?_, ?_, ?_, hlen, ?_⟩
  · rw [ho]; unfold Store.mapVals; rw [List.map_map]
    have : ((fun p : Nat × Oracle => p.1) ∘ fun p : Nat × Oracle => (p.1, g p.2)) = fun p => p.1 := by funext p; rfl
    rw [this]; exact hi.nodup
  · intro q hq
    obtain ⟨p, hp', e⟩ := hmem q hq
    subst e
    simp only [(hg p.2).1]
    exact hi.key p hp'
  · intro q hq hqo
    obtain ⟨p, hp', e⟩ := hmem q hq
    subst e
    simp only at hqo ⊢
    exact hp p hp' hqo (hi.onl p hp' ((hg p.2).2.2 hqo))
  · intro q hq
    obtain ⟨p, hp', e⟩ := hmem q hq
    subst e
    simp only [(hg p.2).2.1, hpar]
    exact hi.amt p hp'

/-- one record written under its own address -/
theorem fit_set (s t : State) (a : Nat) (r : Oracle) (hi : FitInv s) (ho : t.oracles = Store.set s.oracles a r)
    (hp : t.proposal = s.proposal) (hpar : t.p = s.p) (hk : r.addr = a) (hamt : r.amount ≤ s.p.thr * s.p.mult)
    (hon : r.online = true → a ∈ s.proposal) : FitInv t := by
  refine ⟨?_, ?_, ?_, by rw [hp]; exact hi.len, ?_⟩
  · rw [ho]; exact nodup_set_store _ _ _ hi.nodup
  · intro q hq; rw [ho] at hq
    rcases mem_set_store _ _ _ _ hq with e | ⟨h, _⟩
    · subst e; exact hk
    · exact hi.key q h
  · intro q hq hqo; rw [ho] at hq; rw [hp]
    rcases mem_set_store _ _ _ _ hq with e | ⟨h, _⟩
    · subst e; exact hon hqo
    · exact hi.onl q h hqo
  · intro q hq; rw [ho] at hq; rw [hpar]
    rcases mem_set_store _ _ _ _ hq with e | ⟨h, _⟩
    · subst e; exact hamt
    · exact hi.amt q h

theorem fit_erase (s t : State) (a : Nat) (hi : FitInv s) (ho : t.oracles = Store.erase s.oracles a)
    (hp : t.proposal = s.proposal) (hpar : t.p = s.p) : FitInv t := by
  refine ⟨?_, ?_, ?_, by rw [hp]; exact hi.len, ?_⟩
  · rw [ho]; exact nodup_erase_store _ _ hi.nodup
  · intro q hq; rw [ho] at hq; exact hi.key q (mem_erase_store _ _ _ hq).1
  · intro q hq hqo; rw [ho] at hq; rw [hp]; exact hi.onl q (mem_erase_store _ _ _ hq).1 hqo
  · intro q hq; rw [ho] at hq; rw [hpar]; exact hi.amt q (mem_erase_store _ _ _ hq).1

/-! ## staking helpers do not touch the governance list -/

def PropFrame (s t : State) : Prop := t.proposal = s.proposal

theorem stakeDelegate_prop (s t : State) (o v amt : Nat) (h : stakeDelegate s o v amt = some t) : PropFrame s t := by
  unfold stakeDelegate at h
  split at h
  · injection h with h; subst h; rfl
  · simp at h

theorem stakeUndelegateAll_prop (s t : State) (o v : Nat) (h : stakeUndelegateAll s o v = some t) : PropFrame s t := by
  unfold stakeUndelegateAll at h
  split at h
  · simp at h
  · simp only at h
    split at h
    · simp at h
    · injection h with h; subst h; rfl

theorem stakeRedelegateAll_prop (s t : State) (o a b : Nat) (h : stakeRedelegateAll s o a b = some t) : PropFrame s t := by
  unfold stakeRedelegateAll at h
  split at h
  · simp at h
  · split at h
    · simp at h
    · split at h
      · simp at h
      · split at h
        · simp at h
        · injection h with h; subst h; rfl

theorem undelegateFold_prop (l : List Oracle) : ∀ (s t : State),
    l.foldl (fun (acc : Option State) o => match acc with
      | none => none
      | some st => stakeUndelegateAll st o.addr o.val) (some s) = some t → PropFrame s t := by
  induction l with
  | nil => intro s t h; simp at h; subst h; rfl
  | cons o l ih =>
    intro s t h
    simp only [List.foldl_cons] at h
    cases hu : stakeUndelegateAll s o.addr o.val with
    | none =>
      rw [hu] at h
      have : ∀ l' : List Oracle, l'.foldl (fun (acc : Option State) o => match acc with
          | none => none
          | some st => stakeUndelegateAll st o.addr o.val) none = none := by
        intro l'; induction l' with
        | nil => rfl
        | cons _ _ ih' => simpa using ih'
      rw [this] at h; simp at h
    | some s1 =>
      rw [hu] at h
      exact (ih s1 t h).trans (stakeUndelegateAll_prop s s1 _ _ hu)

/-! ## every op keeps `FitInv` -/

theorem gov_fit (s : State) (l : List Nat) (hi : FitInv s) : FitInv (govUpdate s l).1 := by
  unfold govUpdate
  split
  · exact hi
  · rename_i hlen
    simp only
    split
    · exact hi
    · split
      · exact hi
      · rename_i s2 hfold
        have hf := undelegateFold_frame _ _ _ hfold
        have hpf0 := undelegateFold_prop _ _ _ hfold
        have hpf : s2.proposal = l := hpf0
        have hi2 : FitInv { s with proposal := s.proposal, oracles := s2.oracles } := fit_same s _ hi hf.1 rfl rfl
        refine fit_mapVals { s with oracles := s2.oracles } _ (fun o => if (!l.contains o.addr && s.proposal.contains o.addr) = true
            then { o with online := false } else o) hi2 rfl ?_ ?_ ?_ ?_
        · simp only [hpf]; omega
        · exact hf.2.2.2
        · intro o; split
          · exact ⟨rfl, rfl, by simp⟩
          · exact ⟨rfl, rfl, id⟩
        · intro p hp hon hin
          simp only [hpf]
          have hk : p.2.addr = p.1 := hi2.key p hp
          split at hon
          · simp at hon
          · rename_i hc
            rw [hk] at hc
            have hin' : s.proposal.contains p.1 = true := by simpa using hin
            simp only [hin', Bool.and_true, Bool.not_eq_true', Bool.not_eq_false] at hc
            simpa using hc

theorem bond_fit (hc : GuardCodeOk) (s : State) (o b e v amt : Nat) (hi : FitInv s) : FitInv (bond s o b e v amt).1 := by
  obtain ⟨g1, g2, g3, g4, g5, g6, _⟩ := hc
  unfold bond
  simp only [g1, g2, g3, g4, g5, g6, Bool.true_and]
  split
  · exact hi
  · rename_i hprop
    split
    · exact hi
    · split
      · exact hi
      · split
        · exact hi
        · split
          · exact hi
          · split
            · exact hi
            · rename_i hhi
              split
              · exact hi
              · split
                · exact hi
                · rename_i s2 hs2
                  have hf := stakeDelegate_frame _ _ _ _ _ hs2
                  have hpf0 := stakeDelegate_prop _ _ _ _ _ hs2
                  have hpf : s2.proposal = s.proposal := hpf0
                  have hin : o ∈ s.proposal := by simpa using hprop
                  refine fit_set s _ o ⟨o, b, e, amt, s.height, true, v, 0⟩ hi ?_ hpf hf.2.2.2 rfl (by simpa using hhi) (fun _ => hin)
                  simp only [refreshPower, hf.1]

theorem add_fit (hc : GuardCodeOk) (s : State) (o amt : Nat) (hi : FitInv s) : FitInv (addDelegate s o amt).1 := by
  have hre := reactivate_eq hc
  obtain ⟨_, _, _, _, _, _, _, a1, a2, a3, a4, _⟩ := hc
  unfold addDelegate
  simp only [a1, a2, a3, a4, Bool.true_and, hre]
  split
  · exact hi
  · rename_i hprop
    split
    · exact hi
    · rename_i r hr
      try simp only
      split
      · exact hi
      · split
        · exact hi
        · split
          · exact hi
          · rename_i hhi
            split
            · exact hi
            · split
              · exact hi
              · rename_i s2 hs2
                have hin : o ∈ s.proposal := by simpa using hprop
                have hfr : s2.oracles = s.oracles ∧ s2.proposal = s.proposal ∧ s2.p = s.p := by
                  split at hs2
                  · have hf := stakeDelegate_frame _ _ _ _ _ hs2
                    have hpf := stakeDelegate_prop _ _ _ _ _ hs2
                    exact ⟨hf.1, hpf, hf.2.2.2⟩
                  · injection hs2 with hs2; subst hs2; exact ⟨rfl, rfl, rfl⟩
                have hk : r.addr = o := hi.key (o, r) (mem_of_get _ _ _ hr)
                let r' : Oracle := { r with amount := r.amount + (amt - slashAmount s.p r), online := true, startHeight := (if r.online then r.startHeight else s.height), slashTimes := 0 }
                refine fit_set s _ o r' hi ?_ hfr.2.1 hfr.2.2 hk (by simpa [r'] using hhi) (fun _ => hin)
                simp only [refreshPower, hfr.1]
                rfl

theorem redel_fit (s : State) (o v : Nat) (hi : FitInv s) : FitInv (reDelegate s o v).1 := by
  unfold reDelegate
  split
  · exact hi
  · rename_i r hr
    split
    · exact hi
    · split
      · exact hi
      · split
        · exact hi
        · rename_i s1 hs1
          have hf := stakeRedelegateAll_frame _ _ _ _ _ hs1
          have hpf0 := stakeRedelegateAll_prop _ _ _ _ _ hs1
          have hpf : s1.proposal = s.proposal := hpf0
          have hm := mem_of_get _ _ _ hr
          refine fit_set s _ o { r with val := v } hi ?_ hpf hf.2.2.2 (hi.key _ hm) (hi.amt _ hm) (fun h => hi.onl _ hm h)
          simp only [hf.1]

theorem editb_fit (s : State) (o b : Nat) (hi : FitInv s) : FitInv (editBridger s o b).1 := by
  unfold editBridger
  split
  · exact hi
  · rename_i r hr
    split
    · exact hi
    · split
      · exact hi
      · split
        · exact hi
        · have hm := mem_of_get _ _ _ hr
          exact fit_set s _ o { r with bridger := b } hi rfl rfl rfl (hi.key _ hm) (hi.amt _ hm) (fun h => hi.onl _ hm h)

theorem withdraw_fit (s : State) (o : Nat) (hi : FitInv s) : FitInv (withdrawReward s o).1 := by
  unfold withdrawReward
  split
  · exact hi
  · split
    · exact hi
    · split
      · exact hi
      · split
        · exact hi
        · exact fit_same s _ hi rfl rfl rfl

theorem unbond_fit (s : State) (o : Nat) (hi : FitInv s) : FitInv (unbond s o).1 := by
  unfold unbond
  split
  · exact hi
  · split
    · exact hi
    · split
      · exact hi
      · simp only
        split
        · exact hi
        · split
          · exact hi
          · exact fit_erase s _ o hi rfl rfl rfl

theorem confirm_fit (s : State) (k : Kind) (n e b : Nat) (sg : Bool) (hi : FitInv s) : FitInv (confirm s k n e b sg).1 := by
  unfold confirm
  split
  · exact hi
  · split
    · exact hi
    · split
      · exact hi
      · split
        · exact hi
        · split
          · exact hi
          · split
            · exact hi
            · split
              · exact hi
              · cases k <;> exact fit_same s _ hi rfl rfl rfl

theorem block_fit (hcode : SlashCodeOk) (s : State) (dt : Nat) (hi : FitInv s) : FitInv (block s dt).1 := by
  unfold block
  split
  · exact hi
  · rename_i s1 he
    obtain ⟨hc, g, hg, hrel⟩ := endBlock_rel hcode s s.height s1 he
    have h1 : FitInv s1 := by
      refine fit_mapVals s s1 g hi hg (by rw [hc.pr]; exact hi.len) hc.p ?_ ?_
      · intro o
        obtain ⟨ha, _, _, hamt, _, _, hor⟩ := hrel o
        refine ⟨ha, hamt, ?_⟩
        intro hon
        rcases hor with e | ⟨h1, h2, _⟩
        · rw [e] at hon; exact hon
        · rw [h2] at hon; cases hon
      · intro p _ _ hin; rw [hc.pr]; exact hin
    exact fit_same s1 _ h1 rfl rfl rfl

theorem step_fit (hs : SlashCodeOk) (hg : GuardCodeOk) (s : State) (op : Op) (hi : FitInv s) : FitInv (step s op).1 := by
  cases op with
  | gov l => exact gov_fit s l hi
  | bond o b e v amt => exact bond_fit hg s o b e v amt hi
  | add o amt => exact add_fit hg s o amt hi
  | redel o v => exact redel_fit s o v hi
  | editb o b => exact editb_fit s o b hi
  | withdraw o => exact withdraw_fit s o hi
  | fund o amt => exact fit_same s _ hi rfl rfl rfl
  | mint o amt => exact fit_same s _ hi rfl rfl rfl
  | tick dt => exact fit_same s _ hi rfl rfl rfl
  | unbond o => exact unbond_fit s o hi
  | mkbatch => simp only [step, mkBatch]; split <;> first | exact hi | exact fit_same s _ hi rfl rfl rfl
  | mkcall => exact fit_same s _ hi rfl rfl rfl
  | conf k n e b sg => exact confirm_fit s k n e b sg hi
  | observe n => simp only [step, observe]; repeat' split
                 all_goals first | exact hi | exact fit_same s _ hi rfl rfl rfl
  | event bs bcs cs obs => exact fit_same s _ hi rfl rfl rfl
  | block dt => exact block_fit hs s dt hi
  | valslash v num den => simp only [step, valSlash]; split <;> first | exact hi | exact fit_same s _ hi rfl rfl rfl

theorem init_fit (p : Params) (bals : Store Nat Nat) : FitInv (init p bals) := by
  refine ⟨?_, ?_, ?_, ?_, ?_⟩ <;> simp [init]

theorem run_fit (hs : SlashCodeOk) (hg : GuardCodeOk) : ∀ (ops : List Op) (s : State), FitInv s → FitInv (run s ops) := by
  intro ops
  induction ops with
  | nil => intro s hi; exact hi
  | cons op ops ih => intro s hi; exact ih _ (step_fit hs hg s op hi)

/-! ## from the invariant to the `uint64` bound -/

theorem online_power_le (s : State) (hi : FitInv s) :
    ((onlineOracles s).map (power s.p)).sum ≤ maxOracleSize * (s.p.thr * s.p.mult / s.p.pr) := by
  -- the online records, as (address, record) pairs
  let on := s.oracles.filter (fun p => p.2.online)
  have hon : onlineOracles s = on.map (·.2) := by
    simp only [onlineOracles, Store.vals, on, List.filter_map, Function.comp_def]
  have hnd : (on.map (·.1)).Nodup := List.Nodup.sublist (List.Sublist.map _ List.filter_sublist) hi.nodup
  have hsub : ∀ a ∈ on.map (·.1), a ∈ s.proposal := by
    intro a ha
    obtain ⟨p, hp, e⟩ := List.mem_map.mp ha
    have := List.mem_filter.mp hp
    subst e
    exact hi.onl p this.1 (by simpa using this.2)
  have hlen : on.length ≤ maxOracleSize := by
    have := length_le_of_nodup_subset _ _ hnd hsub
    simp only [List.length_map] at this
    exact Nat.le_trans this hi.len
  have hb : ∀ p ∈ on, power s.p p.2 ≤ s.p.thr * s.p.mult / s.p.pr := by
    intro p hp
    have := hi.amt p (List.mem_filter.mp hp).1
    exact Nat.div_le_div_right this
  rw [hon, List.map_map]
  have h1 := sum_le_length_mul (fun p : Nat × Oracle => power s.p p.2) _ on hb
  have h2 : on.length * (s.p.thr * s.p.mult / s.p.pr) ≤ maxOracleSize * (s.p.thr * s.p.mult / s.p.pr) :=
    Nat.mul_le_mul_right _ hlen
  exact Nat.le_trans h1 h2

/-- the parameter bound under which the `uint64` sum of `GetCurrentOracleSet` cannot overflow -/
def ParamsFit (p : Params) : Prop := maxOracleSize * (p.thr * p.mult / p.pr) < u64

instance (p : Params) : Decidable (ParamsFit p) := by unfold ParamsFit; infer_instance

theorem onlineFits_of_fit (s : State) (hi : FitInv s) (hp : ParamsFit s.p) : OnlinePowerFits s :=
  Nat.lt_of_le_of_lt (online_power_le s hi) hp

theorem gov_params (s : State) (l : List Nat) : (govUpdate s l).1.p = s.p := by
  unfold govUpdate
  split
  · rfl
  · simp only
    split
    · rfl
    · split
      · rfl
      · rename_i s2 hfold
        exact (undelegateFold_frame _ _ _ hfold).2.2.2

theorem bond_params (s : State) (o b e v amt : Nat) : (bond s o b e v amt).1.p = s.p := by
  unfold bond
  split
  · rfl
  · split
    · rfl
    · split
      · rfl
      · split
        · rfl
        · split
          · rfl
          · split
            · rfl
            · split
              · rfl
              · simp only
                split
                · rfl
                · rename_i s2 hs2
                  exact (stakeDelegate_frame _ _ _ _ _ hs2).2.2.2

theorem add_params (s : State) (o amt : Nat) : (addDelegate s o amt).1.p = s.p := by
  unfold addDelegate
  split
  · rfl
  · split
    · rfl
    · try simp only
      split
      · rfl
      · split
        · rfl
        · split
          · rfl
          · split
            · rfl
            · split
              · rfl
              · rename_i s2 hs2
                split at hs2
                · exact (stakeDelegate_frame _ _ _ _ _ hs2).2.2.2
                · injection hs2 with hs2; subst hs2; rfl

theorem redel_params (s : State) (o v : Nat) : (reDelegate s o v).1.p = s.p := by
  unfold reDelegate
  split
  · rfl
  · split
    · rfl
    · split
      · rfl
      · split
        · rfl
        · rename_i s1 hs1
          exact (stakeRedelegateAll_frame _ _ _ _ _ hs1).2.2.2

theorem block_params (hcode : SlashCodeOk) (s : State) (dt : Nat) : (block s dt).1.p = s.p := by
  unfold block
  split
  · rfl
  · rename_i s1 he
    exact (endBlock_rel hcode s s.height s1 he).core.p

theorem step_params (hcode : SlashCodeOk) (s : State) (op : Op) : (step s op).1.p = s.p := by
  cases op with
  | gov l => exact gov_params s l
  | bond o b e v amt => exact bond_params s o b e v amt
  | add o amt => exact add_params s o amt
  | redel o v => exact redel_params s o v
  | editb o b => simp only [step, editBridger]; repeat' split
                 all_goals rfl
  | withdraw o => simp only [step, withdrawReward]; repeat' split
                  all_goals rfl
  | fund o amt => rfl
  | mint o amt => rfl
  | tick dt => rfl
  | unbond o => simp only [step, unbond]; repeat' split
                all_goals rfl
  | mkbatch => simp only [step, mkBatch]; repeat' split
               all_goals rfl
  | mkcall => rfl
  | conf k n e b sg => simp only [step, confirm]; repeat' split
                       all_goals first | rfl | (cases k <;> rfl)
  | observe n => simp only [step, observe]; repeat' split
                 all_goals rfl
  | event bs bcs cs obs => rfl
  | block dt => exact block_params hcode s dt
  | valslash v num den => simp only [step, valSlash]; repeat' split
                          all_goals rfl

theorem run_params (hcode : SlashCodeOk) (ops : List Op) : ∀ s : State, (run s ops).p = s.p := by
  induction ops with
  | nil => intro s; rfl
  | cons op ops ih =>
    intro s
    simp only [run]
    rw [ih, step_params hcode]

end FxVerif.Proofs.C13
