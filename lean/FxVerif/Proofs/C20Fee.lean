import FxVerif.Gen.C20
/-! helper lemmas for the C20 fee theorems (core Lean only) -/
namespace FxVerif.Proofs.C20Fee
open FxVerif.Model.C20Base FxVerif.Gen.C20

theorem mapHas_iff (m : List String) (k : String) : mapHas m k = true ↔ k ∈ m := by
  simp [mapHas]

/-- closed form of the translated range loop -/
theorem loop_eq (ctf : CheckTxFeees) (msgs : List String) (r : Bool) :
    bypassMinFeeMsgs_loop ctf msgs r =
      if msgs.all (fun m => mapHas ctf.bypassMsgTypesMap m) then (none, if msgs.isEmpty then r else true)
      else (some false, true) := by
  induction msgs generalizing r with
  | nil => simp [bypassMinFeeMsgs_loop]
  | cons m rest ih =>
    unfold bypassMinFeeMsgs_loop
    by_cases h : mapHas ctf.bypassMsgTypesMap m = true
    · simp only [h, Bool.not_true, Bool.false_eq_true, ↓reduceIte, List.all_cons, Bool.true_and, List.isEmpty_cons]
      rw [ih]
      by_cases h2 : (rest.all fun m => mapHas ctf.bypassMsgTypesMap m) = true
      · simp [h2]
      · simp [h2]
    · simp [h]

theorem bypassMinFeeMsgs_iff (ctf : CheckTxFeees) (msgs : List String) :
    bypassMinFeeMsgs ctf msgs = true ↔ msgs ≠ [] ∧ ∀ m ∈ msgs, m ∈ ctf.bypassMsgTypesMap := by
  simp only [bypassMinFeeMsgs, loop_eq]
  by_cases h : (msgs.all fun m => mapHas ctf.bypassMsgTypesMap m) = true
  · have h' : ∀ m ∈ msgs, m ∈ ctf.bypassMsgTypesMap := by
      intro m hm
      rw [List.all_eq_true] at h
      exact (mapHas_iff _ _).1 (h m hm)
    cases msgs with
    | nil => simp
    | cons a l =>
      simp only [h, ↓reduceIte, List.isEmpty_cons, Bool.false_eq_true, ne_eq, reduceCtorEq, not_false_eq_true, true_and, true_iff]
      exact h'
  · have h' : ¬ ∀ m ∈ msgs, m ∈ ctf.bypassMsgTypesMap := by
      intro hall
      apply h
      rw [List.all_eq_true]
      intro m hm
      exact (mapHas_iff _ _).2 (hall m hm)
    simp [h, h']

theorem gasUsage_iff (ctf : CheckTxFeees) (msgs : List String) (gas : Nat) :
    isBypassMinFeeMsgGasUsage ctf msgs gas = true ↔ gas ≤ (msgs.length * ctf.maxBypassMsgGasUsage) % 2 ^ 64 := by
  simp [isBypassMinFeeMsgGasUsage, mulU64]


theorem decPrecision_eq : decPrecision = 1000000000000000000 := by decide

/-- ⌈n/10¹⁸⌉ is the least r with n ≤ r·10¹⁸ -/
theorem ceilDiv_spec (n : Nat) :
    n ≤ ceilDiv n decPrecision * decPrecision ∧ ∀ r, n ≤ r * decPrecision → ceilDiv n decPrecision ≤ r := by
  simp only [ceilDiv, decPrecision_eq]
  constructor
  · omega
  · intro r hr; omega

theorem int64_of_small (g : Nat) (hg : g < 2 ^ 63) : int64OfU64 g = Int.ofNat g := by
  have h1 : g % 2 ^ 64 = g := Nat.mod_eq_of_lt (by omega)
  simp [int64OfU64, h1, hg]

/-- the Dec arithmetic of the decorator computes exactly ⌈price·gas⌉ when `int64(gas)` is faithful and the price is not negative -/
theorem required_is_ceil (p : Int) (g : Nat) (hp : 0 ≤ p) (hg : g < 2 ^ 63) :
    decCeilInt (decMul p (legacyNewDec (int64OfU64 g))) = Int.ofNat (ceilDiv (p.toNat * g) decPrecision) := by
  obtain ⟨P, rfl⟩ := Int.eq_ofNat_of_zero_le hp
  rw [int64_of_small g hg]
  have hm : (P : Int) * legacyNewDec (Int.ofNat g) = Int.ofNat (P * g * decPrecision) := by
    simp [legacyNewDec, Nat.mul_assoc]
  have hmul : decMul (P : Int) (legacyNewDec (Int.ofNat g)) = Int.ofNat (P * g) := by
    unfold decMul
    simp only [hm]
    have hpos : 0 < decPrecision := by decide
    have h1 : (Int.ofNat (P * g * decPrecision)).natAbs = P * g * decPrecision := rfl
    have h2 : ¬ (Int.ofNat (P * g * decPrecision) < 0) := by
      intro h; exact absurd (Int.natCast_nonneg _) (Int.not_le.mpr h)
    simp only [h1, Nat.mul_div_cancel _ hpos, Nat.mul_mod_left, h2, ↓reduceIte]
    have h3 : 0 < decPrecision / 2 := by decide
    simp [h3]
  rw [hmul]
  unfold decCeilInt
  have hnn : (0 : Int) ≤ Int.ofNat (P * g) := Int.natCast_nonneg _
  rw [Int.tdiv_eq_ediv_of_nonneg hnn, Int.tmod_eq_emod_of_nonneg hnn]
  simp only [Int.toNat_natCast, ceilDiv, decPrecision_eq]
  generalize P * g = N
  simp only [Int.ofNat_eq_natCast]
  split
  · omega
  · split <;> omega

/-- looking a denomination up in the required-fee list built by the decorator -/
theorem amountOf_map (prices : List DecCoin) (f : Int → Int) (d : String) :
    amountOf (prices.map (fun gp => Coin.mk gp.denom (f gp.amount))) d =
      match prices.find? (fun p => p.denom == d) with
      | some p => f p.amount
      | none => 0 := by
  induction prices with
  | nil => simp [amountOf]
  | cons p rest ih =>
    unfold amountOf at ih ⊢
    simp only [List.map_cons, List.find?_cons]
    by_cases h : (p.denom == d) = true
    · simp [h]
    · simp only [h]; exact ih


/-- the ceil-form required-fee list -/
def ceilFees (prices : List DecCoin) (gas : Nat) : List Coin :=
  prices.map fun gp => Coin.mk gp.denom (Int.ofNat (ceilDiv (gp.amount.toNat * gas) decPrecision))

theorem amountOf_ceilFees (prices : List DecCoin) (gas : Nat) (d : String) :
    amountOf (ceilFees prices gas) d = Int.ofNat (requiredOf prices gas d) := by
  unfold ceilFees
  rw [amountOf_map prices (fun a => Int.ofNat (ceilDiv (a.toNat * gas) decPrecision)) d]
  unfold requiredOf
  cases prices.find? (fun p => p.denom == d) <;> rfl

theorem isAnyGTE_ceilFees (prices : List DecCoin) (gas : Nat) (fee : List Coin) :
    isAnyGTE fee (ceilFees prices gas) = true ↔ ∃ c ∈ fee, covers prices gas c := by
  unfold isAnyGTE
  by_cases he : (ceilFees prices gas).isEmpty = true
  · have hp : prices = [] := by
      cases prices with
      | nil => rfl
      | cons a l => simp [ceilFees] at he
    subst hp
    simp [ceilFees, covers, requiredOf]
  · simp only [he, Bool.false_eq_true, ↓reduceIte, List.any_eq_true, Bool.and_eq_true, decide_eq_true_eq,
      Bool.not_eq_eq_eq_not, Bool.not_true, beq_eq_false_iff_ne, ne_eq, amountOf_ceilFees, covers]
    constructor
    · rintro ⟨c, hc, h1, h2⟩
      refine ⟨c, hc, ?_, h1⟩
      intro h0; apply h2; simp [h0]
    · rintro ⟨c, hc, h1, h2⟩
      refine ⟨c, hc, h2, ?_⟩
      intro h0; apply h1
      have : (requiredOf prices gas c.denom : Int) = 0 := h0
      omega

theorem decCoinsIsZero_iff (prices : List DecCoin) : decCoinsIsZero prices = true ↔ ∀ p ∈ prices, p.amount = 0 := by
  simp [decCoinsIsZero]

/-- `amount ≥ ⌈n/10¹⁸⌉ ↔ amount·10¹⁸ ≥ n` -/
theorem ge_ceilDiv_iff (a : Int) (n : Nat) : a ≥ (ceilDiv n decPrecision : Int) ↔ a * (decPrecision : Int) ≥ (n : Int) := by
  simp only [ceilDiv, decPrecision_eq]
  omega

theorem ceilDiv_eq_zero_iff (n : Nat) : ceilDiv n decPrecision = 0 ↔ n = 0 := by
  simp only [ceilDiv, decPrecision_eq]
  omega


/-- non-negative price × negative `int64(gas)`: the required amount is ≤ 0 -/
theorem decCeil_nonpos (p g : Int) (hp : 0 ≤ p) (hg : g < 0) :
    decCeilInt (decMul p (legacyNewDec g)) ≤ 0 := by
  have hm : p * legacyNewDec g ≤ 0 := by
    unfold legacyNewDec
    have h1 : g * Int.ofNat decPrecision ≤ 0 := Int.mul_nonpos_of_nonpos_of_nonneg (Int.le_of_lt hg) (Int.natCast_nonneg _)
    exact Int.mul_nonpos_of_nonneg_of_nonpos hp h1
  have hd : decMul p (legacyNewDec g) ≤ 0 := by
    by_cases hlt : p * legacyNewDec g < 0
    · simp only [decMul, hlt, ↓reduceIte]
      exact Int.neg_nonpos_of_nonneg (Int.natCast_nonneg _)
    · have h0 : p * legacyNewDec g = 0 := by omega
      simp [decMul, h0]
  unfold decCeilInt
  generalize decMul p (legacyNewDec g) = d at hd
  obtain ⟨e, rfl⟩ : ∃ e : Int, d = -e := ⟨-d, by omega⟩
  have he : 0 ≤ e := by omega
  have h1 : 0 ≤ e.tdiv (Int.ofNat decPrecision) := Int.tdiv_nonneg he (Int.natCast_nonneg _)
  have h2 : 0 ≤ e.tmod (Int.ofNat decPrecision) := Int.tmod_nonneg _ he
  simp only [Int.neg_tdiv, Int.neg_tmod]
  split
  · omega
  · split
    · omega
    · omega

end FxVerif.Proofs.C20Fee
