import FxVerif.Proofs.C01R4
/-!
round 5 — "… have each voted for that very event": every vote that sits on an attestation (event nonce, claim id) was cast
by an ACCEPTED claim message for exactly that event nonce and that claim id, by the oracle the claim's bridger was registered
for at that moment — over whole histories with genesis export / import restarts (the import reloads the attestations with
their vote lists; it never adds a vote).
-/
namespace FxVerif.Proofs.C01
open FxVerif.Gen.C01 FxVerif.Model.C01

/-- the vote one operation casts: `(oracle, event nonce, claim id)` of an ACCEPTED claim, nothing otherwise -/
def castOf (s : State) : GOp → List (Nat × Nat × Nat)
  | .op (.claim w i n h k e) =>
    match (step s (.claim w i n h k e)).2, s.byBridger.get (voter w i) with
    | .ok, some o => [(o, n, h)]
    | _, _ => []
  | _ => []

/-- the votes a history casts from state `s`, in order -/
def castLog (s : State) : List GOp → List (Nat × Nat × Nat)
  | [] => []
  | op :: ops => castOf s op ++ castLog (gstep s op).1 ops

/-- every vote on every stored attestation is in the list `c` of cast votes, for that very (nonce, claim id) -/
def Cast (s : State) (c : List (Nat × Nat × Nat)) : Prop := ∀ a ∈ s.atts, ∀ o ∈ a.votes, (o, a.nonce, a.hash) ∈ c

theorem cast_of_atts_sub {s s' : State} {c : List (Nat × Nat × Nat)} (hsub : ∀ a ∈ s'.atts, a ∈ s.atts) (h : Cast s c)
    (c' : List (Nat × Nat × Nat)) : Cast s' (c ++ c') :=
  fun a ha o ho => List.mem_append_left _ (h a (hsub a ha) o ho)

theorem attest_attsLe (s : State) (o n h : Nat) (kind : Kind) :
    AttsLe (attest s o n h kind).atts (setAtt s.atts (voteAtt s o n h)) := by
  unfold attest
  simp only []
  split
  · exact tryAttest_attsLe { s with atts := setAtt s.atts (voteAtt s o n h) } _ kind (mem_setAtt_self _ _)
  · exact attsLe_refl _

theorem cast_attest (s : State) (c : List (Nat × Nat × Nat)) (o n h : Nat) (kind : Kind) (hC : Cast s c) :
    Cast (attest s o n h kind) (c ++ [(o, n, h)]) := by
  intro a ha o' ho'
  obtain ⟨b, hb, hbn, hbh, hbv⟩ := attest_attsLe s o n h kind a ha
  rw [← hbn, ← hbh]
  rw [← hbv] at ho'
  rcases mem_setAtt hb with hb | hb
  · subst hb
    obtain ⟨hn, hh⟩ := voteAtt_key s o n h
    obtain ⟨vs0, hvs, hsrc⟩ := voteAtt_votes s o n h
    rw [hvs] at ho'
    rw [hn, hh]
    rcases List.mem_append.1 ho' with hm | hm
    · rcases hsrc with ⟨a0, ha0, ha0n, ha0h, ha0v⟩ | hnil
      · have := hC a0 ha0 o' (by rw [ha0v]; exact hm)
        rw [ha0n, ha0h] at this
        exact List.mem_append_left _ this
      · subst hnil; cases hm
    · have : o' = o := by simpa using hm
      subst this
      exact List.mem_append_right _ (by simp)
  · exact List.mem_append_left _ (hC b hb o' ho')

theorem exec_atts (s : State) (n : Nat) (o : Outcome) (cl : Calls) : (execStep s n o cl).1.atts = s.atts := by
  obtain ⟨P, L, h⟩ := exec_frame s n o cl
  rw [h]

theorem cast_gstep (s : State) (c : List (Nat × Nat × Nat)) (op : GOp) (hC : Cast s c) :
    Cast (gstep s op).1 (c ++ castOf s op) := by
  cases op with
  | genesis => exact cast_of_atts_sub (roundTrip_fields s).2.2.1 hC _
  | op o =>
    cases o with
    | claim w i n h k e =>
      by_cases hok : (claimStep s w i n h k).2 = .ok
      · obtain ⟨a, orc, hga, _, _, _, _, _, hst⟩ := claim_ok s w i n h k hok
        have hc : castOf s (.op (.claim w i n h k e)) = [(a, n, h)] := by
          simp only [castOf, step, hok, hga]
        rw [hc]
        show Cast (claimStep s w i n h k).1 _
        rw [hst]
        exact cast_attest s c a n h k hC
      · have hst := claim_not_ok s w i n h k hok
        show Cast (claimStep s w i n h k).1 _
        rw [hst]
        exact cast_of_atts_sub (fun a ha => ha) hC _
    | bond o b e a d =>
      exact cast_of_atts_sub (s := s) (fun x hx => by rw [show (gstep s (.op (.bond o b e a d))).1.atts = s.atts from core_atts (bond_core s o b e a d).1] at hx; exact hx) hC _
    | addDelegate o a d =>
      exact cast_of_atts_sub (s := s) (fun x hx => by rw [show (gstep s (.op (.addDelegate o a d))).1.atts = s.atts from core_atts (addDelegate_core s o a d).1] at hx; exact hx) hC _
    | editBridger o b =>
      exact cast_of_atts_sub (s := s) (fun x hx => by rw [show (gstep s (.op (.editBridger o b))).1.atts = s.atts from core_atts (editBridger_core s o b).1] at hx; exact hx) hC _
    | unbond o u bal d =>
      exact cast_of_atts_sub (s := s) (fun x hx => by rw [show (gstep s (.op (.unbond o u bal d))).1.atts = s.atts from core_atts (unbond_core s o u bal d)] at hx; exact hx) hC _
    | gov l d =>
      exact cast_of_atts_sub (s := s) (fun x hx => by rw [show (gstep s (.op (.gov l d))).1.atts = s.atts from core_atts (gov_core s l d).1] at hx; exact hx) hC _
    | endBlock l r =>
      exact cast_of_atts_sub (s := s) (fun x hx => by rw [show (gstep s (.op (.endBlock l r))).1.atts = s.atts from core_atts (endBlock_core s l r).1] at hx; exact hx) hC _
    | exec n o cl =>
      exact cast_of_atts_sub (s := s) (fun x hx => by rw [show (gstep s (.op (.exec n o cl))).1.atts = s.atts from exec_atts s n o cl] at hx; exact hx) hC _

theorem cast_grun (s : State) (c : List (Nat × Nat × Nat)) (ops : List GOp) (hC : Cast s c) :
    Cast (grun s ops) (c ++ castLog s ops) := by
  induction ops generalizing s c with
  | nil => simpa [grun, castLog] using hC
  | cons op r ih =>
    have := ih (gstep s op).1 (c ++ castOf s op) (cast_gstep s c op hC)
    simpa [grun, castLog, List.append_assoc] using this

theorem cast_init (p : Params) : Cast (init p) [] := by
  intro a ha; simp [init] at ha

/-- the cast log of a history extended by one operation -/
theorem castLog_append (s : State) (ops : List GOp) (op : GOp) :
    castLog s (ops ++ [op]) = castLog s ops ++ castOf (grun s ops) op := by
  induction ops generalizing s with
  | nil => simp [castLog, grun]
  | cons o r ih => simp [castLog, grun, ih, List.append_assoc]

end FxVerif.Proofs.C01
