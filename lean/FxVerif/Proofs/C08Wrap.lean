import FxVerif.Proofs.C08Books
/-! helper lemmas for C08: the message server with keeper-level transfers read through a wrapper predicate (`stepUA`)
refines `stepU` whenever the wrapper treats a reverted call and a `false` return as failures -/
namespace FxVerif.Proofs.C08
open FxVerif.Model.Ledger FxVerif.Model.Flows FxVerif.Model.C08 FxVerif.Proofs.Ledger

/-- a sound wrapper never goes on after a transfer that moved nothing; when it goes on, the transfer is the ledger `send` -/
theorem keeperTransfer_ok (acc : Accepts) (hs : acc.Sound) (st : Style)
    (hn : st.fail = .retNothing → acc true true true false = false)
    (L L' : Ledger) (a : Asset) (src dst : Addr) (n : Nat) (h : keeperTransfer acc st L a src dst n = .ok L') :
    dst ≠ zeroAddr ∧ applyPrim (.send a src dst n) L = .ok L' := by
  simp only [keeperTransfer] at h
  split at h
  · -- the token signalled failure: a sound wrapper stops
    split at h
    · rename_i hacc
      cases hf : st.fail with
      | revert => simp only [Accepts.onFail, hf, hs.1] at hacc; cases hacc
      | retFalse => simp only [Accepts.onFail, hf, hs.2] at hacc; cases hacc
      | retNothing => simp only [Accepts.onFail, hf, hn hf] at hacc; cases hacc
    · cases h
  · rename_i hc
    split at h
    · exact ⟨fun e => hc (Or.inr e), h⟩
    · cases h

theorem stepUA_ok_stepU (acc : Accepts) (hs : acc.Sound) (styleOf : Nat → Style)
    (hn : ∀ ct, (styleOf ct).fail = .retNothing → acc true true true false = false)
    (s s' : UState) (op : UOp) (h : stepUA acc styleOf s op = .ok s') : stepU s op = .ok s' := by
  cases op with
  | convertCoin d u r n =>
    simp only [stepUA] at h
    split at h; · cases h
    rename_i p hme
    split at h; · exact h
    rename_i hc
    simp only [not_or, Decidable.not_not] at hc
    obtain ⟨hlive, hk⟩ := hc
    split at h; · cases h
    rename_i L1 h1
    split at h; · cases h
    rename_i L2 h2
    obtain ⟨hz, h2'⟩ := keeperTransfer_ok acc hs _ (hn _) _ _ _ _ _ _ h2
    simp only [UState.withLedger] at h
    split at h
    · rename_i L3 h3
      cases h
      have hl : s.dead.contains p.contract = false := by simpa using hlive
      simp only [stepU, hme, hl, Bool.false_eq_true, ↓reduceIte, hz, hk, convertCoinU, runFlow, h1, h2', h3,
        UState.withLedger]
    · cases h
  | convertERC20 ct u r n =>
    simp only [stepUA] at h
    split at h; · cases h
    rename_i p hme
    split at h; · exact h
    rename_i hc
    simp only [not_or, Decidable.not_not] at hc
    obtain ⟨hlive, hk⟩ := hc
    split at h; · cases h
    rename_i L1 h1
    obtain ⟨_, h1'⟩ := keeperTransfer_ok acc hs _ (hn _) _ _ _ _ _ _ h1
    have hl : s.dead.contains p.contract = false := by simpa using hlive
    simp only [stepU, hme, hl, Bool.false_eq_true, ↓reduceIte, hk, convertERC20U, runFlow, h1']
    exact h
  | convertDenom d u r n t => exact h
  | idx o => exact h
  | setEnable b => exact h

end FxVerif.Proofs.C08
