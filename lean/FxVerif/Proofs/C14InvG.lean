import FxVerif.Proofs.C14
import FxVerif.Proofs.C14SimInit
/-!
# C14 — a gov invariant of every history: deposits and votes exist only for proposals that are still queued

`GovInv s`: a proposal in its deposit period sits in the inactive queue under its deposit end time, a proposal in its
voting period sits in the active queue under its voting end time, every deposit record belongs to a proposal in one of
the two queues and every vote to a proposal in the active queue.  It holds in a state without proposals and is preserved
by every operation (`govInv_*`), in particular by the gov end blocker, which removes a proposal from its queue exactly
when it refunds its deposits and drops its votes.

Consequence (`gov_clear_of_scan`): when the gov scan of the migration (`govRefuses`, both queues walked completely, all
seven refusals in force) lets a migration pass, NO deposit and NO vote in the store names the source or the target — not
only those of open proposals.  This discharges the deposit / vote part of the `MigEnv` assumption of
`later_behaviour_equal_reachable`.
-/
namespace FxVerif.Proofs.C14
open FxVerif.Model.C14

/-- the gov slice of the state -/
def govOf (s : State) :
    Store Nat Proposal × Store (Nat × Addr) Nat × List (Nat × Addr) × List (Time × Nat) × List (Time × Nat) :=
  (s.props, s.deposits, s.votes, s.inactiveQ, s.activeQ)

structure GovInv (s : State) : Prop where
  open0 : ∀ id pr, get s.props id = some pr → pr.status = 0 → (pr.depEnd, id) ∈ s.inactiveQ
  open1 : ∀ id pr, get s.props id = some pr → pr.status = 1 → (pr.voteEnd, id) ∈ s.activeQ
  dep : ∀ p ∈ s.deposits, ∃ t, (t, p.1.1) ∈ s.inactiveQ ∨ (t, p.1.1) ∈ s.activeQ
  vote : ∀ p ∈ s.votes, ∃ t, (t, p.1) ∈ s.activeQ

theorem govInv_of_govOf {s s' : State} (h : GovInv s) (e : govOf s' = govOf s) : GovInv s' := by
  simp only [govOf, Prod.mk.injEq] at e
  obtain ⟨e1, e2, e3, e4, e5⟩ := e
  exact ⟨by rw [e1, e4]; exact h.open0, by rw [e1, e5]; exact h.open1, by rw [e2, e4, e5]; exact h.dep,
    by rw [e3, e5]; exact h.vote⟩

theorem govInv_base (s : State) (h1 : s.props = []) (h2 : s.deposits = []) (h3 : s.votes = []) : GovInv s := by
  refine ⟨fun id pr e => ?_, fun id pr e => ?_, fun p hp => ?_, fun p hp => ?_⟩
  · rw [h1, get_nil] at e; cases e
  · rw [h1, get_nil] at e; cases e
  · rw [h2] at hp; cases hp
  · rw [h3] at hp; cases hp

/-! ### the staking operations leave the gov slice alone -/

theorem touchPre_gov {s s' : State} {d v rw} (h : touchPre s d v rw = some s') : govOf s' = govOf s := by
  unfold touchPre at h
  split at h
  · cases h; rfl
  · split at h
    · cases h
    · cases h; rfl

theorem unbond_gov {s s' : State} {d v amt rw} (h : unbond s d v amt rw = some s') : govOf s' = govOf s := by
  unfold unbond at h
  split at h
  · cases h
  · split at h
    · cases h
    · split at h
      · cases h
      · rename_i s1 h1
        cases h
        have := touchPre_gov h1
        split <;> simpa [touchPost, govOf] using this

theorem addShares_gov {s s' : State} {d v amt rw} (h : addShares s d v amt rw = some s') : govOf s' = govOf s := by
  unfold addShares at h
  split at h
  · cases h
  · rename_i s1 h1
    cases h
    simpa [touchPost, govOf] using touchPre_gov h1

theorem delegate_gov {s s' : State} {d v amt rw} (h : delegate s d v amt rw = some s') : govOf s' = govOf s := by
  unfold delegate at h
  split at h
  · cases h
  · split at h
    · cases h
    · rename_i s1 h1
      split at h
      · cases h
      · cases h
        simpa [touchPost, govOf] using touchPre_gov h1

theorem undelegate_gov {s s' : State} {d v amt rw} (h : undelegate s d v amt rw = some s') : govOf s' = govOf s := by
  unfold undelegate at h
  split at h
  · cases h
  · simp only [] at h
    split at h
    · cases h
    · split at h
      · cases h
      · rename_i s1 h1
        split at h
        · cases h
        · cases h
          exact (unbond_gov h1 : govOf s1 = govOf s)

theorem redelegate_gov {s s' : State} {d a b amt r1 r2} (h : redelegate s d a b amt r1 r2 = some s') :
    govOf s' = govOf s := by
  unfold redelegate at h
  split at h
  · cases h
  · split at h
    · cases h
    · simp only [] at h
      split at h
      · cases h
      · split at h
        · cases h
        · rename_i s1 h1
          split at h
          · cases h
          · rename_i s2 h2
            cases h
            exact ((addShares_gov h2 : govOf s2 = govOf s1).trans (unbond_gov h1))

theorem withdraw_gov {s s' : State} {d v rw} (h : withdraw s d v rw = some s') : govOf s' = govOf s := by
  unfold withdraw at h
  split at h
  · cases h
  · split at h
    · cases h
    · rename_i s1 h1
      cases h
      simpa [touchPost, govOf] using touchPre_gov h1

theorem completeUnbonding_gov (s : State) (d v) : govOf (completeUnbonding s d v) = govOf s := by
  unfold completeUnbonding
  split
  · rfl
  · simp only []
    split <;> rfl

theorem completeRedelegation_gov (s : State) (d a b) : govOf (completeRedelegation s d a b) = govOf s := by
  unfold completeRedelegation
  split
  · rfl
  · simp only []
    split <;> rfl

theorem stakingEnd_gov (s : State) : govOf (stakingEnd s) = govOf s := by
  unfold stakingEnd
  refine (foldl_keep govOf _ (by intros; exact completeRedelegation_gov _ _ _ _) _ _).trans ?_
  exact foldl_keep govOf _ (by intros; exact completeUnbonding_gov _ _ _) _ _

theorem stakingEnd_now (s : State) : (stakingEnd s).now = s.now := by
  unfold stakingEnd
  refine (foldl_keep (fun s : State => s.now) _ (fun s p => ?_) _ _).trans ?_
  · unfold completeRedelegation
    split
    · rfl
    · simp only []
      split <;> rfl
  · refine foldl_keep (fun s : State => s.now) _ (fun s p => ?_) _ _
    unfold completeUnbonding
    split
    · rfl
    · simp only []
      split <;> rfl

/-- what the migration handlers write is outside the gov slice -/
theorem migrated_gov (c : Cfg) (s : State) (frm to : Addr) :
    govOf (setRecord c (stakingExecute c (bankExecute c s frm to) frm to) frm to) = govOf s := by
  have fr := stakingExecute_frame c (bankExecute c s frm to) frm to
  show ((stakingExecute c (bankExecute c s frm to) frm to).props, (stakingExecute c (bankExecute c s frm to) frm to).deposits,
        (stakingExecute c (bankExecute c s frm to) frm to).votes, (stakingExecute c (bankExecute c s frm to) frm to).inactiveQ,
        (stakingExecute c (bankExecute c s frm to) frm to).activeQ) = _
  rw [fr.props, fr.deposits, fr.votes, fr.inactiveQ, fr.activeQ]
  rfl

/-! ### membership in `put` / `del` -/

theorem mem_delG {κ ν : Type} [BEq κ] [LawfulBEq κ] (m : Store κ ν) (k : κ) (p : κ × ν) (h : p ∈ del m k) :
    p ∈ m ∧ p.1 ≠ k := by
  unfold del at h
  obtain ⟨h1, h2⟩ := List.mem_filter.mp h
  refine ⟨h1, fun e => ?_⟩
  rw [e] at h2
  simp at h2

theorem mem_putG {κ ν : Type} [BEq κ] [LawfulBEq κ] (m : Store κ ν) (k : κ) (v : ν) (p : κ × ν) (h : p ∈ put m k v) :
    p = (k, v) ∨ (p ∈ m ∧ p.1 ≠ k) := by
  unfold put at h
  rcases List.mem_cons.mp h with e | e
  · exact Or.inl e
  · exact Or.inr (mem_delG m k p e)

theorem get_isSome_of_mem {κ ν : Type} [BEq κ] [LawfulBEq κ] (m : Store κ ν) (p : κ × ν) (h : p ∈ m) :
    (get m p.1).isSome = true := by
  cases hg : get m p.1 with
  | some v => rfl
  | none =>
    exfalso
    induction m with
    | nil => cases h
    | cons q m ih =>
      rw [get_cons] at hg
      split at hg
      · cases hg
      · rename_i hk
        rcases List.mem_cons.mp h with e | e
        · subst e; simp at hk
        · exact ih e hg

/-! ### the gov operations -/

theorem govInv_submit {s s' : State} {a dep} (h : GovInv s) (e : submit s a dep = some s') : GovInv s' := by
  unfold submit at e
  split at e
  · cases e
  · rename_i b hb
    cases e
    simp only []
    by_cases hv : dep ≥ s.minDeposit
    · simp only [hv, ↓reduceIte]
      refine ⟨fun id pr hg hs => ?_, fun id pr hg hs => ?_, fun p hp => ?_, fun p hp => ?_⟩
      · by_cases hid : id = s.nextProp
        · subst hid
          rw [get_put_eq] at hg
          cases hg
          simp at hs
        · rw [get_put_ne _ _ _ _ hid] at hg
          exact h.open0 id pr hg hs
      · rw [mem_ins]
        by_cases hid : id = s.nextProp
        · subst hid
          rw [get_put_eq] at hg
          cases hg
          exact Or.inl rfl
        · rw [get_put_ne _ _ _ _ hid] at hg
          exact Or.inr (h.open1 id pr hg hs)
      · rcases mem_putG _ _ _ _ hp with e | ⟨hm, _⟩
        · subst e
          exact ⟨_, Or.inr ((mem_ins _ _ _).mpr (Or.inl rfl))⟩
        · obtain ⟨t, ht⟩ := h.dep p hm
          exact ⟨t, ht.imp id (fun x => (mem_ins _ _ _).mpr (Or.inr x))⟩
      · obtain ⟨t, ht⟩ := h.vote p hp
        exact ⟨t, (mem_ins _ _ _).mpr (Or.inr ht)⟩
    · simp only [hv, ↓reduceIte]
      refine ⟨fun id pr hg hs => ?_, fun id pr hg hs => ?_, fun p hp => ?_, fun p hp => ?_⟩
      · rw [mem_ins]
        by_cases hid : id = s.nextProp
        · subst hid
          rw [get_put_eq] at hg
          cases hg
          exact Or.inl rfl
        · rw [get_put_ne _ _ _ _ hid] at hg
          exact Or.inr (h.open0 id pr hg hs)
      · by_cases hid : id = s.nextProp
        · subst hid
          rw [get_put_eq] at hg
          cases hg
          simp at hs
        · rw [get_put_ne _ _ _ _ hid] at hg
          exact h.open1 id pr hg hs
      · rcases mem_putG _ _ _ _ hp with e | ⟨hm, _⟩
        · subst e
          exact ⟨_, Or.inl ((mem_ins _ _ _).mpr (Or.inl rfl))⟩
        · obtain ⟨t, ht⟩ := h.dep p hm
          exact ⟨t, ht.imp (fun x => (mem_ins _ _ _).mpr (Or.inr x)) id⟩
      · exact h.vote p hp

theorem govInv_vote {s s' : State} {a id} (h : GovInv s) (e : vote s a id = some s') : GovInv s' := by
  unfold vote at e
  split at e
  · cases e
  · rename_i pr hg
    split at e
    · cases e
    · rename_i hs
      cases e
      have hs1 : pr.status = 1 := by simpa using hs
      refine ⟨h.open0, h.open1, h.dep, fun p hp => ?_⟩
      rcases (mem_ins _ _ _).mp hp with e | e
      · subst e
        exact ⟨_, h.open1 id pr hg hs1⟩
      · exact h.vote p e

theorem govInv_deposit {s s' : State} {a id amt} (h : GovInv s) (e : deposit s a id amt = some s') : GovInv s' := by
  unfold deposit at e
  split at e
  · cases e
  · rename_i pr hg
    split at e
    · cases e
    · rename_i hst
      split at e
      · cases e
      · rename_i b hb
        cases e
        have hlt : pr.status < 2 := by
          simp only [ge_iff_le, Bool.or_eq_true, decide_eq_true_eq, beq_iff_eq, not_or, Nat.not_le] at hst
          exact hst.1
        by_cases hact : (pr.status == 0 && decide (pr.total + amt ≥ s.minDeposit)) = true
        · simp only [hact, ↓reduceIte]
          have hs0 : pr.status = 0 := by
            simp only [Bool.and_eq_true, beq_iff_eq] at hact
            exact hact.1
          refine ⟨fun id' pr' hg' hs' => ?_, fun id' pr' hg' hs' => ?_, fun p hp => ?_, fun p hp => ?_⟩
          · by_cases hid : id' = id
            · subst hid
              rw [get_put_eq] at hg'
              cases hg'
              simp at hs'
            · rw [get_put_ne _ _ _ _ hid] at hg'
              rw [mem_rem]
              refine ⟨fun e => hid ?_, h.open0 id' pr' hg' hs'⟩
              exact (Prod.mk.inj e).2
          · rw [mem_ins]
            by_cases hid : id' = id
            · subst hid
              rw [get_put_eq] at hg'
              cases hg'
              exact Or.inl rfl
            · rw [get_put_ne _ _ _ _ hid] at hg'
              exact Or.inr (h.open1 id' pr' hg' hs')
          · rcases mem_putG _ _ _ _ hp with e | ⟨hm, _⟩
            · subst e
              exact ⟨_, Or.inr ((mem_ins _ _ _).mpr (Or.inl rfl))⟩
            · obtain ⟨t, ht⟩ := h.dep p hm
              by_cases hpid : p.1.1 = id
              · exact ⟨_, Or.inr ((mem_ins _ _ _).mpr (Or.inl (by rw [hpid])))⟩
              · refine ⟨t, ht.imp (fun x => (mem_rem _ _ _).mpr ⟨fun e => hpid (Prod.mk.inj e).2, x⟩)
                  (fun x => (mem_ins _ _ _).mpr (Or.inr x))⟩
          · obtain ⟨t, ht⟩ := h.vote p hp
            exact ⟨t, (mem_ins _ _ _).mpr (Or.inr ht)⟩
        · have hact' : (pr.status == 0 && decide (pr.total + amt ≥ s.minDeposit)) = false := by
            cases hh : (pr.status == 0 && decide (pr.total + amt ≥ s.minDeposit)) <;> simp_all
          simp only [hact', Bool.false_eq_true, ↓reduceIte]
          refine ⟨fun id' pr' hg' hs' => ?_, fun id' pr' hg' hs' => ?_, fun p hp => ?_, h.vote⟩
          · by_cases hid : id' = id
            · subst hid
              rw [get_put_eq] at hg'
              cases hg'
              exact h.open0 id' pr hg hs'
            · rw [get_put_ne _ _ _ _ hid] at hg'
              exact h.open0 id' pr' hg' hs'
          · by_cases hid : id' = id
            · subst hid
              rw [get_put_eq] at hg'
              cases hg'
              exact h.open1 id' pr hg hs'
            · rw [get_put_ne _ _ _ _ hid] at hg'
              exact h.open1 id' pr' hg' hs'
          · rcases mem_putG _ _ _ _ hp with e | ⟨hm, _⟩
            · subst e
              have : pr.status = 0 ∨ pr.status = 1 := by omega
              rcases this with h0 | h1
              · exact ⟨_, Or.inl (h.open0 id pr hg h0)⟩
              · exact ⟨_, Or.inr (h.open1 id pr hg h1)⟩
            · exact h.dep p hm

/-! ### the gov end blocker -/

/-- first loop of the gov end blocker: a proposal whose deposit period ended is deleted and its deposits are refunded -/
def deadStep (s : State) (p : Time × Nat) : State := refundDeposits { s with props := del s.props p.2 } p.2

/-- second loop: a proposal whose voting period ended has its deposits refunded, its votes dropped and is closed -/
def endedStep (s : State) (p : Time × Nat) : State :=
  let s' := refundDeposits s p.2
  { s' with votes := s'.votes.filter (fun x => !(x.1 == p.2)),
            props := match get s'.props p.2 with
                     | some pr => put s'.props p.2 { pr with status := 2 }
                     | none => s'.props }

theorem govEnd_loops (s : State) :
    govEnd s =
      let s1 := (s.inactiveQ.filter (fun p => p.1 ≤ s.now)).foldl deadStep
                  { s with inactiveQ := s.inactiveQ.filter (fun p => !(p.1 ≤ s.now)) }
      (s1.activeQ.filter (fun p => p.1 ≤ s1.now)).foldl endedStep
        { s1 with activeQ := s1.activeQ.filter (fun p => !(p.1 ≤ s1.now)) } := rfl

theorem deadFold_spec (L : List (Time × Nat)) (s : State) :
    (L.foldl deadStep s).inactiveQ = s.inactiveQ ∧ (L.foldl deadStep s).activeQ = s.activeQ ∧
    (L.foldl deadStep s).votes = s.votes ∧ (L.foldl deadStep s).now = s.now ∧
    (∀ id pr, get (L.foldl deadStep s).props id = some pr → get s.props id = some pr ∧ ∀ q ∈ L, id ≠ q.2) ∧
    (∀ p ∈ (L.foldl deadStep s).deposits, p ∈ s.deposits ∧ ∀ q ∈ L, p.1.1 ≠ q.2) := by
  induction L generalizing s with
  | nil => exact ⟨rfl, rfl, rfl, rfl, fun _ _ h => ⟨h, fun _ hq => by cases hq⟩, fun _ h => ⟨h, fun _ hq => by cases hq⟩⟩
  | cons q L ih =>
    obtain ⟨h1, h2, h3, h4, h5, h6⟩ := ih (deadStep s q)
    simp only [List.foldl_cons]
    refine ⟨h1, h2, h3, h4, fun id pr hg => ?_, fun p hp => ?_⟩
    · obtain ⟨hg', hL⟩ := h5 id pr hg
      have hg'' : get (del s.props q.2) id = some pr := hg'
      have hne : id ≠ q.2 := fun e => by rw [e, get_del_eq] at hg''; cases hg''
      rw [get_del_ne _ _ _ hne] at hg''
      exact ⟨hg'', fun q' hq' => by
        rcases List.mem_cons.mp hq' with e | e
        · rw [e]; exact hne
        · exact hL q' e⟩
    · obtain ⟨hp', hL⟩ := h6 p hp
      have hp'' : p ∈ s.deposits.filter (fun x => !(x.1.1 == q.2)) := hp'
      obtain ⟨hm, hf⟩ := List.mem_filter.mp hp''
      have hne : p.1.1 ≠ q.2 := by simpa using hf
      exact ⟨hm, fun q' hq' => by
        rcases List.mem_cons.mp hq' with e | e
        · rw [e]; exact hne
        · exact hL q' e⟩

theorem endedFold_spec (L : List (Time × Nat)) (s : State) :
    (L.foldl endedStep s).inactiveQ = s.inactiveQ ∧ (L.foldl endedStep s).activeQ = s.activeQ ∧
    (∀ id pr, get (L.foldl endedStep s).props id = some pr →
      pr.status = 2 ∨ (get s.props id = some pr ∧ ∀ q ∈ L, id ≠ q.2)) ∧
    (∀ p ∈ (L.foldl endedStep s).deposits, p ∈ s.deposits ∧ ∀ q ∈ L, p.1.1 ≠ q.2) ∧
    (∀ p ∈ (L.foldl endedStep s).votes, p ∈ s.votes ∧ ∀ q ∈ L, p.1 ≠ q.2) := by
  induction L generalizing s with
  | nil =>
    exact ⟨rfl, rfl, fun _ _ h => Or.inr ⟨h, fun _ hq => by cases hq⟩, fun _ h => ⟨h, fun _ hq => by cases hq⟩,
      fun _ h => ⟨h, fun _ hq => by cases hq⟩⟩
  | cons q L ih =>
    obtain ⟨h1, h2, h3, h4, h5⟩ := ih (endedStep s q)
    simp only [List.foldl_cons]
    refine ⟨h1, h2, fun id pr hg => ?_, fun p hp => ?_, fun p hp => ?_⟩
    · rcases h3 id pr hg with hs | ⟨hg', hL⟩
      · exact Or.inl hs
      · have hprops : (endedStep s q).props = match get s.props q.2 with
            | some pr => put s.props q.2 { pr with status := 2 }
            | none => s.props := rfl
        rw [hprops] at hg'
        by_cases hid : id = q.2
        · subst hid
          cases hq : get s.props q.2 with
          | none => rw [hq] at hg'; simp only [] at hg'; rw [hq] at hg'; cases hg'
          | some pr0 =>
            rw [hq] at hg'
            simp only [] at hg'
            rw [get_put_eq] at hg'
            cases hg'
            exact Or.inl rfl
        · refine Or.inr ⟨?_, fun q' hq' => ?_⟩
          · cases hq : get s.props q.2 with
            | none => rw [hq] at hg'; exact hg'
            | some pr0 =>
              rw [hq] at hg'
              simp only [] at hg'
              rwa [get_put_ne _ _ _ _ hid] at hg'
          · rcases List.mem_cons.mp hq' with e | e
            · rw [e]; exact hid
            · exact hL q' e
    · obtain ⟨hp', hL⟩ := h4 p hp
      have hp'' : p ∈ s.deposits.filter (fun x => !(x.1.1 == q.2)) := hp'
      obtain ⟨hm, hf⟩ := List.mem_filter.mp hp''
      have hne : p.1.1 ≠ q.2 := by simpa using hf
      exact ⟨hm, fun q' hq' => by
        rcases List.mem_cons.mp hq' with e | e
        · rw [e]; exact hne
        · exact hL q' e⟩
    · obtain ⟨hp', hL⟩ := h5 p hp
      have hp'' : p ∈ s.votes.filter (fun x => !(x.1 == q.2)) := hp'
      obtain ⟨hm, hf⟩ := List.mem_filter.mp hp''
      have hne : p.1 ≠ q.2 := by simpa using hf
      exact ⟨hm, fun q' hq' => by
        rcases List.mem_cons.mp hq' with e | e
        · rw [e]; exact hne
        · exact hL q' e⟩

theorem govInv_govEnd {s : State} (h : GovInv s) : GovInv (govEnd s) := by
  rw [govEnd_loops]
  -- after the first loop
  generalize hs1 : (s.inactiveQ.filter (fun p => p.1 ≤ s.now)).foldl deadStep
      { s with inactiveQ := s.inactiveQ.filter (fun p => !(p.1 ≤ s.now)) } = s1
  obtain ⟨a1, a2, a3, a4, a5, a6⟩ := deadFold_spec (s.inactiveQ.filter (fun p => p.1 ≤ s.now))
      { s with inactiveQ := s.inactiveQ.filter (fun p => !(p.1 ≤ s.now)) }
  rw [hs1] at a1 a2 a3 a4 a5 a6
  simp only [] at a1 a2 a3 a4 a5 a6
  have inQ : ∀ t id, (t, id) ∈ s.inactiveQ → (∀ q ∈ s.inactiveQ.filter (fun p => p.1 ≤ s.now), id ≠ q.2) →
      (t, id) ∈ s1.inactiveQ := by
    intro t id hm hnd
    rw [a1]
    refine List.mem_filter.mpr ⟨hm, ?_⟩
    by_cases ht : t ≤ s.now
    · exact absurd rfl (hnd (t, id) (List.mem_filter.mpr ⟨hm, by simpa using ht⟩))
    · simpa using ht
  have g1 : GovInv s1 := by
    refine ⟨fun id pr hg hs => ?_, fun id pr hg hs => ?_, fun p hp => ?_, fun p hp => ?_⟩
    · obtain ⟨hg', hnd⟩ := a5 id pr hg
      exact inQ _ _ (h.open0 id pr hg' hs) hnd
    · rw [a2]; exact h.open1 id pr (a5 id pr hg).1 hs
    · obtain ⟨hm, hnd⟩ := a6 p hp
      obtain ⟨t, ht | ht⟩ := h.dep p hm
      · exact ⟨t, Or.inl (inQ _ _ ht hnd)⟩
      · exact ⟨t, Or.inr (by rw [a2]; exact ht)⟩
    · rw [a3] at hp; rw [a2]; exact h.vote p hp
  -- after the second loop
  obtain ⟨b1, b2, b3, b4, b5⟩ := endedFold_spec (s1.activeQ.filter (fun p => p.1 ≤ s1.now))
      { s1 with activeQ := s1.activeQ.filter (fun p => !(p.1 ≤ s1.now)) }
  simp only [] at b1 b2 b3 b4 b5
  have acQ : ∀ t id, (t, id) ∈ s1.activeQ → (∀ q ∈ s1.activeQ.filter (fun p => p.1 ≤ s1.now), id ≠ q.2) →
      (t, id) ∈ s1.activeQ.filter (fun p => !(p.1 ≤ s1.now)) := by
    intro t id hm hnd
    refine List.mem_filter.mpr ⟨hm, ?_⟩
    by_cases ht : t ≤ s1.now
    · exact absurd rfl (hnd (t, id) (List.mem_filter.mpr ⟨hm, by simpa using ht⟩))
    · simpa using ht
  refine ⟨fun id pr hg hs => ?_, fun id pr hg hs => ?_, fun p hp => ?_, fun p hp => ?_⟩
  · rw [b1]
    rcases b3 id pr hg with h2 | ⟨hg', _⟩
    · rw [hs] at h2; cases h2
    · exact g1.open0 id pr hg' hs
  · rw [b2]
    rcases b3 id pr hg with h2 | ⟨hg', hnd⟩
    · rw [hs] at h2; cases h2
    · exact acQ _ _ (g1.open1 id pr hg' hs) hnd
  · obtain ⟨hm, hnd⟩ := b4 p hp
    rw [b1, b2]
    obtain ⟨t, ht | ht⟩ := g1.dep p hm
    · exact ⟨t, Or.inl ht⟩
    · exact ⟨t, Or.inr (acQ _ _ ht hnd)⟩
  · obtain ⟨hm, hnd⟩ := b5 p hp
    rw [b2]
    obtain ⟨t, ht⟩ := g1.vote p hm
    exact ⟨t, acQ _ _ ht hnd⟩

theorem govInv_endBlock {s : State} (h : GovInv s) (dt : Nat) : GovInv (endBlock s dt) := by
  unfold endBlock
  have h1 : GovInv (stakingEnd s) := govInv_of_govOf h (stakingEnd_gov s)
  exact govInv_of_govOf (govInv_govEnd h1) rfl

/-! ### the gov scan of the migration sees every deposit and vote -/

/-- if the scan (complete walk, all refusals) lets the pair pass, no deposit and no vote names source or target -/
theorem gov_clear_of_scan (c : Cfg) (hscan : c.govScanAll = true) (g3 : c.gDepositFrom = true) (g4 : c.gDepositTo = true)
    (g5 : c.gVoteDeposit = true) (g6 : c.gVoteFrom = true) (g7 : c.gVoteTo = true)
    {s : State} (h : GovInv s) (frm to : Addr) (hr : govRefuses c s frm to = false) :
    (∀ p ∈ s.deposits, p.1.2 ≠ frm ∧ p.1.2 ≠ to) ∧ (∀ p ∈ s.votes, p.2 ≠ frm ∧ p.2 ≠ to) := by
  unfold govRefuses at hr
  rw [hscan] at hr
  simp only [Bool.true_or, Bool.or_eq_false_iff, List.any_eq_false] at hr
  have hI : ∀ t id, (t, id) ∈ s.inactiveQ → depositCb c s frm to id = false := by
    intro t id hm
    have := hr.1 (t, id) (List.mem_filter.mpr ⟨hm, rfl⟩)
    simpa using this
  have hA : ∀ t id, (t, id) ∈ s.activeQ → voteCb c s frm to id = false := by
    intro t id hm
    have := hr.2 (t, id) (List.mem_filter.mpr ⟨hm, rfl⟩)
    simpa using this
  have depCb : ∀ id a, (a = frm ∨ a = to) → (get s.deposits (id, a)).isSome = true → depositCb c s frm to id = true := by
    intro id a ha hd
    unfold depositCb
    cases hp : get s.props id with
    | none => rfl
    | some pr =>
      rcases ha with rfl | rfl
      · simp [g3, hd]
      · simp [g4, hd]
  refine ⟨fun p hp => ?_, fun p hp => ?_⟩
  · have key : ∀ a, (a = frm ∨ a = to) → p.1.2 ≠ a := by
      intro a ha e
      have hd : (get s.deposits (p.1.1, a)).isSome = true := by
        have := get_isSome_of_mem s.deposits p hp
        rw [← e]; exact this
      have hcb := depCb p.1.1 a ha hd
      obtain ⟨t, ht | ht⟩ := h.dep p hp
      · rw [hI t _ ht] at hcb; cases hcb
      · have hv := hA t _ ht
        unfold voteCb at hv
        rw [g5, hcb] at hv
        simp at hv
    exact ⟨key frm (Or.inl rfl), key to (Or.inr rfl)⟩
  · have key : ∀ a, (a = frm ∨ a = to) → p.2 ≠ a := by
      intro a ha e
      obtain ⟨t, ht⟩ := h.vote p hp
      have hv := hA t _ ht
      have hc : s.votes.contains (p.1, a) = true := by
        rw [← e]; exact List.contains_iff_mem.mpr hp
      unfold voteCb at hv
      rcases ha with rfl | rfl
      · rw [g6, hc] at hv; simp at hv
      · rw [g7, hc] at hv; simp at hv
    exact ⟨key frm (Or.inl rfl), key to (Or.inr rfl)⟩

end FxVerif.Proofs.C14
