import FxVerif.Model.C12Sig
import FxVerif.Proofs.C12
/-!
# C12 round-3 helper lemmas: encoder routes, signed-message pre-images, verifySig, checkOracleSignatures
-/
namespace FxVerif.Model.C12
open FxVerif.Gen.C12 FxVerif.Gen.C12Sig

/-! ## Part A -/

theorem handlerEncoder_table :
    handlerEncoder false "oracleSet" = some (false, findGo goLayouts "oracleSet") ∧
    handlerEncoder false "batch" = some (false, findGo goLayouts "batch") ∧
    handlerEncoder false "bridgeCall" = some (false, findGo goLayouts "bridgeCall") ∧
    handlerEncoder true "oracleSet" = some (true, findGo tronLayouts "oracleSet") ∧
    handlerEncoder true "batch" = some (true, findGo tronLayouts "batch") ∧
    handlerEncoder true "bridgeCall" = some (true, findGo tronLayouts "bridgeCall") := by decide

theorem layouts_fit_chain_style :
    (["oracleSet", "batch", "bridgeCall"].all fun k =>
      (findGo goLayouts k).args.all (fun a => srcOk false a.src) && (findGo tronLayouts k).args.all (fun a => srcOk true a.src)) = true := by
  decide

theorem handlerPreimage_eq (tron : Bool) (kind : String) (hk : kind = "oracleSet" ∨ kind = "batch" ∨ kind = "bridgeCall")
    (o : Obj) (g : Nat) :
    handlerPreimage tron kind o g = if tron then tronPreimage kind o g else goPreimage kind o g := by
  obtain ⟨e1, e2, e3, t1, t2, t3⟩ := handlerEncoder_table
  have hf := layouts_fit_chain_style
  simp only [List.all_cons, List.all_nil, Bool.and_true, Bool.and_eq_true] at hf
  obtain ⟨⟨f1, f1'⟩, ⟨f2, f2'⟩, f3, f3'⟩ := hf
  rcases hk with rfl | rfl | rfl <;> cases tron <;>
    simp only [handlerPreimage, e1, e2, e3, t1, t2, t3, f1, f1', f2, f2', f3, f3', if_true, goPreimage, tronPreimage] <;> rfl

/-! ## Part B -/

theorem prefixOf_eth : prefixOf (sigRuleFor false) = goSignPrefix := by decide
theorem prefixOf_tron : prefixOf (sigRuleFor true) = tronSignPrefix := by decide

theorem goSigPreimage_eth (d : List Nat) :
    goSigPreimage "EthAddressFromSignature" d = some (goSignPrefix ++ d) ∧
    goSigPreimage "NewEthereumSignature" d = some (goSignPrefix ++ d) := by
  constructor <;> simp [goSigPreimage, sigHashes, allSome, flat, constBytes]

theorem goSigPreimage_tron (d : List Nat) :
    goSigPreimage "TronAddressFromSignature" d = some (tronSignPrefix ++ d) ∧
    goSigPreimage "NewTronSignature" d = some (tronSignPrefix ++ d) := by
  constructor <;> simp [goSigPreimage, sigHashes, allSome, flat, constBytes]

theorem packedBytes_eq (V : SolVerifySig) (hV : V ∈ solVerifySigs) (d : List Nat) :
    packedBytes V d = some (goSignPrefix ++ d) := by
  simp only [solVerifySigs, List.mem_cons, List.mem_nil_iff, or_false] at hV
  rcases hV with rfl | rfl | rfl <;> simp [packedBytes, allSome, flat, goSignPrefix]

theorem solVerifySig_eq (V : SolVerifySig) (hV : V ∈ solVerifySigs) (H : List Nat → List Nat)
    (ecr : List Nat → Nat → List Nat → List Nat → Option Nat) (signer : Nat) (d : List Nat) (v : Nat) (r s : List Nat) :
    solVerifySig V H ecr signer d v r s = (solEcrecover ecr (H (goSignPrefix ++ d)) v r s == signer) := by
  have hp := packedBytes_eq V hV d
  simp only [solVerifySigs, List.mem_cons, List.mem_nil_iff, or_false] at hV
  rcases hV with rfl | rfl | rfl <;> simp [solVerifySig, hp]

theorem sigRuleFor_eth_consts : (sigRuleFor false).minLenN = 65 ∧ (sigRuleFor false).vNormN = [27, 28] ∧ (sigRuleFor false).vSubN = 27 := by decide

theorem set64_parts (sig : List Nat) (x : Nat) (hl : sig.length = 65) :
    (sig.set 64 x).length = 65 ∧ (sig.set 64 x).getD 64 0 = x ∧ (sig.set 64 x).take 32 = sig.take 32 ∧
    ((sig.set 64 x).drop 32).take 32 = (sig.drop 32).take 32 := by
  refine ⟨by simp [hl], ?_, ?_, ?_⟩
  · simp [List.getD, hl]
  · rw [List.take_set_of_le (by omega)]
  · rw [List.drop_set]; simp only [show ¬ 64 < 32 from by omega, if_false]; rw [List.take_set_of_le (by omega)]


/-- what `EthAddressFromSignature` + go-ethereum accept, spelled out -/
theorem go_accept_iff (H : List Nat → List Nat) (ecr : List Nat → Nat → List Nat → List Nat → Option Nat)
    (render : Nat → String) (digest sig : List Nat) (ext : String) :
    recoverVia (sigRuleFor false) H (goEc ecr render) digest sig = some ext ↔
      sig.length = 65 ∧ normV (sig.getD 64 0) < 4 ∧
      (ecr (H (goSignPrefix ++ digest)) (normV (sig.getD 64 0)) (sig.take 32) ((sig.drop 32).take 32)).map render = some ext := by
  obtain ⟨c1, c2, c3⟩ := sigRuleFor_eth_consts
  simp only [recoverVia, decodeSig, c1, c2, c3, prefixOf_eth]
  generalize hv0 : sig.getD 64 0 = v
  by_cases hl : sig.length < 65
  · simp only [hl, if_true]
    constructor
    · intro h; cases h
    · intro h; omega
  · simp only [hl, if_false]
    by_cases hv : v = 27 ∨ v = 28
    · have hc : ([27, 28] : List Nat).contains v = true := by rcases hv with h | h <;> subst h <;> decide
      have hn : normV v = v - 27 := by rcases hv with h | h <;> subst h <;> decide
      simp only [hc, if_true, goEc, hn]
      by_cases h65 : sig.length = 65
      · obtain ⟨a, b, c, d⟩ := set64_parts sig (v - 27) h65
        rw [a, b, c, d]
        have : v - 27 < 4 := by rcases hv with h | h <;> omega
        simp [h65]
      · have : (sig.set 64 (v - 27)).length ≠ 65 := by simpa using h65
        simp [h65]
    · have hc : ([27, 28] : List Nat).contains v = false := by
        simp only [not_or] at hv; simp [hv.1, hv.2]
      have hn : normV v = v := by
        simp only [not_or] at hv; simp [normV, hv.1, hv.2]
      simp only [hc, Bool.false_eq_true, if_false, goEc, hn, hv0]
      by_cases h65 : sig.length = 65
      · by_cases h4 : v < 4 <;> simp [h65, h4]
      · simp [h65]


theorem go_accept_implies_verifySig (V : SolVerifySig) (hV : V ∈ solVerifySigs) (H : List Nat → List Nat)
    (ecr : List Nat → Nat → List Nat → List Nat → Option Nat) (render : Nat → String) (parse : String → Nat)
    (hpr : ∀ a, parse (render a) = a) (digest sig : List Nat) (ext : String)
    (h : recoverVia (sigRuleFor false) H (goEc ecr render) digest sig = some ext) :
    sig.length = 65 ∧ normV (sig.getD 64 0) < 4 ∧
    (normV (sig.getD 64 0) < 2 →
      solVerifySig V H ecr (parse ext) digest (normV (sig.getD 64 0) + 27) (sig.take 32) ((sig.drop 32).take 32) = true) := by
  obtain ⟨h1, h2, h3⟩ := (go_accept_iff H ecr render digest sig ext).1 h
  refine ⟨h1, h2, fun h01 => ?_⟩
  rw [solVerifySig_eq V hV]
  generalize normV (sig.getD 64 0) = n at *
  cases hr : ecr (H (goSignPrefix ++ digest)) n (sig.take 32) ((sig.drop 32).take 32) with
  | none => simp [hr] at h3
  | some a =>
    simp only [hr, Option.map_some, Option.some.injEq] at h3
    subst h3
    rcases (show n = 0 ∨ n = 1 by omega) with rfl | rfl <;> simp [solEcrecover, hr, hpr]

theorem verifySig_implies_go_accept (V : SolVerifySig) (hV : V ∈ solVerifySigs) (H : List Nat → List Nat)
    (ecr : List Nat → Nat → List Nat → List Nat → Option Nat) (render : Nat → String)
    (signer : Nat) (hs : signer ≠ 0) (digest : List Nat) (v : Nat) (r s : List Nat) (hr : r.length = 32) (hsl : s.length = 32)
    (h : solVerifySig V H ecr signer digest v r s = true) :
    (v = 27 ∨ v = 28) ∧ recoverVia (sigRuleFor false) H (goEc ecr render) digest (r ++ s ++ [v]) = some (render signer) := by
  rw [solVerifySig_eq V hV] at h
  simp only [solEcrecover, beq_iff_eq] at h
  by_cases hv : (v == 27 || v == 28) = true
  · simp only [hv, if_true] at h
    have hv' : v = 27 ∨ v = 28 := by simpa using hv
    refine ⟨hv', ?_⟩
    rw [go_accept_iff]
    have hl : (r ++ s ++ [v]).length = 65 := by simp [hr, hsl]
    have hg : (r ++ s ++ [v]).getD 64 0 = v := by
      have : (r ++ s ++ [v])[64]? = some v := by
        rw [List.getElem?_append_right (by simp [hr, hsl])]; simp [hr, hsl]
      rw [List.getD_eq_getElem?_getD, this]; rfl
    have ht : (r ++ s ++ [v]).take 32 = r := by
      rw [List.append_assoc, List.take_append_of_le_length (by omega)]; simp [← hr]
    have hd : ((r ++ s ++ [v]).drop 32).take 32 = s := by
      rw [List.append_assoc, List.drop_append_of_le_length (by omega)]
      have : r.drop 32 = [] := by simp [← hr]
      rw [this, List.nil_append, List.take_append_of_le_length (by omega)]; simp [← hsl]
    have hn : normV v = v - 27 := by rcases hv' with h | h <;> subst h <;> decide
    rw [hg, ht, hd, hn]
    refine ⟨hl, by rcases hv' with h | h <;> omega, ?_⟩
    cases he : ecr (H (goSignPrefix ++ digest)) (v - 27) r s with
    | none => simp [he] at h; exact absurd h.symm hs
    | some a => simp [he] at h; simp [h]
  · simp only [hv] at h
    exact absurd h.symm (by simpa using hs)

/-! ## Part C -/

theorem checkSigsLoop_sound (verify : SigSlot → Bool) (thr : Nat) (slots : List SigSlot) (cum c : Nat)
    (h : checkSigsLoop verify thr slots cum = some c) :
    ∃ counted : List SigSlot, counted.Sublist slots ∧ (∀ sl ∈ counted, sl.v ≠ 0 ∧ verify sl = true) ∧
      c = cum + (counted.map (·.power)).sum := by
  induction slots generalizing cum with
  | nil => simp only [checkSigsLoop, Option.some.injEq] at h; exact ⟨[], List.Sublist.refl _, by simp, by simp [h]⟩
  | cons sl rest ih =>
    simp only [checkSigsLoop] at h
    by_cases hv : (sl.v != 0) = true
    · simp only [hv, if_true] at h
      by_cases hver : verify sl = true
      · simp only [hver, if_true] at h
        have hv' : sl.v ≠ 0 := by simpa using hv
        by_cases hb : cum + sl.power > thr
        · simp only [hb, if_true, Option.some.injEq] at h
          exact ⟨[sl], by simp, by simp [hv', hver], by simp [h]⟩
        · simp only [hb, if_false] at h
          obtain ⟨ct, hsub, hall, hc⟩ := ih _ h
          refine ⟨sl :: ct, List.Sublist.cons_cons _ hsub, ?_, ?_⟩
          · intro x hx
            rcases List.mem_cons.1 hx with rfl | hx
            · exact ⟨hv', hver⟩
            · exact hall x hx
          · simp [hc]; omega
      · simp [hver] at h
    · simp only [hv] at h
      obtain ⟨ct, hsub, hall, hc⟩ := ih _ h
      exact ⟨ct, List.Sublist.cons _ hsub, hall, hc⟩

theorem checkSigsLoop_complete (verify : SigSlot → Bool) (thr : Nat) (slots : List SigSlot) (cum : Nat)
    (hall : ∀ sl ∈ slots, sl.v ≠ 0 → verify sl = true) :
    ∃ c, checkSigsLoop verify thr slots cum = some c ∧
      (c > thr ∨ c = cum + ((slots.filter (fun sl => sl.v != 0)).map (·.power)).sum) := by
  induction slots generalizing cum with
  | nil => exact ⟨cum, rfl, Or.inr (by simp)⟩
  | cons sl rest ih =>
    have hrest : ∀ x ∈ rest, x.v ≠ 0 → verify x = true := fun x hx => hall x (by simp [hx])
    simp only [checkSigsLoop]
    by_cases hv : (sl.v != 0) = true
    · have hver := hall sl (by simp) (by simpa using hv)
      simp only [hv, hver, if_true]
      by_cases hb : cum + sl.power > thr
      · exact ⟨_, by simp [hb], Or.inl hb⟩
      · simp only [hb, if_false]
        obtain ⟨c, h1, h2⟩ := ih (cum + sl.power) hrest
        refine ⟨c, h1, ?_⟩
        rcases h2 with h2 | h2
        · exact Or.inl h2
        · right; simp [hv, h2]; omega
    · simp only [hv]
      obtain ⟨c, h1, h2⟩ := ih cum hrest
      refine ⟨c, h1, ?_⟩
      rcases h2 with h2 | h2
      · exact Or.inl h2
      · right; simp [hv, h2]

/-! ## Part D -/

theorem vRun_validateProg (tron : Bool) (recoverBy : String → List Nat → List Nat → Option String) (st : HState)
    (m : ConfirmMsg) (digest : List Nat) :
    vRun tron recoverBy st m digest validateProg {} = validateSpec (recoverBy (validatorOf tron)) st m digest := by
  unfold validateSpec
  cases hs : m.sig with
  | none => cases tron <;> simp [validateProg, vRun, vStep, vCond, vStr, errOfText, condHolds, tronCond, hs]
  | some sig =>
    cases hx : st.byExternal.lookup m.external with
    | none => cases tron <;> simp [validateProg, vRun, vStep, vCond, vStr, errOfText, condHolds, tronCond, hs, hx]
    | some oracle =>
      cases ho : st.oracles.lookup oracle with
      | none => cases tron <;> simp [validateProg, vRun, vStep, vCond, vStr, errOfText, condHolds, tronCond, hs, hx, ho]
      | some r =>
        by_cases h1 : r.external = m.external
        · have e1 : (r.external != m.external) = false := by simp [h1]
          by_cases h2 : r.bridger = m.bridger
          · have e2 : (r.bridger != m.bridger) = false := by simp [h2]
            by_cases h3 : recoverBy (validatorOf tron) digest sig = some r.external
            · cases tron <;> simp_all [validateProg, vRun, vStep, vCond, vStr, errOfText, condHolds, tronCond, validatorOf]
            · cases tron <;> simp_all [validateProg, vRun, vStep, vCond, vStr, errOfText, condHolds, tronCond, validatorOf]
          · have e2 : (r.bridger != m.bridger) = true := by simp [h2]
            cases tron <;> simp [validateProg, vRun, vStep, vCond, vStr, errOfText, condHolds, tronCond, hs, hx, ho, e1, e2, h1, h2]
        · have e1 : (r.external != m.external) = true := by simp [h1]
          cases tron <;> simp [validateProg, vRun, vStep, vCond, vStr, errOfText, condHolds, tronCond, hs, hx, ho, e1, h1]

theorem confirmStepPV_eq_confirmStepP (P : Plan) (tron : Bool) (recoverBy : String → List Nat → List Nat → Option String)
    (st : HState) (m : ConfirmMsg) :
    confirmStepPV P validateProg tron recoverBy st m = confirmStepP P (recoverBy (validatorOf tron)) st m := by
  unfold confirmStepPV confirmStepP
  cases hf : findObject P.kind st m.key P.lookups with
  | none => rfl
  | some p =>
    obtain ⟨fk, digest⟩ := p
    simp only [vRun_validateProg, validateSpec]
    cases m.sig with
    | none => rfl
    | some sig =>
      simp only
      cases st.byExternal.lookup m.external with
      | none => rfl
      | some oracle =>
        simp only
        cases st.oracles.lookup oracle with
        | none => rfl
        | some r =>
          simp only
          by_cases h1 : r.external ≠ m.external
          · simp [h1]
          · by_cases h2 : r.bridger ≠ m.bridger
            · simp [h1, h2]
            · by_cases h3 : recoverBy (validatorOf tron) digest sig ≠ some r.external
              · simp [h1, h2, h3]
              · simp [h1, h2, h3] <;> rfl

end FxVerif.Model.C12
