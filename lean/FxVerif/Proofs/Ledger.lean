import FxVerif.Model.Ledger
/-! helper lemmas about the shared ledger: linear observables along flows, supply = Σ balances -/
namespace FxVerif.Proofs.Ledger
open FxVerif.Model.Ledger

/-- case analysis helper: decide an equation and make both orientations available to `simp` -/
macro "eqcases " h:ident " : " a:term:51 " = " b:term:51 : tactic =>
  `(tactic| (by_cases $h : $a = $b <;> first | subst $h | (have := fun hh : $b = $a => $h hh.symm)))

theorem balObs_sound (a : Asset) (x : Addr) : (balObs a x).Sound := by
  intro p L L' h
  cases p with
  | send a' s d n =>
    simp only [applyPrim] at h
    split at h
    · cases h
    · cases h
      eqcases ha : a = a' <;> eqcases hd : x = d <;> eqcases hs : x = s <;>
        simp_all [balObs, Ledger.setBal, upd] <;> omega
  | mint a' b d n =>
    simp only [applyPrim] at h
    split at h
    · cases h
    · cases h
      eqcases ha : a = a' <;> eqcases hd : x = d <;>
        simp_all [balObs, Ledger.setBal, Ledger.setSupply, upd]
  | burn a' b s n =>
    simp only [applyPrim] at h
    split at h
    · cases h
    · split at h
      · cases h
      · cases h
        eqcases ha : a = a' <;> eqcases hs : x = s <;>
          simp_all [balObs, Ledger.setBal, Ledger.setSupply, upd] <;> omega

theorem supplyObs_sound (a : Asset) : (supplyObs a).Sound := by
  intro p L L' h
  cases p with
  | send a' s d n =>
    simp only [applyPrim] at h
    split at h
    · cases h
    · cases h; simp [supplyObs, Ledger.setBal]
  | mint a' b d n =>
    simp only [applyPrim] at h
    split at h
    · cases h
    · cases h
      eqcases ha : a = a' <;> simp_all [supplyObs, Ledger.setBal, Ledger.setSupply]
  | burn a' b s n =>
    simp only [applyPrim] at h
    split at h
    · cases h
    · split at h
      · cases h
      · cases h
        eqcases ha : a = a' <;> simp_all [supplyObs, Ledger.setBal, Ledger.setSupply] <;> omega

theorem add_sound {o1 o2 : Obs} (h1 : o1.Sound) (h2 : o2.Sound) : (o1.add o2).Sound := by
  intro p L L' h
  simp only [Obs.add, h1 p L L' h, h2 p L L' h]; omega

theorem neg_sound {o : Obs} (h : o.Sound) : o.neg.Sound := by
  intro p L L' hp
  simp only [Obs.neg, h p L L' hp]; omega

theorem zero_sound : Obs.zero.Sound := by intro p L L' _; simp [Obs.zero]

theorem sum_sound {os : List Obs} (h : ∀ o ∈ os, o.Sound) : (Obs.sum os).Sound := by
  induction os with
  | nil => exact zero_sound
  | cons o os ih =>
    exact add_sound (h o (by simp)) (ih (fun o' ho' => h o' (by simp [ho'])))

/-- a sound observable changes along a successful flow by exactly the sum of the primitives' deltas -/
theorem runFlow_obs {o : Obs} (h : o.Sound) (fl : List Prim) (L L' : Ledger) (hr : runFlow fl L = .ok L') :
    o.val L' = o.val L + o.flowDelta fl := by
  induction fl generalizing L with
  | nil => simp [runFlow] at hr; subst hr; simp [Obs.flowDelta]
  | cons p ps ih =>
    simp only [runFlow] at hr
    cases hp : applyPrim p L with
    | error e => simp [hp] at hr
    | ok L1 =>
      simp only [hp] at hr
      rw [ih L1 hr, h p L L1 hp]; simp only [Obs.flowDelta]; omega

/-- primitives never change the owner table -/
theorem applyPrim_owner (p : Prim) (L L' : Ledger) (h : applyPrim p L = .ok L') : L'.owner = L.owner := by
  cases p <;> simp only [applyPrim] at h <;> (repeat' split at h) <;> first | cases h | skip
  all_goals first | rfl | (cases h; rfl)

theorem runFlow_owner (fl : List Prim) (L L' : Ledger) (h : runFlow fl L = .ok L') : L'.owner = L.owner := by
  induction fl generalizing L with
  | nil => simp [runFlow] at h; subst h; rfl
  | cons p ps ih =>
    simp only [runFlow] at h
    cases hp : applyPrim p L with
    | error e => simp [hp] at h
    | ok L1 => simp only [hp] at h; rw [ih L1 h, applyPrim_owner p L L1 hp]

/-! ### supply = Σ balances -/

theorem sumL_upd_notin (f : Addr → Nat) (a : Addr) (v : Nat) (l : List Addr) (h : a ∉ l) :
    sumL (upd f a v) l = sumL f l := by
  induction l with
  | nil => rfl
  | cons b bs ih =>
    simp only [List.mem_cons, not_or] at h
    simp only [sumL, ih h.2, upd]
    have : ¬ b = a := fun e => h.1 e.symm
    simp [this]

theorem sumL_upd_in (f : Addr → Nat) (a : Addr) (v : Nat) (l : List Addr) (hn : l.Nodup) (h : a ∈ l) :
    sumL (upd f a v) l + f a = sumL f l + v := by
  induction l with
  | nil => simp at h
  | cons b bs ih =>
    simp only [List.nodup_cons] at hn
    simp only [sumL]
    by_cases hb : b = a
    · subst hb
      rw [sumL_upd_notin f b v bs hn.1]; simp [upd]; omega
    · have hin : a ∈ bs := by
        simp only [List.mem_cons] at h; rcases h with h | h
        · exact absurd h.symm hb
        · exact h
      have := ih hn.2 hin
      simp only [upd, hb, ↓reduceIte]
      omega

/-- every primitive preserves "nothing outside the universe, supply = Σ balances" of every asset, provided the
accounts it names are in the universe -/
theorem applyPrim_WF (univ : List Addr) (hn : univ.Nodup) (p : Prim) (L L' : Ledger)
    (hp : applyPrim p L = .ok L') (hin : p.addrsIn univ) (a : Asset) (hwf : L.WF univ a) : L'.WF univ a := by
  obtain ⟨hz, hs⟩ := hwf
  cases p with
  | send a' s d n =>
    simp only [applyPrim] at hp
    split at hp
    · cases hp
    · cases hp
      rename_i hlt
      obtain ⟨hsi, hdi⟩ := hin
      by_cases ha : a = a'
      · subst ha
        refine ⟨?_, ?_⟩
        · intro x hx
          have h1 : ¬ x = s := fun e => hx (e ▸ hsi)
          have h2 : ¬ x = d := fun e => hx (e ▸ hdi)
          simp [Ledger.setBal, upd, h1, h2, hz x hx]
        · simp only [Ledger.setBal, ↓reduceIte]
          have e1 := sumL_upd_in (L.bal a) s (L.bal a s - n) univ hn hsi
          have e2 := sumL_upd_in (upd (L.bal a) s (L.bal a s - n)) d
            (upd (L.bal a) s (L.bal a s - n) d + n) univ hn hdi
          rw [hs]; omega
      · refine ⟨?_, ?_⟩
        · intro x hx; simp [Ledger.setBal, ha, hz x hx]
        · simp [Ledger.setBal, ha, hs]
  | mint a' b d n =>
    simp only [applyPrim] at hp
    split at hp
    · cases hp
    · cases hp
      by_cases ha : a = a'
      · subst ha
        refine ⟨?_, ?_⟩
        · intro x hx
          have h2 : ¬ x = d := fun e => hx (e ▸ hin)
          simp [Ledger.setBal, Ledger.setSupply, upd, h2, hz x hx]
        · simp only [Ledger.setBal, Ledger.setSupply, ↓reduceIte]
          have e1 := sumL_upd_in (L.bal a) d (L.bal a d + n) univ hn hin
          rw [hs]; omega
      · refine ⟨?_, ?_⟩
        · intro x hx; simp [Ledger.setBal, Ledger.setSupply, ha, hz x hx]
        · simp [Ledger.setBal, Ledger.setSupply, ha, hs]
  | burn a' b s n =>
    simp only [applyPrim] at hp
    split at hp
    · cases hp
    · split at hp
      · cases hp
      · cases hp
        rename_i hlt
        by_cases ha : a = a'
        · subst ha
          refine ⟨?_, ?_⟩
          · intro x hx
            have h2 : ¬ x = s := fun e => hx (e ▸ hin)
            simp [Ledger.setBal, Ledger.setSupply, upd, h2, hz x hx]
          · simp only [Ledger.setBal, Ledger.setSupply, ↓reduceIte]
            have e1 := sumL_upd_in (L.bal a) s (L.bal a s - n) univ hn hin
            rw [hs]; rw [hs] at hlt; omega
        · refine ⟨?_, ?_⟩
          · intro x hx; simp [Ledger.setBal, Ledger.setSupply, ha, hz x hx]
          · simp [Ledger.setBal, Ledger.setSupply, ha, hs]

theorem runFlow_WF (univ : List Addr) (hn : univ.Nodup) (fl : List Prim) (L L' : Ledger)
    (hr : runFlow fl L = .ok L') (hin : ∀ p ∈ fl, p.addrsIn univ) (a : Asset) (hwf : L.WF univ a) :
    L'.WF univ a := by
  induction fl generalizing L with
  | nil => simp [runFlow] at hr; subst hr; exact hwf
  | cons p ps ih =>
    simp only [runFlow] at hr
    cases hp : applyPrim p L with
    | error e => simp [hp] at hr
    | ok L1 =>
      simp only [hp] at hr
      exact ih L1 hr (fun q hq => hin q (by simp [hq]))
        (applyPrim_WF univ hn p L L1 hp (hin p (by simp)) a hwf)

end FxVerif.Proofs.Ledger
