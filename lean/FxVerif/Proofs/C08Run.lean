import FxVerif.Proofs.C08Books
/-! helper lemmas for C08: the index invariant and the registered pairs along runs of the message server -/
namespace FxVerif.Proofs.C08
open FxVerif.Model.Ledger FxVerif.Model.Flows FxVerif.Model.C08 FxVerif.Proofs.Ledger

/-- the only environment fact a message needs: the contract `RegisterNativeCoin` deploys has a new address -/
def UOp.fresh (s : UState) : UOp → Prop
  | .idx op => IOp.fresh s.idx op
  | _ => True

theorem inv_stepU (s s' : UState) (hi : IdxInv s.idx) (op : UOp) (hf : UOp.fresh s op) (h : stepU s op = .ok s') :
    IdxInv s'.idx := by
  cases op with
  | convertCoin d u r n =>
    simp only [stepU] at h
    split at h; · cases h
    rename_i p' hme
    obtain ⟨id', _, hp'⟩ := pairByDenom_some (mintingEnabled_ok hme)
    split at h
    · cases h; exact inv_removePair _ hi _ _ hp'
    · simp only [UState.withLedger] at h
      split at h
      · cases h; exact hi
      · cases h
  | convertERC20 ct u r n =>
    simp only [stepU] at h
    split at h; · cases h
    rename_i p' hme
    obtain ⟨id', _, hp'⟩ := pairByErc_some (mintingEnabled_ok hme)
    split at h
    · cases h; exact inv_removePair _ hi _ _ hp'
    · simp only [UState.withLedger] at h
      split at h
      · cases h; exact hi
      · cases h
  | convertDenom d u r n tgt =>
    simp only [stepU] at h
    split at h; · cases h
    split at h; · cases h
    split at h
    · split at h <;> cases h
    · simp only [UState.withLedger] at h
      split at h
      · cases h; exact hi
      · cases h
  | idx iop =>
    obtain ⟨i, hstep, rfl⟩ := stepU_idx_ok h
    exact inv_stepIdx _ _ hi iop hf hstep
  | setEnable b =>
    simp only [stepU] at h; cases h; exact hi

theorem dead_stepU (s s' : UState) (op : UOp) (h : stepU s op = .ok s') : s'.dead = s.dead := by
  cases op with
  | convertCoin d u r n =>
    simp only [stepU] at h
    split at h; · cases h
    split at h
    · cases h; rfl
    · simp only [UState.withLedger] at h
      split at h <;> cases h; rfl
  | convertERC20 ct u r n =>
    simp only [stepU] at h
    split at h; · cases h
    split at h
    · cases h; rfl
    · simp only [UState.withLedger] at h
      split at h <;> cases h; rfl
  | convertDenom d u r n tgt =>
    simp only [stepU] at h
    split at h; · cases h
    split at h; · cases h
    split at h
    · split at h <;> cases h
    · simp only [UState.withLedger] at h
      split at h <;> cases h; rfl
  | idx iop => obtain ⟨i, _, rfl⟩ := stepU_idx_ok h; rfl
  | setEnable b => simp only [stepU] at h; cases h; rfl

/-- an index operation never drops or re-keys a registered pair: denomination, contract and ownership stay -/
theorem pair_persists_idx (i i' : Idx) (hi : IdxInv i) (op : IOp) (h : stepIdx i op = .ok i')
    (id : PairId) (p : Pair) (hp : lookup id i.pairs = some p) :
    ∃ p', lookup id i'.pairs = some p' ∧ p'.denom = p.denom ∧ p'.contract = p.contract ∧ p'.external = p.external := by
  obtain ⟨hid, hden, _⟩ := hi.pairs_ok _ _ hp
  have key : ∀ d ct (q : Pair), lookup d i.byDenom = none →
      ∃ p', lookup id (setKV (d, ct) q i.pairs) = some p' ∧ p'.denom = p.denom ∧ p'.contract = p.contract ∧
        p'.external = p.external := by
    intro d ct q hd
    have : id ≠ (d, ct) := by
      intro e; rw [hid] at e
      have : p.denom = d := by simpa using congrArg Prod.fst e
      rw [this, hd] at hden; cases hden
    exact ⟨p, by rw [lookup_setKV_ne _ _ _ _ this]; exact hp, rfl, rfl, rfl⟩
  cases op with
  | registerCoin d ct aliases =>
    simp only [stepIdx] at h
    split at h; · cases h
    rename_i h1
    have hd : lookup d i.byDenom = none := by simpa using h1
    split at h; · cases h
    split at h; · cases h
    split at h
    · split at h; · cases h
      cases h; exact key d ct _ hd
    · cases h; exact key d ct _ hd
  | registerERC20 d ct aliases =>
    simp only [stepIdx] at h
    split at h; · cases h
    split at h; · cases h
    rename_i h1
    have hd : lookup d i.byDenom = none := by simpa using h1
    split at h; · cases h
    split at h; · cases h
    split at h; · cases h
    cases h; exact key d ct _ hd
  | toggle d =>
    simp only [stepIdx] at h
    split at h; · cases h
    rename_i id0 _
    split at h; · cases h
    rename_i p0 hp0
    cases h
    by_cases e : id = id0
    · subst e
      rw [hp] at hp0; cases hp0
      exact ⟨_, lookup_setKV_same _ _ _, rfl, rfl, rfl⟩
    · exact ⟨p, by simp only; rw [lookup_setKV_ne _ _ _ _ e]; exact hp, rfl, rfl, rfl⟩
  | updateAlias d a =>
    simp only [stepIdx] at h
    split at h; · cases h
    split at h; · cases h
    split at h; · cases h
    split at h
    · cases h; exact ⟨p, hp, rfl, rfl, rfl⟩
    · split at h
      · cases h; exact ⟨p, hp, rfl, rfl, rfl⟩
      · cases h

/-- while no contract has self-destructed, a message never drops or re-keys a registered pair -/
theorem pair_persists (s s' : UState) (hi : IdxInv s.idx) (hdead : s.dead = []) (op : UOp) (h : stepU s op = .ok s')
    (id : PairId) (p : Pair) (hp : lookup id s.idx.pairs = some p) :
    ∃ p', lookup id s'.idx.pairs = some p' ∧ p'.denom = p.denom ∧ p'.contract = p.contract ∧ p'.external = p.external := by
  cases op with
  | convertCoin d u r n =>
    simp only [stepU, hdead] at h
    split at h; · cases h
    split at h
    · rename_i hc; simp at hc
    · simp only [UState.withLedger] at h
      split at h <;> cases h
      exact ⟨p, hp, rfl, rfl, rfl⟩
  | convertERC20 ct u r n =>
    simp only [stepU, hdead] at h
    split at h; · cases h
    split at h
    · rename_i hc; simp at hc
    · simp only [UState.withLedger] at h
      split at h <;> cases h
      exact ⟨p, hp, rfl, rfl, rfl⟩
  | convertDenom d u r n tgt =>
    simp only [stepU] at h
    split at h; · cases h
    split at h; · cases h
    split at h
    · split at h <;> cases h
    · simp only [UState.withLedger] at h
      split at h <;> cases h
      exact ⟨p, hp, rfl, rfl, rfl⟩
  | idx iop =>
    obtain ⟨i, hstep, rfl⟩ := stepU_idx_ok h
    exact pair_persists_idx _ _ hi iop hstep id p hp
  | setEnable b =>
    simp only [stepU] at h; cases h; exact ⟨p, hp, rfl, rfl, rfl⟩

/-- every deployment along the run yields a new contract address -/
def FreshRun (s : UState) : List UOp → Prop
  | [] => True
  | op :: ops => UOp.fresh s op ∧ FreshRun (stepUT s op) ops

theorem inv_runU (s : UState) (hi : IdxInv s.idx) (ops : List UOp) (hf : FreshRun s ops) : IdxInv (runU s ops).idx := by
  induction ops generalizing s with
  | nil => exact hi
  | cons op ops ih =>
    simp only [runU, List.foldl_cons]
    refine ih _ ?_ hf.2
    simp only [stepUT]
    cases h : stepU s op with
    | error e => exact hi
    | ok s' => exact inv_stepU s s' hi op hf.1 h

theorem bookM_runU (s : UState) (hi : IdxInv s.idx) (hdead : s.dead = []) (ops : List UOp) (hf : FreshRun s ops)
    (id : PairId) (p : Pair) (hp : lookup id s.idx.pairs = some p) (hext : p.external = false) :
    (bookM p.denom p.contract (decide (p.denom = 0))).val (runU s ops).L =
      (bookM p.denom p.contract (decide (p.denom = 0))).val s.L := by
  induction ops generalizing s p with
  | nil => rfl
  | cons op ops ih =>
    simp only [runU, List.foldl_cons]
    simp only [stepUT]
    cases h : stepU s op with
    | error e =>
      have := ih s hi hdead (by simpa [FreshRun, stepUT, h] using hf.2) p hp hext
      simpa [runU] using this
    | ok s' =>
      obtain ⟨p', hp', e1, e2, e3⟩ := pair_persists s s' hi hdead op h id p hp
      have hstep := bookM_stepU s s' hi id p hp hext op h
      have := ih s' (inv_stepU s s' hi op hf.1 h) ((dead_stepU s s' op h).trans hdead)
        (by simpa [FreshRun, stepUT, h] using hf.2) p' hp' (e3.trans hext)
      simp only [runU] at this
      rw [e1, e2] at this
      rw [this, hstep]

end FxVerif.Proofs.C08
