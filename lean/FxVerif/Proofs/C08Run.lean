import FxVerif.Proofs.C08Books
/-! helper lemmas for C08: the index invariant and the registered pairs along runs of the message server -/
namespace FxVerif.Proofs.C08
open FxVerif.Model.Ledger FxVerif.Model.Flows FxVerif.Model.C08 FxVerif.Proofs.Ledger

/-- the only environment fact a message needs: the contract `RegisterNativeCoin` deploys has a new address -/
def UOp.fresh (s : UState) : UOp → Prop
  | .idx op => IOp.fresh s.idx op
  | _ => True

theorem inv_stepU (s s' : UState) (hi : IdxInv s.idx) (op : UOp) (hf : UOp.fresh s op) (h : stepU s op = .ok s') :
    IdxInv s'.idx := by
  cases op with
  | convertCoin d u r n =>
    obtain ⟨p', hpd, _, hcase⟩ := stepU_convertCoin_ok s s' d u r n h
    obtain ⟨id', _, hp'⟩ := pairByDenom_some hpd
    rcases hcase with ⟨_, rfl⟩ | ⟨_, L', _, rfl⟩
    · exact inv_removePair _ hi _ _ hp'
    · exact hi
  | convertERC20 ct u r n =>
    obtain ⟨p', hpe, _, hcase⟩ := stepU_convertERC20_ok s s' ct u r n h
    obtain ⟨id', _, hp'⟩ := pairByErc_some hpe
    rcases hcase with ⟨_, rfl⟩ | ⟨_, L', _, rfl⟩
    · exact inv_removePair _ hi _ _ hp'
    · exact hi
  | convertDenom d u r n tgt =>
    simp only [stepU] at h
    split at h; · cases h
    split at h; · cases h
    split at h
    · split at h <;> cases h
    · simp only [UState.withLedger] at h
      split at h
      · cases h; exact hi
      · cases h
  | idx iop =>
    obtain ⟨i, hstep, rfl⟩ := stepU_idx_ok h
    exact inv_stepIdx _ _ hi iop hf hstep
  | setEnable b =>
    simp only [stepU] at h; cases h; exact hi

theorem dead_stepU (s s' : UState) (op : UOp) (h : stepU s op = .ok s') : s'.dead = s.dead := by
  cases op with
  | convertCoin d u r n =>
    obtain ⟨_, _, _, hcase⟩ := stepU_convertCoin_ok s s' d u r n h
    rcases hcase with ⟨_, rfl⟩ | ⟨_, L', _, rfl⟩ <;> rfl
  | convertERC20 ct u r n =>
    obtain ⟨_, _, _, hcase⟩ := stepU_convertERC20_ok s s' ct u r n h
    rcases hcase with ⟨_, rfl⟩ | ⟨_, L', _, rfl⟩ <;> rfl
  | convertDenom d u r n tgt =>
    simp only [stepU] at h
    split at h; · cases h
    split at h; · cases h
    split at h
    · split at h <;> cases h
    · simp only [UState.withLedger] at h
      split at h <;> cases h; rfl
  | idx iop => obtain ⟨i, _, rfl⟩ := stepU_idx_ok h; rfl
  | setEnable b => simp only [stepU] at h; cases h; rfl

/-- an index operation never drops or re-keys a registered pair: denomination, contract and ownership stay -/
theorem pair_persists_idx (i i' : Idx) (hi : IdxInv i) (op : IOp) (h : stepIdx i op = .ok i')
    (id : PairId) (p : Pair) (hp : lookup id i.pairs = some p) :
    ∃ p', lookup id i'.pairs = some p' ∧ p'.denom = p.denom ∧ p'.contract = p.contract ∧ p'.external = p.external := by
  obtain ⟨hid, hden, _⟩ := hi.pairs_ok _ _ hp
  have key : ∀ d ct (q : Pair), lookup d i.byDenom = none →
      ∃ p', lookup id (setKV (d, ct) q i.pairs) = some p' ∧ p'.denom = p.denom ∧ p'.contract = p.contract ∧
        p'.external = p.external := by
    intro d ct q hd
    have : id ≠ (d, ct) := by
      intro e; rw [hid] at e
      have : p.denom = d := by simpa using congrArg Prod.fst e
      rw [this, hd] at hden; cases hden
    exact ⟨p, by rw [lookup_setKV_ne _ _ _ _ this]; exact hp, rfl, rfl, rfl⟩
  cases op with
  | registerCoin d ct aliases =>
    simp only [stepIdx] at h
    split at h; · cases h
    rename_i h1
    have hd : lookup d i.byDenom = none := by simpa using h1
    split at h; · cases h
    split at h; · cases h
    split at h
    · split at h; · cases h
      cases h; exact key d ct _ hd
    · cases h; exact key d ct _ hd
  | registerERC20 d ct aliases =>
    simp only [stepIdx] at h
    split at h; · cases h
    split at h; · cases h
    rename_i h1
    have hd : lookup d i.byDenom = none := by simpa using h1
    split at h; · cases h
    split at h; · cases h
    split at h; · cases h
    cases h; exact key d ct _ hd
  | toggle d =>
    simp only [stepIdx] at h
    split at h; · cases h
    rename_i id0 _
    split at h; · cases h
    rename_i p0 hp0
    cases h
    by_cases e : id = id0
    · subst e
      rw [hp] at hp0; cases hp0
      exact ⟨_, lookup_setKV_same _ _ _, rfl, rfl, rfl⟩
    · exact ⟨p, by simp only; rw [lookup_setKV_ne _ _ _ _ e]; exact hp, rfl, rfl, rfl⟩
  | updateAlias d a =>
    simp only [stepIdx] at h
    split at h; · cases h
    split at h; · cases h
    split at h; · cases h
    split at h
    · cases h; exact ⟨p, hp, rfl, rfl, rfl⟩
    · split at h
      · cases h; exact ⟨p, hp, rfl, rfl, rfl⟩
      · cases h

/-- while no contract has self-destructed, a message never drops or re-keys a registered pair -/
theorem pair_persists (s s' : UState) (hi : IdxInv s.idx) (hdead : s.dead = []) (op : UOp) (h : stepU s op = .ok s')
    (id : PairId) (p : Pair) (hp : lookup id s.idx.pairs = some p) :
    ∃ p', lookup id s'.idx.pairs = some p' ∧ p'.denom = p.denom ∧ p'.contract = p.contract ∧ p'.external = p.external := by
  cases op with
  | convertCoin d u r n =>
    obtain ⟨_, _, _, hcase⟩ := stepU_convertCoin_ok s s' d u r n h
    rcases hcase with ⟨hd, _⟩ | ⟨_, L', _, rfl⟩
    · simp [hdead] at hd
    · exact ⟨p, hp, rfl, rfl, rfl⟩
  | convertERC20 ct u r n =>
    obtain ⟨_, _, _, hcase⟩ := stepU_convertERC20_ok s s' ct u r n h
    rcases hcase with ⟨hd, _⟩ | ⟨_, L', _, rfl⟩
    · simp [hdead] at hd
    · exact ⟨p, hp, rfl, rfl, rfl⟩
  | convertDenom d u r n tgt =>
    simp only [stepU] at h
    split at h; · cases h
    split at h; · cases h
    split at h
    · split at h <;> cases h
    · simp only [UState.withLedger] at h
      split at h <;> cases h
      exact ⟨p, hp, rfl, rfl, rfl⟩
  | idx iop =>
    obtain ⟨i, hstep, rfl⟩ := stepU_idx_ok h
    exact pair_persists_idx _ _ hi iop hstep id p hp
  | setEnable b =>
    simp only [stepU] at h; cases h; exact ⟨p, hp, rfl, rfl, rfl⟩

/-- every deployment along the run yields a new contract address -/
def FreshRun (s : UState) : List UOp → Prop
  | [] => True
  | op :: ops => UOp.fresh s op ∧ FreshRun (stepUT s op) ops

theorem inv_runU (s : UState) (hi : IdxInv s.idx) (ops : List UOp) (hf : FreshRun s ops) : IdxInv (runU s ops).idx := by
  induction ops generalizing s with
  | nil => exact hi
  | cons op ops ih =>
    simp only [runU, List.foldl_cons]
    refine ih _ ?_ hf.2
    simp only [stepUT]
    cases h : stepU s op with
    | error e => exact hi
    | ok s' => exact inv_stepU s s' hi op hf.1 h

theorem bookM_runU (s : UState) (hi : IdxInv s.idx) (hdead : s.dead = []) (ops : List UOp) (hf : FreshRun s ops)
    (id : PairId) (p : Pair) (hp : lookup id s.idx.pairs = some p) (hext : p.external = false)
    (hnd : ∀ op ∈ ops, donationM [] p.denom p.contract op = 0) :
    (bookM p.denom p.contract (decide (p.denom = 0))).val (runU s ops).L =
      (bookM p.denom p.contract (decide (p.denom = 0))).val s.L := by
  induction ops generalizing s p with
  | nil => rfl
  | cons op ops ih =>
    simp only [runU, List.foldl_cons]
    simp only [stepUT]
    cases h : stepU s op with
    | error e =>
      have := ih s hi hdead (by simpa [FreshRun, stepUT, h] using hf.2) p hp hext (fun o ho => hnd o (by simp [ho]))
      simpa [runU] using this
    | ok s' =>
      obtain ⟨p', hp', e1, e2, e3⟩ := pair_persists s s' hi hdead op h id p hp
      have hstep := bookM_stepU s s' hi id p hp hext op h
      rw [hdead, hnd op (by simp)] at hstep
      have := ih s' (inv_stepU s s' hi op hf.1 h) ((dead_stepU s s' op h).trans hdead)
        (by simpa [FreshRun, stepUT, h] using hf.2) p' hp' (e3.trans hext)
        (fun o ho => by rw [e1, e2]; exact hnd o (by simp [ho]))
      simp only [runU] at this
      rw [e1, e2] at this
      rw [this, hstep]; omega

/-- donations only ever increase the book: along any run, escrow − supply of a module-owned pair never decreases -/
theorem bookM_runU_mono (s : UState) (hi : IdxInv s.idx) (hdead : s.dead = []) (ops : List UOp) (hf : FreshRun s ops)
    (id : PairId) (p : Pair) (hp : lookup id s.idx.pairs = some p) (hext : p.external = false) :
    (bookM p.denom p.contract (decide (p.denom = 0))).val s.L ≤
      (bookM p.denom p.contract (decide (p.denom = 0))).val (runU s ops).L := by
  induction ops generalizing s p with
  | nil => exact Int.le_refl _
  | cons op ops ih =>
    simp only [runU, List.foldl_cons]
    simp only [stepUT]
    cases h : stepU s op with
    | error e =>
      have := ih s hi hdead (by simpa [FreshRun, stepUT, h] using hf.2) p hp hext
      simpa [runU] using this
    | ok s' =>
      obtain ⟨p', hp', e1, e2, e3⟩ := pair_persists s s' hi hdead op h id p hp
      have hstep := bookM_stepU s s' hi id p hp hext op h
      have hdon : 0 ≤ donationM s.dead p.denom p.contract op := by
        cases op <;> simp only [donationM] <;> (try split) <;> omega
      have := ih s' (inv_stepU s s' hi op hf.1 h) ((dead_stepU s s' op h).trans hdead)
        (by simpa [FreshRun, stepUT, h] using hf.2) p' hp' (e3.trans hext)
      simp only [runU] at this
      rw [e1, e2] at this
      show _ ≤ (bookM p.denom p.contract (decide (p.denom = 0))).val (List.foldl stepUT s' ops).L
      omega

end FxVerif.Proofs.C08
