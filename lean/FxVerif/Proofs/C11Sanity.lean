import FxVerif.Proofs.C11Pool
/-!
# C11 — exactly when the SDK's stake sanity check of `CalculateDelegationRewards` fires (core Lean only)

`stakeAfter` is the stake the slash-event loop of `CalculateDelegationRewards` recomputes from the delegator's starting
stake (one truncating multiplication by `1 − fraction` per slash event of a later period); it does not depend on any
reward ratio.  `VS.sanityFires` compares it with the delegator's current stake exactly as the SDK does (tolerance
3·10⁻¹⁸).  Under the bookkeeping invariant this predicate is *equivalent* to the failure of a reward withdrawal.
-/
namespace FxVerif.Model.C11

/-- the stake component of `VS.slashLoop` -/
def stakeAfter : List SlashEv → Nat → Nat → Nat
  | [], _, st => st
  | e :: es, sp, st => if sp < e.period then stakeAfter es e.period (dMulTrunc st (ONE - e.fraction)) else stakeAfter es sp st

/-- the slash events `CalculateDelegationRewards` iterates over for a starting info at block height `h` -/
def VS.window (v : VS) (si : SInfo) (h : Nat) : List SlashEv :=
  if si.height < h then v.slashes.filter (fun e => si.height ≤ e.height && e.height ≤ h) else []

/-- "calculated final stake for delegator … greater than current stake": the recomputed stake exceeds the token worth of
the delegator's shares by more than 3·10⁻¹⁸ (and the delegation was not (re)initialised in this very block) -/
def VS.sanityFires (v : VS) (h d : Nat) : Bool :=
  match v.sinfo d, v.del d with
  | some si, some sh => si.height != h && decide (v.tokensFromShares sh + 3 < stakeAfter (v.window si h) si.period si.stake)
  | _, _ => false

end FxVerif.Model.C11

namespace FxVerif.Proofs.C11
open FxVerif.Model.C11 FxVerif.Gen.C11

theorem slashLoop_stake (v : VS) : ∀ (evs : List SlashEv) (rew sp st : Nat) (r : Nat × Nat × Nat),
    v.slashLoop evs rew sp st = .ok r → r.2.2 = stakeAfter evs sp st := by
  intro evs
  induction evs with
  | nil => intro rew sp st r h; cases h; rfl
  | cons e es ih =>
    intro rew sp st r h
    unfold VS.slashLoop at h
    unfold stakeAfter
    by_cases hlt : sp < e.period
    · rw [if_pos hlt] at h
      rw [if_pos hlt]
      cases hb : v.between sp e.period st with
      | error x => rw [hb] at h; cases h
      | ok q => rw [hb] at h; exact ih _ _ _ _ h
    · rw [if_neg hlt] at h
      rw [if_neg hlt]
      exact ih _ _ _ _ h

/-- `CalculateDelegationRewards` fails with the stake sanity error exactly when the recomputed stake is too large -/
theorem calcRewards_sanity {n : Nat} {v : VS} (hi : RI n v) {h d sh ending : Nat} {si : SInfo} (hs : v.sinfo d = some si)
    (he : ending + 1 = v.period) :
    v.calcRewards h d sh ending = .error .stakeSanity ↔
      (si.height ≠ h ∧ v.tokensFromShares sh + 3 < stakeAfter (v.window si h) si.period si.stake) := by
  have hend : v.refs ending ≠ 0 := by
    have := hi.refs_cur_pos
    have e : v.period - 1 = ending := by omega
    rw [e] at this; exact this
  unfold VS.calcRewards
  rw [hs]
  dsimp only
  by_cases hh : si.height = h
  · rw [if_pos hh]
    constructor
    · intro hc; cases hc
    · intro hc; exact absurd hh hc.1
  · rw [if_neg hh]
    have hsp : si.period ≤ ending := by have := hi.sper d si hs; omega
    obtain ⟨r, hr, hrB⟩ := slashLoop_total (v := v) hi.mono (B := ending) (v.window si h) 0 si.period si.stake
      (by
        intro e hm
        have hmem : e ∈ v.slashes := by
          unfold VS.window at hm
          split at hm
          · exact (List.mem_filter.mp hm).1
          · cases hm
        have := hi.eper e hmem
        exact ⟨hi.refs_slash_pos hmem, by omega⟩)
      hsp
    have hst := slashLoop_stake v _ _ _ _ _ hr
    obtain ⟨rew, sp, stake⟩ := r
    have hr' : v.slashLoop (if si.height < h then v.slashes.filter (fun e => si.height ≤ e.height && e.height ≤ h) else []) 0
        si.period si.stake = .ok (rew, sp, stake) := hr
    rw [hr']
    dsimp only at hrB hst ⊢
    by_cases hsan : v.tokensFromShares sh + 3 < stake
    · rw [if_pos hsan]
      constructor
      · intro _; exact ⟨hh, by rw [← hst]; exact hsan⟩
      · intro _; rfl
    · rw [if_neg hsan, between_ok hrB (hi.mono sp ending hrB hend)]
      constructor
      · intro hc; cases hc
      · intro hc; exact absurd (by rw [hst]; exact hc.2) hsan

theorem decRef_cases (v : VS) (p : Nat) : v.decRef p = .error .refUnderflow ∨ ∃ v', v.decRef p = .ok v' := by
  unfold VS.decRef
  split
  · exact Or.inl rfl
  · exact Or.inr ⟨_, rfl⟩

theorem tail_ne_sanity (v2 : VS) (p d c : Nat) :
    (match v2.decRef p with
      | .error x => (.error x : Except Err (VS × Nat))
      | .ok v3 => .ok ({ v3 with sinfo := setAt v3.sinfo d none }, c)) ≠ .error .stakeSanity := by
  rcases decRef_cases v2 p with hE | ⟨v3, h3⟩
  · rw [hE]; simp
  · rw [h3]; simp

/-- `withdrawDelegationRewards` fails with the stake sanity error exactly when `sanityFires` -/
theorem withdrawRewards_sanity {n : Nat} {v : VS} (hi : RI n v) {h d sh : Nat} {si : SInfo}
    (hdel : v.del d = some sh) (hs : v.sinfo d = some si) :
    v.withdrawRewards h d = .error .stakeSanity ↔ v.sanityFires h d = true := by
  have hC : v.sanityFires h d = true ↔
      (si.height ≠ h ∧ v.tokensFromShares sh + 3 < stakeAfter (v.window si h) si.period si.stake) := by
    unfold VS.sanityFires
    rw [hs, hdel]
    simp
  rw [hC]
  obtain ⟨v1, h1, i1, f1, p1, s1, e1, sf1⟩ := incPeriod_total hi v.tokens
  have hs1 : v1.sinfo d = some si := by rw [s1]; exact hs
  have hw1 : v1.window si h = v.window si h := by unfold VS.window; rw [e1]
  have ht1 : v1.tokensFromShares sh = v.tokensFromShares sh := by
    simp only [VS.tokensFromShares, sf1.2.1, sf1.2.2]
  have key := calcRewards_sanity i1 (h := h) (sh := sh) hs1 (ending := v.period) (by omega)
  rw [hw1, ht1] at key
  unfold VS.withdrawRewards
  rw [hdel, hs]
  dsimp only
  rw [h1]
  dsimp only
  rcases calcRewards_total i1 (h := h) (sh := sh) hs1 (ending := v.period) (by omega) with hE | ⟨raw, hR⟩
  · rw [hE]
    constructor
    · intro _; exact key.mp hE
    · intro _; rfl
  · rw [hR]
    dsimp only
    constructor
    · intro hc
      exact absurd hc (tail_ne_sanity _ _ _ _)
    · intro hc
      have := key.mpr hc
      rw [hR] at this; cases this

theorem initDelegation_ne_sanity (v : VS) (h d : Nat) : v.initDelegation h d ≠ .error .stakeSanity := by
  unfold VS.initDelegation VS.incRef
  split
  · rename_i x hx
    split at hx
    · cases hx; simp
    · cases hx
  · split <;> simp

theorem withdrawMsg_sanity_imp {v : VS} {h d : Nat} (hw : v.withdrawMsg h d = .error .stakeSanity) :
    v.withdrawRewards h d = .error .stakeSanity := by
  unfold VS.withdrawMsg at hw
  cases hr : v.withdrawRewards h d with
  | error x => rw [hr] at hw; cases hw; rfl
  | ok r =>
    rw [hr] at hw
    obtain ⟨v1, c⟩ := r
    dsimp only at hw
    cases hi : v1.initDelegation h d with
    | error x =>
      rw [hi] at hw
      cases hw
      exact absurd hi (initDelegation_ne_sanity _ _ _)
    | ok v2 => rw [hi] at hw; cases hw

theorem withdrawMsg_sanity_of {v : VS} {h d : Nat} (hw : v.withdrawRewards h d = .error .stakeSanity) :
    v.withdrawMsg h d = .error .stakeSanity := by
  unfold VS.withdrawMsg
  rw [hw]

theorem unbond_sanity_of {v : VS} {h d sh shares : Nat} (hdel : v.del d = some sh)
    (hw : v.withdrawRewards h d = .error .stakeSanity) : v.unbond h d shares = .error .stakeSanity := by
  unfold VS.unbond
  rw [hdel]
  dsimp only
  rw [hw]
  rfl

theorem unbond_sanity_imp {v : VS} {h d sh shares : Nat} (hdel : v.del d = some sh)
    (hu : v.unbond h d shares = .error .stakeSanity) : v.withdrawRewards h d = .error .stakeSanity := by
  unfold VS.unbond at hu
  rw [hdel] at hu
  dsimp only at hu
  cases hr : v.withdrawRewards h d with
  | error x =>
    rw [hr] at hu
    simp only [bind, Except.bind] at hu
    cases hu
    rfl
  | ok r =>
    rw [hr] at hu
    simp only [bind, Except.bind] at hu
    split at hu
    · cases hu
    · cases hp : r.1.unbondPost h d (sh - shares) with
      | error e =>
        rw [hp] at hu
        dsimp only at hu
        cases hu
        unfold VS.unbondPost at hp
        split at hp
        · cases hp
        · exact absurd hp (initDelegation_ne_sanity _ _ _)
      | ok v2 =>
        rw [hp] at hu
        dsimp only at hu
        cases hq : v2.removeTokens shares with
        | error e =>
          rw [hq] at hu
          dsimp only at hu
          cases hu
          unfold VS.removeTokens at hq
          dsimp only at hq
          generalize (if v2.shares - shares = 0 then v2.tokens else v2.tokensFromShares shares / ONE) = issued at hq
          split at hq <;> cases hq
        | ok q =>
          rw [hq] at hu
          cases hu

end FxVerif.Proofs.C11
