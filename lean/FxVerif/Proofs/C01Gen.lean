import FxVerif.Proofs.C01
import FxVerif.Model.C01Gen
/-!
helper lemmas for histories with genesis export / import round trips (`Model/C01Gen.lean`)
-/
namespace FxVerif.Proofs.C01
open FxVerif.Gen.C01 FxVerif.Model.C01

/-! ## the loop over `state.Oracles` touches only the registry and its two indexes -/

theorem loadOracles_frame (r b e : Bool) (l : List (Nat × Oracle)) (s : State) :
    let s' := l.foldl (loadOracle r b e) s
    s'.params = s.params ∧ s'.lastObserved = s.lastObserved ∧ s'.proposal = s.proposal ∧ s'.atts = s.atts ∧
    s'.lastNonce = s.lastNonce ∧ s'.pending = s.pending ∧ s'.lastTotalPower = s.lastTotalPower ∧
    s'.observedLog = s.observedLog ∧ s'.executedLog = s.executedLog ∧ s'.retired = s.retired := by
  induction l generalizing s with
  | nil => simp
  | cons p t ih =>
    have := ih (loadOracle r b e s p)
    simp only [List.foldl_cons]
    simp only [loadOracle] at this ⊢
    exact this

/-- the store right after the loop over `state.Oracles` when it runs from the scalars of the genesis -/
def loaded (g : Genesis) : State :=
  g.oracles.foldl (loadOracle true true true) { params := g.params, lastObserved := g.lastObserved, proposal := g.proposal }

/-- `InitGenesis` in the order of the source, evaluated: scalars, the oracle loop, THEN the recorded total, the attestations,
and the per-oracle last nonces reconstructed with the imported last observed nonce as the fallback.  This lemma is where the
regenerated statement list enters the proofs; it stops holding when the order changes. -/
theorem import_shape (g : Genesis) :
    importGenesis g =
      { refresh (loaded g) with
        atts := g.atts.foldl setAtt []
        lastNonce := g.atts.foldl (rebuildAtt g.lastObserved) [] } := by
  have hf := loadOracles_frame true true true g.oracles { params := g.params, lastObserved := g.lastObserved, proposal := g.proposal }
  simp only [] at hf
  obtain ⟨_, h2, _, h4, h5, _⟩ := hf
  simp only [importGenesis, importWith, genesisImport, List.foldl, applyGen, refresh, loaded]
  simp only [h2, h4, h5]

theorem import_total (g : Genesis) : (importGenesis g).lastTotalPower = onlinePower (importGenesis g).oracles := by
  rw [import_shape]; rfl

theorem import_fields (g : Genesis) :
    (importGenesis g).lastObserved = g.lastObserved ∧ (importGenesis g).pending = [] ∧
    (importGenesis g).atts = g.atts.foldl setAtt [] ∧
    (importGenesis g).lastNonce = g.atts.foldl (rebuildAtt g.lastObserved) [] ∧
    (importGenesis g).params = g.params ∧ (importGenesis g).proposal = g.proposal := by
  have hf := loadOracles_frame true true true g.oracles { params := g.params, lastObserved := g.lastObserved, proposal := g.proposal }
  simp only [] at hf
  obtain ⟨h1, h2, h3, _, _, h6, _⟩ := hf
  rw [import_shape]
  exact ⟨h2, h6, rfl, rfl, h1, h3⟩

theorem mem_foldl_setAtt {l acc : List Att} {x : Att} (h : x ∈ l.foldl setAtt acc) : x ∈ acc ∨ x ∈ l := by
  induction l generalizing acc with
  | nil => exact Or.inl h
  | cons a t ih =>
    rcases ih h with h1 | h1
    · rcases mem_setAtt h1 with h2 | h2
      · exact Or.inr (by rw [h2]; exact List.mem_cons_self)
      · exact Or.inl h2
    · exact Or.inr (List.mem_cons_of_mem _ h1)

/-! ## what a round trip keeps -/

theorem roundTrip_fields (s : State) :
    (roundTrip s).lastObserved = s.lastObserved ∧ (roundTrip s).pending = [] ∧
    (∀ a ∈ (roundTrip s).atts, a ∈ s.atts) ∧
    (roundTrip s).lastNonce = s.atts.foldl (rebuildAtt s.lastObserved) [] ∧
    (roundTrip s).observedLog = s.observedLog ∧ (roundTrip s).executedLog = s.executedLog ∧
    (roundTrip s).retired = s.retired ∧
    (roundTrip s).lastTotalPower = onlinePower (roundTrip s).oracles := by
  have he1 : (exportGenesis s).lastObserved = s.lastObserved := by simp [exportGenesis, exportHasLastObserved]
  have he2 : (exportGenesis s).atts = s.atts := by simp [exportGenesis, exportHasAtts]
  obtain ⟨h1, h2, h3, h4, _, _⟩ := import_fields (exportGenesis s)
  have ht := import_total (exportGenesis s)
  rw [he1] at h1
  rw [he2] at h3
  rw [he1, he2] at h4
  refine ⟨h1, h2, ?_, ?_, rfl, rfl, rfl, ht⟩
  · intro a ha
    have : a ∈ (importGenesis (exportGenesis s)).atts := ha
    rw [h3] at this
    rcases mem_foldl_setAtt this with h | h
    · cases h
    · exact h
  · exact h4

theorem totalOk_roundTrip (s : State) : TotalOk (roundTrip s) := by
  unfold TotalOk; rw [(roundTrip_fields s).2.2.2.2.2.2.2]; exact Nat.le_refl _

theorem inv_roundTrip (s : State) (hI : Inv s) : Inv (roundTrip s) := by
  obtain ⟨h1, h2, h3, _, h5, h6, _, _⟩ := roundTrip_fields s
  refine ⟨(by rw [h5, h1]; exact hI.logC), ?_, (by rw [h2]; intro n hn; cases hn), (by rw [h6, h1]; exact hI.execR),
    (by rw [h6]; exact hI.execN), (by rw [h2]; intro n hn; cases hn)⟩
  intro a ha hob
  rw [h5]; exact hI.obsIn a (h3 a ha) hob

theorem totalOk_gstep (s : State) (op : GOp) (hT : TotalOk s) : TotalOk (gstep s op).1 := by
  cases op with
  | op o => exact totalOk_step s o hT
  | genesis => exact totalOk_roundTrip s

theorem totalOk_grun (s : State) (ops : List GOp) (hT : TotalOk s) : TotalOk (grun s ops) := by
  induction ops generalizing s with
  | nil => exact hT
  | cons op r ih => exact ih _ (totalOk_gstep s op hT)

theorem inv_gstep (s : State) (op : GOp) (hI : Inv s) : Inv (gstep s op).1 := by
  cases op with
  | op o => exact inv_step s o hI
  | genesis => exact inv_roundTrip s hI

theorem inv_grun (s : State) (ops : List GOp) (hI : Inv s) : Inv (grun s ops) := by
  induction ops generalizing s with
  | nil => exact hI
  | cons op r ih => exact ih _ (inv_gstep s op hI)

/-! ## the reconstructed per-oracle last nonces cover every imported vote -/

theorem effLast_eq (s : State) (o : Nat) : effLast s o = effL s.lastObserved s.lastNonce o := rfl

theorem effL_mono_lo {lo lo' : Nat} (h : lo ≤ lo') (ln : Map Nat) (o : Nat) : effL lo ln o ≤ effL lo' ln o := by
  unfold effL; split
  · exact Nat.le_refl _
  · omega

theorem effL_rebuildVote_mono (lo n : Nat) (m : Map Nat) (o o' : Nat) : effL lo m o' ≤ effL lo (rebuildVote lo n m o) o' := by
  unfold rebuildVote
  split
  · rename_i hlt
    by_cases h : o = o'
    · subst h
      have : effL lo (m.set o n) o = n := by simp [effL, get_set_self]
      rw [this]; omega
    · have : effL lo (m.set o n) o' = effL lo m o' := by simp [effL, get_set_ne _ _ _ _ h]
      rw [this]; exact Nat.le_refl _
  · exact Nat.le_refl _

theorem effL_rebuildVote_self (lo n : Nat) (m : Map Nat) (o : Nat) : n ≤ effL lo (rebuildVote lo n m o) o := by
  unfold rebuildVote
  split
  · simp [effL, get_set_self]
  · omega

theorem effL_votes_mono (lo n : Nat) (vs : List Nat) (m : Map Nat) (o' : Nat) :
    effL lo m o' ≤ effL lo (vs.foldl (rebuildVote lo n) m) o' := by
  induction vs generalizing m with
  | nil => exact Nat.le_refl _
  | cons v t ih => exact Nat.le_trans (effL_rebuildVote_mono lo n m v o') (ih _)

theorem effL_votes_cover (lo n : Nat) (vs : List Nat) (m : Map Nat) (o : Nat) (ho : o ∈ vs) :
    n ≤ effL lo (vs.foldl (rebuildVote lo n) m) o := by
  induction vs generalizing m with
  | nil => cases ho
  | cons v t ih =>
    rcases List.mem_cons.mp ho with h | h
    · subst h
      exact Nat.le_trans (effL_rebuildVote_self lo n m o) (effL_votes_mono lo n t _ o)
    · exact ih _ h

theorem effL_atts_mono (lo : Nat) (l : List Att) (m : Map Nat) (o' : Nat) :
    effL lo m o' ≤ effL lo (l.foldl (rebuildAtt lo) m) o' := by
  induction l generalizing m with
  | nil => exact Nat.le_refl _
  | cons a t ih => exact Nat.le_trans (effL_votes_mono lo a.nonce a.votes m o') (ih _)

/-- after the reconstruction every vote of every imported attestation sits at a nonce not above the voter's effective last
nonce (stored value, or the fallback `lastObserved - 1` when no key was written) -/
theorem effL_atts_cover (lo : Nat) (l : List Att) (m : Map Nat) (a : Att) (ha : a ∈ l) (o : Nat) (ho : o ∈ a.votes) :
    a.nonce ≤ effL lo (l.foldl (rebuildAtt lo) m) o := by
  induction l generalizing m with
  | nil => cases ha
  | cons b t ih =>
    rcases List.mem_cons.mp ha with h | h
    · subst h
      exact Nat.le_trans (effL_votes_cover lo a.nonce a.votes m o ho) (effL_atts_mono lo t _ o)
    · exact ih _ h

/-! ## an oracle votes at most once per nonce — invariant that survives the reconstruction -/

/-- every vote sits at a nonce not above the voter's EFFECTIVE last nonce -/
def V1' (lo : Nat) (atts : List Att) (ln : Map Nat) : Prop := ∀ a ∈ atts, ∀ o ∈ a.votes, a.nonce ≤ effL lo ln o

structure WInv (s : State) : Prop where
  w1 : V1' s.lastObserved s.atts s.lastNonce
  w2 : V2 s.atts

theorem winv_init (p : Params) : WInv (init p) := by
  refine ⟨?_, ⟨?_, ?_⟩⟩ <;> (intro a ha; simp [init] at ha)

theorem attest_lo_ge (s : State) (o n h : Nat) (kind : Kind) : s.lastObserved ≤ (attest s o n h kind).lastObserved := by
  unfold attest
  simp only []
  split
  · rename_i hc
    cases ht : tally s.oracles (required s.lastTotalPower) (voteAtt s o n h).votes 0
    · rw [tryAttest_false _ _ _ (by simpa using ht)]; exact Nat.le_refl _
    · obtain ⟨h1, _⟩ := tryAttest_true { s with atts := setAtt s.atts (voteAtt s o n h) } (voteAtt s o n h) kind (by simpa using ht)
      simp [tallyCond, tallyRequiresNextNonce] at hc
      show s.lastObserved ≤ (tryAttest { s with atts := setAtt s.atts (voteAtt s o n h) } (voteAtt s o n h) kind).lastObserved
      rw [h1, (voteAtt_key s o n h).1]; omega
  · exact Nat.le_refl _

theorem votes_attest' (s : State) (o n h : Nat) (kind : Kind) (h1 : V1' s.lastObserved s.atts s.lastNonce) (h2 : V2 s.atts)
    (hn : n = effLast s o + 1) :
    V1' (attest s o n h kind).lastObserved (attest s o n h kind).atts (attest s o n h kind).lastNonce ∧
    V2 (attest s o n h kind).atts := by
  have hk := voteAtt_key s o n h
  obtain ⟨vs0, hvs, hvs0⟩ := voteAtt_votes s o n h
  have hA : ∀ a ∈ s.atts, o ∈ a.votes → a.nonce < n := by
    intro a ha ho
    have := h1 a ha o ho
    rw [effLast_eq] at hn; omega
  have hvs0' : ∀ o' ∈ vs0, ∃ a0 ∈ s.atts, a0.nonce = n ∧ a0.hash = h ∧ o' ∈ a0.votes := by
    intro o' ho'
    rcases hvs0 with ⟨a0, ha0, hn0, hh0, hv0⟩ | hnil
    · exact ⟨a0, ha0, hn0, hh0, hv0 ▸ ho'⟩
    · subst hnil; simp at ho'
  have ho_not : o ∉ vs0 := by
    intro hc
    obtain ⟨a0, ha0, hn0, _, hoa⟩ := hvs0' o hc
    have := hA a0 ha0 hoa; omega
  have hlo := attest_lo_ge s o n h kind
  have hV1 : V1' (attest s o n h kind).lastObserved (setAtt s.atts (voteAtt s o n h)) (s.lastNonce.set o n) := by
    intro a ha o' ho'
    by_cases heq : o' = o
    · subst heq
      have : effL (attest s o' n h kind).lastObserved (s.lastNonce.set o' n) o' = n := by simp [effL, get_set_self]
      rw [this]
      rcases mem_setAtt ha with h3 | h3
      · rw [h3, hk.1]; exact Nat.le_refl _
      · exact Nat.le_of_lt (hA a h3 ho')
    · have e : effL (attest s o n h kind).lastObserved (s.lastNonce.set o n) o' = effL (attest s o n h kind).lastObserved s.lastNonce o' := by
        simp [effL, get_set_ne _ _ _ _ (Ne.symm heq)]
      rw [e]
      refine Nat.le_trans ?_ (effL_mono_lo hlo _ _)
      rcases mem_setAtt ha with h3 | h3
      · rw [h3, hvs] at ho'
        rcases List.mem_append.mp ho' with h4 | h4
        · obtain ⟨a0, ha0, hn0, _, hoa⟩ := hvs0' o' h4
          have := h1 a0 ha0 o' hoa
          rw [h3, hk.1, ← hn0]; exact this
        · simp at h4; exact absurd h4 heq
      · exact h1 a h3 o' ho'
  have hV2 : V2 (setAtt s.atts (voteAtt s o n h)) := by
    refine ⟨?_, ?_⟩
    · intro a ha
      rcases mem_setAtt ha with h3 | h3
      · rw [h3, hvs, List.nodup_append]
        refine ⟨?_, by simp, ?_⟩
        · rcases hvs0 with ⟨a0, ha0, _, _, hv0⟩ | hnil
          · rw [← hv0]; exact h2.1 a0 ha0
          · subst hnil; simp
        · intro x hx y hy
          simp at hy; subst hy
          intro hxy; subst hxy; exact ho_not hx
      · exact h2.1 a h3
    · have key : ∀ b ∈ s.atts, ∀ o', b.nonce = n → o' ∈ (voteAtt s o n h).votes → o' ∈ b.votes → b.hash = h := by
        intro b hb o' hbn hov hob
        rw [hvs] at hov
        rcases List.mem_append.mp hov with h4 | h4
        · obtain ⟨a0, ha0, hn0, hh0, hoa⟩ := hvs0' o' h4
          have := h2.2 a0 ha0 b hb o' (by rw [hn0, hbn]) hoa hob
          rw [← this, hh0]
        · simp at h4; subst h4
          have := hA b hb hob; omega
      intro a ha b hb o' hnab hoa hob
      rcases mem_setAtt ha with h3 | h3 <;> rcases mem_setAtt hb with h4 | h4
      · rw [h3, h4]
      · rw [h3] at hnab hoa ⊢
        rw [hk.2]
        exact (key b h4 o' (by rw [← hnab, hk.1]) hoa hob).symm
      · rw [h4] at hnab hob ⊢
        rw [hk.2]
        exact key a h3 o' (by rw [hnab, hk.1]) hob hoa
      · exact h2.2 a h3 b h4 o' hnab hoa hob
  have hle : AttsLe (attest s o n h kind).atts (setAtt s.atts (voteAtt s o n h)) := by
    unfold attest
    simp only []
    split
    · exact tryAttest_attsLe { s with atts := setAtt s.atts (voteAtt s o n h) } _ kind (mem_setAtt_self _ _)
    · exact attsLe_refl _
  rw [attest_lastNonce]
  refine ⟨?_, V2_of_le hle hV2⟩
  intro a ha o' ho'
  obtain ⟨b, hb, hbn, _, hbv⟩ := hle a ha
  have := hV1 b hb o' (hbv ▸ ho')
  rw [hbn] at this; exact this

theorem winv_frame {s s' : State} (hc : Core s' = Core s) (hl : s'.lastNonce = s.lastNonce) (h : WInv s) : WInv s' := by
  have ha := core_atts hc
  have hlo : s'.lastObserved = s.lastObserved := by simp only [Core, Prod.mk.injEq] at hc; exact hc.1
  exact ⟨by rw [ha, hl, hlo]; exact h.w1, by rw [ha]; exact h.w2⟩

theorem winv_step (hk : unbondDeletesLastNonce = false) (s : State) (op : Op) (hW : WInv s) : WInv (step s op).1 := by
  cases op with
  | claim w i n h k e =>
    simp only [step]
    by_cases hok : (claimStep s w i n h k).2 = .ok
    · obtain ⟨a, orc, _, _, _, hn, _, _, heq⟩ := claim_ok s w i n h k hok
      rw [heq]
      have := votes_attest' s a n h k hW.w1 hW.w2 hn
      exact ⟨this.1, this.2⟩
    · rw [claim_not_ok s w i n h k hok]; exact hW
  | bond o b e a d => exact winv_frame (bond_core s o b e a d).1 (bond_core s o b e a d).2 hW
  | addDelegate o a d => exact winv_frame (addDelegate_core s o a d).1 (addDelegate_core s o a d).2 hW
  | editBridger o b => exact winv_frame (editBridger_core s o b).1 (editBridger_core s o b).2 hW
  | unbond o u bal d => exact winv_frame (unbond_core s o u bal d) (unbond_lastNonce s o u bal d hk) hW
  | gov l d => exact winv_frame (gov_core s l d).1 (gov_core s l d).2 hW
  | endBlock l r => exact winv_frame (endBlock_core s l r).1 (endBlock_core s l r).2 hW
  | exec n o c =>
    simp only [step]
    obtain ⟨P, L, h⟩ := exec_frame s n o c
    rw [h]; exact ⟨hW.w1, hW.w2⟩

theorem winv_roundTrip (s : State) (hW : WInv s) : WInv (roundTrip s) := by
  obtain ⟨h1, _, h3, h4, _⟩ := roundTrip_fields s
  refine ⟨?_, ⟨?_, ?_⟩⟩
  · intro a ha o ho
    rw [h1, h4]
    exact effL_atts_cover s.lastObserved s.atts [] a (h3 a ha) o ho
  · intro a ha; exact hW.w2.1 a (h3 a ha)
  · intro a ha b hb o hn hoa hob
    exact hW.w2.2 a (h3 a ha) b (h3 b hb) o hn hoa hob

theorem winv_gstep (hk : unbondDeletesLastNonce = false) (s : State) (op : GOp) (hW : WInv s) : WInv (gstep s op).1 := by
  cases op with
  | op o => exact winv_step hk s o hW
  | genesis => exact winv_roundTrip s hW

theorem winv_grun (hk : unbondDeletesLastNonce = false) (s : State) (ops : List GOp) (hW : WInv s) : WInv (grun s ops) := by
  induction ops generalizing s with
  | nil => exact hW
  | cons op r ih => exact ih _ (winv_gstep hk s op hW)

theorem grun_append (s : State) (a b : List GOp) : grun s (a ++ b) = grun (grun s a) b := by
  induction a generalizing s with
  | nil => rfl
  | cons op r ih => exact ih _

theorem grun_ops (s : State) (ops : List Op) : grun s (ops.map GOp.op) = run s ops := by
  induction ops generalizing s with
  | nil => rfl
  | cons op r ih => exact ih _

end FxVerif.Proofs.C01
