import FxVerif.Model.C04Hop
/-! helper for `Props/C04.lean hop_match_iff_last_hop`: splitting a text at its first separator is unique -/
namespace FxVerif.Proofs.C04Hop
open FxVerif.Model.C04Hop

/-- splitting at the first separator is unique: for separator-free `x`, `y`, a prefix relation between `x/u` and `y/v`
forces `x = y` -/
theorem sep_split_prefix (x y u v : List Char) (hx : sepFree x) (hy : sepFree y)
    (h : x ++ sep :: u <+: y ++ sep :: v) : x = y ∧ u <+: v := by
  induction x generalizing y with
  | nil =>
    cases y with
    | nil => simpa [List.cons_prefix_cons] using h
    | cons b y' =>
      simp only [List.nil_append, List.cons_append, List.cons_prefix_cons] at h
      exact absurd (by rw [← h.1]; exact List.mem_cons_self) hy
  | cons a x' ih =>
    cases y with
    | nil =>
      simp only [List.nil_append, List.cons_append, List.cons_prefix_cons] at h
      exact absurd (by rw [h.1]; exact List.mem_cons_self) hx
    | cons b y' =>
      simp only [List.cons_append, List.cons_prefix_cons] at h
      have hx' : sepFree x' := fun m => hx (List.mem_cons_of_mem _ m)
      have hy' : sepFree y' := fun m => hy (List.mem_cons_of_mem _ m)
      obtain ⟨e, r⟩ := ih y' hx' hy' h.2
      exact ⟨by rw [h.1, e], r⟩


end FxVerif.Proofs.C04Hop
