import FxVerif.Model.C20Args
/-!
# C20 — soundness of the syntactic checks on `Validate` programs

For EVERY program (list of statements), set of facts, requirement and environment:

* `facts_hold`: the facts collected from a condition's value are true of the environment;
* `follows_sound`: a requirement that `follows` from true facts (and from `AbiDecoded` when `abi`) holds;
* `entails_sound`: if `entails abi prog r` then every environment on which `Validate` returns nil satisfies `r`;
* `nilSafe_sound`: if `nilSafe abi prog` then `Validate` never panics.
-/
namespace FxVerif.Proofs.C20Args
open FxVerif.Model.C20Args

theorem facts_hold (env : Env) : ∀ (c : Cond) (pol : Bool), c.eval env = some pol → ∀ f ∈ c.facts pol, Fact.holds env f := by
  intro c
  induction c with
  | atom a =>
    intro pol h f hf
    simp only [Cond.facts, List.mem_singleton] at hf
    subst hf
    exact h
  | not c ih =>
    intro pol h f hf
    simp only [Cond.facts] at hf
    simp only [Cond.eval, Option.map_eq_some_iff] at h
    obtain ⟨b, hb, hnb⟩ := h
    have : b = !pol := by cases b <;> cases pol <;> simp_all
    subst this
    exact ih _ hb f hf
  | and a b iha ihb =>
    intro pol h f hf
    cases pol with
    | false => simp [Cond.facts] at hf
    | true =>
      simp only [Cond.facts, if_true, List.mem_append] at hf
      simp only [Cond.eval] at h
      cases ha : a.eval env with
      | none => simp [ha] at h
      | some va =>
        cases va with
        | false => simp [ha] at h
        | true =>
          simp only [ha] at h
          rcases hf with hf | hf
          · exact iha true ha f hf
          · exact ihb true h f hf
  | or a b iha ihb =>
    intro pol h f hf
    cases pol with
    | true => simp [Cond.facts] at hf
    | false =>
      simp only [Cond.facts, Bool.false_eq_true, if_false, List.mem_append] at hf
      simp only [Cond.eval] at h
      cases ha : a.eval env with
      | none => simp [ha] at h
      | some va =>
        cases va with
        | true => simp [ha] at h
        | false =>
          simp only [ha] at h
          rcases hf with hf | hf
          · exact iha false ha f hf
          · exact ihb false h f hf

theorem hasFact_mem {fs : List Fact} {a : Atom} {b : Bool} (h : hasFact fs a b = true) : (a, b) ∈ fs := by
  simp only [hasFact, List.any_eq_true, Bool.and_eq_true, beq_iff_eq] at h
  obtain ⟨f, hf, h1, h2⟩ := h
  have : f = (a, b) := Prod.ext h1 h2
  exact this ▸ hf

theorem hasFact_holds {env : Env} {fs : List Fact} (hfs : ∀ f ∈ fs, Fact.holds env f) {a : Atom} {b : Bool}
    (h : hasFact fs a b = true) : a.eval env = some b := hfs _ (hasFact_mem h)

theorem nonNil_of_follows {env : Env} {fs : List Fact} (hfs : ∀ f ∈ fs, Fact.holds env f) {f : String}
    (h : followsNonNil fs f = true) : ∃ v, env.big f = some v := by
  simp only [followsNonNil, Bool.or_eq_true] at h
  rcases h with h | h
  · have := hasFact_holds hfs h
    simp only [Atom.eval, Option.some.injEq, Option.isNone_eq_false_iff, Option.isSome_iff_exists] at this
    exact this
  · simp only [derefFact, List.any_eq_true] at h
    obtain ⟨x, hx, hm⟩ := h
    have hh := hfs x hx
    unfold Fact.holds at hh
    obtain ⟨a, b⟩ := x
    cases a <;> simp only [Bool.false_eq_true, beq_iff_eq, Bool.or_eq_true] at hm
    case sign g op =>
      subst hm
      simp only [Atom.eval, Option.map_eq_some_iff] at hh
      obtain ⟨v, hv, _⟩ := hh
      exact ⟨v, hv⟩
    case bitLen g op k =>
      subst hm
      simp only [Atom.eval, Option.map_eq_some_iff] at hh
      obtain ⟨v, hv, _⟩ := hh
      exact ⟨v, hv⟩
    case sumBitLen g h' op k =>
      simp only [Atom.eval] at hh
      cases hg : env.big g with
      | none => simp [hg] at hh
      | some x =>
        cases hh2 : env.big h' with
        | none => simp [hg, hh2] at hh
        | some y =>
          rcases hm with hm | hm
          · subst hm; exact ⟨x, hg⟩
          · subst hm; exact ⟨y, hh2⟩

theorem signGe0_of_follows {env : Env} {fs : List Fact} (hfs : ∀ f ∈ fs, Fact.holds env f) {f : String}
    (h : followsSignGe0 fs f = true) : ∃ v, env.big f = some v ∧ 0 ≤ v := by
  simp only [followsSignGe0, Bool.or_eq_true] at h
  have key : ∀ (op : Cmp) (b : Bool), hasFact fs (.sign f op) b = true →
      ∃ v, env.big f = some v ∧ op.eval v 0 = b := by
    intro op b hb
    have := hasFact_holds hfs hb
    simp only [Atom.eval, Option.map_eq_some_iff] at this
    exact this
  rcases h with ((((h | h) | h) | h) | h) | h
  all_goals
    obtain ⟨v, hv, hc⟩ := key _ _ h
    refine ⟨v, hv, ?_⟩
    simp only [Cmp.eval, decide_eq_false_iff_not, decide_eq_true_eq] at hc
    omega

theorem fits_of_follows {env : Env} {fs : List Fact} (hfs : ∀ f ∈ fs, Fact.holds env f) {f : String}
    (h : followsFits fs f = true) : ∃ v, env.big f = some v ∧ bigBitLen v ≤ 256 := by
  simp only [followsFits, List.any_eq_true] at h
  obtain ⟨x, hx, hm⟩ := h
  have hh := hfs x hx
  unfold Fact.holds at hh
  obtain ⟨a, b⟩ := x
  cases a <;> try (simp at hm)
  case bitLen g op k =>
    cases op <;> cases b <;> simp only [Bool.false_eq_true, Bool.and_eq_true, beq_iff_eq, decide_eq_true_eq] at hm
    all_goals
      obtain ⟨rfl, hk⟩ := hm
      simp only [Atom.eval, Option.map_eq_some_iff] at hh
      obtain ⟨v, hv, hc⟩ := hh
      refine ⟨v, hv, ?_⟩
      simp only [Cmp.eval, decide_eq_false_iff_not, decide_eq_true_eq] at hc
      omega

theorem sumFits_of_follows {env : Env} {fs : List Fact} (hfs : ∀ f ∈ fs, Fact.holds env f) {a b : String}
    (h : followsSumFits fs a b = true) : ∃ x y, env.big a = some x ∧ env.big b = some y ∧ bigBitLen (x + y) ≤ 256 := by
  simp only [followsSumFits, List.any_eq_true] at h
  obtain ⟨x, hx, hm⟩ := h
  have hh := hfs x hx
  unfold Fact.holds at hh
  obtain ⟨at', pol⟩ := x
  cases at' <;> try (simp at hm)
  case sumBitLen g h' op k =>
    cases op <;> cases pol <;>
      simp only [Bool.false_eq_true, Bool.and_eq_true, Bool.or_eq_true, beq_iff_eq, decide_eq_true_eq] at hm
    all_goals
      obtain ⟨hgh, hk⟩ := hm
      simp only [Atom.eval] at hh
      cases hg : env.big g with
      | none => simp [hg] at hh
      | some u =>
        cases hh2 : env.big h' with
        | none => simp [hg, hh2] at hh
        | some w =>
          simp only [hg, hh2, Option.some.injEq, Cmp.eval, decide_eq_false_iff_not, decide_eq_true_eq] at hh
          rcases hgh with ⟨rfl, rfl⟩ | ⟨rfl, rfl⟩
          · exact ⟨u, w, hg, hh2, by omega⟩
          · exact ⟨w, u, hh2, hg, by rw [Int.add_comm]; omega⟩

theorem follows_sound (env : Env) (abi : Bool) (habi : abi = true → AbiDecoded env) (fs : List Fact)
    (hfs : ∀ f ∈ fs, Fact.holds env f) (r : Req) (h : follows abi fs r = true) : r.holds env := by
  cases r with
  | lenLe a b =>
    simp only [follows, Bool.or_eq_true, beq_iff_eq] at h
    simp only [Req.holds]
    have key : ∀ (x y : String) (op : Cmp) (pol : Bool), hasFact fs (.lenRel x op y) pol = true →
        op.eval (env.len x) (env.len y) = pol := by
      intro x y op pol hb
      have := hasFact_holds hfs hb
      simpa [Atom.eval] using this
    rcases h with (((((((h | h) | h) | h) | h) | h) | h) | h) | h
    · subst h; exact Nat.le_refl _
    all_goals
      have hc := key _ _ _ _ h
      simp only [Cmp.eval, decide_eq_false_iff_not, decide_eq_true_eq] at hc
      omega
  | nonNil f =>
    simp only [follows, Bool.or_eq_true] at h
    rcases h with h | h
    · obtain ⟨v, hv, _⟩ := (habi h).1 f; exact ⟨v, hv⟩
    · exact nonNil_of_follows hfs h
  | signGe0 f =>
    simp only [follows, Bool.or_eq_true] at h
    rcases h with h | h
    · obtain ⟨v, hv, h0, _⟩ := (habi h).1 f; exact ⟨v, hv, h0⟩
    · exact signGe0_of_follows hfs h
  | fits256 f =>
    simp only [follows, Bool.or_eq_true] at h
    rcases h with h | h
    · obtain ⟨v, hv, _, h2⟩ := (habi h).1 f; exact ⟨v, hv, h2⟩
    · exact fits_of_follows hfs h
  | elemOk f =>
    simp only [follows] at h
    exact (habi h).2 f
  | sumNonNil a b =>
    simp only [follows, Bool.or_eq_true, Bool.and_eq_true] at h
    rcases h with h | ⟨h1, h2⟩
    · obtain ⟨x, hx, _⟩ := (habi h).1 a
      obtain ⟨y, hy, _⟩ := (habi h).1 b
      exact ⟨x, y, hx, hy⟩
    · obtain ⟨x, hx⟩ := nonNil_of_follows hfs h1
      obtain ⟨y, hy⟩ := nonNil_of_follows hfs h2
      exact ⟨x, y, hx, hy⟩
  | sumSignGe0 a b =>
    simp only [follows, Bool.or_eq_true, Bool.and_eq_true] at h
    rcases h with h | ⟨h1, h2⟩
    · obtain ⟨x, hx, hx0, _⟩ := (habi h).1 a
      obtain ⟨y, hy, hy0, _⟩ := (habi h).1 b
      exact ⟨x, y, hx, hy, by omega⟩
    · obtain ⟨x, hx, hx0⟩ := signGe0_of_follows hfs h1
      obtain ⟨y, hy, hy0⟩ := signGe0_of_follows hfs h2
      exact ⟨x, y, hx, hy, by omega⟩
  | sumFits256 a b =>
    simp only [follows] at h
    exact sumFits_of_follows hfs h

/-- **soundness of `entails`**, for every program: whenever `Validate` returns nil, the requirement holds -/
theorem entailsAux_sound (env : Env) (abi : Bool) (habi : abi = true → AbiDecoded env) (r : Req) :
    ∀ (prog : List Stmt) (fs : List Fact), (∀ f ∈ fs, Fact.holds env f) → entailsAux abi r fs prog = true →
      run env prog = .ok → r.holds env := by
  intro prog
  induction prog with
  | nil => intro fs _ _ h; simp [run] at h
  | cons s rest ih =>
    intro fs hfs he hr
    cases s with
    | unknown src => simp [run] at hr
    | ret isErr =>
      cases isErr with
      | true => simp [run] at hr
      | false =>
        simp only [entailsAux, Bool.false_or] at he
        exact follows_sound env abi habi fs hfs r he
    | ifRet c isErr =>
      simp only [entailsAux, Bool.and_eq_true, Bool.or_eq_true] at he
      obtain ⟨he1, he2⟩ := he
      simp only [run] at hr
      cases hc : c.eval env with
      | none => simp [hc] at hr
      | some b =>
        cases b with
        | true =>
          simp only [hc] at hr
          cases isErr with
          | true => simp at hr
          | false =>
            have he1' : follows abi (c.facts true ++ fs) r = true := by simpa using he1
            refine follows_sound env abi habi _ ?_ r he1'
            intro f hf
            rcases List.mem_append.1 hf with hf | hf
            · exact facts_hold env c true hc f hf
            · exact hfs f hf
        | false =>
          simp only [hc] at hr
          refine ih (c.facts false ++ fs) ?_ he2 hr
          intro f hf
          rcases List.mem_append.1 hf with hf | hf
          · exact facts_hold env c false hc f hf
          · exact hfs f hf

theorem entails_sound (env : Env) (abi : Bool) (habi : abi = true → AbiDecoded env) (prog : List Stmt) (r : Req)
    (h : entails abi prog r = true) (hok : run env prog = .ok) : r.holds env :=
  entailsAux_sound env abi habi r prog [] (by intro f hf; cases hf) h hok

/-! ## nil-safety -/

theorem cond_nilSafe_sound (env : Env) (abi : Bool) (habi : abi = true → AbiDecoded env) :
    ∀ (c : Cond) (fs : List Fact), (∀ f ∈ fs, Fact.holds env f) → c.nilSafe abi fs = true → ∃ b, c.eval env = some b := by
  intro c
  induction c with
  | atom a =>
    intro fs hfs h
    simp only [Cond.nilSafe, List.all_eq_true, Bool.or_eq_true] at h
    have nn : ∀ f ∈ a.derefs, ∃ v, env.big f = some v := by
      intro f hf
      rcases h f hf with h | h
      · obtain ⟨v, hv, _⟩ := (habi h).1 f; exact ⟨v, hv⟩
      · exact nonNil_of_follows hfs h
    cases a <;> simp only [Cond.eval, Atom.eval] <;> try (exact ⟨_, rfl⟩)
    case sign f op =>
      obtain ⟨v, hv⟩ := nn f (by simp [Atom.derefs])
      exact ⟨_, by rw [hv]; rfl⟩
    case bitLen f op k =>
      obtain ⟨v, hv⟩ := nn f (by simp [Atom.derefs])
      exact ⟨_, by rw [hv]; rfl⟩
    case sumBitLen a b op k =>
      obtain ⟨x, hx⟩ := nn a (by simp [Atom.derefs])
      obtain ⟨y, hy⟩ := nn b (by simp [Atom.derefs])
      exact ⟨_, by rw [hx, hy]⟩
  | not c ih =>
    intro fs hfs h
    obtain ⟨b, hb⟩ := ih fs hfs h
    exact ⟨!b, by simp [Cond.eval, hb]⟩
  | and a b iha ihb =>
    intro fs hfs h
    simp only [Cond.nilSafe, Bool.and_eq_true] at h
    obtain ⟨va, ha⟩ := iha fs hfs h.1
    cases va with
    | false => exact ⟨false, by simp [Cond.eval, ha]⟩
    | true =>
      obtain ⟨vb, hb⟩ := ihb (a.facts true ++ fs) (by
        intro f hf
        rcases List.mem_append.1 hf with hf | hf
        · exact facts_hold env a true ha f hf
        · exact hfs f hf) h.2
      exact ⟨vb, by simp [Cond.eval, ha, hb]⟩
  | or a b iha ihb =>
    intro fs hfs h
    simp only [Cond.nilSafe, Bool.and_eq_true] at h
    obtain ⟨va, ha⟩ := iha fs hfs h.1
    cases va with
    | true => exact ⟨true, by simp [Cond.eval, ha]⟩
    | false =>
      obtain ⟨vb, hb⟩ := ihb (a.facts false ++ fs) (by
        intro f hf
        rcases List.mem_append.1 hf with hf | hf
        · exact facts_hold env a false ha f hf
        · exact hfs f hf) h.2
      exact ⟨vb, by simp [Cond.eval, ha, hb]⟩

theorem nilSafeAux_sound (env : Env) (abi : Bool) (habi : abi = true → AbiDecoded env) :
    ∀ (prog : List Stmt) (fs : List Fact), (∀ f ∈ fs, Fact.holds env f) → nilSafeAux abi fs prog = true →
      run env prog ≠ .panic := by
  intro prog
  induction prog with
  | nil => intro fs _ h; simp [nilSafeAux] at h
  | cons s rest ih =>
    intro fs hfs h
    cases s with
    | unknown src => simp [nilSafeAux] at h
    | ret e => cases e <;> simp [run]
    | ifRet c e =>
      simp only [nilSafeAux, Bool.and_eq_true] at h
      obtain ⟨b, hb⟩ := cond_nilSafe_sound env abi habi c fs hfs h.1
      simp only [run, hb]
      cases b with
      | true => cases e <;> simp
      | false =>
        refine ih (c.facts false ++ fs) ?_ h.2
        intro f hf
        rcases List.mem_append.1 hf with hf | hf
        · exact facts_hold env c false hb f hf
        · exact hfs f hf

/-- **`Validate` never panics**, for every program accepted by `nilSafe` -/
theorem nilSafe_sound (env : Env) (abi : Bool) (habi : abi = true → AbiDecoded env) (prog : List Stmt)
    (h : nilSafe abi prog = true) : run env prog ≠ .panic :=
  nilSafeAux_sound env abi habi prog [] (by intro f hf; cases hf) h

end FxVerif.Proofs.C20Args
