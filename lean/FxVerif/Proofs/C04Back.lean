import FxVerif.Proofs.C04Ibc
import FxVerif.Proofs.C04Esc
/-! C04: **backing of module-owned tokens**.  For a module-owned token (`IsNativeCoin`, base ≠ FX) the fxcore side mints the
base coin against an escrowed alias: the bridge denomination of the chain it came through (escrowed in that chain's
module account, or — after the older conversion system / a bridge-call refund — in the erc20 module account) or the IBC
voucher (parked in the ibc-transfer module account).  `supply(base) − Σ escrowed aliases` is invariant under every
operation of every layer. -/
namespace FxVerif.Proofs.C04
open FxVerif.Model.Ledger FxVerif.Model.Flows FxVerif.Model.C04 FxVerif.Proofs.Ledger

/-- escrowed aliases of group `g`: the bridge denominations held by the three chain module accounts and by the erc20
module account, and the vouchers parked in the ibc-transfer module account -/
def escrowedObs (g : Nat) : Obs :=
  Obs.sum [balObs (.bridge g 0) (M 0), balObs (.bridge g 1) (M 1), balObs (.bridge g 2) (M 2),
           balObs (.bridge g 0) E, balObs (.bridge g 1) E, balObs (.bridge g 2) E, balObs (voucher g) T]

/-- supply of the base coin minus the escrowed aliases -/
def backObs (g : Nat) : Obs := (supplyObs (.base g)).add (escrowedObs g).neg

theorem backObs_sound (g : Nat) : (backObs g).Sound := by
  apply add_sound (supplyObs_sound _)
  apply neg_sound
  apply sum_sound
  intro o ho
  simp only [List.mem_cons, List.not_mem_nil, or_false] at ho
  rcases ho with rfl | rfl | rfl | rfl | rfl | rfl | rfl <;> exact balObs_sound _ _

section back
variable (g0 : Nat)

macro "back_simp" : tactic =>
  `(tactic| simp [Obs.flowDelta, backObs, escrowedObs, Obs.sum, Obs.add, Obs.neg, Obs.zero, balObs, supplyObs, U, M, E, T, voucher,
      ibcRoute, Den.asset, badContract, precompileAcc, evmMod])

macro "back_done" : tactic =>
  `(tactic| (first | (back_simp; done) | (back_simp <;> (repeat' split) <;> (try simp_all) <;> (try omega))))

theorem back_deposit (k : Kind) (g c : Nat) (h : Addr) (n : Nat) (hc : c < 3) (hh : ∃ u, h = U u ∨ h = badContract)
    (hkk : g = g0 → k = .moduleOwned) : (backObs g0).flowDelta (bridgeTokenToBaseCoin k g c h n) = 0 := by
  obtain ⟨u, rfl | rfl⟩ := hh <;> (
    have : c = 0 ∨ c = 1 ∨ c = 2 := by omega
    rcases this with rfl | rfl | rfl <;> cases k <;>
      simp only [bridgeTokenToBaseCoin, depositBridgeToken, conversionCoin, List.cons_append, List.nil_append, ite_true] <;>
      (try simp at hkk) <;> back_done)

theorem back_withdraw (k : Kind) (g c u n : Nat) (hc : c < 3) (hkk : g = g0 → k = .moduleOwned) :
    (backObs g0).flowDelta (baseCoinToBridgeToken k g c (U u) n) = 0 := by
  have : c = 0 ∨ c = 1 ∨ c = 2 := by omega
  rcases this with rfl | rfl | rfl <;> cases k <;>
    simp only [baseCoinToBridgeToken, withdrawBridgeToken, conversionCoin, List.cons_append, List.nil_append] <;>
    (try simp at hkk) <;> back_done

theorem back_addBridgeFee (k : Kind) (g c u n : Nat) (hc : c < 3) (hkk : g = g0 → k = .moduleOwned) :
    (backObs g0).flowDelta (addBridgeFee k g c (U u) n) = 0 := by
  have : c = 0 ∨ c = 1 ∨ c = 2 := by omega
  rcases this with rfl | rfl | rfl <;> cases k <;> simp only [addBridgeFee] <;> (try simp at hkk) <;> back_done

theorem back_toE (g c u n : Nat) (hc : c < 3) :
    (backObs g0).flowDelta [.send (.bridge g c) (U u) E n] = if g = g0 then -(n : Int) else 0 := by
  have : c = 0 ∨ c = 1 ∨ c = 2 := by omega
  rcases this with rfl | rfl | rfl <;> back_done

theorem back_fromE (g c u n : Nat) (hc : c < 3) :
    (backObs g0).flowDelta [.send (.bridge g c) E (U u) n] = if g = g0 then (n : Int) else 0 := by
  have : c = 0 ∨ c = 1 ∨ c = 2 := by omega
  rcases this with rfl | rfl | rfl <;> back_done

theorem back_convertDenom (k : Kind) (g u n : Nat) (src dst : Den) (hs : denOk src) (hd : denOk dst) (hne : src ≠ dst)
    (hkk : g = g0 → k = .moduleOwned) : (backObs g0).flowDelta (convertDenom k g (U u) n src dst) = 0 := by
  have e3 : ∀ c, c < 3 → c = 0 ∨ c = 1 ∨ c = 2 := by intro c h; omega
  cases src with
  | base =>
    cases dst with
    | base => exact absurd rfl hne
    | chain d =>
      rcases e3 d hd with rfl | rfl | rfl <;> cases k <;>
        simp only [convertDenom, List.cons_append, List.nil_append] <;> (try simp at hkk) <;> back_done
  | chain c =>
    cases dst with
    | base =>
      rcases e3 c hs with rfl | rfl | rfl <;> cases k <;>
        simp only [convertDenom, List.cons_append, List.nil_append] <;> (try simp at hkk) <;> back_done
    | chain d =>
      have h1 := back_toE g0 g c u n hs
      have h2 := back_fromE g0 g d u n hd
      have hfl : convertDenom k g (U u) n (.chain c) (.chain d) =
          [.send (.bridge g c) (U u) E n] ++ [.send (.bridge g d) E (U u) n] := by
        cases k <;> rfl
      rw [hfl, flowDelta_append, h1, h2]; split <;> omega

theorem back_refundCoin (k : Kind) (g c r n : Nat) (hc : c < 3) (hkk : g = g0 → k = .moduleOwned) :
    (backObs g0).flowDelta (bridgeCallRefundCoin k g c (U r) n) = 0 := by
  have : c = 0 ∨ c = 1 ∨ c = 2 := by omega
  rcases this with rfl | rfl | rfl <;> cases k <;>
    simp only [bridgeCallRefundCoin, convertDenom, List.cons_append, List.nil_append] <;> (try simp at hkk) <;> back_done

theorem back_convertCoin (k : Kind) (g u r n : Nat) (hkk : g = g0 → k = .moduleOwned) :
    (backObs g0).flowDelta (convertCoin k g (U u) (U r) n) = 0 := by
  cases k <;> simp only [convertCoin] <;> (try simp at hkk) <;> back_done

theorem back_convertERC20 (k : Kind) (g u r n : Nat) (hkk : g = g0 → k = .moduleOwned) :
    (backObs g0).flowDelta (convertERC20 k g (U u) (U r) n) = 0 := by
  cases k <;> simp only [convertERC20] <;> (try simp at hkk) <;> back_done

theorem back_precompileTokenIn (k : Kind) (g u n : Nat) (hkk : g = g0 → k = .moduleOwned) :
    (backObs g0).flowDelta (precompileTokenIn k g (U u) n) = 0 := by
  cases k <;> simp only [precompileTokenIn, List.cons_append, List.nil_append] <;> (try simp at hkk) <;> back_done

theorem back_valueIn (g u n : Nat) : (backObs g0).flowDelta (valueIn g (U u) n) = 0 := by
  simp only [valueIn]; back_done

theorem back_sendPair (g u r n : Nat) (d : Den) (hd : denOk d) :
    (backObs g0).flowDelta [.send (d.asset g) (U u) E n, .send (d.asset g) E (U r) n] = 0 := by
  cases d with
  | base => back_done
  | chain c =>
    have : c = 0 ∨ c = 1 ∨ c = 2 := by simp only [denOk] at hd; omega
    rcases this with rfl | rfl | rfl <;> back_done

theorem back_feeToBridgeDenom (k : Kind) (g c u n : Nat) (hc : c < 3) (hkk : g = g0 → k = .moduleOwned) :
    (backObs g0).flowDelta (feeToBridgeDenom k g c (U u) n) = 0 := by
  cases k
  · rfl
  all_goals (simp only [feeToBridgeDenom]; exact back_convertDenom g0 _ g u n .base (.chain c) trivial hc (by simp) hkk)

theorem back_refundToEvm (k : Kind) (g r n : Nat) (hkk : g = g0 → k = .moduleOwned) :
    (backObs g0).flowDelta (bridgeCallRefundToEvm k g (U r) n) = 0 := by
  cases k
  · rfl
  all_goals (simp only [bridgeCallRefundToEvm]; exact back_convertCoin g0 _ g r r n hkk)

end back

/-! ### folds with the kind of every token known from the configuration -/

theorem pairOk_kind {cfg : Cfg} {g : Nat} {k : Kind} (h : pairOk cfg g = some k) : cfg.kind g = some k := by
  unfold pairOk at h; split at h
  · exact h
  · cases h

theorem kind_mo {cfg : Cfg} {g g0 : Nat} {k : Kind} (h : cfg.kind g = some k) (h0 : cfg.kind g0 = some .moduleOwned) :
    g = g0 → k = .moduleOwned := by
  intro e; subst e; rw [h0] at h; cases h; rfl

theorem pairsFlow_obs' (o : Obs) (cfg : Cfg) (f : Kind → Nat → Nat → List Prim)
    (hf : ∀ k g n, pairOk cfg g = some k → o.flowDelta (f k g n) = 0)
    (tokens : List (Nat × Nat)) (fl : List Prim) (h : pairsFlow cfg tokens f = .ok fl) : o.flowDelta fl = 0 := by
  unfold pairsFlow at h
  have := foldlM_delta o _ (fun _ => 0) ?_ tokens [] fl h
  · rw [this, sum_zero]; simp [Obs.flowDelta]
  · intro acc t r hr
    split at hr
    · rename_i k hk; cases hr; rw [flowDelta_append, hf _ _ _ hk]
    · cases hr

theorem refundToEvm_obs' (o : Obs) (cfg : Cfg) (r : Nat)
    (hf : ∀ k g n, cfg.kind g = some k → o.flowDelta (bridgeCallRefundToEvm k g (U r) n) = 0)
    (tokens : List (Nat × Nat)) (fl : List Prim) (h : refundToEvmFlow cfg r tokens = .ok fl) : o.flowDelta fl = 0 := by
  unfold refundToEvmFlow at h
  have := foldlM_delta o _ (fun _ => 0) ?_ tokens [] fl h
  · rw [this, sum_zero]; simp [Obs.flowDelta]
  · intro acc t r' hr
    split at hr
    · cases hr; simp
    · rename_i k _ hk
      split at hr
      · cases hr; rw [flowDelta_append, hf _ _ _ hk]
      · cases hr
    · cases hr

section ops
variable (cfg : Cfg) (g0 : Nat) (h0 : cfg.kind g0 = some .moduleOwned)
include h0

theorem tokensFlow_back (c : Nat) (f : Kind → Nat → Nat → List Prim)
    (hf : ∀ k g n, (g = g0 → k = .moduleOwned) → (backObs g0).flowDelta (f k g n) = 0)
    (tokens : List (Nat × Nat)) (fl : List Prim) (h : tokensFlow cfg c tokens f = .ok fl) : (backObs g0).flowDelta fl = 0 := by
  have := tokensFlow_obs (backObs g0) cfg c g0 f 0
    (by intro k g n hk; rw [hf k g n (kind_mo (bridged_kind hk) h0)]; split <;> simp) tokens fl h
  simpa using this

theorem refundFlow_back (c : Nat) (hc : c < 3) (call : OutCall) (fl : List Prim) (h : refundFlow cfg c call = .ok fl) :
    (backObs g0).flowDelta fl = 0 := by
  simp only [refundFlow] at h; exc'
  cases h1 : tokensFlow cfg c call.tokens (fun k g n => bridgeCallRefundCoin k g c (U call.refund) n) with
  | error e => simp [h1] at h
  | ok fl1 =>
    simp only [h1] at h
    have c1 := tokensFlow_back cfg g0 h0 c _ (fun k g n hkk => back_refundCoin g0 k g c _ n hc hkk) _ _ h1
    cases hfm : call.fromMsg
    · simp only [hfm, Bool.false_eq_true, ↓reduceIte] at h
      cases h2 : refundToEvmFlow cfg call.refund call.tokens with
      | error e => simp [h2] at h
      | ok fl2 =>
        simp only [h2, Except.ok.injEq] at h; subst h
        rw [flowDelta_append, c1, refundToEvm_obs' _ cfg call.refund
          (fun k g n hk => back_refundToEvm g0 k g _ n (kind_mo hk h0)) _ _ h2]; rfl
    · simp only [hfm, ↓reduceIte, Except.ok.injEq] at h; subst h
      rw [flowDelta_append, c1]; rfl

/-- the flow of every successful base operation leaves `supply(base) − escrowed aliases` of a module-owned group unchanged -/
theorem opFlow_back (s s' : State) (op : Op) (hc : ∀ c, op.chain? = some c → c < 3)
    (h : stepCore cfg s op = .ok s') (fl : List Prim) (hfl : opFlow cfg s op = .ok fl) : (backObs g0).flowDelta fl = 0 := by
  cases op with
  | deposit c g u n toErc =>
    have hc3 := hc c rfl
    simp only [opFlow] at hfl; exc'
    cases hk : bridged cfg g c with
    | none => simp [hk] at hfl
    | some k =>
      have hkk := kind_mo (bridged_kind hk) h0
      simp only [hk] at hfl
      cases toErc
      · simp only [Bool.false_eq_true, ↓reduceIte, Except.ok.injEq] at hfl; subst hfl
        exact back_deposit g0 k g c _ n hc3 ⟨u, .inl rfl⟩ hkk
      · simp only [↓reduceIte] at hfl
        cases hp : pairOk cfg g with
        | none => simp [hp] at hfl
        | some k' =>
          simp only [hp, Except.ok.injEq] at hfl; subst hfl
          rw [flowDelta_append, back_deposit g0 k g c _ n hc3 ⟨u, .inl rfl⟩ hkk, back_convertCoin g0 k g u u n hkk]; rfl
  | send c g u n fee =>
    have hc3 := hc c rfl
    simp only [opFlow] at hfl; exc'
    cases hk : bridged cfg g c with
    | none => simp [hk] at hfl
    | some k =>
      simp only [hk, Except.ok.injEq] at hfl; subst hfl
      exact back_withdraw g0 k g c u _ hc3 (kind_mo (bridged_kind hk) h0)
  | xsend c g u n fee =>
    have hc3 := hc c rfl
    simp only [opFlow] at hfl; exc'
    cases hkp : cfg.kind g with
    | none => simp [hkp] at hfl
    | some kp =>
      simp only [hkp] at hfl
      cases hk : bridged cfg g c with
      | none => simp [hk] at hfl
      | some k =>
        simp only [hk, Except.ok.injEq] at hfl; subst hfl
        rw [flowDelta_append, back_precompileTokenIn g0 kp g u _ (kind_mo hkp h0),
          back_withdraw g0 k g c u _ hc3 (kind_mo (bridged_kind hk) h0)]; rfl
  | vsend c g u n fee =>
    have hc3 := hc c rfl
    simp only [opFlow] at hfl; exc'
    cases hk : bridged cfg g c with
    | none => simp [hk] at hfl
    | some k =>
      simp only [hk, Except.ok.injEq] at hfl; subst hfl
      rw [flowDelta_append, back_valueIn g0, back_withdraw g0 k g c u _ hc3 (kind_mo (bridged_kind hk) h0)]; rfl
  | xincfee c id u g n =>
    have hc3 := hc c rfl
    simp only [opFlow] at hfl; exc'
    cases hkp : cfg.kind g with
    | none => simp [hkp] at hfl
    | some kp =>
      simp only [hkp] at hfl
      cases hk : bridged cfg g c with
      | none => simp [hk] at hfl
      | some k =>
        have hkk := kind_mo (bridged_kind hk) h0
        simp only [hk, Except.ok.injEq] at hfl; subst hfl
        rw [flowDelta_append, flowDelta_append, back_precompileTokenIn g0 kp g u _ (kind_mo hkp h0),
          back_feeToBridgeDenom g0 k g c u n hc3 hkk, back_addBridgeFee g0 k g c u n hc3 hkk]; rfl
  | incfee c id u g n =>
    have hc3 := hc c rfl
    simp only [opFlow] at hfl; exc'
    cases hk : bridged cfg g c with
    | none => simp [hk] at hfl
    | some k =>
      simp only [hk, Except.ok.injEq] at hfl; subst hfl
      exact back_addBridgeFee g0 k g c u n hc3 (kind_mo (bridged_kind hk) h0)
  | cancel c id u =>
    have hc3 := hc c rfl
    simp only [opFlow] at hfl; exc'
    cases he : extract (fun t : PoolTx => t.id == id) (s.chains c).pool with
    | none => simp [he] at hfl
    | some pr =>
      obtain ⟨tx, rest⟩ := pr
      simp only [he] at hfl
      cases hk : bridged cfg tx.g c with
      | none => simp [hk] at hfl
      | some k =>
        have hkk := kind_mo (bridged_kind hk) h0
        simp only [hk] at hfl
        cases hrel : tx.relation
        · simp only [hrel, Bool.false_eq_true, ↓reduceIte, Except.ok.injEq] at hfl; subst hfl
          exact back_deposit g0 k tx.g c _ _ hc3 ⟨u, .inl rfl⟩ hkk
        · simp only [hrel, ↓reduceIte] at hfl
          cases hp : pairOk cfg tx.g with
          | none => simp [hp] at hfl
          | some k' =>
            simp only [hp, Except.ok.injEq] at hfl; subst hfl
            rw [flowDelta_append, back_deposit g0 k tx.g c _ _ hc3 ⟨u, .inl rfl⟩ hkk, back_convertCoin g0 k tx.g u u _ hkk]; rfl
  | batch c g bf mf ao => simp only [opFlow, pure, Except.pure, Except.ok.injEq] at hfl; subst hfl; rfl
  | executed c g nonce => simp only [opFlow, pure, Except.pure, Except.ok.injEq] at hfl; subst hfl; rfl
  | btimeout c g nonce => simp only [opFlow, pure, Except.pure, Except.ok.injEq] at hfl; subst hfl; rfl
  | bcout c u r tokens pre =>
    have hc3 := hc c rfl
    simp only [opFlow] at hfl; exc'
    have hout : ∀ flOut, tokensFlow cfg c tokens (fun k g n => baseCoinToBridgeToken k g c (U u) n) = .ok flOut →
        (backObs g0).flowDelta flOut = 0 := fun flOut hf =>
      tokensFlow_back cfg g0 h0 c _ (fun k g n hkk => back_withdraw g0 k g c u n hc3 hkk) tokens flOut hf
    cases pre
    · simp only [Bool.false_eq_true, ↓reduceIte] at hfl
      cases ho : tokensFlow cfg c tokens (fun k g n => baseCoinToBridgeToken k g c (U u) n) with
      | error e => simp [ho] at hfl
      | ok flOut =>
        simp only [ho, List.nil_append, Except.ok.injEq] at hfl; subst hfl
        exact hout _ ho
    · simp only [↓reduceIte] at hfl
      cases hi : pairsFlow cfg tokens (fun k g n => convertERC20 k g (U u) (U u) n) with
      | error e => simp [hi] at hfl
      | ok flIn =>
        simp only [hi] at hfl
        cases ho : tokensFlow cfg c tokens (fun k g n => baseCoinToBridgeToken k g c (U u) n) with
        | error e => simp [ho] at hfl
        | ok flOut =>
          simp only [ho, Except.ok.injEq] at hfl; subst hfl
          rw [flowDelta_append, hout _ ho, pairsFlow_obs' _ cfg _
            (fun k g n hk => back_convertERC20 g0 k g u u n (kind_mo (pairOk_kind hk) h0)) tokens flIn hi]; rfl
  | vbcout c gfx u r v tokens =>
    have hc3 := hc c rfl
    simp only [opFlow] at hfl; exc'
    cases hi : pairsFlow cfg tokens (fun k g n => convertERC20 k g (U u) (U u) n) with
    | error e => simp [hi] at hfl
    | ok flIn =>
      simp only [hi] at hfl
      cases ho : tokensFlow cfg c ((gfx, v) :: tokens) (fun k g n => baseCoinToBridgeToken k g c (U u) n) with
      | error e => simp [ho] at hfl
      | ok flOut =>
        simp only [ho, Except.ok.injEq] at hfl; subst hfl
        rw [flowDelta_append, flowDelta_append, back_valueIn g0,
          tokensFlow_back cfg g0 h0 c _ (fun k g n hkk => back_withdraw g0 k g c u n hc3 hkk) _ flOut ho,
          pairsFlow_obs' _ cfg _ (fun k g n hk => back_convertERC20 g0 k g u u n (kind_mo (pairOk_kind hk) h0)) tokens flIn hi]; rfl
  | bcresult c nonce success =>
    have hc3 := hc c rfl
    simp only [opFlow] at hfl; exc'
    cases he : extract (fun cl : OutCall => cl.nonce == nonce) (s.chains c).calls with
    | none => simp [he] at hfl
    | some pr =>
      obtain ⟨call, rest⟩ := pr
      simp only [he] at hfl
      cases success
      · simp only [Bool.false_eq_true, ↓reduceIte] at hfl
        exact refundFlow_back cfg g0 h0 c hc3 call fl hfl
      · simp only [↓reduceIte, Except.ok.injEq] at hfl; subst hfl; rfl
  | bctimeout c nonce =>
    have hc3 := hc c rfl
    simp only [opFlow] at hfl; exc'
    cases he : extract (fun cl : OutCall => cl.nonce == nonce) (s.chains c).calls with
    | none => simp [he] at hfl
    | some pr =>
      obtain ⟨call, rest⟩ := pr
      simp only [he] at hfl
      exact refundFlow_back cfg g0 h0 c hc3 call fl hfl
  | bcin c to tokens =>
    have hc3 := hc c rfl
    simp only [opFlow] at hfl; exc'
    cases h1 : tokensFlow cfg c tokens (fun k g n => bridgeTokenToBaseCoin k g c (U to) n) with
    | error e => simp [h1] at hfl
    | ok fl1 =>
      simp only [h1] at hfl
      cases h2 : pairsFlow cfg tokens (fun k g n => convertCoin k g (U to) (U to) n) with
      | error e => simp [h2] at hfl
      | ok fl2 =>
        simp only [h2, Except.ok.injEq] at hfl; subst hfl
        rw [flowDelta_append,
          pairsFlow_obs' _ cfg _ (fun k g n hk => back_convertCoin g0 k g to to n (kind_mo (pairOk_kind hk) h0)) tokens fl2 h2,
          tokensFlow_back cfg g0 h0 c _ (fun k g n hkk => back_deposit g0 k g c _ n hc3 ⟨to, .inl rfl⟩ hkk) tokens fl1 h1]; rfl
  | bcinfail c r tokens =>
    have hc3 := hc c rfl
    simp only [opFlow] at hfl; exc'
    cases h1 : tokensFlow cfg c tokens (fun k g n =>
        bridgeTokenToBaseCoin k g c badContract n ++ [.send (.base g) badContract (U r) n]) with
    | error e => simp [h1] at hfl
    | ok fl1 =>
      simp only [h1] at hfl
      cases h2 : tokensFlow cfg c tokens (fun k g n => baseCoinToBridgeToken k g c (U r) n) with
      | error e => simp [h2] at hfl
      | ok fl2 =>
        simp only [h2, Except.ok.injEq] at hfl; subst hfl
        rw [flowDelta_append,
          tokensFlow_back cfg g0 h0 c _ (fun k g n hkk => by
            rw [flowDelta_append, back_deposit g0 k g c _ n hc3 ⟨0, .inr rfl⟩ hkk]
            back_done) tokens fl1 h1,
          tokensFlow_back cfg g0 h0 c _ (fun k g n hkk => back_withdraw g0 k g c r n hc3 hkk) tokens fl2 h2]; rfl
  | convertCoin g u r n =>
    simp only [opFlow] at hfl; exc'
    cases hp : pairOk cfg g with
    | none => simp [hp] at hfl
    | some k =>
      simp only [hp, Except.ok.injEq] at hfl; subst hfl
      exact back_convertCoin g0 k g u r n (kind_mo (pairOk_kind hp) h0)
  | convertERC20 g u r n =>
    simp only [opFlow] at hfl; exc'
    cases hp : pairOk cfg g with
    | none => simp [hp] at hfl
    | some k =>
      simp only [hp, Except.ok.injEq] at hfl; subst hfl
      exact back_convertERC20 g0 k g u r n (kind_mo (pairOk_kind hp) h0)
  | convertDenom g u r n src dst =>
    simp only [opFlow] at hfl; exc'
    simp only [stepCore] at h; exc'
    cases hk : cfg.kind g with
    | none => simp [hk] at hfl
    | some k =>
      simp only [hk, Except.ok.injEq] at hfl h
      generalize hdst : (if okDen cfg g dst = true then dst else Den.base) = dst' at hfl h
      subst hfl
      split at h
      · cases h
      · rename_i hne
        split at h
        · cases h
        · rename_i hb
          simp only [Bool.not_eq_true', Bool.not_eq_false, Bool.and_eq_true] at hb
          have hs := okDen_denOk hb.1
          have hd := okDen_denOk hb.2
          have hne' : src ≠ dst' := fun e => hne (Or.inr e)
          rw [flowDelta_append, back_convertDenom g0 k g u n src dst' hs hd hne' (kind_mo hk h0)]
          split
          · rfl
          · rw [back_sendPair g0 g u r n dst' hd]; rfl

/-- **backing is invariant under every base operation** -/
theorem step_back (s s' : State) (op : Op) (h : step cfg s op = .ok s') :
    (backObs g0).val s'.L = (backObs g0).val s.L := by
  unfold step at h
  have key : stepCore cfg s op = .ok s' ∧ ∀ c, op.chain? = some c → c < 3 := by
    cases hch : op.chain? with
    | none => simp only [hch] at h; exact ⟨h, by intro c hc; cases hc⟩
    | some c =>
      simp only [hch] at h
      split at h
      · rename_i hc; exact ⟨h, by intro c' hc'; cases hc'; exact hc⟩
      · cases h
  obtain ⟨fl, hfl, hval⟩ := stepCore_obs (backObs_sound g0) cfg s s' op key.1
  rw [hval, opFlow_back cfg g0 h0 s s' op key.2 key.1 fl hfl]; omega

/-- … and under every IBC operation -/
theorem stepIbc_back (s s' : State) (op : IbcOp) (h : stepIbc cfg s op = .ok s') :
    (backObs g0).val s'.L = (backObs g0).val s.L := by
  obtain ⟨fl, hf, hr, -⟩ := stepIbc_flow cfg s s' op h
  rw [runFlow_obs (backObs_sound g0) fl _ _ hr]
  suffices hz : (backObs g0).flowDelta fl = 0 by omega
  clear hr h
  cases op with
  | recv g u n =>
    simp only [ibcFlow] at hf; split at hf
    · cases hf
    · cases hf; back_done
  | toBase g u n toErc =>
    simp only [ibcFlow] at hf; split at hf
    · cases hf
    · cases toErc
      · simp only [Bool.false_eq_true, ↓reduceIte, Except.ok.injEq] at hf; subst hf
        simp only [ibcCoinToBaseCoin]; back_done
      · simp only [↓reduceIte] at hf
        split at hf
        · rename_i k hk
          cases hf
          rw [flowDelta_append, back_convertCoin g0 k g u u n (kind_mo (pairOk_kind hk) h0)]
          simp only [ibcCoinToBaseCoin]; back_done
        · cases hf
  | toIbc g u n =>
    simp only [ibcFlow] at hf; split at hf
    · split at hf
      · cases hf; rfl
      · cases hf
    · split at hf
      · cases hf
      · cases hf; simp only [baseCoinToIBCCoin]; back_done
  | xfer g u n =>
    simp only [ibcFlow] at hf; split at hf
    · cases hf
    · cases hf; back_done

omit h0 in
theorem run_back (s s1 : State) (fl : List Prim) (h : run s fl = .ok s1) (hz : (backObs g0).flowDelta fl = 0) :
    (backObs g0).val s1.L = (backObs g0).val s.L := by
  obtain ⟨L', hL, rfl⟩ := run_ok h
  rw [runFlow_obs (backObs_sound g0) fl _ _ hL, hz]; simp

/-- backing along a whole history of the IBC layer (base operations, parked claims, re-entrant contracts, IBC) -/
theorem step3_back (s s' : State3) (op : Op3) (h : step3 cfg s op = .ok s') :
    (backObs g0).val s'.s2.base.L = (backObs g0).val s.s2.base.L := by
  cases op with
  | claim op =>
    simp only [step3] at h
    cases h2 : step2 cfg s.s2 op with
    | error e => simp [h2] at h
    | ok t =>
      simp only [h2, Except.ok.injEq] at h; subst h
      have hst := step2With_steps cfg execSteps s.s2 t op h2
      exact Steps.inv (P := fun b => (backObs g0).val b.L = (backObs g0).val s.s2.base.L)
        (fun a b o hs hp => by rw [step_back cfg g0 h0 a b o hs]; exact hp) hst rfl
  | ibc op =>
    simp only [step3] at h
    cases hi : stepIbc cfg s.s2.base op with
    | error e => simp [hi] at h
    | ok b =>
      simp only [hi] at h
      have hm := stepIbc_back cfg g0 h0 _ _ op hi
      cases op <;> simp only [Except.ok.injEq] at h <;> subst h <;> simpa [setBase] using hm
  | depositIbc c g u n =>
    simp only [step3] at h
    cases h1 : step cfg s.s2.base (.deposit c g u n false) with
    | error e => simp [h1] at h
    | ok b1 =>
      simp only [h1] at h
      cases h2 : stepIbc cfg b1 (.toIbc g u n) with
      | error e => simp [h2] at h
      | ok b2 =>
        simp only [h2] at h
        cases h3 : stepIbc cfg b2 (.xfer g u n) with
        | error e => simp [h3] at h
        | ok b3 =>
          simp only [h3, Except.ok.injEq] at h; subst h
          have m1 := step_back cfg g0 h0 _ _ _ h1
          have m2 := stepIbc_back cfg g0 h0 _ _ _ h2
          have m3 := stepIbc_back cfg g0 h0 _ _ _ h3
          simp only [setBase]; omega
  | xibc g u n =>
    simp only [step3] at h
    split at h
    · cases h
    · cases hk : cfg.kind g with
      | none => simp [hk] at h
      | some kp =>
        simp only [hk] at h
        cases h1 : run s.s2.base (precompileTokenIn kp g (U u) n) with
        | error e => simp [h1] at h
        | ok b1 =>
          simp only [h1] at h
          cases h2 : stepIbc cfg b1 (.toIbc g u n) with
          | error e => simp [h2] at h
          | ok b2 =>
            simp only [h2] at h
            cases h3 : stepIbc cfg b2 (.xfer g u n) with
            | error e => simp [h3] at h
            | ok b3 =>
              simp only [h3, Except.ok.injEq] at h; subst h
              have m1 := run_back g0 _ _ _ h1 (back_precompileTokenIn g0 kp g u n (kind_mo hk h0))
              have m2 := stepIbc_back cfg g0 h0 _ _ _ h2
              have m3 := stepIbc_back cfg g0 h0 _ _ _ h3
              simp only [setBase]; omega

theorem runOps3_back (ops : List Op3) (s : State3) :
    (backObs g0).val (runOps3 cfg s ops).s2.base.L = (backObs g0).val s.s2.base.L := by
  induction ops generalizing s with
  | nil => rfl
  | cons op ops ih =>
    simp only [runOps3, List.foldl_cons] at ih ⊢
    rw [ih]
    unfold stepT3
    cases h : step3 cfg s op with
    | error e => rfl
    | ok s' => exact step3_back cfg g0 h0 s s' op h

end ops
end FxVerif.Proofs.C04
