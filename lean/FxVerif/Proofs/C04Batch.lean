import FxVerif.Proofs.C04
/-! C04: `MsgRequestBatch` / `BuildOutgoingTxBatch` as statement lists — closed form of the model's lists, and the
general order theorems: whatever the statement lists are, if they satisfy the order conditions `safeOrder` / `reqSafe`
a successful request keeps the in-flight value of every token. -/
namespace FxVerif.Proofs.C04
open FxVerif.Model.Ledger FxVerif.Model.Flows FxVerif.Model.C04 FxVerif.Proofs.Ledger

/-- what `MsgRequestBatch` does with the statement lists of the model, in closed form -/
def batchResult (tokenFound asOracle : Bool) (a : BArgs) (cs : ChainSt) : Except Err ChainSt :=
  let sel := cs.pool.filter (selects a)
  if !tokenFound || !asOracle then .error .invalid else
  if lastBatchFees cs a.g > totalFees sel then .error .invalid else
  if sel.isEmpty then .error .invalid else
  if totalFees sel < a.minFee then .error .invalid else
  .ok { cs with pool := cs.pool.filter (fun t => !selects a t),
                batches := ⟨cs.nextBatch, a.g, sel⟩ :: cs.batches,
                created := ⟨cs.nextBatch, a.g, sel⟩ :: cs.created,
                nextBatch := cs.nextBatch + 1 }

theorem request_closed (tokenFound asOracle : Bool) (a : BArgs) (cs : ChainSt) :
    runRequest buildSteps ⟨tokenFound, asOracle, a⟩ requestSteps (cs, none) = batchResult tokenFound asOracle a cs := by
  cases tokenFound <;> cases asOracle <;>
    simp [runRequest, requestSteps, buildSteps, runBuild, rguardHolds, guardHolds, batchResult]
  by_cases h1 : totalFees (List.filter (selects a) cs.pool) < lastBatchFees cs a.g
  · simp only [if_pos h1]; simp
  · by_cases h2 : ∀ (a_1 : PoolTx), a_1 ∈ cs.pool → selects a a_1 = false
    · simp only [if_neg h1, if_pos h2]; simp
    · by_cases h3 : totalFees (List.filter (selects a) cs.pool) < a.minFee
      · simp only [if_neg h1, if_neg h2, if_pos h3]; simp
      · simp only [if_neg h1, if_neg h2, if_neg h3]; simp

/-- a successful request, unfolded -/
theorem batchResult_ok {tf ao : Bool} {a : BArgs} {cs cs' : ChainSt} (h : batchResult tf ao a cs = .ok cs') :
    tf = true ∧ ao = true ∧ (cs.pool.filter (selects a)) ≠ [] ∧ a.minFee ≤ totalFees (cs.pool.filter (selects a)) ∧
    cs' = { cs with pool := cs.pool.filter (fun t => !selects a t),
                    batches := ⟨cs.nextBatch, a.g, cs.pool.filter (selects a)⟩ :: cs.batches,
                    created := ⟨cs.nextBatch, a.g, cs.pool.filter (selects a)⟩ :: cs.created,
                    nextBatch := cs.nextBatch + 1 } := by
  unfold batchResult at h
  simp only at h
  split at h
  · cases h
  · rename_i h0
    split at h
    · cases h
    · split at h
      · cases h
      · rename_i h2
        split at h
        · cases h
        · rename_i h3
          cases h
          refine ⟨?_, ?_, ?_, by omega, rfl⟩
          · cases tf <;> simp_all
          · cases ao <;> simp_all
          · intro he; simp [he] at h2


/-! ### the order theorems, for arbitrary statement lists -/

theorem filter_sum' {α : Type} (p : α → Bool) (v : α → Nat) (l : List α) :
    (l.map v).sum = ((l.filter p).map v).sum + ((l.filter (fun x => !p x)).map v).sum := by
  induction l with
  | nil => rfl
  | cons x xs ih =>
    cases hp : p x <;> simp [List.filter, hp, ih] <;> omega

theorem poolValue_append' (g : Nat) (a b : List PoolTx) : poolValue g (a ++ b) = poolValue g a + poolValue g b := by
  simp [poolValue, List.sum_append]

/-- `BuildOutgoingTxBatch` with ANY statement list that satisfies `safeOrder`: unless it returns an error, the value in
pool + batches is what it was (phase invariant: 0 nothing picked, 1 picked transfers are exactly what is missing, 2
stored). -/
theorem runBuild_conserves (a : BArgs) (g' orig : Nat) :
    ∀ (steps : List BStep) (ph : Nat) (st : BSt), safeOrder ph steps = true → ph ≤ 2 →
      (ph = 0 → st.sel = [] ∧ chainInFlight g' st.cs = orig) →
      (ph = 1 → chainInFlight g' st.cs + poolValue g' st.sel = orig) →
      (ph = 2 → chainInFlight g' st.cs = orig) →
      (runBuild a steps st).2 ≠ .err → chainInFlight g' (runBuild a steps st).1.cs = orig := by
  intro steps
  induction steps with
  | nil =>
    intro ph st hs hph h0 h1 h2 _
    simp only [safeOrder, bne_iff_ne, ne_eq] at hs
    simp only [runBuild]
    have : ph = 0 ∨ ph = 2 := by omega
    rcases this with rfl | rfl
    · exact (h0 rfl).2
    · exact h2 rfl
  | cons stp rest ih =>
    intro ph st hs hph h0 h1 h2 hne
    cases stp with
    | guard gd x =>
      simp only [runBuild] at hne ⊢
      by_cases hg : guardHolds a st gd = true
      · simp only [hg, ↓reduceIte] at hne ⊢
        cases x with
        | err => exact absurd rfl hne
        | okNoBatch =>
          simp only [safeOrder, Bool.and_eq_true, bne_iff_ne, ne_eq] at hs
          have : ph = 0 ∨ ph = 2 := by omega
          rcases this with rfl | rfl
          · exact (h0 rfl).2
          · exact h2 rfl
      · simp only [hg] at hne ⊢
        have hs' : safeOrder ph rest = true := by
          cases x <;> simp only [safeOrder, Bool.and_eq_true] at hs
          · exact hs
          · exact hs.2
        exact ih ph st hs' hph h0 h1 h2 hne
    | pick =>
      simp only [safeOrder, Bool.and_eq_true, beq_iff_eq] at hs
      obtain ⟨rfl, hs'⟩ := hs
      simp only [runBuild] at hne ⊢
      refine ih 1 _ hs' (by omega) (by intro h; cases h) ?_ (by intro h; cases h) hne
      intro _
      obtain ⟨hsel, hcs⟩ := h0 rfl
      have := filter_sum' (selects a) (fun t : PoolTx => if t.g = g' then t.amount + t.fee else 0) st.cs.pool
      simp only [hsel, List.nil_append, chainInFlight, poolValue] at hcs this ⊢
      omega
    | store =>
      simp only [safeOrder, Bool.and_eq_true, beq_iff_eq] at hs
      obtain ⟨rfl, hs'⟩ := hs
      simp only [runBuild] at hne ⊢
      refine ih 2 _ hs' (by omega) (by intro h; cases h) (by intro h; cases h) ?_ hne
      intro _
      have := h1 rfl
      simp only [chainInFlight, List.map_cons, List.sum_cons] at this ⊢
      omega

/-- `MsgServer.RequestBatch` with ANY pair of statement lists that satisfy the order conditions: a request that
succeeds (its writes are committed) leaves the value in pool + batches of every token unchanged. -/
theorem runRequest_conserves (bs : List BStep) (a : RArgs) (g' orig : Nat) (hb : safeOrder 0 bs = true) :
    ∀ (rs : List RStep) (d : Bool) (cs : ChainSt) (o : Option BOut), reqSafe d rs = true →
      (d = false → o ≠ some .err) → (o ≠ some .err → chainInFlight g' cs = orig) →
      ∀ cs', runRequest bs a rs (cs, o) = .ok cs' → chainInFlight g' cs' = orig := by
  intro rs
  induction rs with
  | nil =>
    intro d cs o hs hd hc cs' h
    simp only [reqSafe, Bool.not_eq_true'] at hs
    simp only [runRequest, Except.ok.injEq] at h; subst h
    exact hc (hd hs)
  | cons stp rest ih =>
    intro d cs o hs hd hc cs' h
    cases stp with
    | respond =>
      simp only [runRequest] at h
      split at h
      · rename_i ho
        cases h
        apply hc
        intro he; rw [he] at ho; simp at ho
      · cases h
    | build =>
      simp only [reqSafe, Bool.and_eq_true, Bool.not_eq_true'] at hs
      obtain ⟨hd0, hs'⟩ := hs
      simp only [runRequest] at h
      refine ih true _ _ hs' (by intro h; cases h) ?_ cs' h
      intro hne
      have hclean := hc (hd hd0)
      exact runBuild_conserves a.b g' orig bs 0 { cs := cs } hb (by omega) (fun _ => ⟨rfl, hclean⟩)
        (by intro h; cases h) (by intro h; cases h) (by intro he; apply hne; rw [he])
    | guard gd x =>
      simp only [runRequest] at h
      by_cases hg : rguardHolds a o gd = true
      · simp only [hg, ↓reduceIte] at h
        cases x with
        | err => cases h
        | okEmpty =>
          simp only [Except.ok.injEq] at h; subst h
          apply hc
          cases gd <;> simp only [reqSafe, Bool.and_eq_true, Bool.not_eq_true'] at hs <;>
            first
            | exact hd hs.1
            | (simp only [rguardHolds, beq_iff_eq] at hg; intro he; rw [he] at hg; cases hg)
      · simp only [hg] at h
        cases gd <;> cases x <;> simp only [reqSafe, Bool.and_eq_true, Bool.not_eq_true'] at hs <;>
          first
          | exact ih d cs o hs hd hc cs' h
          | exact ih d cs o hs.2 hd hc cs' h
          | (refine ih false cs o hs (fun _ => ?_) hc cs' h
             simp only [rguardHolds, beq_iff_eq] at hg; exact hg)

end FxVerif.Proofs.C04
