import FxVerif.Proofs.C04Ext
/-! C04: every successful operation runs exactly its `opFlow` on the ledger; what an operation does to a holder's
holdings (all representations of a token group) is therefore the flow delta of `opFlow`, computed here per flow and
per operation. -/
namespace FxVerif.Proofs.C04
open FxVerif.Model.Ledger FxVerif.Model.Flows FxVerif.Model.C04 FxVerif.Proofs.Ledger

theorem run_L {s s1 : State} {fl : List Prim} (h : run s fl = .ok s1) : runFlow fl s.L = .ok s1.L := by
  obtain ⟨L', hL, rfl⟩ := run_ok h; exact hL

/-- a successful `stepCore` runs exactly `opFlow` on the ledger -/
theorem stepCore_flow (cfg : Cfg) (s s' : State) (op : Op) (h : stepCore cfg s op = .ok s') :
    ∃ fl, opFlow cfg s op = .ok fl ∧ runFlow fl s.L = .ok s'.L := by
  cases op
  all_goals simp only [stepCore, refundCall, bind, Except.bind, pure, Except.pure] at h
  all_goals repeat' (split at h)
  all_goals try (cases h)
  all_goals simp only [opFlow, refundFlow, bind, Except.bind, pure, Except.pure, *]
  all_goals first
    | exact ⟨[], rfl, rfl⟩
    | (have hh := run_L ‹run _ _ = _›; exact ⟨_, rfl, hh⟩)
    | (have hh := run_L h; exact ⟨_, rfl, hh⟩)
    | (subst_vars; have hh := run_L h; exact ⟨_, rfl, hh⟩)

/-- every sound observable changes along a successful operation by the delta of the operation's flow -/
theorem stepCore_obs {o : Obs} (ho : o.Sound) (cfg : Cfg) (s s' : State) (op : Op) (h : stepCore cfg s op = .ok s') :
    ∃ fl, opFlow cfg s op = .ok fl ∧ o.val s'.L = o.val s.L + o.flowDelta fl := by
  obtain ⟨fl, h1, h2⟩ := stepCore_flow cfg s s' op h
  exact ⟨fl, h1, runFlow_obs ho fl _ _ h2⟩

/-! ### folds over token lists, for any observable -/

theorem tokensFlow_obs (o : Obs) (cfg : Cfg) (c g' : Nat) (f : Kind → Nat → Nat → List Prim) (sgn : Int)
    (hf : ∀ k g n, bridged cfg g c = some k → o.flowDelta (f k g n) = if g = g' then sgn * (n : Int) else 0)
    (tokens : List (Nat × Nat)) (fl : List Prim) (h : tokensFlow cfg c tokens f = .ok fl) :
    o.flowDelta fl = sgn * (tokensValue g' tokens : Int) := by
  unfold tokensFlow at h
  have := foldlM_delta o _ (fun t => if t.1 = g' then sgn * (t.2 : Int) else 0) ?_ tokens [] fl h
  · rw [this, tokensValue_int]
    simp only [Obs.flowDelta, Int.zero_add]
    clear this h
    induction tokens with
    | nil => simp
    | cons t ts ih => simp only [List.map_cons, List.sum_cons, ih]; split <;> simp [Int.mul_add]
  · intro acc t r hr
    split at hr
    · rename_i k hk; cases hr; rw [flowDelta_append, hf _ _ _ hk]
    · cases hr

theorem pairsFlow_obs (o : Obs) (cfg : Cfg) (f : Kind → Nat → Nat → List Prim)
    (hf : ∀ k g n, o.flowDelta (f k g n) = 0)
    (tokens : List (Nat × Nat)) (fl : List Prim) (h : pairsFlow cfg tokens f = .ok fl) : o.flowDelta fl = 0 := by
  unfold pairsFlow at h
  have := foldlM_delta o _ (fun _ => 0) ?_ tokens [] fl h
  · rw [this, sum_zero]; simp [Obs.flowDelta]
  · intro acc t r hr
    split at hr
    · cases hr; rw [flowDelta_append, hf]
    · cases hr

theorem refundToEvm_obs (o : Obs) (cfg : Cfg) (r : Nat) (hf : ∀ k g n, o.flowDelta (bridgeCallRefundToEvm k g (U r) n) = 0)
    (tokens : List (Nat × Nat)) (fl : List Prim) (h : refundToEvmFlow cfg r tokens = .ok fl) : o.flowDelta fl = 0 := by
  unfold refundToEvmFlow at h
  have := foldlM_delta o _ (fun _ => 0) ?_ tokens [] fl h
  · rw [this, sum_zero]; simp [Obs.flowDelta]
  · intro acc t r' hr
    split at hr
    · cases hr; simp
    · split at hr
      · cases hr; rw [flowDelta_append, hf]
      · cases hr
    · cases hr

/-! ### holdings of one user (all representations of group `g'`) along each flow -/

/-- a holder: any account that is not a crosschain / erc20 module account or the WFX contract (users, contracts, the
precompile and evm module accounts) -/
def Holder (x : Addr) : Prop := (∀ c, x ≠ M c) ∧ x ≠ E ∧ x ≠ .wfx

theorem holder_user (u : Nat) : Holder (U u) := by
  refine ⟨?_, ?_, ?_⟩ <;> intros <;> simp [U, M, E]
theorem holder_ext (m : Nat) : Holder (.ext m) := by
  refine ⟨?_, ?_, ?_⟩ <;> intros <;> simp [M, E]

section acct
variable (g' : Nat) (x : Addr) (hx : Holder x)
include hx

macro "acct_simp" : tactic =>
  `(tactic| simp [Obs.flowDelta, acctObs, Obs.sum, Obs.add, Obs.zero, assets, balObs, U, M, E, Den.asset, badContract,
      precompileAcc, evmMod])

macro "acct_done" : tactic =>
  `(tactic| (first | (acct_simp; done) | (acct_simp <;> (repeat' split) <;> (try simp_all [M, E, U]) <;> (try omega))))

/-- orientation facts about the observed holder, for `simp_all` -/
macro "holder_facts" : tactic =>
  `(tactic| (obtain ⟨hx1, hx2, hx3⟩ := hx
             have e1 : ∀ c, ¬ M c = x := fun c e => hx1 c e.symm
             have e2 : ¬ E = x := fun e => hx2 e.symm
             have e3 : ¬ Addr.wfx = x := fun e => hx3 e.symm))

theorem acct_deposit (k : Kind) (g c u n : Nat) (hc : c < 3) :
    (acctObs g' x).flowDelta (bridgeTokenToBaseCoin k g c (U u) n) = if g = g' ∧ U u = x then (n : Int) else 0 := by
  holder_facts
  have : c = 0 ∨ c = 1 ∨ c = 2 := by omega
  rcases this with rfl | rfl | rfl <;> cases k <;>
    simp only [bridgeTokenToBaseCoin, depositBridgeToken, conversionCoin, List.cons_append, List.nil_append, ite_true] <;>
    acct_done

theorem acct_withdraw (k : Kind) (g c u n : Nat) (hc : c < 3) :
    (acctObs g' x).flowDelta (baseCoinToBridgeToken k g c (U u) n) = if g = g' ∧ U u = x then -(n : Int) else 0 := by
  holder_facts
  have : c = 0 ∨ c = 1 ∨ c = 2 := by omega
  rcases this with rfl | rfl | rfl <;> cases k <;>
    simp only [baseCoinToBridgeToken, withdrawBridgeToken, conversionCoin, List.cons_append, List.nil_append] <;>
    acct_done

theorem acct_depositBadRefund (k : Kind) (g c r n : Nat) (hc : c < 3) :
    (acctObs g' x).flowDelta (bridgeTokenToBaseCoin k g c badContract n ++ [.send (.base g) badContract (U r) n]) =
      if g = g' ∧ U r = x then (n : Int) else 0 := by
  holder_facts
  have : c = 0 ∨ c = 1 ∨ c = 2 := by omega
  rcases this with rfl | rfl | rfl <;> cases k <;>
    simp only [bridgeTokenToBaseCoin, depositBridgeToken, conversionCoin, List.cons_append, List.nil_append, ite_true] <;>
    acct_done

theorem acct_convertCoin (k : Kind) (g u r n : Nat) :
    (acctObs g' x).flowDelta (convertCoin k g (U u) (U r) n) =
      (if g = g' ∧ U r = x then (n : Int) else 0) - (if g = g' ∧ U u = x then (n : Int) else 0) := by
  holder_facts
  cases k <;> simp only [convertCoin] <;> acct_done

theorem acct_convertERC20 (k : Kind) (g u r n : Nat) :
    (acctObs g' x).flowDelta (convertERC20 k g (U u) (U r) n) =
      (if g = g' ∧ U r = x then (n : Int) else 0) - (if g = g' ∧ U u = x then (n : Int) else 0) := by
  holder_facts
  cases k <;> simp only [convertERC20] <;> acct_done

theorem acct_precompileTokenIn (k : Kind) (g u n : Nat) :
    (acctObs g' x).flowDelta (precompileTokenIn k g (U u) n) = 0 := by
  holder_facts
  cases k <;> simp only [precompileTokenIn, List.cons_append, List.nil_append] <;> acct_done

omit hx in
theorem acct_valueIn (g u n : Nat) : (acctObs g' x).flowDelta (valueIn g (U u) n) = 0 := by
  simp only [valueIn]; acct_done

theorem acct_addBridgeFee (k : Kind) (g c u n : Nat) (hc : c < 3) :
    (acctObs g' x).flowDelta (addBridgeFee k g c (U u) n) = if g = g' ∧ U u = x then -(n : Int) else 0 := by
  holder_facts
  have : c = 0 ∨ c = 1 ∨ c = 2 := by omega
  rcases this with rfl | rfl | rfl <;> cases k <;> simp only [addBridgeFee] <;> acct_done

/-- a denomination that exists in the 3-chain universe -/
def denOk : Den → Prop
  | .base => True
  | .chain c => c < 3

theorem acct_convertDenom (k : Kind) (g u n : Nat) (src dst : Den) (hs : denOk src) (hd : denOk dst) :
    (acctObs g' x).flowDelta (convertDenom k g (U u) n src dst) = 0 := by
  holder_facts
  have hc : ∀ d : Den, denOk d → d = .base ∨ d = .chain 0 ∨ d = .chain 1 ∨ d = .chain 2 := by
    intro d h; cases d with
    | base => exact Or.inl rfl
    | chain c => simp only [denOk] at h; have : c = 0 ∨ c = 1 ∨ c = 2 := by omega
                 rcases this with rfl | rfl | rfl <;> simp
  rcases hc src hs with rfl | rfl | rfl | rfl <;> rcases hc dst hd with rfl | rfl | rfl | rfl <;> cases k <;>
    simp only [convertDenom, List.cons_append, List.nil_append] <;> acct_done

theorem acct_sendPair (g u r n : Nat) (d : Den) (hd : denOk d) :
    (acctObs g' x).flowDelta [.send (d.asset g) (U u) E n, .send (d.asset g) E (U r) n] =
      (if g = g' ∧ U r = x then (n : Int) else 0) - (if g = g' ∧ U u = x then (n : Int) else 0) := by
  holder_facts
  cases d with
  | base => acct_done
  | chain c =>
    simp only [denOk] at hd
    have : c = 0 ∨ c = 1 ∨ c = 2 := by omega
    rcases this with rfl | rfl | rfl <;> acct_done

theorem acct_feeToBridgeDenom (k : Kind) (g c u n : Nat) (hc : c < 3) :
    (acctObs g' x).flowDelta (feeToBridgeDenom k g c (U u) n) = 0 := by
  cases k <;> simp only [feeToBridgeDenom]
  · rfl
  · exact acct_convertDenom g' x hx _ g u n .base (.chain c) trivial hc
  · exact acct_convertDenom g' x hx _ g u n .base (.chain c) trivial hc

theorem acct_refundCoin (k : Kind) (g c r n : Nat) (hc : c < 3) :
    (acctObs g' x).flowDelta (bridgeCallRefundCoin k g c (U r) n) = if g = g' ∧ U r = x then (n : Int) else 0 := by
  holder_facts
  have : c = 0 ∨ c = 1 ∨ c = 2 := by omega
  rcases this with rfl | rfl | rfl <;> cases k <;>
    simp only [bridgeCallRefundCoin, convertDenom, List.cons_append, List.nil_append] <;> acct_done

theorem acct_refundToEvm (k : Kind) (g r n : Nat) :
    (acctObs g' x).flowDelta (bridgeCallRefundToEvm k g (U r) n) = 0 := by
  holder_facts
  cases k <;> simp only [bridgeCallRefundToEvm, convertCoin] <;> acct_done

end acct
end FxVerif.Proofs.C04
