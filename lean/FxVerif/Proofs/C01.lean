import FxVerif.Model.C01
/-!
Helper lemmas and the inductive invariants behind `Props/C01.lean` and `Props/C02.lean` (core Lean only).
-/
namespace FxVerif.Proofs.C01
open FxVerif.Gen.C01 FxVerif.Model.C01

/-! ## association lists -/

theorem get_set_self {α : Type} (m : Map α) (k : Nat) (v : α) : (m.set k v).get k = some v := by
  induction m with
  | nil => simp [Map.set, Map.get]
  | cons p r ih =>
    obtain ⟨k', v'⟩ := p
    by_cases h : k' = k
    · simp [Map.set, Map.get, h]
    · simp [Map.set, Map.get, h, ih]

theorem get_set_ne {α : Type} (m : Map α) (k k2 : Nat) (v : α) (h : k ≠ k2) : (m.set k v).get k2 = m.get k2 := by
  induction m with
  | nil => simp [Map.set, Map.get, h]
  | cons p r ih =>
    obtain ⟨k', v'⟩ := p
    by_cases h1 : k' = k
    · subst h1; simp [Map.set, Map.get, h]
    · by_cases h2 : k' = k2
      · subst h2; simp [Map.set, Map.get, h1]
      · simp [Map.set, Map.get, h1, h2, ih]

/-! ## online power -/

def contrib (o : Oracle) : Nat := if o.online then o.power else 0

theorem onlinePower_cons (k : Nat) (o : Oracle) (r : Map Oracle) : onlinePower ((k, o) :: r) = contrib o + onlinePower r := rfl

theorem onlinePower_set_le (m : Map Oracle) (k : Nat) (o o' : Oracle) (hg : m.get k = some o) (hc : contrib o' ≤ contrib o) :
    onlinePower (m.set k o') ≤ onlinePower m := by
  induction m with
  | nil => simp [Map.get] at hg
  | cons p r ih =>
    obtain ⟨k', v'⟩ := p
    by_cases h : k' = k
    · simp [Map.get, h] at hg
      subst hg
      simp [Map.set, h, onlinePower_cons]; omega
    · simp [Map.get, h] at hg
      have := ih hg
      simp [Map.set, h, onlinePower_cons]; omega

theorem onlinePower_filter_le (m : Map Oracle) (p : Nat × Oracle → Bool) : onlinePower (m.filter p) ≤ onlinePower m := by
  induction m with
  | nil => simp [onlinePower]
  | cons q r ih =>
    obtain ⟨k, o⟩ := q
    by_cases h : p (k, o)
    · simp [List.filter, h, onlinePower_cons]; omega
    · simp [List.filter, h, onlinePower_cons]; omega

theorem onlinePower_map_le (m : Map Oracle) (f : Nat × Oracle → Nat × Oracle) (hf : ∀ q, contrib (f q).2 ≤ contrib q.2) :
    onlinePower (m.map f) ≤ onlinePower m := by
  induction m with
  | nil => simp [onlinePower]
  | cons q r ih =>
    obtain ⟨k, o⟩ := q
    have h1 := hf (k, o)
    show onlinePower (f (k, o) :: r.map f) ≤ _
    rw [show f (k, o) = ((f (k, o)).1, (f (k, o)).2) from rfl, onlinePower_cons, onlinePower_cons]
    simp at h1
    omega

theorem slashOne_le (m : Map Oracle) (o : Nat) : onlinePower (slashOne m o) ≤ onlinePower m := by
  unfold slashOne
  split
  · rename_i orc hg
    split
    · exact onlinePower_set_le m o orc _ hg (by simp [contrib])
    · exact Nat.le_refl _
  · exact Nat.le_refl _

theorem foldl_slashOne_le (l : List Nat) (m : Map Oracle) : onlinePower (l.foldl slashOne m) ≤ onlinePower m := by
  induction l generalizing m with
  | nil => simp
  | cons o r ih => exact Nat.le_trans (ih (slashOne m o)) (slashOne_le m o)

/-- in the order of the source the old bridger's index entry is the one that is deleted -/
theorem editIndex_eq (m : Map Nat) (old b o : Nat) : editIndex m old b o = (m.del old).set b o := by
  have : editBridgerDeletesOldIndexFirst = true := by decide
  simp [editIndex, this]

/-! ## `applyRefresh` only touches the recorded total -/

theorem applyRefresh_eq (r : RefreshRule) (pos : Bool) (old s' : State) :
    ∃ t, applyRefresh r pos old s' = { s' with lastTotalPower := t } := by
  cases r
  · exact ⟨_, rfl⟩
  · exact ⟨_, rfl⟩
  · cases pos
    · exact ⟨s'.lastTotalPower, rfl⟩
    · exact ⟨_, rfl⟩
  · exact ⟨s'.lastTotalPower, rfl⟩
  · exact ⟨s'.lastTotalPower, rfl⟩

section
variable (r : RefreshRule) (pos : Bool) (old s' : State)
@[simp] theorem applyRefresh_oracles : (applyRefresh r pos old s').oracles = s'.oracles := by
  obtain ⟨t, h⟩ := applyRefresh_eq r pos old s'; rw [h]
@[simp] theorem applyRefresh_byBridger : (applyRefresh r pos old s').byBridger = s'.byBridger := by
  obtain ⟨t, h⟩ := applyRefresh_eq r pos old s'; rw [h]
@[simp] theorem applyRefresh_byExt : (applyRefresh r pos old s').byExt = s'.byExt := by
  obtain ⟨t, h⟩ := applyRefresh_eq r pos old s'; rw [h]
@[simp] theorem applyRefresh_proposal : (applyRefresh r pos old s').proposal = s'.proposal := by
  obtain ⟨t, h⟩ := applyRefresh_eq r pos old s'; rw [h]
@[simp] theorem applyRefresh_params : (applyRefresh r pos old s').params = s'.params := by
  obtain ⟨t, h⟩ := applyRefresh_eq r pos old s'; rw [h]
@[simp] theorem applyRefresh_lastObserved : (applyRefresh r pos old s').lastObserved = s'.lastObserved := by
  obtain ⟨t, h⟩ := applyRefresh_eq r pos old s'; rw [h]
@[simp] theorem applyRefresh_lastNonce : (applyRefresh r pos old s').lastNonce = s'.lastNonce := by
  obtain ⟨t, h⟩ := applyRefresh_eq r pos old s'; rw [h]
@[simp] theorem applyRefresh_atts : (applyRefresh r pos old s').atts = s'.atts := by
  obtain ⟨t, h⟩ := applyRefresh_eq r pos old s'; rw [h]
@[simp] theorem applyRefresh_pending : (applyRefresh r pos old s').pending = s'.pending := by
  obtain ⟨t, h⟩ := applyRefresh_eq r pos old s'; rw [h]
@[simp] theorem applyRefresh_observedLog : (applyRefresh r pos old s').observedLog = s'.observedLog := by
  obtain ⟨t, h⟩ := applyRefresh_eq r pos old s'; rw [h]
@[simp] theorem applyRefresh_executedLog : (applyRefresh r pos old s').executedLog = s'.executedLog := by
  obtain ⟨t, h⟩ := applyRefresh_eq r pos old s'; rw [h]
@[simp] theorem applyRefresh_retired : (applyRefresh r pos old s').retired = s'.retired := by
  obtain ⟨t, h⟩ := applyRefresh_eq r pos old s'; rw [h]
end

/-- the placement the theorems about the recorded total need: recomputed unconditionally after the record is stored -/
theorem applyRefresh_afterStore (pos : Bool) (old s' : State) : applyRefresh .afterStore pos old s' = refresh s' := rfl

/-! ## tally -/

theorem tally_ge (m : Map Oracle) (req : Nat) (vs : List Nat) (acc : Nat) (h : tally m req vs acc = true) :
    req ≤ acc + votePower m vs := by
  induction vs generalizing acc with
  | nil => simp [tally] at h
  | cons v r ih =>
    unfold tally at h
    split at h
    · rename_i hg
      have := ih acc h
      simp [votePower, powerOf, hg]; omega
    · rename_i o hg
      split at h
      · have := ih _ h
        simp [votePower, powerOf, hg]; omega
      · rename_i hb
        simp [votePower, powerOf, hg]
        unfold below at hb
        cases hc : tallyCmp <;> simp [hc] at hb <;> omega

/-! ## attestation list -/

theorem findAtt_some {l : List Att} {n h : Nat} {a : Att} (hf : findAtt l n h = some a) : a ∈ l ∧ a.nonce = n ∧ a.hash = h := by
  induction l with
  | nil => simp [findAtt] at hf
  | cons b r ih =>
    unfold findAtt at hf
    split at hf
    · rename_i hk
      cases hf
      exact ⟨List.mem_cons_self, hk.1, hk.2⟩
    · have := ih hf
      exact ⟨List.mem_cons_of_mem _ this.1, this.2⟩

theorem mem_setAtt {l : List Att} {a x : Att} (hx : x ∈ setAtt l a) : x = a ∨ x ∈ l := by
  induction l with
  | nil => simp [setAtt] at hx; exact Or.inl hx
  | cons b r ih =>
    unfold setAtt at hx
    split at hx
    · rcases List.mem_cons.mp hx with h | h
      · exact Or.inl h
      · exact Or.inr (List.mem_cons_of_mem _ h)
    · rcases List.mem_cons.mp hx with h | h
      · exact Or.inr (h ▸ List.mem_cons_self)
      · rcases ih h with h | h
        · exact Or.inl h
        · exact Or.inr (List.mem_cons_of_mem _ h)

theorem mem_setAtt_self (l : List Att) (a : Att) : a ∈ setAtt l a := by
  induction l with
  | nil => simp [setAtt]
  | cons b r ih =>
    unfold setAtt
    split
    · exact List.mem_cons_self
    · exact List.mem_cons_of_mem _ ih

theorem mem_prune {lo : Nat} {l : List Att} {x : Att} (hx : x ∈ prune lo l) : x ∈ l := by
  unfold prune at hx
  split at hx
  · exact hx
  · exact (List.mem_filter.mp hx).1

/-! ## the attestation core of the state and its frame -/

/-- the components the C01 invariants talk about -/
def Core (s : State) : Nat × List Att × List Nat × List (Nat × Nat) × List Nat :=
  (s.lastObserved, s.atts, s.pending, s.observedLog, s.executedLog)

theorem bond_core (s : State) (o b e a : Nat) (d : Bool) :
    Core (bondStep s o b e a d).1 = Core s ∧ (bondStep s o b e a d).1.lastNonce = s.lastNonce := by
  unfold bondStep
  repeat' split
  all_goals simp [Core, refresh]

theorem addDelegate_core (s : State) (o a : Nat) (d : Bool) :
    Core (addDelegateStep s o a d).1 = Core s ∧ (addDelegateStep s o a d).1.lastNonce = s.lastNonce := by
  unfold addDelegateStep addDelegateTo
  repeat' split
  all_goals simp [Core, refresh]

theorem editBridger_core (s : State) (o b : Nat) :
    Core (editBridgerStep s o b).1 = Core s ∧ (editBridgerStep s o b).1.lastNonce = s.lastNonce := by
  unfold editBridgerStep
  repeat' split
  all_goals simp [Core]

theorem unbond_core (s : State) (o : Nat) (u : Bool) (bal : Nat) (d : Bool) : Core (unbondStep s o u bal d).1 = Core s := by
  unfold unbondStep unbondApply
  repeat' split
  all_goals simp [Core]

theorem unbond_cases (s : State) (o : Nat) (u : Bool) (bal : Nat) (d : Bool) :
    (unbondStep s o u bal d).1 = s ∨
    ∃ orc, s.oracles.get o = some orc ∧ orc.online = false ∧ (unbondStep s o u bal d).1 = unbondApply s o orc := by
  unfold unbondStep
  repeat' split
  all_goals first | exact Or.inl rfl | skip
  rename_i orc hg hon _ _ _ _
  exact Or.inr ⟨orc, hg, by simpa using hon, rfl⟩

theorem gov_core (s : State) (l : List Nat) (d : Bool) :
    Core (govStep s l d).1 = Core s ∧ (govStep s l d).1.lastNonce = s.lastNonce := by
  unfold govStep
  repeat' split
  all_goals simp [Core, refresh]

theorem endBlock_core (s : State) (l : List Nat) (r : Bool) :
    Core (endBlockStep s l r).1 = Core s ∧ (endBlockStep s l r).1.lastNonce = s.lastNonce := by
  unfold endBlockStep
  repeat' split
  all_goals simp [Core, refresh]

/-! ## `tryAttest` -/

theorem tryAttest_false (s : State) (att : Att) (kind : Kind)
    (h : tally s.oracles (required s.lastTotalPower) att.votes 0 = false) : tryAttest s att kind = s := by
  simp [tryAttest, h]

theorem tryAttest_true (s : State) (att : Att) (kind : Kind)
    (h : tally s.oracles (required s.lastTotalPower) att.votes 0 = true) :
    let s' := tryAttest s att kind
    s'.lastObserved = att.nonce ∧
    s'.atts = prune att.nonce (setAtt s.atts { att with observed := true }) ∧
    s'.observedLog = s.observedLog ++ [(att.nonce, att.hash)] ∧
    (s'.pending = s.pending ∨ s'.pending = insertNonce s.pending att.nonce) ∧
    s'.executedLog = s.executedLog ∧ s'.lastNonce = s.lastNonce ∧ s'.oracles = s.oracles ∧
    s'.lastTotalPower = s.lastTotalPower ∧ s'.byBridger = s.byBridger ∧ s'.byExt = s.byExt ∧
    s'.proposal = s.proposal ∧ s'.params = s.params := by
  cases kind <;> simp [tryAttest, h, observeSetsLastObserved, observeMarksObserved]

/-! ## C01 invariant -/

structure Inv (s : State) : Prop where
  logC : s.observedLog.map Prod.fst = List.range' 1 s.lastObserved
  obsIn : ∀ a ∈ s.atts, a.observed = true → (a.nonce, a.hash) ∈ s.observedLog
  pendR : ∀ n ∈ s.pending, 1 ≤ n ∧ n ≤ s.lastObserved
  execR : ∀ n ∈ s.executedLog, 1 ≤ n ∧ n ≤ s.lastObserved
  execN : s.executedLog.Nodup
  pendX : ∀ n ∈ s.pending, n ∉ s.executedLog

theorem inv_of_core {s s' : State} (h : Core s' = Core s) (hI : Inv s) : Inv s' := by
  simp only [Core, Prod.mk.injEq] at h
  obtain ⟨h1, h2, h3, h4, h5⟩ := h
  exact ⟨by rw [h4, h1]; exact hI.logC, by rw [h2, h4]; exact hI.obsIn, by rw [h3, h1]; exact hI.pendR,
    by rw [h5, h1]; exact hI.execR, by rw [h5]; exact hI.execN, by rw [h3, h5]; exact hI.pendX⟩

theorem inv_init (p : Params) : Inv (init p) := by
  constructor <;> simp [init]

theorem mem_insertNonce {l : List Nat} {n x : Nat} (h : x ∈ insertNonce l n) : x = n ∨ x ∈ l := by
  unfold insertNonce at h
  split at h
  · exact Or.inr h
  · exact List.mem_cons.mp h

theorem inv_tryAttest (s : State) (att : Att) (kind : Kind) (hI : Inv s) (hn : att.nonce = s.lastObserved + 1) :
    Inv (tryAttest s att kind) := by
  cases ht : tally s.oracles (required s.lastTotalPower) att.votes 0
  · rw [tryAttest_false s att kind ht]; exact hI
  · obtain ⟨h1, h2, h3, h4, h5, _⟩ := tryAttest_true s att kind ht
    refine ⟨?_, ?_, ?_, ?_, ?_, ?_⟩
    · rw [h3, h1, hn, List.map_append, hI.logC, List.range'_1_concat]
      simp [Nat.add_comm]
    · intro a ha hob
      rw [h2] at ha
      rw [h3]
      rcases mem_setAtt (mem_prune ha) with h | h
      · subst h; simp
      · exact List.mem_append_left _ (hI.obsIn a h hob)
    · intro n hnp
      rw [h1, hn]
      rcases h4 with h | h
      · rw [h] at hnp; have := hI.pendR n hnp; omega
      · rw [h] at hnp
        rcases mem_insertNonce hnp with h | h
        · omega
        · have := hI.pendR n h; omega
    · intro n hne
      rw [h5] at hne; rw [h1, hn]
      have := hI.execR n hne; omega
    · rw [h5]; exact hI.execN
    · intro n hnp
      rw [h5]
      rcases h4 with h | h
      · rw [h] at hnp; exact hI.pendX n hnp
      · rw [h] at hnp
        rcases mem_insertNonce hnp with h | h
        · intro hc; have := hI.execR n hc; omega
        · exact hI.pendX n h

theorem voteAtt_key (s : State) (o n h : Nat) : (voteAtt s o n h).nonce = n ∧ (voteAtt s o n h).hash = h := by
  unfold voteAtt
  split
  · rename_i a hf
    have := findAtt_some hf
    simp [this.2.1, this.2.2]
  · simp

theorem voteAtt_observed (s : State) (o n h : Nat) (hob : (voteAtt s o n h).observed = true) :
    ∃ a ∈ s.atts, a.observed = true ∧ a.nonce = n ∧ a.hash = h := by
  unfold voteAtt at hob
  split at hob
  · rename_i a hf
    have := findAtt_some hf
    exact ⟨a, this.1, by simpa using hob, this.2⟩
  · simp at hob

theorem inv_attest (s : State) (o n h : Nat) (kind : Kind) (hI : Inv s) : Inv (attest s o n h kind) := by
  have hk := voteAtt_key s o n h
  -- the state with the vote recorded
  have hI1 : Inv { s with atts := setAtt s.atts (voteAtt s o n h) } := by
    refine ⟨hI.logC, ?_, hI.pendR, hI.execR, hI.execN, hI.pendX⟩
    intro a ha hob
    rcases mem_setAtt ha with h1 | h1
    · subst h1
      obtain ⟨b, hb, hbo, hbn, hbh⟩ := voteAtt_observed s o n h hob
      have := hI.obsIn b hb hbo
      rw [hk.1, hk.2, ← hbn, ← hbh]; exact this
    · exact hI.obsIn a h1 hob
  unfold attest
  simp only []
  split
  · rename_i hc
    have hnext : n = s.lastObserved + 1 := by
      simp [tallyCond, tallyRequiresNextNonce] at hc
      exact hc.2
    have := inv_tryAttest _ (voteAtt s o n h) kind hI1 (by rw [hk.1]; exact hnext)
    exact inv_of_core (by simp [Core]) this
  · exact inv_of_core (by simp [Core]) hI1

theorem inv_claim (s : State) (w i n h : Nat) (k : Kind) (hI : Inv s) : Inv (claimStep s w i n h k).1 := by
  unfold claimStep
  repeat' split
  all_goals first | exact hI | exact inv_attest _ _ _ _ _ hI

/-! ## deferred execution with re-entrancy -/

/-- the exec step only changes the parked claims and the execution log -/
theorem exec_frame (s : State) (n : Nat) (o : Outcome) (c : Calls) :
    ∃ P L, (execStep s n o c).1 = { s with pending := P, executedLog := L } := by
  unfold execStep
  split
  · exact ⟨s.pending, s.executedLog, rfl⟩
  · split
    · exact ⟨s.pending, s.executedLog, rfl⟩
    · exact ⟨_, _, rfl⟩

/-- the part of `Inv` that talks about the parked claims and the execution log, relative to a last observed nonce -/
structure InvP (lo : Nat) (p : Px) : Prop where
  pendR : ∀ n ∈ p.pending, 1 ≤ n ∧ n ≤ lo
  execR : ∀ n ∈ p.log, 1 ≤ n ∧ n ≤ lo
  execN : p.log.Nodup
  pendX : ∀ n ∈ p.pending, n ∉ p.log

theorem mem_delPending {l : List Nat} {n m : Nat} (h : m ∈ delPending l n) : m ∈ l := by
  unfold delPending at h
  split at h
  · exact (List.mem_filter.mp h).1
  · exact h

theorem not_mem_delPending (hd : execDeletesPending = true) (l : List Nat) (n : Nat) : n ∉ delPending l n := by
  simp [delPending, hd]

/-- entering a call for a parked nonce with the entry deleted first: the handler's effects are logged once, the nonce is
no longer parked -/
theorem invP_enter (hd : execDeletesPending = true) {lo : Nat} {p : Px} {n : Nat} (hI : InvP lo p) (hp : n ∈ p.pending) :
    InvP lo { pending := delPending p.pending n, log := p.log ++ [n] } := by
  refine ⟨?_, ?_, ?_, ?_⟩
  · intro m hm
    exact hI.pendR m (mem_delPending hm)
  · intro m hm
    rcases List.mem_append.mp hm with h | h
    · exact hI.execR m h
    · simp at h; subst h; exact hI.pendR m hp
  · simp only []
    rw [List.nodup_append]
    refine ⟨hI.execN, by simp, ?_⟩
    intro a ha b hb
    simp at hb; subst hb
    intro hab; subst hab
    exact hI.pendX a hp ha
  · intro m hm hc
    rcases List.mem_append.mp hc with h | h
    · exact hI.pendX m (mem_delPending hm) h
    · simp at h; subst h; exact not_mem_delPending hd _ _ hm

/-- in the delete-before-handler order every forest of (re-entrant, nested, failing, refunded) `ExecuteClaim` calls keeps
the invariant: the log stays duplicate-free and disjoint from the parked claims -/
theorem invP_execCalls (hd : execDeletesPending = true) (hc : execChecksPending = true) (lo : Nat) (c : Calls) (p : Px)
    (hI : InvP lo p) : InvP lo (execCallsWith true p c) := by
  induction c generalizing p with
  | nil => exact hI
  | call n o inner next ihI ihN =>
    unfold execCallsWith
    apply ihN
    simp only [hc, Bool.true_and, if_true]
    split
    · exact hI
    · rename_i hp
      have hp' : n ∈ p.pending := by simpa using hp
      cases o with
      | fail => exact hI
      | refund => exact invP_enter hd hI hp'
      | ok => exact ihI _ (invP_enter hd hI hp')

theorem inv_exec (s : State) (n : Nat) (o : Outcome) (c : Calls) (hI : Inv s) : Inv (execStep s n o c).1 := by
  unfold execStep
  split
  · exact hI
  · split
    · exact hI
    · have hdf : execDeletesBeforeHandler = true := by decide
      have hP : InvP s.lastObserved { pending := s.pending, log := s.executedLog } := ⟨hI.pendR, hI.execR, hI.execN, hI.pendX⟩
      have := invP_execCalls (by decide) (by decide) s.lastObserved (.call n o c .nil) _ hP
      simp only [execCalls, hdf]
      exact ⟨hI.logC, hI.obsIn, this.pendR, this.execR, this.execN, this.pendX⟩

/-- calls only consume parked claims (delete-before-handler order): nothing becomes parked by executing -/
theorem execCalls_pending_subset (c : Calls) (p : Px) : ∀ m ∈ (execCallsWith true p c).pending, m ∈ p.pending := by
  induction c generalizing p with
  | nil => intro m hm; exact hm
  | call n o inner next ihI ihN =>
    intro m hm
    unfold execCallsWith at hm
    have := ihN _ m hm
    simp only [if_true] at this
    split at this
    · exact this
    · cases o with
      | fail => exact this
      | refund => exact mem_delPending this
      | ok => exact mem_delPending (ihI _ m this)

theorem inv_step (s : State) (op : Op) (hI : Inv s) : Inv (step s op).1 := by
  cases op with
  | claim w i n h k e => exact inv_claim s w i n h k hI
  | bond o b e a d => exact inv_of_core (bond_core s o b e a d).1 hI
  | addDelegate o a d => exact inv_of_core (addDelegate_core s o a d).1 hI
  | editBridger o b => exact inv_of_core (editBridger_core s o b).1 hI
  | unbond o u bal d => exact inv_of_core (unbond_core s o u bal d) hI
  | gov l d => exact inv_of_core (gov_core s l d).1 hI
  | endBlock l r => exact inv_of_core (endBlock_core s l r).1 hI
  | exec n o c => exact inv_exec s n o c hI

theorem inv_run (s : State) (ops : List Op) (hI : Inv s) : Inv (run s ops) := by
  induction ops generalizing s with
  | nil => exact hI
  | cons op r ih => exact ih _ (inv_step s op hI)

/-! ## registry part of the state under `attest` -/

theorem attest_registry (s : State) (o n h : Nat) (kind : Kind) :
    let s' := attest s o n h kind
    s'.oracles = s.oracles ∧ s'.lastTotalPower = s.lastTotalPower ∧ s'.byBridger = s.byBridger ∧ s'.byExt = s.byExt ∧
    s'.proposal = s.proposal ∧ s'.params = s.params := by
  unfold attest
  simp only []
  split
  · cases ht : tally s.oracles (required s.lastTotalPower) (voteAtt s o n h).votes 0
    · rw [tryAttest_false _ _ _ (by simpa using ht)]; simp
    · obtain ⟨_, _, _, _, _, _, h7, h8, h9, h10, h11, h12⟩ := tryAttest_true { s with atts := setAtt s.atts (voteAtt s o n h) } (voteAtt s o n h) kind (by simpa using ht)
      simp at h7 h8 h9 h10 h11 h12
      simp [h7, h8, h9, h10, h11, h12]
  · simp

theorem claim_registry (s : State) (w i n h : Nat) (k : Kind) :
    let s' := (claimStep s w i n h k).1
    s'.oracles = s.oracles ∧ s'.lastTotalPower = s.lastTotalPower ∧ s'.byBridger = s.byBridger ∧ s'.byExt = s.byExt ∧
    s'.proposal = s.proposal ∧ s'.params = s.params := by
  unfold claimStep
  repeat' split
  all_goals first | exact attest_registry _ _ _ _ _ | simp

/-! ## C02: recorded total ≥ Σ online power -/

def TotalOk (s : State) : Prop := onlinePower s.oracles ≤ s.lastTotalPower

theorem totalOk_step (s : State) (op : Op) (hT : TotalOk s) : TotalOk (step s op).1 := by
  unfold TotalOk at *
  cases op with
  | claim w i n h k e =>
    have := claim_registry s w i n h k
    simp only [step]
    rw [this.1, this.2.1]; exact hT
  | bond o b e a d =>
    have hr : bondRefreshRule = .afterStore := by decide
    simp only [step]
    unfold bondStep
    repeat' split
    all_goals first | exact hT | simp [hr, applyRefresh, refresh]
  | addDelegate o a d =>
    have hr : addDelegateRefreshRule = .afterStore := by decide
    simp only [step]
    unfold addDelegateStep addDelegateTo
    repeat' split
    all_goals first | exact hT | simp [hr, applyRefresh, refresh]
  | editBridger o b =>
    simp only [step]
    unfold editBridgerStep
    repeat' split
    all_goals first | exact hT | skip
    rename_i orc hg _ _ _
    exact Nat.le_trans (onlinePower_set_le s.oracles o orc _ hg (by simp [contrib, Oracle.power])) hT
  | unbond o u bal d =>
    simp only [step]
    rcases unbond_cases s o u bal d with h | ⟨orc, _, _, h⟩
    · rw [h]; exact hT
    · rw [h]; exact Nat.le_trans (onlinePower_filter_le s.oracles _) hT
  | gov l d =>
    simp only [step]
    unfold govStep
    repeat' split
    all_goals first | exact hT | simp [refresh] | skip
    refine Nat.le_trans (onlinePower_map_le s.oracles _ ?_) hT
    intro q
    split <;> simp [contrib]
  | endBlock l r =>
    simp only [step]
    unfold endBlockStep
    split
    · simp [refresh]
    · exact Nat.le_trans (foldl_slashOne_le l s.oracles) hT
  | exec n o c =>
    simp only [step]
    obtain ⟨P, L, h⟩ := exec_frame s n o c
    rw [h]; exact hT

theorem totalOk_run (s : State) (ops : List Op) (hT : TotalOk s) : TotalOk (run s ops) := by
  induction ops generalizing s with
  | nil => exact hT
  | cons op r ih => exact ih _ (totalOk_step s op hT)

/-! ## what an accepted claim needs, and what makes an attestation observed -/

theorem claim_ok (s : State) (w i n h : Nat) (k : Kind) (hok : (claimStep s w i n h k).2 = .ok) :
    ∃ a orc, s.byBridger.get (voter w i) = some a ∧ s.oracles.get a = some orc ∧ orc.online = true ∧
      n = effLast s a + 1 ∧ validateBasic w i = true ∧ logicCheck s k = true ∧
      (claimStep s w i n h k).1 = attest s a n h k := by
  unfold claimStep at hok ⊢
  repeat' split at hok
  all_goals first | (simp at hok; done) | skip
  rename_i hvb _ a hga _ orc hgo hon hlc hct hpn
  refine ⟨a, orc, hga, hgo, ?_, ?_, ?_, ?_, ?_⟩
  · simpa [claimRequiresOnline] using hon
  · simpa [attestChecksContiguity] using hct
  · simpa using hvb
  · simpa using hlc
  · simp [hvb, hon, hlc, hct, hpn]

theorem claim_not_ok (s : State) (w i n h : Nat) (k : Kind) (hne : (claimStep s w i n h k).2 ≠ .ok) :
    (claimStep s w i n h k).1 = s := by
  unfold claimStep at hne ⊢
  repeat' split
  all_goals first | rfl | skip
  all_goals simp_all

theorem observed_attest (s : State) (o n h : Nat) (kind : Kind) (a' : Att) (ha : a' ∈ (attest s o n h kind).atts)
    (hob : a'.observed = true) :
    (∃ b ∈ s.atts, b.observed = true ∧ b.nonce = a'.nonce ∧ b.hash = a'.hash) ∨
    (a'.nonce = n ∧ a'.hash = h ∧ a'.votes = (voteAtt s o n h).votes ∧ n = s.lastObserved + 1 ∧
      (voteAtt s o n h).observed = false ∧
      required s.lastTotalPower ≤ votePower s.oracles a'.votes) := by
  have hk := voteAtt_key s o n h
  have old : ∀ x ∈ setAtt s.atts (voteAtt s o n h), x.observed = true →
      ∃ b ∈ s.atts, b.observed = true ∧ b.nonce = x.nonce ∧ b.hash = x.hash := by
    intro x hx hxo
    rcases mem_setAtt hx with h1 | h1
    · subst h1
      obtain ⟨b, hb, hbo, hbn, hbh⟩ := voteAtt_observed s o n h hxo
      exact ⟨b, hb, hbo, by rw [hk.1, hbn], by rw [hk.2, hbh]⟩
    · exact ⟨x, h1, hxo, rfl, rfl⟩
  unfold attest at ha
  simp only [] at ha
  split at ha
  · rename_i hc
    cases ht : tally s.oracles (required s.lastTotalPower) (voteAtt s o n h).votes 0
    · rw [tryAttest_false _ _ _ (by simpa using ht)] at ha
      exact Or.inl (old a' ha hob)
    · obtain ⟨_, h2, _⟩ := tryAttest_true { s with atts := setAtt s.atts (voteAtt s o n h) } (voteAtt s o n h) kind (by simpa using ht)
      rw [h2] at ha
      rcases mem_setAtt (mem_prune ha) with h1 | h1
      · right
        simp [tallyCond, tallyRequiresNextNonce, tallyRequiresNotObserved] at hc
        have := tally_ge _ _ _ _ ht
        subst h1
        refine ⟨hk.1, hk.2, rfl, hc.2, hc.1.2, ?_⟩
        simpa using this
      · exact Or.inl (old a' h1 hob)
  · exact Or.inl (old a' ha hob)

/-! ## distinct voters -/

def dedup : List Nat → List Nat
  | [] => []
  | v :: vs => if v ∈ vs then dedup vs else v :: dedup vs

theorem dedup_of_nodup {l : List Nat} (h : l.Nodup) : dedup l = l := by
  induction l with
  | nil => rfl
  | cons v r ih =>
    rw [List.nodup_cons] at h
    simp [dedup, h.1, ih h.2]

/-! ## the bridger index points at the oracle that names this bridger -/

theorem get_del_self {α : Type} (m : Map α) (k : Nat) : (m.del k).get k = none := by
  induction m with
  | nil => simp [Map.del, Map.get]
  | cons p r ih =>
    obtain ⟨k', v'⟩ := p
    by_cases h : k' = k
    · have : (Map.del ((k', v') :: r) k) = Map.del r k := by simp [Map.del, h]
      rw [this]; exact ih
    · have : (Map.del ((k', v') :: r) k) = (k', v') :: Map.del r k := by simp [Map.del, List.filter_cons, h]
      rw [this]; simp [Map.get, h, ih]

theorem get_del_ne {α : Type} (m : Map α) (k k2 : Nat) (h : k ≠ k2) : (m.del k).get k2 = m.get k2 := by
  induction m with
  | nil => simp [Map.del, Map.get]
  | cons p r ih =>
    obtain ⟨k', v'⟩ := p
    by_cases h1 : k' = k
    · subst h1
      have : (Map.del ((k', v') :: r) k') = Map.del r k' := by simp [Map.del, List.filter_cons]
      rw [this, ih]; simp [Map.get, h]
    · have : (Map.del ((k', v') :: r) k) = (k', v') :: Map.del r k := by simp [Map.del, List.filter_cons, h1]
      rw [this]
      by_cases h2 : k' = k2
      · simp [Map.get, h2]
      · simp [Map.get, h2, ih]

/-- `m'` keeps every oracle of `m`, with the same bridger -/
def BP (m m' : Map Oracle) : Prop := ∀ a orc, m.get a = some orc → ∃ orc', m'.get a = some orc' ∧ orc'.bridger = orc.bridger

theorem BP_refl (m : Map Oracle) : BP m m := fun _ orc h => ⟨orc, h, rfl⟩

theorem BP_trans {m1 m2 m3 : Map Oracle} (h1 : BP m1 m2) (h2 : BP m2 m3) : BP m1 m3 := by
  intro a orc h
  obtain ⟨o2, hg2, hb2⟩ := h1 a orc h
  obtain ⟨o3, hg3, hb3⟩ := h2 a o2 hg2
  exact ⟨o3, hg3, by rw [hb3, hb2]⟩

theorem BP_set (m : Map Oracle) (o : Nat) (orc new : Oracle) (hg : m.get o = some orc) (hb : new.bridger = orc.bridger) :
    BP m (m.set o new) := by
  intro a x hx
  by_cases h : o = a
  · subst h
    rw [hg] at hx; cases hx
    exact ⟨new, get_set_self _ _ _, hb⟩
  · exact ⟨x, by rw [get_set_ne _ _ _ _ h]; exact hx, rfl⟩

theorem BP_map (m : Map Oracle) (f : Nat × Oracle → Nat × Oracle) (hk : ∀ p, (f p).1 = p.1)
    (hb : ∀ p, (f p).2.bridger = p.2.bridger) : BP m (m.map f) := by
  intro a orc h
  induction m with
  | nil => simp [Map.get] at h
  | cons q r ih =>
    obtain ⟨k', v'⟩ := q
    have e : f (k', v') = (k', (f (k', v')).2) := by
      have := hk (k', v'); exact Prod.ext this rfl
    by_cases h1 : k' = a
    · simp [Map.get, h1] at h
      subst h
      refine ⟨(f (k', v')).2, ?_, hb _⟩
      rw [List.map_cons, e]; simp [Map.get, h1]
    · simp [Map.get, h1] at h
      obtain ⟨o', hg', hb'⟩ := ih h
      refine ⟨o', ?_, hb'⟩
      rw [List.map_cons, e]; simp [Map.get, h1]; exact hg'

theorem BP_slashOne (m : Map Oracle) (o : Nat) : BP m (slashOne m o) := by
  unfold slashOne
  split
  · rename_i orc hg
    split
    · exact BP_set m o orc _ hg rfl
    · exact BP_refl _
  · exact BP_refl _

theorem BP_foldl_slashOne (l : List Nat) (m : Map Oracle) : BP m (l.foldl slashOne m) := by
  induction l generalizing m with
  | nil => exact BP_refl _
  | cons o r ih => exact BP_trans (BP_slashOne m o) (ih _)

def BInv (s : State) : Prop :=
  ∀ b a, s.byBridger.get b = some a → ∃ orc, s.oracles.get a = some orc ∧ orc.bridger = b

theorem binv_of_BP {s s' : State} (hb : s'.byBridger = s.byBridger) (hp : BP s.oracles s'.oracles) (h : BInv s) : BInv s' := by
  intro b a hg
  rw [hb] at hg
  obtain ⟨orc, ho, hbr⟩ := h b a hg
  obtain ⟨orc', ho', hbr'⟩ := hp a orc ho
  exact ⟨orc', ho', by rw [hbr', hbr]⟩

theorem binv_step (s : State) (op : Op) (hB : BInv s) : BInv (step s op).1 := by
  cases op with
  | claim w i n h k e =>
    have := claim_registry s w i n h k
    simp only [] at this
    simp only [step]
    exact binv_of_BP this.2.2.1 (by rw [this.1]; exact BP_refl _) hB
  | bond o b e a d =>
    simp only [step]; unfold bondStep
    repeat' split
    all_goals first | exact hB | skip
    all_goals
      rename_i hno _ _ _ _ _
      have hno' : s.oracles.get o = none := by simpa using hno
      intro b' a' hg
      simp only [applyRefresh_byBridger, applyRefresh_oracles] at hg ⊢
      by_cases hb : b = b'
      · subst hb
        rw [get_set_self] at hg; cases hg
        exact ⟨_, get_set_self _ _ _, rfl⟩
      · rw [get_set_ne _ _ _ _ hb] at hg
        obtain ⟨orc, ho, hbr⟩ := hB b' a' hg
        have hne : o ≠ a' := by intro hc; subst hc; rw [hno'] at ho; cases ho
        exact ⟨orc, by rw [get_set_ne _ _ _ _ hne]; exact ho, hbr⟩
  | addDelegate o a d =>
    simp only [step]; unfold addDelegateStep addDelegateTo
    repeat' split
    all_goals first | exact hB | skip
    all_goals
      rename_i orc hg _ _ _ _ _
      exact binv_of_BP (s := s) (by simp) (by simp only [applyRefresh_oracles]; exact BP_set s.oracles o orc _ hg rfl) hB
  | editBridger o b =>
    simp only [step]; unfold editBridgerStep
    repeat' split
    all_goals first | exact hB | skip
    rename_i orc hgo _ hneq _
    intro b' a' hg
    simp only [editIndex_eq] at hg ⊢
    by_cases hb : b = b'
    · subst hb
      rw [get_set_self] at hg; cases hg
      exact ⟨_, get_set_self _ _ _, rfl⟩
    · rw [get_set_ne _ _ _ _ hb] at hg
      have hold : orc.bridger ≠ b' := by
        intro hc; rw [hc, get_del_self] at hg; cases hg
      rw [get_del_ne _ _ _ hold] at hg
      obtain ⟨orc', ho, hbr⟩ := hB b' a' hg
      have hne : o ≠ a' := by
        intro hc; subst hc; rw [hgo] at ho; cases ho; exact hold hbr
      exact ⟨orc', by rw [get_set_ne _ _ _ _ hne]; exact ho, hbr⟩
  | unbond o u bal d =>
    simp only [step]
    rcases unbond_cases s o u bal d with h | ⟨orc, hgo, _, h⟩
    · rw [h]; exact hB
    · rw [h]
      intro b' a' hg
      simp only [unbondApply] at hg ⊢
      have hold : orc.bridger ≠ b' := by
        intro hc; rw [hc, get_del_self] at hg; cases hg
      rw [get_del_ne _ _ _ hold] at hg
      obtain ⟨orc', ho, hbr⟩ := hB b' a' hg
      have hne : o ≠ a' := by
        intro hc; subst hc; rw [hgo] at ho; cases ho; exact hold hbr
      exact ⟨orc', by rw [get_del_ne _ _ _ hne]; exact ho, hbr⟩
  | gov l d =>
    simp only [step]; unfold govStep
    repeat' split
    all_goals first | exact hB | skip
    all_goals
      refine binv_of_BP (s := s) rfl (BP_map s.oracles _ ?_ ?_) hB
      · intro p; split <;> rfl
      · intro p; split <;> rfl
  | endBlock l r =>
    simp only [step]; unfold endBlockStep
    split
    all_goals exact binv_of_BP (s := s) rfl (BP_foldl_slashOne l s.oracles) hB
  | exec n o c =>
    simp only [step]
    obtain ⟨P, L, h⟩ := exec_frame s n o c
    rw [h]; exact hB

theorem binv_run (s : State) (ops : List Op) (hB : BInv s) : BInv (run s ops) := by
  induction ops generalizing s with
  | nil => exact hB
  | cons op r ih => exact ih _ (binv_step s op hB)

/-! ## votes: an oracle votes at most once per nonce (as long as no oracle whose last nonce was deleted bonds again) -/

/-- every vote sits at a nonce not above the voter's stored last nonce — or the voter is retired (unbonded, key deleted) -/
def V1 (atts : List Att) (ln : Map Nat) (ret : List Nat) : Prop :=
  ∀ a ∈ atts, ∀ o ∈ a.votes, (∃ v, ln.get o = some v ∧ a.nonce ≤ v) ∨ o ∈ ret

def V2 (atts : List Att) : Prop :=
  (∀ a ∈ atts, a.votes.Nodup) ∧
  ∀ a ∈ atts, ∀ b ∈ atts, ∀ o, a.nonce = b.nonce → o ∈ a.votes → o ∈ b.votes → a.hash = b.hash

/-- every attestation of `atts'` has a counterpart in `atts` with the same key and votes -/
def AttsLe (atts' atts : List Att) : Prop :=
  ∀ a ∈ atts', ∃ b ∈ atts, b.nonce = a.nonce ∧ b.hash = a.hash ∧ b.votes = a.votes

theorem V1_of_le {atts' atts : List Att} {ln : Map Nat} {ret : List Nat} (hle : AttsLe atts' atts) (h : V1 atts ln ret) :
    V1 atts' ln ret := by
  intro a ha o ho
  obtain ⟨b, hb, hn, _, hv⟩ := hle a ha
  have := h b hb o (hv ▸ ho)
  rw [hn] at this; exact this

theorem V2_of_le {atts' atts : List Att} (hle : AttsLe atts' atts) (h : V2 atts) : V2 atts' := by
  refine ⟨?_, ?_⟩
  · intro a ha
    obtain ⟨b, hb, _, _, hv⟩ := hle a ha
    rw [← hv]; exact h.1 b hb
  · intro a ha b hb o hn hoa hob
    obtain ⟨a', ha', han, hah, hav⟩ := hle a ha
    obtain ⟨b', hb', hbn, hbh, hbv⟩ := hle b hb
    have := h.2 a' ha' b' hb' o (by rw [han, hbn]; exact hn) (hav ▸ hoa) (hbv ▸ hob)
    rw [← hah, ← hbh]; exact this

theorem attsLe_refl (l : List Att) : AttsLe l l := fun a ha => ⟨a, ha, rfl, rfl, rfl⟩

theorem tryAttest_attsLe (s : State) (att : Att) (kind : Kind) (hin : att ∈ s.atts) :
    AttsLe (tryAttest s att kind).atts s.atts := by
  cases ht : tally s.oracles (required s.lastTotalPower) att.votes 0
  · rw [tryAttest_false s att kind ht]; exact attsLe_refl _
  · obtain ⟨_, h2, _⟩ := tryAttest_true s att kind ht
    intro a ha
    rw [h2] at ha
    rcases mem_setAtt (mem_prune ha) with h | h
    · subst h; exact ⟨att, hin, rfl, rfl, rfl⟩
    · exact ⟨a, h, rfl, rfl, rfl⟩

theorem voteAtt_votes (s : State) (o n h : Nat) :
    ∃ vs0, (voteAtt s o n h).votes = vs0 ++ [o] ∧
      ((∃ a0 ∈ s.atts, a0.nonce = n ∧ a0.hash = h ∧ a0.votes = vs0) ∨ vs0 = []) := by
  unfold voteAtt
  split
  · rename_i a hf
    have := findAtt_some hf
    exact ⟨a.votes, rfl, Or.inl ⟨a, this.1, this.2.1, this.2.2, rfl⟩⟩
  · exact ⟨[], rfl, Or.inr rfl⟩

theorem effLast_of_get {s : State} {o v : Nat} (h : s.lastNonce.get o = some v) : effLast s o = v := by
  simp [effLast, h]

theorem attest_lastNonce (s : State) (o n h : Nat) (kind : Kind) : (attest s o n h kind).lastNonce = s.lastNonce.set o n := by
  unfold attest
  simp only []
  split
  · cases ht : tally s.oracles (required s.lastTotalPower) (voteAtt s o n h).votes 0
    · rw [tryAttest_false _ _ _ (by simpa using ht)]
    · obtain ⟨_, _, _, _, _, h6, _⟩ := tryAttest_true { s with atts := setAtt s.atts (voteAtt s o n h) } (voteAtt s o n h) kind (by simpa using ht)
      simp at h6; simp [h6]
  · rfl

theorem attest_retired (s : State) (o n h : Nat) (kind : Kind) : (attest s o n h kind).retired = s.retired := by
  unfold attest
  simp only []
  split
  · unfold tryAttest
    split
    · cases kind <;> rfl
    · rfl
  · rfl

theorem votes_attest (s : State) (o n h : Nat) (kind : Kind) (ret : List Nat) (h1 : V1 s.atts s.lastNonce ret) (h2 : V2 s.atts)
    (hn : n = effLast s o + 1) (hret : o ∉ ret) :
    V1 (attest s o n h kind).atts (attest s o n h kind).lastNonce ret ∧ V2 (attest s o n h kind).atts := by
  have hk := voteAtt_key s o n h
  obtain ⟨vs0, hvs, hvs0⟩ := voteAtt_votes s o n h
  -- the voting oracle has no vote at a nonce ≥ n yet
  have hA : ∀ a ∈ s.atts, o ∈ a.votes → a.nonce < n := by
    intro a ha ho
    rcases h1 a ha o ho with ⟨v, hv, hle⟩ | hr
    · rw [effLast_of_get hv] at hn; omega
    · exact absurd hr hret
  have hvs0' : ∀ o' ∈ vs0, ∃ a0 ∈ s.atts, a0.nonce = n ∧ a0.hash = h ∧ o' ∈ a0.votes := by
    intro o' ho'
    rcases hvs0 with ⟨a0, ha0, hn0, hh0, hv0⟩ | hnil
    · exact ⟨a0, ha0, hn0, hh0, hv0 ▸ ho'⟩
    · subst hnil; simp at ho'
  have ho_not : o ∉ vs0 := by
    intro hc
    obtain ⟨a0, ha0, hn0, _, hoa⟩ := hvs0' o hc
    have := hA a0 ha0 hoa; omega
  -- invariants for the list with the vote recorded and the last nonce advanced
  have hV1 : V1 (setAtt s.atts (voteAtt s o n h)) (s.lastNonce.set o n) ret := by
    intro a ha o' ho'
    by_cases heq : o' = o
    · subst heq
      refine Or.inl ⟨n, get_set_self _ _ _, ?_⟩
      rcases mem_setAtt ha with h3 | h3
      · rw [h3, hk.1]; exact Nat.le_refl _
      · exact Nat.le_of_lt (hA a h3 ho')
    · rw [get_set_ne _ _ _ _ (Ne.symm heq)]
      rcases mem_setAtt ha with h3 | h3
      · rw [h3, hvs] at ho'
        rcases List.mem_append.mp ho' with h4 | h4
        · obtain ⟨a0, ha0, hn0, _, hoa⟩ := hvs0' o' h4
          have := h1 a0 ha0 o' hoa
          rw [h3, hk.1, ← hn0]; exact this
        · simp at h4; exact absurd h4 heq
      · exact h1 a h3 o' ho'
  have hV2 : V2 (setAtt s.atts (voteAtt s o n h)) := by
    refine ⟨?_, ?_⟩
    · intro a ha
      rcases mem_setAtt ha with h3 | h3
      · rw [h3, hvs, List.nodup_append]
        refine ⟨?_, by simp, ?_⟩
        · rcases hvs0 with ⟨a0, ha0, _, _, hv0⟩ | hnil
          · rw [← hv0]; exact h2.1 a0 ha0
          · subst hnil; simp
        · intro x hx y hy
          simp at hy; subst hy
          intro hxy; subst hxy; exact ho_not hx
      · exact h2.1 a h3
    · -- a vote shared by the new attestation and a stored one of the same nonce
      have key : ∀ b ∈ s.atts, ∀ o', b.nonce = n → o' ∈ (voteAtt s o n h).votes → o' ∈ b.votes → b.hash = h := by
        intro b hb o' hbn hov hob
        rw [hvs] at hov
        rcases List.mem_append.mp hov with h4 | h4
        · obtain ⟨a0, ha0, hn0, hh0, hoa⟩ := hvs0' o' h4
          have := h2.2 a0 ha0 b hb o' (by rw [hn0, hbn]) hoa hob
          rw [← this, hh0]
        · simp at h4; subst h4
          have := hA b hb hob; omega
      intro a ha b hb o' hnab hoa hob
      rcases mem_setAtt ha with h3 | h3 <;> rcases mem_setAtt hb with h4 | h4
      · rw [h3, h4]
      · rw [h3] at hnab hoa ⊢
        rw [hk.2]
        exact (key b h4 o' (by rw [← hnab, hk.1]) hoa hob).symm
      · rw [h4] at hnab hob ⊢
        rw [hk.2]
        exact key a h3 o' (by rw [hnab, hk.1]) hob hoa
      · exact h2.2 a h3 b h4 o' hnab hoa hob
  -- the rest of `attest` only flips the observed flag / prunes
  have hle : AttsLe (attest s o n h kind).atts (setAtt s.atts (voteAtt s o n h)) := by
    unfold attest
    simp only []
    split
    · exact tryAttest_attsLe { s with atts := setAtt s.atts (voteAtt s o n h) } _ kind (mem_setAtt_self _ _)
    · exact attsLe_refl _
  rw [attest_lastNonce]
  exact ⟨V1_of_le hle hV1, V2_of_le hle hV2⟩

/-- an op that cannot delete a per-oracle last nonce -/
def Op.keepsLastNonce : Op → Bool
  | .unbond _ _ _ _ => !unbondDeletesLastNonce
  | _ => true

/-- the op is not a bond of a retired oracle -/
def opOk (s : State) : Op → Bool
  | .bond o _ _ _ _ => !s.retired.contains o
  | _ => true

structure VInv (s : State) : Prop where
  v1 : V1 s.atts s.lastNonce s.retired
  v2 : V2 s.atts
  r1 : ∀ o ∈ s.retired, s.oracles.get o = none

theorem unbond_lastNonce (s : State) (o : Nat) (u : Bool) (bal : Nat) (d : Bool) (hk : unbondDeletesLastNonce = false) :
    (unbondStep s o u bal d).1.lastNonce = s.lastNonce := by
  unfold unbondStep unbondApply
  repeat' split
  all_goals simp_all

theorem core_atts {s s' : State} (h : Core s' = Core s) : s'.atts = s.atts := by
  simp only [Core, Prod.mk.injEq] at h; exact h.2.1

theorem bond_retired (s : State) (o b e a : Nat) (d : Bool) : (bondStep s o b e a d).1.retired = s.retired := by
  unfold bondStep
  repeat' split
  all_goals simp [refresh]

theorem addDelegate_retired (s : State) (o a : Nat) (d : Bool) : (addDelegateStep s o a d).1.retired = s.retired := by
  unfold addDelegateStep addDelegateTo
  repeat' split
  all_goals simp [refresh]

theorem editBridger_retired (s : State) (o b : Nat) : (editBridgerStep s o b).1.retired = s.retired := by
  unfold editBridgerStep
  repeat' split
  all_goals simp

theorem gov_retired (s : State) (l : List Nat) (d : Bool) : (govStep s l d).1.retired = s.retired := by
  unfold govStep
  repeat' split
  all_goals simp [refresh]

theorem endBlock_retired (s : State) (l : List Nat) (r : Bool) : (endBlockStep s l r).1.retired = s.retired := by
  unfold endBlockStep
  repeat' split
  all_goals simp [refresh]

/-- `m'` has no oracle that `m` does not have -/
def NoNew (m m' : Map Oracle) : Prop := ∀ a, m.get a = none → m'.get a = none

theorem NoNew_refl (m : Map Oracle) : NoNew m m := fun _ h => h

theorem NoNew_set (m : Map Oracle) (o : Nat) (orc new : Oracle) (hg : m.get o = some orc) : NoNew m (m.set o new) := by
  intro a ha
  by_cases h : o = a
  · subst h; rw [hg] at ha; cases ha
  · rw [get_set_ne _ _ _ _ h]; exact ha

theorem NoNew_map (m : Map Oracle) (f : Nat × Oracle → Nat × Oracle) (hk : ∀ p, (f p).1 = p.1) : NoNew m (m.map f) := by
  intro a h
  induction m with
  | nil => simp [Map.get]
  | cons q r ih =>
    obtain ⟨k', v'⟩ := q
    have e : f (k', v') = (k', (f (k', v')).2) := by
      have := hk (k', v'); exact Prod.ext this rfl
    by_cases h1 : k' = a
    · simp [Map.get, h1] at h
    · simp [Map.get, h1] at h
      rw [List.map_cons, e]; simp [Map.get, h1]; exact ih h

theorem NoNew_slashOne (m : Map Oracle) (o : Nat) : NoNew m (slashOne m o) := by
  unfold slashOne
  split
  · rename_i orc hg
    split
    · exact NoNew_set m o orc _ hg
    · exact NoNew_refl _
  · exact NoNew_refl _

theorem NoNew_foldl_slashOne (l : List Nat) (m : Map Oracle) : NoNew m (l.foldl slashOne m) := by
  induction l generalizing m with
  | nil => exact NoNew_refl _
  | cons o r ih => exact fun a h => ih _ a (NoNew_slashOne m o a h)

theorem vinv_frame {s s' : State} (ha : s'.atts = s.atts) (hl : s'.lastNonce = s.lastNonce) (hr : s'.retired = s.retired)
    (hn : NoNew s.oracles s'.oracles) (h : VInv s) : VInv s' :=
  ⟨by rw [ha, hl, hr]; exact h.v1, by rw [ha]; exact h.v2, by rw [hr]; exact fun o ho => hn o (h.r1 o ho)⟩

theorem vinv_step (s : State) (op : Op) (hop : opOk s op = true) (hV : VInv s) : VInv (step s op).1 := by
  cases op with
  | claim w i n h k e =>
    simp only [step]
    by_cases hok : (claimStep s w i n h k).2 = .ok
    · obtain ⟨a, orc, _, hgo, _, hn, _, _, heq⟩ := claim_ok s w i n h k hok
      have hret : a ∉ s.retired := by
        intro hc; have := hV.r1 a hc; rw [hgo] at this; cases this
      have hv := votes_attest s a n h k s.retired hV.v1 hV.v2 hn hret
      have hreg := attest_registry s a n h k
      rw [heq]
      exact ⟨by rw [attest_retired]; exact hv.1, hv.2, by rw [attest_retired, hreg.1]; exact hV.r1⟩
    · rw [claim_not_ok s w i n h k hok]; exact hV
  | bond o b e a d =>
    simp only [step]
    refine ⟨by rw [core_atts (bond_core s o b e a d).1, (bond_core s o b e a d).2, bond_retired]; exact hV.v1,
      by rw [core_atts (bond_core s o b e a d).1]; exact hV.v2, ?_⟩
    rw [bond_retired]
    intro r hr
    have hne : o ≠ r := by
      intro hc; subst hc; simp [opOk] at hop; exact hop hr
    have := hV.r1 r hr
    unfold bondStep
    repeat' split
    all_goals first | exact this | (simp only [applyRefresh_oracles]; rw [get_set_ne _ _ _ _ hne]; exact this)
  | addDelegate o a d =>
    simp only [step]
    refine vinv_frame (core_atts (addDelegate_core s o a d).1) (addDelegate_core s o a d).2 (addDelegate_retired s o a d) ?_ hV
    unfold addDelegateStep addDelegateTo
    repeat' split
    all_goals first | exact NoNew_refl _ | skip
    all_goals
      rename_i orc hg _ _ _ _ _
      simp only [applyRefresh_oracles]
      exact NoNew_set s.oracles o orc _ hg
  | editBridger o b =>
    simp only [step]
    refine vinv_frame (core_atts (editBridger_core s o b).1) (editBridger_core s o b).2 (editBridger_retired s o b) ?_ hV
    unfold editBridgerStep
    repeat' split
    all_goals first | exact NoNew_refl _ | skip
    rename_i orc hg _ _ _
    exact NoNew_set s.oracles o orc _ hg
  | unbond o u bal d =>
    simp only [step]
    rcases unbond_cases s o u bal d with h | ⟨orc, _, _, h⟩
    · rw [h]; exact hV
    · rw [h]
      have hr1 : ∀ r ∈ s.retired, (s.oracles.del o).get r = none := by
        intro r hr
        by_cases h' : o = r
        · subst h'; exact get_del_self _ _
        · rw [get_del_ne _ _ _ h']; exact hV.r1 r hr
      unfold unbondApply
      by_cases hk : unbondDeletesLastNonce = true
      · -- the key is deleted and the oracle retired
        simp only [hk, if_true]
        refine ⟨?_, hV.v2, ?_⟩
        · intro a ha o' ho'
          rcases hV.v1 a ha o' ho' with ⟨v, hv, hle⟩ | hr
          · by_cases h' : o = o'
            · subst h'; exact Or.inr List.mem_cons_self
            · exact Or.inl ⟨v, by simp only []; rw [get_del_ne _ _ _ h']; exact hv, hle⟩
          · exact Or.inr (List.mem_cons_of_mem _ hr)
        · intro r hr
          rcases List.mem_cons.mp hr with h1 | h1
          · subst h1; exact get_del_self _ _
          · exact hr1 r h1
      · -- the key is kept
        simp only [hk]
        exact ⟨hV.v1, hV.v2, hr1⟩
  | gov l d =>
    simp only [step]
    refine vinv_frame (core_atts (gov_core s l d).1) (gov_core s l d).2 (gov_retired s l d) ?_ hV
    unfold govStep
    repeat' split
    all_goals first | exact NoNew_refl _ | skip
    all_goals
      refine NoNew_map s.oracles _ ?_
      intro p; split <;> rfl
  | endBlock l r =>
    simp only [step]
    refine vinv_frame (core_atts (endBlock_core s l r).1) (endBlock_core s l r).2 (endBlock_retired s l r) ?_ hV
    unfold endBlockStep
    split
    all_goals exact NoNew_foldl_slashOne l s.oracles
  | exec n o c =>
    simp only [step]
    obtain ⟨P, L, h⟩ := exec_frame s n o c
    rw [h]; exact ⟨hV.v1, hV.v2, hV.r1⟩

theorem vinv_init (p : Params) : VInv (init p) := by
  refine ⟨?_, ⟨?_, ?_⟩, ?_⟩ <;> (intro a ha; simp [init] at ha)

theorem noRebond_cons (s : State) (op : Op) (r : List Op) (h : noRebond s (op :: r) = true) :
    opOk s op = true ∧ noRebond (step s op).1 r = true := by
  cases op <;> simp_all [noRebond, opOk]

theorem vinv_run (s : State) (ops : List Op) (hops : noRebond s ops = true) (hV : VInv s) : VInv (run s ops) := by
  induction ops generalizing s with
  | nil => exact hV
  | cons op r ih =>
    have := noRebond_cons s op r hops
    exact ih _ this.2 (vinv_step s op this.1 hV)

/-- on a tree where `UnbondedOracle` keeps the per-oracle last nonce nothing is ever retired, so every history qualifies -/
theorem retired_step (s : State) (op : Op) (hk : unbondDeletesLastNonce = false) (h : s.retired = []) : (step s op).1.retired = [] := by
  cases op with
  | claim w i n h' k e =>
    simp only [step]
    by_cases hok : (claimStep s w i n h' k).2 = .ok
    · obtain ⟨a, _, _, _, _, _, _, _, heq⟩ := claim_ok s w i n h' k hok
      rw [heq, attest_retired]; exact h
    · rw [claim_not_ok s w i n h' k hok]; exact h
  | bond o b e a d => simp only [step]; rw [bond_retired]; exact h
  | addDelegate o a d => simp only [step]; rw [addDelegate_retired]; exact h
  | editBridger o b => simp only [step]; rw [editBridger_retired]; exact h
  | unbond o u bal d =>
    simp only [step]; unfold unbondStep unbondApply
    repeat' split
    all_goals simp_all
  | gov l d => simp only [step]; rw [gov_retired]; exact h
  | endBlock l r => simp only [step]; rw [endBlock_retired]; exact h
  | exec n o c =>
    simp only [step]
    obtain ⟨P, L, h'⟩ := exec_frame s n o c
    rw [h']; exact h

theorem noRebond_of_kept (hk : unbondDeletesLastNonce = false) (s : State) (ops : List Op) (h : s.retired = []) :
    noRebond s ops = true := by
  induction ops generalizing s with
  | nil => rfl
  | cons op r ih =>
    have hn := ih _ (retired_step s op hk h)
    cases op <;> simp_all [noRebond]

/-! ## the two ghost logs only grow from one operation to the next -/

theorem run_append (s : State) (a b : List Op) : run s (a ++ b) = run (run s a) b := by
  induction a generalizing s with
  | nil => rfl
  | cons op r ih => exact ih _

theorem attest_logs (s : State) (o n h : Nat) (kind : Kind) :
    (∃ l, (attest s o n h kind).observedLog = s.observedLog ++ l) ∧ (attest s o n h kind).executedLog = s.executedLog := by
  unfold attest
  simp only []
  split
  · cases ht : tally s.oracles (required s.lastTotalPower) (voteAtt s o n h).votes 0
    · rw [tryAttest_false _ _ _ (by simpa using ht)]; exact ⟨⟨[], by simp⟩, rfl⟩
    · obtain ⟨_, _, h3, _, h5, _⟩ := tryAttest_true { s with atts := setAtt s.atts (voteAtt s o n h) } (voteAtt s o n h) kind (by simpa using ht)
      exact ⟨⟨_, h3⟩, h5⟩
  · exact ⟨⟨[], by simp⟩, rfl⟩

/-- every forest of calls extends the execution log it starts from (roll-backs inside the forest never reach below it) -/
theorem execCalls_log_extends (df : Bool) (c : Calls) (p : Px) : ∃ l, (execCallsWith df p c).log = p.log ++ l := by
  induction c generalizing p with
  | nil => exact ⟨[], by simp [execCallsWith]⟩
  | call n o inner next ihI ihN =>
    unfold execCallsWith
    simp only []
    split
    · exact ihN _
    · cases o with
      | fail => exact ihN _
      | refund =>
        obtain ⟨l, hl⟩ := ihN { pending := delPending p.pending n, log := p.log ++ [n] }
        exact ⟨[n] ++ l, by rw [hl]; simp⟩
      | ok =>
        obtain ⟨l1, h1⟩ := ihI { pending := if df = true then delPending p.pending n else p.pending, log := p.log ++ [n] }
        obtain ⟨l2, h2⟩ := ihN { execCallsWith df { pending := if df = true then delPending p.pending n else p.pending, log := p.log ++ [n] } inner with
          pending := if df = true then (execCallsWith df { pending := if df = true then delPending p.pending n else p.pending, log := p.log ++ [n] } inner).pending
            else delPending (execCallsWith df { pending := if df = true then delPending p.pending n else p.pending, log := p.log ++ [n] } inner).pending n }
        refine ⟨[n] ++ l1 ++ l2, ?_⟩
        rw [h2]; simp only []; rw [h1]; simp

theorem logs_step (s : State) (op : Op) :
    (∃ l, (step s op).1.observedLog = s.observedLog ++ l) ∧ (∃ l, (step s op).1.executedLog = s.executedLog ++ l) := by
  have core : ∀ s' : State, Core s' = Core s →
      (∃ l, s'.observedLog = s.observedLog ++ l) ∧ (∃ l, s'.executedLog = s.executedLog ++ l) := by
    intro s' h
    simp only [Core, Prod.mk.injEq] at h
    exact ⟨⟨[], by simp [h.2.2.2.1]⟩, ⟨[], by simp [h.2.2.2.2]⟩⟩
  cases op with
  | claim w i n h k e =>
    simp only [step]
    by_cases hok : (claimStep s w i n h k).2 = .ok
    · obtain ⟨a, _, _, _, _, _, _, _, heq⟩ := claim_ok s w i n h k hok
      rw [heq]
      obtain ⟨h1, h2⟩ := attest_logs s a n h k
      exact ⟨h1, ⟨[], by simp [h2]⟩⟩
    · rw [claim_not_ok s w i n h k hok]; exact ⟨⟨[], by simp⟩, ⟨[], by simp⟩⟩
  | bond o b e a d => exact core _ (bond_core s o b e a d).1
  | addDelegate o a d => exact core _ (addDelegate_core s o a d).1
  | editBridger o b => exact core _ (editBridger_core s o b).1
  | unbond o u bal d => exact core _ (unbond_core s o u bal d)
  | gov l d => exact core _ (gov_core s l d).1
  | endBlock l r => exact core _ (endBlock_core s l r).1
  | exec n o c =>
    simp only [step]
    unfold execStep
    split
    · exact ⟨⟨[], by simp⟩, ⟨[], by simp⟩⟩
    · split
      · exact ⟨⟨[], by simp⟩, ⟨[], by simp⟩⟩
      · obtain ⟨l, hl⟩ := execCalls_log_extends execDeletesBeforeHandler (.call n o c .nil) { pending := s.pending, log := s.executedLog }
        exact ⟨⟨[], by simp⟩, ⟨l, by simp only [execCalls]; rw [hl]⟩⟩

theorem logs_run (s : State) (ops : List Op) :
    (∃ l, (run s ops).observedLog = s.observedLog ++ l) ∧ (∃ l, (run s ops).executedLog = s.executedLog ++ l) := by
  induction ops generalizing s with
  | nil => exact ⟨⟨[], by simp [run]⟩, ⟨[], by simp [run]⟩⟩
  | cons op r ih =>
    obtain ⟨⟨l1, h1⟩, ⟨l2, h2⟩⟩ := logs_step s op
    obtain ⟨⟨l3, h3⟩, ⟨l4, h4⟩⟩ := ih (step s op).1
    exact ⟨⟨l1 ++ l3, by simp only [run]; rw [h3, h1]; simp⟩, ⟨l2 ++ l4, by simp only [run]; rw [h4, h2]; simp⟩⟩

end FxVerif.Proofs.C01
