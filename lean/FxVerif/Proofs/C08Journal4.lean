import FxVerif.Proofs.C08Journal
/-! helper lemmas for the journal model, round 4: a sub-call frame that fails AFTER completing keeper-level calls.

`RevertToSnapshot` restores the native store (whatever the keeper-level calls of the frame wrote is gone) but not
`originStorage`.  The frame is invisible afterwards exactly when every value it left in the origin cache is the value the
RESTORED store holds for that slot (`OriginAgrees`): the slots the running EVM loaded during the frame were not changed by
the frame's keeper-level calls before they were loaded.  "The frame completed no keeper-level call" (`noNestedSuccess`,
round 3) is the special case in which the store never moved. -/
namespace FxVerif.Proofs.C08Cache
open FxVerif.Model.C08Cache

/-- `b` is a later state of the same frame as `a` (the native store may have moved): dirty slots stay dirty, origin entries
stay as they are -/
structure ExtC (a b : Outer) : Prop where
  dirty_keep : ∀ k, (lookup k a.dirty).isSome → (lookup k b.dirty).isSome
  origin_keep : ∀ k w, lookup k a.origin = some w → lookup k b.origin = some w

theorem extC_refl (a : Outer) : ExtC a a := ⟨fun _ h => h, fun _ _ h => h⟩

theorem extC_of_ext {a b : Outer} (h : Ext a b) : ExtC a b := ⟨h.dirty_keep, h.origin_keep⟩

theorem extC_trans {a b c : Outer} (h1 : ExtC a b) (h2 : ExtC b c) : ExtC a c :=
  ⟨fun k h => h2.dirty_keep k (h1.dirty_keep k h), fun k w h => h2.origin_keep k w (h1.origin_keep k w h)⟩

theorem lookup_mem {k : Slot} {w : Nat} {l : List (Slot × Nat)} (h : lookup k l = some w) : (k, w) ∈ l := by
  induction l with
  | nil => cases h
  | cons x xs ih =>
    obtain ⟨k', v'⟩ := x
    by_cases e : k' = k
    · subst e; simp [lookup] at h; subst h; simp
    · simp [lookup, e] at h; exact List.mem_cons_of_mem _ (ih h)

theorem originAgreesB_iff (snap cur : Outer) : originAgreesB snap cur = true ↔ OriginAgrees snap cur := by
  simp only [originAgreesB, OriginAgrees, List.all_eq_true]
  constructor
  · intro h k w hl
    have := h (k, w) (lookup_mem hl)
    simp only [hl] at this
    simpa using this
  · intro h kv _
    cases hl : lookup kv.1 cur.origin with
    | none => rfl
    | some w => simp only; simpa using h _ _ hl

/-- **reverting a frame gives back the snapshot's view and consistent caches** — whatever the frame did to the native
store, as long as the origin cache it leaves agrees with the restored store -/
theorem revertTo_spec_general (snap cur : Outer) (hs : Cons snap) (hcd : ∀ k v, lookup k cur.dirty = some v → (lookup k cur.origin).isSome)
    (he : ExtC snap cur) (hstore : OriginAgrees snap cur) :
    (snap.revertTo cur).view = snap.view ∧ Cons (snap.revertTo cur) := by
  have hd : ∀ k, lookup k (snap.revertTo cur).dirty =
      (lookup k cur.dirty).map (fun _ => match lookup k snap.dirty with
        | some v => v
        | none => (lookup k cur.origin).getD 0) := by
    intro k
    simp only [Outer.revertTo]
    exact lookup_map_val (fun k => match lookup k snap.dirty with
        | some v => v
        | none => (lookup k cur.origin).getD 0) k cur.dirty
  constructor
  · funext k
    simp only [Outer.view]
    rw [hd k]
    cases hcdk : lookup k cur.dirty with
    | some x =>
      simp only [Option.map_some]
      cases hsd : lookup k snap.dirty with
      | some v0 => rfl
      | none =>
        simp only
        have := hcd _ _ hcdk
        cases hco : lookup k cur.origin with
        | none => rw [hco] at this; cases this
        | some w =>
          simp only [Option.getD_some]
          have hw := hstore _ _ hco
          cases hso : lookup k snap.origin with
          | none => exact hw.symm
          | some w' => simp only; rw [← hw]; exact hs.origin_ok _ _ hso
    | none =>
      simp only [Option.map_none]
      have hsd : lookup k snap.dirty = none := by
        cases hx : lookup k snap.dirty with
        | none => rfl
        | some v => have := he.dirty_keep k (by rw [hx]; rfl); rw [hcdk] at this; cases this
      rw [hsd]
      simp only [Outer.revertTo]
      cases hco : lookup k cur.origin with
      | some w =>
        simp only
        have hw := hstore _ _ hco
        cases hso : lookup k snap.origin with
        | none => exact hw.symm
        | some w' => simp only; rw [← hw]; exact hs.origin_ok _ _ hso
      | none =>
        simp only
        cases hso : lookup k snap.origin with
        | none => rfl
        | some w' => have := he.origin_keep _ _ hso; rw [hco] at this; cases this
  · constructor
    · intro k v h
      exact hstore k v h
    · intro k v h
      rw [hd k] at h
      cases hcdk : lookup k cur.dirty with
      | none => rw [hcdk] at h; cases h
      | some x => exact hcd _ _ hcdk

/-- along a COHERENT frame that fails — wherever it fails, after however many completed keeper-level calls — the state at
the point of failure extends the caches of the snapshot and is consistent with ITS OWN store -/
theorem runTxF_fail_extC (g : List MStep) (a : Outer) (s : TxSt) (he : ExtC a s.o) (hc : Cons s.o)
    (hco : CoherentTx g s) (hf : (runTxF g s).2 = false) :
    ExtC a (runTxF g s).1.o ∧ Cons (runTxF g s).1.o := by
  induction g generalizing s with
  | nil => simp [runTxF] at hf
  | cons st rest ih =>
    cases st with
    | evm p pay =>
      have he1 := extC_trans he (extC_of_ext (ext_runOuter p (ext_refl s.o)))
      obtain ⟨_, _, hc1, _⟩ := runOuter_refines p s.o hc
      simp only [runTxF, CoherentTx] at hf hco ⊢
      cases hr : runOuter p s.o with
      | mk ok o1 =>
        rw [hr] at he1 hc1 hf hco
        (try simp only at he1 hc1 hf hco ⊢)
        cases ok with
        | false => exact ⟨he1, hc1⟩
        | true =>
          (try simp only at hf hco ⊢)
          by_cases hp : s.esc < pay
          · simp only [hp, ↓reduceIte]; exact ⟨he1, hc1⟩
          · simp only [hp, ↓reduceIte] at hf ⊢
            have hco' : CoherentTx rest ⟨o1, s.esc - pay⟩ := by
              rcases hco with h | h
              · exact absurd h hp
              · exact h
            exact ih ⟨o1, s.esc - pay⟩ he1 hc1 hco' hf
    | nested p pay gain =>
      simp only [runTxF, CoherentTx] at hf hco ⊢
      obtain ⟨hdis, hco⟩ := hco
      obtain ⟨_, n2⟩ := nested_coherent p s.o hc hdis
      cases hr : nestedCall p s.o.store with
      | mk ok st' =>
        rw [hr] at hf hco n2
        (try simp only at hf hco n2 ⊢)
        cases ok with
        | false => exact ⟨he, hc⟩
        | true =>
          (try simp only at hf hco ⊢)
          by_cases hp : s.esc < pay
          · simp only [hp, ↓reduceIte]; exact ⟨he, hc⟩
          · simp only [hp, ↓reduceIte] at hf ⊢
            have hco' : CoherentTx rest ⟨{ s.o with store := st' }, s.esc - pay + gain⟩ := by
              rcases hco with h | h
              · exact absurd h hp
              · exact h
            exact ih ⟨{ s.o with store := st' }, s.esc - pay + gain⟩ ⟨he.dirty_keep, he.origin_keep⟩ (n2 rfl).2 hco' hf

/-- **coherent transactions with swallowed sub-call failures, frames failing anywhere** -/
theorem runTxX_coherentG (steps : List XStep) (s : TxSt) (h : Cons s.o) (hc : CoherentXG steps s) :
    (runTxX steps s).map (fun s' => (s'.o.view, s'.esc)) = runSeqX steps (s.o.view, s.esc) ∧
    ∀ s', runTxX steps s = some s' → Cons s'.o := by
  induction steps generalizing s with
  | nil => exact ⟨rfl, fun s' hs => by simp [runTxX] at hs; subst hs; exact h⟩
  | cons st rest ih =>
    cases st with
    | plain m =>
      simp only [CoherentXG] at hc
      obtain ⟨hc1, hc2⟩ := hc
      obtain ⟨r1, r2⟩ := runTx_coherent [m] s h hc1
      simp only [runTxX, runSeqX]
      cases hr : runTx [m] s with
      | none =>
        rw [hr] at r1; simp only [Option.map_none] at r1
        rw [← r1]; exact ⟨rfl, fun _ hs => by cases hs⟩
      | some s1 =>
        rw [hr] at r1 hc2; simp only [Option.map_some] at r1 hc2
        rw [← r1]
        exact ih s1 (r2 s1 hr) hc2
    | attempt g =>
      simp only [CoherentXG] at hc
      obtain ⟨hc1, hc2⟩ := hc
      obtain ⟨r1, r2⟩ := runTx_coherent g s h hc1
      obtain ⟨f1, f2⟩ := runTxF_runTx g s
      simp only [runTxX, runSeqX]
      cases hF : runTxF g s with
      | mk s1 ok =>
        rw [hF] at hc2 f1 f2
        simp only at hc2 f1 f2 ⊢
        cases ok with
        | true =>
          have hr := f1 rfl
          rw [hr] at r1; simp only [Option.map_some] at r1
          rw [← r1]
          exact ih s1 (r2 s1 hr) hc2
        | false =>
          have hr := f2 rfl
          rw [hr] at r1; simp only [Option.map_none] at r1
          rw [← r1]
          obtain ⟨hn, hc3⟩ := hc2
          have hx := runTxF_fail_extC g s.o s (extC_refl _) h hc1 (by rw [hF])
          rw [hF] at hx
          obtain ⟨v1, v2⟩ := revertTo_spec_general s.o s1.o h hx.2.dirty_ok hx.1 hn
          have := ih ⟨s.o.revertTo s1.o, s.esc⟩ v2 hc3
          simp only [v1] at this
          exact this

theorem txResultX_coherentG (steps : List XStep) (st : Store) (esc : Nat)
    (hc : CoherentXG steps ⟨{ store := st }, esc⟩) : txResultX steps st esc = seqResultX steps st esc := by
  obtain ⟨h1, h2⟩ := runTxX_coherentG steps ⟨{ store := st }, esc⟩ (cons_fresh st) hc
  have hv : ({ store := st } : Outer).view = st := by funext k; simp [Outer.view, lookup]
  simp only [hv] at h1
  simp only [txResultX, seqResultX]
  cases hr : runTxX steps ⟨{ store := st }, esc⟩ with
  | none => rw [hr] at h1; simp only [Option.map_none] at h1; rw [← h1]
  | some s' =>
    rw [hr] at h1; simp only [Option.map_some] at h1
    rw [← h1]
    show (true, s'.o.commit, s'.esc) = (true, s'.o.view, s'.esc)
    rw [commit_eq_view _ (h2 s' hr)]

/-- the round-3 condition (a failing frame completed no keeper-level call) is a special case of the general one -/
theorem coherentX_imp_general (steps : List XStep) (s : TxSt) (h : Cons s.o) (hc : CoherentX steps s) :
    CoherentXG steps s := by
  induction steps generalizing s with
  | nil => trivial
  | cons st rest ih =>
    cases st with
    | plain m =>
      simp only [CoherentX, CoherentXG] at hc ⊢
      obtain ⟨hc1, hc2⟩ := hc
      refine ⟨hc1, ?_⟩
      obtain ⟨_, r2⟩ := runTx_coherent [m] s h hc1
      cases hr : runTx [m] s with
      | none => trivial
      | some s1 => rw [hr] at hc2; exact ih s1 (r2 s1 hr) hc2
    | attempt g =>
      simp only [CoherentX, CoherentXG] at hc ⊢
      obtain ⟨hc1, hc2⟩ := hc
      refine ⟨hc1, ?_⟩
      obtain ⟨_, r2⟩ := runTx_coherent g s h hc1
      obtain ⟨f1, _⟩ := runTxF_runTx g s
      cases hF : runTxF g s with
      | mk s1 ok =>
        rw [hF] at hc2 f1
        simp only at hc2 f1 ⊢
        cases ok with
        | true => exact ih s1 (r2 s1 (f1 rfl)) hc2
        | false =>
          obtain ⟨hn, hc3⟩ := hc2
          have hx := runTxF_fail_ext g s.o s (ext_refl _) h hn (by rw [hF])
          rw [hF] at hx
          have hag : OriginAgrees s.o s1.o := by
            intro k w hl
            rw [← hx.1.store_eq]; exact hx.2.origin_ok _ _ hl
          refine ⟨hag, ?_⟩
          obtain ⟨_, v2⟩ := revertTo_spec s.o s1.o h hx.2 hx.1
          exact ih ⟨s.o.revertTo s1.o, s.esc⟩ v2 hc3

theorem coherentXGB_iff (steps : List XStep) (s : TxSt) : coherentXGB steps s = true ↔ CoherentXG steps s := by
  induction steps generalizing s with
  | nil => simp [coherentXGB, CoherentXG]
  | cons st rest ih =>
    cases st with
    | plain m =>
      simp only [coherentXGB, CoherentXG, Bool.and_eq_true, coherentTxB_iff]
      cases runTx [m] s with
      | none => simp
      | some s1 => simp [ih]
    | attempt g =>
      simp only [coherentXGB, CoherentXG, Bool.and_eq_true, coherentTxB_iff]
      cases runTxF g s with
      | mk s1 ok =>
        cases ok with
        | true => simp [ih]
        | false => simp [ih, originAgreesB_iff]

end FxVerif.Proofs.C08Cache
