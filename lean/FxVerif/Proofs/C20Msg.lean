import FxVerif.Model.C20Msg
/-!
# C20 — soundness of the syntactic checks on message-validation programs

For EVERY program table, program, set of facts and environment:

* `facts_hold`: the facts collected from a condition's value are true of the environment;
* `cond_safe_sound`: a condition accepted by `Cond.safe` under true facts evaluates (no dereference of something absent);
* `safeAt_sound`: if `safeAt t fuel name` then `runAt t fuel name env ≠ .panic` — the validation function never panics;
* `needAt_sound`: if `needAt t n fuel [] name` then every environment on which the function returns nil satisfies `n`.
-/
namespace FxVerif.Proofs.C20Msg
open FxVerif.Model.C20Msg
open FxVerif.Model.C20Args (Cmp)

theorem facts_hold (env : Env) : ∀ (c : Cond) (pol : Bool), c.eval env = some pol → ∀ f ∈ c.facts pol, Fact.holds env f := by
  intro c
  induction c with
  | atom a =>
    intro pol h f hf
    simp only [Cond.facts, List.mem_singleton] at hf
    subst hf
    exact h
  | not c ih =>
    intro pol h f hf
    simp only [Cond.facts] at hf
    simp only [Cond.eval, Option.map_eq_some_iff] at h
    obtain ⟨b, hb, hnb⟩ := h
    have : b = !pol := by cases b <;> cases pol <;> simp_all
    subst this
    exact ih _ hb f hf
  | and a b iha ihb =>
    intro pol h f hf
    cases pol with
    | false => simp [Cond.facts] at hf
    | true =>
      simp only [Cond.facts, if_true, List.mem_append] at hf
      simp only [Cond.eval] at h
      cases ha : a.eval env with
      | none => simp [ha] at h
      | some va =>
        cases va with
        | false => simp [ha] at h
        | true =>
          simp only [ha] at h
          rcases hf with hf | hf
          · exact iha true ha f hf
          · exact ihb true h f hf
  | or a b iha ihb =>
    intro pol h f hf
    cases pol with
    | true => simp [Cond.facts] at hf
    | false =>
      simp only [Cond.facts, Bool.false_eq_true, if_false, List.mem_append] at hf
      simp only [Cond.eval] at h
      cases ha : a.eval env with
      | none => simp [ha] at h
      | some va =>
        cases va with
        | true => simp [ha] at h
        | false =>
          simp only [ha] at h
          rcases hf with hf | hf
          · exact iha false ha f hf
          · exact ihb false h f hf

theorem hasFact_mem {fs : List Fact} {a : Atom} {b : Bool} (h : hasFact fs a b = true) : (a, b) ∈ fs := by
  simp only [hasFact, List.any_eq_true, Bool.and_eq_true, beq_iff_eq] at h
  obtain ⟨f, hf, h1, h2⟩ := h
  have : f = (a, b) := Prod.ext h1 h2
  exact this ▸ hf

theorem hasFact_holds {env : Env} {fs : List Fact} (hfs : ∀ f ∈ fs, Fact.holds env f) {a : Atom} {b : Bool}
    (h : hasFact fs a b = true) : a.eval env = some b := hfs _ (hasFact_mem h)

theorem append_hold {env : Env} {fs gs : List Fact} (h1 : ∀ f ∈ gs, Fact.holds env f) (h2 : ∀ f ∈ fs, Fact.holds env f) :
    ∀ f ∈ gs ++ fs, Fact.holds env f := by
  intro f hf
  rcases List.mem_append.1 hf with hf | hf
  · exact h1 f hf
  · exact h2 f hf

theorem ite_none_some {c : Prop} [Decidable c] {α : Type} {x b : α} (h : (if c then none else some x) = some b) : ¬ c := by
  intro hc; simp [hc] at h

theorem nonNil_of_follows {env : Env} {fs : List Fact} (hfs : ∀ f ∈ fs, Fact.holds env f) {p : String}
    (h : followsNonNil fs p = true) : env.isNil p = false := by
  simp only [followsNonNil, List.any_eq_true] at h
  obtain ⟨x, hx, hm⟩ := h
  have hh := hfs x hx
  unfold Fact.holds at hh
  obtain ⟨a, b⟩ := x
  cases a <;> try (simp at hm)
  case isNil q =>
    cases b <;> simp only [Bool.false_eq_true, beq_iff_eq] at hm
    subst hm
    simpa [Atom.eval] using hh
  case intPred q m =>
    subst hm
    simp only [Atom.eval] at hh
    have := ite_none_some hh
    simpa using this
  case intSign q op =>
    subst hm
    simp only [Atom.eval] at hh
    have := ite_none_some hh
    simpa using this
  case intBin q r m =>
    simp only [Atom.eval] at hh
    have := ite_none_some hh
    simp only [Bool.or_eq_true, not_or, Bool.not_eq_true] at this
    rcases hm with hm | hm
    · subst hm; exact this.1
    · subst hm; exact this.2
  case coinValid q =>
    cases b <;> simp only [Bool.false_eq_true, beq_iff_eq] at hm
    subst hm
    simp only [Atom.eval, Option.some.injEq, Bool.and_eq_true, Bool.not_eq_eq_eq_not, Bool.not_true] at hh
    exact hh.1
  case coinPred q m =>
    subst hm
    simp only [Atom.eval] at hh
    have := ite_none_some hh
    simpa using this

theorem lenGt_of_follows {env : Env} {fs : List Fact} (hfs : ∀ f ∈ fs, Fact.holds env f) {p : String} {i : Nat}
    (h : followsLenGt fs p i = true) : i < env.len p := by
  simp only [followsLenGt, List.any_eq_true] at h
  obtain ⟨x, hx, hm⟩ := h
  have hh := hfs x hx
  unfold Fact.holds at hh
  obtain ⟨a, b⟩ := x
  cases a <;> try (simp at hm)
  case lenK q op k =>
    cases op <;> cases b <;> simp only [Bool.false_eq_true, Bool.and_eq_true, beq_iff_eq, decide_eq_true_eq] at hm
    all_goals
      obtain ⟨rfl, hk⟩ := hm
      simp only [Atom.eval, Option.some.injEq, Cmp.eval, decide_eq_false_iff_not, decide_eq_true_eq] at hh
      omega

theorem atom_safe_sound (env : Env) (a : Atom) (fs : List Fact) (hfs : ∀ f ∈ fs, Fact.holds env f)
    (h : a.safe fs = true) : ∃ b, a.eval env = some b := by
  cases a <;> simp only [Atom.safe] at h <;> simp only [Atom.eval] <;> try (exact ⟨_, rfl⟩)
  case intPred p m =>
    have := nonNil_of_follows hfs h
    simp [this]
  case intSign p op =>
    have := nonNil_of_follows hfs h
    simp [this]
  case intBin p q m =>
    simp only [Bool.and_eq_true] at h
    have h1 := nonNil_of_follows hfs h.1
    have h2 := nonNil_of_follows hfs h.2
    simp [h1, h2]
  case coinPred p m =>
    have := nonNil_of_follows hfs h
    simp [this]
  case coinsCall p m =>
    have := hasFact_holds hfs h
    simp only [Atom.eval, Option.some.injEq] at this
    simp [this]
  case index p i =>
    have := lenGt_of_follows hfs h
    simp [this]
  case derefLocal v fn args src =>
    have := hasFact_holds hfs h
    simp only [Atom.eval, Option.some.injEq] at this
    simp [this]
  case derefPtr p src =>
    have := hasFact_holds hfs h
    simp only [Atom.eval, Option.some.injEq] at this
    simp [this]
  case unknown s => simp at h

theorem cond_safe_sound (env : Env) :
    ∀ (c : Cond) (fs : List Fact), (∀ f ∈ fs, Fact.holds env f) → c.safe fs = true → ∃ b, c.eval env = some b := by
  intro c
  induction c with
  | atom a =>
    intro fs hfs h
    exact atom_safe_sound env a fs hfs h
  | not c ih =>
    intro fs hfs h
    obtain ⟨b, hb⟩ := ih fs hfs h
    exact ⟨!b, by simp [Cond.eval, hb]⟩
  | and a b iha ihb =>
    intro fs hfs h
    simp only [Cond.safe, Bool.and_eq_true] at h
    obtain ⟨va, ha⟩ := iha fs hfs h.1
    cases va with
    | false => exact ⟨false, by simp [Cond.eval, ha]⟩
    | true =>
      obtain ⟨vb, hb⟩ := ihb (a.facts true ++ fs) (append_hold (facts_hold env a true ha) hfs) h.2
      exact ⟨vb, by simp [Cond.eval, ha, hb]⟩
  | or a b iha ihb =>
    intro fs hfs h
    simp only [Cond.safe, Bool.and_eq_true] at h
    obtain ⟨va, ha⟩ := iha fs hfs h.1
    cases va with
    | true => exact ⟨true, by simp [Cond.eval, ha]⟩
    | false =>
      obtain ⟨vb, hb⟩ := ihb (a.facts false ++ fs) (append_hold (facts_hold env a false ha) hfs) h.2
      exact ⟨vb, by simp [Cond.eval, ha, hb]⟩

theorem retOf_ne_panic (e : Bool) : retOf e ≠ .panic := by cases e <;> simp [retOf]

theorem safeFlat_sound (env : Env) :
    ∀ (l : List Flat) (fs : List Fact), (∀ f ∈ fs, Fact.holds env f) → safeFlat fs l = true → runFlat env l ≠ .panic := by
  intro l
  induction l with
  | nil => intro fs _ _; simp [runFlat]
  | cons s rest ih =>
    intro fs hfs h
    cases s with
    | unknown src => simp [safeFlat] at h
    | ret e => simp only [runFlat]; exact retOf_ne_panic e
    | ifRet c e =>
      simp only [safeFlat, Bool.and_eq_true] at h
      obtain ⟨b, hb⟩ := cond_safe_sound env c fs hfs h.1
      simp only [runFlat, hb]
      cases b with
      | true => exact retOf_ne_panic e
      | false => exact ih (c.facts false ++ fs) (append_hold (facts_hold env c false hb) hfs) h.2
    | eval c =>
      simp only [safeFlat, Bool.and_eq_true] at h
      obtain ⟨b, hb⟩ := cond_safe_sound env c fs hfs h.1
      simp only [runFlat, hb]
      exact ih fs hfs h.2

theorem runLoop_sound (env : Env) (coll var : String) (body : List Flat) (h : safeFlat [] body = true) :
    ∀ (n i : Nat), runLoop env coll var body n i ≠ .panic := by
  intro n
  induction n with
  | zero => intro i; simp [runLoop]
  | succ n ih =>
    intro i
    simp only [runLoop]
    have hb := safeFlat_sound (env.bind var coll i) body [] (by intro f hf; cases hf) h
    cases hr : runFlat (env.bind var coll i) body with
    | cont => exact ih (i + 1)
    | ok => simp
    | err => simp
    | panic => exact absurd hr hb

theorem safeList_sound (cr : String → Env → R) (ck : String → Bool)
    (hck : ∀ name, ck name = true → ∀ env, cr name env ≠ .panic) (env : Env) :
    ∀ (l : List Stmt) (fs : List Fact), (∀ f ∈ fs, Fact.holds env f) → safeList ck fs l = true → runList cr env l ≠ .panic := by
  intro l
  induction l with
  | nil => intro fs _ h; simp [safeList] at h
  | cons s rest ih =>
    intro fs hfs h
    cases s with
    | flat s =>
      cases s with
      | unknown src => simp [safeList] at h
      | ret e =>
        simp only [runList, runFlat]
        cases e <;> simp [retOf]
      | ifRet c e =>
        simp only [safeList, Bool.and_eq_true] at h
        obtain ⟨b, hb⟩ := cond_safe_sound env c fs hfs h.1
        simp only [runList, runFlat, hb]
        cases b with
        | true => cases e <;> simp [retOf]
        | false => exact ih (c.facts false ++ fs) (append_hold (facts_hold env c false hb) hfs) h.2
      | eval c =>
        simp only [safeList, Bool.and_eq_true] at h
        obtain ⟨b, hb⟩ := cond_safe_sound env c fs hfs h.1
        simp only [runList, runFlat, hb]
        exact ih fs hfs h.2
    | forEach coll var body =>
      simp only [safeList, Bool.and_eq_true] at h
      simp only [runList]
      have hl := runLoop_sound env coll var body h.1 (env.len coll) 0
      cases hr : runLoop env coll var body (env.len coll) 0 with
      | cont => exact ih fs hfs h.2
      | ok => simp
      | err => simp
      | panic => exact absurd hr hl
    | callErr name pfx =>
      simp only [safeList, Bool.and_eq_true] at h
      simp only [runList]
      have hc := hck name h.1 (env.sub pfx)
      cases hr : cr name (env.sub pfx) with
      | panic => exact absurd hr hc
      | err => simp
      | ok => exact ih fs hfs h.2
      | cont => exact ih fs hfs h.2
    | retCall names pfx sel =>
      simp only [safeList, List.all_eq_true] at h
      simp only [runList]
      cases hn : names[(env.num sel).toNat]? with
      | none => simp
      | some n =>
        have hmem : n ∈ names := List.mem_of_getElem? hn
        have hc := hck n (h n hmem) (env.sub pfx)
        cases hr : cr n (env.sub pfx) with
        | panic => exact absurd hr hc
        | err => simp [hr]
        | ok => simp [hr]
        | cont => simp [hr]

/-- **stateless validation never panics**: for every table, every fuel, every program accepted by `safeAt`, every environment -/
theorem safeAt_sound (t : Table) : ∀ (fuel : Nat) (name : String), safeAt t fuel name = true → ∀ env, runAt t fuel name env ≠ .panic := by
  intro fuel
  induction fuel with
  | zero => intro name h; simp [safeAt] at h
  | succ n ih =>
    intro name h env
    simp only [safeAt] at h
    simp only [runAt]
    cases hf : t.find name with
    | none => simp [hf] at h
    | some p =>
      simp only [hf] at h
      exact safeList_sound (runAt t n) (safeAt t n) ih env p [] (by intro f hf; cases hf) h

/-! ## what a successful validation establishes -/

theorem coinFact_holds {env : Env} {fs : List Fact} (hfs : ∀ f ∈ fs, Fact.holds env f) {p m : String} {b : Bool}
    (h : hasCoinFact fs p m b = true) : ∃ q, env.isNil p = false ∧ (predVal m (env.big p)).getD (env.ext m [q]) = b := by
  simp only [hasCoinFact, List.any_eq_true] at h
  obtain ⟨x, hx, hm⟩ := h
  have hh := hfs x hx
  unfold Fact.holds at hh
  obtain ⟨a, b'⟩ := x
  cases a <;> try (simp at hm)
  case coinPred q m' =>
    obtain ⟨⟨rfl, rfl⟩, rfl⟩ := hm
    simp only [Atom.eval] at hh
    have hn := ite_none_some hh
    simp only [Bool.not_eq_true] at hn
    simp only [hn, Bool.false_eq_true, if_false, Option.some.injEq] at hh
    exact ⟨q, hn, hh⟩

set_option linter.unusedSimpArgs false in
theorem need_sound {env : Env} {fs : List Fact} (hfs : ∀ f ∈ fs, Fact.holds env f) (n : Need) (h : followsNeed fs n = true) :
    n.holds env := by
  cases n with
  | nonNil p => exact nonNil_of_follows hfs h
  | sumFits256 p q =>
    simp only [followsNeed, Bool.or_eq_true] at h
    simp only [Need.holds]
    rcases h with h | h
    · have hh := hasFact_holds hfs h
      simp only [Atom.eval] at hh
      have hn := ite_none_some hh
      simp only [Bool.or_eq_true, not_or, Bool.not_eq_true] at hn
      simp only [hn.1, hn.2, Bool.or_self, Bool.false_eq_true, if_false, binVal, if_true, Option.getD_some,
        Option.some.injEq, decide_eq_false_iff_not, BEq.rfl] at hh
      exact ⟨hn.1, hn.2, by omega⟩
    · have hh := hasFact_holds hfs h
      simp only [Atom.eval] at hh
      have hn := ite_none_some hh
      simp only [Bool.or_eq_true, not_or, Bool.not_eq_true] at hn
      simp only [hn.1, hn.2, Bool.or_self, Bool.false_eq_true, if_false, binVal, if_true, Option.getD_some,
        Option.some.injEq, decide_eq_false_iff_not, BEq.rfl] at hh
      exact ⟨hn.2, hn.1, by rw [Int.add_comm]; omega⟩
  | signGe0 p =>
    simp only [followsNeed, Bool.or_eq_true] at h
    simp only [Need.holds]
    have keyS : ∀ (op : Cmp) (b : Bool), hasFact fs (.intSign p op) b = true → env.isNil p = false ∧ op.eval (env.big p) 0 = b := by
      intro op b hb
      have hh := hasFact_holds hfs hb
      simp only [Atom.eval] at hh
      have hn := ite_none_some hh
      simp only [Bool.not_eq_true] at hn
      simp only [hn, Bool.false_eq_true, if_false, Option.some.injEq] at hh
      exact ⟨hn, hh⟩
    have keyP : ∀ (m : String) (b : Bool), hasFact fs (.intPred p m) b = true →
        env.isNil p = false ∧ (predVal m (env.big p)).getD (env.ext m [p]) = b := by
      intro m b hb
      have hh := hasFact_holds hfs hb
      simp only [Atom.eval] at hh
      have hn := ite_none_some hh
      simp only [Bool.not_eq_true] at hn
      simp only [hn, Bool.false_eq_true, if_false, Option.some.injEq] at hh
      exact ⟨hn, hh⟩
    rcases h with (((((((h | h) | h) | h) | h) | h) | h) | h) | h
    · obtain ⟨h1, h2⟩ := keyP _ _ h
      refine ⟨h1, ?_⟩
      simp [predVal] at h2
      omega
    · obtain ⟨h1, h2⟩ := keyP _ _ h
      refine ⟨h1, ?_⟩
      simp [predVal] at h2
      omega
    · obtain ⟨h1, h2⟩ := keyS _ _ h
      exact ⟨h1, by simp only [Cmp.eval, decide_eq_false_iff_not, decide_eq_true_eq] at h2; omega⟩
    · obtain ⟨h1, h2⟩ := keyS _ _ h
      exact ⟨h1, by simp only [Cmp.eval, decide_eq_false_iff_not, decide_eq_true_eq] at h2; omega⟩
    · obtain ⟨h1, h2⟩ := keyS _ _ h
      exact ⟨h1, by simp only [Cmp.eval, decide_eq_false_iff_not, decide_eq_true_eq] at h2; omega⟩
    · obtain ⟨h1, h2⟩ := keyS _ _ h
      exact ⟨h1, by simp only [Cmp.eval, decide_eq_false_iff_not, decide_eq_true_eq] at h2; omega⟩
    · obtain ⟨h1, h2⟩ := keyS _ _ h
      exact ⟨h1, by simp only [Cmp.eval, decide_eq_false_iff_not, decide_eq_true_eq] at h2; omega⟩
    · obtain ⟨q, h1, h2⟩ := coinFact_holds hfs h
      refine ⟨h1, ?_⟩
      simp [predVal] at h2
      omega
    · obtain ⟨q, h1, h2⟩ := coinFact_holds hfs h
      refine ⟨h1, ?_⟩
      simp [predVal] at h2
      omega
  | signGt0 p =>
    simp only [followsNeed, Bool.or_eq_true] at h
    simp only [Need.holds]
    rcases h with ((h | h) | h) | h
    · have hh := hasFact_holds hfs h
      simp only [Atom.eval] at hh
      have hn := ite_none_some hh
      simp only [Bool.not_eq_true] at hn
      simp [hn, predVal] at hh
      exact ⟨hn, hh⟩
    rotate_left 2
    · obtain ⟨q, h1, h2⟩ := coinFact_holds hfs h
      refine ⟨h1, ?_⟩
      simp [predVal] at h2
      omega
    all_goals
      have hh := hasFact_holds hfs h
      simp only [Atom.eval] at hh
      have hn := ite_none_some hh
      simp only [Bool.not_eq_true] at hn
      simp only [hn, Bool.false_eq_true, if_false, Option.some.injEq, Cmp.eval, decide_eq_false_iff_not, decide_eq_true_eq] at hh
      exact ⟨hn, by omega⟩
  | lenEq p q =>
    simp only [followsNeed, Bool.or_eq_true] at h
    simp only [Need.holds]
    rcases h with ((h | h) | h) | h
    all_goals
      have hh := hasFact_holds hfs h
      simp only [Atom.eval, Option.some.injEq, Cmp.eval, decide_eq_false_iff_not, decide_eq_true_eq] at hh
      omega
  | noNilCoin p =>
    simp only [followsNeed] at h
    have hh := hasFact_holds hfs h
    simp only [Need.holds]
    simpa [Atom.eval] using hh

/-- result `nil`: the function returned without an error and without a panic -/
def Nil (r : R) : Prop := r ≠ .panic ∧ r ≠ .err

theorem needList_sound (cr : String → Env → R) (tail : List Fact → String → Bool) (n : Need) (env : Env)
    (htail : ∀ fs name, tail fs name = true → (∀ f ∈ fs, Fact.holds env f) → Nil (cr name env) → n.holds env) :
    ∀ (l : List Stmt) (fs : List Fact), (∀ f ∈ fs, Fact.holds env f) → needList tail n fs l = true →
      Nil (runList cr env l) → n.holds env := by
  intro l
  induction l with
  | nil => intro fs _ _ hr; exact absurd rfl hr.1
  | cons s rest ih =>
    intro fs hfs h hr
    cases s with
    | flat s =>
      cases s with
      | unknown src => simp [runList, runFlat, Nil] at hr
      | ret e =>
        cases e with
        | true => simp [runList, runFlat, retOf, Nil] at hr
        | false =>
          simp only [needList, Bool.false_or] at h
          exact need_sound hfs n h
      | ifRet c e =>
        simp only [needList, Bool.and_eq_true, Bool.or_eq_true] at h
        simp only [runList, runFlat] at hr
        cases hc : c.eval env with
        | none => simp [hc, Nil] at hr
        | some b =>
          cases b with
          | true =>
            cases e with
            | true => simp [hc, retOf, Nil] at hr
            | false =>
              have h1 : followsNeed (c.facts true ++ fs) n = true := by simpa using h.1
              exact need_sound (append_hold (facts_hold env c true hc) hfs) n h1
          | false =>
            simp only [hc] at hr
            exact ih (c.facts false ++ fs) (append_hold (facts_hold env c false hc) hfs) h.2 hr
      | eval c =>
        simp only [needList] at h
        simp only [runList, runFlat] at hr
        cases hc : c.eval env with
        | none => simp [hc, Nil] at hr
        | some b =>
          simp only [hc] at hr
          exact ih fs hfs h hr
    | forEach coll var body =>
      simp only [needList, Bool.and_eq_true] at h
      simp only [runList] at hr
      -- a loop whose body only returns errors ends in `cont`, `err` or `panic`
      have hloop : ∀ (k i : Nat), runLoop env coll var body k i ≠ .ok := by
        have hflat : ∀ (e' : Env) (b : List Flat),
            (b.all fun s => match s with | .ifRet _ e => e | .ret e => e | _ => true) = true → runFlat e' b ≠ .ok := by
          intro e' b
          induction b with
          | nil => intro _; simp [runFlat]
          | cons x xs ihx =>
            intro hb
            simp only [List.all_cons, Bool.and_eq_true] at hb
            cases x with
            | unknown s => simp [runFlat]
            | ret e => simp only at hb; simp [runFlat, retOf, hb.1]
            | eval c =>
              simp only [runFlat]
              cases c.eval e' with
              | none => simp
              | some v => exact ihx hb.2
            | ifRet c e =>
              simp only at hb
              simp only [runFlat]
              cases c.eval e' with
              | none => simp
              | some v =>
                cases v with
                | true => simp [retOf, hb.1]
                | false => exact ihx hb.2
        intro k
        induction k with
        | zero => intro i; simp [runLoop]
        | succ k ihk =>
          intro i
          simp only [runLoop]
          have := hflat (env.bind var coll i) body h.1
          cases hrf : runFlat (env.bind var coll i) body with
          | cont => exact ihk (i + 1)
          | ok => exact absurd hrf this
          | err => simp
          | panic => simp
      cases hl : runLoop env coll var body (env.len coll) 0 with
      | cont => simp only [hl] at hr; exact ih fs hfs h.2 hr
      | ok => exact absurd hl (hloop _ _)
      | err => simp [hl, Nil] at hr
      | panic => simp [hl, Nil] at hr
    | callErr name pfx =>
      simp only [needList] at h
      simp only [runList] at hr
      cases hc : cr name (env.sub pfx) with
      | panic => simp [hc, Nil] at hr
      | err => simp [hc, Nil] at hr
      | ok => simp only [hc] at hr; exact ih fs hfs h hr
      | cont => simp only [hc] at hr; exact ih fs hfs h hr
    | retCall names pfx sel =>
      simp only [needList] at h
      match names, h with
      | [nm], h =>
        simp only [Bool.and_eq_true, beq_iff_eq] at h
        obtain ⟨hp, ht⟩ := h
        subst hp
        simp only [runList, Env.sub, BEq.rfl, if_true] at hr
        cases hi : (env.num sel).toNat with
        | zero =>
          simp only [hi, List.getElem?_cons_zero] at hr
          refine htail fs nm ht hfs ?_
          cases hc : cr nm env with
          | panic => simp [hc, Nil] at hr
          | err => simp [hc, Nil] at hr
          | ok => simp [Nil]
          | cont => simp [Nil]
        | succ k => simp [hi, Nil] at hr

/-- **a validation function that returns nil establishes the need**, for every table, fuel and environment -/
theorem needAt_sound (t : Table) (n : Need) (env : Env) :
    ∀ (fuel : Nat) (fs : List Fact) (name : String), needAt t n fuel fs name = true → (∀ f ∈ fs, Fact.holds env f) →
      Nil (runAt t fuel name env) → n.holds env := by
  intro fuel
  induction fuel with
  | zero => intro fs name h; simp [needAt] at h
  | succ k ih =>
    intro fs name h hfs hr
    simp only [needAt] at h
    simp only [runAt] at hr
    cases hf : t.find name with
    | none => simp [hf] at h
    | some p =>
      simp only [hf] at h hr
      exact needList_sound (runAt t k) (needAt t n k) n env (fun fs' nm ht hfs' hn => ih fs' nm ht hfs' hn) p fs hfs h hr

end FxVerif.Proofs.C20Msg
