import FxVerif.Proofs.C15Step
/-!
# C15 — which custom parameters a tally in the end-blocker sees

The end-blocker tallies the due proposals one after the other; a passed proposal runs its messages, and a
`MsgUpdateCustomParams` among them rewrites the per-type parameters that the tallies LATER IN THE SAME WALK read.  Here: the
only statements that change `custom` inside a block are such messages, so the state `sm` in which a proposal is tallied has
the custom parameters of the block start as soon as no other proposal due in this block carries such a message.
-/
namespace FxVerif.Proofs.C15
open FxVerif.Gen.C15 FxVerif.Model.C15

/-- a message that does not rewrite the custom gov parameters -/
def keepsCustom (m : Msg) : Bool := match m.act with | .setCustom _ _ => false | _ => true

/-- no message of the list is a `MsgUpdateCustomParams` -/
def noSetCustom (ms : List Msg) : Bool := ms.all keepsCustom

theorem execMsg_custom {m : Msg} {s s' : State} (h : execMsg m s = some s') (hm : keepsCustom m = true) : s'.custom = s.custom := by
  unfold execMsg at h
  split at h
  · cases h
  · cases ha : m.act with
    | noop => rw [ha] at h; simp only at h; cases h; rfl
    | cas k old new =>
      rw [ha] at h; simp only at h
      split at h
      · cases h; rfl
      · cases h
    | credit fx other to => rw [ha] at h; simp only at h; cases h; rfl
    | setCustom url c => simp [keepsCustom, ha] at hm
    | govDeposit pid amt => rw [ha] at h; simp [addDepositGov, show depositGuardsModule = true from rfl] at h
    | govSubmit initial exp => rw [ha] at h; simp [submitGov, show depositGuardsModule = true from rfl] at h
    | govSpend amt to =>
      rw [ha] at h; simp only at h
      split at h
      · cases h
      · cases h; rfl

theorem execMsgs_custom : ∀ (ms : List Msg) (s s' : State), execMsgs ms s = some s' → noSetCustom ms = true → s'.custom = s.custom := by
  intro ms
  induction ms with
  | nil => intro s s' h _; simp [execMsgs] at h; rw [h]
  | cons m r ih =>
    intro s s' h hn
    simp only [noSetCustom, List.all_cons, Bool.and_eq_true] at hn
    simp only [execMsgs] at h
    split at h
    · rename_i s1 h1
      rw [ih s1 s' h (by simpa [noSetCustom] using hn.2), execMsg_custom h1 hn.1]
    · cases h

theorem runProposalMsgs_custom (hc : execInCacheCtx = true) (he : execErrVisible = true) (ms : List Msg) (s : State)
    (hn : noSetCustom ms = true) : (runProposalMsgs ms s).1.custom = s.custom := by
  unfold runProposalMsgs
  simp only [hc, he, if_true]
  split
  · rename_i s' h; exact execMsgs_custom ms s s' h hn
  · rfl

/-- `finishTally` leaves the custom parameters alone unless the proposal carries a `MsgUpdateCustomParams` -/
theorem finishTally_custom {s s' : State} {pid : Nat} {p : Proposal} {passes burn : Bool} {res : Nat × Nat × Nat × Nat}
    (h2 : settleShapeOk = true) (h3 : execInCacheCtx = true) (he : execErrVisible = true) (hb : s.gov = sumAmt s.deps)
    (hn : noSetCustom p.msgs = true) (h : finishTally passes burn res p pid s = .ok s') : s'.custom = s.custom := by
  unfold finishTally at h
  simp only [refundRun_eq, burnRun_eq] at h
  simp only [h2, Bool.not_true, Bool.false_and, Bool.false_eq_true, if_false] at h
  simp only [if_true] at h
  have settle : ∀ s1 : State,
      (if (!(p.expedited && !passes)) = true then (if burn = true then burnDeposits pid s else refundDeposits pid s)
        else Except.ok s) = .ok s1 → s1.custom = s.custom := by
    intro s1 hx
    split at hx
    · split at hx
      · exact (burnDeposits_spec hb hx).2.2.2.2.2.2.2.1
      · exact (refundDeposits_spec hb hx).2.2.2.2.2.2.2.1
    · cases hx; rfl
  split at h
  · cases h
  · rename_i s1 hx
    have e4 := settle s1 hx
    split at h
    · generalize hr' : runProposalMsgs p.msgs { s1 with active := removeQ (p.votingEnd, pid) s1.active } = rr at h
      obtain ⟨s3, ok⟩ := rr
      simp only at h
      cases h
      have e3' : s3 = (runProposalMsgs p.msgs { s1 with active := removeQ (p.votingEnd, pid) s1.active }).1 := by rw [hr']
      have := runProposalMsgs_custom h3 he p.msgs { s1 with active := removeQ (p.votingEnd, pid) s1.active } hn
      rw [← e3'] at this
      show s3.custom = _
      rw [this]; exact e4
    · split at h <;> (cases h; exact e4)

theorem tallyOne_custom {s s' : State} {stk : Staking} {id : Nat} (h2 : settleShapeOk = true) (h3 : execInCacheCtx = true)
    (he : execErrVisible = true) (ha : All s) (hn : ∀ p, findProp s.props id = some p → noSetCustom p.msgs = true)
    (hs' : tallyOne stk id s = .ok s') : s'.custom = s.custom := by
  unfold tallyOne at hs'
  split at hs'
  · cases hs'
  · rename_i p hp
    split at hs'
    · cases hs'
    · split at hs'
      · cases hs'
      · exact finishTally_custom (s := { s with votes := if tallyRemovesVotes then votesNot s.votes id else s.votes })
          h2 h3 he ha.inv.bal (hn p hp) hs'

theorem dropInactive_custom {s s' : State} {id : Nat} (h1 : inactiveSettleShapeOk = true) (ha : All s)
    (hs' : dropInactive id s = .ok s') : s'.custom = s.custom := by
  rw [dropInactive_eq] at hs'
  unfold dropInactiveSpec at hs'
  split at hs'
  · cases hs'
  · simp only [h1, if_true] at hs'
    split at hs'
    · exact (refundDeposits_spec (by simpa using ha.inv.bal) hs').2.2.2.2.2.2.2.1
    · exact (burnDeposits_spec (by simpa using ha.inv.bal) hs').2.2.2.2.2.2.2.1

/-- a walk that reaches `pid` splits at it: the prefix runs to `sm`, the step of `pid` to `sm'`, the rest to the end -/
theorem runAll_prefix {f : Nat → State → Except Err State} (pid : Nat) :
    ∀ (ids : List Nat) (s s' : State), runAll f ids s = .ok s' → pid ∈ ids →
      ∃ pre post sm sm', ids = pre ++ pid :: post ∧ runAll f pre s = .ok sm ∧ f pid sm = .ok sm' ∧ runAll f post sm' = .ok s' := by
  intro ids
  induction ids with
  | nil => intro s s' _ hm; cases hm
  | cons id r ih =>
    intro s s' h hm
    simp only [runAll] at h
    split at h
    · rename_i s1 h1
      by_cases he : id = pid
      · subst he
        exact ⟨[], r, s, s1, rfl, rfl, h1, h⟩
      · have hm' : pid ∈ r := by
          rcases List.mem_cons.mp hm with e | e
          · exact absurd e.symm he
          · exact e
        obtain ⟨pre, post, sm, sm', e1, e2, e3, e4⟩ := ih s1 s' h hm'
        refine ⟨id :: pre, post, sm, sm', by rw [e1]; rfl, ?_, e3, e4⟩
        simp only [runAll, h1]; exact e2
    · cases h

/-- what a walk keeps for the ids it does not visit -/
theorem runAll_keepsQ {f : Nat → State → Except Err State} {P : State → Prop} {Q : Nat → State → Prop}
    (hstep : ∀ id s s', P s → Q id s → f id s = .ok s' → P s' ∧ ∀ id', id' ≠ id → Q id' s → Q id' s') :
    ∀ (ids : List Nat) (s s' : State), ids.Nodup → (∀ id ∈ ids, Q id s) → P s → runAll f ids s = .ok s' →
      ∀ id', id' ∉ ids → Q id' s → Q id' s' := by
  intro ids
  induction ids with
  | nil => intro s s' _ _ _ h id' _ hq; simp [runAll] at h; subst h; exact hq
  | cons id r ih =>
    intro s s' hnd hq hp h id' hni hq'
    simp only [runAll] at h
    split at h
    · rename_i s1 h1
      obtain ⟨p1, q1⟩ := hstep id s s1 hp (hq id List.mem_cons_self) h1
      have hnd' := List.nodup_cons.mp hnd
      have hne : id' ≠ id := fun e => hni (e ▸ List.mem_cons_self)
      exact ih s1 s' hnd'.2 (fun x hx => q1 x (fun e => hnd'.1 (e ▸ hx)) (hq x (List.mem_cons_of_mem _ hx))) p1 h id'
        (fun hm => hni (List.mem_cons_of_mem _ hm)) (q1 id' hne hq')
    · cases h

/-- the ids a walk over the due entries visits BEFORE `pid` belong to entries that precede `pid`'s entry in queue order
(time, then id) -/
theorem dueIds_prefix_lt {q : Q} (hs : q.Pairwise qlt) {now pid : Nat} {pre post : List Nat}
    (h : dueIds q now = pre ++ pid :: post) : ∀ id ∈ pre, ∃ t tp, (t, id) ∈ q ∧ (tp, pid) ∈ q ∧ qlt (t, id) (tp, pid) := by
  unfold dueIds at h
  have hs' : (q.filter (fun x => decide (x.1 ≤ now))).Pairwise qlt := List.Pairwise.filter _ hs
  have hm : ∀ x, x ∈ q.filter (fun x => decide (x.1 ≤ now)) → x ∈ q := fun x hx => (List.mem_filter.mp hx).1
  generalize q.filter (fun x => decide (x.1 ≤ now)) = l at h hs' hm
  obtain ⟨l1, l2, hl, h1, h2⟩ := List.map_eq_append_iff.mp h
  obtain ⟨x, l3, hl2, hx, _⟩ := List.map_eq_cons_iff.mp h2
  subst hl hl2
  intro id hid
  rw [← h1] at hid
  obtain ⟨y, hy, hyid⟩ := List.mem_map.mp hid
  have hlt : qlt y x := (List.pairwise_append.mp hs').2.2 y hy x List.mem_cons_self
  refine ⟨y.1, x.1, ?_, ?_, ?_⟩
  · rw [← hyid]; exact hm y (List.mem_append_left _ hy)
  · rw [← hx]; exact hm x (List.mem_append_right _ List.mem_cons_self)
  · rw [← hyid, ← hx]; exact hlt

/-- **the tally of a proposal sees the custom parameters of the block start** when no OTHER proposal whose voting period
has ended by this block carries a `MsgUpdateCustomParams`: the `sm` of `endBlock_voting` with `sm.custom = s.custom` -/
theorem endBlock_voting_custom {s s' : State} {stk : Staking} (h1 : inactiveSettleShapeOk = true) (h2 : settleShapeOk = true)
    (h3 : execInCacheCtx = true) (h4 : tallyRemovesVotes = true) (he : execErrVisible = true) (ha : All s)
    (h : endBlock stk s = .ok s') {pid : Nat} {p : Proposal} (hp : findProp s.props pid = some p) (hst : p.status = .voting)
    (hle : p.votingEnd ≤ s.time)
    (hno : ∀ id q, findProp s.props id = some q → q.status = .voting → q.votingEnd ≤ s.time →
      qlt (q.votingEnd, id) (p.votingEnd, pid) → noSetCustom q.msgs = true) :
    ∃ sm q n passes burn, All sm ∧ sm.params = s.params ∧ sm.time = s.time ∧ sm.custom = s.custom ∧
        findProp sm.props pid = some p ∧ tallyNums (votesOf sm.votes pid) stk = some n ∧ tally sm p n = .ok (passes, burn) ∧
        findProp s'.props pid = some q ∧ Ended sm p q passes := by
  unfold endBlock at h
  split at h
  · cases h
  · rename_i s1 e1
    -- the inactive walk
    have stepI : ∀ id x x', (All x ∧ x.time = s.time ∧ x.params = s.params ∧ x.custom = s.custom) → (∃ t, (t, id) ∈ x.inactive) →
        dropInactive id x = .ok x' →
        (All x' ∧ x'.time = s.time ∧ x'.params = s.params ∧ x'.custom = s.custom) ∧
          ∀ id', id' ≠ id → (∃ t, (t, id') ∈ x.inactive) → ∃ t, (t, id') ∈ x'.inactive := by
      intro id x x' hx hq hx'
      have st := dropInactive_step h1 hx.1 hq hx'
      have sm := dropInactive_same h1 hx.1 hq hx'
      exact ⟨⟨st.1, sm.2.2.1.trans hx.2.1, sm.2.2.2.trans hx.2.2.1, (dropInactive_custom h1 hx.1 hx').trans hx.2.2.2⟩, st.2⟩
    have a1 := runAll_pres (f := dropInactive) (P := fun x => All x ∧ x.time = s.time ∧ x.params = s.params ∧ x.custom = s.custom)
      (Q := fun id x => ∃ t, (t, id) ∈ x.inactive) stepI
      (dueIds s.inactive s.time) s s1 (dueIds_inactive_nodup ha) (fun id hid => mem_dueIds hid) ⟨ha, rfl, rfl, rfl⟩ e1
    have w1 : ∀ id, (id ∉ dueIds s.inactive s.time → Same id s s1) ∧ (id ∈ dueIds s.inactive s.time → findProp s1.props id = none) := by
      intro id
      have w := runAll_split (f := dropInactive) (P := fun x => All x ∧ x.time = s.time ∧ x.params = s.params ∧ x.custom = s.custom)
        (Q := fun id x => ∃ t, (t, id) ∈ x.inactive) id
        (by
          intro id0 x x' hx hq hx'
          have r := stepI id0 x x' hx hq hx'
          exact ⟨r.1, r.2, fun hne => (dropInactive_same h1 hx.1 hq hx').1 id (fun e => hne e.symm)⟩)
        (dueIds s.inactive s.time) s s1 (dueIds_inactive_nodup ha) (fun id hid => mem_dueIds hid) ⟨ha, rfl, rfl, rfl⟩ e1
      refine ⟨w.1, fun hm => ?_⟩
      obtain ⟨sm, sm', hsm, hq, _, hd, hsame⟩ := w.2 hm
      have := (dropInactive_same h1 hsm.1 hq hd).2.1
      rw [hsame.1]; exact this
    -- a voting proposal of `s1` is the voting proposal of `s`
    have back : ∀ id t q, (t, id) ∈ s1.active → findProp s1.props id = some q → findProp s.props id = some q := by
      intro id t q _ hq
      by_cases hm : id ∈ dueIds s.inactive s.time
      · rw [(w1 id).2 hm] at hq; cases hq
      · rw [← ((w1 id).1 hm).1]; exact hq
    have hni : pid ∉ dueIds s.inactive s.time := by
      intro hm
      obtain ⟨t, ht, _⟩ := mem_dueIds_iff.mp hm
      obtain ⟨p', hp', hs', _⟩ := ha.both.q.inactSound t pid ht
      rw [hp] at hp'; cases hp'; rw [hst] at hs'; cases hs'
    have hp1 : findProp s1.props pid = some p := by rw [((w1 pid).1 hni).1]; exact hp
    have hdue : pid ∈ dueIds s1.active s1.time := by
      rw [mem_dueIds_iff, a1.2.1]
      exact ⟨p.votingEnd, a1.1.both.q.actComplete pid p hp1 hst, hle⟩
    -- the active walk, split at `pid`
    obtain ⟨pre, post, sm, sm', eids, epre, emid, epost⟩ := runAll_prefix pid _ _ _ h hdue
    have hnd := dueIds_active_nodup a1.1
    rw [eids] at hnd
    have hnd1 : pre.Nodup := (List.nodup_append.mp hnd).1
    have hnd2 : (pid :: post).Nodup := (List.nodup_append.mp hnd).2.1
    have hpre : pid ∉ pre := fun hm => (List.nodup_append.mp hnd).2.2 pid hm pid List.mem_cons_self rfl
    have hpost : pid ∉ post := (List.nodup_cons.mp hnd2).1
    have memAll : ∀ id, id ∈ pre ∨ id = pid ∨ id ∈ post → id ∈ dueIds s1.active s1.time := by
      intro id hid
      rw [eids]
      rcases hid with hid | hid | hid
      · exact List.mem_append_left _ hid
      · exact List.mem_append_right _ (hid ▸ List.mem_cons_self)
      · exact List.mem_append_right _ (List.mem_cons_of_mem _ hid)
    -- every id of the prefix: in the queue, and its proposal has no custom-parameter message
    have qpre : ∀ id ∈ pre, (∃ t, (t, id) ∈ s1.active) ∧ ∀ q, findProp s1.props id = some q → noSetCustom q.msgs = true := by
      intro id hid
      obtain ⟨t, ht, hlt⟩ := mem_dueIds_iff.mp (memAll id (Or.inl hid))
      refine ⟨⟨t, ht⟩, fun q hq => ?_⟩
      obtain ⟨q', hq', hs', hend⟩ := a1.1.both.q.actSound t id ht
      rw [hq] at hq'; cases hq'
      obtain ⟨t2, tp, ht2, htp, hlt2⟩ := dueIds_prefix_lt a1.1.both.q.actSorted eids id hid
      obtain ⟨q2, hq2, _, hend2⟩ := a1.1.both.q.actSound t2 id ht2
      rw [hq] at hq2; cases hq2
      obtain ⟨p2, hp2, _, hendp⟩ := a1.1.both.q.actSound tp pid htp
      rw [hp1] at hp2; cases hp2
      exact hno id q (back id t q ht hq) hs' (by rw [a1.2.1] at hlt; omega) (by rw [hend2, hendp]; exact hlt2)
    have stepA : ∀ id x x', (All x ∧ x.custom = s1.custom) →
        ((∃ t, (t, id) ∈ x.active) ∧ ∀ q, findProp x.props id = some q → noSetCustom q.msgs = true) →
        tallyOne stk id x = .ok x' →
        (All x' ∧ x'.custom = s1.custom) ∧
          ∀ id', id' ≠ id → ((∃ t, (t, id') ∈ x.active) ∧ ∀ q, findProp x.props id' = some q → noSetCustom q.msgs = true) →
            ((∃ t, (t, id') ∈ x'.active) ∧ ∀ q, findProp x'.props id' = some q → noSetCustom q.msgs = true) := by
      intro id x x' hx hq hx'
      have st := tallyOne_step h2 h3 h4 hx.1 hq.1 hx'
      have sme := tallyOne_same h2 h3 hx.1 hq.1 hx'
      refine ⟨⟨st.1, (tallyOne_custom h2 h3 he hx.1 hq.2 hx').trans hx.2⟩, fun id' hne hq' => ⟨st.2 id' hne hq'.1, fun q hq2 => ?_⟩⟩
      have := (sme.1 id' hne).1
      rw [this] at hq2
      exact hq'.2 q hq2
    have am := runAll_pres (f := tallyOne stk) (P := fun x => All x ∧ x.custom = s1.custom)
      (Q := fun id x => (∃ t, (t, id) ∈ x.active) ∧ ∀ q, findProp x.props id = some q → noSetCustom q.msgs = true) stepA
      pre s1 sm hnd1 qpre ⟨a1.1, rfl⟩ epre
    -- nothing happened to `pid` in the prefix
    have stepS : ∀ id x x', All x → (∃ t, (t, id) ∈ x.active) → tallyOne stk id x = .ok x' →
        All x' ∧ (∀ id', id' ≠ id → (∃ t, (t, id') ∈ x.active) → ∃ t, (t, id') ∈ x'.active) ∧ (id ≠ pid → Same pid x x') := by
      intro id x x' hx hq hx'
      have st := tallyOne_step h2 h3 h4 hx hq hx'
      have sme := tallyOne_same h2 h3 hx hq hx'
      exact ⟨st.1, st.2, fun hne => sme.1 pid (fun e => hne e.symm)⟩
    have spre := (runAll_split (f := tallyOne stk) (P := All) (Q := fun id x => ∃ t, (t, id) ∈ x.active) pid stepS
      pre s1 sm hnd1 (fun id hid => (qpre id hid).1) a1.1 epre).1 hpre
    have hpm : findProp sm.props pid = some p := by rw [spre.1]; exact hp1
    have hqm : ∃ t, (t, pid) ∈ sm.active := ⟨p.votingEnd, am.1.both.q.actComplete pid p hpm hst⟩
    obtain ⟨_, _, _, p', q, n, passes, burn, hp', hq', hn, hr, hend⟩ := tallyOne_same h2 h3 am.1 hqm emid
    rw [hpm] at hp'; cases hp'
    -- … nor in the rest of the walk
    have stm := tallyOne_step h2 h3 h4 am.1 hqm emid
    have keep := runAll_keepsQ (f := tallyOne stk) (P := All) (Q := fun id x => ∃ t, (t, id) ∈ x.active)
      (fun id x x' hx hq hx' => tallyOne_step h2 h3 h4 hx hq hx')
      pre s1 sm hnd1 (fun id hid => (qpre id hid).1) a1.1 epre
    have qpost : ∀ id ∈ post, ∃ t, (t, id) ∈ sm'.active := by
      intro id hid
      have hne : id ≠ pid := fun e => hpost (e ▸ hid)
      have hnp : id ∉ pre := fun hm => (List.nodup_append.mp hnd).2.2 id hm id (List.mem_cons_of_mem _ hid) rfl
      exact stm.2 id hne (keep id hnp (mem_dueIds (memAll id (Or.inr (Or.inr hid)))))
    have spost := (runAll_split (f := tallyOne stk) (P := All) (Q := fun id x => ∃ t, (t, id) ∈ x.active) pid stepS
      post sm' s' (List.nodup_cons.mp hnd2).2 qpost stm.1 epost).1 hpost
    exact ⟨sm, q, n, passes, burn, am.1, spre.2.2.trans a1.2.2.1, spre.2.1.trans a1.2.1, am.2.trans a1.2.2.2, hpm, hn, hr,
      by rw [spost.1]; exact hq', hend⟩

/-- `finishTally` stores the final tally result it was given -/
theorem finishTally_res {s s' : State} {pid : Nat} {p : Proposal} {passes burn : Bool} {res : Nat × Nat × Nat × Nat}
    (h2 : settleShapeOk = true) (h3 : execInCacheCtx = true) (hb : s.gov = sumAmt s.deps)
    (hp : findProp s.props pid = some p) (h : finishTally passes burn res p pid s = .ok s') :
    ∃ q, findProp s'.props pid = some q ∧ q.tallyRes = res := by
  have hpid : p.id = pid := findProp_id hp
  unfold finishTally at h
  simp only [refundRun_eq, burnRun_eq] at h
  simp only [h2, Bool.not_true, Bool.false_and, Bool.false_eq_true, if_false] at h
  simp only [if_true] at h
  have settle : ∀ s1 : State,
      (if (!(p.expedited && !passes)) = true then (if burn = true then burnDeposits pid s else refundDeposits pid s)
        else Except.ok s) = .ok s1 → s1.props = s.props := by
    intro s1 hx
    split at hx
    · split at hx
      · exact (burnDeposits_spec hb hx).2.2.1
      · exact (refundDeposits_spec hb hx).2.2.1
    · cases hx; rfl
  split at h
  · cases h
  · rename_i s1 hx
    have e1 := settle s1 hx
    split at h
    · generalize hr' : runProposalMsgs p.msgs { s1 with active := removeQ (p.votingEnd, pid) s1.active } = rr at h
      obtain ⟨s3, ok⟩ := rr
      simp only at h
      cases h
      have e3' : s3 = (runProposalMsgs p.msgs { s1 with active := removeQ (p.votingEnd, pid) s1.active }).1 := by rw [hr']
      have fr := runProposalMsgs_same h3 p.msgs { s1 with active := removeQ (p.votingEnd, pid) s1.active }
      rw [← e3'] at fr
      refine ⟨{ p with status := if ok = true then .passed else .failed, tallyRes := res }, ?_, rfl⟩
      simp only [findProp_putProp, hpid, if_true]
      rw [fr.1]; show (findProp s1.props pid).map _ = _; rw [e1, hp]; rfl
    · split at h
      · cases h
        refine ⟨{ p with expedited := false, votingEnd := p.votingStart +
            conversionPeriod { s1 with active := removeQ (p.votingEnd, pid) s1.active } p, tallyRes := res }, ?_, rfl⟩
        simp only [findProp_putProp, hpid, if_true]
        rw [e1, hp]; rfl
      · cases h
        refine ⟨{ p with status := .rejected, tallyRes := res }, ?_, rfl⟩
        simp only [findProp_putProp, hpid, if_true]
        rw [e1, hp]; rfl

/-- the final tally result `tallyOne` stores: the per-option sums of `Tally` in whole tokens -/
theorem tallyOne_res {s s' : State} {stk : Staking} {id : Nat} {p : Proposal} (h2 : settleShapeOk = true) (h3 : execInCacheCtx = true)
    (ha : All s) (hp : findProp s.props id = some p) (hs' : tallyOne stk id s = .ok s') :
    ∃ q n, findProp s'.props id = some q ∧ tallyNums (votesOf s.votes id) stk = some n ∧
      q.tallyRes = (n.yes / DEC, n.abstain / DEC, n.no / DEC, n.veto / DEC) := by
  unfold tallyOne at hs'
  simp only [hp] at hs'
  split at hs'
  · cases hs'
  · rename_i n hn
    split at hs'
    · cases hs'
    · obtain ⟨q, hq, hr⟩ := finishTally_res (s := { s with votes := if tallyRemovesVotes then votesNot s.votes id else s.votes })
        h2 h3 ha.inv.bal hp hs'
      exact ⟨q, n, hq, hn, hr⟩

/-- `endBlock_voting` with the stored result: the proposal tallied in this block carries, as its final tally result, the sums
of the votes stored at the moment `sm`, in whole tokens -/
theorem endBlock_voting_res {s s' : State} {stk : Staking} (h1 : inactiveSettleShapeOk = true) (h2 : settleShapeOk = true)
    (h3 : execInCacheCtx = true) (h4 : tallyRemovesVotes = true) (ha : All s) (h : endBlock stk s = .ok s')
    {pid : Nat} {p : Proposal} (hp : findProp s.props pid = some p) (hst : p.status = .voting) (hle : p.votingEnd ≤ s.time) :
    ∃ sm q n, All sm ∧ sm.params = s.params ∧ sm.time = s.time ∧ findProp sm.props pid = some p ∧
      tallyNums (votesOf sm.votes pid) stk = some n ∧ findProp s'.props pid = some q ∧
      q.tallyRes = (n.yes / DEC, n.abstain / DEC, n.no / DEC, n.veto / DEC) := by
  obtain ⟨s1, a1, t1, p1, i1, _, _, ac2⟩ := endBlock_split h1 h2 h3 h4 ha h pid
  have hni : pid ∉ dueIds s.inactive s.time := by
    intro hm
    obtain ⟨t, ht, _⟩ := mem_dueIds_iff.mp hm
    obtain ⟨p', hp', hs', _⟩ := ha.both.q.inactSound t pid ht
    rw [hp] at hp'; cases hp'; rw [hst] at hs'; cases hs'
  have sm1 := i1 hni
  have hp1 : findProp s1.props pid = some p := by rw [sm1.1]; exact hp
  have hdue : pid ∈ dueIds s1.active s1.time := by
    rw [mem_dueIds_iff, t1]
    exact ⟨p.votingEnd, a1.both.q.actComplete pid p hp1 hst, hle⟩
  obtain ⟨sm, sm', hsm, hs1, hd, hsame⟩ := ac2 hdue
  have hpm : findProp sm.props pid = some p := by rw [hs1.1]; exact hp1
  obtain ⟨q, n, hq, hn, hr⟩ := tallyOne_res h2 h3 hsm hpm hd
  exact ⟨sm, q, n, hsm, hs1.2.2.trans p1, hs1.2.1.trans t1, hpm, hn, by rw [hsame.1]; exact hq, hr⟩

end FxVerif.Proofs.C15
