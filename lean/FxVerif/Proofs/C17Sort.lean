import FxVerif.Model.C17Sort
import FxVerif.Proofs.C17
/-! helper lemmas for the sort model (core Lean only) -/
namespace FxVerif.Proofs.C17
open FxVerif.Model.C17 FxVerif.Gen.C17 List

theorem oracleSetKeys_eq : oracleSetKeys = [⟨"Power", true, "nat"⟩, ⟨"ExternalAddress", false, "string"⟩] := by decide
theorem missedKeys_eq : missedKeys = [⟨"MissedBlocks", true, "int"⟩] := by decide

/-- the regenerated comparator program of `BridgeValidators.Less`, interpreted: power descending, then address ascending -/
theorem memberLe_iff (a b : NS) : memberLe a b = true ↔ (b.num < a.num ∨ (a.num = b.num ∧ a.str ≤ b.str)) := by
  unfold memberLe leKeys lessKeys
  rw [oracleSetKeys_eq]
  simp only [cmpKeys, keyCmp, cmpNat, cmpStr]
  have e1 : ("Power" == "Power") = true := by decide
  have e2 : ("ExternalAddress" == "Power") = false := by decide
  have e3 : ("ExternalAddress" == "ExternalAddress") = true := by decide
  simp only [e1, e2, e3, if_true, Bool.false_eq_true, if_false]
  by_cases h1 : b.num < a.num
  · simp [h1, Ordering.swap]
  · by_cases h2 : b.num = a.num
    · have h3 : a.num = b.num := h2.symm
      simp only [h2, if_false, if_true, Ordering.swap, Nat.lt_irrefl, false_or, true_and]
      by_cases h4 : b.str < a.str
      · simp [h4, String.not_le.mpr h4]
      · by_cases h5 : b.str = a.str
        · simp [h5]
        · simp [h4, h5, String.not_lt.mp h4]
    · have : ¬ a.num = b.num := fun h => h2 h.symm
      simp [h1, h2, Ordering.swap, this]

/-- the regenerated comparator of `ValidatorListMissedBlock`, interpreted: missed blocks descending, nothing else -/
theorem missedLe_iff (a b : NS) : missedLe a b = true ↔ b.num ≤ a.num := by
  unfold missedLe leKeys lessKeys
  rw [missedKeys_eq]
  simp only [cmpKeys, keyCmp, cmpNat]
  have e1 : ("MissedBlocks" == "MissedBlocks") = true := by decide
  simp only [e1, if_true]
  by_cases h1 : b.num < a.num
  · simp [h1, Ordering.swap]; omega
  · by_cases h2 : b.num = a.num
    · simp [h2, Ordering.swap]
    · simp [h1, h2, Ordering.swap]; omega

theorem memberLe_antisymm (a b : NS) (h1 : memberLe a b = true) (h2 : memberLe b a = true) : a = b := by
  rw [memberLe_iff] at h1 h2
  have hn : a.num = b.num := by omega
  have hs : a.str = b.str := by
    rcases h1 with h | h
    · omega
    · rcases h2 with h' | h'
      · omega
      · exact String.le_antisymm h.2 h'.2
  cases a; cases b; simp_all

theorem memberLe_trans (a b c : NS) (h1 : memberLe a b = true) (h2 : memberLe b c = true) : memberLe a c = true := by
  rw [memberLe_iff] at *
  rcases h1 with h | h <;> rcases h2 with h' | h'
  · left; omega
  · left; omega
  · left; omega
  · right; exact ⟨by omega, String.le_trans h.2 h'.2⟩

theorem memberLe_total (a b : NS) : (memberLe a b || memberLe b a) = true := by
  rw [Bool.or_eq_true, memberLe_iff, memberLe_iff]
  by_cases h : a.num = b.num
  · rcases String.le_total a.str b.str with h' | h'
    · left; right; exact ⟨h, h'⟩
    · right; right; exact ⟨h.symm, h'⟩
  · omega

theorem missedLe_trans (a b c : NS) (h1 : missedLe a b = true) (h2 : missedLe b c = true) : missedLe a c = true := by
  rw [missedLe_iff] at *; omega

theorem missedLe_total (a b : NS) : (missedLe a b || missedLe b a) = true := by
  rw [Bool.or_eq_true, missedLe_iff, missedLe_iff]; omega

theorem insertBy_perm {α : Type} (le : α → α → Bool) (a : α) : ∀ l : List α, (insertBy le a l).Perm (a :: l) := by
  intro l
  induction l with
  | nil => exact Perm.refl _
  | cons b t ih =>
    simp only [insertBy]
    split
    · exact Perm.refl _
    · exact ((perm_cons b).mpr ih).trans (Perm.swap a b t)

theorem isort_perm {α : Type} (le : α → α → Bool) : ∀ l : List α, (isort le l).Perm l := by
  intro l
  induction l with
  | nil => exact Perm.refl _
  | cons a t ih => exact (insertBy_perm le a _).trans ((perm_cons a).mpr ih)

theorem insertBy_sorted {α : Type} (le : α → α → Bool) (tr : ∀ a b c, le a b = true → le b c = true → le a c = true)
    (tot : ∀ a b, (le a b || le b a) = true) (a : α) :
    ∀ l : List α, l.Pairwise (fun x y => le x y = true) → (insertBy le a l).Pairwise (fun x y => le x y = true) := by
  intro l
  induction l with
  | nil => intro _; simp [insertBy]
  | cons b t ih =>
    intro h
    simp only [insertBy]
    have hb := (pairwise_cons.mp h)
    split
    · rename_i hab
      refine pairwise_cons.mpr ⟨?_, h⟩
      intro x hx
      rcases mem_cons.mp hx with h1 | h1
      · rw [h1]; exact hab
      · exact tr a b x hab (hb.1 x h1)
    · rename_i hab
      have hba : le b a = true := by
        have := tot a b
        simp only [Bool.or_eq_true] at this
        rcases this with h1 | h1
        · exact absurd h1 hab
        · exact h1
      refine pairwise_cons.mpr ⟨?_, ih hb.2⟩
      intro x hx
      rcases mem_cons.mp ((insertBy_perm le a t).mem_iff.mp hx) with h1 | h1
      · rw [h1]; exact hba
      · exact hb.1 x h1

theorem isort_sorted {α : Type} (le : α → α → Bool) (tr : ∀ a b c, le a b = true → le b c = true → le a c = true)
    (tot : ∀ a b, (le a b || le b a) = true) : ∀ l : List α, (isort le l).Pairwise (fun x y => le x y = true) := by
  intro l
  induction l with
  | nil => simp [isort]
  | cons a t ih => exact insertBy_sorted le tr tot a _ ih

/-- insertion sort meets the specification, for a transitive total comparator -/
def insertSorter {α : Type} (le : α → α → Bool) (tr : ∀ a b c, le a b = true → le b c = true → le a c = true)
    (tot : ∀ a b, (le a b || le b a) = true) : Sorter α le :=
  ⟨isort le, isort_perm le, isort_sorted le tr tot⟩

/-- so does "reverse the input, then insertion sort" — a different algorithm with the same contract -/
def revInsertSorter {α : Type} (le : α → α → Bool) (tr : ∀ a b c, le a b = true → le b c = true → le a c = true)
    (tot : ∀ a b, (le a b || le b a) = true) : Sorter α le :=
  ⟨fun l => isort le l.reverse, fun l => (isort_perm le l.reverse).trans (reverse_perm l), fun l => isort_sorted le tr tot l.reverse⟩

end FxVerif.Proofs.C17
