import FxVerif.Model.C17Sort
import FxVerif.Proofs.C17
/-! helper lemmas for the sort model (core Lean only) -/
namespace FxVerif.Proofs.C17
open FxVerif.Model.C17 FxVerif.Gen.C17 List

theorem oracleSetKeys_eq : oracleSetKeys = [⟨"Power", true, "nat"⟩, ⟨"ExternalAddress", false, "string"⟩] := by decide
theorem missedKeys_eq : missedKeys = [⟨"MissedBlocks", true, "int"⟩] := by decide

/-- the regenerated comparator program of `BridgeValidators.Less`, interpreted: power descending, then address ascending -/
theorem memberLe_iff (a b : NS) : memberLe a b = true ↔ (b.num < a.num ∨ (a.num = b.num ∧ a.str ≤ b.str)) := by
  unfold memberLe leKeys lessKeys
  rw [oracleSetKeys_eq]
  simp only [cmpKeys, keyCmp, cmpNat, cmpStr]
  have e1 : ("Power" == "Power") = true := by decide
  have e2 : ("ExternalAddress" == "Power") = false := by decide
  have e3 : ("ExternalAddress" == "ExternalAddress") = true := by decide
  simp only [e1, e2, e3, if_true, Bool.false_eq_true, if_false]
  by_cases h1 : b.num < a.num
  · simp [h1, Ordering.swap]
  · by_cases h2 : b.num = a.num
    · have h3 : a.num = b.num := h2.symm
      simp only [h2, if_false, if_true, Ordering.swap, Nat.lt_irrefl, false_or, true_and]
      by_cases h4 : b.str < a.str
      · simp [h4, String.not_le.mpr h4]
      · by_cases h5 : b.str = a.str
        · simp [h5]
        · simp [h4, h5, String.not_lt.mp h4]
    · have : ¬ a.num = b.num := fun h => h2 h.symm
      simp [h1, h2, Ordering.swap, this]

/-- the regenerated comparator of `ValidatorListMissedBlock`, interpreted: missed blocks descending, nothing else -/
theorem missedLe_iff (a b : NS) : missedLe a b = true ↔ b.num ≤ a.num := by
  unfold missedLe leKeys lessKeys
  rw [missedKeys_eq]
  simp only [cmpKeys, keyCmp, cmpNat]
  have e1 : ("MissedBlocks" == "MissedBlocks") = true := by decide
  simp only [e1, if_true]
  by_cases h1 : b.num < a.num
  · simp [h1, Ordering.swap]; omega
  · by_cases h2 : b.num = a.num
    · simp [h2, Ordering.swap]
    · simp [h1, h2, Ordering.swap]; omega

theorem memberLe_antisymm (a b : NS) (h1 : memberLe a b = true) (h2 : memberLe b a = true) : a = b := by
  rw [memberLe_iff] at h1 h2
  have hn : a.num = b.num := by omega
  have hs : a.str = b.str := by
    rcases h1 with h | h
    · omega
    · rcases h2 with h' | h'
      · omega
      · exact String.le_antisymm h.2 h'.2
  cases a; cases b; simp_all

theorem memberLe_trans (a b c : NS) (h1 : memberLe a b = true) (h2 : memberLe b c = true) : memberLe a c = true := by
  rw [memberLe_iff] at *
  rcases h1 with h | h <;> rcases h2 with h' | h'
  · left; omega
  · left; omega
  · left; omega
  · right; exact ⟨by omega, String.le_trans h.2 h'.2⟩

theorem memberLe_total (a b : NS) : (memberLe a b || memberLe b a) = true := by
  rw [Bool.or_eq_true, memberLe_iff, memberLe_iff]
  by_cases h : a.num = b.num
  · rcases String.le_total a.str b.str with h' | h'
    · left; right; exact ⟨h, h'⟩
    · right; right; exact ⟨h.symm, h'⟩
  · omega

theorem missedLe_trans (a b c : NS) (h1 : missedLe a b = true) (h2 : missedLe b c = true) : missedLe a c = true := by
  rw [missedLe_iff] at *; omega

theorem missedLe_total (a b : NS) : (missedLe a b || missedLe b a) = true := by
  rw [Bool.or_eq_true, missedLe_iff, missedLe_iff]; omega

theorem insertBy_perm {α : Type} (le : α → α → Bool) (a : α) : ∀ l : List α, (insertBy le a l).Perm (a :: l) := by
  intro l
  induction l with
  | nil => exact Perm.refl _
  | cons b t ih =>
    simp only [insertBy]
    split
    · exact Perm.refl _
    · exact ((perm_cons b).mpr ih).trans (Perm.swap a b t)

theorem isort_perm {α : Type} (le : α → α → Bool) : ∀ l : List α, (isort le l).Perm l := by
  intro l
  induction l with
  | nil => exact Perm.refl _
  | cons a t ih => exact (insertBy_perm le a _).trans ((perm_cons a).mpr ih)

theorem insertBy_sorted {α : Type} (le : α → α → Bool) (tr : ∀ a b c, le a b = true → le b c = true → le a c = true)
    (tot : ∀ a b, (le a b || le b a) = true) (a : α) :
    ∀ l : List α, l.Pairwise (fun x y => le x y = true) → (insertBy le a l).Pairwise (fun x y => le x y = true) := by
  intro l
  induction l with
  | nil => intro _; simp [insertBy]
  | cons b t ih =>
    intro h
    simp only [insertBy]
    have hb := (pairwise_cons.mp h)
    split
    · rename_i hab
      refine pairwise_cons.mpr ⟨?_, h⟩
      intro x hx
      rcases mem_cons.mp hx with h1 | h1
      · rw [h1]; exact hab
      · exact tr a b x hab (hb.1 x h1)
    · rename_i hab
      have hba : le b a = true := by
        have := tot a b
        simp only [Bool.or_eq_true] at this
        rcases this with h1 | h1
        · exact absurd h1 hab
        · exact h1
      refine pairwise_cons.mpr ⟨?_, ih hb.2⟩
      intro x hx
      rcases mem_cons.mp ((insertBy_perm le a t).mem_iff.mp hx) with h1 | h1
      · rw [h1]; exact hba
      · exact hb.1 x h1

theorem isort_sorted {α : Type} (le : α → α → Bool) (tr : ∀ a b c, le a b = true → le b c = true → le a c = true)
    (tot : ∀ a b, (le a b || le b a) = true) : ∀ l : List α, (isort le l).Pairwise (fun x y => le x y = true) := by
  intro l
  induction l with
  | nil => simp [isort]
  | cons a t ih => exact insertBy_sorted le tr tot a _ ih

/-- insertion sort meets the specification, for a transitive total comparator -/
def insertSorter {α : Type} (le : α → α → Bool) (tr : ∀ a b c, le a b = true → le b c = true → le a c = true)
    (tot : ∀ a b, (le a b || le b a) = true) : Sorter α le :=
  ⟨isort le, isort_perm le, isort_sorted le tr tot⟩

/-- so does "reverse the input, then insertion sort" — a different algorithm with the same contract -/
def revInsertSorter {α : Type} (le : α → α → Bool) (tr : ∀ a b c, le a b = true → le b c = true → le a c = true)
    (tot : ∀ a b, (le a b || le b a) = true) : Sorter α le :=
  ⟨fun l => isort le l.reverse, fun l => (isort_perm le l.reverse).trans (reverse_perm l), fun l => isort_sorted le tr tot l.reverse⟩

/-! ## the generic interpreter: equality, swap, separation -/

theorem cmpNat_eq {a b : Nat} (h : cmpNat a b = .eq) : a = b := by
  unfold cmpNat at h
  split at h
  · cases h
  · split at h
    · assumption
    · cases h

theorem cmpStr_eq {a b : String} (h : cmpStr a b = .eq) : a = b := by
  unfold cmpStr at h
  split at h
  · cases h
  · split at h
    · assumption
    · cases h

theorem cmpInt_eq {a b : Int} (h : cmpInt a b = .eq) : a = b := by
  unfold cmpInt at h
  split at h
  · cases h
  · split at h
    · assumption
    · cases h

theorem cmpBool_eq {a b : Bool} (h : cmpBool a b = .eq) : a = b := by
  cases a <;> cases b <;> simp [cmpBool] at h ⊢

theorem cmpBytes_eq : ∀ {a b : List Nat}, cmpBytes a b = .eq → a = b
  | [], [], _ => rfl
  | [], _ :: _, h => by simp [cmpBytes] at h
  | _ :: _, [], h => by simp [cmpBytes] at h
  | x :: xs, y :: ys, h => by
    simp only [cmpBytes] at h
    split at h
    · rename_i he
      rw [cmpNat_eq he, cmpBytes_eq h]
    · rename_i o hne
      exact absurd h (by intro h2; exact hne (by rw [h2]))

theorem Val.cmp_eq {x y : Val} (h : x.cmp y = .eq) : x = y := by
  cases x <;> cases y <;> simp only [Val.cmp, Val.tag] at h <;> first
    | (rw [cmpNat_eq h]) | (rw [cmpStr_eq h]) | (rw [cmpInt_eq h]) | (rw [cmpBool_eq h]) | (rw [cmpBytes_eq h])
    | (exact absurd h (by decide))

theorem swap_eq {o : Ordering} (h : o.swap = .eq) : o = .eq := by
  cases o <;> simp [Ordering.swap] at h ⊢

theorem cmpRec_eq_all : ∀ (keys : List SortKey) (a b : Rec), cmpRec keys a b = .eq → ∀ k ∈ keys, keyCmpR k a b = .eq := by
  intro keys
  induction keys with
  | nil => intro a b _ k hk; simp at hk
  | cons k ks ih =>
    intro a b h k' hk'
    simp only [cmpRec] at h
    split at h
    · rename_i heq
      rcases mem_cons.mp hk' with h1 | h1
      · rw [h1]; exact heq
      · exact ih a b h k' h1
    · rename_i o hne
      exact absurd h (by intro h2; exact hne (by rw [h2]))

/-- records over the same field list that agree on every field are equal -/
theorem rec_ext : ∀ (fields : List String) (a b : Rec), a.map (·.1) = fields → b.map (·.1) = fields → fields.Nodup →
    (∀ f ∈ fields, fieldOf a f = fieldOf b f) → a = b := by
  intro fields
  induction fields with
  | nil =>
    intro a b ha hb _ _
    rw [map_eq_nil_iff.mp ha, map_eq_nil_iff.mp hb]
  | cons f fs ih =>
    intro a b ha hb hn hall
    cases a with
    | nil => simp at ha
    | cons ea a' =>
      cases b with
      | nil => simp at hb
      | cons eb b' =>
        simp only [map_cons, cons.injEq] at ha hb
        have hn' := nodup_cons.mp hn
        have h0 := hall f (by simp)
        simp only [fieldOf, find?_cons, ha.1, hb.1, beq_self_eq_true, Option.map_some, Option.some.injEq] at h0
        have hea : ea = eb := by
          cases ea; cases eb
          simp only at ha hb h0
          simp only [Prod.mk.injEq]
          exact ⟨ha.1.trans hb.1.symm, h0⟩
        have htail : a' = b' := by
          apply ih a' b' ha.2 hb.2 hn'.2
          intro g hg
          have hgf : (f == g) = false := by
            simp only [beq_eq_false_iff_ne, ne_eq]
            intro h; subst h; exact hn'.1 hg
          have h1 := hall g (by simp [hg])
          simp only [fieldOf, find?_cons, ha.1, hb.1, hgf] at h1
          exact h1
        rw [hea, htail]

/-- a comparator program whose keys cover every field of the element separates distinct elements -/
theorem cover_separates (keys : List SortKey) (fields : List String) (a b : Rec) (ha : a.map (·.1) = fields)
    (hb : b.map (·.1) = fields) (hn : fields.Nodup) (hcov : ∀ f ∈ fields, ∃ k ∈ keys, k.field = f)
    (h : cmpRec keys a b = .eq) : a = b := by
  apply rec_ext fields a b ha hb hn
  intro f hf
  obtain ⟨k, hk, hkf⟩ := hcov f hf
  have hke := cmpRec_eq_all keys a b h k hk
  have hfa : ∃ x, fieldOf a f = some x := by
    have : f ∈ a.map (·.1) := by rw [ha]; exact hf
    obtain ⟨e, he, hef⟩ := mem_map.mp this
    cases hfind : a.find? (fun e => e.1 == f) with
    | none =>
      have := find?_eq_none.mp hfind e he
      simp [hef] at this
    | some e' => exact ⟨e'.2, by simp [fieldOf, hfind]⟩
  have hfb : ∃ y, fieldOf b f = some y := by
    have : f ∈ b.map (·.1) := by rw [hb]; exact hf
    obtain ⟨e, he, hef⟩ := mem_map.mp this
    cases hfind : b.find? (fun e => e.1 == f) with
    | none =>
      have := find?_eq_none.mp hfind e he
      simp [hef] at this
    | some e' => exact ⟨e'.2, by simp [fieldOf, hfind]⟩
  obtain ⟨x, hx⟩ := hfa
  obtain ⟨y, hy⟩ := hfb
  rw [hx, hy]
  unfold keyCmpR at hke
  rw [hkf, hx, hy] at hke
  simp only at hke
  split at hke
  · rw [Val.cmp_eq (swap_eq hke)]
  · rw [Val.cmp_eq hke]

theorem cmpNat_swap (a b : Nat) : cmpNat b a = (cmpNat a b).swap := by
  unfold cmpNat
  by_cases h1 : a < b
  · have : ¬ b < a := by omega
    have h3 : ¬ b = a := by omega
    simp [h1, this, h3, Ordering.swap]
  · by_cases h2 : a = b
    · subst h2; simp [Ordering.swap]
    · have : b < a := by omega
      simp [h1, h2, this, Ordering.swap]

theorem cmpStr_swap (a b : String) : cmpStr b a = (cmpStr a b).swap := by
  unfold cmpStr
  by_cases h1 : a < b
  · have h2 : ¬ b < a := String.lt_asymm h1
    have h3 : ¬ b = a := fun h => by subst h; exact String.lt_irrefl _ h1
    simp [h1, h2, h3, Ordering.swap]
  · by_cases h2 : a = b
    · subst h2; simp [Ordering.swap]
    · have h3 : b < a := by
        have hle : b ≤ a := String.not_lt.mp h1
        apply Classical.byContradiction
        intro hn
        exact h2 (String.le_antisymm (String.not_lt.mp hn) hle)
      simp [h1, h2, h3, Ordering.swap]

theorem cmpInt_swap (a b : Int) : cmpInt b a = (cmpInt a b).swap := by
  unfold cmpInt
  by_cases h1 : a < b
  · have : ¬ b < a := by omega
    have h3 : ¬ b = a := by omega
    simp [h1, this, h3, Ordering.swap]
  · by_cases h2 : a = b
    · subst h2; simp [Ordering.swap]
    · have : b < a := by omega
      simp [h1, h2, this, Ordering.swap]

theorem cmpBool_swap (a b : Bool) : cmpBool b a = (cmpBool a b).swap := by
  cases a <;> cases b <;> rfl

theorem cmpBytes_swap : ∀ (a b : List Nat), cmpBytes b a = (cmpBytes a b).swap
  | [], [] => rfl
  | [], _ :: _ => rfl
  | _ :: _, [] => rfl
  | x :: xs, y :: ys => by
    simp only [cmpBytes]
    rw [cmpNat_swap x y]
    cases h : cmpNat x y <;> simp only [Ordering.swap]
    exact cmpBytes_swap xs ys

theorem Val.cmp_swap (x y : Val) : y.cmp x = (x.cmp y).swap := by
  cases x <;> cases y <;> simp only [Val.cmp, Val.tag] <;> first
    | exact cmpNat_swap _ _ | exact cmpStr_swap _ _ | exact cmpInt_swap _ _ | exact cmpBool_swap _ _ | exact cmpBytes_swap _ _

theorem swap_swap (o : Ordering) : o.swap.swap = o := by cases o <;> rfl

theorem keyCmpR_swap (k : SortKey) (a b : Rec) : keyCmpR k b a = (keyCmpR k a b).swap := by
  unfold keyCmpR
  cases fieldOf a k.field <;> cases fieldOf b k.field <;> try rfl
  rename_i x y
  simp only []
  rw [Val.cmp_swap x y]
  split <;> rfl

theorem cmpRec_swap : ∀ (keys : List SortKey) (a b : Rec), cmpRec keys b a = (cmpRec keys a b).swap := by
  intro keys
  induction keys with
  | nil => intro a b; rfl
  | cons k ks ih =>
    intro a b
    simp only [cmpRec]
    rw [keyCmpR_swap k a b]
    cases h : keyCmpR k a b <;> simp only [Ordering.swap]
    exact ih a b


theorem leRec_antisymm (keys : List SortKey) (a b : Rec) (h1 : leRec keys a b = true) (h2 : leRec keys b a = true) :
    cmpRec keys a b = .eq := by
  unfold leRec at h1 h2
  rw [cmpRec_swap keys a b] at h1
  cases h : cmpRec keys a b <;> simp_all [Ordering.swap]


end FxVerif.Proofs.C17
