import FxVerif.Model.C09
/-! helper lemmas for C09: the journal-extension invariant and the journal/snapshot simulation (core Lean only) -/
namespace FxVerif.Proofs.C09
open FxVerif.Model.C09

variable {N : Type}

theorem undoAll_append (a b : List (Entry N)) (v : View N) : undoAll (a ++ b) v = undoAll b (undoAll a v) := by
  induction a generalizing v with
  | nil => rfl
  | cons e es ih => simp [undoAll, ih]

theorem setSlot_undo (f : Nat → Nat) (k v : Nat) : setSlot (setSlot f k v) k (f k) = f := by
  funext j
  simp only [setSlot]
  split <;> simp_all

/-- `s'` was reached from `s` by journaled operations only: its journal extends `s`'s and undoing the extension gives
back exactly `s`'s storage, native store and logs -/
def Ext (s s' : St N) : Prop := ∃ seg, s'.journal = seg ++ s.journal ∧ undoAll seg s'.toView = s.toView

theorem Ext.refl (s : St N) : Ext s s := ⟨[], by simp, rfl⟩

theorem Ext.trans {a b c : St N} : Ext a b → Ext b c → Ext a c := by
  rintro ⟨s1, h1, u1⟩ ⟨s2, h2, u2⟩
  exact ⟨s2 ++ s1, by simp [h2, h1], by rw [undoAll_append, u2, u1]⟩

theorem revertTo_of_ext {s s' : St N} (h : Ext s s') : s'.revertTo s.journal.length = s := by
  obtain ⟨seg, hj, hu⟩ := h
  cases s with
  | mk v j =>
    simp only [St.revertTo, hj, List.length_append, Nat.add_sub_cancel, List.take_left', List.drop_left'] at *
    simp [hu]

theorem ext_sstore (s : St N) (k v : Nat) : Ext s (s.sstore k v) := by
  refine ⟨[.slot k (s.slots k)], by simp [St.sstore], ?_⟩
  cases s with
  | mk vw j =>
    cases vw with
    | mk sl nat lg => simp [St.sstore, undoAll, undo, setSlot_undo]

theorem ext_addLog (s : St N) (l : Nat) : Ext s (s.addLog l) := by
  refine ⟨[.log], by simp [St.addLog], ?_⟩
  cases s with
  | mk vw j => cases vw with | mk sl nat lg => simp [St.addLog, undoAll, undo]

theorem ext_addLogs (s : St N) (ls : List Nat) : Ext s (s.addLogs ls) := by
  induction ls generalizing s with
  | nil => exact Ext.refl s
  | cons l ls ih => exact (ext_addLog s l).trans (ih _)

theorem ext_transfer (s : St N) (f : N → N) : Ext s (s.transfer f) := by
  refine ⟨[.native s.native], by simp [St.transfer], ?_⟩
  cases s with
  | mk vw j => cases vw with | mk sl nat lg => simp [St.transfer, undoAll, undo]

theorem ext_enter (s : St N) (h : CallHdr N) : Ext s (s.enter h) := by
  unfold St.enter
  split
  · exact ext_transfer s _
  · exact Ext.refl s

theorem ext_setNative_push (s : St N) (n : N) :
    Ext s { s with native := n, journal := .native s.native :: s.journal } := by
  refine ⟨[.native s.native], by simp, ?_⟩
  cases s with
  | mk vw j => cases vw with | mk sl nat lg => simp [undoAll, undo]

theorem addLogs_native (s : St N) (ls : List Nat) : (s.addLogs ls).native = s.native := by
  induction ls generalizing s with
  | nil => rfl
  | cons l ls ih => simp only [St.addLogs]; rw [ih]; rfl

theorem eta_native (t : St N) (n : N) (h : t.native = n) : ({ t with native := n } : St N) = t := by
  subst h; rfl

theorem ext_nativeAction (s : St N) (ro : Bool) (act : Action N) : Ext s (s.nativeAction ro act).2 := by
  unfold St.nativeAction
  have h1 := ext_addLogs s (act ro s.native).2.2
  have hn := addLogs_native s (act ro s.native).2.2
  by_cases hok : (act ro s.native).1 = true
  · simp only [hok, ↓reduceIte]
    refine h1.trans ?_
    have := ext_setNative_push (s.addLogs (act ro s.native).2.2) (act ro s.native).2.1
    rw [hn] at this
    exact this
  · simp only [hok, Bool.false_eq_true, ↓reduceIte]
    have : ({ s.addLogs (act ro s.native).2.2 with native := s.native } : St N) = s.addLogs (act ro s.native).2.2 :=
      eta_native _ _ hn
    simp only [this]
    exact h1

theorem addLogs_view (s : St N) (ls : List Nat) : (s.addLogs ls).toView = s.toView.addLogs ls := by
  induction ls generalizing s with
  | nil => simp [St.addLogs, View.addLogs]
  | cons l ls ih =>
    simp only [St.addLogs]
    rw [ih]
    simp [St.addLog, View.addLogs]

theorem enter_view (s : St N) (h : CallHdr N) : (s.enter h).toView = s.toView.enter h := by
  unfold St.enter View.enter
  split <;> simp [St.transfer]

/-- simulation relation between a journal-machine result (entered at `s`) and a snapshot-machine result -/
def Good (s : St N) (r : Outcome × St N × Nat) (r' : Outcome × View N × Nat) : Prop :=
  Ext s r.2.1 ∧ r.1 = r'.1 ∧ r.2.2 = r'.2.2 ∧ (r.1 = .ok → r.2.1.toView = r'.2.1)

theorem good_fail (s : St N) (v : View N) : Good s (.fail, s, 0) (.fail, v, 0) :=
  ⟨Ext.refl s, rfl, rfl, by simp⟩

theorem runPre_good (ro : Bool) (gas req : Nat) (act : Action N) (s : St N) :
    Good s (runPre ro gas req act s) (specPre ro gas req act s.toView) := by
  unfold runPre specPre
  by_cases hg : gas < req
  · simp only [hg, ↓reduceIte]; exact good_fail s _
  · simp only [hg, ↓reduceIte]
    have hext := ext_nativeAction s ro act
    by_cases hok : (act ro s.native).1 = true
    · have h1 : (s.nativeAction ro act).1 = true := by simp [St.nativeAction, hok]
      simp only [h1, hok, ↓reduceIte]
      refine ⟨hext, rfl, rfl, fun _ => ?_⟩
      simp only [St.nativeAction, hok, ↓reduceIte]
      have := addLogs_view s (act ro s.native).2.2
      simp only [← this]
    · have h1 : (s.nativeAction ro act).1 = false := by simp [St.nativeAction, hok]
      simp only [h1, hok, Bool.false_eq_true, ↓reduceIte]
      exact ⟨hext, rfl, rfl, by simp⟩

theorem resolve_good (h : CallHdr N) (s : St N) (keep : Nat) (r : Outcome × St N × Nat)
    (r' : Outcome × View N × Nat) (hg : Good s r r') :
    (∃ x y, resolve h s.journal.length keep r = .inl x ∧ specResolve h s.toView keep r' = .inl y ∧
        Ext s x.1 ∧ x.1.toView = y.1 ∧ x.2 = y.2)
    ∨ (∃ a b, resolve h s.journal.length keep r = .inr a ∧ specResolve h s.toView keep r' = .inr b ∧ Good s a b) := by
  obtain ⟨hext, ho, hgas, hv⟩ := hg
  unfold resolve specResolve
  rw [← ho, ← hgas]
  by_cases hok : r.1 = .ok
  · simp only [hok, ↓reduceIte]
    by_cases hp : keep + r.2.2 < h.pOk
    · simp only [hp, ↓reduceIte]
      exact .inr ⟨_, _, rfl, rfl, hext, rfl, rfl, by simp⟩
    · simp only [hp, ↓reduceIte]
      exact .inl ⟨_, _, rfl, rfl, hext, hv hok, rfl⟩
  · simp only [hok, ↓reduceIte, revertTo_of_ext hext]
    by_cases hp : keep + (if r.1 = .revert then r.2.2 else 0) < h.pFail
    · simp only [hp, ↓reduceIte]
      exact .inr ⟨_, _, rfl, rfl, good_fail s _⟩
    · simp only [hp, ↓reduceIte]
      by_cases hs : h.swallow = true
      · simp only [hs, ↓reduceIte]
        exact .inl ⟨_, _, rfl, rfl, Ext.refl s, rfl, rfl⟩
      · simp only [hs, Bool.false_eq_true, ↓reduceIte]
        exact .inr ⟨_, _, rfl, rfl, Ext.refl s, rfl, rfl, by simp⟩

theorem good_of_ext {s s1 : St N} {r : Outcome × St N × Nat} {r' : Outcome × View N × Nat}
    (h1 : Ext s s1) (hg : Good s1 r r') : Good s r r' :=
  ⟨h1.trans hg.1, hg.2⟩

/-- the journal machine simulates the snapshot machine — every program, fuel, gas, static flag and entry state -/
theorem exec_good : ∀ (fuel : Nat) (ro : Bool) (gas : Nat) (p : List (Prog N)) (s : St N),
    Good s (exec fuel ro gas p s) (spec fuel ro gas p s.toView) := by
  intro fuel
  induction fuel with
  | zero => intro ro gas p s; exact good_fail s _
  | succ fuel ih =>
    intro ro gas p s
    cases p with
    | nil => exact ⟨Ext.refl s, rfl, rfl, fun _ => rfl⟩
    | cons i rest =>
      cases i with
      | sstore c k v =>
        simp only [exec, spec]
        by_cases hc : gas < c ∨ ro = true
        · simp only [hc, ↓reduceIte]; exact good_fail s _
        · simp only [hc, ↓reduceIte]
          have := ih ro (gas - c) rest (s.sstore k v)
          exact good_of_ext (ext_sstore s k v) this
      | revert c =>
        simp only [exec, spec]
        by_cases hc : gas < c
        · simp only [hc, ↓reduceIte]; exact good_fail s _
        · simp only [hc, ↓reduceIte]; exact ⟨Ext.refl s, rfl, rfl, by simp⟩
      | stop c =>
        simp only [exec, spec]
        by_cases hc : gas < c
        · simp only [hc, ↓reduceIte]; exact good_fail s _
        · simp only [hc, ↓reduceIte]; exact ⟨Ext.refl s, rfl, rfl, fun _ => rfl⟩
      | invalid => simp only [exec, spec]; exact good_fail s _
      | call h body =>
        simp only [exec, spec]
        by_cases hc : gas < h.callc ∨ (ro = true ∧ h.xfer.isSome = true)
        · simp only [hc, ↓reduceIte]; exact good_fail s _
        · simp only [hc, ↓reduceIte]
          have hb := ih (ro || h.kind == .staticcall) (fwdGas h gas + h.stip) body (s.enter h)
          rw [enter_view] at hb
          have hb' := good_of_ext (ext_enter s h) hb
          rcases resolve_good h s (keepGas h gas) _ _ hb' with ⟨x, y, hx, hy, hext, hv, hgs⟩ | ⟨a, b, ha, hb2, hgood⟩
          · rw [hx, hy]
            simp only
            have := ih ro x.2 rest x.1
            rw [hv] at this
            rw [← hgs]
            exact good_of_ext hext this
          · rw [ha, hb2]
            exact hgood
      | pre h req act =>
        simp only [exec, spec]
        by_cases hc : gas < h.callc ∨ (ro = true ∧ h.xfer.isSome = true)
        · simp only [hc, ↓reduceIte]; exact good_fail s _
        · simp only [hc, ↓reduceIte]
          have hb := runPre_good (h.kind != .call) (fwdGas h gas + h.stip) req act (s.enter h)
          rw [enter_view] at hb
          have hb' := good_of_ext (ext_enter s h) hb
          rcases resolve_good h s (keepGas h gas) _ _ hb' with ⟨x, y, hx, hy, hext, hv, hgs⟩ | ⟨a, b, ha, hb2, hgood⟩
          · rw [hx, hy]
            simp only
            have := ih ro x.2 rest x.1
            rw [hv] at this
            rw [← hgs]
            exact good_of_ext hext this
          · rw [ha, hb2]
            exact hgood

end FxVerif.Proofs.C09
