import FxVerif.Model.C09
/-! helper lemmas for C09: the journal-extension invariant and the journal/snapshot simulation (core Lean only) -/
namespace FxVerif.Proofs.C09
open FxVerif.Model.C09

variable {N : Type}

theorem undoAll_append (a b : List (Entry N)) (v : View N) : undoAll (a ++ b) v = undoAll b (undoAll a v) := by
  induction a generalizing v with
  | nil => rfl
  | cons e es ih => simp [undoAll, ih]

theorem setSlot_undo (f : Nat → Nat) (k v : Nat) : setSlot (setSlot f k v) k (f k) = f := by
  funext j
  simp only [setSlot]
  split <;> simp_all

/-- undoing a journal segment does not depend on the native store it starts from, except that the result keeps that
store when the segment holds no native entry: if the segment leads to `w`, it also does from `w`'s own native store -/
theorem undoAll_fix_native (seg : List (Entry N)) (v w : View N) (h : undoAll seg v = w) :
    undoAll seg { v with native := w.native } = w := by
  induction seg generalizing v with
  | nil => simp only [undoAll] at h ⊢; subst h; rfl
  | cons e es ih =>
    simp only [undoAll] at h ⊢
    cases e with
    | slot k prev => exact ih _ h
    | native snap => exact h
    | log => exact ih _ h

/-- `s'` was reached from `s` by journaled operations only: its journal extends `s`'s and undoing the extension gives
back exactly `s`'s storage, native store and logs -/
def Ext (s s' : St N) : Prop := ∃ seg, s'.journal = seg ++ s.journal ∧ undoAll seg s'.toView = s.toView

theorem Ext.refl (s : St N) : Ext s s := ⟨[], by simp, rfl⟩

theorem Ext.trans {a b c : St N} : Ext a b → Ext b c → Ext a c := by
  rintro ⟨s1, h1, u1⟩ ⟨s2, h2, u2⟩
  exact ⟨s2 ++ s1, by simp [h2, h1], by rw [undoAll_append, u2, u1]⟩

theorem revertTo_of_ext {s s' : St N} (h : Ext s s') : s'.revertTo s.journal.length = s := by
  obtain ⟨seg, hj, hu⟩ := h
  cases s with
  | mk v j =>
    simp only [St.revertTo, hj, List.length_append, Nat.add_sub_cancel, List.take_left', List.drop_left'] at *
    simp [hu]

theorem ext_sstore (s : St N) (k v : Nat) : Ext s (s.sstore k v) := by
  refine ⟨[.slot k (s.slots k)], by simp [St.sstore], ?_⟩
  cases s with
  | mk vw j =>
    cases vw with
    | mk sl nat lg => simp [St.sstore, undoAll, undo, setSlot_undo]

theorem ext_addLog (s : St N) (l : Nat) : Ext s (s.addLog l) := by
  refine ⟨[.log], by simp [St.addLog], ?_⟩
  cases s with
  | mk vw j => cases vw with | mk sl nat lg => simp [St.addLog, undoAll, undo]

theorem ext_addLogs (s : St N) (ls : List Nat) : Ext s (s.addLogs ls) := by
  induction ls generalizing s with
  | nil => exact Ext.refl s
  | cons l ls ih => exact (ext_addLog s l).trans (ih _)

theorem ext_transfer (s : St N) (f : N → N) : Ext s (s.transfer f) := by
  refine ⟨[.native s.native], by simp [St.transfer], ?_⟩
  cases s with
  | mk vw j => cases vw with | mk sl nat lg => simp [St.transfer, undoAll, undo]

theorem ext_enter (s : St N) (h : CallHdr N) : Ext s (s.enter h) := by
  unfold St.enter
  split
  · exact ext_transfer s _
  · exact Ext.refl s

/-- `ExecuteNativeAction` on error: putting the snapshot of the entry state back keeps the journal discipline, whatever
journaled operations (EVM calls, logs) happened in between -/
theorem ext_restore {s t : St N} (h : Ext s t) : Ext s { t with native := s.native } := by
  obtain ⟨seg, hj, hu⟩ := h
  exact ⟨seg, hj, undoAll_fix_native seg t.toView s.toView hu⟩

/-- `ExecuteNativeAction` on success: the snapshot of the entry state is journaled on top of whatever was journaled in
between; the store the action leaves can be anything -/
theorem ext_journal_snapshot {s t : St N} (h : Ext s t) (n : N) :
    Ext s { t with native := n, journal := .native s.native :: t.journal } := by
  obtain ⟨seg, hj, hu⟩ := h
  refine ⟨.native s.native :: seg, by simp [hj], ?_⟩
  simp only [undoAll, undo]
  exact undoAll_fix_native seg t.toView s.toView hu

theorem addLogs_native (s : St N) (ls : List Nat) : (s.addLogs ls).native = s.native := by
  induction ls generalizing s with
  | nil => rfl
  | cons l ls ih => simp only [St.addLogs]; rw [ih]; rfl

theorem addLogs_view (s : St N) (ls : List Nat) : (s.addLogs ls).toView = s.toView.addLogs ls := by
  induction ls generalizing s with
  | nil => simp [St.addLogs, View.addLogs]
  | cons l ls ih =>
    simp only [St.addLogs]
    rw [ih]
    simp [St.addLog, View.addLogs]

theorem enter_view (s : St N) (h : CallHdr N) : (s.enter h).toView = s.toView.enter h := by
  unfold St.enter View.enter
  split <;> simp [St.transfer]

/-- simulation relation between a journal-machine result (entered at `s`) and a snapshot-machine result; after an
unrecovered panic the state is never looked at again -/
def Good (s : St N) (r : Outcome × St N × Nat) (r' : Outcome × View N × Nat) : Prop :=
  r.1 = r'.1 ∧ r.2.2 = r'.2.2 ∧ (r.1 ≠ .abort → Ext s r.2.1) ∧ (r.1 = .ok → r.2.1.toView = r'.2.1)

theorem good_fail (s : St N) (v : View N) : Good s (.fail, s, 0) (.fail, v, 0) :=
  ⟨rfl, rfl, fun _ => Ext.refl s, by simp⟩

theorem good_of_ext {s s1 : St N} {r : Outcome × St N × Nat} {r' : Outcome × View N × Nat}
    (h1 : Ext s s1) (hg : Good s1 r r') : Good s r r' :=
  ⟨hg.1, hg.2.1, fun hne => h1.trans (hg.2.2.1 hne), hg.2.2.2⟩

/-- the evaluator simulates the spec evaluator on the callee programs of `inner` -/
def EvGood (ev : Eval N) (sev : SEval N) (inner : List (Nat × List (Prog N))) : Prop :=
  ∀ x ∈ inner, ∀ ro (s : St N), Good s (ev ro x.1 x.2 s) (sev ro x.1 x.2 s.toView)

theorem runInner_good (ev : Eval N) (sev : SEval N) (ro : Bool) :
    ∀ (inner : List (Nat × List (Prog N))) (s : St N), EvGood ev sev inner →
      (runInner ev ro inner s).1 = (specInner sev ro inner s.toView).1 ∧
      ((runInner ev ro inner s).1 ≠ .panic → Ext s (runInner ev ro inner s).2) ∧
      ((runInner ev ro inner s).1 = .ok → (runInner ev ro inner s).2.toView = (specInner sev ro inner s.toView).2) := by
  intro inner
  induction inner with
  | nil => intro s _; exact ⟨rfl, fun _ => Ext.refl s, fun _ => rfl⟩
  | cons x rest ih =>
    intro s hev
    obtain ⟨g, body⟩ := x
    have hx := hev (g, body) (List.mem_cons_self ..) ro s
    have hrest : EvGood ev sev rest := fun y hy => hev y (List.mem_cons_of_mem _ hy)
    obtain ⟨ho, _, hext, hv⟩ := hx
    simp only [runInner, specInner]
    simp only at ho hext hv
    rw [← ho]
    by_cases hok : (ev ro g body s).1 = .ok
    · simp only [hok, ↓reduceIte]
      have hne : (ev ro g body s).1 ≠ .abort := by rw [hok]; decide
      have h1 := ih (ev ro g body s).2.1 hrest
      rw [hv hok] at h1
      exact ⟨h1.1, fun hp => (hext hne).trans (h1.2.1 hp), h1.2.2⟩
    · simp only [hok, ↓reduceIte]
      by_cases hab : (ev ro g body s).1 = .abort
      · simp only [hab, ↓reduceIte]
        exact ⟨by first | rfl | trivial, fun h => absurd rfl h, fun h => by cases h⟩
      · simp only [hab, ↓reduceIte]
        refine ⟨by first | rfl | trivial, fun _ => ?_, fun h => by cases h⟩
        rw [revertTo_of_ext (hext hab)]
        exact Ext.refl s

theorem keeper_fst (s : St N) (ro : Bool) (g : Nat) (act : ActionX N) : (s.keeper ro g act).1 = (act ro g s.native).1 := rfl

/-- a precompile call of the clean shape: the journal machine (fork `ExecuteNativeAction` + the method's `Run`) simulates
the snapshot semantics, for every keeper part, every list of EVM calls made from inside and every gas value -/
theorem runPre_good (ev : Eval N) (sev : SEval N) (roCtx roCall : Bool) (gas req : Nat) (sh : RunShape) (out : N → N)
    (inner : List (Nat × List (Prog N))) (act : ActionX N) (s : St N) (hsh : sh.clean = true)
    (hev : EvGood ev sev inner) :
    Good s (runPre ev roCtx roCall gas req sh out inner act s) (specPre sev roCtx roCall gas req sh out inner act s.toView) := by
  have hb : sh.outerBefore = false ∧ sh.recovers = false ∧ sh.evmAfterWrite = false ∧ sh.dropsActionError = false ∧
      sh.outerOnError = false := by
    simp only [RunShape.clean, Bool.and_eq_true, Bool.not_eq_true'] at hsh
    exact ⟨hsh.1.1.1.1, hsh.1.1.1.2, hsh.1.1.2, hsh.1.2, hsh.2⟩
  obtain ⟨h1, h3, h4, h5, h6⟩ := hb
  unfold runPre specPre
  by_cases hg : gas < req
  · simp only [hg, ↓reduceIte]; exact good_fail s _
  · simp only [hg, ↓reduceIte, h1, h3, h5, h6, Bool.false_eq_true, runClosure, h4]
    have hi := runInner_good ev sev roCtx inner s hev
    obtain ⟨hio, hiext, hiv⟩ := hi
    generalize hri : runInner ev roCtx inner s = ri at hio hiext hiv
    generalize hsi : specInner sev roCtx inner s.toView = si at hio hiv
    obtain ⟨r1, s1⟩ := ri
    obtain ⟨r1', v1⟩ := si
    simp only at hio hiext hiv
    subst hio
    cases r1 with
    | ok =>
      simp only
      have hext1 : Ext s s1 := hiext (by decide)
      have hv1 : s1.toView = v1 := hiv rfl
      have hn : s1.native = v1.native := by rw [← hv1]
      simp only [St.keeper]
      rw [← hn]
      generalize hact : act roCall (gas - req) s1.native = a
      obtain ⟨ra, na, la⟩ := a
      have hextL : Ext s (s1.addLogs la) := hext1.trans (ext_addLogs s1 la)
      cases ra with
      | ok =>
        simp only
        cases hoa : sh.outerAfter with
        | false =>
          simp only [Bool.false_eq_true, ↓reduceIte]
          refine ⟨rfl, rfl, fun _ => ?_, fun _ => ?_⟩
          · exact ext_journal_snapshot hextL na
          · simp only [addLogs_view, hv1]
        | true =>
          simp only [↓reduceIte, St.poke]
          refine ⟨rfl, rfl, fun _ => ?_, fun _ => ?_⟩
          · exact ext_journal_snapshot hextL (out na)
          · simp only [addLogs_view, hv1]
      | err =>
        simp only
        refine ⟨rfl, rfl, fun _ => ?_, fun h => by cases h⟩
        exact ext_restore hextL
      | panic =>
        simp only
        exact ⟨rfl, rfl, fun h => absurd rfl h, fun h => by cases h⟩
    | err =>
      simp only
      refine ⟨rfl, rfl, fun _ => ?_, fun h => by cases h⟩
      exact ext_restore (hiext (by decide))
    | panic =>
      simp only
      exact ⟨rfl, rfl, fun h => absurd rfl h, fun h => by cases h⟩

theorem resolve_good (h : CallHdr N) (s : St N) (keep : Nat) (r : Outcome × St N × Nat)
    (r' : Outcome × View N × Nat) (hg : Good s r r') :
    (∃ x y, resolve h s.journal.length keep r = .inl x ∧ specResolve h s.toView keep r' = .inl y ∧
        Ext s x.1 ∧ x.1.toView = y.1 ∧ x.2 = y.2)
    ∨ (∃ a b, resolve h s.journal.length keep r = .inr a ∧ specResolve h s.toView keep r' = .inr b ∧ Good s a b) := by
  obtain ⟨ho, hgas, hext, hv⟩ := hg
  unfold resolve specResolve
  rw [← ho, ← hgas]
  by_cases hab : r.1 = .abort
  · simp only [hab, ↓reduceIte]
    exact .inr ⟨_, _, rfl, rfl, rfl, rfl, fun h => absurd rfl h, fun h => by cases h⟩
  · simp only [hab, ↓reduceIte]
    have hext := hext hab
    by_cases hok : r.1 = .ok
    · simp only [hok, ↓reduceIte]
      by_cases hp : keep + r.2.2 < h.pOk
      · simp only [hp, ↓reduceIte]
        exact .inr ⟨_, _, rfl, rfl, rfl, rfl, fun _ => hext, by simp⟩
      · simp only [hp, ↓reduceIte]
        exact .inl ⟨_, _, rfl, rfl, hext, hv hok, rfl⟩
    · simp only [hok, ↓reduceIte, revertTo_of_ext hext]
      by_cases hp : keep + (if r.1 = .revert then r.2.2 else 0) < h.pFail
      · simp only [hp, ↓reduceIte]
        exact .inr ⟨_, _, rfl, rfl, good_fail s _⟩
      · simp only [hp, ↓reduceIte]
        by_cases hs : h.swallow = true
        · simp only [hs, ↓reduceIte]
          exact .inl ⟨_, _, rfl, rfl, Ext.refl s, rfl, rfl⟩
        · simp only [hs, Bool.false_eq_true, ↓reduceIte]
          exact .inr ⟨_, _, rfl, rfl, rfl, rfl, fun _ => Ext.refl s, by simp⟩

/-- the journal machine simulates the snapshot machine — every program all of whose precompile calls have the clean
shape, every fuel, gas, static flag and entry state -/
theorem exec_good : ∀ (fuel : Nat) (ro : Bool) (gas : Nat) (p : List (Prog N)) (s : St N), Clean p →
    Good s (exec fuel ro gas p s) (spec fuel ro gas p s.toView) := by
  intro fuel
  induction fuel with
  | zero => intro ro gas p s _; exact good_fail s _
  | succ fuel ih =>
    intro ro gas p s hcl
    cases hcl with
    | nil => exact ⟨rfl, rfl, fun _ => Ext.refl s, fun _ => rfl⟩
    | @sstore c k v rest hrest =>
      simp only [exec, spec]
      by_cases hc : gas < c ∨ ro = true
      · simp only [hc, ↓reduceIte]; exact good_fail s _
      · simp only [hc, ↓reduceIte]
        have := ih ro (gas - c) rest (s.sstore k v) hrest
        exact good_of_ext (ext_sstore s k v) this
    | @revert c rest =>
      simp only [exec, spec]
      by_cases hc : gas < c
      · simp only [hc, ↓reduceIte]; exact good_fail s _
      · simp only [hc, ↓reduceIte]; exact ⟨rfl, rfl, fun _ => Ext.refl s, by simp⟩
    | @stop c rest =>
      simp only [exec, spec]
      by_cases hc : gas < c
      · simp only [hc, ↓reduceIte]; exact good_fail s _
      · simp only [hc, ↓reduceIte]; exact ⟨rfl, rfl, fun _ => Ext.refl s, fun _ => rfl⟩
    | @invalid rest => simp only [exec, spec]; exact good_fail s _
    | @call h body rest hbody hrest =>
      simp only [exec, spec]
      by_cases hc : gas < h.callc ∨ (ro = true ∧ h.xfer.isSome = true)
      · simp only [hc, ↓reduceIte]; exact good_fail s _
      · simp only [hc, ↓reduceIte]
        have hb' : Good s
            (if h.unfunded s.native then (.revert, s, fwdGas h gas + h.stip)
             else exec fuel (ro || h.kind == .staticcall) (fwdGas h gas + h.stip) body (s.enter h))
            (if h.unfunded s.native then (.revert, s.toView, fwdGas h gas + h.stip)
             else spec fuel (ro || h.kind == .staticcall) (fwdGas h gas + h.stip) body (s.toView.enter h)) := by
          by_cases hu : h.unfunded s.native = true
          · simp only [hu, ↓reduceIte]; exact ⟨rfl, rfl, fun _ => Ext.refl s, by simp⟩
          · simp only [hu]
            have hb := ih (ro || h.kind == .staticcall) (fwdGas h gas + h.stip) body (s.enter h) hbody
            rw [enter_view] at hb
            exact good_of_ext (ext_enter s h) hb
        rcases resolve_good h s (keepGas h gas) _ _ hb' with ⟨x, y, hx, hy, hext, hv, hgs⟩ | ⟨a, b, ha, hb2, hgood⟩
        · rw [hx, hy]
          simp only
          have := ih ro x.2 rest x.1 hrest
          rw [hv] at this
          rw [← hgs]
          exact good_of_ext hext this
        · rw [ha, hb2]
          exact hgood
    | @pre h req sh out inner act rest hsh hinner hrest =>
      simp only [exec, spec]
      by_cases hc : gas < h.callc ∨ (ro = true ∧ h.xfer.isSome = true)
      · simp only [hc, ↓reduceIte]; exact good_fail s _
      · simp only [hc, ↓reduceIte]
        have hev : EvGood (exec fuel) (spec fuel) inner := fun x hx ro' s' => ih ro' x.1 x.2 s' (hinner x hx)
        have hb' : Good s
            (if h.unfunded s.native then (.revert, s, fwdGas h gas + h.stip)
             else runPre (exec fuel) ro (h.kind != .call) (fwdGas h gas + h.stip) req sh out inner act (s.enter h))
            (if h.unfunded s.native then (.revert, s.toView, fwdGas h gas + h.stip)
             else specPre (spec fuel) ro (h.kind != .call) (fwdGas h gas + h.stip) req sh out inner act (s.toView.enter h)) := by
          by_cases hu : h.unfunded s.native = true
          · simp only [hu, ↓reduceIte]; exact ⟨rfl, rfl, fun _ => Ext.refl s, by simp⟩
          · simp only [hu]
            have hb := runPre_good (exec fuel) (spec fuel) ro (h.kind != .call) (fwdGas h gas + h.stip) req sh out inner act
              (s.enter h) hsh hev
            rw [enter_view] at hb
            exact good_of_ext (ext_enter s h) hb
        rcases resolve_good h s (keepGas h gas) _ _ hb' with ⟨x, y, hx, hy, hext, hv, hgs⟩ | ⟨a, b, ha, hb2, hgood⟩
        · rw [hx, hy]
          simp only
          have := ih ro x.2 rest x.1 hrest
          rw [hv] at this
          rw [← hgs]
          exact good_of_ext hext this
        · rw [ha, hb2]
          exact hgood

/-- the transaction wrapper: anything but a normal end hands back the initial view -/
theorem tx_wrap_fail (r : Outcome × View N × Nat) (v : View N) :
    (if r.1 = .ok then (Outcome.ok, r.2.1, r.2.2) else (r.1, v, if r.1 = .revert then r.2.2 else 0)).1 ≠ .ok →
    (if r.1 = .ok then (Outcome.ok, r.2.1, r.2.2) else (r.1, v, if r.1 = .revert then r.2.2 else 0)).2.1 = v := by
  by_cases hok : r.1 = .ok <;> simp [hok]

/-! ## without panics there is no abort -/

theorem runInner_ne_panic (ev : Eval N) (ro : Bool) :
    ∀ (inner : List (Nat × List (Prog N))) (s : St N),
      (∀ x ∈ inner, ∀ ro' (s' : St N), (ev ro' x.1 x.2 s').1 ≠ .abort) → (runInner ev ro inner s).1 ≠ .panic := by
  intro inner
  induction inner with
  | nil => intro s _; simp [runInner]
  | cons x rest ih =>
    intro s hev
    obtain ⟨g, body⟩ := x
    have hx := hev (g, body) (List.mem_cons_self ..) ro s
    simp only at hx
    simp only [runInner]
    by_cases hok : (ev ro g body s).1 = .ok
    · simp only [hok, ↓reduceIte]
      exact ih _ (fun y hy => hev y (List.mem_cons_of_mem _ hy))
    · simp [hok, hx]

theorem runPre_ne_abort (ev : Eval N) (roCtx roCall : Bool) (gas req : Nat) (sh : RunShape) (out : N → N)
    (inner : List (Nat × List (Prog N))) (act : ActionX N) (s : St N)
    (hact : ∀ ro g n, (act ro g n).1 ≠ .panic)
    (hev : ∀ x ∈ inner, ∀ ro' (s' : St N), (ev ro' x.1 x.2 s').1 ≠ .abort) :
    (runPre ev roCtx roCall gas req sh out inner act s).1 ≠ .abort := by
  unfold runPre
  by_cases hg : gas < req
  · simp [hg]
  · simp only [hg, ↓reduceIte]
    have hcl : ∀ s0, (runClosure ev roCtx roCall (gas - req) sh inner act s0).1 ≠ .panic := by
      intro s0
      unfold runClosure
      cases sh.evmAfterWrite with
      | true =>
        simp only [↓reduceIte]
        generalize hk : s0.keeper roCall (gas - req) act = k
        obtain ⟨rk, sk⟩ := k
        have : rk = (act roCall (gas - req) s0.native).1 := by
          have := congrArg Prod.fst hk; simpa [St.keeper] using this.symm
        cases rk with
        | ok => exact runInner_ne_panic ev roCtx inner sk hev
        | err => simp
        | panic => exact absurd this.symm (hact _ _ _)
      | false =>
        simp only [Bool.false_eq_true, ↓reduceIte]
        generalize hi : runInner ev roCtx inner s0 = i
        obtain ⟨ri, si⟩ := i
        have hri : ri ≠ .panic := by
          have := runInner_ne_panic ev roCtx inner s0 hev; rw [hi] at this; exact this
        cases ri with
        | ok => simp only [St.keeper]; exact hact _ _ _
        | err => simp
        | panic => exact absurd rfl hri
    generalize hc : runClosure ev roCtx roCall (gas - req) sh inner act (if sh.outerBefore = true then s.poke out else s) = c
    obtain ⟨rc, sc⟩ := c
    have := hcl (if sh.outerBefore = true then s.poke out else s)
    rw [hc] at this
    cases rc with
    | ok => simp
    | err => cases sh.dropsActionError <;> simp
    | panic => exact absurd rfl this

theorem resolve_ne_abort (h : CallHdr N) (snap keep : Nat) (r : Outcome × St N × Nat) (hr : r.1 ≠ .abort) :
    ∀ a, resolve h snap keep r = .inr a → a.1 ≠ .abort := by
  intro a
  unfold resolve
  simp only [hr, ↓reduceIte]
  by_cases hok : r.1 = .ok
  · simp only [hok, ↓reduceIte]
    by_cases hp : keep + r.2.2 < h.pOk <;> simp only [hp, ↓reduceIte] <;> intro ha
    · cases ha; simp
    · cases ha
  · simp only [hok, ↓reduceIte]
    by_cases hp : keep + (if r.1 = .revert then r.2.2 else 0) < h.pFail
    · simp only [hp, ↓reduceIte]; intro ha; cases ha; simp
    · simp only [hp, ↓reduceIte]
      by_cases hs : h.swallow = true <;> simp only [hs, ↓reduceIte, Bool.false_eq_true] <;> intro ha
      · cases ha
      · cases ha; simp

/-- a program none of whose keeper parts panics never aborts -/
theorem exec_ne_abort : ∀ (fuel : Nat) (ro : Bool) (gas : Nat) (p : List (Prog N)) (s : St N), NoPanic p →
    (exec fuel ro gas p s).1 ≠ .abort := by
  intro fuel
  induction fuel with
  | zero => intro ro gas p s _; simp [exec]
  | succ fuel ih =>
    intro ro gas p s hnp
    cases hnp with
    | nil => simp [exec]
    | @sstore c k v rest hrest =>
      simp only [exec]
      by_cases hc : gas < c ∨ ro = true
      · simp [hc]
      · simp only [hc, ↓reduceIte]; exact ih _ _ _ _ hrest
    | @revert c rest => simp only [exec]; by_cases hc : gas < c <;> simp [hc]
    | @stop c rest => simp only [exec]; by_cases hc : gas < c <;> simp [hc]
    | @invalid rest => simp [exec]
    | @call h body rest hbody hrest =>
      simp only [exec]
      by_cases hc : gas < h.callc ∨ (ro = true ∧ h.xfer.isSome = true)
      · simp [hc]
      · simp only [hc, ↓reduceIte]
        have hb : (if h.unfunded s.native then ((.revert, s, fwdGas h gas + h.stip) : Outcome × St N × Nat)
            else exec fuel (ro || h.kind == .staticcall) (fwdGas h gas + h.stip) body (s.enter h)).1 ≠ .abort := by
          by_cases hu : h.unfunded s.native = true
          · simp [hu]
          · simp only [hu]
            exact ih (ro || h.kind == .staticcall) (fwdGas h gas + h.stip) body (s.enter h) hbody
        have hres := resolve_ne_abort h s.journal.length (keepGas h gas) _ hb
        cases hr : resolve h s.journal.length (keepGas h gas)
            (if h.unfunded s.native then (.revert, s, fwdGas h gas + h.stip)
             else exec fuel (ro || h.kind == .staticcall) (fwdGas h gas + h.stip) body (s.enter h)) with
        | inl x => exact ih _ _ _ _ hrest
        | inr a => exact hres a hr
    | @pre h req sh out inner act rest hact hinner hrest =>
      simp only [exec]
      by_cases hc : gas < h.callc ∨ (ro = true ∧ h.xfer.isSome = true)
      · simp [hc]
      · simp only [hc, ↓reduceIte]
        have hb : (if h.unfunded s.native then ((.revert, s, fwdGas h gas + h.stip) : Outcome × St N × Nat)
            else runPre (exec fuel) ro (h.kind != .call) (fwdGas h gas + h.stip) req sh out inner act (s.enter h)).1 ≠ .abort := by
          by_cases hu : h.unfunded s.native = true
          · simp [hu]
          · simp only [hu]
            exact runPre_ne_abort (exec fuel) ro (h.kind != .call) (fwdGas h gas + h.stip) req sh out inner act (s.enter h)
              hact (fun x hx ro' s' => ih ro' x.1 x.2 s' (hinner x hx))
        have hres := resolve_ne_abort h s.journal.length (keepGas h gas) _ hb
        cases hr : resolve h s.journal.length (keepGas h gas)
            (if h.unfunded s.native then (.revert, s, fwdGas h gas + h.stip)
             else runPre (exec fuel) ro (h.kind != .call) (fwdGas h gas + h.stip) req sh out inner act (s.enter h)) with
        | inl x => exact ih _ _ _ _ hrest
        | inr a => exact hres a hr

end FxVerif.Proofs.C09
