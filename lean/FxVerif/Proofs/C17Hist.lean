import FxVerif.Model.C17Hist
/-! helper lemmas for reads at another height and for the interpreted read-path programs (core Lean only) -/
namespace FxVerif.Proofs.C17
open FxVerif.Model.C17 List

/-- an archive node's observations are those of the reference run when there is an invariant relating memory and the LATEST
state that construction establishes for every state, delivered transactions keep with the new state, and executions whose
effect is discarded — on the latest state (`hserve`) or on ANY other state (`hforeign`) — keep with the latest state; the
hypotheses are only needed for events satisfying `P` -/
theorem runV_eq_pure_on {M S I O : Type} (h : Handler M S I O) (m₀ : M) (Inv : M → S → Prop) (P : VEv I → Prop)
    (hinit : ∀ s, Inv m₀ s)
    (hdel : ∀ m s i, P (.deliver i) → Inv m s → Inv (h m s i).1 (h m s i).2.1)
    (hserve : ∀ m s i, P (.serve i) → Inv m s → Inv (h m s i).1 s)
    (hforeign : ∀ m s s' k i, P (.serveAt k i) → Inv m s → Inv (h m s' i).1 s)
    (hindep : ∀ m m' s i, Inv m s → Inv m' s → (h m s i).2 = (h m' s i).2) :
    ∀ (evs : List (VEv I)) (n : VNode M S), (∀ e ∈ evs, P e) → Inv n.mem n.st →
      (runV h m₀ n evs).1.st = (runPure h m₀ n.st (blocksOfV evs)).1 ∧
      (runV h m₀ n evs).2 = (runPure h m₀ n.st (blocksOfV evs)).2 := by
  intro evs
  induction evs with
  | nil => intro n _ _; exact ⟨rfl, rfl⟩
  | cons e es ih =>
    intro n hP hn
    have hPe : P e := hP e (mem_cons_self ..)
    have hPs : ∀ e' ∈ es, P e' := fun e' he' => hP e' (mem_cons_of_mem _ he')
    cases e with
    | deliver i =>
      have hi := hindep n.mem m₀ n.st i hn (hinit _)
      have := ih ⟨(h n.mem n.st i).1, (h n.mem n.st i).2.1, n.st :: n.old⟩ hPs (hdel _ _ _ hPe hn)
      simp only [runV, stepV, blocksOfV, runPure]
      simp only [← hi]
      exact ⟨this.1, by rw [this.2]⟩
    | serve i =>
      have := ih ⟨(h n.mem n.st i).1, n.st, n.old⟩ hPs (hserve _ _ _ hPe hn)
      simp only [runV, stepV, blocksOfV]
      exact this
    | serveAt k i =>
      simp only [runV, stepV, blocksOfV]
      cases hk : n.old[k]? with
      | none => exact ih n hPs hn
      | some s' => exact ih ⟨(h n.mem s' i).1, n.st, n.old⟩ hPs (hforeign _ _ _ k _ hPe hn)
    | restart =>
      have := ih ⟨m₀, n.st, n.old⟩ hPs (hinit _)
      simp only [runV, stepV, blocksOfV]
      exact this
    | sync =>
      have := ih ⟨m₀, n.st, []⟩ hPs (hinit _)
      simp only [runV, stepV, blocksOfV]
      exact this

/-- one step of a program without memory steps: the memory register is untouched and the other registers evolve the same way
whatever the memory register holds -/
theorem gstep_memFree (store : ParStore) (g g' : GSt) (s : RStep) (h1 : s ≠ .memRead) (h2 : s ≠ .memWrite)
    (hraw : g.raw = g'.raw) (hval : g.val = g'.val) (hout : g.out = g'.out) :
    (gstep store g s).mem = g.mem ∧ (gstep store g s).raw = (gstep store g' s).raw ∧
    (gstep store g s).val = (gstep store g' s).val ∧ (gstep store g s).out = (gstep store g' s).out := by
  obtain ⟨m, r, v, o⟩ := g
  obtain ⟨m', r', v', o'⟩ := g'
  simp only at hraw hval hout
  subst hraw hval hout
  cases o with
  | some x => simp [gstep]
  | none =>
    cases s with
    | memRead => exact absurd rfl h1
    | memWrite => exact absurd rfl h2
    | retIfNil => cases r <;> simp [gstep]
    | store => simp [gstep]
    | decode => simp [gstep]
    | ret => simp [gstep]
    | other => simp [gstep]

theorem fold_memFree (store : ParStore) : ∀ (prog : List RStep) (g g' : GSt), memFree prog = true →
    g.raw = g'.raw → g.val = g'.val → g.out = g'.out →
    (prog.foldl (gstep store) g).mem = g.mem ∧ (prog.foldl (gstep store) g).val = (prog.foldl (gstep store) g').val ∧
    (prog.foldl (gstep store) g).out = (prog.foldl (gstep store) g').out := by
  intro prog
  induction prog with
  | nil => intro g g' _ _ hval hout; exact ⟨rfl, hval, hout⟩
  | cons s ss ih =>
    intro g g' hm hraw hval hout
    simp only [memFree, all_cons, Bool.and_eq_true, bne_iff_ne, ne_eq] at hm
    have st := gstep_memFree store g g' s hm.1.1 hm.1.2 hraw hval hout
    have := ih (gstep store g s) (gstep store g' s) (by simpa [memFree] using hm.2) st.2.1 st.2.2.1 st.2.2.2
    simp only [foldl_cons]
    exact ⟨this.1.trans st.1, this.2.1, this.2.2⟩

/-- a program without memory steps leaves the memory as it is and returns what it returns on an empty memory -/
theorem runGetter_memFree (prog : List RStep) (hm : memFree prog = true) (mem : Option Params) (store : ParStore) :
    runGetter prog mem store = (mem, (runGetter prog none store).2) := by
  have := fold_memFree store prog ⟨mem, none, [], none⟩ ⟨none, none, [], none⟩ hm rfl rfl rfl
  unfold runGetter
  simp only [this.1, this.2.1, this.2.2]

end FxVerif.Proofs.C17
