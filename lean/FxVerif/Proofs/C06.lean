import FxVerif.Proofs.C05
/-! Helper lemmas for C06: what the two clean-ups read. -/
namespace FxVerif.Proofs.C06
open FxVerif.Gen.C05 FxVerif.Model.C05 FxVerif.Proofs.C05 List

theorem foldl_refundCall_bal (cs : List Call) (s : State) :
    (cs.foldl refundCall s).bal
      = cs.foldl (fun b c => if callCleanupRefunds then creditAll c.refund c.tokens b else b) s.bal := by
  induction cs generalizing s with
  | nil => rfl
  | cons c cs ih => simp only [foldl_cons]; rw [ih]; rfl

/-- the part of the state the two clean-ups can read or write -/
structure Slice where
  pool : List Tx
  batches : List Batch
  calls : List Call
  bal : Bal
  settled : List Settle

def slice (s : State) : Slice := ⟨s.pool, s.batches, s.calls, s.bal, s.settled⟩

/-- both clean-ups as a function of the slice and one height -/
def cleanupAt (h : Nat) (x : Slice) : Slice :=
  { pool := insertAll ((x.batches.filter (batchExpired h)).flatMap (·.txs)) x.pool,
    batches := x.batches.filter (fun b => !batchExpired h b),
    calls := if callCleanupDeletes then keptCalls h x.calls else x.calls,
    bal := (expiredCalls h x.calls).foldl (fun b c => if callCleanupRefunds then creditAll c.refund c.tokens b else b) x.bal,
    settled := x.settled ++ (expiredCalls h x.calls).map (fun c => (⟨true, c.nonce, .refunded, c.refund, c.tokens⟩ : Settle)) }

theorem cleanup_eq (s : State) (hb : batchCleanupSrc = .observedExternal) (hc : callCleanupSrc = .observedExternal) :
    slice (cleanupCalls (cleanupBatches s)) = cleanupAt s.obsExt (slice s) := by
  have e1 : heightOf batchCleanupSrc s = s.obsExt := by rw [hb]; rfl
  have e2 : heightOf callCleanupSrc (cleanupBatches s) = s.obsExt := by rw [hc]; rfl
  have hs := cleanupCalls_settled (cleanupBatches s)
  obtain ⟨fm, er, hfm⟩ := cleanupCalls_core (cleanupBatches s)
  have hbal : (cleanupCallsCore (cleanupBatches s)).bal = _ := foldl_refundCall_bal
    (expiredCalls (heightOf callCleanupSrc (cleanupBatches s)) (cleanupBatches s).calls)
    { cleanupBatches s with calls := if callCleanupDeletes then keptCalls (heightOf callCleanupSrc (cleanupBatches s)) (cleanupBatches s).calls else (cleanupBatches s).calls }
  obtain ⟨h1, h2, h3, _, _, _, _⟩ := foldl_refundCall
    (expiredCalls (heightOf callCleanupSrc (cleanupBatches s)) (cleanupBatches s).calls)
    { cleanupBatches s with calls := if callCleanupDeletes then keptCalls (heightOf callCleanupSrc (cleanupBatches s)) (cleanupBatches s).calls else (cleanupBatches s).calls }
  have p : (cleanupCallsCore (cleanupBatches s)).pool = _ := h1
  have b : (cleanupCallsCore (cleanupBatches s)).batches = _ := h2
  have c : (cleanupCallsCore (cleanupBatches s)).calls = _ := h3
  have hbal := (show (cleanupCalls (cleanupBatches s)).bal = (cleanupCallsCore (cleanupBatches s)).bal by rw [hfm]).trans hbal
  have p := (show (cleanupCalls (cleanupBatches s)).pool = (cleanupCallsCore (cleanupBatches s)).pool by rw [hfm]).trans p
  have b := (show (cleanupCalls (cleanupBatches s)).batches = (cleanupCallsCore (cleanupBatches s)).batches by rw [hfm]).trans b
  have c := (show (cleanupCalls (cleanupBatches s)).calls = (cleanupCallsCore (cleanupBatches s)).calls by rw [hfm]).trans c
  simp only [slice, cleanupAt, p, b, c, hs, hbal, e2]
  simp [cleanupBatches, cancelBatches, e1]

end FxVerif.Proofs.C06

namespace FxVerif.Proofs.C06
open List FxVerif.Model.C05

theorem mem_takeWhile_true {α : Type} (p : α → Bool) : ∀ (l : List α) (a : α), a ∈ l.takeWhile p → p a = true
  | [], _, h => by cases h
  | x :: xs, a, h => by
    rw [takeWhile_cons] at h
    split at h
    · rename_i hx
      simp only [mem_cons] at h
      rcases h with rfl | h
      · exact hx
      · exact mem_takeWhile_true p xs a h
    · cases h

theorem foldl_refundCall_eventNonce (l : List Call) (s : State) : (l.foldl refundCall s).eventNonce = s.eventNonce := by
  induction l generalizing s with
  | nil => rfl
  | cons c cs ih => simp only [List.foldl_cons]; rw [ih]; rfl

theorem foldl_refundCall_obsSuccess (l : List Call) (s : State) : (l.foldl refundCall s).obsSuccess = s.obsSuccess := by
  induction l generalizing s with
  | nil => rfl
  | cons c cs ih => simp only [foldl_cons]; rw [ih]; rfl

theorem not_lt_decide (a b : Nat) : (!decide (a < b)) = decide (b ≤ a) := by
  by_cases h : a < b
  · have : ¬ b ≤ a := by omega
    simp [h, this]
  · have : b ≤ a := by omega
    simp [h, this]

end FxVerif.Proofs.C06
