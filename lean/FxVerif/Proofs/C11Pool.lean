import FxVerif.Proofs.C11Fresh
/-!
# C11 — the bank side: distribution accounting and the staking pools (core Lean only)

`Acct v`: what a validator's delegators can still claim plus what was paid plus the truncation remainders handed to the
community pool is exactly what was allocated (the per-validator form of the SDK distribution `ModuleAccountInvariant`),
and the rewards of the open period are part of the outstanding rewards.

`Step v v' c`: a VS-level operation that paid `c` reward coins keeps the validator's status, keeps `Acct`, adds exactly
`c` to `paid` and allocates nothing.
-/
namespace FxVerif.Proofs.C11
open FxVerif.Model.C11 FxVerif.Gen.C11

def Acct (v : VS) : Prop := v.cur ≤ v.outstanding ∧ v.outstanding + v.paid * ONE + v.dust = v.allocated

structure Step (v v' : VS) (c : Nat) : Prop where
  bonded : v'.bonded = v.bonded
  jailed : v'.jailed = v.jailed
  ubh : v'.ubHeight = v.ubHeight
  acct : Acct v → Acct v'
  paid : v'.paid = v.paid + c
  alloc : v'.allocated = v.allocated

theorem Step.refl (v : VS) : Step v v 0 := ⟨rfl, rfl, rfl, id, rfl, rfl⟩

theorem Step.trans {a b c : VS} {x y : Nat} (h1 : Step a b x) (h2 : Step b c y) : Step a c (x + y) :=
  ⟨h2.bonded.trans h1.bonded, h2.jailed.trans h1.jailed, h2.ubh.trans h1.ubh, fun h => h2.acct (h1.acct h),
   by rw [h2.paid, h1.paid, Nat.add_assoc], h2.alloc.trans h1.alloc⟩

theorem Step.trans0 {a b c : VS} {x : Nat} (h1 : Step a b x) (h2 : Step b c 0) : Step a c x :=
  ⟨h2.bonded.trans h1.bonded, h2.jailed.trans h1.jailed, h2.ubh.trans h1.ubh, fun h => h2.acct (h1.acct h),
   by rw [h2.paid, h1.paid, Nat.add_zero], h2.alloc.trans h1.alloc⟩

theorem Step.trans0' {a b c : VS} {x : Nat} (h1 : Step a b 0) (h2 : Step b c x) : Step a c x :=
  ⟨h2.bonded.trans h1.bonded, h2.jailed.trans h1.jailed, h2.ubh.trans h1.ubh, fun h => h2.acct (h1.acct h),
   by rw [h2.paid, h1.paid, Nat.add_zero], h2.alloc.trans h1.alloc⟩

/-- an update that touches none of the money / status fields -/
theorem Step.of_eq {v v' : VS} (h1 : v'.bonded = v.bonded) (h2 : v'.jailed = v.jailed) (h3 : v'.ubHeight = v.ubHeight)
    (h4 : v'.cur = v.cur) (h5 : v'.outstanding = v.outstanding) (h6 : v'.paid = v.paid) (h7 : v'.dust = v.dust)
    (h8 : v'.allocated = v.allocated) : Step v v' 0 :=
  ⟨h1, h2, h3, fun h => by unfold Acct at h ⊢; rw [h4, h5, h6, h7, h8]; exact h, h6, h8⟩

theorem decRef_Step {v v' : VS} {p : Nat} (h : v.decRef p = .ok v') : Step v v' 0 := by
  obtain ⟨_, rfl⟩ := decRef_ok h; exact Step.of_eq rfl rfl rfl rfl rfl rfl rfl rfl

theorem incRef_Step {v v' : VS} {p : Nat} (h : v.incRef p = .ok v') : Step v v' 0 := by
  obtain ⟨_, rfl⟩ := incRef_ok h; exact Step.of_eq rfl rfl rfl rfl rfl rfl rfl rfl

theorem incPeriod_Step {v v' : VS} {t e : Nat} (h : v.incPeriod t = .ok (v', e)) : Step v v' 0 ∧ v'.cur = 0 := by
  obtain ⟨_, _, rfl⟩ := incPeriod_ok h
  refine ⟨?_, rfl⟩
  unfold prePeriod
  by_cases ht : t = 0
  · rw [if_pos ht]
    refine ⟨rfl, rfl, rfl, ?_, rfl, rfl⟩
    intro ha
    unfold Acct at ha ⊢
    dsimp only
    obtain ⟨a1, a2⟩ := ha
    generalize v.paid * ONE = pp at a2 ⊢
    omega
  · rw [if_neg ht]
    refine ⟨rfl, rfl, rfl, ?_, rfl, rfl⟩
    intro ha
    unfold Acct at ha ⊢
    dsimp only
    exact ⟨Nat.zero_le _, ha.2⟩

theorem payout_Step {v1 : VS} (raw : Nat) (hc : v1.cur = 0) : Step v1 (payout v1 raw) (min raw v1.outstanding / ONE) := by
  refine ⟨rfl, rfl, rfl, ?_, rfl, rfl⟩
  intro ha
  unfold Acct at ha ⊢
  unfold payout
  dsimp only
  obtain ⟨_, a2⟩ := ha
  refine ⟨by rw [hc]; exact Nat.zero_le _, ?_⟩
  have hr : min raw v1.outstanding ≤ v1.outstanding := Nat.min_le_right _ _
  generalize min raw v1.outstanding = r at hr ⊢
  generalize ONE = one at a2 ⊢
  have hdm := Nat.div_add_mod r one
  rw [Nat.mul_comm] at hdm
  rw [Nat.add_mul]
  generalize r / one * one = q at hdm ⊢
  generalize r % one = m at hdm ⊢
  generalize v1.paid * one = pp at a2 ⊢
  omega

theorem withdrawRewards_Step {v v' : VS} {h d c : Nat} (hw : v.withdrawRewards h d = .ok (v', c)) : Step v v' c := by
  obtain ⟨sh, si, v1, raw, v3, _, _, h1, _, h3, rfl, rfl⟩ := withdrawRewards_ok hw
  obtain ⟨s1, c1⟩ := incPeriod_Step h1
  have s2 := payout_Step raw c1
  have s3 := decRef_Step h3
  have s4 : Step v3 { v3 with sinfo := setAt v3.sinfo d none } 0 := Step.of_eq rfl rfl rfl rfl rfl rfl rfl rfl
  exact ((s1.trans0' s2).trans0 s3).trans0 s4

theorem initDelegation_Step {v v' : VS} {h d : Nat} (hi : v.initDelegation h d = .ok v') : Step v v' 0 := by
  obtain ⟨v1, sh, h1, _, rfl⟩ := initDelegation_ok hi
  have a := incRef_Step h1
  have b : Step v1 { v1 with sinfo := setAt v1.sinfo d (some ⟨v.period - 1, v.tokensFromSharesTrunc sh, h⟩) } 0 :=
    Step.of_eq rfl rfl rfl rfl rfl rfl rfl rfl
  exact a.trans0 b

theorem withdrawMsg_Step {v v' : VS} {h d c : Nat} (hw : v.withdrawMsg h d = .ok (v', c)) : Step v v' c := by
  obtain ⟨v1, h1, h2⟩ := withdrawMsg_ok hw
  exact (withdrawRewards_Step h1).trans0 (initDelegation_Step h2)

theorem delegatePre_Step {v v1 : VS} {h d c : Nat} (hp : v.delegatePre h d = .ok (v1, c)) : Step v v1 c := by
  unfold VS.delegatePre at hp
  split at hp
  · exact withdrawRewards_Step hp
  · split at hp
    · cases hp
    · rename_i v2 e h2
      cases hp
      exact (incPeriod_Step h2).1

theorem issue_Step (v : VS) (d amt : Nat) : Step v (v.issue d amt) 0 := by
  unfold VS.issue
  exact Step.of_eq rfl rfl rfl rfl rfl rfl rfl rfl

theorem delegate_Step {v v' : VS} {h d amt c : Nat} (hx : v.delegate h d amt = .ok (v', c)) : Step v v' c := by
  unfold VS.delegate at hx
  split at hx
  · cases hx
  · obtain ⟨r, h1, hx⟩ := bind_ok hx
    obtain ⟨v3, h3, hx⟩ := bind_ok hx
    cases hx
    obtain ⟨v1, c1⟩ := r
    exact ((delegatePre_Step h1).trans0 (issue_Step v1 d amt)).trans0 (initDelegation_Step h3)

theorem setShares_Step (v : VS) (d rest : Nat) : Step v (v.setShares d rest) 0 := by
  unfold VS.setShares
  exact Step.of_eq rfl rfl rfl rfl rfl rfl rfl rfl

theorem unbondPost_Step {v v' : VS} {h d rest : Nat} (hx : v.unbondPost h d rest = .ok v') : Step v v' 0 := by
  unfold VS.unbondPost at hx
  split at hx
  · cases hx; exact setShares_Step _ _ _
  · exact (setShares_Step v d rest).trans0 (initDelegation_Step hx)

theorem removeTokens_ok {v v' : VS} {sh ret : Nat} (hx : v.removeTokens sh = .ok (v', ret)) :
    Step v v' 0 ∧ ret ≤ v.tokens ∧ v'.tokens = v.tokens - ret := by
  unfold VS.removeTokens at hx
  dsimp only at hx
  generalize (if v.shares - sh = 0 then v.tokens else v.tokensFromShares sh / ONE) = issued at hx
  split at hx
  · cases hx
  · rename_i hle
    cases hx
    exact ⟨Step.of_eq rfl rfl rfl rfl rfl rfl rfl rfl, by omega, rfl⟩

/-- staking `Unbond`: pays `c` reward coins, returns `ret ≤ tokens` tokens and takes exactly those off the validator -/
theorem unbond_Step {v v' : VS} {h d sh ret c : Nat} (hx : v.unbond h d sh = .ok (v', ret, c)) :
    Step v v' c ∧ ret ≤ v.tokens ∧ v'.tokens = v.tokens - ret := by
  unfold VS.unbond at hx
  split at hx
  · cases hx
  · obtain ⟨r, h1, hx⟩ := bind_ok hx
    split at hx
    · cases hx
    · obtain ⟨v2, h2, hx⟩ := bind_ok hx
      obtain ⟨q, h3, hx⟩ := bind_ok hx
      cases hx
      obtain ⟨v1, c1⟩ := r
      obtain ⟨v3, ret'⟩ := q
      obtain ⟨s3, hle, htok⟩ := removeTokens_ok h3
      have s1 := withdrawRewards_Step h1
      have s2 := unbondPost_Step h2
      have t1 := (withdrawRewards_SF h1).2.1
      have t2 : v2.tokens = v1.tokens := by
        unfold VS.unbondPost at h2
        split at h2
        · cases h2; rfl
        · exact (initDelegation_SF h2).2.1
      have st := (s1.trans0 s2).trans0 s3
      dsimp only at hle htok ⊢
      refine ⟨st, ?_, ?_⟩
      · rw [t2, t1] at hle; exact hle
      · rw [htok, t2, t1]

theorem delegate_tokens {v v' : VS} {h d amt c : Nat} (hx : v.delegate h d amt = .ok (v', c)) : v'.tokens = v.tokens + amt := by
  unfold VS.delegate at hx
  split at hx
  · cases hx
  · obtain ⟨r, h1, hx⟩ := bind_ok hx
    obtain ⟨v3, h3, hx⟩ := bind_ok hx
    cases hx
    obtain ⟨v1, c1⟩ := r
    have a := (delegatePre_SF h1).2.1
    have b := (initDelegation_SF h3).2.1
    rw [b]
    show v1.tokens + amt = v.tokens + amt
    rw [a]

theorem alloc_Acct {v : VS} (amt : Nat) (ha : Acct v) : Acct (v.alloc amt) := by
  unfold Acct at ha ⊢
  unfold VS.alloc
  generalize amt * ONE = t
  dsimp only
  generalize dMul t v.rate = com
  obtain ⟨a1, a2⟩ := ha
  generalize v.paid * ONE = pp at a2 ⊢
  omega

theorem alloc_status (v : VS) (amt : Nat) :
    (v.alloc amt).bonded = v.bonded ∧ (v.alloc amt).tokens = v.tokens ∧ (v.alloc amt).paid = v.paid ∧
    (v.alloc amt).allocated = v.allocated + amt * ONE := by
  unfold VS.alloc
  generalize amt * ONE = t
  dsimp only
  generalize dMul t v.rate = com
  exact ⟨rfl, rfl, rfl, rfl⟩

theorem slashHook_Step (v : VS) (h eff : Nat) : Step v (v.slashHook h eff) 0 := by
  unfold VS.slashHook
  split
  · exact Step.refl v
  · rename_i v1 np h1
    have s1 := (incPeriod_Step h1).1
    split
    · rename_i v2 h2
      have s2 := incRef_Step h2
      have s3 : Step v2 { v2 with slashes := v2.slashes ++ [⟨h, np, eff⟩] } 0 := Step.of_eq rfl rfl rfl rfl rfl rfl rfl rfl
      exact (s1.trans0 s2).trans0 s3
    · have s3 : Step v1 { v1 with slashes := v1.slashes ++ [⟨h, np, eff⟩] } 0 := Step.of_eq rfl rfl rfl rfl rfl rfl rfl rfl
      exact s1.trans0 s3

/-- staking `Slash`: status and accounting untouched, the validator loses `tokens − tokens'` ≤ `tokens` -/
theorem slash_Step (v : VS) (h p f : Nat) : Step v (v.slash h p f) 0 ∧ (v.slash h p f).tokens ≤ v.tokens := by
  unfold VS.slash
  dsimp only
  split
  · exact ⟨Step.refl v, Nat.le_refl _⟩
  · have s1 := slashHook_Step v h (min ONE (dQuoRoundUp (min (dMul (p * POWER_REDUCTION * ONE) f / ONE) v.tokens * ONE) (v.tokens * ONE)))
    have t1 := (slashHook_SF v h (min ONE (dQuoRoundUp (min (dMul (p * POWER_REDUCTION * ONE) f / ONE) v.tokens * ONE) (v.tokens * ONE)))).2.1
    refine ⟨s1.trans0 (Step.of_eq rfl rfl rfl rfl rfl rfl rfl rfl), ?_⟩
    show (v.slashHook h _).tokens - _ ≤ v.tokens
    rw [t1]
    exact Nat.sub_le _ _

/-! ### the transfer -/

theorem xferLookup_Step {c : Cfg} {v v1 v2 : VS} {h t rt : Nat} (hl : VS.xferLookup c v v1 h t = .ok (v2, rt)) : Step v1 v2 rt := by
  unfold VS.xferLookup at hl
  split at hl
  · split at hl
    · split at hl
      · cases hl
      · rename_i v2' e h1
        cases hl
        exact (incPeriod_Step h1).1
    · cases hl; exact Step.refl _
  · split at hl
    · exact withdrawMsg_Step hl
    · cases hl; exact Step.refl _

theorem xferFrom_Step {c : Cfg} {v v2 v3 : VS} {f fsh X : Nat} (hx : VS.xferFrom c v v2 f fsh X = .ok v3) : Step v2 v3 0 := by
  unfold VS.xferFrom at hx
  dsimp only at hx
  split at hx
  · cases hx
  · split at hx
    · split at hx
      · cases hx
      · rename_i b hb
        split at hb
        · obtain ⟨_, rfl⟩ := decRef_ok hb
          cases hx
          split <;> exact Step.of_eq rfl rfl rfl rfl rfl rfl rfl rfl
        · cases hb
          cases hx
          split <;> exact Step.of_eq rfl rfl rfl rfl rfl rfl rfl rfl
    · cases hx
      exact Step.of_eq rfl rfl rfl rfl rfl rfl rfl rfl

theorem xferTo_Step {c : Cfg} {v v3 v4 : VS} {h t X : Nat} {o : Option Nat}
    (hx : VS.xferTo c v v3 h t X o = .ok v4) : Step v3 v4 0 := by
  unfold VS.xferTo at hx
  dsimp only at hx
  split at hx
  · split at hx
    · cases hx
    · rename_i v5 h5
      split at h5
      · obtain ⟨_, rfl⟩ := incRef_ok h5
        cases hx
        exact Step.of_eq rfl rfl rfl rfl rfl rfl rfl rfl
      · cases h5
        cases hx
        exact Step.of_eq rfl rfl rfl rfl rfl rfl rfl rfl
  · cases hx
    exact Step.of_eq rfl rfl rfl rfl rfl rfl rfl rfl

/-- `handlerTransferShares`: the validator's status is untouched, the accounting identity is kept, and `paid` grows by
exactly the reward coins handed to the two parties -/
theorem transfer_Step {c : Cfg} (hg : good c = true) {v v' : VS} {h f t X rf rt : Nat} {recv : Bool}
    (ht : VS.transfer c v h f t X recv = .ok (v', rf, rt)) : Step v v' (rf + rt) := by
  by_cases hne : f = t
  · subst hne
    obtain ⟨rfl, rfl, rfl⟩ := transfer_self hg ht
    exact Step.refl _
  · obtain ⟨fsh, v1, v2, v3, _, _, _, h1, h2, h3, h4⟩ := transfer_ok hg hne ht
    exact (((withdrawMsg_Step h1).trans (xferLookup_Step h2)).trans0 (xferFrom_Step h3)).trans0 (xferTo_Step h4)

/-! ### the chain: pools, distribution module account, accounts -/

theorem ubdSum_append (l : List (Nat × Nat × Nat × Nat)) (e : Nat × Nat × Nat × Nat) : ubdTotal (l ++ [e]) = ubdTotal l + e.2.2.2 := by
  induction l with
  | nil => simp [ubdTotal]
  | cons a as ih => simp only [List.cons_append, ubdTotal, ih]; omega

/-- tokens of a validator that count towards the bonded / the not-bonded pool -/
def bTok (v : VS) : Nat := if v.bonded then v.tokens else 0
def nTok (v : VS) : Nat := if v.bonded then 0 else v.tokens

/-- the bank-side invariant: per-validator distribution accounting; the SDK staking `ModuleAccountInvariants` (bonded
pool = Σ tokens of bonded validators, not-bonded pool = Σ tokens of the other validators + Σ unbonding entries); the
distribution module account received what was allocated and paid what the validators' records say was paid, which is
what the accounts received -/
structure BInv (s : State) : Prop where
  acct : ∀ w, Acct (s.vs w)
  bonded : s.bondedPool = sumTo s.nVal (fun w => bTok (s.vs w))
  notBonded : s.notBondedPool = sumTo s.nVal (fun w => nTok (s.vs w)) + ubdTotal s.ubd
  allocated : sumTo s.nVal (fun w => (s.vs w).allocated) = s.distrIn * ONE
  paid : sumTo s.nVal (fun w => (s.vs w).paid) = s.distrOut
  gain : sumTo s.nAcc s.gain = s.distrOut

theorem sum_setAt (f : VS → Nat) (vs : Nat → VS) {n v : Nat} (hv : v < n) (x : VS) :
    sumTo n (fun w => f (setAt vs v x w)) + f (vs v) = sumTo n (fun w => f (vs w)) + f x := by
  have := sumTo_update (fun w => f (vs w)) (fun w => f (setAt vs v x w)) v hv (fun i hi => by simp [setAt, hi])
  simpa [setAt_same] using this

theorem sum_gain_add (g : Nat → Nat) {n d : Nat} (hd : d < n) (c : Nat) :
    sumTo n (setAt g d (g d + c)) = sumTo n g + c := by
  have := sumTo_update g (setAt g d (g d + c)) d hd (fun i hi => by simp [setAt, hi])
  rw [setAt_same] at this
  omega

/-- one validator record replaced: what the new record and the new bank fields must satisfy -/
theorem BInv_step1 {s s' : State} (hi : BInv s) {v : Nat} (hv : v < s.nVal) {x : VS} {c a up dn : Nat}
    (hn : s'.nVal = s.nVal) (hna : s'.nAcc = s.nAcc) (hvs : s'.vs = setAt s.vs v x)
    (hb : x.bonded = (s.vs v).bonded) (hacct : Acct x) (hpaid : x.paid = (s.vs v).paid + c)
    (hal : x.allocated = (s.vs v).allocated + a * ONE)
    (htok : x.tokens + dn = (s.vs v).tokens + up)
    (hbp : s'.bondedPool + (if (s.vs v).bonded then dn else 0) = s.bondedPool + (if (s.vs v).bonded then up else 0))
    (hnp : s'.notBondedPool + (if (s.vs v).bonded then 0 else dn) + ubdTotal s.ubd =
           s.notBondedPool + (if (s.vs v).bonded then 0 else up) + ubdTotal s'.ubd)
    (hin : s'.distrIn = s.distrIn + a) (hout : s'.distrOut = s.distrOut + c)
    (hgain : sumTo s.nAcc s'.gain = sumTo s.nAcc s.gain + c) : BInv s' := by
  have e1 := sum_setAt bTok s.vs hv x
  have e2 := sum_setAt nTok s.vs hv x
  have e3 := sum_setAt (fun v => v.allocated) s.vs hv x
  have e4 := sum_setAt (fun v => v.paid) s.vs hv x
  have i1 := hi.bonded
  have i2 := hi.notBonded
  have i3 := hi.allocated
  have i4 := hi.paid
  have i5 := hi.gain
  refine ⟨?_, ?_, ?_, ?_, ?_, ?_⟩
  · intro w
    rw [hvs]
    by_cases hw : w = v
    · subst hw; rw [setAt_same]; exact hacct
    · rw [setAt_ne _ _ hw]; exact hi.acct w
  · rw [hn, hvs]
    have bx : bTok x = if (s.vs v).bonded then x.tokens else 0 := by unfold bTok; rw [hb]
    have bo : bTok (s.vs v) = if (s.vs v).bonded then (s.vs v).tokens else 0 := rfl
    cases hbv : (s.vs v).bonded <;> simp only [hbv, if_true, if_false, Bool.false_eq_true] at bx bo hbp <;> omega
  · rw [hn, hvs]
    have bx : nTok x = if (s.vs v).bonded then 0 else x.tokens := by unfold nTok; rw [hb]
    have bo : nTok (s.vs v) = if (s.vs v).bonded then 0 else (s.vs v).tokens := rfl
    cases hbv : (s.vs v).bonded <;> simp only [hbv, if_true, if_false, Bool.false_eq_true] at bx bo hnp <;> omega
  · rw [hn, hvs, hin, Nat.add_mul]
    omega
  · rw [hn, hvs, hout]
    omega
  · rw [hna, hout, hgain]
    omega

theorem le_bondedPool {s : State} (hi : BInv s) {v : Nat} (hv : v < s.nVal) (hb : (s.vs v).bonded = true) :
    (s.vs v).tokens ≤ s.bondedPool := by
  have := sumTo_ge_term (fun w => bTok (s.vs w)) hv
  rw [← hi.bonded] at this
  simpa [bTok, hb] using this

theorem le_notBondedPool {s : State} (hi : BInv s) {v : Nat} (hv : v < s.nVal) (hb : (s.vs v).bonded = false) :
    (s.vs v).tokens ≤ s.notBondedPool := by
  have h1 : nTok (s.vs v) ≤ sumTo s.nVal (fun w => nTok (s.vs w)) := sumTo_ge_term (fun w => nTok (s.vs w)) hv
  have e := hi.notBonded
  have h2 : nTok (s.vs v) = (s.vs v).tokens := by simp [nTok, hb]
  rw [h2] at h1
  rw [e]
  exact Nat.le_trans h1 (Nat.le_add_right _ _)

theorem transferOp_BInv {c : Cfg} (hg : good c = true) {s s' : State} {f t v x : Nat}
    (hi : BInv s) (h : s.transferOp c f t v x = .ok s') : BInv s' := by
  unfold State.transferOp at h
  split at h
  · cases h
  · rename_i hok
    have hok' : s.okAcc f = true ∧ s.okAcc t = true ∧ s.okVal v = true := by
      revert hok
      cases s.okAcc f <;> cases s.okAcc t <;> cases s.okVal v <;> decide
    split at h
    · cases h
    · split at h
      · cases h
      · rename_i v' rf rt ht
        cases h
        have hf := lt_of_okAcc' hok'.1
        have htn := lt_of_okAcc' hok'.2.1
        have hv := lt_of_okVal hok'.2.2
        have st := transfer_Step hg ht
        have tk : v'.tokens = (s.vs v).tokens := by
          by_cases hne : f = t
          · subst hne; rw [(transfer_self hg ht).1]
          · obtain ⟨_, _, _, _, ht', _⟩ := transfer_del hg hne ht
            exact ht'
        refine BInv_step1 hi hv (x := v') (c := rf + rt) (a := 0) (up := 0) (dn := 0) rfl rfl rfl st.bonded
          (st.acct (hi.acct v)) st.paid (by rw [st.alloc, Nat.zero_mul, Nat.add_zero]) (by rw [tk]) ?_ ?_ rfl ?_ ?_
        · simp [State.addGain, State.setVS]
        · simp [State.addGain, State.setVS]
        · simp only [State.addGain, State.setVS]; omega
        · show sumTo s.nAcc (setAt (setAt s.gain f (s.gain f + rf)) t (setAt s.gain f (s.gain f + rf) t + rt)) = _
          rw [sum_gain_add _ htn, sum_gain_add _ hf]
          omega

theorem sumTo_le {n : Nat} {f g : Nat → Nat} (h : ∀ i, i < n → f i ≤ g i) : sumTo n f ≤ sumTo n g := by
  induction n with
  | zero => exact Nat.le_refl _
  | succ n ih =>
    simp only [sumTo]
    have := ih (fun i hi => h i (Nat.lt_succ_of_lt hi))
    have := h n (Nat.lt_succ_self n)
    omega

/-- the validator-set update changes nothing but the status -/
theorem endBlock_fields (v : VS) (h : Nat) :
    (v.endBlock h).tokens = v.tokens ∧ (v.endBlock h).cur = v.cur ∧ (v.endBlock h).outstanding = v.outstanding ∧
    (v.endBlock h).paid = v.paid ∧ (v.endBlock h).dust = v.dust ∧ (v.endBlock h).allocated = v.allocated := by
  unfold VS.endBlock
  dsimp only
  split
  · exact ⟨rfl, rfl, rfl, rfl, rfl, rfl⟩
  · split <;> exact ⟨rfl, rfl, rfl, rfl, rfl, rfl⟩

theorem block_BInv {s : State} (hi : BInv s) :
    BInv { s with height := s.height + 1, vs := fun i => (s.vs i).endBlock s.height,
                  bondedPool := s.bondedPool - s.leaving + s.entering,
                  notBondedPool := s.notBondedPool + s.leaving - s.entering } := by
  have pw1 : ∀ i, bTok ((s.vs i).endBlock s.height) +
      (if (s.vs i).bonded && !((s.vs i).endBlock s.height).bonded then (s.vs i).tokens else 0) =
      bTok (s.vs i) + (if !(s.vs i).bonded && ((s.vs i).endBlock s.height).bonded then (s.vs i).tokens else 0) := by
    intro i
    unfold bTok
    rw [(endBlock_fields (s.vs i) s.height).1]
    cases (s.vs i).bonded <;> cases ((s.vs i).endBlock s.height).bonded <;> simp
  have pw2 : ∀ i, nTok ((s.vs i).endBlock s.height) +
      (if !(s.vs i).bonded && ((s.vs i).endBlock s.height).bonded then (s.vs i).tokens else 0) =
      nTok (s.vs i) + (if (s.vs i).bonded && !((s.vs i).endBlock s.height).bonded then (s.vs i).tokens else 0) := by
    intro i
    unfold nTok
    rw [(endBlock_fields (s.vs i) s.height).1]
    cases (s.vs i).bonded <;> cases ((s.vs i).endBlock s.height).bonded <;> simp
  have s1 : sumTo s.nVal (fun i => bTok ((s.vs i).endBlock s.height)) + s.leaving =
      sumTo s.nVal (fun i => bTok (s.vs i)) + s.entering := by
    unfold State.leaving State.entering
    rw [← sumTo_add, ← sumTo_add]
    exact sumTo_congr (fun i _ => pw1 i)
  have s2 : sumTo s.nVal (fun i => nTok ((s.vs i).endBlock s.height)) + s.entering =
      sumTo s.nVal (fun i => nTok (s.vs i)) + s.leaving := by
    unfold State.leaving State.entering
    rw [← sumTo_add, ← sumTo_add]
    exact sumTo_congr (fun i _ => pw2 i)
  have l1 : s.leaving ≤ sumTo s.nVal (fun i => bTok (s.vs i)) := by
    unfold State.leaving
    apply sumTo_le
    intro i _
    unfold bTok
    cases (s.vs i).bonded <;> cases ((s.vs i).endBlock s.height).bonded <;> simp
  have l2 : s.entering ≤ sumTo s.nVal (fun i => nTok (s.vs i)) := by
    unfold State.entering
    apply sumTo_le
    intro i _
    unfold nTok
    cases (s.vs i).bonded <;> cases ((s.vs i).endBlock s.height).bonded <;> simp
  have i1 := hi.bonded
  have i2 := hi.notBonded
  refine ⟨?_, ?_, ?_, ?_, ?_, hi.gain⟩
  · intro w
    have a := hi.acct w
    obtain ⟨_, f2, f3, f4, f5, f6⟩ := endBlock_fields (s.vs w) s.height
    unfold Acct at a ⊢
    show ((s.vs w).endBlock s.height).cur ≤ _ ∧ _
    rw [f2, f3, f4, f5, f6]
    exact a
  · show s.bondedPool - s.leaving + s.entering = sumTo s.nVal (fun i => bTok ((s.vs i).endBlock s.height))
    omega
  · show s.notBondedPool + s.leaving - s.entering = sumTo s.nVal (fun i => nTok ((s.vs i).endBlock s.height)) + ubdTotal s.ubd
    omega
  · show sumTo s.nVal (fun w => ((s.vs w).endBlock s.height).allocated) = s.distrIn * ONE
    rw [← hi.allocated]
    exact sumTo_congr (fun i _ => (endBlock_fields (s.vs i) s.height).2.2.2.2.2)
  · show sumTo s.nVal (fun w => ((s.vs w).endBlock s.height).paid) = s.distrOut
    rw [← hi.paid]
    exact sumTo_congr (fun i _ => (endBlock_fields (s.vs i) s.height).2.2.2.1)

/-- `UnbondAllMatureValidators` touches only the status -/
theorem matureStep_fields (v : VS) (h H : Nat) :
    (if v.bonded then v.endBlock h else (v.endBlock h).matureValTo H).bonded = (v.endBlock h).bonded ∧
    (if v.bonded then v.endBlock h else (v.endBlock h).matureValTo H).tokens = v.tokens ∧
    (if v.bonded then v.endBlock h else (v.endBlock h).matureValTo H).cur = v.cur ∧
    (if v.bonded then v.endBlock h else (v.endBlock h).matureValTo H).outstanding = v.outstanding ∧
    (if v.bonded then v.endBlock h else (v.endBlock h).matureValTo H).paid = v.paid ∧
    (if v.bonded then v.endBlock h else (v.endBlock h).matureValTo H).dust = v.dust ∧
    (if v.bonded then v.endBlock h else (v.endBlock h).matureValTo H).allocated = v.allocated := by
  obtain ⟨f1, f2, f3, f4, f5, f6⟩ := endBlock_fields v h
  split
  · exact ⟨rfl, f1, f2, f3, f4, f5, f6⟩
  · unfold VS.matureValTo
    split
    · unfold VS.matureVal
      split
      · exact ⟨rfl, f1, f2, f3, f4, f5, f6⟩
      · exact ⟨rfl, f1, f2, f3, f4, f5, f6⟩
    · exact ⟨rfl, f1, f2, f3, f4, f5, f6⟩

/-- the balances of the entries that mature and of those that stay add up to the balances of all entries -/
theorem ubdTotal_split (p : Nat × Nat × Nat × Nat → Bool) : ∀ l : List (Nat × Nat × Nat × Nat),
    ubdTotal (l.filter p) + ubdTotal (l.filter (fun u => !p u)) = ubdTotal l := by
  intro l
  induction l with
  | nil => rfl
  | cons e es ih =>
    cases hp : p e
    · simp only [List.filter_cons, hp, Bool.not_false, if_true, Bool.false_eq_true, if_false, ubdTotal]
      omega
    · simp only [List.filter_cons, hp, Bool.not_true, if_true, Bool.false_eq_true, if_false, ubdTotal]
      omega

/-- the unbonding period of everything that began at a height ≤ `H` passes: the validator-set update of `block`, plus
every unbonding entry created at a height ≤ `H` is paid back out of the not-bonded pool (the others stay) -/
theorem mature_BInv {s : State} (hi : BInv s) (H : Nat) :
    BInv { s with height := s.height + 1,
                  vs := fun i => if (s.vs i).bonded then (s.vs i).endBlock s.height else ((s.vs i).endBlock s.height).matureValTo H,
                  bondedPool := s.bondedPool - s.leaving + s.entering,
                  notBondedPool := s.notBondedPool + s.leaving - s.entering - ubdTotal (s.ubd.filter (fun u => decide (u.2.2.1 ≤ H))),
                  returned := fun d => s.returned d + ubdTotal ((s.ubd.filter (fun u => decide (u.2.2.1 ≤ H))).filter (fun u => u.1 == d)),
                  ubd := s.ubd.filter (fun u => !decide (u.2.2.1 ≤ H)),
                  redel := s.redel.filter (fun r => !decide (r.2.2.2.1 ≤ H)) } := by
  have hb := block_BInv hi
  have b2 := hb.bonded
  have b3 := hb.notBonded
  have e : ∀ w, bTok (if (s.vs w).bonded then (s.vs w).endBlock s.height else ((s.vs w).endBlock s.height).matureValTo H) =
      bTok ((s.vs w).endBlock s.height) ∧
      nTok (if (s.vs w).bonded then (s.vs w).endBlock s.height else ((s.vs w).endBlock s.height).matureValTo H) =
      nTok ((s.vs w).endBlock s.height) := by
    intro w
    obtain ⟨g1, g2, _⟩ := matureStep_fields (s.vs w) s.height H
    unfold bTok nTok
    rw [g1, g2, (endBlock_fields (s.vs w) s.height).1]
    exact ⟨rfl, rfl⟩
  refine ⟨?_, ?_, ?_, ?_, ?_, hi.gain⟩
  · intro w
    have a := hi.acct w
    obtain ⟨_, _, g3, g4, g5, g6, g7⟩ := matureStep_fields (s.vs w) s.height H
    unfold Acct at a ⊢
    show (if (s.vs w).bonded then (s.vs w).endBlock s.height else ((s.vs w).endBlock s.height).matureValTo H).cur ≤ _ ∧ _
    rw [g3, g4, g5, g6, g7]
    exact a
  · show s.bondedPool - s.leaving + s.entering = sumTo s.nVal (fun w => bTok _)
    rw [sumTo_congr (fun w _ => (e w).1)]
    exact b2
  · show s.notBondedPool + s.leaving - s.entering - ubdTotal (s.ubd.filter (fun u => decide (u.2.2.1 ≤ H))) =
      sumTo s.nVal (fun w => nTok _) + ubdTotal (s.ubd.filter (fun u => !decide (u.2.2.1 ≤ H)))
    rw [sumTo_congr (fun w _ => (e w).2)]
    have b3' : s.notBondedPool + s.leaving - s.entering =
        sumTo s.nVal (fun i => nTok ((s.vs i).endBlock s.height)) + ubdTotal s.ubd := b3
    have sp := ubdTotal_split (fun u => decide (u.2.2.1 ≤ H)) s.ubd
    omega
  · show sumTo s.nVal (fun w => (if (s.vs w).bonded then (s.vs w).endBlock s.height else ((s.vs w).endBlock s.height).matureValTo H).allocated) = s.distrIn * ONE
    rw [← hi.allocated]
    exact sumTo_congr (fun i _ => (matureStep_fields (s.vs i) s.height H).2.2.2.2.2.2)
  · show sumTo s.nVal (fun w => (if (s.vs w).bonded then (s.vs w).endBlock s.height else ((s.vs w).endBlock s.height).matureValTo H).paid) = s.distrOut
    rw [← hi.paid]
    exact sumTo_congr (fun i _ => (matureStep_fields (s.vs i) s.height H).2.2.2.2.1)

set_option linter.unusedSimpArgs false

theorem status_Acct {v : VS} (b ub j : Bool) (u : Nat) (h : Acct v) :
    Acct { v with bonded := b, unbonded := ub, ubHeight := u, jailed := j } := h

/-- one successful operation keeps the bank-side invariant -/
theorem exec_BInv {c : Cfg} (hg : good c = true) {s s' : State} {o : Op}
    (hi : BInv s) (h : s.exec c o = .ok s') : BInv s' := by
  cases o with
  | delegate d v amt =>
    simp only [State.exec] at h
    split at h
    · cases h
    · rename_i hok
      have hd := lt_of_okAcc' (b2 hok).1
      have hv := lt_of_okVal (b2 hok).2
      split at h
      · cases h
      · rename_i v' r hx
        cases h
        have st := delegate_Step hx
        have tk := delegate_tokens hx
        refine BInv_step1 hi hv (x := v') (c := r) (a := 0) (up := amt) (dn := 0) rfl rfl rfl st.bonded
          (st.acct (hi.acct v)) st.paid (by rw [st.alloc, Nat.zero_mul, Nat.add_zero]) (by rw [tk]; rfl) ?_ ?_ rfl rfl ?_
        · cases hbv : (s.vs v).bonded <;> simp [State.poolAdd, State.addGain, State.setVS, hbv]
        · cases hbv : (s.vs v).bonded <;> simp [State.poolAdd, State.addGain, State.setVS, hbv]
        · exact sum_gain_add _ hd r
  | undelegate d v amt =>
    simp only [State.exec] at h
    split at h
    · cases h
    · rename_i hok
      have hd := lt_of_okAcc' (b2 hok).1
      have hv := lt_of_okVal (b2 hok).2
      split at h
      · cases h
      · split at h
        · cases h
        · split at h
          · cases h
          · rename_i v' ret r hx
            cases h
            obtain ⟨st, hle, tk⟩ := unbond_Step hx
            refine BInv_step1 hi hv (x := v') (c := r) (a := 0) (up := 0) (dn := ret) rfl rfl rfl st.bonded
              (st.acct (hi.acct v)) st.paid (by rw [st.alloc, Nat.zero_mul, Nat.add_zero]) (by rw [tk]; omega) ?_ ?_ rfl rfl ?_
            · cases hbv : (s.vs v).bonded
              · simp [State.poolMove, State.addGain, State.setVS, hbv]
              · have := le_bondedPool hi hv hbv
                simp only [State.poolMove, State.addGain, State.setVS, hbv, Bool.not_false, Bool.and_self, if_true]
                omega
            · cases hbv : (s.vs v).bonded
              · simp only [State.poolMove, State.addGain, State.setVS, hbv, ubdSum_append]
                simp
                omega
              · simp only [State.poolMove, State.addGain, State.setVS, hbv, ubdSum_append]
                simp
                omega
            · exact sum_gain_add _ hd r
  | redelegate d src dst amt =>
    simp only [State.exec] at h
    split at h
    · cases h
    · rename_i hok
      have hd := lt_of_okAcc' (b3 hok).1
      have hsrc := lt_of_okVal (b3 hok).2.1
      have hdst := lt_of_okVal (b3 hok).2.2
      split at h
      · cases h
      · split at h
        · cases h
        · split at h
          · cases h
          · split at h
            · cases h
            · split at h
              · cases h
              · rename_i vsrc ret r1 hx
                split at h
                · cases h
                · split at h
                  · cases h
                  · rename_i vdst r2 hy
                    cases h
                    have hne : ¬ (src == dst) = true := by assumption
                    have hsd : dst ≠ src := by
                      intro e; apply hne; simp [e]
                    obtain ⟨st1, hle, tk1⟩ := unbond_Step hx
                    have st2 := delegate_Step hy
                    have tk2 := delegate_tokens hy
                    -- first the source validator gives the tokens up (they leave its pool) …
                    let s1 : State :=
                      { s with
                        vs := setAt s.vs src vsrc
                        distrOut := s.distrOut + r1
                        gain := setAt s.gain d (s.gain d + r1)
                        bondedPool := if (s.vs src).bonded then s.bondedPool - ret else s.bondedPool
                        notBondedPool := if (s.vs src).bonded then s.notBondedPool else s.notBondedPool - ret }
                    have hb1 : BInv s1 := by
                      refine BInv_step1 hi hsrc (x := vsrc) (c := r1) (a := 0) (up := 0) (dn := ret) rfl rfl rfl st1.bonded
                        (st1.acct (hi.acct src)) st1.paid (by rw [st1.alloc, Nat.zero_mul, Nat.add_zero]) (by rw [tk1]; omega)
                        ?_ ?_ rfl rfl ?_
                      · cases hbv : (s.vs src).bonded
                        · simp [s1, hbv]
                        · have := le_bondedPool hi hsrc hbv
                          simp only [s1, hbv, if_true]
                          omega
                      · cases hbv : (s.vs src).bonded
                        · have := le_notBondedPool hi hsrc hbv
                          simp only [s1, hbv, if_true, if_false, Bool.false_eq_true]
                          omega
                        · simp [s1, hbv]
                      · exact sum_gain_add _ hd r1
                    -- … then the destination validator receives them (they enter its pool)
                    have hdv : s1.vs dst = s.vs dst := setAt_ne _ _ hsd
                    have hdst1 : dst < s1.nVal := hdst
                    refine BInv_step1 hb1 hdst1 (x := vdst) (c := r2) (a := 0) (up := ret) (dn := 0) rfl rfl rfl
                      (by rw [hdv]; exact st2.bonded) (st2.acct (hi.acct dst)) (by rw [hdv]; exact st2.paid)
                      (by rw [hdv, st2.alloc, Nat.zero_mul, Nat.add_zero]) (by rw [hdv, tk2]; rfl) ?_ ?_ rfl ?_ ?_
                    · rw [hdv]
                      have p1 := hb1.bonded
                      cases hb1v : (s.vs src).bonded <;> cases hb2v : (s.vs dst).bonded <;>
                        simp [State.poolMove, State.addGain, State.setVS, s1, hb1v, hb2v]
                      have := le_bondedPool hi hsrc hb1v
                      omega
                    · rw [hdv]
                      cases hb1v : (s.vs src).bonded <;> cases hb2v : (s.vs dst).bonded <;>
                        simp [State.poolMove, State.addGain, State.setVS, s1, hb1v, hb2v] <;>
                        (have := le_notBondedPool hi hsrc hb1v; omega)
                    · simp only [State.poolMove, State.addGain, State.setVS, s1]
                      try omega
                    · show sumTo s.nAcc (setAt (setAt s.gain d (s.gain d + r1)) d (setAt s.gain d (s.gain d + r1) d + r2)) = _
                      exact sum_gain_add _ hd r2
  | withdraw d v =>
    simp only [State.exec] at h
    split at h
    · cases h
    · rename_i hok
      have hok' : s.okAcc d = true ∧ s.okVal v = true := by
        revert hok
        cases s.okAcc d <;> cases s.okVal v <;> decide
      split at h
      · cases h
      · rename_i v' r hx
        cases h
        have st := withdrawMsg_Step hx
        have tk := (withdrawMsg_SF hx).2.1
        refine BInv_step1 hi (lt_of_okVal hok'.2) (x := v') (c := r) (a := 0) (up := 0) (dn := 0) rfl rfl rfl st.bonded
          (st.acct (hi.acct v)) st.paid (by rw [st.alloc, Nat.zero_mul, Nat.add_zero]) (by rw [tk]) ?_ ?_ rfl rfl ?_
        · simp [State.addGain, State.setVS]
        · simp [State.addGain, State.setVS]
        · exact sum_gain_add _ (lt_of_okAcc' hok'.1) r
  | approve owner spender v shares =>
    simp only [State.exec] at h
    split at h
    · cases h
    · cases h; exact ⟨hi.acct, hi.bonded, hi.notBonded, hi.allocated, hi.paid, hi.gain⟩
  | transfer f t v x =>
    simp only [State.exec] at h
    rw [transferTx_eq hg] at h
    exact transferOp_BInv hg hi h
  | transferFrom sp f t v x =>
    simp only [State.exec] at h
    rw [transferFromTx_eq hg] at h
    simp only [State.transferFromRef] at h
    split at h
    · cases h
    · split at h
      · cases h
      · split at h
        · cases h
        · split at h
          · cases h
          · refine transferOp_BInv hg ?_ h
            exact ⟨hi.acct, hi.bonded, hi.notBonded, hi.allocated, hi.paid, hi.gain⟩
  | alloc v amt =>
    simp only [State.exec] at h
    split at h
    · cases h
    · rename_i hok
      have hv : v < s.nVal := by
        apply lt_of_okVal
        revert hok; cases s.okVal v <;> decide
      cases h
      obtain ⟨a1, a2, a3, a4⟩ := alloc_status (s.vs v) amt
      refine BInv_step1 hi hv (x := (s.vs v).alloc amt) (c := 0) (a := amt) (up := 0) (dn := 0) rfl rfl rfl a1
        (alloc_Acct amt (hi.acct v)) a3 a4 (by rw [a2]) ?_ ?_ rfl rfl rfl
      · simp [State.setVS]
      · simp [State.setVS]
  | slash v p f =>
    simp only [State.exec] at h
    split at h
    · cases h
    · rename_i hok
      have hv : v < s.nVal := by
        apply lt_of_okVal
        revert hok; cases s.okVal v <;> cases (decide (ONE < f)) <;> cases (s.vs v).unbonded <;> decide
      cases h
      obtain ⟨st, hle⟩ := slash_Step (s.vs v) s.height p f
      refine BInv_step1 hi hv (x := (s.vs v).slash s.height p f) (c := 0) (a := 0) (up := 0)
        (dn := (s.vs v).tokens - ((s.vs v).slash s.height p f).tokens) rfl rfl rfl st.bonded
        (st.acct (hi.acct v)) st.paid (by rw [st.alloc, Nat.zero_mul, Nat.add_zero]) (by omega) ?_ ?_ rfl rfl rfl
      · cases hbv : (s.vs v).bonded
        · simp [State.poolBurn, State.setVS, hbv]
        · have := le_bondedPool hi hv hbv
          simp only [State.poolBurn, State.setVS, hbv, if_true]
          omega
      · cases hbv : (s.vs v).bonded
        · have := le_notBondedPool hi hv hbv
          simp only [State.poolBurn, State.setVS, hbv, if_true, if_false, Bool.false_eq_true]
          omega
        · simp [State.poolBurn, State.setVS, hbv]
  | block =>
    simp only [State.exec] at h
    cases h
    exact block_BInv hi
  | mature H =>
    simp only [State.exec] at h
    cases h
    exact mature_BInv hi H
  | jail v =>
    simp only [State.exec] at h
    split at h
    · cases h
    · rename_i hok
      have hv : v < s.nVal := by
        apply lt_of_okVal
        revert hok; cases s.okVal v <;> cases (s.vs v).jailed <;> decide
      cases h
      refine BInv_step1 hi hv (x := { s.vs v with jailed := true }) (c := 0) (a := 0) (up := 0) (dn := 0) rfl rfl rfl rfl
        (hi.acct v) rfl (by simp) rfl ?_ ?_ rfl rfl rfl
      · simp [State.setVS]
      · simp [State.setVS]
  | unjail v =>
    simp only [State.exec] at h
    split at h
    · cases h
    · rename_i hok
      have hv : v < s.nVal := by
        apply lt_of_okVal
        revert hok; cases s.okVal v <;> cases (s.vs v).jailed <;> decide
      cases h
      refine BInv_step1 hi hv (x := { s.vs v with jailed := false }) (c := 0) (a := 0) (up := 0) (dn := 0) rfl rfl rfl rfl
        (hi.acct v) rfl (by simp) rfl ?_ ?_ rfl rfl rfl
      · simp [State.setVS]
      · simp [State.setVS]

theorem step_BInv {c : Cfg} (hg : good c = true) {s : State} (o : Op) (hi : BInv s) : BInv (s.step c o) := by
  unfold State.step
  cases h : s.exec c o with
  | error e => exact hi
  | ok s' => exact exec_BInv hg hi h

theorem run_BInv {c : Cfg} (hg : good c = true) (ops : List Op) (s : State) (hi : BInv s) : BInv (s.run c ops) := by
  induction ops generalizing s with
  | nil => exact hi
  | cons o os ih => exact ih (s.step c o) (step_BInv hg o hi)

theorem init_BInv (nAcc h0 : Nat) (vals : List (Nat × Nat)) : BInv (init nAcc h0 vals) := by
  have hvs : ∀ w, (init nAcc h0 vals).vs w = (match vals[w]? with | some (t, r) => genesisVS w t r | none => {}) := fun _ => rfl
  refine ⟨?_, ?_, ?_, ?_, ?_, ?_⟩
  · intro w
    rw [hvs]
    cases vals[w]? with
    | none =>
      refine ⟨Nat.le_refl _, ?_⟩
      show 0 + 0 * ONE + 0 = 0
      rw [Nat.zero_mul]
    | some p =>
      refine ⟨Nat.le_refl _, ?_⟩
      show 0 + 0 * ONE + 0 = 0
      rw [Nat.zero_mul]
  · show sumTo vals.length _ = sumTo vals.length _
    apply sumTo_congr
    intro i _
    rw [hvs]
    cases vals[i]? with
    | none => rfl
    | some p => rfl
  · show 0 = sumTo vals.length _ + 0
    rw [Nat.add_zero]
    symm
    apply sumTo_eq_zero
    intro i _
    rw [hvs]
    cases vals[i]? with
    | none => rfl
    | some p => rfl
  · show sumTo vals.length _ = 0 * ONE
    rw [Nat.zero_mul]
    apply sumTo_eq_zero
    intro i _
    rw [hvs]
    cases vals[i]? with
    | none => rfl
    | some p => rfl
  · show sumTo vals.length _ = 0
    apply sumTo_eq_zero
    intro i _
    rw [hvs]
    cases vals[i]? with
    | none => rfl
    | some p => rfl
  · exact sumTo_eq_zero (fun _ _ => rfl)

theorem sumTo_mul_right (n : Nat) (f : Nat → Nat) (k : Nat) : sumTo n (fun i => f i * k) = sumTo n f * k := by
  induction n with
  | zero => simp [sumTo]
  | succ n ih => simp only [sumTo, ih, Nat.add_mul]

/-- what a share transfer leaves alone at the level of the chain: the pools, the unbonding and redelegation records,
the height, every other validator, this validator's status; the distribution module account pays out exactly the two
rewards, which go to the two parties -/
theorem transferOp_frame {c : Cfg} (hg : good c = true) {s s' : State} {f t v x : Nat}
    (h : s.transferOp c f t v x = .ok s') :
    s'.bondedPool = s.bondedPool ∧ s'.notBondedPool = s.notBondedPool ∧ s'.ubd = s.ubd ∧ s'.redel = s.redel ∧
    s'.distrIn = s.distrIn ∧ s'.burned = s.burned ∧ s'.height = s.height ∧ s'.spent = s.spent ∧ s'.allow = s.allow ∧
    (∀ w, w ≠ v → s'.vs w = s.vs w) ∧
    (s'.vs v).bonded = (s.vs v).bonded ∧ (s'.vs v).jailed = (s.vs v).jailed ∧ (s'.vs v).tokens = (s.vs v).tokens ∧
    ∃ rf rt, s'.distrOut = s.distrOut + rf + rt ∧ s'.gain = setAt (setAt s.gain f (s.gain f + rf)) t (setAt s.gain f (s.gain f + rf) t + rt) ∧
      (s'.vs v).paid = (s.vs v).paid + (rf + rt) := by
  unfold State.transferOp at h
  split at h
  · cases h
  · split at h
    · cases h
    · split at h
      · cases h
      · rename_i v' rf rt ht
        cases h
        have st := transfer_Step hg ht
        have tk : v'.tokens = (s.vs v).tokens := by
          by_cases hne : f = t
          · subst hne; rw [(transfer_self hg ht).1]
          · obtain ⟨_, _, _, _, ht', _⟩ := transfer_del hg hne ht
            exact ht'
        refine ⟨rfl, rfl, rfl, rfl, rfl, rfl, rfl, rfl, rfl, ?_, ?_, ?_, ?_, rf, rt, ?_, rfl, ?_⟩
        · intro w hw
          show setAt s.vs v v' w = s.vs w
          exact setAt_ne _ _ hw
        · show (setAt s.vs v v' v).bonded = _
          rw [setAt_same]; exact st.bonded
        · show (setAt s.vs v v' v).jailed = _
          rw [setAt_same]; exact st.jailed
        · show (setAt s.vs v v' v).tokens = _
          rw [setAt_same]; exact tk
        · show s.distrOut + rf + rt = s.distrOut + rf + rt
          rfl
        · show (setAt s.vs v v' v).paid = _
          rw [setAt_same]; exact st.paid

end FxVerif.Proofs.C11
