import FxVerif.Model.C18E
/-! # C18 round 5 — lemmas about the response of the interpreter on its way to the boundaries (core only) -/
namespace FxVerif.Proofs.C18E
open FxVerif.Gen.C18E FxVerif.Model.C18E
open FxVerif.Model.C18P (EvmKind)

theorem append_ne_empty (p tl : String) (h : p ≠ "") : p ++ tl ≠ "" := by
  intro h2
  have := congrArg String.length h2
  simp [String.length_append] at this
  exact h (by simpa using this.1)

/-- every constant error text of the interpreter is non-empty (decided on the regenerated table) -/
theorem texts_nonempty : ∀ p ∈ vmErrorTexts, p.2 ≠ "" := by decide

/-- every struct error's format starts with a non-empty literal (decided on the regenerated table) -/
theorem formats_nonempty : ∀ p ∈ vmErrorFormats, p.2 ≠ "" := by decide

theorem revertText_nonempty : revertText ≠ "" := by decide

/-- the `VmError` ApplyMessage builds is empty exactly for a successful call -/
theorem respOf_vmError_empty_iff (o : Outcome) (hwf : o.wf = true) : (respOf o).vmError = "" ↔ o = .success := by
  cases o with
  | success => simp [respOf]
  | reverted p => simp [respOf, revertText_nonempty]
  | vmConst n t =>
    simp only [Outcome.wf, Bool.and_eq_true, List.contains_iff_mem] at hwf
    have := texts_nonempty (n, t) hwf.1
    simp only [respOf]
    exact ⟨fun h => absurd h this, fun h => by cases h⟩
  | vmFmt n p tl =>
    simp only [Outcome.wf, List.contains_iff_mem] at hwf
    have := formats_nonempty (n, p) hwf
    have h2 := append_ne_empty p tl this
    simp only [respOf]
    exact ⟨fun h => absurd h h2, fun h => by cases h⟩

/-- `Failed()` of the response ApplyMessage builds: true exactly when the interpreter did not succeed -/
theorem failedOf_respOf (cond : String → Bool) (o : Outcome) (hwf : o.wf = true) :
    failedOf cond (respOf o) = true ↔ o ≠ .success := by
  have h := respOf_vmError_empty_iff o hwf
  simp only [failedOf, failedDef, bne_iff_ne, ne_eq]
  exact not_congr h

/-- no statement of the helper writes the response (syntactic, decided on the regenerated program) -/
def noWrite : RStmt → Bool
  | .setVmError _ => false
  | .opaqueWrite _ => false
  | .seq a b => noWrite a && noWrite b
  | .ite _ t e => noWrite t && noWrite e
  | _ => true

/-- every path of the helper ends in a return -/
def ends : RStmt → Bool
  | .retResp => true
  | .retErr => true
  | .seq a b => ends a || ends b
  | .ite _ t e => ends t && ends e
  | _ => false

theorem execR_noWrite (cond : String → Bool) : ∀ (p : RStmt) (st : PSt), noWrite p = true →
    (execR cond p st).1.resp = st.resp ∧ (execR cond p st).1.tainted = st.tainted := by
  intro p
  induction p with
  | skip => intro st _; simp [execR]
  | unpack => intro st _; simp [execR]
  | retResp => intro st _; simp [execR]
  | retErr => intro st _; simp [execR]
  | setVmError v => intro st h; simp [noWrite] at h
  | opaqueWrite s => intro st h; simp [noWrite] at h
  | seq a b iha ihb =>
    intro st h
    simp only [noWrite, Bool.and_eq_true] at h
    have ha := iha st h.1
    simp only [execR]
    cases hr : execR cond a st with
    | mk st' f =>
      rw [hr] at ha
      cases f with
      | none =>
        have hb := ihb st' h.2
        simp only at ha ⊢
        exact ⟨hb.1.trans ha.1, hb.2.trans ha.2⟩
      | some x => simpa using ha
  | ite c t e iht ihe =>
    intro st h
    simp only [noWrite, Bool.and_eq_true] at h
    simp only [execR]
    split
    · exact iht st h.1
    · exact ihe st h.2

theorem execR_ends (cond : String → Bool) : ∀ (p : RStmt) (st : PSt), ends p = true → (execR cond p st).2.isSome = true := by
  intro p
  induction p with
  | skip => intro st h; simp [ends] at h
  | unpack => intro st h; simp [ends] at h
  | setVmError v => intro st h; simp [ends] at h
  | opaqueWrite s => intro st h; simp [ends] at h
  | retResp => intro st _; simp [execR]
  | retErr => intro st _; simp [execR]
  | seq a b iha ihb =>
    intro st h
    simp only [ends, Bool.or_eq_true] at h
    simp only [execR]
    cases hr : execR cond a st with
    | mk st' f =>
      cases f with
      | some x => simp
      | none =>
        simp only
        rcases h with h | h
        · have := iha st h; rw [hr] at this; simp at this
        · exact ihb st' h
  | ite c t e iht ihe =>
    intro st h
    simp only [ends, Bool.and_eq_true] at h
    simp only [execR]
    split
    · exact iht st h.1
    · exact ihe st h.2

/-- **a helper whose statement list contains no write of the response and whose every path returns hands back exactly
the response ApplyMessage built — or an error** (for every program, by induction) -/
theorem handBack_faithful (cond : String → Bool) (p : RStmt) (o : Outcome) (hn : noWrite p = true) (he : ends p = true) :
    (handBack cond p o).2 = false ∧ ∀ r, (handBack cond p o).1 = some r → r = respOf o := by
  have h1 := execR_noWrite cond p ⟨respOf o, none, false⟩ hn
  have h2 := execR_ends cond p ⟨respOf o, none, false⟩ he
  simp only [handBack]
  cases hr : execR cond p ⟨respOf o, none, false⟩ with
  | mk st f =>
    rw [hr] at h1 h2
    cases f with
    | none => simp at h2
    | some x =>
      cases x with
      | resp => simp only at h1 ⊢; exact ⟨h1.2, fun r hr' => by simp at hr'; rw [← hr']; exact h1.1⟩
      | err => simp only at h1 ⊢; exact ⟨h1.2, fun r hr' => by simp at hr'⟩

/-- **`CallEVM` never writes the response** (decided on the regenerated statement list): whatever the uninterpreted
conditions, it hands back exactly the response ApplyMessage built — or an error -/
theorem callEVM_faithful (cond : String → Bool) (o : Outcome) :
    (callEVM cond o).2 = false ∧ ∀ r, (callEVM cond o).1 = some r → r = respOf o :=
  handBack_faithful cond callEVMPost o (by decide) (by decide)

/-- **`CallEVMWithoutGas` returns an error exactly when the interpreter did not succeed** (any revert payload, any VM
error), and never writes the response -/
theorem callEVMWithoutGas_error_iff (cond : String → Bool) (o : Outcome) (hwf : o.wf = true) :
    (callEVMWithoutGas cond o).2 = false ∧ ((callEVMWithoutGas cond o).1 = none ↔ o ≠ .success) := by
  have hf := failedOf_respOf cond o hwf
  simp only [callEVMWithoutGas, handBack, callEVMWithoutGasPost, execR, evalC]
  by_cases h : failedOf cond (respOf o) = true
  · simp [h, hf.mp h]
  · have : o = .success := Classical.byContradiction (fun hn => h (hf.mpr hn))
    subst this
    simp [h]

/-- what the boundary programs are given for the leaf `k.evmKeeper.CallEVM`: a failed interpreter run is VISIBLE —
`CallEVM` returned an error, or the response counts as failed (`Failed()`), whatever the revert payload -/
theorem callEVM_failure_visible (cond : String → Bool) (o : Outcome) (hwf : o.wf = true) (hne : o ≠ .success) :
    envOk cond o = false ∨ envKind cond o ≠ .ok := by
  obtain ⟨_, hr⟩ := callEVM_faithful cond o
  cases hc : (callEVM cond o).1 with
  | none => left; simp [envOk, hc]
  | some r =>
    right
    have hrr := hr r hc
    subst hrr
    have hf := (failedOf_respOf cond o hwf).mpr hne
    simp only [envKind, hc, hf, if_true]
    split <;> simp_all

/-- and a successful run is never reported as failed -/
theorem callEVM_success_invisible (cond : String → Bool) : envKind cond .success = .ok := by
  obtain ⟨_, hr⟩ := callEVM_faithful cond .success
  cases hc : (callEVM cond .success).1 with
  | none => simp [envKind, hc]
  | some r =>
    have hrr := hr r hc
    subst hrr
    have hf : failedOf cond (respOf .success) = false := by
      cases h : failedOf cond (respOf .success) with
      | false => rfl
      | true => exact absurd rfl ((failedOf_respOf cond .success rfl).mp h)
    simp [envKind, hc, hf]

end FxVerif.Proofs.C18E
