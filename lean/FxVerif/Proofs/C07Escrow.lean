import FxVerif.Model.C07Escrow

/-! Invariant of the gov deposit escrow: the module account covers the recorded deposits. -/
namespace FxVerif.Proofs.C07Escrow
open FxVerif.Model.C07Escrow

/-- the gov module account holds at least the sum of the recorded deposits, and the end-blocker has not failed -/
def Inv (s : State) : Prop := total s.deps ≤ s.bal ∧ s.halted = false

theorem total_append (a b : List (Nat × Nat)) : total (a ++ b) = total a + total b := by
  induction a with
  | nil => simp [total]
  | cons x r ih => obtain ⟨p, n⟩ := x; simp [total, ih]; omega

theorem total_without_le (pid : Nat) : ∀ (d : List (Nat × Nat)), total (without pid d) ≤ total d := by
  intro d
  induction d with
  | nil => simp [without]
  | cons x r ih =>
    obtain ⟨p, a⟩ := x
    by_cases hp : (p == pid) = true
    · simp only [without, hp, if_true, total]; omega
    · simp only [without, hp, total]; simp only [Bool.false_eq_true, if_false, total]; omega

theorem settle_eq (pid : Nat) : ∀ (d : List (Nat × Nat)) (b : Nat), total d ≤ b →
    ∃ b', settle pid d b = some b' ∧ b' + total d = b + total (without pid d) := by
  intro d
  induction d with
  | nil => intro b _; exact ⟨b, rfl, rfl⟩
  | cons x r ih =>
    intro b h
    obtain ⟨p, a⟩ := x
    simp only [total] at h
    by_cases hp : (p == pid) = true
    · have ha : a ≤ b := by omega
      obtain ⟨b', e, q⟩ := ih (b - a) (by omega)
      refine ⟨b', ?_, ?_⟩
      · simp [settle, hp, ha, e]
      · simp only [without, hp, if_true, total]; omega
    · obtain ⟨b', e, q⟩ := ih b (by omega)
      refine ⟨b', ?_, ?_⟩
      · simp [settle, hp, e]
      · simp only [without, hp, total]; simp only [Bool.false_eq_true, if_false, total]; omega

theorem settle_ok (pid : Nat) (d : List (Nat × Nat)) (b : Nat) (h : total d ≤ b) :
    ∃ b', settle pid d b = some b' ∧ total (without pid d) ≤ b' := by
  obtain ⟨b', e, q⟩ := settle_eq pid d b h
  exact ⟨b', e, by omega⟩

/-- refund/burn fails exactly when the account cannot cover the deposits of that proposal (order of the records is irrelevant) -/
theorem settle_none_iff (pid : Nat) : ∀ (d : List (Nat × Nat)) (b : Nat),
    settle pid d b = none ↔ b + total (without pid d) < total d := by
  intro d
  induction d with
  | nil => intro b; simp [settle, total, without]
  | cons x r ih =>
    intro b
    obtain ⟨p, a⟩ := x
    by_cases hp : (p == pid) = true
    · by_cases ha : a ≤ b
      · simp only [settle, hp, if_true, ha, without, total]
        rw [ih (b - a)]; omega
      · simp only [settle, hp, if_true, ha, if_false, without, total]
        have := total_without_le pid r
        constructor
        · intro _; omega
        · intro _; trivial
    · simp only [settle, hp, without, total]
      simp only [Bool.false_eq_true, if_false, total]
      rw [ih b]; omega

theorem execMsg_halted {c : Code} {m : PMsg} {s s' : State} (h : execMsg c m s = some s') : s'.halted = s.halted := by
  cases m with
  | noop => simp [execMsg] at h; rw [← h]
  | fail => simp [execMsg] at h
  | spend n => simp only [execMsg] at h; split at h <;> simp at h; rw [← h]
  | payIn n => simp [execMsg] at h; rw [← h]
  | govDeposit pid n => simp only [execMsg] at h; split at h <;> simp at h; rw [← h]

theorem execMsgs_halted {c : Code} : ∀ (ms : List PMsg) {s s' : State}, execMsgs c ms s = some s' → s'.halted = s.halted := by
  intro ms
  induction ms with
  | nil => intro s s' h; simp [execMsgs] at h; rw [h]
  | cons m r ih =>
    intro s s' h
    simp only [execMsgs] at h
    cases e : execMsg c m s with
    | none => rw [e] at h; simp at h
    | some t => rw [e] at h; rw [ih h, execMsg_halted e]

/-- a message that pays nothing out of the signer -/
def spendFree : PMsg → Bool
  | .spend _ => false
  | _ => true

def opSpendFree : Op → Bool
  | .pass _ ms => ms.all spendFree
  | _ => true

theorem execMsg_inv_noSpend {c : Code} (hc : c.addDepositRefusesGov = true) {m : PMsg} (hm : spendFree m = true) {s s' : State}
    (h : execMsg c m s = some s') (hi : Inv s) : Inv s' := by
  cases m with
  | noop => simp [execMsg] at h; rw [← h]; exact hi
  | fail => simp [execMsg] at h
  | spend n => simp [spendFree] at hm
  | payIn n => simp [execMsg] at h; rw [← h]; exact ⟨by have := hi.1; simp; omega, hi.2⟩
  | govDeposit pid n => simp [execMsg, hc] at h

theorem execMsgs_inv_noSpend {c : Code} (hc : c.addDepositRefusesGov = true) : ∀ (ms : List PMsg), ms.all spendFree = true →
    ∀ {s s' : State}, execMsgs c ms s = some s' → Inv s → Inv s' := by
  intro ms
  induction ms with
  | nil => intro _ s s' h hi; simp [execMsgs] at h; rw [← h]; exact hi
  | cons m r ih =>
    intro hall s s' h hi
    simp only [List.all_cons, Bool.and_eq_true] at hall
    simp only [execMsgs] at h
    cases e : execMsg c m s with
    | none => rw [e] at h; simp at h
    | some t => rw [e] at h; exact ih hall.2 h (execMsg_inv_noSpend hc hall.1 e hi)

theorem passMsgs_inv_guarded {c : Code} (hc : c.passChecksEscrow = true) (ms : List PMsg) (s : State) (hi : Inv s) :
    Inv (passMsgs c ms s) := by
  unfold passMsgs
  cases em : execMsgs c ms s with
  | none => exact hi
  | some s2 =>
    simp only [hc, Bool.true_and]
    by_cases hlt : s2.bal < total s2.deps
    · simp only [hlt, decide_true, if_true]; exact hi
    · simp only [hlt, decide_false, Bool.false_eq_true, if_false]
      exact ⟨by omega, by rw [execMsgs_halted ms em]; exact hi.2⟩

theorem passMsgs_inv_noSpend {c : Code} (hc : c.addDepositRefusesGov = true) (ms : List PMsg) (hm : ms.all spendFree = true)
    (s : State) (hi : Inv s) : Inv (passMsgs c ms s) := by
  unfold passMsgs
  cases em : execMsgs c ms s with
  | none => exact hi
  | some s2 =>
    have h2 : Inv s2 := execMsgs_inv_noSpend hc ms hm em hi
    simp only []
    split
    · exact hi
    · exact h2

/-- refund / burn of one proposal in a state that satisfies the invariant: succeeds and keeps it -/
theorem settle_step_inv (pid : Nat) (s : State) (hi : Inv s) :
    ∃ b, settle pid s.deps s.bal = some b ∧ Inv { s with bal := b, deps := without pid s.deps } := by
  obtain ⟨b', e, q⟩ := settle_ok pid s.deps s.bal hi.1
  exact ⟨b', e, q, hi.2⟩

/-- every step keeps the invariant as soon as `passMsgs` does (in either order of settling and running the messages) -/
theorem step_inv_of {c : Code} (hp : ∀ ms s, Inv s → Inv (passMsgs c ms s)) (s : State) (op : Op) (hi : Inv s) :
    Inv (step c s op) := by
  have hh := hi.2
  simp only [step, hh, Bool.false_eq_true, if_false]
  cases op with
  | deposit pid n => exact ⟨by have := hi.1; simp [total_append, total]; omega, rfl⟩
  | settle pid =>
    obtain ⟨b, e, q⟩ := settle_step_inv pid s hi
    simp only [e]; rw [hh] at q; exact q
  | pass pid ms =>
    by_cases hs : c.settleBeforeMsgs = true
    · simp only [hs, if_true]
      obtain ⟨b, e, q⟩ := settle_step_inv pid s hi
      simp only [e]; rw [hh] at q; exact hp ms _ q
    · simp only [hs, Bool.false_eq_true, if_false]
      have h1 := hp ms s hi
      obtain ⟨b, e, q⟩ := settle_step_inv pid (passMsgs c ms s) h1
      simp only [e]; exact q

/-- with the escrow check in the pass branch every step keeps the invariant, whatever the messages do -/
theorem step_inv_guarded {c : Code} (hc : c.passChecksEscrow = true) (s : State) (op : Op) (hi : Inv s) : Inv (step c s op) :=
  step_inv_of (fun ms s h => passMsgs_inv_guarded hc ms s h) s op hi

/-- without the escrow check: the invariant survives as long as no message pays out of the gov account and `AddDeposit`
refuses the gov account (the state of the code after 45d0bc2) -/
theorem step_inv_noSpend {c : Code} (hc : c.addDepositRefusesGov = true) (s : State) (op : Op) (ho : opSpendFree op = true)
    (hi : Inv s) : Inv (step c s op) := by
  cases op with
  | pass pid ms =>
    have hh := hi.2
    simp only [step, hh, Bool.false_eq_true, if_false]
    simp only [opSpendFree] at ho
    by_cases hs : c.settleBeforeMsgs = true
    · simp only [hs, if_true]
      obtain ⟨b, e, q⟩ := settle_step_inv pid s hi
      simp only [e]; rw [hh] at q; exact passMsgs_inv_noSpend hc ms ho _ q
    · simp only [hs, Bool.false_eq_true, if_false]
      have h1 := passMsgs_inv_noSpend hc ms ho s hi
      obtain ⟨b, e, q⟩ := settle_step_inv pid (passMsgs c ms s) h1
      simp only [e]; exact q
  | deposit pid n =>
    have hh := hi.2
    simp only [step, hh, Bool.false_eq_true, if_false]
    exact ⟨by have := hi.1; simp [total_append, total]; omega, rfl⟩
  | settle pid =>
    have hh := hi.2
    simp only [step, hh, Bool.false_eq_true, if_false]
    obtain ⟨b, e, q⟩ := settle_step_inv pid s hi
    simp only [e]; rw [hh] at q; exact q

theorem run_inv_guarded {c : Code} (hc : c.passChecksEscrow = true) : ∀ (ops : List Op) (s : State), Inv s → Inv (run c ops s) := by
  intro ops
  induction ops with
  | nil => intro s h; exact h
  | cons op r ih => intro s h; exact ih _ (step_inv_guarded hc s op h)

theorem run_inv_noSpend {c : Code} (hc : c.addDepositRefusesGov = true) : ∀ (ops : List Op), ops.all opSpendFree = true →
    ∀ (s : State), Inv s → Inv (run c ops s) := by
  intro ops
  induction ops with
  | nil => intro _ s h; exact h
  | cons op r ih =>
    intro hall s h
    simp only [List.all_cons, Bool.and_eq_true] at hall
    exact ih hall.2 _ (step_inv_noSpend hc s op hall.1 h)

theorem step_inv_deposit (c : Code) (s : State) (pid n : Nat) (hi : Inv s) : Inv (step c s (.deposit pid n)) := by
  have hh := hi.2
  simp only [step, hh, Bool.false_eq_true, if_false]
  exact ⟨by have := hi.1; simp [total_append, total]; omega, rfl⟩

theorem step_inv_settle (c : Code) (s : State) (pid : Nat) (hi : Inv s) : Inv (step c s (.settle pid)) := by
  have hh := hi.2
  simp only [step, hh, Bool.false_eq_true, if_false]
  obtain ⟨b, e, q⟩ := settle_step_inv pid s hi
  simp only [e]; rw [hh] at q; exact q

theorem passMsgs_halted (c : Code) (ms : List PMsg) (s : State) : (passMsgs c ms s).halted = s.halted := by
  unfold passMsgs
  cases em : execMsgs c ms s with
  | none => rfl
  | some s2 =>
    simp only []
    split
    · rfl
    · exact execMsgs_halted ms em

/-- after every `pass` of the history the gov account still covers the open deposits (whatever the messages did) -/
def PassesKeepCovered (c : Code) : List Op → State → Prop
  | [], _ => True
  | op :: r, s =>
    (match op with
      | .pass _ _ => total (step c s op).deps ≤ (step c s op).bal
      | _ => True) ∧ PassesKeepCovered c r (step c s op)

theorem run_inv_partial {c : Code} (hc : c.settleBeforeMsgs = true) : ∀ (ops : List Op) (s : State), Inv s →
    PassesKeepCovered c ops s → Inv (run c ops s) := by
  intro ops
  induction ops with
  | nil => intro s h _; exact h
  | cons op r ih =>
    intro s hi hk
    obtain ⟨h1, h2⟩ := hk
    refine ih _ ?_ h2
    cases op with
    | deposit pid n => exact step_inv_deposit c s pid n hi
    | settle pid => exact step_inv_settle c s pid hi
    | pass pid ms =>
      refine ⟨h1, ?_⟩
      have hh := hi.2
      simp only [step, hh, Bool.false_eq_true, if_false, hc, if_true]
      obtain ⟨b, e, q⟩ := settle_step_inv pid s hi
      simp only [e, passMsgs_halted]

theorem inv_init : Inv init := ⟨by simp [init, total], rfl⟩

end FxVerif.Proofs.C07Escrow
