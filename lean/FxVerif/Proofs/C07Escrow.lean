import FxVerif.Model.C07Escrow

/-! Invariant of the gov deposit escrow: the module account covers the recorded deposits. -/
namespace FxVerif.Proofs.C07Escrow
open FxVerif.Model.C07Escrow

/-- the gov module account holds at least the sum of the recorded deposits, and the end-blocker has not failed -/
def Inv (s : State) : Prop := total s.deps ≤ s.bal ∧ s.halted = false

theorem total_append (a b : List (Nat × Nat)) : total (a ++ b) = total a + total b := by
  induction a with
  | nil => simp [total]
  | cons x r ih => obtain ⟨p, n⟩ := x; simp [total, ih]; omega

theorem total_without_le (pid : Nat) : ∀ (d : List (Nat × Nat)), total (without pid d) ≤ total d := by
  intro d
  induction d with
  | nil => simp [without]
  | cons x r ih =>
    obtain ⟨p, a⟩ := x
    by_cases hp : (p == pid) = true
    · simp only [without, hp, if_true, total]; omega
    · simp only [without, hp, total]; simp only [Bool.false_eq_true, if_false, total]; omega

theorem settle_eq (pid : Nat) : ∀ (d : List (Nat × Nat)) (b : Nat), total d ≤ b →
    ∃ b', settle pid d b = some b' ∧ b' + total d = b + total (without pid d) := by
  intro d
  induction d with
  | nil => intro b _; exact ⟨b, rfl, rfl⟩
  | cons x r ih =>
    intro b h
    obtain ⟨p, a⟩ := x
    simp only [total] at h
    by_cases hp : (p == pid) = true
    · have ha : a ≤ b := by omega
      obtain ⟨b', e, q⟩ := ih (b - a) (by omega)
      refine ⟨b', ?_, ?_⟩
      · simp [settle, hp, ha, e]
      · simp only [without, hp, if_true, total]; omega
    · obtain ⟨b', e, q⟩ := ih b (by omega)
      refine ⟨b', ?_, ?_⟩
      · simp [settle, hp, e]
      · simp only [without, hp, total]; simp only [Bool.false_eq_true, if_false, total]; omega

theorem settle_ok (pid : Nat) (d : List (Nat × Nat)) (b : Nat) (h : total d ≤ b) :
    ∃ b', settle pid d b = some b' ∧ total (without pid d) ≤ b' := by
  obtain ⟨b', e, q⟩ := settle_eq pid d b h
  exact ⟨b', e, by omega⟩

/-- refund/burn fails exactly when the account cannot cover the deposits of that proposal (order of the records is irrelevant) -/
theorem settle_none_iff (pid : Nat) : ∀ (d : List (Nat × Nat)) (b : Nat),
    settle pid d b = none ↔ b + total (without pid d) < total d := by
  intro d
  induction d with
  | nil => intro b; simp [settle, total, without]
  | cons x r ih =>
    intro b
    obtain ⟨p, a⟩ := x
    by_cases hp : (p == pid) = true
    · by_cases ha : a ≤ b
      · simp only [settle, hp, if_true, ha, without, total]
        rw [ih (b - a)]; omega
      · simp only [settle, hp, if_true, ha, if_false, without, total]
        have := total_without_le pid r
        constructor
        · intro _; omega
        · intro _; trivial
    · simp only [settle, hp, without, total]
      simp only [Bool.false_eq_true, if_false, total]
      rw [ih b]; omega

theorem execMsg_halted {c : Code} {m : PMsg} {s s' : State} (h : execMsg c m s = some s') : s'.halted = s.halted := by
  cases m with
  | noop => simp [execMsg] at h; rw [← h]
  | fail => simp [execMsg] at h
  | spend n => simp only [execMsg] at h; split at h <;> simp at h; rw [← h]
  | payIn n => simp [execMsg] at h; rw [← h]
  | govDeposit pid n => simp only [execMsg] at h; split at h <;> simp at h; rw [← h]

theorem execMsgs_halted {c : Code} : ∀ (ms : List PMsg) {s s' : State}, execMsgs c ms s = some s' → s'.halted = s.halted := by
  intro ms
  induction ms with
  | nil => intro s s' h; simp [execMsgs] at h; rw [h]
  | cons m r ih =>
    intro s s' h
    simp only [execMsgs] at h
    cases e : execMsg c m s with
    | none => rw [e] at h; simp at h
    | some t => rw [e] at h; rw [ih h, execMsg_halted e]

/-- a message that pays nothing out of the signer -/
def spendFree : PMsg → Bool
  | .spend _ => false
  | _ => true

def opSpendFree : Op → Bool
  | .pass _ ms => ms.all spendFree
  | _ => true

theorem execMsg_inv_noSpend {c : Code} (hc : c.addDepositRefusesGov = true) {m : PMsg} (hm : spendFree m = true) {s s' : State}
    (h : execMsg c m s = some s') (hi : Inv s) : Inv s' := by
  cases m with
  | noop => simp [execMsg] at h; rw [← h]; exact hi
  | fail => simp [execMsg] at h
  | spend n => simp [spendFree] at hm
  | payIn n => simp [execMsg] at h; rw [← h]; exact ⟨by have := hi.1; simp; omega, hi.2⟩
  | govDeposit pid n => simp [execMsg, hc] at h

theorem execMsgs_inv_noSpend {c : Code} (hc : c.addDepositRefusesGov = true) : ∀ (ms : List PMsg), ms.all spendFree = true →
    ∀ {s s' : State}, execMsgs c ms s = some s' → Inv s → Inv s' := by
  intro ms
  induction ms with
  | nil => intro _ s s' h hi; simp [execMsgs] at h; rw [← h]; exact hi
  | cons m r ih =>
    intro hall s s' h hi
    simp only [List.all_cons, Bool.and_eq_true] at hall
    simp only [execMsgs] at h
    cases e : execMsg c m s with
    | none => rw [e] at h; simp at h
    | some t => rw [e] at h; exact ih hall.2 h (execMsg_inv_noSpend hc hall.1 e hi)

/-- with the escrow check in the pass branch every step keeps the invariant, whatever the messages do -/
theorem step_inv_guarded {c : Code} (hc : c.passChecksEscrow = true) (s : State) (op : Op) (hi : Inv s) : Inv (step c s op) := by
  obtain ⟨hb, hh⟩ := hi
  simp only [step, hh, Bool.false_eq_true, if_false]
  cases op with
  | deposit pid n => exact ⟨by simp [total_append, total]; omega, rfl⟩
  | settle pid =>
    obtain ⟨b', e, q⟩ := settle_ok pid s.deps s.bal hb
    simp only [e]; exact ⟨q, rfl⟩
  | pass pid ms =>
    obtain ⟨b', e, q⟩ := settle_ok pid s.deps s.bal hb
    simp only [e]
    cases em : execMsgs c ms { bal := b', deps := without pid s.deps, halted := false } with
    | none => exact ⟨q, rfl⟩
    | some s2 =>
      simp only [hc, Bool.true_and]
      by_cases hlt : s2.bal < total s2.deps
      · simp only [hlt, decide_true, if_true]; exact ⟨q, rfl⟩
      · simp only [hlt, decide_false, Bool.false_eq_true, if_false]
        exact ⟨by omega, by rw [execMsgs_halted ms em]⟩

/-- without the escrow check: the invariant survives as long as no message pays out of the gov account and `AddDeposit`
refuses the gov account (the state of the code after 45d0bc2) -/
theorem step_inv_noSpend {c : Code} (hc : c.addDepositRefusesGov = true) (s : State) (op : Op) (ho : opSpendFree op = true)
    (hi : Inv s) : Inv (step c s op) := by
  obtain ⟨hb, hh⟩ := hi
  simp only [step, hh, Bool.false_eq_true, if_false]
  cases op with
  | deposit pid n => exact ⟨by simp [total_append, total]; omega, rfl⟩
  | settle pid =>
    obtain ⟨b', e, q⟩ := settle_ok pid s.deps s.bal hb
    simp only [e]; exact ⟨q, rfl⟩
  | pass pid ms =>
    obtain ⟨b', e, q⟩ := settle_ok pid s.deps s.bal hb
    simp only [e]
    have h1 : Inv { bal := b', deps := without pid s.deps, halted := false } := ⟨q, rfl⟩
    cases em : execMsgs c ms { bal := b', deps := without pid s.deps, halted := false } with
    | none => exact h1
    | some s2 =>
      have h2 : Inv s2 := execMsgs_inv_noSpend hc ms ho em h1
      simp only []
      split
      · exact h1
      · exact h2

theorem run_inv_guarded {c : Code} (hc : c.passChecksEscrow = true) : ∀ (ops : List Op) (s : State), Inv s → Inv (run c ops s) := by
  intro ops
  induction ops with
  | nil => intro s h; exact h
  | cons op r ih => intro s h; exact ih _ (step_inv_guarded hc s op h)

theorem run_inv_noSpend {c : Code} (hc : c.addDepositRefusesGov = true) : ∀ (ops : List Op), ops.all opSpendFree = true →
    ∀ (s : State), Inv s → Inv (run c ops s) := by
  intro ops
  induction ops with
  | nil => intro _ s h; exact h
  | cons op r ih =>
    intro hall s h
    simp only [List.all_cons, Bool.and_eq_true] at hall
    exact ih hall.2 _ (step_inv_noSpend hc s op hall.1 h)

theorem inv_init : Inv init := ⟨by simp [init, total], rfl⟩

end FxVerif.Proofs.C07Escrow
