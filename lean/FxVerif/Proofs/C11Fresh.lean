import FxVerif.Proofs.C11Ref
/-!
# C11 — what the hand-written starting infos of a transfer look like (core Lean only)

After `handlerTransferShares` each party's starting info is the one the SDK's own `initializeDelegation` would have
written for its new shares at that moment: the stake is `TokensFromSharesTruncated(new shares)` at the validator's
exchange rate, the height is the current block, the period is one that was ended during the call, and the cumulative
reward ratio did not move between the two period ends of the call (nothing is pending for either party).
-/
set_option linter.unusedSimpArgs false
set_option linter.unusedVariables false

namespace FxVerif.Proofs.C11
open FxVerif.Model.C11
open FxVerif.Gen.C11 (Cfg)

theorem dQuoTrunc_zero (b : Nat) : dQuoTrunc 0 b = 0 := by
  simp [dQuoTrunc]

theorem curRatio_zero {v : VS} (h : v.cur = 0) (t : Nat) : curRatio v t = 0 := by
  unfold curRatio
  split
  · rfl
  · rw [h]; exact dQuoTrunc_zero _

theorem incPeriod_shape {v v' : VS} {t e : Nat} (h : v.incPeriod t = .ok (v', e)) :
    v'.cur = 0 ∧ v'.ratio = setAt v.ratio v.period (v.ratioAt (v.period - 1) + curRatio v t) ∧
    v'.period = v.period + 1 ∧ v'.sinfo = v.sinfo := by
  obtain ⟨_, _, rfl⟩ := incPeriod_ok h
  refine ⟨rfl, rfl, rfl, ?_⟩
  exact (prePeriod_fields v t).2.2.2.1

theorem incPeriod_slashes {v v' : VS} {t e : Nat} (h : v.incPeriod t = .ok (v', e)) : v'.slashes = v.slashes := by
  obtain ⟨_, _, rfl⟩ := incPeriod_ok h
  exact (prePeriod_fields v t).2.2.2.2.1

theorem withdrawMsg_slashes {v v' : VS} {h d c : Nat} (hw : v.withdrawMsg h d = .ok (v', c)) : v'.slashes = v.slashes := by
  obtain ⟨va, hwa, hia⟩ := withdrawMsg_ok hw
  obtain ⟨sh, si, v1, raw, v3, _, _, h1, _, h3, eva, _⟩ := withdrawRewards_ok hwa
  obtain ⟨vb, sh', hinc, _, ev'⟩ := initDelegation_ok hia
  obtain ⟨_, evb⟩ := incRef_ok hinc
  obtain ⟨_, ev3⟩ := decRef_ok h3
  have a : v'.slashes = va.slashes := by rw [ev', evb]
  have b : va.slashes = v1.slashes := by rw [eva, ev3]; rfl
  rw [a, b]; exact incPeriod_slashes h1

theorem xferLookup_slashes {c : Cfg} {v v1 v2 : VS} {h t rt : Nat} (hl : VS.xferLookup c v v1 h t = .ok (v2, rt)) :
    v2.slashes = v1.slashes := by
  unfold VS.xferLookup at hl
  split at hl
  · split at hl
    · split at hl
      · cases hl
      · rename_i v2' e h1
        cases hl
        exact incPeriod_slashes h1
    · cases hl; rfl
  · split at hl
    · exact withdrawMsg_slashes hl
    · cases hl; rfl

/-- keeper `WithdrawDelegationRewards` under the invariant: the period is ended, the new record carries the
cumulative ratio, nothing else moves in the ratios, current rewards are reset, and the delegator restarts in the
period just ended with a stake re-derived from its shares -/
theorem withdrawMsg_shape {n : Nat} {v v' : VS} (hi : RI n v) (hD : Dom v) {h d c : Nat} (hd : d < n)
    (hw : v.withdrawMsg h d = .ok (v', c)) :
    ∃ sh, v.del d = some sh ∧ v'.cur = 0 ∧ v'.period = v.period + 1 ∧
      v'.ratio v.period = v.ratioAt (v.period - 1) + curRatio v v.tokens ∧
      (∀ x, x ≠ v.period → v'.ratio x = v.ratio x) ∧
      v'.sinfo = setAt v.sinfo d (some ⟨v.period, v.tokensFromSharesTrunc sh, h⟩) ∧
      v'.refs v.period = 2 ∧ SF v v' := by
  obtain ⟨va, hwa, hia⟩ := withdrawMsg_ok hw
  obtain ⟨sh, si, v1, raw, v3, hdel, hs, h1, _, h3, eva, _⟩ := withdrawRewards_ok hwa
  obtain ⟨vb, sh', hinc, _, ev'⟩ := initDelegation_ok hia
  obtain ⟨_, evb⟩ := incRef_ok hinc
  obtain ⟨hpos3, ev3⟩ := decRef_ok h3
  obtain ⟨c1, r1, p1, s1⟩ := incPeriod_shape h1
  have q1 : va.ratio = v1.ratio := by rw [eva, ev3]; rfl
  have q2 : va.period = v1.period := by rw [eva, ev3]; rfl
  have q3 : va.refs = setAt v1.refs si.period (v1.refs si.period - 1) := by rw [eva, ev3]; rfl
  have q4 : va.cur = v1.cur := by rw [eva, ev3]; rfl
  have w1 : v'.ratio = setAt va.ratio (va.period - 1) (va.ratioAt (va.period - 1)) := by rw [ev', evb]
  have w2 : v'.cur = va.cur := by rw [ev', evb]
  -- facts from the total lemma (same call)
  rcases withdrawMsg_total hi hD (h := h) hd hdel with hE | ⟨v2, c2, hw2, _, _, hsinfo, hper, hrefs, _, sf⟩
  · rw [hE] at hw; cases hw
  · rw [hw2] at hw
    cases hw
    have hsp := hi.sper d si hs
    have e1 : va.period - 1 = v.period := by omega
    have hne : v.period ≠ si.period := by omega
    have hr1 : v1.refs v.period = 1 := by
      obtain ⟨_, _, rfl⟩ := incPeriod_ok h1
      simp [setAt]
    have hmid : va.ratioAt v.period = v1.ratio v.period := by
      unfold VS.ratioAt
      rw [q3, q1]
      simp only [setAt, hne, if_false]
      rw [if_neg (by rw [hr1]; omega)]
    refine ⟨sh, hdel, ?_, hper, ?_, ?_, hsinfo, hrefs, sf⟩
    · rw [w2, q4]; exact c1
    · rw [w1, e1, hmid]
      simp only [setAt, if_true]
      rw [r1]; simp [setAt]
    · intro x hx
      rw [w1, e1]
      simp only [setAt, hx, if_false]
      rw [q1, r1]; simp [setAt, hx]

theorem xferLookup_shape {c : Cfg} (hg : good c = true) {n : Nat} {v v1 v2 : VS} (i1 : RI n v1) (D1 : Dom v1) {h t rt : Nat}
    (ht : t < n) (hc : v1.cur = 0) (hl : VS.xferLookup c v v1 h t = .ok (v2, rt)) :
    v2.cur = 0 ∧ v2.period = v1.period + 1 ∧ v2.ratio v1.period = v1.ratioAt (v1.period - 1) ∧
    (∀ x, x ≠ v1.period → v2.ratio x = v1.ratio x) ∧
    v2.sinfo = (match v1.del t with
      | none => v1.sinfo
      | some tsh => setAt v1.sinfo t (some ⟨v1.period, v1.tokensFromSharesTrunc tsh, h⟩)) := by
  obtain ⟨-, -, -, -, -, g6, g7, -⟩ := good_fields hg
  unfold VS.xferLookup at hl
  cases hd : v1.del t with
  | none =>
    rw [hd] at hl
    dsimp only at hl
    rw [g7, if_pos rfl] at hl
    split at hl
    · cases hl
    · rename_i v2' e hq
      cases hl
      obtain ⟨a, b, p, s⟩ := incPeriod_shape hq
      refine ⟨a, p, ?_, ?_, s⟩
      · rw [b, curRatio_zero hc]; simp [setAt]
      · intro x hx; rw [b]; simp [setAt, hx]
  | some tsh =>
    rw [hd] at hl
    dsimp only at hl
    rw [g6, if_pos rfl] at hl
    obtain ⟨sh, hdel, a, p, r, o, s, _, _⟩ := withdrawMsg_shape i1 D1 ht hl
    rw [hd] at hdel
    cases hdel
    refine ⟨a, p, ?_, o, s⟩
    rw [r, curRatio_zero hc]; rfl

theorem xferFrom_shape {c : Cfg} (hg : good c = true) {v v2 v3 : VS} {f fsh X : Nat} {si : SInfo}
    (hs : v2.sinfo f = some si) (hx : VS.xferFrom c v v2 f fsh X = .ok v3) :
    v3.sinfo = setAt v2.sinfo f (if fsh - X = 0 then none else some { si with stake := v.tokensFromSharesTrunc (fsh - X) }) ∧
    v3.ratio = v2.ratio ∧ v3.cur = v2.cur ∧ v3.period = v2.period ∧
    (∀ x, v2.refs x ≠ 0 → x ≠ si.period → v3.refs x ≠ 0) ∧ v3.slashes = v2.slashes := by
  obtain ⟨-, -, -, -, -, -, -, g8, g9, -⟩ := good_fields hg
  unfold VS.xferFrom at hx
  rw [hs] at hx
  dsimp only [Option.getD_some] at hx
  split at hx
  · cases hx
  · by_cases hz : fsh - X = 0
    · simp only [hz, g8, g9, if_true] at hx
      split at hx
      · cases hx
      · rename_i b hb
        obtain ⟨_, rfl⟩ := decRef_ok hb
        cases hx
        refine ⟨by rw [if_pos hz], rfl, rfl, rfl, ?_, rfl⟩
        intro x hx0 hne
        show setAt v2.refs si.period _ x ≠ 0
        simp only [setAt, hne, if_false]
        exact hx0
    · simp only [hz, if_false] at hx
      cases hx
      exact ⟨by rw [if_neg hz], rfl, rfl, rfl, fun x hx0 _ => hx0, rfl⟩

/-- the recipient's starting info as written by the last phase -/
def toInfo (v v3 : VS) (h t X : Nat) : Option Nat → SInfo
  | none => ⟨v3.period - 1, v.tokensFromSharesTrunc X, h⟩
  | some tsh => { (v3.sinfo t).getD ⟨0, 0, 0⟩ with stake := v.tokensFromSharesTrunc (tsh + X) }

theorem xferTo_shape {c : Cfg} (hg : good c = true) {v v3 v4 : VS} {h t X : Nat} {o : Option Nat}
    (hfresh : o = none → v3.refs (v3.period - 1) ≠ 0) (hx : VS.xferTo c v v3 h t X o = .ok v4) :
    v4.sinfo = setAt v3.sinfo t (some (toInfo v v3 h t X o)) ∧
    (∀ x, v4.ratio x = v3.ratio x) ∧ v4.cur = v3.cur ∧ v4.period = v3.period ∧
    (∀ x, v3.refs x ≠ 0 → v4.refs x ≠ 0) ∧ v4.slashes = v3.slashes := by
  obtain ⟨-, -, -, -, g5, -, -, -, -, g10, g11, -⟩ := good_fields hg
  unfold VS.xferTo at hx
  rw [g5, g10, g11] at hx
  simp only [if_true] at hx
  cases o with
  | none =>
    dsimp only at hx
    split at hx
    · cases hx
    · rename_i v5 h5
      obtain ⟨_, rfl⟩ := incRef_ok h5
      cases hx
      have hf := hfresh rfl
      refine ⟨by simp [toInfo, Nat.zero_add], ?_, rfl, rfl, ?_, rfl⟩
      · intro x
        show setAt v3.ratio (v3.period - 1) _ x = v3.ratio x
        by_cases hx1 : x = v3.period - 1
        · subst hx1
          simp only [setAt, if_true]
          show VS.ratioAt _ (v3.period - 1) = _
          unfold VS.ratioAt
          rw [if_neg hf]
        · simp [setAt, hx1]
      · intro x hx0
        show setAt v3.refs (v3.period - 1) _ x ≠ 0
        by_cases hx1 : x = v3.period - 1
        · subst hx1; simp [setAt]
        · simp only [setAt, hx1, if_false]; exact hx0
  | some tsh =>
    dsimp only at hx
    cases hx
    exact ⟨rfl, fun _ => rfl, rfl, rfl, fun x hx0 => hx0, rfl⟩

/-- **the hand-written starting infos.**  After a successful transfer between different accounts (state satisfying
the invariant): two periods were ended, current rewards are zero, the cumulative ratio is the same at both period
ends, the recipient starts at the last one with stake `TokensFromSharesTruncated(old + X)` at the current height, and
the sender — if it keeps shares — starts at the first one with stake `TokensFromSharesTruncated(rest)` at the
current height, else its starting info is gone. -/
theorem transfer_shape {c : Cfg} (hg : good c = true) {n : Nat} {v v' : VS} (hi : VInv n v) {h f t X rf rt : Nat}
    {recv : Bool} (hf : f < n) (htn : t < n) (hne : f ≠ t) (ht : VS.transfer c v h f t X recv = .ok (v', rf, rt)) :
    ∃ fsh, v.del f = some fsh ∧ v'.period = v.period + 2 ∧ v'.cur = 0 ∧
      v'.ratio v.period = v'.ratio (v.period + 1) ∧
      v'.sinfo t = some ⟨v.period + 1, v'.tokensFromSharesTrunc ((v.del t).getD 0 + X), h⟩ ∧
      v'.sinfo f = (if fsh - X = 0 then none else some ⟨v.period, v'.tokensFromSharesTrunc (fsh - X), h⟩) ∧
      (∀ d, d ≠ f → d ≠ t → v'.sinfo d = v.sinfo d) ∧ (∀ x, x < v.period → v'.ratio x = v.ratio x) ∧
      v'.slashes = v.slashes ∧ v'.ratio v.period = v.ratioAt (v.period - 1) + curRatio v v.tokens := by
  obtain ⟨fsh, v1, v2, v3, hdf, _, hle, h1, h2, h3, h4⟩ := transfer_ok hg hne ht
  -- phase 1
  obtain ⟨sh, hsh, c1, p1, r1, o1, s1, rf1, sf1⟩ := withdrawMsg_shape hi.ri hi.dom hf h1
  rw [hdf] at hsh; cases hsh
  have i1v := withdrawMsg_VInv hf h1 hi
  -- phase 2
  obtain ⟨c2, p2, r2, o2, s2⟩ := xferLookup_shape hg (v := v) i1v.ri i1v.dom htn c1 h2
  have sf2 := xferLookup_SF h2
  rcases xferLookup_total hg (v := v) i1v.ri i1v.dom (h := h) htn with hE | ⟨v2', rt', hl, i2, D2, _, fr2⟩
  · rw [hE] at h2; cases h2
  · rw [hl] at h2
    cases h2
    -- the sender's starting info after the two first phases
    have hsf2 : v2.sinfo f = some ⟨v.period, v.tokensFromSharesTrunc fsh, h⟩ := by
      rw [s2]
      cases hd : v1.del t with
      | none => dsimp only; rw [s1]; simp [setAt]
      | some tsh => dsimp only; rw [s1]; simp [setAt, hne]
    -- phase 3
    obtain ⟨s3, r3, c3, p3, k3, e3⟩ := xferFrom_shape hg (v := v) hsf2 h3
    -- phase 4
    have hdel2 : v2.del f = some fsh := by rw [sf2.1, sf1.1]; exact hdf
    obtain ⟨v3', h3', i3, D3, _, fr3, oth3⟩ := xferFrom_total hg (v := v) i2 D2 hf hdel2 hle
    rw [h3'] at h3
    cases h3
    have hfresh : v1.del t = none → v3.refs (v3.period - 1) ≠ 0 := by
      intro hn
      rw [fr3 (fr2 hn)]; omega
    obtain ⟨s4, r4, c4, p4, k4, e4⟩ := xferTo_shape hg (v := v) hfresh h4
    have htok : ∀ x, v'.tokensFromSharesTrunc x = v.tokensFromSharesTrunc x := by
      intro x
      obtain ⟨_, _, _, _, ht', hs', _⟩ := transfer_del hg hne ht
      simp only [VS.tokensFromSharesTrunc, ht', hs']
    have hP1 : v1.period = v.period + 1 := p1
    have hP2 : v2.period = v.period + 2 := by omega
    have hP3 : v3.period = v.period + 2 := by omega
    have hsl2 := xferLookup_slashes hl
    have hsl1 := withdrawMsg_slashes h1
    refine ⟨fsh, hdf, by omega, by rw [c4, c3]; exact c2, ?_, ?_, ?_, ?_, ?_, by rw [e4, e3, hsl2, hsl1],
      by rw [r4, r3, o2 _ (by omega)]; exact r1⟩
    · -- ratios: record P (written by phase 1) = record P+1 (written by phase 2 with nothing accrued)
      rw [r4, r4, r3]
      have a : v2.ratio v.period = v1.ratio v.period := o2 _ (by omega)
      have b : v2.ratio (v.period + 1) = v1.ratioAt (v1.period - 1) := by rw [← hP1]; exact r2
      rw [a, b]
      have e : v1.period - 1 = v.period := by omega
      rw [e]
      unfold VS.ratioAt
      rw [if_neg (by rw [rf1]; omega)]
    · rw [s4]
      simp only [setAt, if_true]
      rw [htok]
      cases hd : v1.del t with
      | none =>
        have hvt : v.del t = none := by rw [← sf1.1]; exact hd
        rw [hvt]
        simp only [Option.getD_none, Nat.zero_add, toInfo]
        rw [hP3]
        rfl
      | some tsh =>
        have hvt : v.del t = some tsh := by rw [← sf1.1]; exact hd
        rw [hvt]
        simp only [Option.getD_some, toInfo]
        have h3t : v3.sinfo t = some ⟨v1.period, v1.tokensFromSharesTrunc tsh, h⟩ := by
          rw [s3]
          simp only [setAt, Ne.symm hne, if_false]
          rw [s2, hd]
          simp [setAt]
        rw [h3t]
        simp only [Option.getD_some]
        rw [hP1]
    · rw [s4]
      simp only [setAt, hne, if_false]
      rw [s3]
      simp only [setAt, if_true]
      by_cases hz : fsh - X = 0
      · simp [hz]
      · simp only [hz, if_false]
        rw [htok]
    · intro d hdf' hdt'
      rw [s4]
      simp only [setAt, hdt', if_false]
      rw [s3]
      simp only [setAt, hdf', if_false]
      rw [s2]
      cases hd : v1.del t with
      | none => dsimp only; rw [s1]; simp [setAt, hdf']
      | some tsh => dsimp only; rw [s1]; simp [setAt, hdf', hdt']
    · intro x hx
      rw [r4, r3, o2 x (by omega), o1 x (by omega)]

/-! ### nothing is pending right after a transfer -/

theorem dMulTrunc_zero (b : Nat) : dMulTrunc 0 b = 0 := by
  simp [dMulTrunc]

theorem slashLoop_skip (v : VS) : ∀ (evs : List SlashEv) (rew sp st : Nat), (∀ e, e ∈ evs → e.period ≤ sp) →
    v.slashLoop evs rew sp st = .ok (rew, sp, st) := by
  intro evs
  induction evs with
  | nil => intro rew sp st _; rfl
  | cons e es ih =>
    intro rew sp st he
    have h1 := he e (List.mem_cons_self ..)
    unfold VS.slashLoop
    rw [if_neg (by omega)]
    exact ih _ _ _ (fun x hx => he x (List.mem_cons_of_mem _ hx))

theorem chopRound_ge (x : Nat) : x / ONE ≤ chopRound x := by
  unfold chopRound
  dsimp only
  (repeat' split) <;> omega

theorem trunc_le_round (v : VS) (sh : Nat) : v.tokensFromSharesTrunc sh ≤ v.tokensFromShares sh := by
  unfold VS.tokensFromSharesTrunc VS.tokensFromShares dQuoTrunc dQuo
  exact chopRound_ge _

/-- a delegator whose starting info is fresh — started after every slash event, at a record with the same cumulative
ratio as the ending record, with a stake not above its current token worth — has exactly zero rewards -/
theorem calcRewards_fresh {v : VS} {h' d sh ending : Nat} {si : SInfo} (hs : v.sinfo d = some si) (hh : si.height ≠ h')
    (hstake : si.stake ≤ v.tokensFromShares sh) (hnew : ∀ e, e ∈ v.slashes → e.period ≤ si.period)
    (hr : v.ratioAt si.period = v.ratioAt ending) (hle : si.period ≤ ending) :
    v.calcRewards h' d sh ending = .ok 0 := by
  unfold VS.calcRewards
  rw [hs]
  dsimp only
  rw [if_neg hh]
  rw [slashLoop_skip v _ 0 si.period si.stake (by
    intro e hm
    have hmem : e ∈ v.slashes := by
      split at hm
      · exact (List.mem_filter.mp hm).1
      · cases hm
    exact hnew e hmem)]
  dsimp only
  rw [if_neg (by omega)]
  unfold VS.between
  rw [if_neg (by omega), if_neg (by omega), hr, Nat.sub_self, dMulTrunc_zero]

/-- `WithdrawDelegationRewards` when the rewards computed after ending the period are zero: succeeds and pays nothing -/
theorem withdrawMsg_zero {n : Nat} {v : VS} (hi : RI n v) (hD : Dom v) {h d sh : Nat} {si : SInfo} (hd : d < n)
    (hdel : v.del d = some sh) (hs : v.sinfo d = some si)
    (hc : ∀ v1, v.incPeriod v.tokens = .ok (v1, v.period) → v1.calcRewards h d sh v.period = .ok 0) :
    ∃ v', v.withdrawMsg h d = .ok (v', 0) := by
  obtain ⟨v1, h1, i1, f1, p1, s1, e1, sf1⟩ := incPeriod_total hi v.tokens
  have hs1 : v1.sinfo d = some si := by rw [s1]; exact hs
  have hR := hc v1 h1
  unfold VS.withdrawMsg VS.withdrawRewards
  rw [hdel, hs]
  dsimp only
  rw [h1]
  dsimp only
  rw [hR]
  dsimp only
  have hpos := i1.refs_info_pos hd hs1
  unfold VS.decRef
  dsimp only
  rw [if_neg hpos]
  dsimp only
  -- the re-initialisation
  have hmin : min 0 v1.outstanding = 0 := Nat.zero_min _
  have iD : RI n ({ ({ v1 with outstanding := v1.outstanding - min 0 v1.outstanding,
                               paid := v1.paid + min 0 v1.outstanding / ONE,
                               dust := v1.dust + min 0 v1.outstanding % ONE } : VS) with
      refs := setAt v1.refs si.period (v1.refs si.period - 1), sinfo := setAt v1.sinfo d none } : VS) :=
    i1.dropInfo hd hs1 rfl rfl rfl rfl rfl
  have hsp := hi.sper d si hs
  obtain ⟨v2, h2, _⟩ := initDelegation_total iD (h := h) (d := d) (sh := sh) hd
    (by show v1.del d = some sh; rw [sf1.1]; exact hdel)
    (by show setAt v1.sinfo d none d = none; simp [setAt])
    (by
      show setAt v1.refs si.period (v1.refs si.period - 1) (v1.period - 1) = 1
      have ne : v1.period - 1 ≠ si.period := by omega
      simp only [setAt, ne, if_false]
      exact f1)
  rw [h2]
  simp [hmin]

/-- **nothing pending.**  Right after a successful transfer between different accounts (any later height, no
allocation or slash in between) each party's `WithdrawDelegationRewards` succeeds — here the SDK's stake sanity check
cannot fire — and pays nothing: the transfer paid out everything that had accrued. -/
theorem transfer_nothing_pending {c : Cfg} (hg : good c = true) {n : Nat} {v v' : VS} (hi : VInv n v) {h f t X rf rt : Nat}
    {recv : Bool} (hf : f < n) (htn : t < n) (hne : f ≠ t) (ht : VS.transfer c v h f t X recv = .ok (v', rf, rt))
    {d sh h' : Nat} (hd : d = f ∨ d = t) (hdel : v'.del d = some sh) (hh : h ≠ h') :
    ∃ v'', v'.withdrawMsg h' d = .ok (v'', 0) := by
  obtain ⟨fsh, hdf, hP, hcur, hrat, hst, hsf, _, _, hsl, _⟩ := transfer_shape hg hi hf htn hne ht
  obtain ⟨fsh', hdf', _, _, htok', hsh', hdel'⟩ := transfer_del hg hne ht
  rw [hdf] at hdf'; cases hdf'
  -- the invariant of the final state
  have hi' : VInv n v' := by
    rcases transfer_total hg hi (h := h) (f := f) (t := t) (X := X) (recv := recv) hf htn with ⟨e, he, _⟩ | ⟨v2, a, b, hr, hv2⟩
    · rw [he] at ht; cases ht
    · rw [hr] at ht; cases ht; exact hv2
  have hdn : d < n := by rcases hd with rfl | rfl <;> assumption
  -- the party's starting info
  have hinfo : ∃ si, v'.sinfo d = some si ∧ (si.period = v.period ∨ si.period = v.period + 1) ∧
      si.stake = v'.tokensFromSharesTrunc sh ∧ si.height = h := by
    rcases hd with rfl | rfl
    · rw [hdel'] at hdel
      simp only [setAt, hne, if_false, if_true] at hdel
      by_cases hz : fsh - X = 0
      · simp [hz] at hdel
      · simp only [hz, if_false, Option.some.injEq] at hdel
        subst hdel
        rw [if_neg hz] at hsf
        exact ⟨_, hsf, Or.inl rfl, rfl, rfl⟩
    · rw [hdel'] at hdel
      simp only [setAt, if_true, Option.some.injEq] at hdel
      subst hdel
      exact ⟨_, hst, Or.inr rfl, rfl, rfl⟩
  obtain ⟨si, hs, hper, hstake, hheight⟩ := hinfo
  apply withdrawMsg_zero hi'.ri hi'.dom hdn hdel hs
  intro v1 h1
  obtain ⟨c1, r1, p1, s1⟩ := incPeriod_shape h1
  obtain ⟨v1', h1', i1, f1, _, _, e1, sf1⟩ := incPeriod_total hi'.ri v'.tokens
  rw [h1'] at h1
  cases h1
  have hs1 : v1.sinfo d = some si := by rw [s1]; exact hs
  have htf : v1.tokensFromShares sh = v'.tokensFromShares sh := by
    simp only [VS.tokensFromShares, sf1.2.1, sf1.2.2]
  apply calcRewards_fresh hs1
  · rw [hheight]; exact hh
  · rw [hstake, htf]; exact trunc_le_round v' sh
  · intro e he
    rw [e1, hsl] at he
    have := hi.ri.eper e he
    rcases hper with hp | hp <;> omega
  · -- both records carry the cumulative ratio of the transfer's two period ends
    have hA : v1.ratioAt si.period = v'.ratio si.period := by
      unfold VS.ratioAt
      rw [if_neg (i1.refs_info_pos hdn hs1), r1]
      have : si.period ≠ v'.period := by rcases hper with hp | hp <;> omega
      simp [setAt, this]
    have hB : v1.ratioAt v'.period = v'.ratio (v.period + 1) := by
      unfold VS.ratioAt
      have e : v1.period - 1 = v'.period := by omega
      rw [e] at f1
      rw [if_neg (by rw [f1]; omega), r1]
      simp only [setAt, if_true]
      rw [curRatio_zero hcur, Nat.add_zero]
      unfold VS.ratioAt
      rw [if_neg hi'.ri.refs_cur_pos]
      have : v'.period - 1 = v.period + 1 := by omega
      rw [this]
    rw [hA, hB]
    rcases hper with hp | hp
    · rw [hp]; exact hrat
    · rw [hp]
  · rcases hper with hp | hp <;> omega

/-! ### a transfer leaves every third party's pending rewards exactly as they were -/

theorem between_congr {v w : VS} {sp e1 e2 st : Nat} (h1 : v.ratioAt sp = w.ratioAt sp) (h2 : v.ratioAt e1 = w.ratioAt e2)
    (hle1 : sp ≤ e1) (hle2 : sp ≤ e2) : v.between sp e1 st = w.between sp e2 st := by
  unfold VS.between
  rw [if_neg (by omega : ¬ e1 < sp), if_neg (by omega : ¬ e2 < sp), h1, h2]

theorem slashLoop_congr {v w : VS} : ∀ (evs : List SlashEv) (rew sp st : Nat),
    v.ratioAt sp = w.ratioAt sp → (∀ e, e ∈ evs → v.ratioAt e.period = w.ratioAt e.period) →
    v.slashLoop evs rew sp st = w.slashLoop evs rew sp st := by
  intro evs
  induction evs with
  | nil => intro rew sp st _ _; rfl
  | cons e es ih =>
    intro rew sp st hsp he
    have h1 := he e (List.mem_cons_self ..)
    have hes : ∀ x, x ∈ es → v.ratioAt x.period = w.ratioAt x.period := fun x hx => he x (List.mem_cons_of_mem _ hx)
    unfold VS.slashLoop
    by_cases hlt : sp < e.period
    · rw [if_pos hlt, if_pos hlt, between_congr hsp h1 (Nat.le_of_lt hlt) (Nat.le_of_lt hlt)]
      cases hb : w.between sp e.period st with
      | error x => rfl
      | ok r => exact ih _ _ _ h1 hes
    · rw [if_neg hlt, if_neg hlt]
      exact ih _ _ _ hsp hes

/-- the slash loop never moves the starting period above the bound of its inputs -/
theorem slashLoop_bound {v : VS} {B : Nat} : ∀ (evs : List SlashEv) (rew sp st : Nat) (r : Nat × Nat × Nat),
    (∀ e, e ∈ evs → e.period ≤ B) → sp ≤ B → v.slashLoop evs rew sp st = .ok r →
    r.2.1 ≤ B ∧ (r.2.1 = sp ∨ ∃ e, e ∈ evs ∧ r.2.1 = e.period) := by
  intro evs
  induction evs with
  | nil =>
    intro rew sp st r _ hsp h
    cases h
    exact ⟨hsp, Or.inl rfl⟩
  | cons e es ih =>
    intro rew sp st r he hsp h
    have h1 := he e (List.mem_cons_self ..)
    have hes : ∀ x, x ∈ es → x.period ≤ B := fun x hx => he x (List.mem_cons_of_mem _ hx)
    unfold VS.slashLoop at h
    by_cases hlt : sp < e.period
    · rw [if_pos hlt] at h
      split at h
      · cases h
      · obtain ⟨a, b⟩ := ih _ _ _ r hes h1 h
        refine ⟨a, Or.inr ?_⟩
        rcases b with b | ⟨x, hx, b⟩
        · exact ⟨e, List.mem_cons_self .., b⟩
        · exact ⟨x, List.mem_cons_of_mem _ hx, b⟩
    · rw [if_neg hlt] at h
      obtain ⟨a, b⟩ := ih _ _ _ r hes hsp h
      refine ⟨a, ?_⟩
      rcases b with b | ⟨x, hx, b⟩
      · exact Or.inl b
      · exact Or.inr ⟨x, List.mem_cons_of_mem _ hx, b⟩

/-- `CalculateDelegationRewards` gives the same answer on two records that agree on the delegator's starting info,
the slash events, the exchange rate, the cumulative ratios of the referenced periods and of the two ending periods -/
theorem calcRewards_congr {v w : VS} {h d sh e1 e2 : Nat} {si : SInfo} (hs1 : v.sinfo d = some si) (hs2 : w.sinfo d = some si)
    (hsl : w.slashes = v.slashes) (htok : w.tokensFromShares sh = v.tokensFromShares sh)
    (hsi : v.ratioAt si.period = w.ratioAt si.period)
    (hev : ∀ e, e ∈ v.slashes → v.ratioAt e.period = w.ratioAt e.period)
    (hend : v.ratioAt e1 = w.ratioAt e2)
    (hb1 : si.period ≤ e1 ∧ ∀ e, e ∈ v.slashes → e.period ≤ e1)
    (hb2 : si.period ≤ e2 ∧ ∀ e, e ∈ v.slashes → e.period ≤ e2) :
    v.calcRewards h d sh e1 = w.calcRewards h d sh e2 := by
  unfold VS.calcRewards
  rw [hs1, hs2, hsl, htok]
  dsimp only
  by_cases hh : si.height = h
  · rw [if_pos hh, if_pos hh]
  · rw [if_neg hh, if_neg hh]
    have hmem : ∀ e, e ∈ (if si.height < h then v.slashes.filter (fun e => si.height ≤ e.height && e.height ≤ h) else []) →
        e ∈ v.slashes := by
      intro e hm
      split at hm
      · exact (List.mem_filter.mp hm).1
      · cases hm
    rw [slashLoop_congr (v := v) (w := w) _ 0 si.period si.stake hsi (fun e hm => hev e (hmem e hm))]
    cases hl : w.slashLoop (if si.height < h then v.slashes.filter (fun e => si.height ≤ e.height && e.height ≤ h) else [])
        0 si.period si.stake with
    | error x => rfl
    | ok r =>
      obtain ⟨rew, sp, stake⟩ := r
      dsimp only
      split
      · rfl
      · -- the final `between`
        obtain ⟨_, hsp⟩ := slashLoop_bound (v := w) (B := e1) _ 0 si.period si.stake (rew, sp, stake)
          (fun e hm => hb1.2 e (hmem e hm)) hb1.1 hl
        have hr : v.ratioAt sp = w.ratioAt sp := by
          rcases hsp with hsp | ⟨e, hm, hsp⟩
          · dsimp only at hsp; rw [hsp]; exact hsi
          · dsimp only at hsp; rw [hsp]; exact hev e (hmem e hm)
        have hle1 : sp ≤ e1 := by
          rcases hsp with hsp | ⟨e, hm, hsp⟩
          · dsimp only at hsp; rw [hsp]; exact hb1.1
          · dsimp only at hsp; rw [hsp]; exact hb1.2 e (hmem e hm)
        have hle2 : sp ≤ e2 := by
          rcases hsp with hsp | ⟨e, hm, hsp⟩
          · dsimp only at hsp; rw [hsp]; exact hb2.1
          · dsimp only at hsp; rw [hsp]; exact hb2.2 e (hmem e hm)
        rw [between_congr hr hend hle1 hle2]

/-- **third parties.**  The rewards the `delegationRewards` view reports for a delegator that is not a party of the
transfer are the same before and after the transfer (same height, nothing else in between). -/
theorem transfer_third_party {c : Cfg} (hg : good c = true) {n : Nat} {v v' : VS} (hi : VInv n v) {h f t X rf rt : Nat}
    {recv : Bool} (hf : f < n) (htn : t < n) (hne : f ≠ t) (ht : VS.transfer c v h f t X recv = .ok (v', rf, rt))
    {d : Nat} (hdf : d ≠ f) (hdt : d ≠ t) (hq : Nat) : v'.pendingRewards hq d = v.pendingRewards hq d := by
  obtain ⟨fsh, _, hP, hcur, hrat, _, _, hoth, hold, hsl, hratP⟩ := transfer_shape hg hi hf htn hne ht
  obtain ⟨_, _, _, _, htok', hsh', hdel'⟩ := transfer_del hg hne ht
  have hi' : VInv n v' := by
    rcases transfer_total hg hi (h := h) (f := f) (t := t) (X := X) (recv := recv) hf htn with ⟨e, he, _⟩ | ⟨v2, a, b, hr, hv2⟩
    · rw [he] at ht; cases ht
    · rw [hr] at ht; cases ht; exact hv2
  have hdeld : v'.del d = v.del d := by rw [hdel']; simp [setAt, hdf, hdt]
  unfold VS.pendingRewards
  rw [hdeld]
  cases hd : v.del d with
  | none => rfl
  | some sh =>
    dsimp only
    have hdn : d < n := by
      by_cases hlt : d < n
      · exact hlt
      · have := hi.sum.2 d (by omega)
        rw [hd] at this; cases this
    obtain ⟨si, hs⟩ := Dom_sinfo_some hi.dom hd
    obtain ⟨v1, h1, i1, f1, p1, s1, e1, sf1⟩ := incPeriod_total hi.ri v.tokens
    obtain ⟨w1, g1, j1, k1, q1, t1, u1, sg1⟩ := incPeriod_total hi'.ri v'.tokens
    rw [h1, g1]
    dsimp only
    obtain ⟨_, rv, _, _⟩ := incPeriod_shape h1
    obtain ⟨_, rw1, _, _⟩ := incPeriod_shape g1
    have hsv : v1.sinfo d = some si := by rw [s1]; exact hs
    have hsw : w1.sinfo d = some si := by rw [t1, hoth d hdf hdt]; exact hs
    have hsp := hi.ri.sper d si hs
    -- ratios of referenced old periods agree
    have hold1 : ∀ x, x < v.period → v1.refs x ≠ 0 → w1.refs x ≠ 0 → w1.ratioAt x = v1.ratioAt x := by
      intro x hx a b
      unfold VS.ratioAt
      rw [if_neg a, if_neg b, rv, rw1]
      have n1 : x ≠ v.period := by omega
      have n2 : x ≠ v'.period := by omega
      simp only [setAt, n1, n2, if_false]
      exact hold x hx
    have hcong : w1.calcRewards hq d sh v'.period = v1.calcRewards hq d sh v.period := by
      apply calcRewards_congr hsw hsv
      · rw [e1, u1, hsl]
      · simp only [VS.tokensFromShares, sf1.2.1, sf1.2.2, sg1.2.1, sg1.2.2, htok', hsh']
      · exact hold1 si.period (by omega) (i1.refs_info_pos hdn hsv) (j1.refs_info_pos hdn hsw)
      · intro e he
        have hev : e ∈ v.slashes := by rw [u1, hsl] at he; exact he
        have := hi.ri.eper e hev
        exact hold1 e.period (by omega) (i1.refs_slash_pos (by rw [e1]; exact hev)) (j1.refs_slash_pos he)
      · -- the two ending records
        have ew : w1.period - 1 = v'.period := by omega
        have ev : v1.period - 1 = v.period := by omega
        rw [ew] at k1
        rw [ev] at f1
        unfold VS.ratioAt
        rw [if_neg (by rw [k1]; omega), if_neg (by rw [f1]; omega), rw1, rv]
        simp only [setAt, if_true]
        rw [curRatio_zero hcur, Nat.add_zero]
        unfold VS.ratioAt
        rw [if_neg hi'.ri.refs_cur_pos]
        have : v'.period - 1 = v.period + 1 := by omega
        rw [this, ← hrat, hratP]
        rfl
      · refine ⟨by omega, ?_⟩
        intro e he
        have hev : e ∈ v.slashes := by rw [u1, hsl] at he; exact he
        have := hi.ri.eper e hev
        omega
      · refine ⟨by omega, ?_⟩
        intro e he
        have hev : e ∈ v.slashes := by rw [u1, hsl] at he; exact he
        have := hi.ri.eper e hev
        omega
    rw [hcong]

end FxVerif.Proofs.C11
