import FxVerif.Proofs.C11Exact
import FxVerif.Proofs.C11Fresh
/-!
# C11 — the closed form of the stake sanity check, connected to the model's own step functions (core Lean only)

`Proofs/C11Exact.lean` proves the closed form over an ABSTRACT chain of slashes (`SlashChain`).  Here it is connected to
the functions `State.exec` runs:

* `TightV v`: for every delegator, the stake the slash loop of `CalculateDelegationRewards` recomputes from its starting
  info over ALL slash events that are not older than the starting info is at most the exact token worth of its shares
  (`stake · shares_total ≤ shares · tokens · 10¹⁸`);
* `tight_no_sanity`: `TightV` (+ nothing is stamped with a future height) ⇒ `sanityFires` is false for every delegator;
* `slash_keeps_tight`: the model's `VS.slash` (hook, period bookkeeping, event appended, tokens burnt) preserves `TightV`
  whenever the fraction it records is exact (`slashExact burn tokens`, see `slash_fraction_closed_form`);
* `transfer_keeps_tight`: a successful `VS.transfer` through the interpreted `cfg.prog` preserves `TightV` — the two
  hand-written starting infos are tight, everybody else's is untouched;
* `withdrawMsg_keeps_tight`, `alloc_keeps_tight`: so do reward withdrawals (re-initialisation) and allocations;
* `delegate_keeps_tight`: so does staking `Delegate` (the shares issued for the new tokens are truncated, which does not
  lower the worth of anybody else's shares: `tight_grow`; the delegator itself is re-initialised);
* `tight_steps_invariant`: induction over ANY chain of these steps.

What is NOT preserved in general (and why no invariant over all of `State.run` exists): `Undelegate` / `BeginRedelegation`
hand out `TokensFromShares(shares)` ROUNDED (banker's), which can lower the token worth of the remaining shares by less
than 10⁻¹⁸ relative.
-/
namespace FxVerif.Model.C11

/-- period and stake the slash loop ends with -/
def loopEnd : List SlashEv → Nat → Nat → Nat × Nat
  | [], sp, st => (sp, st)
  | e :: es, sp, st => if sp < e.period then loopEnd es e.period (dMulTrunc st (ONE - e.fraction)) else loopEnd es sp st

/-- the slash events that are not older than a starting info -/
def VS.since (v : VS) (si : SInfo) : List SlashEv := v.slashes.filter (fun e => decide (si.height ≤ e.height))

/-- every delegator's recomputed stake is at most the exact token worth of its shares -/
def TightV (v : VS) : Prop :=
  ∀ d si sh, v.sinfo d = some si → v.del d = some sh →
    stakeAfter (v.since si) si.period si.stake * v.shares ≤ sh * v.tokens * ONE

/-- no slash event and no starting info is stamped with a height after `h` -/
def NotFuture (v : VS) (h : Nat) : Prop :=
  (∀ e, e ∈ v.slashes → e.height ≤ h) ∧ (∀ d si, v.sinfo d = some si → si.height ≤ h)

end FxVerif.Model.C11

namespace FxVerif.Proofs.C11
open FxVerif.Model.C11 FxVerif.Gen.C11

theorem stakeAfter_loopEnd : ∀ (evs : List SlashEv) (sp st : Nat), stakeAfter evs sp st = (loopEnd evs sp st).2 := by
  intro evs
  induction evs with
  | nil => intro sp st; rfl
  | cons e es ih =>
    intro sp st
    unfold stakeAfter loopEnd
    split
    · exact ih _ _
    · exact ih _ _

theorem loopEnd_append (e : SlashEv) : ∀ (l : List SlashEv) (sp st : Nat),
    loopEnd (l ++ [e]) sp st =
      (if (loopEnd l sp st).1 < e.period then (e.period, dMulTrunc (loopEnd l sp st).2 (ONE - e.fraction)) else loopEnd l sp st) := by
  intro l
  induction l with
  | nil =>
    intro sp st
    show loopEnd [e] sp st = _
    unfold loopEnd
    split <;> rfl
  | cons x xs ih =>
    intro sp st
    show loopEnd (x :: (xs ++ [e])) sp st = _
    unfold loopEnd
    split
    · rw [ih]
    · rw [ih]

theorem loopEnd_sp_le {B : Nat} : ∀ (l : List SlashEv) (sp st : Nat), (∀ e, e ∈ l → e.period ≤ B) → sp ≤ B →
    (loopEnd l sp st).1 ≤ B := by
  intro l
  induction l with
  | nil => intro sp st _ h; exact h
  | cons x xs ih =>
    intro sp st hl h
    unfold loopEnd
    have hx := hl x (List.mem_cons_self ..)
    have hxs : ∀ e, e ∈ xs → e.period ≤ B := fun e he => hl e (List.mem_cons_of_mem _ he)
    split
    · exact ih _ _ hxs hx
    · exact ih _ _ hxs h

/-- events of periods not after the starting period are skipped -/
theorem stakeAfter_skip : ∀ (l : List SlashEv) (sp st : Nat), (∀ e, e ∈ l → e.period ≤ sp) → stakeAfter l sp st = st := by
  intro l
  induction l with
  | nil => intro sp st _; rfl
  | cons x xs ih =>
    intro sp st hl
    unfold stakeAfter
    have hx := hl x (List.mem_cons_self ..)
    rw [if_neg (by omega)]
    exact ih _ _ (fun e he => hl e (List.mem_cons_of_mem _ he))

theorem filter_eq_of_forall {α} (p q : α → Bool) : ∀ (l : List α), (∀ x, x ∈ l → p x = q x) → l.filter p = l.filter q := by
  intro l
  induction l with
  | nil => intro _; rfl
  | cons x xs ih =>
    intro h
    have hx := h x (List.mem_cons_self ..)
    have hxs := ih (fun y hy => h y (List.mem_cons_of_mem _ hy))
    simp only [List.filter, hx, hxs]

/-- **tight_no_sanity.**  With tight stakes the SDK's stake sanity check cannot fire (at any height that is not before a
recorded event or starting info) -/
theorem tight_no_sanity {v : VS} {h : Nat} (ht : TightV v) (hn : NotFuture v h) (hS : 0 < v.shares) (d : Nat) :
    v.sanityFires h d = false := by
  unfold VS.sanityFires
  cases hs : v.sinfo d with
  | none => rfl
  | some si =>
    cases hd : v.del d with
    | none => rfl
    | some sh =>
      dsimp only
      by_cases hh : si.height = h
      · simp [hh]
      · have hlt : si.height < h := by have := hn.2 d si hs; omega
        have hw : v.window si h = v.since si := by
          unfold VS.window VS.since
          rw [if_pos hlt]
          apply filter_eq_of_forall
          intro e he
          have := hn.1 e he
          simp [this]
        have hle := tight_le_tfs hS (ht d si sh hs hd)
        rw [hw]
        have : ¬ (v.tokensFromShares sh + 3 < stakeAfter (v.since si) si.period si.stake) := by omega
        simp [this]

/-- what the distribution hook of a slash does under the bookkeeping invariant: the period is ended and the event is
appended with the period just ended; delegations, starting infos, tokens and shares stay -/
theorem slashHook_shape {n : Nat} {v : VS} (hi : RI n v) (h eff : Nat) :
    (v.slashHook h eff).slashes = v.slashes ++ [⟨h, v.period, eff⟩] ∧ (v.slashHook h eff).sinfo = v.sinfo ∧
    SF v (v.slashHook h eff) := by
  refine ⟨?_, (slashHook_RI hi h eff).2, slashHook_SF v h eff⟩
  obtain ⟨v1, h1, i1, f1, p1, s1, e1, sf1⟩ := incPeriod_total hi v.tokens
  unfold VS.slashHook
  rw [h1]
  dsimp only
  unfold VS.incRef
  have pe : v.period = v1.period - 1 := by omega
  rw [pe, if_neg (by omega)]
  dsimp only
  rw [e1]

theorem mem_since {v : VS} {si : SInfo} {e : SlashEv} (h : e ∈ v.since si) : e ∈ v.slashes := by
  unfold VS.since at h
  exact (List.mem_filter.mp h).1

/-- a record that differs from `v` by one appended slash event of the period just ended, recorded with the exact
fraction of a burn, and by the burnt tokens keeps every stake tight -/
theorem appended_slash_tight {n : Nat} {v W : VS} (hi : RI n v) {h burn : Nat} (ht : TightV v) (hn : NotFuture v h)
    (hbT : burn ≤ v.tokens) (hx : slashExact burn v.tokens = true)
    (hsl : W.slashes = v.slashes ++ [⟨h, v.period, effFraction burn v.tokens⟩]) (hsi : W.sinfo = v.sinfo)
    (hdel : W.del = v.del) (hsh : W.shares = v.shares) (htok : W.tokens = v.tokens - burn) :
    TightV W ∧ NotFuture W h := by
  constructor
  · intro d si sh hs hd
    have hs' : v.sinfo d = some si := by rw [← hsi]; exact hs
    have hd' : v.del d = some sh := by rw [← hdel]; exact hd
    have hle : si.height ≤ h := hn.2 d si hs'
    have hsince : W.since si = v.since si ++ [⟨h, v.period, effFraction burn v.tokens⟩] := by
      unfold VS.since
      rw [hsl, List.filter_append]
      simp [List.filter, hle]
    rw [hsince, hsh, htok, stakeAfter_loopEnd, loopEnd_append]
    have hsp : (loopEnd (v.since si) si.period si.stake).1 ≤ v.period - 1 :=
      loopEnd_sp_le _ _ _ (fun e he => by have := hi.eper e (mem_since he); omega) (by have := hi.sper d si hs'; omega)
    have hper := hi.per
    have hlt : (loopEnd (v.since si) si.period si.stake).1 < v.period := by omega
    rw [if_pos hlt]
    show dMulTrunc (loopEnd (v.since si) si.period si.stake).2 (ONE - effFraction burn v.tokens) * v.shares ≤ _
    rw [← stakeAfter_loopEnd]
    exact tight_slash hbT hx (ht d si sh hs' hd')
  · constructor
    · intro e he
      rw [hsl] at he
      rcases List.mem_append.mp he with h1 | h1
      · exact hn.1 e h1
      · have : e = ⟨h, v.period, effFraction burn v.tokens⟩ := by simpa using h1
        rw [this]; exact Nat.le_refl _
    · intro d si hs
      rw [hsi] at hs
      exact hn.2 d si hs

/-- **slash_keeps_tight.**  The model's `VS.slash` at height `h` keeps every delegator's stake tight, provided the
fraction it records for its burn is exact -/
theorem slash_keeps_tight {n : Nat} {v : VS} (hi : RI n v) {h power factor : Nat} (ht : TightV v) (hn : NotFuture v h)
    (hx : slashExact (min (dMul (power * POWER_REDUCTION * ONE) factor / ONE) v.tokens) v.tokens = true) :
    TightV (v.slash h power factor) ∧ NotFuture (v.slash h power factor) h := by
  unfold VS.slash
  dsimp only
  generalize hb : min (dMul (power * POWER_REDUCTION * ONE) factor / ONE) v.tokens = burn at hx
  have hbT : burn ≤ v.tokens := by rw [← hb]; exact Nat.min_le_right _ _
  by_cases h0 : burn = 0
  · rw [if_pos h0]; exact ⟨ht, hn⟩
  · rw [if_neg h0]
    have heff : min ONE (dQuoRoundUp (burn * ONE) (v.tokens * ONE)) = effFraction burn v.tokens := rfl
    rw [heff]
    obtain ⟨hsl, hsi, hdel, htok, hsh⟩ := slashHook_shape hi h (effFraction burn v.tokens)
    exact appended_slash_tight hi ht hn hbT hx hsl hsi hdel hsh (by show _ - burn = _; rw [htok])

/-- events recorded up to now lie in periods not after a starting info written now -/
theorem since_skip {n : Nat} {v : VS} (hi : RI n v) {si : SInfo} (hp : v.period ≤ si.period + 1) (st : Nat) :
    stakeAfter (v.since si) si.period st = st :=
  stakeAfter_skip _ _ _ (fun e he => by have := hi.eper e (mem_since he); omega)

/-- tightness only reads starting infos, delegations, slash events, tokens and total shares -/
theorem tight_congr {v w : VS} {h : Nat} (hs : w.sinfo = v.sinfo) (hd : w.del = v.del) (hl : w.slashes = v.slashes)
    (htk : w.tokens = v.tokens) (hsh : w.shares = v.shares) (ht : TightV v) (hn : NotFuture v h) :
    TightV w ∧ NotFuture w h := by
  constructor
  · intro d si sh h1 h2
    rw [hs] at h1
    rw [hd] at h2
    have e : w.since si = v.since si := by unfold VS.since; rw [hl]
    rw [e, htk, hsh]
    exact ht d si sh h1 h2
  · constructor
    · intro e he; rw [hl] at he; exact hn.1 e he
    · intro d si h1; rw [hs] at h1; exact hn.2 d si h1

/-- **alloc_keeps_tight.**  A reward allocation touches none of it -/
theorem alloc_keeps_tight {v : VS} (amt : Nat) {h : Nat} (ht : TightV v) (hn : NotFuture v h) :
    TightV (v.alloc amt) ∧ NotFuture (v.alloc amt) h := by
  obtain ⟨_, _, _, a4, a5, a6⟩ := alloc_fields v amt
  obtain ⟨_, b2, b3⟩ := alloc_SF v amt
  exact tight_congr a4 a6 a5 b2 b3 ht hn

/-- **withdrawMsg_keeps_tight.**  A reward withdrawal (keeper `WithdrawDelegationRewards`: withdraw + re-initialise) at
height `h` keeps every stake tight: the delegator restarts with `TokensFromSharesTruncated(shares)` -/
theorem withdrawMsg_keeps_tight {n : Nat} {v v' : VS} (hi : RI n v) (hD : Dom v) {h d c : Nat} (hd : d < n)
    (hw : v.withdrawMsg h d = .ok (v', c)) (ht : TightV v) (hn : NotFuture v h) : TightV v' ∧ NotFuture v' h := by
  obtain ⟨sh0, hdel, _, hper, _, _, hsinfo, _, hsf⟩ := withdrawMsg_shape hi hD hd hw
  have hsl : v'.slashes = v.slashes := withdrawMsg_slashes hw
  obtain ⟨fdel, ftok, fsh⟩ := hsf
  constructor
  · intro e si sh hs hde
    rw [fdel] at hde
    rw [ftok, fsh]
    by_cases hed : e = d
    · subst hed
      rw [hsinfo] at hs
      simp only [setAt, if_true] at hs
      cases hs
      rw [hdel] at hde; cases hde
      have hskip : stakeAfter (v'.since ⟨v.period, v.tokensFromSharesTrunc sh0, h⟩) v.period (v.tokensFromSharesTrunc sh0) =
          v.tokensFromSharesTrunc sh0 := by
        apply stakeAfter_skip
        intro ev hev
        have hm : ev ∈ v.slashes := by rw [← hsl]; exact mem_since hev
        have := hi.eper ev hm
        show ev.period ≤ v.period
        omega
      rw [hskip]
      exact tfsTrunc_tight v sh0
    · rw [hsinfo] at hs
      simp only [setAt, hed, if_false] at hs
      have hsince : v'.since si = v.since si := by unfold VS.since; rw [hsl]
      rw [hsince]
      exact ht e si sh hs hde
  · constructor
    · intro e he; rw [hsl] at he; exact hn.1 e he
    · intro e si hs
      rw [hsinfo] at hs
      by_cases hed : e = d
      · subst hed
        simp only [setAt, if_true] at hs
        cases hs
        exact Nat.le_refl _
      · simp only [setAt, hed, if_false] at hs
        exact hn.2 e si hs

/-- **transfer_keeps_tight.**  A successful transfer between different accounts through the interpreted body of
`handlerTransferShares` keeps every stake tight: the two hand-written starting infos carry
`TokensFromSharesTruncated(new shares)` stamped with the current height, nobody else's record is touched, tokens, total
shares and slash events stay -/
theorem transfer_keeps_tight {c : Cfg} (hg : good c = true) {n : Nat} {v v' : VS} (hi : VInv n v) {h f t X rf rt : Nat}
    {recv : Bool} (hf : f < n) (htn : t < n) (hne : f ≠ t) (hx : VS.transfer c v h f t X recv = .ok (v', rf, rt))
    (ht : TightV v) (hn : NotFuture v h) : TightV v' ∧ NotFuture v' h := by
  obtain ⟨fsh, hdf, hper, _, _, hst, hsf, hso, _, hsl, _⟩ := transfer_shape hg hi hf htn hne hx
  obtain ⟨fsh', hdf', _, _, htok, hsh, hdel⟩ := transfer_del hg hne hx
  rw [hdf] at hdf'; cases hdf'
  have eper' : ∀ ev, ev ∈ v'.slashes → ev.period + 1 ≤ v.period := by
    intro ev hev; rw [hsl] at hev; exact hi.ri.eper ev hev
  have tight_new : ∀ (p sh : Nat), v.period ≤ p →
      stakeAfter (v'.since ⟨p, v'.tokensFromSharesTrunc sh, h⟩) p (v'.tokensFromSharesTrunc sh) * v'.shares ≤ sh * v'.tokens * ONE := by
    intro p sh hp
    have hskip : stakeAfter (v'.since ⟨p, v'.tokensFromSharesTrunc sh, h⟩) p (v'.tokensFromSharesTrunc sh) =
        v'.tokensFromSharesTrunc sh := by
      apply stakeAfter_skip
      intro ev hev
      have := eper' ev (mem_since hev)
      omega
    rw [hskip]
    exact tfsTrunc_tight v' sh
  constructor
  · intro d si sh hs hd
    by_cases hdt : d = t
    · subst hdt
      rw [hst] at hs; cases hs
      rw [hdel] at hd
      simp only [setAt, if_true] at hd
      cases hd
      exact tight_new _ _ (by omega)
    · by_cases hdf2 : d = f
      · subst hdf2
        rw [hsf] at hs
        rw [hdel] at hd
        simp only [setAt, hdt, if_false, if_true] at hd
        split at hs
        · cases hs
        · cases hs
          rename_i hz
          rw [if_neg hz] at hd
          cases hd
          exact tight_new _ _ (Nat.le_refl _)
      · rw [hso d hdf2 hdt] at hs
        rw [hdel] at hd
        simp only [setAt, hdt, hdf2, if_false] at hd
        have hsince : v'.since si = v.since si := by unfold VS.since; rw [hsl]
        rw [hsince, htok, hsh]
        exact ht d si sh hs hd
  · constructor
    · intro e he; rw [hsl] at he; exact hn.1 e he
    · intro d si hs
      by_cases hdt : d = t
      · subst hdt; rw [hst] at hs; cases hs; exact Nat.le_refl _
      · by_cases hdf2 : d = f
        · subst hdf2
          rw [hsf] at hs
          split at hs
          · cases hs
          · cases hs; exact Nat.le_refl _
        · rw [hso d hdf2 hdt] at hs
          exact hn.2 d si hs

theorem delegatePre_slashes_period {v v1 : VS} {h d c : Nat} (hp : v.delegatePre h d = .ok (v1, c)) :
    v1.slashes = v.slashes ∧ v1.period = v.period + 1 := by
  unfold VS.delegatePre at hp
  split at hp
  · obtain ⟨sh, si, w1, raw, v3, _, _, h1, _, h3, ev, _⟩ := withdrawRewards_ok hp
    obtain ⟨_, ev3⟩ := decRef_ok h3
    have a : v1.slashes = w1.slashes := by rw [ev, ev3]; rfl
    have b : v1.period = w1.period := by rw [ev, ev3]; rfl
    rw [a, b]
    exact ⟨incPeriod_slashes h1, (incPeriod_shape h1).2.2.1⟩
  · split at hp
    · cases hp
    · rename_i w1 e h1
      cases hp
      exact ⟨incPeriod_slashes h1, (incPeriod_shape h1).2.2.1⟩

/-- what staking `Delegate` (hooks included) does to the records tightness reads -/
theorem delegate_shape {n : Nat} {v v' : VS} {h d amt c : Nat} (hd : d < n) (hi : VInv n v)
    (hx : v.delegate h d amt = .ok (v', c)) :
    ∃ p newSh, v.period ≤ p ∧ v'.sinfo = setAt v.sinfo d (some ⟨p, v'.tokensFromSharesTrunc newSh, h⟩) ∧
      v'.del = setAt v.del d (some newSh) ∧ v'.tokens = v.tokens + amt ∧
      v'.shares = v.shares + (if v.shares = 0 then amt * ONE else v.sharesFromTokens amt) ∧ v'.slashes = v.slashes := by
  unfold VS.delegate at hx
  split at hx
  · cases hx
  · obtain ⟨r, hpre, hx⟩ := bind_ok hx
    obtain ⟨v3, h3, hx⟩ := bind_ok hx
    obtain ⟨v1, c1⟩ := r
    cases hx
    obtain ⟨hsl1, hper1⟩ := delegatePre_slashes_period hpre
    rcases delegatePre_total hi.ri hi.dom (h := h) hd with hE | ⟨v1', c', hw, i1, s1, f1, sf1⟩
    · rw [hE] at hpre; cases hpre
    · rw [hw] at hpre
      cases hpre
      have iI : RI n (v1.issue d amt) := RI.congr (v := v1) rfl rfl rfl rfl rfl i1
      have hdelI : (v1.issue d amt).del d = some ((v1.del d).getD 0 +
          (if v1.shares = 0 then amt * ONE else v1.sharesFromTokens amt)) := by
        simp [VS.issue, setAt]
      have hsI : (v1.issue d amt).sinfo d = none := by
        show v1.sinfo d = none
        rw [s1]; simp [setAt]
      obtain ⟨v3', h3', i3, s3, p3, l3, sf3⟩ := initDelegation_total iI (h := h) hd hdelI hsI f1
      rw [h3'] at h3
      cases h3
      obtain ⟨fd, ft, fs⟩ := sf3
      obtain ⟨gd, gt, gs⟩ := sf1
      have htok : v'.tokens = v.tokens + amt := by rw [ft]; show v1.tokens + amt = _; rw [gt]
      have hshr : v'.shares = v.shares + (if v.shares = 0 then amt * ONE else v.sharesFromTokens amt) := by
        rw [fs]
        show v1.shares + (if v1.shares = 0 then amt * ONE else v1.sharesFromTokens amt) = _
        unfold VS.sharesFromTokens
        rw [gs, gt]
      refine ⟨(v1.issue d amt).period - 1, (v1.del d).getD 0 + (if v1.shares = 0 then amt * ONE else v1.sharesFromTokens amt),
        ?_, ?_, ?_, htok, hshr, ?_⟩
      · show v.period ≤ v1.period - 1
        omega
      · rw [s3]
        show setAt v1.sinfo d _ = _
        rw [s1, setAt_setAt]
        have e : (v1.issue d amt).tokensFromSharesTrunc = v'.tokensFromSharesTrunc := by
          funext x; unfold VS.tokensFromSharesTrunc; rw [ft, fs]
        rw [e]
      · rw [fd]
        show setAt v1.del d _ = _
        rw [gd]
      · rw [l3]; show v1.slashes = _; exact hsl1

/-- issuing truncated shares for new tokens does not lower the worth of the existing shares -/
theorem tight_grow {st S sh T amt : Nat} (hT : 0 < T) (ht : st * S ≤ sh * T * ONE) :
    st * (S + S * amt / T) ≤ sh * (T + amt) * ONE := by
  have hq : S * amt / T * T ≤ S * amt := Nat.div_mul_le_self _ _
  have h1 : st * (S * amt / T) * T ≤ sh * amt * ONE * T := by
    calc st * (S * amt / T) * T = st * (S * amt / T * T) := Nat.mul_assoc _ _ _
      _ ≤ st * (S * amt) := Nat.mul_le_mul_left _ hq
      _ = st * S * amt := (Nat.mul_assoc _ _ _).symm
      _ ≤ sh * T * ONE * amt := Nat.mul_le_mul_right _ ht
      _ = sh * amt * ONE * T := by
        rw [Nat.mul_right_comm (sh * T) ONE amt, Nat.mul_right_comm sh T amt, Nat.mul_right_comm (sh * amt) T ONE]
  have h2 := Nat.le_of_mul_le_mul_right h1 hT
  rw [Nat.mul_add, Nat.mul_add, Nat.add_mul]
  exact Nat.add_le_add ht h2

/-- **delegate_keeps_tight.**  Staking `Delegate` (hooks included) keeps every stake tight: the delegator restarts with the
truncated worth of its new shares, and the truncated number of shares issued for the new tokens does not lower the worth
of anybody else's shares -/
theorem delegate_keeps_tight {n : Nat} {v v' : VS} {h d amt c : Nat} (hd : d < n) (hi : VInv n v) (hT : 0 < v.tokens)
    (hS : 0 < v.shares) (hx : v.delegate h d amt = .ok (v', c)) (ht : TightV v) (hn : NotFuture v h) :
    TightV v' ∧ NotFuture v' h := by
  obtain ⟨p, newSh, hp, hsinfo, hdel, htok, hshr, hsl⟩ := delegate_shape hd hi hx
  rw [if_neg (by omega)] at hshr
  constructor
  · intro e si sh hs hde
    by_cases hed : e = d
    · subst hed
      rw [hsinfo] at hs; simp only [setAt, if_true] at hs; cases hs
      rw [hdel] at hde; simp only [setAt, if_true] at hde; cases hde
      have hskip : stakeAfter (v'.since ⟨p, v'.tokensFromSharesTrunc newSh, h⟩) p (v'.tokensFromSharesTrunc newSh) =
          v'.tokensFromSharesTrunc newSh := by
        apply stakeAfter_skip
        intro ev hev
        have hm : ev ∈ v.slashes := by rw [← hsl]; exact mem_since hev
        have := hi.ri.eper ev hm
        show ev.period ≤ p
        omega
      rw [hskip]
      exact tfsTrunc_tight v' newSh
    · rw [hsinfo] at hs; simp only [setAt, hed, if_false] at hs
      rw [hdel] at hde; simp only [setAt, hed, if_false] at hde
      have hsince : v'.since si = v.since si := by unfold VS.since; rw [hsl]
      rw [hsince, htok, hshr]
      unfold VS.sharesFromTokens
      exact tight_grow hT (ht e si sh hs hde)
  · constructor
    · intro e he; rw [hsl] at he; exact hn.1 e he
    · intro e si hs
      rw [hsinfo] at hs
      by_cases hed : e = d
      · subst hed
        simp only [setAt, if_true] at hs
        cases hs
        exact Nat.le_refl _
      · simp only [setAt, hed, if_false] at hs
        exact hn.2 e si hs

theorem NotFuture.mono {v : VS} {h h' : Nat} (hn : NotFuture v h) (hle : h ≤ h') : NotFuture v h' :=
  ⟨fun e he => Nat.le_trans (hn.1 e he) hle, fun d si hs => Nat.le_trans (hn.2 d si hs) hle⟩

/-- the record of a genesis validator (self-delegation only) is tight -/
theorem genesis_tight (op tokens rate h : Nat) : TightV (genesisVS op tokens rate) ∧ NotFuture (genesisVS op tokens rate) h := by
  constructor
  · intro d si sh hs hd
    have hs' : (setAt (fun _ => none) op (some (⟨1, tokens * ONE, 0⟩ : SInfo))) d = some si := hs
    have hd' : (setAt (fun _ => none) op (some (tokens * ONE))) d = some sh := hd
    by_cases e : d = op
    · simp only [setAt, e, if_true] at hs' hd'
      cases hs'; cases hd'
      show stakeAfter (List.filter _ []) 1 (tokens * ONE) * (tokens * ONE) ≤ tokens * ONE * tokens * ONE
      show tokens * ONE * (tokens * ONE) ≤ tokens * ONE * tokens * ONE
      rw [Nat.mul_assoc (tokens * ONE)]
      exact Nat.le_refl _
    · simp only [setAt, e, if_false] at hs'
      cases hs'
  · constructor
    · intro e he; cases he
    · intro d si hs
      have hs' : (setAt (fun _ => none) op (some (⟨1, tokens * ONE, 0⟩ : SInfo))) d = some si := hs
      by_cases e : d = op
      · simp only [setAt, e, if_true] at hs'
        cases hs'; exact Nat.zero_le _
      · simp only [setAt, e, if_false] at hs'
        cases hs'

end FxVerif.Proofs.C11

namespace FxVerif.Model.C11
open FxVerif.Gen.C11 (Cfg)

/-- the steps of the model that keep stakes tight, chained: from record `v` at height `h` to record `v'` at height `h'`
through ANY number of — a slash by the model's `VS.slash` whose recorded fraction is exact, a reward allocation
(`VS.alloc`), a successful reward withdrawal (`VS.withdrawMsg`), a successful share transfer between two accounts through
the interpreted `cfg.prog` (`VS.transfer c`), a successful staking `Delegate` (hooks included) at a validator with tokens and shares, the passing of
blocks (status changes) -/
inductive TightSteps (c : Cfg) (n : Nat) : VS → Nat → VS → Nat → Prop
  | refl (v : VS) (h : Nat) : TightSteps c n v h v h
  | slash {v v' : VS} {h h' : Nat} (power factor : Nat) :
      slashExact (min (dMul (power * POWER_REDUCTION * ONE) factor / ONE) v.tokens) v.tokens = true →
      TightSteps c n (v.slash h power factor) h v' h' → TightSteps c n v h v' h'
  | alloc {v v' : VS} {h h' : Nat} (amt : Nat) : TightSteps c n (v.alloc amt) h v' h' → TightSteps c n v h v' h'
  | withdraw {v v1 v' : VS} {h h' : Nat} (d r : Nat) : d < n → v.withdrawMsg h d = .ok (v1, r) →
      TightSteps c n v1 h v' h' → TightSteps c n v h v' h'
  | transfer {v v1 v' : VS} {h h' : Nat} (f t X rf rt : Nat) (recv : Bool) : f < n → t < n → f ≠ t →
      VS.transfer c v h f t X recv = .ok (v1, rf, rt) → TightSteps c n v1 h v' h' → TightSteps c n v h v' h'
  | delegate {v v1 v' : VS} {h h' : Nat} (d amt r : Nat) : d < n → 0 < v.tokens → 0 < v.shares →
      v.delegate h d amt = .ok (v1, r) → TightSteps c n v1 h v' h' → TightSteps c n v h v' h'
  | blocks {v v' : VS} {h h' : Nat} (k : Nat) (b ub j : Bool) (u : Nat) :
      TightSteps c n { v with bonded := b, unbonded := ub, ubHeight := u, jailed := j } (h + k) v' h' → TightSteps c n v h v' h'

end FxVerif.Model.C11

namespace FxVerif.Proofs.C11
open FxVerif.Model.C11 FxVerif.Gen.C11

/-- **tight_steps_invariant.**  Along any chain of such steps the bookkeeping invariant and the tightness of every
delegator's stake are preserved -/
theorem tight_steps_invariant {c : Cfg} (hg : good c = true) {n : Nat} {v v' : VS} {h h' : Nat}
    (hs : TightSteps c n v h v' h') : VInv n v → TightV v → NotFuture v h → VInv n v' ∧ TightV v' ∧ NotFuture v' h' := by
  induction hs with
  | refl v h => intro hi ht hn; exact ⟨hi, ht, hn⟩
  | slash power factor hx _ ih =>
    intro hi ht hn
    obtain ⟨a, b⟩ := slash_keeps_tight hi.ri ht hn hx
    exact ih (slash_VInv _ power factor hi) a b
  | alloc amt _ ih =>
    intro hi ht hn
    obtain ⟨a, b⟩ := alloc_keeps_tight amt ht hn
    exact ih (alloc_VInv amt hi) a b
  | withdraw d r hd hw _ ih =>
    intro hi ht hn
    obtain ⟨a, b⟩ := withdrawMsg_keeps_tight hi.ri hi.dom hd hw ht hn
    exact ih (withdrawMsg_VInv hd hw hi) a b
  | @transfer v0 v1 _ h0 _ f t X rf rt recv hf htn hne hx _ ih =>
    intro hi ht hn
    obtain ⟨a, b⟩ := transfer_keeps_tight hg hi hf htn hne hx ht hn
    have hv : VInv n v1 := by
      rcases transfer_total hg hi (h := h0) (f := f) (t := t) (X := X) (recv := recv) hf htn with ⟨e, he, _⟩ | ⟨v2, _, _, hr, hv2⟩
      · rw [he] at hx; cases hx
      · rw [hr] at hx; cases hx; exact hv2
    exact ih hv a b
  | delegate d amt r hd hT hS hx _ ih =>
    intro hi ht hn
    obtain ⟨a, b⟩ := delegate_keeps_tight hd hi hT hS hx ht hn
    exact ih (delegate_VInv hd hx hi) a b
  | @blocks v0 _ h0 _ k b ub j u _ ih =>
    intro hi ht hn
    obtain ⟨a, b'⟩ := tight_congr (v := v0) (w := { v0 with bonded := b, unbonded := ub, ubHeight := u, jailed := j })
      rfl rfl rfl rfl rfl ht hn
    exact ih (status_VInv b ub j u hi) a (NotFuture.mono b' (Nat.le_add_right _ _))

end FxVerif.Proofs.C11
