import FxVerif.Proofs.C05
/-!
The pool is kept in descending store-key order by every operation (`contract ‖ fee ‖ id`, the order
`IterateUnbatchedTransactions` walks it in), and what batch selection takes from such a pool is fee-optimal.
-/
namespace FxVerif.Proofs.C05
open FxVerif.Gen.C05 FxVerif.Model.C05 List

/-! ## the key order -/

theorem keyLt_iff (a b : Tx) :
    keyLt a b = true ↔ (a.token < b.token ∨ (a.token = b.token ∧ (a.fee < b.fee ∨ (a.fee = b.fee ∧ a.id < b.id)))) := by
  simp [keyLt]

theorem keyLt_false_iff (a b : Tx) :
    keyLt a b = false ↔ (b.token < a.token ∨ (a.token = b.token ∧ (b.fee < a.fee ∨ (a.fee = b.fee ∧ b.id ≤ a.id)))) := by
  rw [← Bool.not_eq_true, keyLt_iff]
  omega

/-- descending store-key order (= iteration order of the reverse iterator) -/
def PoolSorted (l : List Tx) : Prop := l.Pairwise (fun a b => keyLt a b = false)

theorem mem_insertDesc {x z : Tx} {l : List Tx} (h : z ∈ insertDesc x l) : z = x ∨ z ∈ l := by
  have := (insertDesc_perm x l).mem_iff.mp h
  simpa using this

theorem insertDesc_sorted (x : Tx) {l : List Tx} (hs : PoolSorted l) : PoolSorted (insertDesc x l) := by
  induction l with
  | nil => simp [insertDesc, PoolSorted]
  | cons y ys ih =>
    unfold PoolSorted at hs ih ⊢
    rw [pairwise_cons] at hs
    unfold insertDesc
    split
    · rename_i hyx
      rw [pairwise_cons]
      refine ⟨fun z hz => ?_, pairwise_cons.mpr hs⟩
      have hyx' := (keyLt_iff y x).mp hyx
      rw [keyLt_false_iff]
      simp only [mem_cons] at hz
      rcases hz with rfl | hz
      · omega
      · have := (keyLt_false_iff y z).mp (hs.1 z hz)
        omega
    · rename_i hyx
      rw [pairwise_cons]
      refine ⟨fun z hz => ?_, ih hs.2⟩
      rcases mem_insertDesc hz with rfl | hz
      · simpa using hyx
      · exact hs.1 z hz

theorem insertAll_sorted (xs : List Tx) {l : List Tx} (hs : PoolSorted l) : PoolSorted (insertAll xs l) := by
  induction xs generalizing l with
  | nil => simpa [insertAll] using hs
  | cons x xs ih =>
    have h1 : insertAll (x :: xs) l = insertAll xs (insertDesc x l) := by simp [insertAll]
    rw [h1]
    exact ih (insertDesc_sorted x hs)

theorem pick_snd_sublist (t : Token) (base n : Nat) (l : List Tx) : (pick t base n l).2.Sublist l := by
  induction l generalizing n with
  | nil => simp [pick]
  | cons x xs ih =>
    cases n with
    | zero => simp [pick]
    | succ n =>
      unfold pick
      split
      · split
        · exact Sublist.refl _
        · exact (ih n).cons x
      · exact (ih (n + 1)).cons_cons x

/-! ## every operation keeps the pool sorted -/

theorem sorted_cancelBatches (p : Batch → Bool) {s : State} (hs : PoolSorted s.pool) : PoolSorted (cancelBatches p s).pool :=
  insertAll_sorted _ hs

theorem cleanupCalls_pool (s : State) : (cleanupCalls s).pool = s.pool := by
  obtain ⟨fm, er, hfm⟩ := cleanupCalls_core s
  rw [hfm]
  unfold cleanupCallsCore
  exact (foldl_refundCall _ _).1

theorem sorted_observe {s : State} (hs : PoolSorted s.pool) (h : Nat) (ev : Ev) : PoolSorted (doObserve s h ev).1.pool := by
  rw [doObserve_eq]
  unfold doObserveStd
  simp only
  cases ev with
  | other => simp only [handleEvent, cleanupCalls_pool]; exact sorted_cancelBatches _ hs
  | result c ok => simp only [handleEvent, cleanupCalls_pool]; exact sorted_cancelBatches _ hs
  | batch t n =>
    simp only [handleEvent]
    cases hf : s.batches.find? (fun b => decide (b.token = t ∧ b.nonce = n)) with
    | none => exact hs
    | some b =>
      simp only [cleanupCalls_pool]
      refine sorted_cancelBatches _ ?_
      simp only [executeBatch]
      exact sorted_cancelBatches _ hs

theorem sorted_step {s : State} (hs : PoolSorted s.pool) (op : Op) : PoolSorted (step s op).1.pool := by
  cases op with
  | send a d t am f =>
    simp only [step]; unfold doSend
    repeat' split
    all_goals first | exact hs | exact insertDesc_sorted _ hs
  | cancel id who =>
    simp only [step]; unfold doCancel
    repeat' split
    all_goals first | exact hs | exact Pairwise.sublist (erase_sublist) hs
  | incFee id who t add evm =>
    simp only [step]; unfold doIncFee
    repeat' split
    all_goals first | exact hs | exact insertDesc_sorted _ (Pairwise.sublist (erase_sublist) hs)
  | reqBatch t mf bf fr =>
    simp only [step]; unfold doReqBatch
    simp only
    repeat' split
    all_goals first | exact hs | exact Pairwise.sublist (pick_snd_sublist _ _ _ _) hs
  | bridgeCall a r to d m cs =>
    simp only [step]; unfold doBridgeCall
    simp only
    repeat' split
    all_goals exact hs
  | psend a d t am f =>
    simp only [step]; unfold doPSend
    repeat' split
    all_goals first | exact hs | exact insertDesc_sorted _ hs
  | pcall a r to d m cs =>
    simp only [step]; unfold doPCall
    simp only
    repeat' split
    all_goals exact hs
  | observe h ev => exact sorted_observe hs h ev
  | exec n =>
    simp only [step]; rw [doExec_flags]; unfold doExecFlags
    repeat' split
    all_goals first | exact hs | (simp only [refundCall, dropFromMsg]; exact hs)
  | setParams p =>
    simp only [step]
    split <;> exact hs
  | block n =>
    simp only [step, endBlock_eq]
    exact hs

theorem sorted_run {s : State} (hs : PoolSorted s.pool) (ops : List Op) : PoolSorted (run s ops).pool := by
  induction ops generalizing s with
  | nil => exact hs
  | cons op ops ih => exact ih (sorted_step hs op)

/-! ## what `pick` takes from a sorted pool -/

/-- selection and the rest of the token's transfers, in iteration order, are the token's transfers -/
theorem pick_split (t : Token) (base n : Nat) (l : List Tx) :
    (pick t base n l).1 ++ (pick t base n l).2.filter (fun x => decide (x.token = t)) = l.filter (fun x => decide (x.token = t)) := by
  induction l generalizing n with
  | nil => simp [pick]
  | cons x xs ih =>
    cases n with
    | zero => simp [pick]
    | succ n =>
      unfold pick
      by_cases ht : x.token = t
      · simp only [ht, if_true]
        split
        · simp
        · simp only [filter_cons, ht, decide_true, if_true, cons_append]
          rw [ih n]
      · simp only [ht, if_false, filter_cons, decide_false, Bool.false_eq_true]
        exact ih (n + 1)

/-- fees along the transfers of one token of a sorted pool never increase -/
theorem sorted_token_fees {l : List Tx} (hs : PoolSorted l) (t : Token) :
    (l.filter (fun x => decide (x.token = t))).Pairwise (fun a b => b.fee ≤ a.fee) := by
  have h1 : (l.filter (fun x => decide (x.token = t))).Pairwise (fun a b => keyLt a b = false) :=
    Pairwise.sublist (filter_sublist) hs
  rw [pairwise_iff_forall_sublist] at h1 ⊢
  intro a b hab
  have ha : a.token = t := by
    have := (hab.subset (mem_cons_self)); simpa using (mem_filter.mp this).2
  have hb : b.token = t := by
    have := (hab.subset (mem_cons_of_mem _ mem_cons_self)); simpa using (mem_filter.mp this).2
  have := (keyLt_false_iff a b).mp (h1 hab)
  omega

/-- dominance: every transfer left in the pool for that token pays at most as much as every selected one -/
theorem pick_dominates {l : List Tx} (hs : PoolSorted l) (t : Token) (base n : Nat) :
    ∀ x ∈ (pick t base n l).1, ∀ y ∈ (pick t base n l).2, y.token = t → y.fee ≤ x.fee := by
  intro x hx y hy hyt
  have hp := sorted_token_fees hs t
  rw [← pick_split t base n l, pairwise_append] at hp
  exact hp.2.2 x hx y (mem_filter.mpr ⟨hy, by simpa using hyt⟩)

/-- completeness: if fewer than `n` were selected, nothing eligible (fee ≥ base fee) of that token is left -/
theorem pick_complete {l : List Tx} (hs : PoolSorted l) (t : Token) (base n : Nat)
    (hlen : (pick t base n l).1.length < n) : ∀ y ∈ (pick t base n l).2, y.token = t → y.fee < base := by
  have h1 : pickBaseFeeCmp = .lt := by decide
  have h2 : pickBaseFeeStops = true := by decide
  induction l generalizing n with
  | nil => simp [pick]
  | cons x xs ih =>
    unfold PoolSorted at hs
    rw [pairwise_cons] at hs
    cases n with
    | zero => simp at hlen
    | succ n =>
      unfold pick at hlen ⊢
      by_cases ht : x.token = t
      · by_cases hb : x.fee < base
        · simp only [ht, if_true, h1, h2, Cmp.eval, hb, decide_true, Bool.and_self]
          intro y hy hyt
          simp only [mem_cons] at hy
          rcases hy with rfl | hy
          · exact hb
          · have := (keyLt_false_iff x y).mp (hs.1 y hy)
            omega
        · simp only [ht, if_true, h1, h2, Cmp.eval, hb, decide_false, Bool.and_false, Bool.false_eq_true, if_false,
            length_cons, Nat.add_lt_add_iff_right] at hlen ⊢
          exact ih hs.2 n hlen
      · simp only [ht, if_false] at hlen ⊢
        intro y hy hyt
        simp only [mem_cons] at hy
        rcases hy with rfl | hy
        · exact absurd hyt ht
        · exact ih hs.2 (n + 1) hlen y hy hyt

/-! ## maximal total fee -/

def feeSum (l : List Tx) : Nat := (l.map (·.fee)).sum

theorem totalFee_eq_feeSum (l : List Tx) : totalFee l = feeSum l := rfl

theorem feeSum_take_le_cons (a : Tx) (g : List Tx) (hd : (a :: g).Pairwise (fun x y => y.fee ≤ x.fee)) (n : Nat) :
    feeSum (g.take n) ≤ feeSum ((a :: g).take n) := by
  induction g generalizing a n with
  | nil => simp [feeSum]
  | cons b g ih =>
    cases n with
    | zero => simp [feeSum]
    | succ n =>
      rw [pairwise_cons] at hd
      have hb : b.fee ≤ a.fee := hd.1 b mem_cons_self
      have := ih b hd.2 n
      simp only [take_succ_cons, feeSum, map_cons, sum_cons] at this ⊢
      omega

/-- in a list with non-increasing fees no sublist of length ≤ n has a larger fee sum than the first n elements -/
theorem feeSum_sublist_le_take {l' g : List Tx} (hsub : l'.Sublist g) (hd : g.Pairwise (fun x y => y.fee ≤ x.fee)) (n : Nat)
    (hlen : l'.length ≤ n) : feeSum l' ≤ feeSum (g.take n) := by
  induction hsub generalizing n with
  | slnil => simp [feeSum]
  | @cons l1 g1 a _ ih =>
    exact Nat.le_trans (ih (pairwise_cons.mp hd).2 n hlen) (feeSum_take_le_cons a g1 hd n)
  | cons_cons a _ ih =>
    cases n with
    | zero => simp at hlen
    | succ n =>
      have := ih (pairwise_cons.mp hd).2 n (by simpa using hlen)
      simp only [take_succ_cons, feeSum, map_cons, sum_cons] at this ⊢
      omega

theorem takeWhile_eq_filter_of_desc (base : Nat) {g : List Tx} (hd : g.Pairwise (fun x y => y.fee ≤ x.fee)) :
    g.takeWhile (fun x => decide (base ≤ x.fee)) = g.filter (fun x => decide (base ≤ x.fee)) := by
  induction g with
  | nil => rfl
  | cons x xs ih =>
    rw [pairwise_cons] at hd
    by_cases hb : base ≤ x.fee
    · simp [takeWhile_cons, filter_cons, hb, ih hd.2]
    · simp only [takeWhile_cons, filter_cons, hb, decide_false, Bool.false_eq_true, if_false]
      symm
      rw [filter_eq_nil_iff]
      intro y hy
      have := hd.1 y hy
      simp only [decide_eq_true_eq]
      omega

end FxVerif.Proofs.C05

namespace FxVerif.Proofs.C05
open FxVerif.Gen.C05 FxVerif.Model.C05 List

/-- what a successful `RequestBatch` does, exactly -/
theorem reqBatch_ok {s s' : State} {t : Token} {mf bf : Nat} {fr : String} {n : Nat}
    (h : doReqBatch s t mf bf fr = (s', .ok n)) :
    n = s.nextBatchId ∧
    s' = { s with nextBatchId := s.nextBatchId + 1,
                  batches := s.batches ++ [⟨s.nextBatchId, t, (pick t bf outgoingTxBatchSize s.pool).1,
                    calTimeout s s.params.batchTimeout, s.fxHeight, fr⟩],
                  pool := (pick t bf outgoingTxBatchSize s.pool).2 } := by
  have hrm : pickRemovesFromPool = true := by decide
  unfold doReqBatch at h
  simp only [hrm, if_true] at h
  repeat' split at h
  all_goals first
    | (cases h; exact ⟨rfl, rfl⟩)
    | cases h

/-- a failed `RequestBatch` changes nothing -/
theorem reqBatch_not_ok (s : State) (t : Token) (mf bf : Nat) (fr : String) :
    (∃ n, (doReqBatch s t mf bf fr).2 = .ok n) ∨ (doReqBatch s t mf bf fr).1 = s := by
  unfold doReqBatch
  simp only
  repeat' split
  all_goals first
    | (right; rfl)
    | (left; exact ⟨_, rfl⟩)

end FxVerif.Proofs.C05
