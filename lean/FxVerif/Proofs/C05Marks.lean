import FxVerif.Proofs.C05Ext
import FxVerif.Proofs.C05Sorted
/-!
Origin marks against the origin ghost log (round 4).

`relTx` (x/erc20 `OutgoingTransferRelation`) and `fromMsg` (prefix 0x51 `BridgeCallFromMsg`) are STORE state: the refund
form (ERC-20 or coins) is decided by looking them up.  `sentEvm` / `msgCalls` are GHOST logs of `Ext`: which transfer
ids were created through the `crossChain` precompile, which bridge-call nonces by `MsgBridgeCall`.  The invariant `M`
says the store marks are exactly the logged origins of the entries that are not settled yet — over every operation list.
-/
namespace FxVerif.Proofs.C05
open FxVerif.Gen.C05 FxVerif.Model.C05 List

structure M (s : State) (x : Ext) : Prop where
  rel : ∀ id, id ∈ s.relTx ↔ (id ∈ x.sentEvm ∧ id ∉ settledTxIds s.settled)
  marks : ∀ n, n ∈ s.fromMsg ↔ (n ∈ x.msgCalls ∧ n ∉ settledCallIds s.settled)
  evmLt : ∀ id ∈ x.sentEvm, 1 ≤ id ∧ id < s.nextTxId
  msgLt : ∀ n ∈ x.msgCalls, 1 ≤ n ∧ n < s.nextCallId

theorem M_init {s : State} (h : IsInit s) : M s {} := by
  obtain ⟨_, _, _, _, _, _, _, _, _, _, _, h12, h13⟩ := h
  exact ⟨fun id => by simp [h12], fun n => by simp [h13], fun id h => (by cases h), fun n h => (by cases h)⟩

/-- nothing relevant moved -/
theorem M_of {s s' : State} {x x' : Ext} (hm : M s x)
    (h1 : s'.relTx = s.relTx) (h2 : s'.fromMsg = s.fromMsg)
    (h3 : settledTxIds s'.settled = settledTxIds s.settled) (h4 : settledCallIds s'.settled = settledCallIds s.settled)
    (h5 : x'.sentEvm = x.sentEvm) (h6 : x'.msgCalls = x.msgCalls)
    (h7 : s.nextTxId ≤ s'.nextTxId) (h8 : s.nextCallId ≤ s'.nextCallId) : M s' x' := by
  refine ⟨fun id => by rw [h1, h3, h5]; exact hm.rel id, fun n => by rw [h2, h4, h6]; exact hm.marks n,
    fun id hid => ?_, fun n hn => ?_⟩
  · rw [h5] at hid; have := hm.evmLt id hid; omega
  · rw [h6] at hn; have := hm.msgLt n hn; omega

/-- marks of the ids in `ns` dropped, the same ids settled -/
theorem marks_drop {fm mc st : List Nat} (ns : List Nat) (p : Nat → Bool) (hp : ∀ n, p n = true ↔ n ∉ ns)
    (h : ∀ n, n ∈ fm ↔ (n ∈ mc ∧ n ∉ st)) : ∀ n, n ∈ fm.filter p ↔ (n ∈ mc ∧ n ∉ st ++ ns) := by
  intro n
  simp only [mem_filter, h, hp, mem_append, not_or]
  constructor
  · rintro ⟨⟨a, b⟩, c⟩; exact ⟨a, b, c⟩
  · rintro ⟨a, b, c⟩; exact ⟨⟨a, b⟩, c⟩

theorem settledTxIds_single_tx (id : Nat) (h : How) (to : Addr) (cs : List (Token × Nat)) :
    settledTxIds [⟨false, id, h, to, cs⟩] = [id] := by simp [settledTxIds]
theorem settledCallIds_single_tx (id : Nat) (h : How) (to : Addr) (cs : List (Token × Nat)) :
    settledCallIds [⟨false, id, h, to, cs⟩] = [] := by simp [settledCallIds]
theorem settledTxIds_single_call (id : Nat) (h : How) (to : Addr) (cs : List (Token × Nat)) :
    settledTxIds [⟨true, id, h, to, cs⟩] = [] := by simp [settledTxIds]
theorem settledCallIds_single_call (id : Nat) (h : How) (to : Addr) (cs : List (Token × Nat)) :
    settledCallIds [⟨true, id, h, to, cs⟩] = [id] := by simp [settledCallIds]

theorem M_cancelBatches {s : State} {x : Ext} (hm : M s x) (p : Batch → Bool) : M (cancelBatches p s) x :=
  M_of hm rfl rfl rfl rfl rfl rfl (Nat.le_refl _) (Nat.le_refl _)

theorem foldl_refundCall_relTx (l : List Call) (w : State) : (l.foldl refundCall w).relTx = w.relTx := by
  induction l generalizing w with
  | nil => rfl
  | cons c l ih => simp only [foldl_cons]; rw [ih]; rfl

theorem cleanupCalls_relTx (z : State) : (cleanupCalls z).relTx = z.relTx := by
  obtain ⟨fm, er, hfm⟩ := cleanupCalls_core z
  rw [hfm]
  show (cleanupCallsCore z).relTx = z.relTx
  unfold cleanupCallsCore
  rw [foldl_refundCall_relTx]

/-- the sequential clean-up keeps `M`: exactly the refunded records lose their mark and enter the settlement log -/
theorem M_cleanupCalls {z : State} {x : Ext} (hm : M z x) : M (cleanupCalls z) x := by
  refine ⟨fun id => ?_, ?_, fun id hid => ?_, fun n hn => ?_⟩
  · rw [cleanupCalls_relTx, cleanupCalls_settled, settledTxIds_append, settledTxIds_refunds, append_nil]
    exact hm.rel id
  · rw [cleanupCalls_fromMsg, cleanupCalls_settled, settledCallIds_append, settledCallIds_refunds]
    exact marks_drop _ _ (fun n => by simp) hm.marks
  · rw [(cleanupCalls_next z).1]; exact hm.evmLt id hid
  · rw [(cleanupCalls_next z).2]; exact hm.msgLt n hn

theorem M_executeBatch {z : State} {x : Ext} (hm : M z x) (b : Batch) : M (executeBatch z b) x := by
  have hd : executedDeletesRelation = true := by decide
  refine ⟨?_, fun n => ?_, fun id hid => ?_, fun n hn => ?_⟩
  · have hs : settledTxIds (executeBatch z b).settled = settledTxIds z.settled ++ b.txs.map (·.id) := by
      simp only [executeBatch, cancelBatches, settledTxIds_append, settledTxIds_exec]
    have hr : (executeBatch z b).relTx = z.relTx.filter (fun i => !(b.txs.any (fun tx => tx.id == i))) := by
      simp [executeBatch, cancelBatches, hd]
    rw [hs, hr]
    exact marks_drop _ _ (fun n => by simp) hm.rel
  · have hs : settledCallIds (executeBatch z b).settled = settledCallIds z.settled := by
      simp only [executeBatch, cancelBatches, settledCallIds_append, settledCallIds_exec, append_nil]
    have hf : (executeBatch z b).fromMsg = z.fromMsg := by simp [executeBatch, cancelBatches]
    rw [hs, hf]; exact hm.marks n
  · have : (executeBatch z b).nextTxId = z.nextTxId := by simp [executeBatch, cancelBatches]
    rw [this]; exact hm.evmLt id hid
  · have : (executeBatch z b).nextCallId = z.nextCallId := by simp [executeBatch, cancelBatches]
    rw [this]; exact hm.msgLt n hn

theorem M_handleEvent {s1 s2 : State} {x : Ext} {ev : Ev} (hm : M s1 x) (hh : handleEvent s1 ev = some s2) : M s2 x := by
  cases ev with
  | other => cases hh; exact hm
  | result c ok => cases hh; exact M_of hm rfl rfl rfl rfl rfl rfl (Nat.le_refl _) (Nat.le_refl _)
  | batch t n =>
    simp only [handleEvent] at hh
    split at hh
    · cases hh
    · cases hh; exact M_executeBatch hm _

theorem M_observe {s : State} {x : Ext} (hm : M s x) (h : Nat) (ev : Ev) : M (doObserve s h ev).1 x := by
  rcases observe_fields s h ev with hsame | ⟨s2, hh, hfin⟩
  · rw [hsame]; exact hm
  · rw [hfin]
    have h1 : M { s with eventNonce := s.eventNonce + 1, obsExt := h, obsFx := s.fxHeight } x :=
      M_of hm rfl rfl rfl rfl rfl rfl (Nat.le_refl _) (Nat.le_refl _)
    exact M_cleanupCalls (M_cancelBatches (M_handleEvent h1 hh) _)

theorem not_mem_settledTx_next {s : State} (hi : Inv s) : s.nextTxId ∉ settledTxIds s.settled := by
  intro h
  have hm : s.nextTxId ∈ allTxIds s := by simp [allTxIds, h]
  have := (hi.tx.mem_iff).mp hm
  simp only [mem_range'_1] at this
  have := hi.txPos
  omega

theorem not_mem_settledCall_next {s : State} (hi : Inv s) : s.nextCallId ∉ settledCallIds s.settled := by
  intro h
  have hm : s.nextCallId ∈ allCallIds s := by simp [allCallIds, h]
  have := (hi.call.mem_iff).mp hm
  simp only [mem_range'_1] at this
  have := hi.callPos
  omega

theorem M_step {s : State} {x : Ext} (hm : M s x) (hi : Inv s) (op : Op) : M (step s op).1 (x.nextStd s op) := by
  cases op with
  | send a d t am f =>
    simp only [step, Ext.nextStd]
    unfold doSend
    repeat' split
    all_goals first
      | exact hm
      | exact M_of hm rfl rfl rfl rfl rfl rfl (by simp) (Nat.le_refl _)
      | (simp_all)
  | psend a d t am f =>
    have hr : precompileSendSetsRelation = true := by decide
    simp only [step, Ext.nextStd]
    unfold doPSend
    split
    · simp only [Nat.left_eq_add, Nat.succ_ne_self, if_false]; exact hm
    · split
      · simp only [Nat.left_eq_add, Nat.succ_ne_self, if_false]; exact hm
      · simp only [if_true, hr]
        refine ⟨fun id => ?_, hm.marks, fun id hid => ?_, hm.msgLt⟩
        · simp only [mem_append, mem_singleton, hm.rel id]
          constructor
          · rintro (⟨h1, h2⟩ | rfl)
            · exact ⟨Or.inl h1, h2⟩
            · exact ⟨Or.inr rfl, not_mem_settledTx_next hi⟩
          · rintro ⟨h1 | rfl, h2⟩
            · exact Or.inl ⟨h1, h2⟩
            · exact Or.inr rfl
        · simp only [mem_append, mem_singleton] at hid
          have := hi.txPos
          rcases hid with h | rfl
          · have := hm.evmLt id h; simp only; omega
          · simp only; omega
  | cancel id who =>
    have hk : cancelRefundHook = true := by decide
    simp only [step, Ext.nextStd]
    unfold doCancel
    split
    · exact hm
    · split
      · exact hm
      · rename_i tx hf
        split
        · exact hm
        · have hid : tx.id = id := by simpa using find?_some hf
          refine ⟨?_, fun n => ?_, hm.evmLt, hm.msgLt⟩
          · simp only [hk, if_true, settledTxIds_append, settledTxIds_single_tx, hid]
            exact marks_drop [id] _ (fun n => by simp) hm.rel
          · simp only [settledCallIds_append, settledCallIds_single_tx, append_nil]
            exact hm.marks n
  | incFee id who t add evm =>
    simp only [step, Ext.nextStd]
    unfold doIncFee
    repeat' split
    all_goals first
      | exact hm
      | exact M_of hm rfl rfl rfl rfl rfl rfl (Nat.le_refl _) (Nat.le_refl _)
  | reqBatch t mf bf fr =>
    simp only [step]
    rcases reqBatch_not_ok s t mf bf fr with ⟨n, hn'⟩ | hsame
    · have hpair : doReqBatch s t mf bf fr = ((doReqBatch s t mf bf fr).1, .ok n) := by rw [← hn']
      rw [(reqBatch_ok hpair).2]
      exact M_of hm rfl rfl rfl rfl rfl rfl (Nat.le_refl _) (Nat.le_refl _)
    · rw [hsame]; exact M_of hm rfl rfl rfl rfl rfl rfl (Nat.le_refl _) (Nat.le_refl _)
  | bridgeCall a r to d m cs =>
    have hf : msgBridgeCallSetsFromMsg = true := by decide
    simp only [step, Ext.nextStd]
    unfold doBridgeCall
    split
    · simp only [drop_length, map_nil, append_nil]; exact hm
    · split
      · simp only [drop_length, map_nil, append_nil]; exact hm
      · simp only
        split
        · simp only [drop_length, map_nil, append_nil]; exact hm
        · simp only [hf, if_true, drop_left, map_cons, map_nil]
          refine ⟨hm.rel, fun n => ?_, hm.evmLt, fun n hn => ?_⟩
          · simp only [mem_append, mem_singleton, hm.marks n]
            constructor
            · rintro (⟨h1, h2⟩ | rfl)
              · exact ⟨Or.inl h1, h2⟩
              · exact ⟨Or.inr rfl, not_mem_settledCall_next hi⟩
            · rintro ⟨h1 | rfl, h2⟩
              · exact Or.inl ⟨h1, h2⟩
              · exact Or.inr rfl
          · simp only [mem_append, mem_singleton] at hn
            have := hi.callPos
            rcases hn with h | rfl
            · have := hm.msgLt n h; simp only; omega
            · simp only; omega
  | pcall a r to d m cs =>
    have hf : precompileBridgeCallSetsFromMsg = false := by decide
    simp only [step, Ext.nextStd]
    unfold doPCall
    simp only [hf, Bool.false_eq_true, if_false]
    repeat' split
    all_goals first
      | exact hm
      | exact M_of hm rfl (by simp [hf]) rfl rfl rfl rfl (Nat.le_refl _) (by simp)
  | observe h ev =>
    have hx : (x.nextStd s (.observe h ev)).sentEvm = x.sentEvm ∧ (x.nextStd s (.observe h ev)).msgCalls = x.msgCalls := by
      cases ev <;> exact ⟨rfl, rfl⟩
    have := M_observe hm h ev
    exact M_of this rfl rfl rfl rfl hx.1 hx.2 (Nat.le_refl _) (Nat.le_refl _)
  | exec n =>
    have hd : deleteRecordDropsFromMsg = true := by decide
    simp only [step, Ext.nextStd]
    rw [doExec_eq]
    unfold doExecStd
    split
    · exact hm
    · split
      · exact hm
      · rename_i p _ c _
        split
        · refine ⟨fun id => ?_, ?_, hm.evmLt, hm.msgLt⟩
          · simp only [dropFromMsg, settledTxIds_append, settledTxIds_single_call, append_nil]
            exact hm.rel id
          · simp only [dropFromMsg, hd, if_true, settledCallIds_append, settledCallIds_single_call]
            exact marks_drop [c.nonce] _ (fun n => by simp) hm.marks
        · refine ⟨fun id => ?_, ?_, hm.evmLt, hm.msgLt⟩
          · simp only [dropFromMsg, refundCall, settledTxIds_append, settledTxIds_single_call, append_nil]
            exact hm.rel id
          · simp only [dropFromMsg, hd, if_true, refundCall, callRefundTo_eq, settledCallIds_append, settledCallIds_single_call]
            exact marks_drop [c.nonce] _ (fun n => by simp) hm.marks
  | setParams p =>
    simp only [step, Ext.nextStd]
    split
    · exact hm
    · exact M_of hm rfl rfl rfl rfl rfl rfl (Nat.le_refl _) (Nat.le_refl _)
  | block n =>
    simp only [step, Ext.nextStd, endBlock_eq]
    exact M_of hm rfl rfl rfl rfl rfl rfl (Nat.le_refl _) (Nat.le_refl _)

theorem MI_run {s : State} {x : Ext} (hm : M s x) (hi : Inv s) (ops : List Op) :
    M (runExtStd s x ops).1 (runExtStd s x ops).2 := by
  induction ops generalizing s x with
  | nil => exact hm
  | cons op ops ih => exact ih (M_step hm hi op) (inv_step hi op)

end FxVerif.Proofs.C05
