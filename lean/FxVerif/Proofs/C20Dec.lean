import FxVerif.Model.C20
/-! helper lemmas for the C20 decoder theorems (core Lean only) -/
namespace FxVerif.Proofs.C20Dec
open FxVerif.Model.C20

/-- "if classified as IBC then `IBCValidate` holds" -/
def IbcOk (r : FxTarget) : Prop := r.isIBC = true → ibcValidate r = true

theorem plainTarget_ok (t : List Char) : IbcOk (plainTarget t) := by
  intro h; cases h

theorem checkedTarget_ok (ft : FxTarget) (fb : List Char) : IbcOk (checkedTarget ft fb) := by
  unfold checkedTarget
  split
  · intro _; assumption
  · exact plainTarget_ok fb

theorem threeParts_ok (t : List Char) : IbcOk (threeParts t) := by
  unfold threeParts
  split
  · exact checkedTarget_ok _ _
  · exact plainTarget_ok t

theorem ibcPrefixed_ok (t : List Char) : IbcOk (ibcPrefixed t) := by
  unfold ibcPrefixed
  split
  · exact checkedTarget_ok _ _
  · exact threeParts_ok _
  · exact plainTarget_ok t

end FxVerif.Proofs.C20Dec
