import FxVerif.Model.C12Abi
/-!
# ABI encoding: round trip `decode (kinds vs) (enc vs) = some vs`, hence injectivity — for values of ANY length
-/
namespace FxVerif.Model.C12

@[simp] theorem toBE_length (k n : Nat) : (toBE k n).length = k := by
  induction k generalizing n with
  | zero => rfl
  | succ k ih => simp [toBE, ih]

theorem fromBE_append_single (xs : List Nat) (b : Nat) : fromBE (xs ++ [b]) = fromBE xs * 256 + b := by
  simp [fromBE, List.foldl_append]

theorem fromBE_toBE (k n : Nat) : fromBE (toBE k n) = n % 256 ^ k := by
  induction k generalizing n with
  | zero => simp [toBE, fromBE, Nat.mod_one]
  | succ k ih =>
    rw [toBE, fromBE_append_single, ih, Nat.pow_succ, Nat.mul_comm (256 ^ k) 256, Nat.mod_mul]
    omega

@[simp] theorem word_length (n : Nat) : (word n).length = 32 := by simp [word]

theorem fromBE_word {n : Nat} (h : n < 2 ^ 256) : fromBE (word n) = n := by
  have e : (256 : Nat) ^ 32 = 2 ^ 256 := by decide
  rw [word, fromBE_toBE, e, Nat.mod_eq_of_lt h]

theorem take_word_append (n : Nat) (r : List Nat) : (word n ++ r).take 32 = word n := by
  rw [List.take_append_of_le_length (by simp)]
  exact List.take_of_length_le (by simp)

theorem drop_word_append (n : Nat) (r : List Nat) : (word n ++ r).drop 32 = r := by
  exact List.drop_left' (by simp)

theorem readWords_flatMap (xs rest : List Nat) (h : ∀ x ∈ xs, x < 2 ^ 256) :
    readWords xs.length (xs.flatMap word ++ rest) = some (xs, rest) := by
  induction xs with
  | nil => simp [readWords]
  | cons x xs ih =>
    have hx : x < 2 ^ 256 := h x (by simp)
    have hxs : ∀ y ∈ xs, y < 2 ^ 256 := fun y hy => h y (by simp [hy])
    simp only [List.length_cons, List.flatMap_cons, List.append_assoc, readWords]
    have hl : ¬ (word x ++ (xs.flatMap word ++ rest)).length < 32 := by simp
    rw [if_neg hl, drop_word_append, take_word_append, ih hxs, fromBE_word hx]

theorem decTail_tailEnc (v : Val) (rest : List Nat) (hwf : v.WF) (hk : v.kind ≠ .static) :
    decTail v.kind (tailEnc v ++ rest) = some (v, rest) := by
  cases v with
  | word n => simp [Val.kind] at hk
  | arr xs =>
    obtain ⟨hlen, hall⟩ := hwf
    simp only [Val.kind, tailEnc, List.append_assoc, decTail]
    have hl : ¬ (word xs.length ++ (xs.flatMap word ++ rest)).length < 32 := by simp
    rw [if_neg hl, drop_word_append, take_word_append, fromBE_word hlen, readWords_flatMap xs rest hall]
  | bytes bs =>
    obtain ⟨hlen, _⟩ := hwf
    simp only [Val.kind, tailEnc, List.append_assoc, decTail]
    have hl : ¬ (word bs.length ++ (bs ++ (List.replicate (padLen bs.length) 0 ++ rest))).length < 32 := by simp
    rw [if_neg hl, drop_word_append, take_word_append, fromBE_word hlen]
    have hl2 : ¬ (bs ++ (List.replicate (padLen bs.length) 0 ++ rest)).length < bs.length + padLen bs.length := by
      simp
    simp only [hl2, if_false]
    have h1 : (bs ++ (List.replicate (padLen bs.length) 0 ++ rest)).take bs.length = bs := by
      rw [List.take_append_of_le_length (Nat.le_refl _)]; exact List.take_length
    have h2 : (bs ++ (List.replicate (padLen bs.length) 0 ++ rest)).drop (bs.length + padLen bs.length) = rest := by
      rw [← List.append_assoc]
      exact List.drop_left' (by simp)
    rw [h1, h2]

@[simp] theorem headEnc_length (off : Nat) (v : Val) : (headEnc off v).length = 32 := by
  cases v <;> simp [headEnc]

theorem heads_length (off : Nat) (vs : List Val) : (heads off vs).length = 32 * vs.length := by
  induction vs generalizing off with
  | nil => rfl
  | cons v vs ih => simp [heads, ih]; omega

theorem take_headEnc_append (off : Nat) (v : Val) (r : List Nat) : (headEnc off v ++ r).take 32 = headEnc off v := by
  rw [List.take_append_of_le_length (by simp)]
  exact List.take_of_length_le (by simp)

theorem drop_headEnc_append (off : Nat) (v : Val) (r : List Nat) : (headEnc off v ++ r).drop 32 = r :=
  List.drop_left' (by simp)

theorem dec_heads_tails (vs : List Val) (off : Nat) (rest : List Nat) (h : ∀ v ∈ vs, v.WF) :
    dec (vs.map Val.kind) (heads off vs) (tails vs ++ rest) = some vs := by
  induction vs generalizing off with
  | nil => simp [dec]
  | cons v vs ih =>
    have hv : v.WF := h v (by simp)
    have hvs : ∀ w ∈ vs, w.WF := fun w hw => h w (by simp [hw])
    have htl : tails (v :: vs) ++ rest = tailEnc v ++ (tails vs ++ rest) := by simp [tails]
    cases hk : v.kind with
    | static =>
      cases v with
      | word n =>
        simp only [List.map_cons, Val.kind, heads, dec, drop_headEnc_append]
        have : tails (Val.word n :: vs) ++ rest = tails vs ++ rest := by simp [tails, tailEnc]
        rw [this, ih _ hvs, take_headEnc_append]
        simp [headEnc, fromBE_word hv]
      | arr _ => simp [Val.kind] at hk
      | bytes _ => simp [Val.kind] at hk
    | arr =>
      have hne : v.kind ≠ .static := by rw [hk]; decide
      have hd := decTail_tailEnc v (tails vs ++ rest) hv hne
      rw [hk] at hd
      simp only [List.map_cons, hk, heads, dec, htl, hd, drop_headEnc_append, ih _ hvs]
    | bytes =>
      have hne : v.kind ≠ .static := by rw [hk]; decide
      have hd := decTail_tailEnc v (tails vs ++ rest) hv hne
      rw [hk] at hd
      simp only [List.map_cons, hk, heads, dec, htl, hd, drop_headEnc_append, ih _ hvs]

/-- round trip: the decoder recovers every well-formed value list from its encoding -/
theorem decode_enc (vs : List Val) (h : ∀ v ∈ vs, v.WF) : decode (vs.map Val.kind) (enc vs) = some vs := by
  have hl : (heads (32 * vs.length) vs).length = 32 * (vs.map Val.kind).length := by simp [heads_length]
  unfold decode enc
  rw [List.take_left' hl, List.drop_left' hl]
  simpa using dec_heads_tails vs (32 * vs.length) [] h

/-- `abi.encode` is injective on well-formed value lists of the same shape (any lengths of arrays and byte strings) -/
theorem enc_injective (vs ws : List Val) (hv : ∀ v ∈ vs, v.WF) (hw : ∀ w ∈ ws, w.WF)
    (hk : vs.map Val.kind = ws.map Val.kind) (he : enc vs = enc ws) : vs = ws := by
  have h1 := decode_enc vs hv
  have h2 := decode_enc ws hw
  rw [he, hk, h2] at h1
  exact (Option.some.inj h1).symm

end FxVerif.Model.C12
