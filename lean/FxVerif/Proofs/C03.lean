import FxVerif.Model.C03

/-!
# C03 — helper lemmas: Go `fmt` renderings are injective and separator-free on the `ValidateBasic` classes
-/
namespace FxVerif.Proofs.C03
open FxVerif.Model.C03

/-! ## splitting at a separator -/

/-- a string split at a separator that occurs in neither prefix is split uniquely -/
theorem split_sep {s : Char} : ∀ {a a' r r' : Str}, (∀ c ∈ a, c ≠ s) → (∀ c ∈ a', c ≠ s) →
    a ++ s :: r = a' ++ s :: r' → a = a' ∧ r = r'
  | [], [], _, _, _, _, h => by simpa using h
  | [], y :: a', _, _, _, h', h => by
      simp only [List.nil_append, List.cons_append, List.cons.injEq] at h
      exact absurd h.1.symm (h' y (by simp))
  | x :: a, [], _, _, h₁, _, h => by
      simp only [List.nil_append, List.cons_append, List.cons.injEq] at h
      exact absurd h.1 (h₁ x (by simp))
  | x :: a, y :: a', r, r', h₁, h₂, h => by
      simp only [List.cons_append, List.cons.injEq] at h
      have ih := split_sep (a := a) (a' := a') (r := r) (r' := r')
        (fun c hc => h₁ c (by simp [hc])) (fun c hc => h₂ c (by simp [hc])) h.2
      exact ⟨by rw [h.1, ih.1], ih.2⟩

/-- the last field: a trailing separator (or nothing) after a separator-free string -/
theorem split_end {s : Char} {a a' : Str} (h₁ : ∀ c ∈ a, c ≠ s) (h₂ : ∀ c ∈ a', c ≠ s)
    (h : a ++ [s] = a' ++ [s]) : a = a' := (split_sep h₁ h₂ h).1

/-! ## character classes -/

/-- characters that can never be a separator of a path: letters and digits -/
def Alnum (s : Str) : Prop := ∀ c ∈ s, c.isAlphanum = true

theorem Alnum.ne {s : Str} (h : Alnum s) (sep : Char) (hs : sep.isAlphanum = false) : ∀ c ∈ s, c ≠ sep := by
  intro c hc e
  have := h c hc
  rw [e, hs] at this
  exact Bool.noConfusion this

theorem isDigit_alnum {c : Char} (h : c.isDigit = true) : c.isAlphanum = true := by
  simp [Char.isAlphanum, h]

theorem isHexChar_alnum {c : Char} (h : isHexChar c = true) : c.isAlphanum = true := by
  simp only [isHexChar, Bool.or_eq_true, Bool.and_eq_true, decide_eq_true_eq] at h
  simp only [Char.isAlphanum, Char.isAlpha, Char.isUpper, Char.isLower, Bool.or_eq_true, Bool.and_eq_true,
    decide_eq_true_eq]
  rcases h with (h | h) | h
  · exact Or.inr h
  · refine Or.inl (Or.inr ⟨?_, ?_⟩)
    · exact h.1
    · exact Nat.le_trans h.2 (by decide)
  · refine Or.inl (Or.inl ⟨?_, ?_⟩)
    · exact h.1
    · exact Nat.le_trans h.2 (by decide)

theorem all_alnum {p : Char → Bool} (hp : ∀ c, p c = true → c.isAlphanum = true) {s : Str}
    (h : s.all p = true) : Alnum s := by
  intro c hc
  exact hp c (List.all_eq_true.mp h c hc)

theorem isHexData_alnum {s : Str} (h : isHexData s = true) : Alnum s := by
  simp only [isHexData, Bool.and_eq_true] at h
  exact all_alnum (fun _ => isHexChar_alnum) h.2

theorem isBech32ish_alnum {s : Str} (h : isBech32ish s = true) : Alnum s := by
  simp only [isBech32ish, Bool.and_eq_true] at h
  exact all_alnum (fun _ h => h) h.2

theorem isEthAddr_alnum {s : Str} (h : isEthAddr s = true) : Alnum s := by
  simp only [isEthAddr, Bool.and_eq_true, beq_iff_eq] at h
  have hr := all_alnum (fun _ => isHexChar_alnum) h.2
  intro c hc
  rw [← List.take_append_drop 2 s, List.mem_append] at hc
  rcases hc with hc | hc
  · rw [h.1.2] at hc
    simp only [List.mem_cons, List.not_mem_nil, or_false] at hc
    rcases hc with rfl | rfl <;> decide
  · exact hr c hc

theorem isEthAddr_length {s : Str} (h : isEthAddr s = true) : s.length = 42 := by
  simp only [isEthAddr, Bool.and_eq_true, beq_iff_eq] at h
  exact h.1.1

theorem isTronAddr_alnum {s : Str} (h : isTronAddr s = true) : Alnum s := by
  simp only [isTronAddr, Bool.and_eq_true] at h
  refine all_alnum (fun c hc => ?_) h.2
  simp only [isBase58Char, Bool.and_eq_true] at hc
  exact hc.1.1.1.1

theorem isTronAddr_length {s : Str} (h : isTronAddr s = true) : s.length = 34 := by
  simp only [isTronAddr, Bool.and_eq_true, beq_iff_eq] at h
  exact h.1

theorem isExtAddr_alnum {k : AddrKind} {s : Str} (h : isExtAddr k s = true) : Alnum s := by
  cases k with
  | eth => exact isEthAddr_alnum h
  | tron => exact isTronAddr_alnum h
  | other => simp [isExtAddr] at h

/-- all external addresses of one class have the same length -/
theorem isExtAddr_length {k : AddrKind} {s s' : Str} (h : isExtAddr k s = true) (h' : isExtAddr k s' = true) :
    s.length = s'.length := by
  cases k with
  | eth => rw [isEthAddr_length h, isEthAddr_length h']
  | tron => rw [isTronAddr_length h, isTronAddr_length h']
  | other => simp [isExtAddr] at h

theorem isExtAddr_ne_nil {k : AddrKind} {s : Str} (h : isExtAddr k s = true) : s ≠ [] := by
  intro e
  subst e
  cases k <;> simp [isExtAddr, isEthAddr, isTronAddr] at h

/-! ## `%d` -/

theorem fmtNat_inj {m n : Nat} (h : fmtNat m = fmtNat n) : m = n := by
  have h₁ := Nat.ofDigitChars_ten_toDigits (n := m)
  have h₂ := Nat.ofDigitChars_ten_toDigits (n := n)
  simp only [fmtNat] at h
  rw [h] at h₁
  exact h₁.symm.trans h₂

theorem fmtNat_alnum (n : Nat) : Alnum (fmtNat n) := fun _ hc =>
  isDigit_alnum (Nat.isDigit_of_mem_toDigits (by decide) (by decide) hc)

theorem fmtNat_digits (n : Nat) : ∀ c ∈ fmtNat n, c.isDigit = true := fun _ hc =>
  Nat.isDigit_of_mem_toDigits (by decide) (by decide) hc

theorem fmtNat_ne_nil (n : Nat) : fmtNat n ≠ [] := Nat.toDigits_ne_nil

/-! ## `sdkmath.Int.String()` -/

/-- characters of a rendered `sdkmath.Int`: digits, `-`, or the letters of `<nil>` — never a separator -/
def IntChars (s : Str) : Prop := ∀ c ∈ s, c ≠ '/' ∧ c ≠ ' ' ∧ c ≠ ']'

theorem digit_intchar {c : Char} (h : c.isDigit = true) : c ≠ '/' ∧ c ≠ ' ' ∧ c ≠ ']' := by
  refine ⟨?_, ?_, ?_⟩ <;> (intro e; subst e; exact absurd h (by decide))

theorem fmtInt_chars (a : Option Int) : IntChars (fmtInt a) := by
  intro c hc
  match a, hc with
  | none, hc =>
    simp only [fmtInt, List.mem_cons, List.not_mem_nil, or_false] at hc
    rcases hc with rfl | rfl | rfl | rfl | rfl <;> decide
  | some (Int.ofNat n), hc => exact digit_intchar (fmtNat_digits n c hc)
  | some (Int.negSucc n), hc =>
    simp only [fmtInt, List.mem_cons] at hc
    rcases hc with rfl | hc
    · decide
    · exact digit_intchar (fmtNat_digits _ c hc)

theorem fmtInt_ne_nil (a : Option Int) : fmtInt a ≠ [] := by
  match a with
  | none => simp [fmtInt]
  | some (Int.ofNat n) => exact fmtNat_ne_nil n
  | some (Int.negSucc n) => simp [fmtInt]

private theorem head_digit {n : Nat} {c : Char} {r : Str} (h : fmtNat n = c :: r) : c.isDigit = true :=
  fmtNat_digits n c (by rw [h]; simp)

theorem fmtInt_inj {a b : Option Int} (h : fmtInt a = fmtInt b) : a = b := by
  match a, b, h with
  | none, none, _ => rfl
  | none, some (Int.ofNat n), h =>
    simp only [fmtInt] at h
    exact absurd (head_digit h.symm) (by decide)
  | none, some (Int.negSucc n), h => simp [fmtInt] at h
  | some (Int.ofNat n), none, h =>
    simp only [fmtInt] at h
    exact absurd (head_digit h) (by decide)
  | some (Int.negSucc n), none, h => simp [fmtInt] at h
  | some (Int.ofNat m), some (Int.ofNat n), h =>
    simp only [fmtInt] at h
    rw [fmtNat_inj h]
  | some (Int.ofNat m), some (Int.negSucc n), h =>
    simp only [fmtInt] at h
    exact absurd (head_digit h) (by decide)
  | some (Int.negSucc m), some (Int.ofNat n), h =>
    simp only [fmtInt] at h
    exact absurd (head_digit h.symm) (by decide)
  | some (Int.negSucc m), some (Int.negSucc n), h =>
    simp only [fmtInt, List.cons.injEq, true_and] at h
    have := fmtNat_inj h
    have : m = n := by omega
    rw [this]

theorem fmtInt_nonneg_alnum {a : Option Int} (h : isNonNeg a = true) : Alnum (fmtInt a) := by
  match a, h with
  | some (Int.ofNat n), _ => exact fmtNat_alnum n

/-! ## `%t` -/

theorem fmtBool_alnum (b : Bool) : Alnum (fmt_t_bool b) := by
  intro c hc
  cases b
  · simp only [fmt_t_bool, Bool.false_eq_true, if_false, List.mem_cons, List.not_mem_nil, or_false] at hc
    rcases hc with rfl | rfl | rfl | rfl | rfl <;> decide
  · simp only [fmt_t_bool, if_true, List.mem_cons, List.not_mem_nil, or_false] at hc
    rcases hc with rfl | rfl | rfl | rfl <;> decide

theorem fmtBool_inj {a b : Bool} (h : fmt_t_bool a = fmt_t_bool b) : a = b := by
  cases a <;> cases b <;> simp [fmt_t_bool] at h ⊢

/-! ## slices: `[e1 e2 …]` -/

theorem mem_joinSp {c : Char} : ∀ {xs : List Str}, c ∈ joinSp xs → c = ' ' ∨ ∃ x ∈ xs, c ∈ x
  | [], h => by simp [joinSp] at h
  | [a], h => Or.inr ⟨a, by simp, by simpa [joinSp] using h⟩
  | a :: b :: r, h => by
    simp only [joinSp, List.mem_append, List.mem_cons] at h
    rcases h with h | h | h
    · exact Or.inr ⟨a, by simp, h⟩
    · exact Or.inl h
    · rcases mem_joinSp (xs := b :: r) h with h | ⟨x, hx, hc⟩
      · exact Or.inl h
      · exact Or.inr ⟨x, by simp only [List.mem_cons] at hx ⊢; exact Or.inr hx, hc⟩

/-- a rendered slice contains no `/` when its elements contain none -/
theorem fmtSlice_noslash {xs : List Str} (h : ∀ x ∈ xs, ∀ c ∈ x, c ≠ '/') : ∀ c ∈ fmtSlice xs, c ≠ '/' := by
  intro c hc
  simp only [fmtSlice, List.mem_cons, List.mem_append, List.not_mem_nil, or_false] at hc
  rcases hc with (rfl | hc) | rfl
  · decide
  · rcases mem_joinSp hc with rfl | ⟨x, hx, hcx⟩
    · decide
    · exact h x hx c hcx
  · decide

theorem joinSp_ne_nil : ∀ {xs : List Str}, xs ≠ [] → (∀ x ∈ xs, x ≠ []) → joinSp xs ≠ []
  | [], h, _ => absurd rfl h
  | [a], _, h => by simpa [joinSp] using h a (by simp)
  | a :: b :: r, _, _ => by simp [joinSp]

/-- elements that are non-empty and contain no space are determined by the space-separated rendering
(`[]` and `[""]` both render as nothing: non-emptiness is needed) -/
theorem joinSp_inj : ∀ {xs ys : List Str}, (∀ x ∈ xs, x ≠ [] ∧ ∀ c ∈ x, c ≠ ' ') →
    (∀ y ∈ ys, y ≠ [] ∧ ∀ c ∈ y, c ≠ ' ') → joinSp xs = joinSp ys → xs = ys
  | [], [], _, _, _ => rfl
  | [], y :: ys, _, hy, h => by
    have := joinSp_ne_nil (xs := y :: ys) (by simp) (fun x hx => (hy x hx).1)
    exact absurd h.symm this
  | x :: xs, [], hx, _, h => by
    have := joinSp_ne_nil (xs := x :: xs) (by simp) (fun x' hx' => (hx x' hx').1)
    exact absurd h this
  | [a], [b], _, _, h => by simpa [joinSp] using h
  | [a], b :: b' :: r, ha, _, h => by
    simp only [joinSp] at h
    exact absurd rfl ((ha a (by simp)).2 ' ' (by rw [h]; simp))
  | a :: a' :: r, [b], _, hb, h => by
    simp only [joinSp] at h
    exact absurd rfl ((hb b (by simp)).2 ' ' (by rw [← h]; simp))
  | a :: a' :: r, b :: b' :: r', ha, hb, h => by
    simp only [joinSp] at h
    have := split_sep (ha a (by simp)).2 (hb b (by simp)).2 h
    have ih := joinSp_inj (xs := a' :: r) (ys := b' :: r')
      (fun x hx => ha x (by simp only [List.mem_cons] at hx ⊢; exact Or.inr hx))
      (fun y hy => hb y (by simp only [List.mem_cons] at hy ⊢; exact Or.inr hy)) this.2
    rw [this.1, ih]

theorem fmtSlice_inj {xs ys : List Str} (hx : ∀ x ∈ xs, x ≠ [] ∧ ∀ c ∈ x, c ≠ ' ')
    (hy : ∀ y ∈ ys, y ≠ [] ∧ ∀ c ∈ y, c ≠ ' ') (h : fmtSlice xs = fmtSlice ys) : xs = ys := by
  simp only [fmtSlice, List.cons_append, List.cons.injEq, true_and] at h
  exact joinSp_inj hx hy (List.append_cancel_right h)

theorem map_fmtInt_inj : ∀ {xs ys : List (Option Int)}, xs.map fmtInt = ys.map fmtInt → xs = ys
  | [], [], _ => rfl
  | [], _ :: _, h => by simp at h
  | _ :: _, [], h => by simp at h
  | x :: xs, y :: ys, h => by
    simp only [List.map_cons, List.cons.injEq] at h
    rw [fmtInt_inj h.1, map_fmtInt_inj h.2]

/-! ## `%x` of a byte string -/

theorem hexDigit_alnum {n : Nat} (h : n < 16) : (hexDigit n).isAlphanum = true := by
  have : ∀ n : Fin 16, (hexDigit n.val).isAlphanum = true := by decide
  exact this ⟨n, h⟩

theorem hexDigit_inj {m n : Nat} (hm : m < 16) (hn : n < 16) (h : hexDigit m = hexDigit n) : m = n := by
  have : ∀ a b : Fin 16, hexDigit a.val = hexDigit b.val → a = b := by decide
  exact congrArg Fin.val (this ⟨m, hm⟩ ⟨n, hn⟩ h)

theorem fmtHexStr_alnum : ∀ {s : Str}, isBytes s = true → Alnum (fmtHexStr s)
  | [], _ => by intro c hc; simp [fmtHexStr] at hc
  | x :: r, h => by
    simp only [isBytes, List.all_cons, Bool.and_eq_true, decide_eq_true_eq] at h
    intro c hc
    simp only [fmtHexStr, List.mem_cons] at hc
    rcases hc with rfl | rfl | hc
    · exact hexDigit_alnum (by omega)
    · exact hexDigit_alnum (by omega)
    · exact fmtHexStr_alnum (s := r) (by simpa [isBytes] using h.2) c hc

theorem fmtHexStr_inj : ∀ {s t : Str}, isBytes s = true → isBytes t = true → fmtHexStr s = fmtHexStr t → s = t
  | [], [], _, _, _ => rfl
  | [], _ :: _, _, _, h => by simp [fmtHexStr] at h
  | _ :: _, [], _, _, h => by simp [fmtHexStr] at h
  | x :: r, y :: r', hs, ht, h => by
    simp only [isBytes, List.all_cons, Bool.and_eq_true, decide_eq_true_eq] at hs ht
    simp only [fmtHexStr, List.cons.injEq] at h
    have h1 := hexDigit_inj (by omega) (by omega) h.1
    have h2 := hexDigit_inj (by omega) (by omega) h.2.1
    have hxy : x.toNat = y.toNat := by omega
    have : x = y := Char.toNat_inj.mp hxy
    rw [this, fmtHexStr_inj (s := r) (t := r') (by simpa [isBytes] using hs.2) (by simpa [isBytes] using ht.2) h.2.2]

/-! ## `[]BridgeValidator` -/

theorem members_noslash {k : AddrKind} {ms : List BridgeValidator}
    (h : ∀ m ∈ ms, isExtAddr k m.ExternalAddress = true) : ∀ c ∈ fmtSlice (ms.map fmtMember), c ≠ '/' := by
  apply fmtSlice_noslash
  intro x hx c hc
  simp only [List.mem_map] at hx
  obtain ⟨m, hm, rfl⟩ := hx
  simp only [fmtMember, List.mem_cons, List.mem_append, List.not_mem_nil, or_false] at hc
  rcases hc with ((rfl | hc) | rfl | hc) | rfl
  · decide
  · exact (fmtNat_alnum m.Power).ne '/' (by decide) c hc
  · decide
  · exact (isExtAddr_alnum (h m hm)).ne '/' (by decide) c hc
  · decide

theorem joinSp_members_inj {k k' : AddrKind} : ∀ {ms ns : List BridgeValidator},
    (∀ m ∈ ms, isExtAddr k m.ExternalAddress = true) → (∀ m ∈ ns, isExtAddr k' m.ExternalAddress = true) →
    joinSp (ms.map fmtMember) = joinSp (ns.map fmtMember) → ms = ns
  | [], [], _, _, _ => rfl
  | [], n :: ns, _, _, h => by
    cases ns <;> simp [joinSp, fmtMember] at h
  | m :: ms, [], _, _, h => by
    cases ms <;> simp [joinSp, fmtMember] at h
  | m :: ms, n :: ns, hm, hn, h => by
    have am := isExtAddr_alnum (hm m (by simp))
    have an := isExtAddr_alnum (hn n (by simp))
    -- bring both sides to the shape `{` power ` ` address `}` rest
    have shape : ∀ (x : BridgeValidator) (xs : List BridgeValidator), joinSp ((x :: xs).map fmtMember) =
        '{' :: (fmtNat x.Power ++ ' ' :: (x.ExternalAddress ++ '}' :: (match xs with
          | [] => []
          | y :: ys => ' ' :: joinSp ((y :: ys).map fmtMember)))) := by
      intro x xs
      cases xs <;> simp [joinSp, fmtMember]
    rw [shape m ms, shape n ns] at h
    simp only [List.cons.injEq, true_and] at h
    have s1 := split_sep ((fmtNat_alnum m.Power).ne ' ' (by decide)) ((fmtNat_alnum n.Power).ne ' ' (by decide)) h
    have s2 := split_sep (am.ne '}' (by decide)) (an.ne '}' (by decide)) s1.2
    have hmn : m = n := by
      cases m; cases n
      simp only [BridgeValidator.mk.injEq]
      exact ⟨fmtNat_inj s1.1, s2.1⟩
    have rest := s2.2
    match ms, ns, rest with
    | [], [], _ => rw [hmn]
    | [], _ :: _, rest => simp at rest
    | _ :: _, [], rest => simp at rest
    | m' :: ms', n' :: ns', rest =>
      simp only [List.cons.injEq, true_and] at rest
      have ih := joinSp_members_inj (ms := m' :: ms') (ns := n' :: ns')
        (fun x hx => hm x (by simp only [List.mem_cons] at hx ⊢; exact Or.inr hx))
        (fun x hx => hn x (by simp only [List.mem_cons] at hx ⊢; exact Or.inr hx)) rest
      rw [hmn, ih]

theorem fmtMembers_inj {k k' : AddrKind} {ms ns : List BridgeValidator}
    (hm : ∀ m ∈ ms, isExtAddr k m.ExternalAddress = true) (hn : ∀ m ∈ ns, isExtAddr k' m.ExternalAddress = true)
    (h : fmtSlice (ms.map fmtMember) = fmtSlice (ns.map fmtMember)) : ms = ns := by
  simp only [fmtSlice, List.cons_append, List.cons.injEq, true_and] at h
  exact joinSp_members_inj hm hn (List.append_cancel_right h)

/-! ## decimal number immediately followed by a fixed-width address (`%d%s`) -/

theorem x_not_in_fmtNat (n : Nat) : 'x' ∉ fmtNat n := fun h => absurd (fmtNat_digits n _ h) (by decide)

/-- a number followed by a 0x-address never reads as a (longer) number followed by a base58 address: the `x` would
have to be a digit -/
theorem nat_eth_ne_nat_tron {m n : Nat} {a b : Str} (ha : isEthAddr a = true) (hb : isTronAddr b = true) :
    fmtNat m ++ a ≠ fmtNat n ++ b := by
  intro h
  have la := isEthAddr_length ha
  have lb := isTronAddr_length hb
  have hl := congrArg List.length h
  simp only [List.length_append, la, lb] at hl
  simp only [isEthAddr, Bool.and_eq_true, beq_iff_eq] at ha
  have ea : a = '0' :: 'x' :: a.drop 2 := by
    have := List.take_append_drop 2 a
    rw [ha.1.2] at this
    exact this.symm
  rw [ea] at h
  have h' : (fmtNat m ++ ['0', 'x']) ++ a.drop 2 = fmtNat n ++ b := by simpa using h
  rcases List.append_eq_append_iff.mp h' with ⟨a', h1, _⟩ | ⟨c', h1, _⟩
  · exact x_not_in_fmtNat n (by rw [h1]; simp)
  · have := congrArg List.length h1
    simp only [List.length_append, List.length_cons, List.length_nil] at this
    omega

/-- `%d%s` with a fixed-width address: the boundary is determined, also when the two claims were validated for chains
of different address classes -/
theorem nat_addr_split {k k' : AddrKind} {m n : Nat} {a b : Str} (ha : isExtAddr k a = true) (hb : isExtAddr k' b = true)
    (h : fmtNat m ++ a = fmtNat n ++ b) : m = n ∧ a = b := by
  have same : a.length = b.length → m = n ∧ a = b := fun hl =>
    have := List.append_inj' h hl
    ⟨fmtNat_inj this.1, this.2⟩
  cases k <;> cases k' <;> simp only [isExtAddr] at ha hb
  · exact same (by rw [isEthAddr_length ha, isEthAddr_length hb])
  · exact absurd h (nat_eth_ne_nat_tron ha hb)
  · exact absurd hb (by simp)
  · exact absurd h.symm (nat_eth_ne_nat_tron hb ha)
  · exact same (by rw [isTronAddr_length ha, isTronAddr_length hb])
  · exact absurd hb (by simp)
  · exact absurd ha (by simp)
  · exact absurd ha (by simp)
  · exact absurd ha (by simp)

/-! ## `/`-freeness, packaged for the path proofs -/

def NoSlash (s : Str) : Prop := ∀ c ∈ s, c ≠ '/'

theorem Alnum.noSlash {s : Str} (h : Alnum s) : NoSlash s := h.ne '/' (by decide)

theorem NoSlash.append {a b : Str} (ha : NoSlash a) (hb : NoSlash b) : NoSlash (a ++ b) := by
  intro c hc
  rcases List.mem_append.mp hc with hc | hc
  · exact ha c hc
  · exact hb c hc

theorem noSlash_nat (n : Nat) : NoSlash (fmtNat n) := (fmtNat_alnum n).noSlash
theorem noSlash_addr {k : AddrKind} {s : Str} (h : isExtAddr k s = true) : NoSlash s := (isExtAddr_alnum h).noSlash
theorem noSlash_hex {s : Str} (h : isHexData s = true) : NoSlash s := (isHexData_alnum h).noSlash
theorem noSlash_bech {s : Str} (h : isBech32ish s = true) : NoSlash s := (isBech32ish_alnum h).noSlash
theorem noSlash_int (a : Option Int) : NoSlash (fmtInt a) := fun c hc => (fmtInt_chars a c hc).1
theorem noSlash_bool (b : Bool) : NoSlash (fmt_t_bool b) := (fmtBool_alnum b).noSlash
theorem noSlash_hexStr {s : Str} (h : isBytes s = true) : NoSlash (fmtHexStr s) := (fmtHexStr_alnum h).noSlash

theorem addrs_elem {k : AddrKind} {xs : List Str} (h : xs.all (isExtAddr k) = true) :
    ∀ x ∈ xs, x ≠ [] ∧ ∀ c ∈ x, c ≠ ' ' := fun x hx =>
  have hx' := List.all_eq_true.mp h x hx
  ⟨isExtAddr_ne_nil hx', (isExtAddr_alnum hx').ne ' ' (by decide)⟩

theorem noSlash_addrs {k : AddrKind} {xs : List Str} (h : xs.all (isExtAddr k) = true) : NoSlash (fmtSlice xs) :=
  fmtSlice_noslash fun x hx => noSlash_addr (List.all_eq_true.mp h x hx)

theorem ints_elem (xs : List (Option Int)) : ∀ x ∈ xs.map fmtInt, x ≠ [] ∧ ∀ c ∈ x, c ≠ ' ' := by
  intro x hx
  obtain ⟨a, _, rfl⟩ := List.mem_map.mp hx
  exact ⟨fmtInt_ne_nil a, fun c hc => (fmtInt_chars a c hc).2.1⟩

theorem noSlash_ints (xs : List (Option Int)) : NoSlash (fmtSlice (xs.map fmtInt)) :=
  fmtSlice_noslash fun x hx => by
    obtain ⟨a, _, rfl⟩ := List.mem_map.mp hx
    exact noSlash_int a

theorem members_addr {k : AddrKind} {ms : List BridgeValidator}
    (h : ms.all (fun m => isExtAddr k m.ExternalAddress && m.Power != 0) = true) :
    ∀ m ∈ ms, isExtAddr k m.ExternalAddress = true := fun m hm => by
  have := List.all_eq_true.mp h m hm
  simp only [Bool.and_eq_true] at this
  exact this.1

end FxVerif.Proofs.C03
