import FxVerif.Proofs.C13Fits
/-!
Stake accounting as an inductive invariant: for an oracle record that governance has never removed (ghost `undel = 0`),
`DelegateAmount` = what the oracle transferred to its delegate address (ghost `sent`) = what is delegated on its behalf to
its `DelegateValidator` — for every history without validator slashing.  (For a record that WAS removed and re-approved
the equality is false on the real code: known finding, see `Props/C13.lean`.)
-/
namespace FxVerif.Proofs.C13
open FxVerif.Model.C13 FxVerif.Gen.C13

def ghOf (s : State) (a : Nat) : Ghost := (Store.get s.gh a).getD {}

structure StakeInv (s : State) : Prop where
  /-- a delegation of a delegate address exists only towards the validator its oracle record names -/
  own : ∀ o v t, Store.get s.deleg (o, v) = some t → ∃ r, Store.get s.oracles o = some r ∧ r.val = v
  /-- never removed by governance ⇒ recorded = delegated = sent -/
  acc : ∀ a r, Store.get s.oracles a = some r → (ghOf s a).undel = 0 →
    Store.get s.deleg (a, r.val) = some r.amount ∧ (ghOf s a).sent = r.amount
  /-- off the governance list ⇒ nothing is delegated any more (governance removal undelegates everything) -/
  out : ∀ a r, Store.get s.oracles a = some r → a ∉ s.proposal → Store.get s.deleg (a, r.val) = none

theorem get_of_mem_nodup {κ α : Type} [DecidableEq κ] : ∀ (s : Store κ α) (k : κ) (v : α),
    (s.map (·.1)).Nodup → (k, v) ∈ s → Store.get s k = some v := by
  intro s
  induction s with
  | nil => intro k v _ h; simp at h
  | cons p rest ih =>
    intro k v hn hm
    rw [List.map_cons] at hn
    have hn' := List.nodup_cons.mp hn
    rcases List.mem_cons.mp hm with e | hm'
    · subst e; simp [Store.get]
    · have hne : p.1 ≠ k := by
        intro e
        apply hn'.1
        exact List.mem_map.mpr ⟨(k, v), hm', by simp [e]⟩
      have hb : (p.1 == k) = false := by simpa using hne
      have := ih k v hn'.2 hm'
      unfold Store.get at this ⊢
      simp only [List.find?_cons, hb]
      exact this

/-- states that agree on everything the invariant reads -/
theorem stake_same (s t : State) (hi : StakeInv s) (ho : t.oracles = s.oracles) (hd : t.deleg = s.deleg) (hg : t.gh = s.gh)
    (hp : t.proposal = s.proposal) : StakeInv t := by
  refine ⟨?_, ?_, ?_⟩
  · intro o v x h; rw [hd] at h; rw [ho]; exact hi.own o v x h
  · intro a r h hu; rw [ho] at h; rw [hd]
    have : ghOf t a = ghOf s a := by simp [ghOf, hg]
    rw [this] at hu ⊢; exact hi.acc a r h hu
  · intro a r h hn; rw [ho] at h; rw [hp] at hn; rw [hd]; exact hi.out a r h hn

/-- records mapped by a function that keeps amount and validator -/
theorem stake_mapVals (s t : State) (g : Oracle → Oracle) (hi : StakeInv s) (ho : t.oracles = Store.mapVals g s.oracles)
    (hd : t.deleg = s.deleg) (hg : t.gh = s.gh) (hp : t.proposal = s.proposal)
    (hk : ∀ o, (g o).amount = o.amount ∧ (g o).val = o.val) : StakeInv t := by
  have hgh : ∀ a, ghOf t a = ghOf s a := by intro a; simp [ghOf, hg]
  refine ⟨?_, ?_, ?_⟩
  · intro o v x h; rw [hd] at h
    obtain ⟨r, hr, hv⟩ := hi.own o v x h
    exact ⟨g r, by rw [ho, get_mapVals, hr]; rfl, by rw [(hk r).2]; exact hv⟩
  · intro a r h hu
    rw [ho, get_mapVals] at h
    cases hr : Store.get s.oracles a with
    | none => rw [hr] at h; simp at h
    | some r0 =>
      rw [hr] at h; simp at h; subst h
      rw [hgh] at hu ⊢
      rw [hd, (hk r0).1, (hk r0).2]
      exact hi.acc a r0 hr hu
  · intro a r h hn
    rw [ho, get_mapVals] at h
    cases hr : Store.get s.oracles a with
    | none => rw [hr] at h; simp at h
    | some r0 =>
      rw [hr] at h; simp at h; subst h
      rw [hp] at hn
      rw [hd, (hk r0).2]
      exact hi.out a r0 hr hn

/-! ## the governance removal fold -/

def undelStep (acc : Option State) (o : Oracle) : Option State :=
  match acc with
  | none => none
  | some st => stakeUndelegateAll st o.addr o.val

theorem fold_none (l : List Oracle) : l.foldl undelStep none = none := by
  induction l with
  | nil => rfl
  | cons _ _ ih => simpa [undelStep] using ih

theorem stakeUndelegateAll_char (s t : State) (o v : Nat) (h : stakeUndelegateAll s o v = some t) :
    ∃ t0, Store.get s.deleg (o, v) = some t0 ∧ t.deleg = Store.erase s.deleg (o, v) ∧
      t.gh = Store.set s.gh o { (ghOf s o) with undel := (ghOf s o).undel + t0 } := by
  unfold stakeUndelegateAll at h
  split at h
  · simp at h
  · rename_i t0 ht0
    simp only at h
    split at h
    · simp at h
    · injection h with h; subst h; exact ⟨t0, ht0, rfl, rfl⟩

/-- what the fold of `stakeUndelegateAll` over records with distinct addresses does to delegations and ghosts -/
theorem undelFold_char : ∀ (l : List Oracle) (s t : State), l.foldl undelStep (some s) = some t →
    (l.map (·.addr)).Nodup →
    (∀ k, Store.get t.deleg k = if l.any (fun o => (o.addr, o.val) == k) then none else Store.get s.deleg k) ∧
    (∀ a, (∀ o ∈ l, o.addr ≠ a) → Store.get t.gh a = Store.get s.gh a) ∧
    (∀ o ∈ l, ∃ t0, Store.get s.deleg (o.addr, o.val) = some t0 ∧ (ghOf t o.addr).undel = (ghOf s o.addr).undel + t0) := by
  intro l
  induction l with
  | nil =>
    intro s t h _
    simp at h; subst h
    exact ⟨by intro k; simp, by intro a _; rfl, by intro o ho; simp at ho⟩
  | cons o rest ih =>
    intro s t h hn
    simp only [List.foldl_cons] at h
    have hstep : undelStep (some s) o = stakeUndelegateAll s o.addr o.val := rfl
    rw [hstep] at h
    rw [List.map_cons] at hn
    have hn' := List.nodup_cons.mp hn
    cases hu : stakeUndelegateAll s o.addr o.val with
    | none => rw [hu, fold_none] at h; simp at h
    | some s1 =>
      rw [hu] at h
      obtain ⟨t0, hd0, hdel, hgh⟩ := stakeUndelegateAll_char s s1 _ _ hu
      obtain ⟨ib, ic, id'⟩ := ih s1 t h hn'.2
      have hnotin : ∀ o' ∈ rest, o'.addr ≠ o.addr := by
        intro o' ho' e
        exact hn'.1 (List.mem_map.mpr ⟨o', ho', e⟩)
      refine ⟨?_, ?_, ?_⟩
      · intro k
        rw [ib k, hdel, get_erase]
        by_cases hk : ((o.addr, o.val) == k) = true
        · have hk' : k = (o.addr, o.val) := by simpa using Eq.symm (by simpa using hk)
          simp [List.any_cons, hk, hk']
        · have hk' : ¬ k = (o.addr, o.val) := by
            intro e; apply hk; rw [e]; simp
          simp only [List.any_cons, hk, Bool.false_or, hk', if_false]
      · intro a ha
        rw [ic a (fun o' ho' => ha o' (by simp [ho'])), hgh, get_set]
        have : a ≠ o.addr := fun e => ha o (by simp) e.symm
        simp [this]
      · intro o' ho'
        rcases List.mem_cons.mp ho' with e | hm
        · subst e
          refine ⟨t0, hd0, ?_⟩
          have h1 : ghOf t o'.addr = ghOf s1 o'.addr := by
            simp only [ghOf]; rw [ic o'.addr (fun x hx => hnotin x hx)]
          rw [h1]
          simp [ghOf, hgh, get_set]
        · obtain ⟨t1, hd1, hu1⟩ := id' o' hm
          have hne : o'.addr ≠ o.addr := hnotin o' hm
          refine ⟨t1, ?_, ?_⟩
          · rw [hdel, get_erase] at hd1
            have : ¬ (o'.addr, o'.val) = (o.addr, o.val) := by
              intro e; exact hne (by injection e)
            simpa [this] using hd1
          · rw [hu1]
            have : ghOf s1 o'.addr = ghOf s o'.addr := by
              simp only [ghOf, hgh, get_set, hne, if_false]
            rw [this]

/-! ## every op (except a validator slash) keeps the invariant -/

theorem gov_stake (s : State) (l : List Nat) (hthr : 0 < s.p.thr) (hinv : Inv s) (hfit : FitInv s) (hi : StakeInv s) :
    StakeInv (govUpdate s l).1 := by
  unfold govUpdate
  split
  · exact hi
  · simp only
    split
    · exact hi
    · split
      · exact hi
      · rename_i s2 hfold
        -- the list of records that are undelegated
        generalize hL : (Store.vals s.oracles).filter (fun o => !l.contains o.addr && s.proposal.contains o.addr) = L at hfold
        have hf := undelegateFold_frame _ _ _ hfold
        have hpf0 := undelegateFold_prop _ _ _ hfold
        have hpf : s2.proposal = l := hpf0
        have hvals : (Store.vals s.oracles).map (·.addr) = s.oracles.map (·.1) := by
          simp only [Store.vals, List.map_map]
          apply List.map_congr_left
          intro p hp
          exact hfit.key p hp
        have hnd : (L.map (·.addr)).Nodup := by
          rw [← hL]
          exact List.Nodup.sublist (List.Sublist.map _ List.filter_sublist) (by rw [hvals]; exact hfit.nodup)
        have hfold' : L.foldl undelStep (some { s with proposal := l }) = some s2 := hfold
        obtain ⟨cb, cc, cd⟩ := undelFold_char L _ s2 hfold' hnd
        have memL : ∀ a r, Store.get s.oracles a = some r → (r ∈ L ↔ (a ∉ l ∧ a ∈ s.proposal)) := by
          intro a r hr
          have hk : r.addr = a := hinv.reg.key a r hr
          rw [← hL, List.mem_filter]
          constructor
          · intro h; simpa [hk] using h.2
          · intro h; exact ⟨mem_vals_of_get _ _ _ hr, by simpa [hk] using h⟩
        have ofL : ∀ o ∈ L, Store.get s.oracles o.addr = some o := by
          intro o ho
          rw [← hL] at ho
          have hv := (List.mem_filter.mp ho).1
          simp only [Store.vals] at hv
          obtain ⟨p, hp, e⟩ := List.mem_map.mp hv
          have hk := hfit.key p hp
          obtain ⟨k, v⟩ := p
          simp only at e hk
          subst e
          rw [hk]
          exact get_of_mem_nodup _ _ _ hfit.nodup hp
        -- invariant for the state after the fold (records untouched so far)
        have hi2 : StakeInv s2 := by
          refine ⟨?_, ?_, ?_⟩
          · intro o v x h
            rw [cb] at h
            split at h
            · simp at h
            · rw [hf.1]; exact hi.own o v x h
          · intro a r hr hu
            rw [hf.1] at hr
            have hr' : Store.get s.oracles a = some r := hr
            by_cases hin : r ∈ L
            · exfalso
              obtain ⟨t0, hd0, hu0⟩ := cd r hin
              have hk : r.addr = a := hinv.reg.key a r hr'
              rw [hk] at hd0 hu0
              have h1 : (ghOf s a).undel = 0 := by
                have : (ghOf { s with proposal := l } a) = ghOf s a := rfl
                rw [this] at hu0; omega
              have h2 : t0 = 0 := by
                have : (ghOf { s with proposal := l } a) = ghOf s a := rfl
                rw [this] at hu0; omega
              have := (hi.acc a r hr' h1).1
              have hd0' : Store.get s.deleg (a, r.val) = some t0 := hd0
              rw [this] at hd0'
              injection hd0' with e
              have := (hinv.recs a r hr').2.2.1
              omega
            · have hno : ∀ o ∈ L, o.addr ≠ a := by
                intro o ho e
                have := ofL o ho
                rw [e, hr'] at this
                injection this with e'
                exact hin (e' ▸ ho)
              have hg : ghOf s2 a = ghOf s a := by
                simp only [ghOf]; rw [cc a hno]
              rw [hg] at hu ⊢
              obtain ⟨h1, h2⟩ := hi.acc a r hr' hu
              refine ⟨?_, h2⟩
              rw [cb]
              have : L.any (fun o => (o.addr, o.val) == (a, r.val)) = false := by
                rw [List.any_eq_false]
                intro o ho hc
                have : o.addr = a := by
                  have := (by simpa using hc : o.addr = a ∧ o.val = r.val)
                  exact this.1
                exact hno o ho this
              simp only [this, Bool.false_eq_true, if_false]
              exact h1
          · intro a r hr hn
            rw [hf.1] at hr
            have hr' : Store.get s.oracles a = some r := hr
            rw [hpf] at hn
            rw [cb]
            split
            · rfl
            · by_cases hp : a ∈ s.proposal
              · exfalso
                rename_i hany
                have hin : r ∈ L := (memL a r hr').mpr ⟨hn, hp⟩
                apply hany
                rw [List.any_eq_true]
                exact ⟨r, hin, by simp [hinv.reg.key a r hr']⟩
              · exact hi.out a r hr' hp
        exact stake_mapVals s2 _ (fun o => if (!l.contains o.addr && s.proposal.contains o.addr) = true
            then { o with online := false } else o) hi2 rfl rfl rfl rfl (by intro o; split <;> exact ⟨rfl, rfl⟩)

theorem stakeDelegate_char (s t : State) (o v amt : Nat) (h : stakeDelegate s o v amt = some t) :
    t.deleg = Store.set s.deleg (o, v) ((Store.get s.deleg (o, v)).getD 0 + amt) ∧ t.gh = s.gh := by
  unfold stakeDelegate at h
  split at h
  · injection h with h; subst h; exact ⟨rfl, rfl⟩
  · simp at h

/-- one record written under address `a`; delegations and ghosts of every OTHER address untouched; the local facts about
address `a` are supplied by the caller -/
theorem stake_update (s t : State) (a : Nat) (r' : Oracle) (hi : StakeInv s)
    (ho : t.oracles = Store.set s.oracles a r') (hp : t.proposal = s.proposal)
    (hdel : ∀ k : Nat × Nat, k.1 ≠ a → Store.get t.deleg k = Store.get s.deleg k)
    (hgh : ∀ x, x ≠ a → ghOf t x = ghOf s x)
    (hown : ∀ v x, Store.get t.deleg (a, v) = some x → v = r'.val)
    (hacc : (ghOf t a).undel = 0 → Store.get t.deleg (a, r'.val) = some r'.amount ∧ (ghOf t a).sent = r'.amount)
    (hout : a ∉ s.proposal → Store.get t.deleg (a, r'.val) = none) : StakeInv t := by
  refine ⟨?_, ?_, ?_⟩
  · intro o v x h
    rw [ho, get_set]
    by_cases e : o = a
    · subst e; simp only [if_true]; exact ⟨r', rfl, (hown v x h).symm⟩
    · simp only [e, if_false]
      rw [hdel (o, v) e] at h
      exact hi.own o v x h
  · intro a' r hr hu
    rw [ho, get_set] at hr
    by_cases e : a' = a
    · subst e; simp only [if_true] at hr; injection hr with hr; subst hr; exact hacc hu
    · simp only [e, if_false] at hr
      rw [hgh a' e] at hu ⊢
      rw [hdel (a', r.val) e]
      exact hi.acc a' r hr hu
  · intro a' r hr hn
    rw [ho, get_set] at hr
    rw [hp] at hn
    by_cases e : a' = a
    · subst e; simp only [if_true] at hr; injection hr with hr; subst hr; exact hout hn
    · simp only [e, if_false] at hr
      rw [hdel (a', r.val) e]
      exact hi.out a' r hr hn

theorem ghOf_set_ne (g : Store Nat Ghost) (a x : Nat) (v : Ghost) (h : x ≠ a) :
    (Store.get (Store.set g a v) x).getD {} = (Store.get g x).getD {} := by
  rw [get_set]; simp [h]

theorem bond_stake (hc : GuardCodeOk) (s : State) (o b e v amt : Nat) (hi : StakeInv s) : StakeInv (bond s o b e v amt).1 := by
  obtain ⟨g1, g2, g3, g4, g5, g6, _⟩ := hc
  unfold bond
  simp only [g1, g2, g3, g4, g5, g6, Bool.true_and]
  split
  · exact hi
  · rename_i hprop
    split
    · exact hi
    · rename_i hnone
      split
      · exact hi
      · split
        · exact hi
        · split
          · exact hi
          · split
            · exact hi
            · split
              · exact hi
              · split
                · exact hi
                · rename_i s2 hs2
                  have hno : Store.get s.oracles o = none := by simpa [Store.has] using hnone
                  have hin : o ∈ s.proposal := by simpa using hprop
                  have hf := stakeDelegate_frame _ _ _ _ _ hs2
                  have hpf0 := stakeDelegate_prop _ _ _ _ _ hs2
                  have hpf : s2.proposal = s.proposal := hpf0
                  obtain ⟨hd, hg⟩ := stakeDelegate_char _ _ _ _ _ hs2
                  have hnone' : ∀ v', Store.get s.deleg (o, v') = none := by
                    intro v'
                    cases h : Store.get s.deleg (o, v') with
                    | none => rfl
                    | some x => obtain ⟨r, hr, _⟩ := hi.own o v' x h; rw [hno] at hr; simp at hr
                  have hd' : s2.deleg = Store.set s.deleg (o, v) amt := by
                    rw [hd]; show Store.set s.deleg (o, v) ((Store.get s.deleg (o, v)).getD 0 + amt) = _
                    rw [hnone' v]; simp
                  have hg' : s2.gh = s.gh := hg
                  refine stake_update s _ o ⟨o, b, e, amt, s.height, true, v, 0⟩ hi (by simp only [refreshPower, hf.1]) hpf ?_ ?_ ?_ ?_ ?_
                  · intro k hk
                    simp only [refreshPower]
                    rw [hd', get_set]
                    have : ¬ k = (o, v) := by intro e'; apply hk; rw [e']
                    simp [this]
                  · intro x hx
                    simp only [refreshPower, ghOf]
                    rw [ghOf_set_ne _ _ _ _ hx, hg']
                  · intro v' x h
                    simp only [refreshPower] at h
                    rw [hd', get_set] at h
                    by_cases e' : (o, v') = (o, v)
                    · injection e' with _ e2
                    · simp only [e', if_false] at h
                      rw [hnone' v'] at h; simp at h
                  · intro _
                    simp only [refreshPower, ghOf]
                    rw [hd', get_set, get_set]
                    simp
                  · intro hn; exact absurd hin hn

theorem add_stake (hc : GuardCodeOk) (s : State) (o amt : Nat) (hi : StakeInv s) : StakeInv (addDelegate s o amt).1 := by
  have hre := reactivate_eq hc
  obtain ⟨_, _, _, _, _, _, _, a1, a2, a3, a4, _⟩ := hc
  unfold addDelegate
  simp only [a1, a2, a3, a4, Bool.true_and, hre]
  split
  · exact hi
  · rename_i hprop
    split
    · exact hi
    · rename_i r hr
      try simp only
      split
      · exact hi
      · split
        · exact hi
        · split
          · exact hi
          · split
            · exact hi
            · split
              · exact hi
              · rename_i s2 hs2
                have hin : o ∈ s.proposal := by simpa using hprop
                let r' : Oracle := { r with amount := r.amount + (amt - slashAmount s.p r), online := true, startHeight := (if r.online then r.startHeight else s.height), slashTimes := 0 }
                have hown0 : ∀ v' x, Store.get s.deleg (o, v') = some x → v' = r.val := by
                  intro v' x h
                  obtain ⟨r0, hr0, hv⟩ := hi.own o v' x h
                  rw [hr] at hr0; injection hr0 with e'; rw [e']; exact hv.symm
                by_cases hpos : amt - slashAmount s.p r > 0
                · rw [if_pos hpos] at hs2
                  have hf := stakeDelegate_frame _ _ _ _ _ hs2
                  have hpf0 := stakeDelegate_prop _ _ _ _ _ hs2
                  have hpf : s2.proposal = s.proposal := hpf0
                  obtain ⟨hd, hg⟩ := stakeDelegate_char _ _ _ _ _ hs2
                  have hd' : s2.deleg = Store.set s.deleg (o, r.val) ((Store.get s.deleg (o, r.val)).getD 0 + (amt - slashAmount s.p r)) := hd
                  have hg' : s2.gh = s.gh := hg
                  refine stake_update s _ o r' hi (by simp only [refreshPower, hf.1]; rfl) hpf ?_ ?_ ?_ ?_ ?_
                  · intro k hk
                    simp only [refreshPower]
                    rw [hd', get_set]
                    have : ¬ k = (o, r.val) := by intro e'; apply hk; rw [e']
                    simp [this]
                  · intro x hx
                    simp only [refreshPower, ghOf]
                    rw [ghOf_set_ne _ _ _ _ hx, hg']
                  · intro v' x h
                    simp only [refreshPower] at h
                    rw [hd', get_set] at h
                    by_cases e' : (o, v') = (o, r.val)
                    · injection e' with _ e2
                    · simp only [e', if_false] at h
                      exact absurd (hown0 v' x h) (by intro e2; apply e'; rw [e2])
                  · intro hu
                    simp only [refreshPower, ghOf] at hu ⊢
                    rw [get_set] at hu ⊢
                    simp only [if_true, Option.getD_some] at hu ⊢
                    rw [hg'] at hu ⊢
                    have hu0 : (ghOf s o).undel = 0 := hu
                    obtain ⟨h1, h2⟩ := hi.acc o r hr hu0
                    rw [hd', get_set]
                    try simp only [if_true]
                    rw [h1]
                    have h2' : ((Store.get s.gh o).getD {}).sent = r.amount := h2
                    simp [r', h2']
                  · intro hn; exact absurd hin hn
                · rw [if_neg hpos] at hs2
                  injection hs2 with hs2; subst hs2
                  have hz : amt - slashAmount s.p r = 0 := by omega
                  refine stake_update s _ o r' hi (by simp only [refreshPower]; rfl) rfl ?_ ?_ ?_ ?_ ?_
                  · intro k _; rfl
                  · intro x hx
                    simp only [refreshPower, ghOf]
                    rw [ghOf_set_ne _ _ _ _ hx]
                  · intro v' x h; exact hown0 v' x h
                  · intro hu
                    simp only [refreshPower, ghOf] at hu ⊢
                    rw [get_set] at hu ⊢
                    simp only [if_true, Option.getD_some] at hu ⊢
                    have hu0 : (ghOf s o).undel = 0 := hu
                    obtain ⟨h1, h2⟩ := hi.acc o r hr hu0
                    have h2' : ((Store.get s.gh o).getD {}).sent = r.amount := h2
                    refine ⟨by simpa [r', hz] using h1, by simp [r', hz, h2']⟩
                  · intro hn; exact absurd hin hn

theorem stakeRedelegateAll_char (s t : State) (o a b : Nat) (h : stakeRedelegateAll s o a b = some t) :
    ∃ t0, Store.get s.deleg (o, a) = some t0 ∧ a ≠ b ∧
      t.deleg = Store.set (Store.erase s.deleg (o, a)) (o, b) ((Store.get s.deleg (o, b)).getD 0 + t0) ∧ t.gh = s.gh := by
  unfold stakeRedelegateAll at h
  split at h
  · simp at h
  · rename_i t0 ht0
    split at h
    · simp at h
    · rename_i hc
      split at h
      · simp at h
      · split at h
        · simp at h
        · injection h with h; subst h
          have : a ≠ b := by
            intro e; apply hc; simp [e]
          exact ⟨t0, ht0, this, rfl, rfl⟩

theorem redel_stake (s : State) (o v : Nat) (hfit : FitInv s) (hi : StakeInv s) : StakeInv (reDelegate s o v).1 := by
  unfold reDelegate
  split
  · exact hi
  · rename_i r hr
    split
    · exact hi
    · rename_i hon
      split
      · exact hi
      · split
        · exact hi
        · rename_i s1 hs1
          have hf := stakeRedelegateAll_frame _ _ _ _ _ hs1
          have hpf0 := stakeRedelegateAll_prop _ _ _ _ _ hs1
          have hpf : s1.proposal = s.proposal := hpf0
          obtain ⟨t0, hd0, hne, hd, hg⟩ := stakeRedelegateAll_char _ _ _ _ _ hs1
          have hown0 : ∀ v' x, Store.get s.deleg (o, v') = some x → v' = r.val := by
            intro v' x h
            obtain ⟨r0, hr0, hv⟩ := hi.own o v' x h
            rw [hr] at hr0; injection hr0 with e'; rw [e']; exact hv.symm
          have hdst : Store.get s.deleg (o, v) = none := by
            cases h : Store.get s.deleg (o, v) with
            | none => rfl
            | some x => exact absurd (hown0 v x h) (fun e => hne e.symm)
          have hd' : s1.deleg = Store.set (Store.erase s.deleg (o, r.val)) (o, v) t0 := by
            rw [hd, hdst]; simp
          have honl : r.online = true := by simpa using hon
          have hin : o ∈ s.proposal := hfit.onl (o, r) (mem_of_get _ _ _ hr) honl
          refine stake_update s _ o { r with val := v } hi (by simp only [hf.1]) hpf ?_ ?_ ?_ ?_ ?_
          · intro k hk
            simp only
            rw [hd', get_set, get_erase]
            have h1 : ¬ k = (o, v) := by intro e'; apply hk; rw [e']
            have h2 : ¬ k = (o, r.val) := by intro e'; apply hk; rw [e']
            simp [h1, h2]
          · intro x _
            simp only [ghOf, hg]
          · intro v' x h
            simp only at h
            rw [hd', get_set, get_erase] at h
            by_cases e' : (o, v') = (o, v)
            · injection e' with _ e2
            · simp only [e', if_false] at h
              split at h
              · simp at h
              · rename_i hne2
                exact absurd (hown0 v' x h) (by intro e2; apply hne2; rw [e2])
          · intro hu
            simp only [ghOf, hg] at hu ⊢
            have hu0 : (ghOf s o).undel = 0 := hu
            obtain ⟨h1, h2⟩ := hi.acc o r hr hu0
            rw [hd0] at h1; injection h1 with h1
            rw [hd', get_set]
            simp only [if_true]
            exact ⟨by rw [h1], h2⟩
          · intro hn; exact absurd hin hn

theorem editb_stake (s : State) (o b : Nat) (hi : StakeInv s) : StakeInv (editBridger s o b).1 := by
  unfold editBridger
  split
  · exact hi
  · rename_i r hr
    split
    · exact hi
    · split
      · exact hi
      · split
        · exact hi
        · have hown0 : ∀ v' x, Store.get s.deleg (o, v') = some x → v' = r.val := by
            intro v' x h
            obtain ⟨r0, hr0, hv⟩ := hi.own o v' x h
            rw [hr] at hr0; injection hr0 with e'; rw [e']; exact hv.symm
          exact stake_update s _ o { r with bridger := b } hi rfl rfl (fun _ _ => rfl) (fun _ _ => rfl) hown0
            (fun hu => hi.acc o r hr hu) (fun hn => hi.out o r hr hn)

theorem withdraw_stake (s : State) (o : Nat) (hi : StakeInv s) : StakeInv (withdrawReward s o).1 := by
  unfold withdrawReward
  split
  · exact hi
  · split
    · exact hi
    · split
      · exact hi
      · split
        · exact hi
        · exact stake_same s _ hi rfl rfl rfl rfl

theorem unbond_stake (s : State) (o : Nat) (hi : StakeInv s) : StakeInv (unbond s o).1 := by
  unfold unbond
  split
  · exact hi
  · rename_i hprop
    split
    · exact hi
    · rename_i r hr
      split
      · exact hi
      · simp only
        split
        · exact hi
        · split
          · exact hi
          · have hn : o ∉ s.proposal := by simpa using hprop
            have hnone : ∀ v', Store.get s.deleg (o, v') = none := by
              intro v'
              cases h : Store.get s.deleg (o, v') with
              | none => rfl
              | some x =>
                obtain ⟨r0, hr0, hv⟩ := hi.own o v' x h
                rw [hr] at hr0; injection hr0 with e'
                have := hi.out o r hr hn
                rw [e', hv] at this; rw [this] at h; simp at h
            refine ⟨?_, ?_, ?_⟩
            · intro o' v' x h
              simp only at h ⊢
              have : o' ≠ o := by intro e; subst e; rw [hnone v'] at h; simp at h
              rw [get_erase]; simp only [this, if_false]
              exact hi.own o' v' x h
            · intro a r0 hr0 hu
              simp only at hr0 hu ⊢
              rw [get_erase] at hr0
              by_cases e : a = o
              · simp [e] at hr0
              · simp only [e, if_false] at hr0
                have hg : ghOf { s with burned := s.burned + slashAmount s.p r, dbal := Store.set s.dbal o 0, bal := Store.set s.bal o (getBal s.bal o + (getBal s.dbal o - slashAmount s.p r)), byExt := Store.erase s.byExt r.ext, byBridger := Store.erase s.byBridger r.bridger, oracles := Store.erase s.oracles o, gh := Store.erase s.gh o } a = ghOf s a := by
                  simp [ghOf, get_erase, e]
                rw [hg] at hu ⊢
                exact hi.acc a r0 hr0 hu
            · intro a r0 hr0 hn0
              simp only at hr0 hn0 ⊢
              rw [get_erase] at hr0
              by_cases e : a = o
              · simp [e] at hr0
              · simp only [e, if_false] at hr0
                exact hi.out a r0 hr0 hn0

theorem confirm_stake (s : State) (k : Kind) (n e b : Nat) (sg : Bool) (hi : StakeInv s) : StakeInv (confirm s k n e b sg).1 := by
  unfold confirm
  split
  · exact hi
  · split
    · exact hi
    · split
      · exact hi
      · split
        · exact hi
        · split
          · exact hi
          · split
            · exact hi
            · split
              · exact hi
              · cases k <;> exact stake_same s _ hi rfl rfl rfl rfl

theorem block_stake (hcode : SlashCodeOk) (s : State) (dt : Nat) (hi : StakeInv s) : StakeInv (block s dt).1 := by
  unfold block
  split
  · exact hi
  · rename_i s1 he
    obtain ⟨hc, g, hg, hrel⟩ := endBlock_rel hcode s s.height s1 he
    have h1 : StakeInv s1 := stake_mapVals s s1 g hi hg hc.dl hc.gh hc.pr
      (fun o => ⟨(hrel o).2.2.2.1, (hrel o).2.2.2.2.2.1⟩)
    exact stake_same s1 _ h1 rfl rfl rfl rfl

/-- the three invariants together, for histories without a validator slash and a positive threshold -/
structure AllInv (s : State) : Prop where
  inv : Inv s
  fit : FitInv s
  stake : StakeInv s

def noValSlash : Op → Bool
  | .valslash _ _ _ => false
  | _ => true

theorem step_all (hs : SlashCodeOk) (hg : GuardCodeOk) (s : State) (op : Op) (hthr : 0 < s.p.thr) (hop : noValSlash op = true)
    (hi : AllInv s) : AllInv (step s op).1 := by
  refine ⟨step_inv hs hg s op hi.inv, step_fit hs hg s op hi.fit, ?_⟩
  cases op with
  | gov l => exact gov_stake s l hthr hi.inv hi.fit hi.stake
  | bond o b e v amt => exact bond_stake hg s o b e v amt hi.stake
  | add o amt => exact add_stake hg s o amt hi.stake
  | redel o v => exact redel_stake s o v hi.fit hi.stake
  | editb o b => exact editb_stake s o b hi.stake
  | withdraw o => exact withdraw_stake s o hi.stake
  | fund o amt => exact stake_same s _ hi.stake rfl rfl rfl rfl
  | mint o amt => exact stake_same s _ hi.stake rfl rfl rfl rfl
  | tick dt => exact stake_same s _ hi.stake rfl rfl rfl rfl
  | unbond o => exact unbond_stake s o hi.stake
  | mkbatch => simp only [step, mkBatch]; split <;> first | exact hi.stake | exact stake_same s _ hi.stake rfl rfl rfl rfl
  | mkcall => exact stake_same s _ hi.stake rfl rfl rfl rfl
  | conf k n e b sg => exact confirm_stake s k n e b sg hi.stake
  | observe n => simp only [step, observe]; repeat' split
                 all_goals first | exact hi.stake | exact stake_same s _ hi.stake rfl rfl rfl rfl
  | event bs bcs cs obs => exact stake_same s _ hi.stake rfl rfl rfl rfl
  | block dt => exact block_stake hs s dt hi.stake
  | valslash v num den => simp [noValSlash] at hop

theorem init_stake (p : Params) (bals : Store Nat Nat) : StakeInv (init p bals) := by
  refine ⟨?_, ?_, ?_⟩ <;> simp [init, Store.get]

theorem run_all (hs : SlashCodeOk) (hg : GuardCodeOk) : ∀ (ops : List Op) (s : State), 0 < s.p.thr →
    ops.all noValSlash = true → AllInv s → AllInv (run s ops) := by
  intro ops
  induction ops with
  | nil => intro s _ _ hi; exact hi
  | cons op ops ih =>
    intro s hthr hops hi
    simp only [List.all_cons, Bool.and_eq_true] at hops
    have hp : (step s op).1.p = s.p := step_params hs s op
    exact ih _ (by rw [hp]; exact hthr) hops.2 (step_all hs hg s op hthr hops.1 hi)

end FxVerif.Proofs.C13
