import FxVerif.Model.C14Acct
import FxVerif.Proofs.C14
import FxVerif.Proofs.C14Bank
/-!
# C14 — accounts: every holder of a balance, a delegation or an unbonding record exists as an account

`AcctInv` is kept by every operation other than an accepted migration whatever the code says (`acctInv_step_other`,
`acctInv_block`); for an accepted migration it is kept when the target is among the accounts afterwards
(`acctInv_accept`, used by `Props.C14` with the regenerated statement list).  Under `AcctInv` the account lookup of the
pay-out never fails: `stakingEndA_eq`, `endBlockA_eq`.
-/
namespace FxVerif.Proofs.C14
open FxVerif.Model.C14

/-- every address that holds a coin, a delegation or an unbonding record exists as an account -/
structure AcctInv (a : AState) : Prop where
  bal : ∀ x d, 0 < balOf a.s.bal x d → x ∈ a.accts
  del : ∀ x v, (get a.s.dels (x, v)).isSome = true → x ∈ a.accts
  ubd : ∀ x v, (get a.s.ubds (x, v)).isSome = true → x ∈ a.accts

theorem mem_credited {s s' : State} {x : Addr} {d : Denom} (h : balOf s.bal x d < balOf s'.bal x d) :
    x ∈ credited s s' := by
  have hg : get s'.bal (x, d) = some (balOf s'.bal x d) := by
    unfold balOf at h ⊢
    cases hh : get s'.bal (x, d) with
    | none => rw [hh] at h; simp at h
    | some n => simp
  have hm := get_some_mem s'.bal (x, d) _ hg
  unfold credited
  exact List.mem_map.mpr ⟨((x, d), balOf s'.bal x d), List.mem_filter.mpr ⟨hm, by simpa using h⟩, rfl⟩

theorem bal_inv_of_credited {accts accts' : List Addr} {s s' : State}
    (hsub : ∀ x, x ∈ accts → x ∈ accts') (hc : ∀ x, x ∈ credited s s' → x ∈ accts')
    (h : ∀ x d, 0 < balOf s.bal x d → x ∈ accts) : ∀ x d, 0 < balOf s'.bal x d → x ∈ accts' := by
  intro x d hp
  by_cases hlt : balOf s.bal x d < balOf s'.bal x d
  · exact hc x (mem_credited hlt)
  · exact hsub x (h x d (by omega))

/-! ## how the delegation and unbonding key sets change -/

theorem isSome_put {κ ν : Type} [BEq κ] [LawfulBEq κ] (m : Store κ ν) (k k' : κ) (v : ν)
    (h : (get (put m k v) k').isSome = true) : k' = k ∨ (get m k').isSome = true := by
  by_cases e : k' = k
  · exact Or.inl e
  · rw [get_put_ne m k k' v e] at h; exact Or.inr h

theorem isSome_del {κ ν : Type} [BEq κ] [LawfulBEq κ] (m : Store κ ν) (k k' : κ)
    (h : (get (del m k) k').isSome = true) : (get m k').isSome = true := by
  by_cases e : k' = k
  · subst e; rw [get_del_eq] at h; cases h
  · rw [get_del_ne m k k' e] at h; exact h

theorem touchPre_du {s s' : State} {d v rw} (h : touchPre s d v rw = some s') :
    s'.dels = s.dels ∧ s'.ubds = s.ubds := by
  unfold touchPre at h
  split at h
  · cases h; exact ⟨rfl, rfl⟩
  · split at h
    · cases h
    · cases h; exact ⟨rfl, rfl⟩

theorem touchPre_bal_none {s s' : State} {d v rw} (h : touchPre s d v rw = some s') (hn : get s.dels (d, v) = none) :
    s'.bal = s.bal := by
  unfold touchPre at h
  rw [hn] at h
  cases h; rfl

theorem unbond_du {s s' : State} {d v amt rw} (h : unbond s d v amt rw = some s') :
    s'.ubds = s.ubds ∧ (get s.dels (d, v)).isSome = true ∧
    ∀ k, (get s'.dels k).isSome = true → (get s.dels k).isSome = true := by
  unfold unbond at h
  split at h
  · cases h
  · rename_i sh hsh
    split at h
    · cases h
    · split at h
      · cases h
      · rename_i s1 h1
        cases h
        obtain ⟨e1, e2⟩ := touchPre_du h1
        refine ⟨?_, by rw [hsh]; rfl, ?_⟩
        · split <;> simpa [touchPost] using e2
        · intro k hk
          split at hk
          · simp only [] at hk
            rw [e1] at hk
            exact isSome_del _ _ _ hk
          · simp only [touchPost] at hk
            rw [e1] at hk
            rcases isSome_put _ _ _ _ hk with e | e
            · subst e; rw [hsh]; rfl
            · exact e

theorem addShares_du {s s' : State} {d v amt rw} (h : addShares s d v amt rw = some s') :
    s'.ubds = s.ubds ∧ ∀ k, (get s'.dels k).isSome = true → k = (d, v) ∨ (get s.dels k).isSome = true := by
  unfold addShares at h
  split at h
  · cases h
  · rename_i s1 h1
    cases h
    obtain ⟨e1, e2⟩ := touchPre_du h1
    refine ⟨by simpa [touchPost] using e2, ?_⟩
    intro k hk
    simp only [touchPost] at hk
    rw [e1] at hk
    exact isSome_put _ _ _ _ hk

theorem sendCoins_some_ge {b b' : Store (Addr × Denom) Nat} {x y : Addr} {d : Denom} {n : Nat}
    (h : sendCoins b x y d n = some b') : n ≤ balOf b x d := by
  unfold sendCoins at h
  split at h
  · cases h
  · omega

theorem delegate_du {s s' : State} {d v amt rw} (h : delegate s d v amt rw = some s') :
    s'.ubds = s.ubds ∧
    ∀ k, (get s'.dels k).isSome = true → (get s.dels k).isSome = true ∨ (k.1 = d ∧ 0 < balOf s.bal d 0) := by
  unfold delegate at h
  split at h
  · cases h
  · rename_i hg
    split at h
    · cases h
    · rename_i s1 h1
      split at h
      · cases h
      · rename_i b hb
        cases h
        obtain ⟨e1, e2⟩ := touchPre_du h1
        refine ⟨by simpa [touchPost] using e2, ?_⟩
        intro k hk
        simp only [touchPost] at hk
        rw [e1] at hk
        rcases isSome_put _ _ _ _ hk with e | e
        · subst e
          cases hd : get s.dels (d, v) with
          | some sh => left; rfl
          | none =>
            right
            refine ⟨rfl, ?_⟩
            have hge := sendCoins_some_ge hb
            rw [touchPre_bal_none h1 hd] at hge
            have hamt : amt ≠ 0 := by
              intro e0; subst e0; simp at hg
            omega
        · exact Or.inl e

theorem undelegate_du {s s' : State} {d v amt rw} (h : undelegate s d v amt rw = some s') :
    (get s.dels (d, v)).isSome = true ∧
    (∀ k, (get s'.dels k).isSome = true → (get s.dels k).isSome = true) ∧
    (∀ k, (get s'.ubds k).isSome = true → k = (d, v) ∨ (get s.ubds k).isSome = true) := by
  unfold undelegate at h
  split at h
  · cases h
  · simp only [] at h
    split at h
    · cases h
    · split at h
      · cases h
      · rename_i s1 h1
        split at h
        · cases h
        · cases h
          obtain ⟨e1, e2, e3⟩ := unbond_du h1
          refine ⟨e2, e3, ?_⟩
          intro k hk
          simp only [] at hk
          rw [e1] at hk
          exact isSome_put _ _ _ _ hk

theorem redelegate_du {s s' : State} {d a b amt r1 r2} (h : redelegate s d a b amt r1 r2 = some s') :
    s'.ubds = s.ubds ∧ (get s.dels (d, a)).isSome = true ∧
    ∀ k, (get s'.dels k).isSome = true → k.1 = d ∨ (get s.dels k).isSome = true := by
  unfold redelegate at h
  split at h
  · cases h
  · split at h
    · cases h
    · simp only [] at h
      split at h
      · cases h
      · split at h
        · cases h
        · rename_i s1 h1
          split at h
          · cases h
          · rename_i s2 h2
            cases h
            obtain ⟨u1, u2, u3⟩ := unbond_du h1
            obtain ⟨a1, a2⟩ := addShares_du h2
            refine ⟨a1.trans u1, u2, ?_⟩
            intro k hk
            rcases a2 k hk with e | e
            · left; rw [e]
            · exact Or.inr (u3 k e)

theorem withdraw_du {s s' : State} {d v rw} (h : withdraw s d v rw = some s') :
    s'.dels = s.dels ∧ s'.ubds = s.ubds := by
  unfold withdraw at h
  split at h
  · cases h
  · split at h
    · cases h
    · rename_i s1 h1
      cases h
      simpa [touchPost] using touchPre_du h1

theorem submit_du {s s' : State} {a dep} (h : submit s a dep = some s') : s'.dels = s.dels ∧ s'.ubds = s.ubds := by
  unfold submit at h
  split at h
  · cases h
  · cases h; exact ⟨rfl, rfl⟩

theorem deposit_du {s s' : State} {a id amt} (h : deposit s a id amt = some s') : s'.dels = s.dels ∧ s'.ubds = s.ubds := by
  unfold deposit at h
  split at h
  · cases h
  · split at h
    · cases h
    · split at h
      · cases h
      · cases h; exact ⟨rfl, rfl⟩

theorem vote_du {s s' : State} {a id} (h : vote s a id = some s') : s'.dels = s.dels ∧ s'.ubds = s.ubds := by
  unfold vote at h
  split at h
  · cases h
  · split at h
    · cases h
    · cases h; exact ⟨rfl, rfl⟩

theorem completeUnbonding_dels (s : State) (d v) : (completeUnbonding s d v).dels = s.dels := by
  unfold completeUnbonding
  split
  · rfl
  · simp only []
    split <;> rfl

theorem completeUnbonding_ubds (s : State) (d v) (k) (h : (get (completeUnbonding s d v).ubds k).isSome = true) :
    (get s.ubds k).isSome = true := by
  unfold completeUnbonding at h
  split at h
  · exact h
  · rename_i es hes
    simp only [] at h
    split at h
    · exact isSome_del _ _ _ h
    · rcases isSome_put _ _ _ _ h with e | e
      · subst e; rw [hes]; rfl
      · exact e

theorem completeRedelegation_du (s : State) (d a b) :
    (completeRedelegation s d a b).dels = s.dels ∧ (completeRedelegation s d a b).ubds = s.ubds := by
  unfold completeRedelegation
  split
  · exact ⟨rfl, rfl⟩
  · simp only []
    split <;> exact ⟨rfl, rfl⟩

theorem stakingEnd_dels (s : State) : (stakingEnd s).dels = s.dels := by
  unfold stakingEnd
  refine (foldl_keep (fun s : State => s.dels) _ (by intros; exact (completeRedelegation_du _ _ _ _).1) _ _).trans ?_
  exact foldl_keep (fun s : State => s.dels) _ (by intros; exact completeUnbonding_dels _ _ _) _ _

theorem foldl_ubds_shrink (L : List (Addr × Val)) (s : State) (k) :
    (get (L.foldl (fun s p => completeUnbonding s p.1 p.2) s).ubds k).isSome = true → (get s.ubds k).isSome = true := by
  induction L generalizing s with
  | nil => exact id
  | cons p L ih =>
    intro h
    exact completeUnbonding_ubds s p.1 p.2 k (ih _ h)

theorem stakingEnd_ubds (s : State) (k) (h : (get (stakingEnd s).ubds k).isSome = true) : (get s.ubds k).isSome = true := by
  have e : (stakingEnd s).ubds =
      (((s.ubdQ.filter (fun p => p.1 ≤ s.now)).flatMap (·.2)).foldl (fun s p => completeUnbonding s p.1 p.2)
        { s with ubdQ := s.ubdQ.filter (fun p => !(p.1 ≤ s.now)) }).ubds := by
    unfold stakingEnd
    exact foldl_keep (fun s : State => s.ubds) _ (by intros; exact (completeRedelegation_du _ _ _ _).2) _ _
  rw [e] at h
  have := foldl_ubds_shrink _ _ k h
  exact this

theorem govEnd_du (s : State) : (govEnd s).dels = s.dels ∧ (govEnd s).ubds = s.ubds := by
  unfold govEnd
  constructor
  · refine (foldl_keep (fun s : State => s.dels) _ (by intros; rfl) _ _).trans ?_
    exact foldl_keep (fun s : State => s.dels) _ (by intros; rfl) _ _
  · refine (foldl_keep (fun s : State => s.ubds) _ (by intros; rfl) _ _).trans ?_
    exact foldl_keep (fun s : State => s.ubds) _ (by intros; rfl) _ _

theorem endBlock_du (s : State) (dt : Nat) :
    (endBlock s dt).dels = s.dels ∧ ∀ k, (get (endBlock s dt).ubds k).isSome = true → (get s.ubds k).isSome = true := by
  unfold endBlock
  refine ⟨(govEnd_du _).1.trans (stakingEnd_dels s), ?_⟩
  intro k h
  simp only [] at h
  rw [(govEnd_du _).2] at h
  exact stakingEnd_ubds s k h

/-! ## the account lookup of the pay-out never fails under the invariant -/

theorem completeUnbondingA_eq (accts : List Addr) (x : State × Nat) (p : Addr × Val)
    (h : (get x.1.ubds (p.1, p.2)).isSome = true → p.1 ∈ accts) :
    completeUnbondingA accts x p = (completeUnbonding x.1 p.1 p.2, x.2) := by
  unfold completeUnbondingA
  by_cases hc : accts.contains p.1 = true
  · rw [if_pos hc]
  · have hn : get x.1.ubds (p.1, p.2) = none := by
      cases hh : get x.1.ubds (p.1, p.2) with
      | none => rfl
      | some es =>
        exfalso
        apply hc
        have := h (by rw [hh]; rfl)
        simpa using this
    simp only [hc, Bool.false_eq_true, ↓reduceIte, hn]
    unfold completeUnbonding
    rw [hn]

theorem foldl_completeUnbondingA_eq (accts : List Addr) (L : List (Addr × Val)) (x : State × Nat)
    (h : ∀ k, (get x.1.ubds k).isSome = true → k.1 ∈ accts) :
    L.foldl (completeUnbondingA accts) x = (L.foldl (fun s p => completeUnbonding s p.1 p.2) x.1, x.2) := by
  induction L generalizing x with
  | nil => rfl
  | cons p L ih =>
    simp only [List.foldl_cons]
    rw [completeUnbondingA_eq accts x p (fun hs => h (p.1, p.2) hs)]
    exact ih _ (fun k hk => h k (completeUnbonding_ubds x.1 p.1 p.2 k hk))

theorem stakingEndA_eq (accts : List Addr) (s : State) (b : Nat)
    (h : ∀ k, (get s.ubds k).isSome = true → k.1 ∈ accts) : stakingEndA accts s b = (stakingEnd s, b) := by
  unfold stakingEndA stakingEnd
  simp only []
  rw [foldl_completeUnbondingA_eq accts _ _ h]

theorem endBlockA_eq (accts : List Addr) (s : State) (b dt : Nat)
    (h : ∀ k, (get s.ubds k).isSome = true → k.1 ∈ accts) : endBlockA accts s b dt = (endBlock s dt, b) := by
  unfold endBlockA endBlock
  rw [stakingEndA_eq accts s b h]

/-! ## totals at maturity -/

theorem sumOver_transfer_aux (f f' : Addr → Nat) (x y : Addr) (n : Nat) (hxy : x ≠ y) (hn : n ≤ f x)
    (hf : ∀ a, f' a = if a = x then f x - n else if a = y then f y + n else f a)
    (A : List Addr) (hA : A.Nodup) :
    sumOver A f' + (if x ∈ A then n else 0) = sumOver A f + (if y ∈ A then n else 0) := by
  induction A with
  | nil => simp [sumOver]
  | cons a A ih =>
    have hnd := List.nodup_cons.mp hA
    have ih := ih hnd.2
    simp only [sumOver, List.map_cons, List.sum_cons, List.mem_cons] at ih ⊢
    rw [hf a]
    by_cases h1 : a = x
    · subst h1
      have hna : a ∉ A := hnd.1
      have hya : ¬ y = a := fun e => hxy e.symm
      simp only [↓reduceIte, true_or, hya, false_or, hna] at ih ⊢
      omega
    · by_cases h2 : a = y
      · subst h2
        have hna : a ∉ A := hnd.1
        have hxa : ¬ x = a := fun e => h1 e.symm
        simp only [h1, ↓reduceIte, true_or, hxa, false_or, hna] at ih ⊢
        omega
      · have e1 : ¬ x = a := fun e => h1 e.symm
        have e2 : ¬ y = a := fun e => h2 e.symm
        simp only [h1, h2, ↓reduceIte, e1, e2, false_or] at ih ⊢
        omega

/-- a transfer between two members of a duplicate-free set of accounts keeps the set's total -/
theorem sumOver_transfer (f f' : Addr → Nat) (x y : Addr) (n : Nat) (hxy : x ≠ y) (hn : n ≤ f x)
    (hf : ∀ a, f' a = if a = x then f x - n else if a = y then f y + n else f a)
    (A : List Addr) (hA : A.Nodup) (hx : x ∈ A) (hy : y ∈ A) : sumOver A f' = sumOver A f := by
  have := sumOver_transfer_aux f f' x y n hxy hn hf A hA
  simp only [hx, hy, ↓reduceIte] at this
  omega

theorem sumOver_congr (f f' : Addr → Nat) (A : List Addr) (h : ∀ a, f' a = f a) : sumOver A f' = sumOver A f := by
  have : f' = f := funext h
  rw [this]

theorem completeUnbonding_bal (s : State) (d : Addr) (v : Val) :
    (completeUnbonding s d v).bal = s.bal ∨
    ∃ n b', sendCoins s.bal notBondedPool d 0 n = some b' ∧ (completeUnbonding s d v).bal = b' ∧
      (get s.ubds (d, v)).isSome = true := by
  unfold completeUnbonding
  split
  · exact Or.inl rfl
  · rename_i es hes
    simp only []
    cases hsend : sendCoins s.bal notBondedPool d 0
        (List.foldl (fun x1 x2 => x1 + x2) 0 (List.map (fun e => e.2.1) (List.filter (fun e => decide (e.1 ≤ s.now)) es))) with
    | none => left; split <;> rfl
    | some b' =>
      right
      refine ⟨_, b', hsend, ?_, by rw [hes]; rfl⟩
      split <;> rfl

/-- one pay-out keeps, per denomination, the total over any duplicate-free set of accounts that contains the not-bonded pool
and the delegator -/
theorem completeUnbonding_supply (s : State) (d : Addr) (v : Val) (A : List Addr) (hA : A.Nodup)
    (hp : notBondedPool ∈ A) (hd : (get s.ubds (d, v)).isSome = true → d ∈ A ∧ d ≠ notBondedPool) (den : Denom) :
    sumOver A (fun a => balOf (completeUnbonding s d v).bal a den) = sumOver A (fun a => balOf s.bal a den) := by
  rcases completeUnbonding_bal s d v with e | ⟨n, b', hsend, e, hsome⟩
  · rw [e]
  · rw [e]
    obtain ⟨hdA, hdp⟩ := hd hsome
    obtain ⟨hn, hspec⟩ := sendCoins_spec (Ne.symm hdp) hsend
    by_cases h0 : den = 0
    · subst h0
      refine sumOver_transfer _ _ notBondedPool d n (Ne.symm hdp) hn (fun a => ?_) A hA hp hdA
      rw [hspec a 0]
      simp
    · refine sumOver_congr _ _ A (fun a => ?_)
      rw [hspec a den]
      simp [h0]

theorem foldl_completeUnbonding_supply (A : List Addr) (hA : A.Nodup) (hp : notBondedPool ∈ A) (den : Denom)
    (L : List (Addr × Val)) (s : State)
    (h : ∀ k : Addr × Val, (get s.ubds k).isSome = true → k.1 ∈ A ∧ k.1 ≠ notBondedPool) :
    sumOver A (fun a => balOf (L.foldl (fun s p => completeUnbonding s p.1 p.2) s).bal a den) =
      sumOver A (fun a => balOf s.bal a den) := by
  induction L generalizing s with
  | nil => rfl
  | cons p L ih =>
    simp only [List.foldl_cons]
    rw [ih (completeUnbonding s p.1 p.2) (fun k hk => h k (completeUnbonding_ubds s p.1 p.2 k hk))]
    exact completeUnbonding_supply s p.1 p.2 A hA hp (fun hs => h (p.1, p.2) hs) den

theorem completeRedelegation_bal (s : State) (d a b) : (completeRedelegation s d a b).bal = s.bal := by
  unfold completeRedelegation
  split
  · rfl
  · simp only []
    split <;> rfl

/-- **the staking end blocker keeps every total**: per denomination, the total over any duplicate-free set of accounts that
contains the not-bonded pool and every holder of an unbonding record (the pool itself holding none) is the same after all
matured entries have been paid -/
theorem stakingEnd_supply (s : State) (A : List Addr) (hA : A.Nodup) (hp : notBondedPool ∈ A)
    (h : ∀ k : Addr × Val, (get s.ubds k).isSome = true → k.1 ∈ A ∧ k.1 ≠ notBondedPool) (den : Denom) :
    sumOver A (fun a => balOf (stakingEnd s).bal a den) = sumOver A (fun a => balOf s.bal a den) := by
  have e : (stakingEnd s).bal =
      (((s.ubdQ.filter (fun p => p.1 ≤ s.now)).flatMap (·.2)).foldl (fun s p => completeUnbonding s p.1 p.2)
        { s with ubdQ := s.ubdQ.filter (fun p => !(p.1 ≤ s.now)) }).bal := by
    unfold stakingEnd
    exact foldl_keep (fun s : State => s.bal) _ (by intros; exact completeRedelegation_bal _ _ _ _) _ _
  rw [e]
  exact foldl_completeUnbonding_supply A hA hp den _ _ h

/-! ## the invariant along operations -/

/-- where the holders of delegations / unbonding records of `s'` come from -/
def DU (s s' : State) : Prop :=
  (∀ k : Addr × Val, (get s'.dels k).isSome = true →
    (∃ w, (get s.dels (k.1, w)).isSome = true) ∨ 0 < balOf s.bal k.1 0) ∧
  (∀ k : Addr × Val, (get s'.ubds k).isSome = true → (get s.ubds k).isSome = true ∨ (get s.dels k).isSome = true)

theorem du_of_eq {s s' : State} (h : s'.dels = s.dels ∧ s'.ubds = s.ubds) : DU s s' := by
  refine ⟨fun k hk => Or.inl ⟨k.2, ?_⟩, fun k hk => Or.inl ?_⟩
  · rw [h.1] at hk; exact hk
  · rw [h.2] at hk; exact hk

theorem ofOpt_DU {s : State} {o : Option State} (h : ∀ s', o = some s' → DU s s') : DU s (ofOpt s o).1 := by
  cases o with
  | none => exact du_of_eq ⟨rfl, rfl⟩
  | some s' => exact h s' rfl

/-- every operation other than a block or a migration -/
theorem step_DU (c : Cfg) (s : State) (op : Op) (hm : ∀ f t g, op ≠ .migrate f t g) : DU s (step c s op).1 := by
  cases op with
  | send a b d n =>
    simp only [step]
    refine ofOpt_DU (fun s' h => ?_)
    cases hh : sendUnlocked s.bal (lockedOf s a d) a b d n with
    | none => rw [hh] at h; cases h
    | some bb => rw [hh] at h; cases h; exact du_of_eq ⟨rfl, rfl⟩
  | mint a d n => exact du_of_eq ⟨rfl, rfl⟩
  | delegate d v amt rw =>
    refine ofOpt_DU (fun s' h => ?_)
    obtain ⟨e1, e2⟩ := delegate_du h
    refine ⟨fun k hk => ?_, fun k hk => Or.inl (by rw [e1] at hk; exact hk)⟩
    rcases e2 k hk with e | ⟨e, hp⟩
    · exact Or.inl ⟨k.2, e⟩
    · right; rw [e]; exact hp
  | undelegate d v amt rw =>
    refine ofOpt_DU (fun s' h => ?_)
    obtain ⟨e1, e2, e3⟩ := undelegate_du h
    refine ⟨fun k hk => Or.inl ⟨k.2, e2 k hk⟩, fun k hk => ?_⟩
    rcases e3 k hk with e | e
    · right; rw [e]; exact e1
    · exact Or.inl e
  | redelegate d a b amt r1 r2 =>
    refine ofOpt_DU (fun s' h => ?_)
    obtain ⟨e1, e2, e3⟩ := redelegate_du h
    refine ⟨fun k hk => ?_, fun k hk => Or.inl (by rw [e1] at hk; exact hk)⟩
    rcases e3 k hk with e | e
    · left; rw [e]; exact ⟨a, e2⟩
    · exact Or.inl ⟨k.2, e⟩
  | withdraw d v rw => exact ofOpt_DU (fun s' h => du_of_eq (withdraw_du h))
  | setWithdraw d w => exact du_of_eq ⟨rfl, rfl⟩
  | submit a dep => exact ofOpt_DU (fun s' h => du_of_eq (submit_du h))
  | deposit a id amt => exact ofOpt_DU (fun s' h => du_of_eq (deposit_du h))
  | vote a id => exact ofOpt_DU (fun s' h => du_of_eq (vote_du h))
  | block dt =>
    obtain ⟨e1, e2⟩ := endBlock_du s dt
    exact ⟨fun k hk => Or.inl ⟨k.2, by rw [show (step c s (.block dt)).1 = endBlock s dt from rfl, e1] at hk; exact hk⟩,
      fun k hk => Or.inl (e2 k hk)⟩
  | setPeriods dp vp => exact du_of_eq ⟨rfl, rfl⟩
  | setUnbond n => exact du_of_eq ⟨rfl, rfl⟩
  | migrate f t g => exact absurd rfl (hm f t g)

theorem acctInv_of_DU {a : AState} (inv : AcctInv a) {s' : State} (h : DU a.s s') (accts' : List Addr) (b : Nat)
    (hsub : ∀ x, x ∈ a.accts → x ∈ accts') (hc : ∀ x, x ∈ credited a.s s' → x ∈ accts') :
    AcctInv { s := s', accts := accts', burnt := b } := by
  refine ⟨bal_inv_of_credited hsub hc inv.bal, fun x v hk => ?_, fun x v hk => ?_⟩
  · rcases h.1 (x, v) hk with ⟨w, e⟩ | e
    · exact hsub x (inv.del x w e)
    · exact hsub x (inv.bal x 0 e)
  · rcases h.2 (x, v) hk with e | e
    · exact hsub x (inv.ubd x v e)
    · exact hsub x (inv.del x v e)

theorem stepA_other (c : Cfg) (stmts hs : List String) (a : AState) (op : Op)
    (hb : ∀ dt, op ≠ .block dt) (hm : ∀ f t g, op ≠ .migrate f t g) :
    stepA c stmts hs a op =
      (({ a with s := (step c a.s op).1, accts := a.accts ++ credited a.s (step c a.s op).1 } : AState), (step c a.s op).2) := by
  cases op <;> first | rfl | exact absurd rfl (hb _) | exact absurd rfl (hm _ _ _)

/-- under the invariant the block with the account lookup is the block -/
theorem stepA_block {a : AState} (inv : AcctInv a) (c : Cfg) (stmts hs : List String) (dt : Nat) :
    stepA c stmts hs a (.block dt) =
      (({ s := endBlock a.s dt, accts := a.accts ++ credited a.s (endBlock a.s dt), burnt := a.burnt } : AState), "ok") := by
  simp only [stepA]
  rw [endBlockA_eq a.accts a.s a.burnt dt (fun k hk => inv.ubd k.1 k.2 hk)]

/-- an accepted migration, given that its post-state holds delegations / unbonding records only where the pre-state did,
or under the target, and that the statement list creates the target account -/
theorem acctInv_accept {a : AState} (inv : AcctInv a) (stmts : List String) (s' : State) (to : Addr)
    (hd : ∀ x v, (get s'.dels (x, v)).isSome = true → x = to ∨ (∃ w, (get a.s.dels (x, w)).isSome = true))
    (hu : ∀ x v, (get s'.ubds (x, v)).isSome = true → x = to ∨ (∃ w, (get a.s.ubds (x, w)).isSome = true))
    (hens : to ∈ stmtAccounts stmts to) : AcctInv (acceptA stmts a s' to) := by
  have hsub : ∀ x, x ∈ a.accts → x ∈ (acceptA stmts a s' to).accts := fun x hx => by
    simp only [acceptA, List.mem_append]; exact Or.inl (Or.inl hx)
  have hto : to ∈ (acceptA stmts a s' to).accts := by
    simp only [acceptA, List.mem_append]; exact Or.inl (Or.inr hens)
  refine ⟨bal_inv_of_credited hsub (fun x hx => ?_) inv.bal, fun x v hk => ?_, fun x v hk => ?_⟩
  · simp only [acceptA, List.mem_append]; exact Or.inr hx
  · rcases hd x v hk with e | ⟨w, e⟩
    · rw [e]; exact hto
    · exact hsub x (inv.del x w e)
  · rcases hu x v hk with e | ⟨w, e⟩
    · rw [e]; exact hto
    · exact hsub x (inv.ubd x w e)

/-- what an accepted migration is assumed to do to the key sets (proved for the code as it is in `Props.C14`) -/
def AcceptKeys (c : Cfg) (stmts hs : List String) : Prop :=
  ∀ (s s' : State) (frm to : Addr) (sigOk : Bool), migrateProg c stmts hs s frm to sigOk = .ok s' →
    (∀ x v, (get s'.dels (x, v)).isSome = true → x = to ∨ (∃ w, (get s.dels (x, w)).isSome = true)) ∧
    (∀ x v, (get s'.ubds (x, v)).isSome = true → x = to ∨ (∃ w, (get s.ubds (x, w)).isSome = true))

/-- **the invariant is kept by every operation**, and the store-level state / answer / destroyed coins are those of `stepP` -/
theorem acctInv_stepA {c : Cfg} {stmts hs : List String} (hk : AcceptKeys c stmts hs)
    (hens : ∀ to, to ∈ stmtAccounts stmts to) {a : AState} (inv : AcctInv a) (op : Op) :
    AcctInv (stepA c stmts hs a op).1 ∧ (stepA c stmts hs a op).1.s = (stepP c stmts hs a.s op).1 ∧
    (stepA c stmts hs a op).2 = (stepP c stmts hs a.s op).2 ∧ (stepA c stmts hs a op).1.burnt = a.burnt ∧
    (∀ x, x ∈ a.accts → x ∈ (stepA c stmts hs a op).1.accts) := by
  by_cases hm : ∃ f t g, op = .migrate f t g
  · obtain ⟨f, t, g, rfl⟩ := hm
    simp only [stepA, stepP]
    cases h : migrateProg c stmts hs a.s f t g with
    | error e => exact ⟨inv, rfl, rfl, rfl, fun x hx => hx⟩
    | ok s' =>
      obtain ⟨hd, hu⟩ := hk a.s s' f t g h
      refine ⟨acctInv_accept inv stmts s' t hd hu (hens t), rfl, rfl, rfl, fun x hx => ?_⟩
      simp only [acceptA, List.mem_append]; exact Or.inl (Or.inl hx)
  · have hm' : ∀ f t g, op ≠ .migrate f t g := fun f t g e => hm ⟨f, t, g, e⟩
    have hP : stepP c stmts hs a.s op = step c a.s op := by cases op <;> first | rfl | exact absurd rfl (hm' _ _ _)
    rw [hP]
    by_cases hb : ∃ dt, op = .block dt
    · obtain ⟨dt, rfl⟩ := hb
      rw [stepA_block inv]
      refine ⟨acctInv_of_DU inv (step_DU c a.s (.block dt) hm') _ _ (fun x hx => List.mem_append.mpr (Or.inl hx))
        (fun x hx => List.mem_append.mpr (Or.inr hx)), rfl, rfl, rfl, fun x hx => List.mem_append.mpr (Or.inl hx)⟩
    · have hb' : ∀ dt, op ≠ .block dt := fun dt e => hb ⟨dt, e⟩
      rw [stepA_other c stmts hs a op hb' hm']
      refine ⟨acctInv_of_DU inv (step_DU c a.s op hm') _ _ (fun x hx => List.mem_append.mpr (Or.inl hx))
        (fun x hx => List.mem_append.mpr (Or.inr hx)), rfl, rfl, rfl, fun x hx => List.mem_append.mpr (Or.inl hx)⟩

/-- **along every history**: the invariant holds, the store-level state is the one the operations without account lookup
produce, nothing is destroyed, no account disappears -/
theorem acctInv_runA {c : Cfg} {stmts hs : List String} (hk : AcceptKeys c stmts hs)
    (hens : ∀ to, to ∈ stmtAccounts stmts to) (ops : List Op) {a : AState} (inv : AcctInv a) :
    AcctInv (runA c stmts hs a ops) ∧
    (runA c stmts hs a ops).s = ops.foldl (fun s o => (stepP c stmts hs s o).1) a.s ∧
    (runA c stmts hs a ops).burnt = a.burnt ∧ (∀ x, x ∈ a.accts → x ∈ (runA c stmts hs a ops).accts) := by
  induction ops generalizing a with
  | nil => exact ⟨inv, rfl, rfl, fun x hx => hx⟩
  | cons op ops ih =>
    obtain ⟨i1, e1, _, b1, m1⟩ := acctInv_stepA hk hens inv op
    obtain ⟨i2, e2, b2, m2⟩ := ih i1
    refine ⟨i2, ?_, ?_, fun x hx => m2 x (m1 x hx)⟩
    · show (runA c stmts hs (stepA c stmts hs a op).1 ops).s = _
      rw [e2, e1]; rfl
    · show (runA c stmts hs (stepA c stmts hs a op).1 ops).burnt = _
      rw [b2, b1]

/-- base case: no delegation, no unbonding record, and every address with a balance entry exists as an account -/
theorem acctInv_base (a : AState) (hd : a.s.dels = []) (hu : a.s.ubds = []) (hb : ∀ p ∈ a.s.bal, p.1.1 ∈ a.accts) :
    AcctInv a := by
  refine ⟨fun x d hp => ?_, fun x v hk => ?_, fun x v hk => ?_⟩
  · have hg : get a.s.bal (x, d) = some (balOf a.s.bal x d) := by
      unfold balOf at hp ⊢
      cases hh : get a.s.bal (x, d) with
      | none => rw [hh] at hp; simp at hp
      | some n => simp
    exact hb _ (get_some_mem _ _ _ hg)
  · rw [hd, get_nil] at hk; cases hk
  · rw [hu, get_nil] at hk; cases hk

end FxVerif.Proofs.C14
