import FxVerif.Model.C14Acct
import FxVerif.Proofs.C14
import FxVerif.Proofs.C14Bank
/-!
# C14 — accounts: every holder of a balance, a delegation or an unbonding record exists as an account

`AcctInv` is kept by every operation other than an accepted migration whatever the code says (`acctInv_step_other`,
`acctInv_block`); for an accepted migration it is kept when the target is among the accounts afterwards
(`acctInv_accept`, used by `Props.C14` with the regenerated statement list).  Under `AcctInv` the account lookup of the
pay-out never fails: `stakingEndA_eq`, `endBlockA_eq`.
-/
namespace FxVerif.Proofs.C14
open FxVerif.Model.C14

/-- every address that holds a coin, a delegation or an unbonding record exists as an account -/
structure AcctInv (a : AState) : Prop where
  bal : ∀ x d, 0 < balOf a.s.bal x d → x ∈ a.accts
  del : ∀ x v, (get a.s.dels (x, v)).isSome = true → x ∈ a.accts
  ubd : ∀ x v, (get a.s.ubds (x, v)).isSome = true → x ∈ a.accts

theorem mem_credited {s s' : State} {x : Addr} {d : Denom} (h : balOf s.bal x d < balOf s'.bal x d) :
    x ∈ credited s s' := by
  have hg : get s'.bal (x, d) = some (balOf s'.bal x d) := by
    unfold balOf at h ⊢
    cases hh : get s'.bal (x, d) with
    | none => rw [hh] at h; simp at h
    | some n => simp
  have hm := get_some_mem s'.bal (x, d) _ hg
  unfold credited
  exact List.mem_map.mpr ⟨((x, d), balOf s'.bal x d), List.mem_filter.mpr ⟨hm, by simpa using h⟩, rfl⟩

theorem bal_inv_of_credited {accts accts' : List Addr} {s s' : State}
    (hsub : ∀ x, x ∈ accts → x ∈ accts') (hc : ∀ x, x ∈ credited s s' → x ∈ accts')
    (h : ∀ x d, 0 < balOf s.bal x d → x ∈ accts) : ∀ x d, 0 < balOf s'.bal x d → x ∈ accts' := by
  intro x d hp
  by_cases hlt : balOf s.bal x d < balOf s'.bal x d
  · exact hc x (mem_credited hlt)
  · exact hsub x (h x d (by omega))

/-! ## how the delegation and unbonding key sets change -/

theorem isSome_put {κ ν : Type} [BEq κ] [LawfulBEq κ] (m : Store κ ν) (k k' : κ) (v : ν)
    (h : (get (put m k v) k').isSome = true) : k' = k ∨ (get m k').isSome = true := by
  by_cases e : k' = k
  · exact Or.inl e
  · rw [get_put_ne m k k' v e] at h; exact Or.inr h

theorem isSome_del {κ ν : Type} [BEq κ] [LawfulBEq κ] (m : Store κ ν) (k k' : κ)
    (h : (get (del m k) k').isSome = true) : (get m k').isSome = true := by
  by_cases e : k' = k
  · subst e; rw [get_del_eq] at h; cases h
  · rw [get_del_ne m k k' e] at h; exact h

theorem touchPre_du {s s' : State} {d v rw} (h : touchPre s d v rw = some s') :
    s'.dels = s.dels ∧ s'.ubds = s.ubds := by
  unfold touchPre at h
  split at h
  · cases h; exact ⟨rfl, rfl⟩
  · split at h
    · cases h
    · cases h; exact ⟨rfl, rfl⟩

theorem touchPre_bal_none {s s' : State} {d v rw} (h : touchPre s d v rw = some s') (hn : get s.dels (d, v) = none) :
    s'.bal = s.bal := by
  unfold touchPre at h
  rw [hn] at h
  cases h; rfl

theorem unbond_du {s s' : State} {d v amt rw} (h : unbond s d v amt rw = some s') :
    s'.ubds = s.ubds ∧ (get s.dels (d, v)).isSome = true ∧
    ∀ k, (get s'.dels k).isSome = true → (get s.dels k).isSome = true := by
  unfold unbond at h
  split at h
  · cases h
  · rename_i sh hsh
    split at h
    · cases h
    · split at h
      · cases h
      · rename_i s1 h1
        cases h
        obtain ⟨e1, e2⟩ := touchPre_du h1
        refine ⟨?_, by rw [hsh]; rfl, ?_⟩
        · split <;> simpa [touchPost] using e2
        · intro k hk
          split at hk
          · simp only [] at hk
            rw [e1] at hk
            exact isSome_del _ _ _ hk
          · simp only [touchPost] at hk
            rw [e1] at hk
            rcases isSome_put _ _ _ _ hk with e | e
            · subst e; rw [hsh]; rfl
            · exact e

theorem addShares_du {s s' : State} {d v amt rw} (h : addShares s d v amt rw = some s') :
    s'.ubds = s.ubds ∧ ∀ k, (get s'.dels k).isSome = true → k = (d, v) ∨ (get s.dels k).isSome = true := by
  unfold addShares at h
  split at h
  · cases h
  · rename_i s1 h1
    cases h
    obtain ⟨e1, e2⟩ := touchPre_du h1
    refine ⟨by simpa [touchPost] using e2, ?_⟩
    intro k hk
    simp only [touchPost] at hk
    rw [e1] at hk
    exact isSome_put _ _ _ _ hk

theorem sendCoins_some_ge {b b' : Store (Addr × Denom) Nat} {x y : Addr} {d : Denom} {n : Nat}
    (h : sendCoins b x y d n = some b') : n ≤ balOf b x d := by
  unfold sendCoins at h
  split at h
  · cases h
  · omega

theorem delegate_du {s s' : State} {d v amt rw} (h : delegate s d v amt rw = some s') :
    s'.ubds = s.ubds ∧
    ∀ k, (get s'.dels k).isSome = true → (get s.dels k).isSome = true ∨ (k.1 = d ∧ 0 < balOf s.bal d 0) := by
  unfold delegate at h
  split at h
  · cases h
  · rename_i hg
    split at h
    · cases h
    · rename_i s1 h1
      split at h
      · cases h
      · rename_i b hb
        cases h
        obtain ⟨e1, e2⟩ := touchPre_du h1
        refine ⟨by simpa [touchPost] using e2, ?_⟩
        intro k hk
        simp only [touchPost] at hk
        rw [e1] at hk
        rcases isSome_put _ _ _ _ hk with e | e
        · subst e
          cases hd : get s.dels (d, v) with
          | some sh => left; rfl
          | none =>
            right
            refine ⟨rfl, ?_⟩
            have hge := sendCoins_some_ge hb
            rw [touchPre_bal_none h1 hd] at hge
            have hamt : amt ≠ 0 := by
              intro e0; subst e0; simp at hg
            omega
        · exact Or.inl e

theorem undelegate_du {s s' : State} {d v amt rw} (h : undelegate s d v amt rw = some s') :
    (get s.dels (d, v)).isSome = true ∧
    (∀ k, (get s'.dels k).isSome = true → (get s.dels k).isSome = true) ∧
    (∀ k, (get s'.ubds k).isSome = true → k = (d, v) ∨ (get s.ubds k).isSome = true) := by
  unfold undelegate at h
  split at h
  · cases h
  · simp only [] at h
    split at h
    · cases h
    · split at h
      · cases h
      · rename_i s1 h1
        split at h
        · cases h
        · cases h
          obtain ⟨e1, e2, e3⟩ := unbond_du h1
          refine ⟨e2, e3, ?_⟩
          intro k hk
          simp only [] at hk
          rw [e1] at hk
          exact isSome_put _ _ _ _ hk

theorem redelegate_du {s s' : State} {d a b amt r1 r2} (h : redelegate s d a b amt r1 r2 = some s') :
    s'.ubds = s.ubds ∧ (get s.dels (d, a)).isSome = true ∧
    ∀ k, (get s'.dels k).isSome = true → k.1 = d ∨ (get s.dels k).isSome = true := by
  unfold redelegate at h
  split at h
  · cases h
  · split at h
    · cases h
    · simp only [] at h
      split at h
      · cases h
      · split at h
        · cases h
        · rename_i s1 h1
          split at h
          · cases h
          · rename_i s2 h2
            cases h
            obtain ⟨u1, u2, u3⟩ := unbond_du h1
            obtain ⟨a1, a2⟩ := addShares_du h2
            refine ⟨a1.trans u1, u2, ?_⟩
            intro k hk
            rcases a2 k hk with e | e
            · left; rw [e]
            · exact Or.inr (u3 k e)

theorem withdraw_du {s s' : State} {d v rw} (h : withdraw s d v rw = some s') :
    s'.dels = s.dels ∧ s'.ubds = s.ubds := by
  unfold withdraw at h
  split at h
  · cases h
  · split at h
    · cases h
    · rename_i s1 h1
      cases h
      simpa [touchPost] using touchPre_du h1

theorem submit_du {s s' : State} {a dep} (h : submit s a dep = some s') : s'.dels = s.dels ∧ s'.ubds = s.ubds := by
  unfold submit at h
  split at h
  · cases h
  · cases h; exact ⟨rfl, rfl⟩

theorem deposit_du {s s' : State} {a id amt} (h : deposit s a id amt = some s') : s'.dels = s.dels ∧ s'.ubds = s.ubds := by
  unfold deposit at h
  split at h
  · cases h
  · split at h
    · cases h
    · split at h
      · cases h
      · cases h; exact ⟨rfl, rfl⟩

theorem vote_du {s s' : State} {a id} (h : vote s a id = some s') : s'.dels = s.dels ∧ s'.ubds = s.ubds := by
  unfold vote at h
  split at h
  · cases h
  · split at h
    · cases h
    · cases h; exact ⟨rfl, rfl⟩

theorem completeUnbonding_dels (s : State) (d v) : (completeUnbonding s d v).dels = s.dels := by
  unfold completeUnbonding
  split
  · rfl
  · simp only []
    split <;> rfl

theorem completeUnbonding_ubds (s : State) (d v) (k) (h : (get (completeUnbonding s d v).ubds k).isSome = true) :
    (get s.ubds k).isSome = true := by
  unfold completeUnbonding at h
  split at h
  · exact h
  · rename_i es hes
    simp only [] at h
    split at h
    · exact isSome_del _ _ _ h
    · rcases isSome_put _ _ _ _ h with e | e
      · subst e; rw [hes]; rfl
      · exact e

theorem completeRedelegation_du (s : State) (d a b) :
    (completeRedelegation s d a b).dels = s.dels ∧ (completeRedelegation s d a b).ubds = s.ubds := by
  unfold completeRedelegation
  split
  · exact ⟨rfl, rfl⟩
  · simp only []
    split <;> exact ⟨rfl, rfl⟩

theorem stakingEnd_dels (s : State) : (stakingEnd s).dels = s.dels := by
  unfold stakingEnd
  refine (foldl_keep (fun s : State => s.dels) _ (by intros; exact (completeRedelegation_du _ _ _ _).1) _ _).trans ?_
  exact foldl_keep (fun s : State => s.dels) _ (by intros; exact completeUnbonding_dels _ _ _) _ _

theorem foldl_ubds_shrink (L : List (Addr × Val)) (s : State) (k) :
    (get (L.foldl (fun s p => completeUnbonding s p.1 p.2) s).ubds k).isSome = true → (get s.ubds k).isSome = true := by
  induction L generalizing s with
  | nil => exact id
  | cons p L ih =>
    intro h
    exact completeUnbonding_ubds s p.1 p.2 k (ih _ h)

theorem stakingEnd_ubds (s : State) (k) (h : (get (stakingEnd s).ubds k).isSome = true) : (get s.ubds k).isSome = true := by
  have e : (stakingEnd s).ubds =
      (((s.ubdQ.filter (fun p => p.1 ≤ s.now)).flatMap (·.2)).foldl (fun s p => completeUnbonding s p.1 p.2)
        { s with ubdQ := s.ubdQ.filter (fun p => !(p.1 ≤ s.now)) }).ubds := by
    unfold stakingEnd
    exact foldl_keep (fun s : State => s.ubds) _ (by intros; exact (completeRedelegation_du _ _ _ _).2) _ _
  rw [e] at h
  have := foldl_ubds_shrink _ _ k h
  exact this

theorem govEnd_du (s : State) : (govEnd s).dels = s.dels ∧ (govEnd s).ubds = s.ubds := by
  unfold govEnd
  constructor
  · refine (foldl_keep (fun s : State => s.dels) _ (by intros; rfl) _ _).trans ?_
    exact foldl_keep (fun s : State => s.dels) _ (by intros; rfl) _ _
  · refine (foldl_keep (fun s : State => s.ubds) _ (by intros; rfl) _ _).trans ?_
    exact foldl_keep (fun s : State => s.ubds) _ (by intros; rfl) _ _

theorem endBlock_du (s : State) (dt : Nat) :
    (endBlock s dt).dels = s.dels ∧ ∀ k, (get (endBlock s dt).ubds k).isSome = true → (get s.ubds k).isSome = true := by
  unfold endBlock
  refine ⟨(govEnd_du _).1.trans (stakingEnd_dels s), ?_⟩
  intro k h
  simp only [] at h
  rw [(govEnd_du _).2] at h
  exact stakingEnd_ubds s k h

/-! ## the account lookup of the pay-out never fails under the invariant -/

theorem completeUnbondingA_eq (accts : List Addr) (x : State × Nat) (p : Addr × Val)
    (h : (get x.1.ubds (p.1, p.2)).isSome = true → p.1 ∈ accts) :
    completeUnbondingA accts x p = (completeUnbonding x.1 p.1 p.2, x.2) := by
  unfold completeUnbondingA
  by_cases hc : accts.contains p.1 = true
  · rw [if_pos hc]
  · have hn : get x.1.ubds (p.1, p.2) = none := by
      cases hh : get x.1.ubds (p.1, p.2) with
      | none => rfl
      | some es =>
        exfalso
        apply hc
        have := h (by rw [hh]; rfl)
        simpa using this
    simp only [hc, Bool.false_eq_true, ↓reduceIte, hn]
    unfold completeUnbonding
    rw [hn]

theorem foldl_completeUnbondingA_eq (accts : List Addr) (L : List (Addr × Val)) (x : State × Nat)
    (h : ∀ k, (get x.1.ubds k).isSome = true → k.1 ∈ accts) :
    L.foldl (completeUnbondingA accts) x = (L.foldl (fun s p => completeUnbonding s p.1 p.2) x.1, x.2) := by
  induction L generalizing x with
  | nil => rfl
  | cons p L ih =>
    simp only [List.foldl_cons]
    rw [completeUnbondingA_eq accts x p (fun hs => h (p.1, p.2) hs)]
    exact ih _ (fun k hk => h k (completeUnbonding_ubds x.1 p.1 p.2 k hk))

theorem stakingEndA_eq (accts : List Addr) (s : State) (b : Nat)
    (h : ∀ k, (get s.ubds k).isSome = true → k.1 ∈ accts) : stakingEndA accts s b = (stakingEnd s, b) := by
  unfold stakingEndA stakingEnd
  simp only []
  rw [foldl_completeUnbondingA_eq accts _ _ h]

theorem endBlockA_eq (accts : List Addr) (s : State) (b dt : Nat)
    (h : ∀ k, (get s.ubds k).isSome = true → k.1 ∈ accts) : endBlockA accts s b dt = (endBlock s dt, b) := by
  unfold endBlockA endBlock
  rw [stakingEndA_eq accts s b h]

end FxVerif.Proofs.C14
