import FxVerif.Model.C07Gov
/-! totality of the gov tally model (`Model/C07Gov.lean`): no `Quo` of `Keeper.Tally` divides by zero -/
namespace FxVerif.Proofs.C07Gov
open FxVerif.Model.C07Gov FxVerif.Gen.C07

/-! ## rounding -/

theorem P_pos : 0 < P := by decide

theorem chopNat_le (n m : Nat) (h : n ≤ m * P) : chopNat n ≤ m := by
  have hq : n / P ≤ m := by
    have := Nat.div_le_div_right (c := P) h
    rwa [Nat.mul_div_cancel _ P_pos] at this
  unfold chopNat
  simp only
  split
  · exact hq
  · rename_i hr
    have hlt : n < m * P := by
      rcases Nat.lt_or_eq_of_le h with h' | h'
      · exact h'
      · exfalso; apply hr; rw [h']; exact Nat.mul_mod_left m P
    have hq' : n / P < m := (Nat.div_lt_iff_lt_mul P_pos).mpr hlt
    split
    · exact hq
    · split
      · omega
      · split
        · exact hq
        · omega

theorem chop_nonneg (x : Int) (h : 0 ≤ x) : 0 ≤ chop x := by
  unfold chop
  have : ¬ x < 0 := by omega
  simp only [this, if_false]
  exact Int.natCast_nonneg _

theorem chop_le (x m : Int) (h0 : 0 ≤ x) (hm : 0 ≤ m) (h : x ≤ m * (P : Int)) : chop x ≤ m := by
  unfold chop
  have : ¬ x < 0 := by omega
  simp only [this, if_false]
  have h1 : x.natAbs ≤ m.natAbs * P := by
    have hx : (x.natAbs : Int) = x := Int.natAbs_of_nonneg h0
    have hmm : (m.natAbs : Int) = m := Int.natAbs_of_nonneg hm
    have : (x.natAbs : Int) ≤ ((m.natAbs * P : Nat) : Int) := by
      rw [hx, Int.natCast_mul, hmm]; exact h
    exact Int.ofNat_le.mp this
  have h2 := chopNat_le x.natAbs m.natAbs h1
  have hmm : (m.natAbs : Int) = m := Int.natAbs_of_nonneg hm
  rw [← hmm]
  exact Int.ofNat_le.mpr h2

theorem decMul_nonneg (a w : Int) (ha : 0 ≤ a) (hw : 0 ≤ w) : 0 ≤ decMul a w :=
  chop_nonneg _ (Int.mul_nonneg ha hw)

theorem decMul_le (a w : Int) (ha : 0 ≤ a) (hw : 0 ≤ w) (hw1 : w ≤ (P : Int)) : decMul a w ≤ a :=
  chop_le _ _ (Int.mul_nonneg ha hw) ha (Int.mul_le_mul_of_nonneg_left hw1 ha)

theorem decQuo_some (a b : Int) (hb : b ≠ 0) : ∃ q, decQuo a b = some q := by
  unfold decQuo; simp [hb]

theorem decQuo_nonneg (a b q : Int) (ha : 0 ≤ a) (hb : 0 < b) (h : decQuo a b = some q) : 0 ≤ q := by
  unfold decQuo at h
  have : ¬ b = 0 := by omega
  simp only [this, if_false, Option.some.injEq] at h
  subst h
  apply chop_nonneg
  apply Int.tdiv_nonneg
  · exact Int.mul_nonneg ha (Int.natCast_nonneg _)
  · omega

/-! ## vote options -/

/-- weights lie in [0, 1] and at most one entry is ABSTAIN (`ValidWeightedVoteOption`, no duplicate options) -/
def OptsOk (opts : List (Opt × Int)) : Prop :=
  (∀ e ∈ opts, 0 ≤ e.2 ∧ e.2 ≤ (P : Int)) ∧ (opts.filter (fun e => e.1 == Opt.abstain)).length ≤ 1

theorem add_abstain (r : Res4) (o : Opt) (x : Int) :
    (r.add o x).abstain = r.abstain + (if o == Opt.abstain then x else 0) := by
  cases o <;> simp [Res4.add]

theorem addOpts_abstain (vp : Int) : ∀ (opts : List (Opt × Int)) (r : Res4),
    (addOpts r vp opts).abstain = r.abstain + ((opts.filter (fun e => e.1 == Opt.abstain)).map (fun e => decMul vp e.2)).sum := by
  intro opts
  induction opts with
  | nil => intro r; simp [addOpts]
  | cons e rest ih =>
    intro r
    obtain ⟨o, w⟩ := e
    simp only [addOpts]
    rw [ih, add_abstain]
    by_cases ho : (o == Opt.abstain) = true
    · simp only [ho, if_true, List.filter_cons, List.map_cons, List.sum_cons]; omega
    · simp only [ho, List.filter_cons, Bool.false_eq_true, if_false]; omega

theorem addOpts_bounds (vp : Int) (hvp : 0 ≤ vp) (opts : List (Opt × Int)) (hok : OptsOk opts) (r : Res4) :
    r.abstain ≤ (addOpts r vp opts).abstain ∧ (addOpts r vp opts).abstain ≤ r.abstain + vp := by
  rw [addOpts_abstain]
  obtain ⟨hw, hlen⟩ := hok
  generalize hf : opts.filter (fun e => e.1 == Opt.abstain) = f at hlen
  match f, hlen with
  | [], _ => simp; omega
  | [e], _ =>
    have he : e ∈ opts := by
      have : e ∈ opts.filter (fun e => e.1 == Opt.abstain) := by rw [hf]; simp
      exact (List.mem_filter.mp this).1
    obtain ⟨h0, h1⟩ := hw e he
    have a := decMul_nonneg vp e.2 hvp h0
    have b := decMul_le vp e.2 hvp h0 h1
    simp only [List.map_cons, List.map_nil, List.sum_cons, List.sum_nil]
    omega
  | _ :: _ :: _, h => simp at h

/-! ## the two loops -/

def ValOk (v : GVal) : Prop := 0 < v.shares ∧ 0 ≤ v.tokens ∧ OptsOk v.vote

structure AccInv (a : Acc) : Prop where
  lo : 0 ≤ a.res.abstain
  hi : a.res.abstain ≤ a.total
  vals : ∀ v ∈ a.vals, ValOk v

theorem foldE_inv {α β : Type} (f : β → α → Except String β) (I : β → Prop) (Q : α → Prop)
    (hstep : ∀ b a, I b → Q a → ∃ b', f b a = .ok b' ∧ I b') :
    ∀ (l : List α) (b : β), I b → (∀ a ∈ l, Q a) → ∃ b', foldE f b l = .ok b' ∧ I b' := by
  intro l
  induction l with
  | nil => intro b hb _; exact ⟨b, rfl, hb⟩
  | cons a as ih =>
    intro b hb hq
    obtain ⟨b1, e1, i1⟩ := hstep b a hb (hq a (by simp))
    obtain ⟨b2, e2, i2⟩ := ih b1 i1 (fun x hx => hq x (by simp [hx]))
    exact ⟨b2, by simp [foldE, e1, e2], i2⟩

theorem delegationStep_ok (opts : List (Opt × Int)) (hopts : OptsOk opts) (acc : Acc) (d : Nat × Int) (hi : AccInv acc)
    (hd : 0 ≤ d.2) : ∃ acc', delegationStep opts acc d = .ok acc' ∧ AccInv acc' := by
  unfold delegationStep
  cases hv : acc.vals[d.1]? with
  | none => exact ⟨acc, rfl, hi⟩
  | some v =>
    have hmem : v ∈ acc.vals := List.mem_of_getElem? hv
    obtain ⟨hs, ht, hvote⟩ := hi.vals v hmem
    obtain ⟨vp, hq⟩ := decQuo_some (d.2 * v.tokens) v.shares (by omega)
    have hvp : 0 ≤ vp := decQuo_nonneg _ _ _ (Int.mul_nonneg hd ht) hs hq
    simp only [hq]
    refine ⟨_, rfl, ?_, ?_, ?_⟩
    · have := (addOpts_bounds vp hvp opts hopts acc.res).1
      have := hi.lo; simp only; omega
    · have := (addOpts_bounds vp hvp opts hopts acc.res).2
      have := hi.hi; simp only; omega
    · intro x hx
      simp only at hx
      rcases List.mem_or_eq_of_mem_set hx with h | h
      · exact hi.vals x h
      · subst h; exact ⟨hs, ht, hvote⟩

theorem voterStep_ok (acc : Acc) (v : GVoter) (hi : AccInv acc) (hv : OptsOk v.opts ∧ ∀ d ∈ v.dels, 0 ≤ d.2) :
    ∃ acc', voterStep acc v = .ok acc' ∧ AccInv acc' := by
  unfold voterStep
  exact foldE_inv (delegationStep v.opts) AccInv (fun d => 0 ≤ d.2)
    (fun b d hb hd => delegationStep_ok v.opts hv.1 b d hb hd) v.dels acc hi hv.2

/-- invariant of the validator loop: the validator list itself is not touched by it -/
structure AccInv2 (vals : List GVal) (a : Acc) : Prop where
  lo : 0 ≤ a.res.abstain
  hi : a.res.abstain ≤ a.total

theorem validatorStep_ok (vals : List GVal) (acc : Acc) (v : GVal) (hi : AccInv2 vals acc)
    (hv : ValOk v ∧ v.ded ≤ v.shares) : ∃ acc', validatorStep acc v = .ok acc' ∧ AccInv2 vals acc' := by
  unfold validatorStep
  split
  · exact ⟨acc, rfl, hi⟩
  · obtain ⟨⟨hs, ht, hvote⟩, hded⟩ := hv
    obtain ⟨vp, hq⟩ := decQuo_some ((v.shares - v.ded) * v.tokens) v.shares (by omega)
    have hvp : 0 ≤ vp := decQuo_nonneg _ _ _ (Int.mul_nonneg (by omega) ht) hs hq
    simp only [hq]
    refine ⟨_, rfl, ?_, ?_⟩
    · have := (addOpts_bounds vp hvp v.vote hvote acc.res).1
      have := hi.lo; simp only; omega
    · have := (addOpts_bounds vp hvp v.vote hvote acc.res).2
      have := hi.hi; simp only; omega

/-! ## the regenerated tail -/

/-- the tail the proof below is about: no bonded tokens → fail; quorum; everyone abstains → fail; veto; threshold -/
def expectedTail : List TStep := [
  .retIf (.isZero .bonded) false .never,
  .bind "percentVoting" (.quo .total .bonded),
  .retIf (.lt (.var "percentVoting") .quorum) false .quorumFlag,
  .retIf (.eq (.sub .total .abstain) .zero) false .never,
  .retIf (.gt (.quo .veto .total) .vetoThr) false .vetoFlag,
  .retIf (.gt (.quo .yes (.sub .total .abstain)) .thr) true .never,
  .ret false .never]

theorem runTail_expected_total (i : TallyIn) (res : Res4) (total : Int) (h0 : 0 ≤ res.abstain) (h1 : res.abstain ≤ total) :
    ∃ r, runTail { i := i, res := res, total := total } expectedTail = .ok r := by
  simp only [expectedTail, runTail, evalCond, evalTV]
  by_cases hb : (i.bonded * (P : Int) == 0) = true
  · simp [hb]
  · have hb' : i.bonded * (P : Int) ≠ 0 := by simpa using hb
    obtain ⟨pv, hpv⟩ := decQuo_some total (i.bonded * (P : Int)) hb'
    simp only [hb, hpv, List.find?, beq_self_eq_true]
    by_cases hq : decide (pv < i.quorum) = true
    · simp [hq]
    · simp only [hq]
      by_cases ha : (total - res.abstain == 0) = true
      · simp [ha]
      · have ha' : total - res.abstain ≠ 0 := by simpa using ha
        have ht : total ≠ 0 := by omega
        obtain ⟨q1, hq1⟩ := decQuo_some res.veto total ht
        obtain ⟨q2, hq2⟩ := decQuo_some res.yes (total - res.abstain) ha'
        simp only [ha, hq1, hq2]
        by_cases hv : decide (q1 > i.vetoThr) = true
        · simp [hv]
        · simp only [hv]
          by_cases hy : decide (q2 > i.thr) = true
          · simp [hy]
          · simp [hy]

/-! ## the whole tally -/

/-- what the tally needs from the staking / gov state: every bonded validator has positive delegator shares and
non-negative tokens, every stored vote is a valid weighted vote (weights in [0, 1], no duplicate option), delegation
shares are non-negative, no deductions are pending -/
def InOk (i : TallyIn) : Prop :=
  (∀ v ∈ i.vals, ValOk v) ∧ (∀ vt ∈ i.voters, OptsOk vt.opts ∧ ∀ d ∈ vt.dels, 0 ≤ d.2)

/-- staking invariant used by the validator loop: the shares of a validator's voting delegators do not exceed the
validator's delegator shares (a validator's shares are the sum of its delegations' shares) -/
def DeductionsFit (i : TallyIn) : Prop :=
  ∀ a, foldE voterStep { vals := i.vals } i.voters = .ok a → ∀ v ∈ a.vals, v.ded ≤ v.shares

theorem tally_total_of_tail (htail : tallyTail = expectedTail) (i : TallyIn) (hi : InOk i) (hd : DeductionsFit i) :
    ∃ o, tally i = .ok o := by
  have inv0 : AccInv { vals := i.vals } := ⟨by simp, by simp, hi.1⟩
  obtain ⟨a1, e1, i1⟩ := foldE_inv voterStep AccInv (fun vt => OptsOk vt.opts ∧ ∀ d ∈ vt.dels, 0 ≤ d.2)
    (fun b v hb hv => voterStep_ok b v hb hv) i.voters _ inv0 hi.2
  have hfit := hd a1 e1
  obtain ⟨a2, e2, i2⟩ := foldE_inv validatorStep (AccInv2 a1.vals) (fun v => ValOk v ∧ v.ded ≤ v.shares)
    (fun b v hb hv => validatorStep_ok a1.vals b v hb hv) a1.vals a1 ⟨i1.lo, i1.hi⟩
    (fun v hv => ⟨i1.vals v hv, hfit v hv⟩)
  obtain ⟨r, hr⟩ := runTail_expected_total i a2.res a2.total i2.lo i2.hi
  unfold tally
  rw [e1]; simp only
  rw [e2]; simp only
  rw [htail, hr]
  exact ⟨_, rfl⟩

end FxVerif.Proofs.C07Gov
