import FxVerif.Proofs.C04Flow
import FxVerif.Model.C04Handler
/-! helper lemmas for the interpreted statement lists of `BridgeCallHandler` / `HandleOutgoingBridgeCallRefund` -/
namespace FxVerif.Proofs.C04
open FxVerif.Model.Ledger FxVerif.Model.Flows FxVerif.Model.C04 FxVerif.Proofs.Ledger

/-- one step of the fold inside `tokensFlow` -/
def tokStep (cfg : Cfg) (c : Nat) (f : Kind → Nat → Nat → List Prim) (acc : List Prim) (t : Nat × Nat) :
    Except Err (List Prim) :=
  match bridged cfg t.1 c with
  | some k => .ok (acc ++ f k t.1 t.2)
  | none => .error .notFound

theorem tokensFlow_eq (cfg : Cfg) (c : Nat) (tokens : List (Nat × Nat)) (f : Kind → Nat → Nat → List Prim) :
    tokensFlow cfg c tokens f = tokens.foldlM (tokStep cfg c f) [] := rfl

/-- the accumulator of the fold is a prefix -/
theorem tokFold_acc (cfg : Cfg) (c : Nat) (f : Kind → Nat → Nat → List Prim) :
    ∀ (tokens : List (Nat × Nat)) (acc : List Prim),
      tokens.foldlM (tokStep cfg c f) acc =
        (match tokens.foldlM (tokStep cfg c f) [] with
         | .ok fl => .ok (acc ++ fl)
         | .error e => .error e) := by
  intro tokens
  induction tokens with
  | nil => intro acc; simp [List.foldlM, pure, Except.pure]
  | cons t ts ih =>
    intro acc
    simp only [List.foldlM, bind, Except.bind, tokStep]
    cases hb : bridged cfg t.1 c with
    | none => rfl
    | some k =>
      simp only []
      rw [ih (acc ++ f k t.1 t.2), ih ([] ++ f k t.1 t.2)]
      cases List.foldlM (tokStep cfg c f) [] ts with
      | error e => rfl
      | ok fl => simp

/-- recursive characterisation of `tokensFlow` -/
theorem tokensFlow_cons (cfg : Cfg) (c : Nat) (t : Nat × Nat) (ts : List (Nat × Nat)) (f : Kind → Nat → Nat → List Prim) :
    tokensFlow cfg c (t :: ts) f =
      (match bridged cfg t.1 c with
       | none => .error .notFound
       | some k =>
         match tokensFlow cfg c ts f with
         | .ok fl => .ok (f k t.1 t.2 ++ fl)
         | .error e => .error e) := by
  rw [tokensFlow_eq, tokensFlow_eq]
  simp only [List.foldlM, bind, Except.bind, tokStep]
  cases hb : bridged cfg t.1 c with
  | none => rfl
  | some k =>
    simp only []
    rw [tokFold_acc]
    cases List.foldlM (tokStep cfg c f) [] ts with
    | error e => rfl
    | ok fl => simp

theorem tokensFlow_nil (cfg : Cfg) (c : Nat) (f : Kind → Nat → Nat → List Prim) : tokensFlow cfg c [] f = .ok [] := rfl

/-- whether `tokensFlow` succeeds depends on the tokens only, and the flow of a per-token concatenation has, for every
linear observable, the sum of the changes of the two separate loops (the loops run one after the other in the code, the
model runs them interleaved per token) -/
theorem tokensFlow_split (cfg : Cfg) (c : Nat) (f1 f2 : Kind → Nat → Nat → List Prim) (tokens : List (Nat × Nat)) :
    match tokensFlow cfg c tokens (fun k g n => f1 k g n ++ f2 k g n), tokensFlow cfg c tokens f1, tokensFlow cfg c tokens f2 with
    | .ok x, .ok a, .ok b => ∀ o : Obs, o.flowDelta x = o.flowDelta a + o.flowDelta b
    | .error _, .error _, .error _ => True
    | _, _, _ => False := by
  induction tokens with
  | nil => simp [tokensFlow_nil, Obs.flowDelta]
  | cons t ts ih =>
    rw [tokensFlow_cons, tokensFlow_cons, tokensFlow_cons]
    cases hb : bridged cfg t.1 c with
    | none => simp
    | some k =>
      simp only []
      revert ih
      cases tokensFlow cfg c ts (fun k g n => f1 k g n ++ f2 k g n) <;> cases tokensFlow cfg c ts f1 <;>
        cases tokensFlow cfg c ts f2 <;> simp only [] <;> intro ih <;> try exact ih
      intro o
      rw [flowDelta_append, flowDelta_append, flowDelta_append, flowDelta_append, ih o]
      omega

/-- a single-token claim: the two loops and the interleaved loop are the same list -/
theorem tokensFlow_single (cfg : Cfg) (c : Nat) (f : Kind → Nat → Nat → List Prim) (g n : Nat) :
    tokensFlow cfg c [(g, n)] f =
      (match bridged cfg g c with
       | none => .error .notFound
       | some k => .ok (f k g n)) := by
  rw [tokensFlow_cons, tokensFlow_nil]
  cases bridged cfg g c <;> simp

/-- the fold of `bridgeCallTransferTokens` over the refunded coins, with the regenerated per-coin branches, is the model's
`refundToEvmFlow` -/
theorem transferTokens_eq (cfg : Cfg) (r : Nat) (tokens : List (Nat × Nat)) :
    transferTokensFlow cfg [.skipIfSame, .sendCoins .sender .receiver] [.convertCoin .sender .receiver] (U r) (U r) tokens =
      refundToEvmFlow cfg r tokens := by
  unfold transferTokensFlow refundToEvmFlow
  congr 1
  funext acc t
  cases hk : cfg.kind t.1 with
  | none => rfl
  | some k =>
    cases k with
    | fx => simp [runTokenSteps]
    | moduleOwned =>
      simp only [runTokenSteps, tAddr, bridgeCallRefundToEvm, List.append_nil]
      cases pairOk cfg t.1 <;> rfl
    | externalOwned =>
      simp only [runTokenSteps, tAddr, bridgeCallRefundToEvm, List.append_nil]
      cases pairOk cfg t.1 <;> rfl

end FxVerif.Proofs.C04
