import FxVerif.Model.C12
/-!
# C12 confirm handler: acceptance characterisation and the invariant over arbitrary op sequences
-/
namespace FxVerif.Model.C12

def Entry.slot (e : Entry) : ObjKey × Nat := (e.key, e.oracle)

/-- what holds of every stored confirmation, in every reachable state -/
def EntryOk (recover : List Nat → List Nat → Option String) (st : HState) (e : Entry) : Prop :=
  recover e.digest e.sig = some e.external ∧ e.recAt.external = e.external ∧ e.recAt.bridger = e.bridger ∧
  st.objects.lookup e.key = some e.digest

def Inv (recover : List Nat → List Nat → Option String) (st : HState) : Prop :=
  (∀ e ∈ st.confirms, EntryOk recover st e) ∧ (st.confirms.map Entry.slot).Nodup

theorem hasConfirm_false_iff (st : HState) (k : ObjKey) (o : Nat) :
    hasConfirm st k o = false ↔ (k, o) ∉ st.confirms.map Entry.slot := by
  simp only [hasConfirm, List.any_eq_false, Bool.and_eq_true, beq_iff_eq, not_and, List.mem_map, Entry.slot,
    Prod.mk.injEq, not_exists]

/-- acceptance, exactly -/
theorem confirmStep_ok_iff (recover : List Nat → List Nat → Option String) (st st' : HState) (m : ConfirmMsg) :
    confirmStep recover st m = .ok st' ↔
      ∃ digest sig oracle r,
        st.objects.lookup m.key = some digest ∧ m.sig = some sig ∧
        st.byExternal.lookup m.external = some oracle ∧ st.oracles.lookup oracle = some r ∧
        r.external = m.external ∧ r.bridger = m.bridger ∧
        recover digest sig = some m.external ∧ hasConfirm st m.key oracle = false ∧
        st' = { st with confirms := ⟨m.key, oracle, m.bridger, m.external, sig, digest, r⟩ :: st.confirms } := by
  constructor
  · intro h
    unfold confirmStep at h
    repeat' split at h
    all_goals first | (cases h; done) | skip
    injection h with h
    subst h
    refine ⟨_, _, _, _, ‹_›, ‹_›, ‹_›, ‹_›, ?_, ?_, ?_, ?_, rfl⟩ <;> simp_all
  · rintro ⟨digest, sig, oracle, r, ho, hs, he, hr, h1, h2, h3, h4, rfl⟩
    simp [confirmStep, ho, hs, he, hr, h1, h2, h3, h4]

theorem lookup_cons_ne {κ ν : Type} [BEq κ] [LawfulBEq κ] (k k' : κ) (v : ν) (l : List (κ × ν)) (h : k ≠ k') :
    ((k', v) :: l).lookup k = l.lookup k := by
  have hb : (k == k') = false := by simpa using h
  simp [List.lookup_cons, hb]

theorem inv_step (recover : List Nat → List Nat → Option String) (st : HState) (op : Op) (h : Inv recover st) :
    Inv recover (step recover st op) := by
  cases op with
  | addObject k d =>
    simp only [step]
    split
    · exact h
    · rename_i hk
      refine ⟨?_, h.2⟩
      intro e he
      obtain ⟨h1, h2, h3, h4⟩ := h.1 e he
      refine ⟨h1, h2, h3, ?_⟩
      have hne : e.key ≠ k := by
        intro heq
        rw [heq] at h4
        simp [h4] at hk
      show ((k, d) :: st.objects).lookup e.key = some e.digest
      rw [lookup_cons_ne _ _ _ _ hne]; exact h4
  | setOracle o r => exact h
  | setIndex e o => exact h
  | confirm m =>
    simp only [step]
    cases hc : confirmStep recover st m with
    | error _ => exact h
    | ok st' =>
      obtain ⟨digest, sig, oracle, r, ho, _, _, _, hre, hrb, hrec, hdup, rfl⟩ := (confirmStep_ok_iff recover st st' m).1 hc
      refine ⟨?_, ?_⟩
      · intro e he
        simp only [List.mem_cons] at he
        rcases he with rfl | he
        · exact ⟨hrec, hre, hrb, ho⟩
        · exact h.1 e he
      · simp only [List.map_cons, List.nodup_cons]
        exact ⟨(hasConfirm_false_iff st m.key oracle).1 hdup, h.2⟩

theorem inv_run (recover : List Nat → List Nat → Option String) (st : HState) (ops : List Op) (h : Inv recover st) :
    Inv recover (run recover st ops) := by
  induction ops generalizing st with
  | nil => exact h
  | cons op ops ih => exact ih _ (inv_step recover st op h)

theorem inv_init (recover : List Nat → List Nat → Option String) : Inv recover {} := by
  simp [Inv]

end FxVerif.Model.C12
