import FxVerif.Model.C12
import FxVerif.Proofs.C12Abi
/-!
# C12 confirm handler: acceptance characterisation, refinement of the regenerated key plan to the specification, and the
invariant over arbitrary op sequences (object stores, registry writes, confirms, pruning)
-/
namespace FxVerif.Model.C12
open FxVerif.Gen.C12

def Entry.slot (e : Entry) : ObjKey × Nat := (e.key, e.oracle)

/-- what holds of every stored confirmation, in every reachable state: the signature recovers to the external address
registered for the oracle when it was accepted, over the checkpoint of the object that was stored under the very key the
confirmation is filed under; it was submitted under that oracle's bridger -/
def EntryOk (recover : List Nat → List Nat → Option String) (st : HState) (e : Entry) : Prop :=
  recover e.digest e.sig = some e.external ∧ e.recAt.external = e.external ∧ e.recAt.bridger = e.bridger ∧
  st.ever.lookup e.key = some e.digest

def Inv (recover : List Nat → List Nat → Option String) (st : HState) : Prop :=
  (∀ e ∈ st.confirms, EntryOk recover st e) ∧ (st.confirms.map Entry.slot).Nodup ∧
  (∀ k d, st.objects.lookup k = some d → st.ever.lookup k = some d) ∧
  (∀ k d, st.ever.lookup k = some d → k ∉ st.removed → st.objects.lookup k = some d)

theorem hasConfirm_false_iff (st : HState) (k : ObjKey) (o : Nat) :
    hasConfirm st k o = false ↔ (k, o) ∉ st.confirms.map Entry.slot := by
  simp only [hasConfirm, List.any_eq_false, Bool.and_eq_true, beq_iff_eq, not_and, List.mem_map, Entry.slot,
    Prod.mk.injEq, not_exists]

/-- acceptance, exactly -/
theorem confirmStep_ok_iff (recover : List Nat → List Nat → Option String) (st st' : HState) (m : ConfirmMsg) :
    confirmStep recover st m = .ok st' ↔
      ∃ digest sig oracle r,
        st.objects.lookup m.key = some digest ∧ m.sig = some sig ∧
        st.byExternal.lookup m.external = some oracle ∧ st.oracles.lookup oracle = some r ∧
        r.external = m.external ∧ r.bridger = m.bridger ∧
        recover digest sig = some m.external ∧ hasConfirm st m.key oracle = false ∧
        st' = { st with confirms := ⟨m.key, oracle, m.bridger, m.external, sig, digest, r⟩ :: st.confirms } := by
  constructor
  · intro h
    unfold confirmStep at h
    repeat' split at h
    all_goals first | (cases h; done) | skip
    injection h with h
    subst h
    refine ⟨_, _, _, _, ‹_›, ‹_›, ‹_›, ‹_›, ?_, ?_, ?_, ?_, rfl⟩ <;> simp_all
  · rintro ⟨digest, sig, oracle, r, ho, hs, he, hr, h1, h2, h3, h4, rfl⟩
    simp [confirmStep, ho, hs, he, hr, h1, h2, h3, h4]

/-! ## the regenerated key plan refines the specification -/

theorem find?_key {ν : Type} (l : List (ObjKey × ν)) (key : ObjKey) (f : ObjKey → Bool) (hf : ∀ k, f k = (k == key)) :
    l.find? (fun p => f p.1) = (l.lookup key).map (fun d => (key, d)) := by
  have hf' : f = fun k => k == key := funext hf
  subst hf'
  induction l with
  | nil => rfl
  | cons p l ih =>
    obtain ⟨k, d⟩ := p
    by_cases h : k = key
    · subst h; simp [List.find?_cons, List.lookup_cons]
    · have h1 : (k == key) = false := by simpa using h
      have h2 : (key == k) = false := by simpa using fun e => h e.symm
      simp only [List.find?_cons, List.lookup_cons, h1, h2]
      exact ih

theorem keyMatches_full (key k : ObjKey) :
    keyMatches key.kind ⟨(if key.kind == "batch" then some key.token else none), some key.nonce, false⟩ k = (k == key) := by
  rw [Bool.eq_iff_iff]
  cases key <;> cases k <;>
    simp [keyMatches, ObjKey.kind, ObjKey.token, ObjKey.nonce, and_comm] <;> (try decide)

theorem evalSlots_full (key found : ObjKey) :
    evalSlots key found (fullKey key.kind) {} =
      some ⟨(if key.kind == "batch" then some key.token else none), some key.nonce, false⟩ := by
  cases key <;> simp [fullKey, ObjKey.kind, evalSlots, tokenExpr, nonceExpr, ObjKey.token, ObjKey.nonce] <;> decide

theorem evalSlots_fullOracle (key found : ObjKey) :
    evalSlots key found (fullKey key.kind ++ [("oracle", "oracle")]) {} =
      some ⟨(if key.kind == "batch" then some key.token else none), some key.nonce, true⟩ := by
  cases key <;> simp [fullKey, ObjKey.kind, evalSlots, tokenExpr, nonceExpr, ObjKey.token, ObjKey.nonce] <;> decide

theorem refKey_full (key found : ObjKey) (r : KeyRef) (h : r.slots = fullKey key.kind ++ [("oracle", "oracle")]) :
    refKey key.kind key found r = some key := by
  unfold refKey
  rw [h, evalSlots_fullOracle]
  cases key <;> simp [ObjKey.kind, mkKey, ObjKey.token, ObjKey.nonce] <;> decide

theorem findObject_full (st : HState) (key : ObjKey) (r : KeyRef) (h : r.slots = fullKey key.kind) :
    findObject key.kind st key [r] = (st.objects.lookup key).map (fun d => (key, d)) := by
  simp only [findObject, h, evalSlots_full]
  rw [find?_key st.objects key _ (keyMatches_full key)]
  cases st.objects.lookup key <;> rfl

/-- for a plan that is `exact`, the handler driven by the regenerated plan IS the specified handler -/
theorem confirmStepP_eq_confirmStep (P : Plan) (recover : List Nat → List Nat → Option String) (st : HState) (m : ConfirmMsg)
    (hx : planExact P = true) (hk : P.kind = m.key.kind) : confirmStepP P recover st m = confirmStep recover st m := by
  simp only [planExact, Bool.and_eq_true, beq_iff_eq, List.all_eq_true] at hx
  obtain ⟨⟨⟨⟨⟨⟨⟨⟨⟨⟨_, hlen⟩, hlk⟩, hdup⟩, hst⟩, _⟩, _⟩, _⟩, _⟩, _⟩, _⟩ := hx
  obtain ⟨r, hr⟩ := List.length_eq_one_iff.1 hlen
  have hrs : r.slots = fullKey m.key.kind := by
    have := (hlk r (by simp [hr])).1
    rw [← hk]; exact this
  have hd : P.dup.slots = fullKey m.key.kind ++ [("oracle", "oracle")] := by rw [← hk]; exact hdup
  have hs : P.store.slots = fullKey m.key.kind ++ [("oracle", "oracle")] := by rw [hst, hd]
  unfold confirmStepP confirmStep
  rw [hr, hk, findObject_full st m.key r hrs]
  cases st.objects.lookup m.key with
  | none => rfl
  | some digest =>
    simp only [Option.map_some, refKey_full m.key m.key _ hd, refKey_full m.key m.key _ hs]

/-! ## invariant -/

theorem lookup_cons_ne {κ ν : Type} [BEq κ] [LawfulBEq κ] (k k' : κ) (v : ν) (l : List (κ × ν)) (h : k ≠ k') :
    ((k', v) :: l).lookup k = l.lookup k := by
  have hb : (k == k') = false := by simpa using h
  simp [List.lookup_cons, hb]

theorem lookup_filter_ne {ν : Type} (l : List (ObjKey × ν)) (k k' : ObjKey) :
    (l.filter (fun p => p.1 != k)).lookup k' = if k' = k then none else l.lookup k' := by
  induction l with
  | nil => simp
  | cons p l ih =>
    obtain ⟨a, b⟩ := p
    by_cases ha : a = k
    · subst ha
      simp only [List.filter_cons, bne_self_eq_false, Bool.false_eq_true, if_false, ih]
      by_cases hk : k' = a
      · simp [hk]
      · simp [hk, lookup_cons_ne _ _ _ _ hk]
    · have : (a != k) = true := by simpa using ha
      simp only [List.filter_cons, this, if_true]
      by_cases hk : k' = k
      · subst hk
        have hne : k' ≠ a := fun e => ha e.symm
        rw [lookup_cons_ne _ _ _ _ hne, ih]
        simp
      · by_cases hka : k' = a
        · subst hka; simp [List.lookup_cons, hk]
        · rw [lookup_cons_ne _ _ _ _ hka, lookup_cons_ne _ _ _ _ hka, ih]

theorem nodup_map_filter {α β : Type} (f : α → β) (p : α → Bool) (l : List α) (h : (l.map f).Nodup) :
    ((l.filter p).map f).Nodup := by
  induction l with
  | nil => simp
  | cons a l ih =>
    simp only [List.map_cons, List.nodup_cons] at h
    simp only [List.filter_cons]
    split
    · simp only [List.map_cons, List.nodup_cons]
      refine ⟨?_, ih h.2⟩
      intro hm
      apply h.1
      simp only [List.mem_map, List.mem_filter] at hm ⊢
      obtain ⟨x, ⟨hx, _⟩, hfx⟩ := hm
      exact ⟨x, hx, hfx⟩
    · exact ih h.2

theorem inv_stepOther (recover : List Nat → List Nat → Option String) (st : HState) (op : Op) (h : Inv recover st) :
    Inv recover (stepOther st op) := by
  obtain ⟨h1, h2, h3, h4⟩ := h
  cases op with
  | addObject k d =>
    simp only [stepOther]
    split
    · exact ⟨h1, h2, h3, h4⟩
    · rename_i hk
      have hnone : st.ever.lookup k = none := by
        cases hh : st.ever.lookup k with
        | none => rfl
        | some v => rw [hh] at hk; simp at hk
      have keep : ∀ k' d', st.ever.lookup k' = some d' → ((k, d) :: st.ever).lookup k' = some d' := by
        intro k' d' hl
        have hne : k' ≠ k := by intro e; rw [e, hnone] at hl; cases hl
        rw [lookup_cons_ne _ _ _ _ hne]; exact hl
      refine ⟨?_, h2, ?_, ?_⟩
      · intro e he
        obtain ⟨a, b, c, dd⟩ := h1 e he
        exact ⟨a, b, c, keep _ _ dd⟩
      · intro k' d' hl
        show ((k, d) :: st.ever).lookup k' = some d'
        by_cases hk' : k' = k
        · subst hk'
          have : ((k', d) :: st.objects).lookup k' = some d := by simp [List.lookup_cons]
          have hl' : ((k', d) :: st.objects).lookup k' = some d' := hl
          rw [this] at hl'
          simp [List.lookup_cons, ← hl']
        · have hl' : ((k, d) :: st.objects).lookup k' = some d' := hl
          rw [lookup_cons_ne _ _ _ _ hk'] at hl' ⊢
          exact h3 _ _ hl'
      · intro k' d' hl hr
        have hl' : ((k, d) :: st.ever).lookup k' = some d' := hl
        show ((k, d) :: st.objects).lookup k' = some d'
        by_cases hk' : k' = k
        · subst hk'
          simp only [List.lookup_cons, beq_self_eq_true] at hl' ⊢
          exact hl'
        · rw [lookup_cons_ne _ _ _ _ hk'] at hl' ⊢
          exact h4 _ _ hl' hr
  | setOracle o r => exact ⟨h1, h2, h3, h4⟩
  | setIndex e o => exact ⟨h1, h2, h3, h4⟩
  | confirm m => exact ⟨h1, h2, h3, h4⟩
  | removeObject k dobj dconf =>
    simp only [stepOther]
    refine ⟨?_, ?_, ?_, ?_⟩
    · intro e he
      have he' : e ∈ st.confirms := by
        cases dconf
        · simpa using he
        · simp only [if_true, List.mem_filter] at he; exact he.1
      exact h1 e he'
    · cases dconf
      · simpa using h2
      · simp only [if_true]; exact nodup_map_filter _ _ _ h2
    · intro k' d' hl
      cases dobj
      · exact h3 _ _ (by simpa using hl)
      · simp only [if_true, lookup_filter_ne] at hl
        split at hl
        · cases hl
        · exact h3 _ _ hl
    · intro k' d' hl hr
      cases dobj
      · simp only [Bool.false_eq_true, if_false] at hr ⊢
        exact h4 _ _ hl hr
      · simp only [if_true, List.mem_cons, not_or] at hr
        simp only [if_true, lookup_filter_ne, hr.1, if_false]
        exact h4 _ _ hl hr.2

theorem inv_step (recover : List Nat → List Nat → Option String) (st : HState) (op : Op) (h : Inv recover st) :
    Inv recover (step recover st op) := by
  cases op with
  | confirm m =>
    simp only [step]
    cases hc : confirmStep recover st m with
    | error _ => exact h
    | ok st' =>
      obtain ⟨digest, sig, oracle, r, ho, _, _, _, hre, hrb, hrec, hdup, rfl⟩ := (confirmStep_ok_iff recover st st' m).1 hc
      obtain ⟨h1, h2, h3, h4⟩ := h
      refine ⟨?_, ?_, h3, h4⟩
      · intro e he
        simp only [List.mem_cons] at he
        rcases he with rfl | he
        · exact ⟨hrec, hre, hrb, h3 _ _ ho⟩
        · exact h1 e he
      · simp only [List.map_cons, List.nodup_cons]
        exact ⟨(hasConfirm_false_iff st m.key oracle).1 hdup, h2⟩
  | addObject k d => exact inv_stepOther recover st _ h
  | setOracle o r => exact inv_stepOther recover st _ h
  | setIndex e o => exact inv_stepOther recover st _ h
  | removeObject k a b => exact inv_stepOther recover st _ h

theorem inv_run (recover : List Nat → List Nat → Option String) (st : HState) (ops : List Op) (h : Inv recover st) :
    Inv recover (run recover st ops) := by
  induction ops generalizing st with
  | nil => exact h
  | cons op ops ih => exact ih _ (inv_step recover st op h)

theorem inv_init (recover : List Nat → List Nat → Option String) : Inv recover {} := by
  simp [Inv]

/-! ## what the ghost fields record -/

def Op.isRemove : Op → Bool
  | .removeObject _ _ _ => true
  | _ => false

theorem removed_step (recover : List Nat → List Nat → Option String) (st : HState) (op : Op) (h : op.isRemove = false) :
    (step recover st op).removed = st.removed := by
  cases op with
  | confirm m =>
    simp only [step]
    cases hc : confirmStep recover st m with
    | error _ => rfl
    | ok st' =>
      obtain ⟨_, _, _, _, _, _, _, _, _, _, _, _, rfl⟩ := (confirmStep_ok_iff recover st st' m).1 hc
      rfl
  | addObject k d => simp only [step, stepOther]; split <;> rfl
  | setOracle o r => rfl
  | setIndex e o => rfl
  | removeObject k a b => simp [Op.isRemove] at h

theorem removed_run (recover : List Nat → List Nat → Option String) (st : HState) (ops : List Op)
    (h : ∀ op ∈ ops, op.isRemove = false) : (run recover st ops).removed = st.removed := by
  induction ops generalizing st with
  | nil => rfl
  | cons op ops ih =>
    have := ih (step recover st op) (fun o ho => h o (by simp [ho]))
    simp only [run, List.foldl_cons] at this ⊢
    rw [this, removed_step recover st op (h op (by simp))]

/-- every object ever stored was stored by an `addObject` of the sequence -/
theorem ever_from_ops (recover : List Nat → List Nat → Option String) (st : HState) (ops : List Op) (k : ObjKey) (d : List Nat)
    (h : (k, d) ∈ (run recover st ops).ever) : (k, d) ∈ st.ever ∨ Op.addObject k d ∈ ops := by
  induction ops generalizing st with
  | nil => exact Or.inl h
  | cons op ops ih =>
    have h' : (k, d) ∈ (run recover (step recover st op) ops).ever := h
    rcases ih _ h' with hin | hin
    · cases op with
      | confirm m =>
        simp only [step] at hin
        cases hc : confirmStep recover st m with
        | error _ => rw [hc] at hin; exact Or.inl hin
        | ok st' =>
          rw [hc] at hin
          obtain ⟨_, _, _, _, _, _, _, _, _, _, _, _, rfl⟩ := (confirmStep_ok_iff recover st st' m).1 hc
          exact Or.inl hin
      | addObject k' d' =>
        simp only [step, stepOther] at hin
        split at hin
        · exact Or.inl hin
        · simp only [List.mem_cons] at hin
          rcases hin with heq | hin
          · cases heq; exact Or.inr (by simp)
          · exact Or.inl hin
      | setOracle o r => exact Or.inl hin
      | setIndex e o => exact Or.inl hin
      | removeObject k' a b => exact Or.inl hin
    · exact Or.inr (by simp [hin])

theorem mem_of_lookup {κ ν : Type} [BEq κ] [LawfulBEq κ] (l : List (κ × ν)) (k : κ) (v : ν) (h : l.lookup k = some v) :
    (k, v) ∈ l := by
  induction l with
  | nil => simp at h
  | cons p l ih =>
    obtain ⟨a, b⟩ := p
    by_cases hk : k = a
    · subst hk; simp [List.lookup_cons] at h; simp [h]
    · rw [lookup_cons_ne _ _ _ _ hk] at h; simp [ih h]

/-- dropping the confirmations of a key leaves none filed under it -/
theorem removeObject_drops (st : HState) (k : ObjKey) (dobj : Bool) :
    ∀ e ∈ (stepOther st (.removeObject k dobj true)).confirms, e.key ≠ k := by
  intro e he
  simp only [stepOther, if_true, List.mem_filter] at he
  simpa using he.2

/-! ## the step function the driver runs equals the specified one when every plan is exact -/

theorem find_kind (ps : List Plan) (k : ObjKey) (h : ps.map (·.kind) = ["batch", "oracleSet", "bridgeCall"]) :
    ∃ P, P ∈ ps ∧ ps.find? (fun P => P.kind == k.kind) = some P ∧ P.kind = k.kind := by
  obtain ⟨a, b, c, rfl⟩ : ∃ a b c, ps = [a, b, c] := by
    match ps, h with
    | [a, b, c], _ => exact ⟨a, b, c, rfl⟩
    | [], h => simp at h
    | [_], h => simp at h
    | [_, _], h => simp at h
    | _ :: _ :: _ :: _ :: _, h => simp at h
  simp only [List.map_cons, List.map_nil, List.cons.injEq, and_true] at h
  obtain ⟨ha, hb, hc⟩ := h
  cases k
  · exact ⟨b, by simp, by simp [List.find?_cons, ha, hb, ObjKey.kind], hb⟩
  · exact ⟨a, by simp, by simp [List.find?_cons, ha, ObjKey.kind], ha⟩
  · exact ⟨c, by simp, by simp [List.find?_cons, ha, hb, hc, ObjKey.kind], hc⟩

theorem planFor_kind (k : ObjKey) (h : handlerPlans.map (·.kind) = ["batch", "oracleSet", "bridgeCall"])
    : (planFor k).kind = k.kind := by
  obtain ⟨P, _, hf, hk⟩ := find_kind handlerPlans k h
  simp [planFor, hf, hk]

theorem planFor_exact (k : ObjKey) (h : handlerPlans.map (·.kind) = ["batch", "oracleSet", "bridgeCall"])
    (hx : handlerPlans.all planExact = true) : planExact (planFor k) = true := by
  obtain ⟨P, hm, hf, _⟩ := find_kind handlerPlans k h
  simp only [planFor, hf, Option.getD_some]
  exact List.all_eq_true.1 hx P hm

theorem stepG_eq_step (h : handlerPlans.map (·.kind) = ["batch", "oracleSet", "bridgeCall"])
    (hx : handlerPlans.all planExact = true) (recover : List Nat → List Nat → Option String) (st : HState) (op : Op) :
    stepG recover st op = step recover st op := by
  cases op with
  | confirm m =>
    simp only [stepG, step, confirmStepG]
    rw [confirmStepP_eq_confirmStep _ recover st m (planFor_exact m.key h hx) (planFor_kind m.key h)]
  | addObject k d => rfl
  | setOracle o r => rfl
  | setIndex e o => rfl
  | removeObject k a b => rfl

theorem runG_eq_run (h : handlerPlans.map (·.kind) = ["batch", "oracleSet", "bridgeCall"])
    (hx : handlerPlans.all planExact = true) (recover : List Nat → List Nat → Option String) (st : HState) (ops : List Op) :
    runG recover st ops = run recover st ops := by
  induction ops generalizing st with
  | nil => rfl
  | cons op ops ih =>
    simp only [runG, run, List.foldl_cons] at ih ⊢
    rw [stepG_eq_step h hx, ih]

/-! ## store keys: byte layout is injective -/

theorem toBE8_inj {a b : Nat} (ha : a < 2 ^ 64) (hb : b < 2 ^ 64) (h : toBE 8 a = toBE 8 b) : a = b := by
  have h1 := fromBE_toBE 8 a
  have h2 := fromBE_toBE 8 b
  rw [h] at h1
  have e : (256 : Nat) ^ 8 = 2 ^ 64 := by decide
  rw [e] at h1 h2
  rw [Nat.mod_eq_of_lt ha] at h1
  rw [Nat.mod_eq_of_lt hb] at h2
  omega

/-- `p ++ t ++ be8 n ++ o` determines `t`, `n`, `o` when the texts have one length -/
theorem key_layout_inj (p t1 t2 o1 o2 : List Nat) (n1 n2 : Nat) (hl : t1.length = t2.length)
    (h1 : n1 < 2 ^ 64) (h2 : n2 < 2 ^ 64)
    (h : p ++ (t1 ++ (toBE 8 n1 ++ o1)) = p ++ (t2 ++ (toBE 8 n2 ++ o2))) : t1 = t2 ∧ n1 = n2 ∧ o1 = o2 := by
  have h' := List.append_cancel_left h
  obtain ⟨ht, hr⟩ := List.append_inj h' hl
  obtain ⟨hn, ho⟩ := List.append_inj hr (by simp)
  exact ⟨ht, toBE8_inj h1 h2 hn, ho⟩

end FxVerif.Model.C12
