import FxVerif.Model.C17Cache
/-! helper lemma for caches of state-derived data (core Lean only) -/
namespace FxVerif.Proofs.C17
open FxVerif.Model.C17 List

/-- a node's observations are those of the reference run when there is an invariant relating memory AND state that
construction establishes for every state, delivered transactions keep with the new state, discarded executions keep with
the OLD state, and under which state effect and output do not depend on the memory -/
theorem run_eq_pure_coherent {M S I O : Type} (h : Handler M S I O) (m₀ : M) (Inv : M → S → Prop) (hinit : ∀ s, Inv m₀ s)
    (hdel : ∀ m s i, Inv m s → Inv (h m s i).1 (h m s i).2.1)
    (hserve : ∀ m s i, Inv m s → Inv (h m s i).1 s)
    (hindep : ∀ m m' s i, Inv m s → Inv m' s → (h m s i).2 = (h m' s i).2) :
    ∀ (evs : List (Ev I)) (n : Node M S), Inv n.mem n.st →
      (runEvs h m₀ n evs).1.st = (runPure h m₀ n.st (blocksOf evs)).1 ∧
      (runEvs h m₀ n evs).2 = (runPure h m₀ n.st (blocksOf evs)).2 := by
  intro evs
  induction evs with
  | nil => intro n _; exact ⟨rfl, rfl⟩
  | cons e es ih =>
    intro n hn
    cases e with
    | deliver i =>
      have hi := hindep n.mem m₀ n.st i hn (hinit _)
      have := ih ⟨(h n.mem n.st i).1, (h n.mem n.st i).2.1⟩ (hdel _ _ _ hn)
      simp only [runEvs, stepEv, blocksOf, runPure]
      simp only [← hi]
      exact ⟨this.1, by rw [this.2]⟩
    | serve i =>
      have := ih ⟨(h n.mem n.st i).1, n.st⟩ (hserve _ _ _ hn)
      simp only [runEvs, stepEv, blocksOf]
      exact this
    | restart =>
      have := ih ⟨m₀, n.st⟩ (hinit _)
      simp only [runEvs, stepEv, blocksOf]
      exact this

end FxVerif.Proofs.C17
