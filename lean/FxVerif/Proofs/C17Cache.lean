import FxVerif.Model.C17Cache
/-! helper lemma for caches of state-derived data (core Lean only) -/
namespace FxVerif.Proofs.C17
open FxVerif.Model.C17 List

/-- a node's observations are those of the reference run when there is an invariant relating memory AND state that
construction establishes for every state, delivered transactions keep with the new state, discarded executions keep with
the OLD state, and under which state effect and output do not depend on the memory -/
theorem run_eq_pure_coherent {M S I O : Type} (h : Handler M S I O) (m₀ : M) (Inv : M → S → Prop) (hinit : ∀ s, Inv m₀ s)
    (hdel : ∀ m s i, Inv m s → Inv (h m s i).1 (h m s i).2.1)
    (hserve : ∀ m s i, Inv m s → Inv (h m s i).1 s)
    (hindep : ∀ m m' s i, Inv m s → Inv m' s → (h m s i).2 = (h m' s i).2) :
    ∀ (evs : List (Ev I)) (n : Node M S), Inv n.mem n.st →
      (runEvs h m₀ n evs).1.st = (runPure h m₀ n.st (blocksOf evs)).1 ∧
      (runEvs h m₀ n evs).2 = (runPure h m₀ n.st (blocksOf evs)).2 := by
  intro evs
  induction evs with
  | nil => intro n _; exact ⟨rfl, rfl⟩
  | cons e es ih =>
    intro n hn
    cases e with
    | deliver i =>
      have hi := hindep n.mem m₀ n.st i hn (hinit _)
      have := ih ⟨(h n.mem n.st i).1, (h n.mem n.st i).2.1⟩ (hdel _ _ _ hn)
      simp only [runEvs, stepEv, blocksOf, runPure]
      simp only [← hi]
      exact ⟨this.1, by rw [this.2]⟩
    | serve i =>
      have := ih ⟨(h n.mem n.st i).1, n.st⟩ (hserve _ _ _ hn)
      simp only [runEvs, stepEv, blocksOf]
      exact this
    | restart =>
      have := ih ⟨m₀, n.st⟩ (hinit _)
      simp only [runEvs, stepEv, blocksOf]
      exact this


theorem pget_pset (t : Pairs) (k k' : String) (v : Nat) : pget (pset t k v) k' = if k = k' then some v else pget t k' := by
  unfold pget pset
  by_cases h : k = k'
  · subst h; simp
  · simp only [h, if_false, find?_cons]
    have : ((k == k') = false) := by simpa using h
    simp only [this]
    rw [find?_filter]
    congr 2
    funext e
    by_cases he : e.1 = k'
    · subst he
      have : e.1 ≠ k := fun h' => h h'.symm
      simp [this]
    · simp [he]

theorem pget_pdel (t : Pairs) (k k' : String) : pget (pdel t k) k' = if k = k' then none else pget t k' := by
  unfold pget pdel
  rw [find?_filter]
  by_cases h : k = k'
  · subst h
    simp only [if_true, Option.map_eq_none_iff, find?_eq_none]
    intro e _
    simp
  · simp only [h, if_false]
    congr 2
    funext e
    by_cases he : e.1 = k'
    · subst he
      have : e.1 ≠ k := fun h' => h h'.symm
      simp [this]
    · simp [he]



/-- `run_eq_pure_coherent` for histories all of whose events satisfy `P`: the hypotheses are only needed for such events -/
theorem run_eq_pure_coherent_on {M S I O : Type} (h : Handler M S I O) (m₀ : M) (Inv : M → S → Prop) (P : Ev I → Prop)
    (hinit : ∀ s, Inv m₀ s)
    (hdel : ∀ m s i, P (.deliver i) → Inv m s → Inv (h m s i).1 (h m s i).2.1)
    (hserve : ∀ m s i, P (.serve i) → Inv m s → Inv (h m s i).1 s)
    (hindep : ∀ m m' s i, Inv m s → Inv m' s → (h m s i).2 = (h m' s i).2) :
    ∀ (evs : List (Ev I)) (n : Node M S), (∀ e ∈ evs, P e) → Inv n.mem n.st →
      (runEvs h m₀ n evs).1.st = (runPure h m₀ n.st (blocksOf evs)).1 ∧
      (runEvs h m₀ n evs).2 = (runPure h m₀ n.st (blocksOf evs)).2 := by
  intro evs
  induction evs with
  | nil => intro n _ _; exact ⟨rfl, rfl⟩
  | cons e es ih =>
    intro n hP hn
    have hPe := hP e (by simp)
    have hPes : ∀ e ∈ es, P e := fun e he => hP e (by simp [he])
    cases e with
    | deliver i =>
      have hi := hindep n.mem m₀ n.st i hn (hinit _)
      have := ih ⟨(h n.mem n.st i).1, (h n.mem n.st i).2.1⟩ hPes (hdel _ _ _ hPe hn)
      simp only [runEvs, stepEv, blocksOf, runPure]
      simp only [← hi]
      exact ⟨this.1, by rw [this.2]⟩
    | serve i =>
      have := ih ⟨(h n.mem n.st i).1, n.st⟩ hPes (hserve _ _ _ hPe hn)
      simp only [runEvs, stepEv, blocksOf]
      exact this
    | restart =>
      have := ih ⟨m₀, n.st⟩ hPes (hinit _)
      simp only [runEvs, stepEv, blocksOf]
      exact this

theorem coherent_pset (m s : Pairs) (k : String) (v : Nat) (h : coherent m s) : coherent (pset m k v) (pset s k v) := by
  intro k' v' hk
  rw [pget_pset] at hk ⊢
  by_cases e : k = k'
  · simp only [e, if_true] at hk ⊢; exact hk
  · simp only [e, if_false] at hk ⊢; exact h k' v' hk

theorem coherent_pdel (m s : Pairs) (k : String) (h : coherent m s) : coherent (pdel m k) (pdel s k) := by
  intro k' v' hk
  rw [pget_pdel] at hk ⊢
  by_cases e : k = k'
  · simp only [e, if_true] at hk; exact absurd hk (by simp)
  · simp only [e, if_false] at hk ⊢; exact h k' v' hk

/-- filling the cache from the store keeps it coherent -/
theorem coherent_fill (m s : Pairs) (k : String) (v : Nat) (h : coherent m s) (hs : pget s k = some v) : coherent (pset m k v) s := by
  intro k' v' hk
  rw [pget_pset] at hk
  by_cases e : k = k'
  · simp only [e, if_true] at hk
    rw [← e, hs, ← Option.some.inj hk]
  · simp only [e, if_false] at hk; exact h k' v' hk

/-- under coherence a lookup through the cache answers what the store holds -/
theorem writeThrough_use (m s : Pairs) (k : String) (h : coherent m s) :
    (writeThroughHandler m s (.use k)).2 = (s, pget s k) ∧ coherent (writeThroughHandler m s (.use k)).1 s := by
  simp only [writeThroughHandler]
  cases hc : pget m k with
  | some v => exact ⟨by rw [h k v hc], h⟩
  | none =>
    cases hs : pget s k with
    | some v => exact ⟨rfl, coherent_fill m s k v h hs⟩
    | none => exact ⟨rfl, h⟩


end FxVerif.Proofs.C17
