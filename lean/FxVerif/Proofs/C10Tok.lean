import FxVerif.Model.C10Tok
/-! helper lemmas for the C10 token leg: the regenerated program equals its closed form; frame lemmas of the primitive
token / coin operations (core Lean only) -/
namespace FxVerif.Proofs.C10Tok
open FxVerif.Gen.C10Tok FxVerif.Model.C10Tok

theorem erc20_leg_program_spec (pk : PairKind) (r : Roles) (a : Nat) (w : TW) :
    runOps pk r a erc20Leg w = some (legSpec pk r a w) := by
  unfold erc20Leg legSpec
  cases h1 : erc20TransferFrom w r.pre r.sender r.mod a with
  | none => simp [runOps, runOp, Roles.of, settle, h1]
  | some w1 =>
    cases pk with
    | mk nc fx ne =>
      cases nc <;> cases fx <;> cases ne <;>
      simp [runOps, runOp, Roles.of, settle, h1, evalCond] <;>
      (first
        | (cases h2 : erc20Burn w1 r.mod a <;> simp <;>
            (first | done | (rename_i w2; cases h3 : bankSend w2 r.tokC r.mod a <;> simp <;>
              (first | done | (rename_i w3; cases h4 : bankSend w3 r.mod r.sender a <;> simp))) |
              (rename_i w2; cases h4 : bankSend w2 r.mod r.sender a <;> simp)))
        | (cases h4 : bankSend { w1 with coin := upd w1.coin r.mod (w1.coin r.mod + a) } r.mod r.sender a <;> simp)
        | done)


/-- every account outside `S` is left exactly as it was: tokens, coins and every ERC-20 allowance it granted -/
def Same (S : List Addr) (w w' : TW) : Prop :=
  ∀ x, x ∉ S → w'.tok x = w.tok x ∧ w'.coin x = w.coin x ∧ ∀ y, w'.appr x y = w.appr x y

theorem Same.refl (S : List Addr) (w : TW) : Same S w w := fun _ _ => ⟨rfl, rfl, fun _ => rfl⟩
theorem Same.trans {S : List Addr} {a b c : TW} (h1 : Same S a b) (h2 : Same S b c) : Same S a c := fun x hx =>
  ⟨(h2 x hx).1.trans (h1 x hx).1, (h2 x hx).2.1.trans (h1 x hx).2.1, fun y => ((h2 x hx).2.2 y).trans ((h1 x hx).2.2 y)⟩

theorem tf_same {S : List Addr} {w w' : TW} {b f t : Addr} {a : Nat} (h : erc20TransferFrom w b f t a = some w')
    (hf : f ∈ S) (ht : t ∈ S) : Same S w w' := by
  unfold erc20TransferFrom at h
  split at h
  · cases h
  · cases h
    intro x hx
    have h1 : x ≠ f := fun e => hx (e ▸ hf)
    have h2 : x ≠ t := fun e => hx (e ▸ ht)
    simp [upd, upd2, h1, h2]

theorem burn_same {S : List Addr} {w w' : TW} {f : Addr} {a : Nat} (h : erc20Burn w f a = some w') (hf : f ∈ S) : Same S w w' := by
  unfold erc20Burn at h
  split at h
  · cases h
  · cases h
    intro x hx
    have h1 : x ≠ f := fun e => hx (e ▸ hf)
    simp [upd, h1]

theorem send_same {S : List Addr} {w w' : TW} {f t : Addr} {a : Nat} (h : bankSend w f t a = some w')
    (hf : f ∈ S) (ht : t ∈ S) : Same S w w' := by
  unfold bankSend at h
  split at h
  · cases h
  · cases h
    intro x hx
    have h1 : x ≠ f := fun e => hx (e ▸ hf)
    have h2 : x ≠ t := fun e => hx (e ▸ ht)
    simp [upd, h1, h2]

theorem mint_same {S : List Addr} (w : TW) {t : Addr} (a : Nat) (ht : t ∈ S) :
    Same S w { w with coin := upd w.coin t (w.coin t + a) } := by
  intro x hx
  have h2 : x ≠ t := fun e => hx (e ▸ ht)
  simp [upd, h2]

theorem legSpec_same (pk : PairKind) (r : Roles) (a : Nat) (w w' : TW) (h : legSpec pk r a w = some w') :
    Same [r.sender, r.mod, r.tokC] w w' := by
  unfold legSpec at h
  cases h1 : erc20TransferFrom w r.pre r.sender r.mod a with
  | none => simp [h1] at h
  | some w1 =>
    have s1 := tf_same (S := [r.sender, r.mod, r.tokC]) h1 (by simp) (by simp)
    simp only [h1] at h
    cases pk with
    | mk nc fx ne =>
      cases nc
      · cases ne
        · simp at h
        · simp at h
          exact s1.trans ((mint_same w1 a (by simp)).trans (send_same h (by simp) (by simp)))
      · simp only [↓reduceIte] at h
        cases h2 : erc20Burn w1 r.mod a with
        | none => simp [h2] at h
        | some w2 =>
          have s2 := burn_same (S := [r.sender, r.mod, r.tokC]) h2 (by simp)
          simp only [h2] at h
          cases fx
          · simp at h
            exact s1.trans (s2.trans (send_same h (by simp) (by simp)))
          · simp only [↓reduceIte] at h
            cases h3 : bankSend w2 r.tokC r.mod a with
            | none => simp [h3] at h
            | some w3 =>
              simp only [h3] at h
              exact s1.trans (s2.trans ((send_same h3 (by simp) (by simp)).trans (send_same h (by simp) (by simp))))

theorem tf_sender {w w' : TW} {b f t : Addr} {a : Nat} (h : erc20TransferFrom w b f t a = some w') (hft : f ≠ t) :
    w'.tok f + a = w.tok f ∧ w'.appr f b + a = w.appr f b ∧ (∀ y, y ≠ b → w'.appr f y = w.appr f y) ∧ w'.coin = w.coin := by
  unfold erc20TransferFrom at h
  split at h
  · cases h
  · rename_i hc
    cases h
    have hc' : a ≤ w.appr f b ∧ a ≤ w.tok f := by omega
    refine ⟨?_, ?_, ?_, rfl⟩
    · simp [upd, hft]; omega
    · simp [upd2]; omega
    · intro y hy; simp [upd2, hy]

theorem send_recv {w w' : TW} {f t : Addr} {a : Nat} (h : bankSend w f t a = some w') (hft : f ≠ t) :
    w'.coin t = w.coin t + a ∧ w'.tok = w.tok ∧ w'.appr = w.appr := by
  unfold bankSend at h
  split at h
  · cases h
  · cases h
    refine ⟨?_, rfl, rfl⟩
    have : t ≠ f := fun e => hft e.symm
    simp [upd, this]

theorem legSpec_exact (pk : PairKind) (r : Roles) (hd : r.distinct) (a : Nat) (w w' : TW) (h : legSpec pk r a w = some w') :
    w'.tok r.sender + a = w.tok r.sender ∧ w'.appr r.sender r.pre + a = w.appr r.sender r.pre ∧
    w'.coin r.sender = w.coin r.sender + a ∧ ∀ y, y ≠ r.pre → w'.appr r.sender y = w.appr r.sender y := by
  obtain ⟨d1, d2, d3, d4, d5, d6⟩ := hd
  have hs : r.sender ∉ [r.mod, r.tokC] := by simp [d2, d3]
  unfold legSpec at h
  cases h1 : erc20TransferFrom w r.pre r.sender r.mod a with
  | none => simp [h1] at h
  | some w1 =>
    obtain ⟨t1, t2, t3, t4⟩ := tf_sender h1 d2
    simp only [h1] at h
    -- the conversion touches the module and the token contract only; then the payout
    have fin : ∀ w3, Same [r.mod, r.tokC] w1 w3 → bankSend w3 r.mod r.sender a = some w' →
        w'.tok r.sender + a = w.tok r.sender ∧ w'.appr r.sender r.pre + a = w.appr r.sender r.pre ∧
        w'.coin r.sender = w.coin r.sender + a ∧ ∀ y, y ≠ r.pre → w'.appr r.sender y = w.appr r.sender y := by
      intro w3 s3 hsend
      obtain ⟨e1, e2, e3⟩ := s3 r.sender hs
      obtain ⟨p1, p2, p3⟩ := send_recv hsend (fun e => d2 e.symm)
      refine ⟨by rw [p2, e1]; exact t1, by rw [p3, e3]; exact t2, by rw [p1, e2, t4], fun y hy => by rw [p3, e3]; exact t3 y hy⟩
    cases pk with
    | mk nc fx ne =>
      cases nc
      · cases ne
        · simp at h
        · simp at h
          exact fin _ (mint_same w1 a (by simp)) h
      · simp only [↓reduceIte] at h
        cases h2 : erc20Burn w1 r.mod a with
        | none => simp [h2] at h
        | some w2 =>
          have s2 := burn_same (S := [r.mod, r.tokC]) h2 (by simp)
          simp only [h2] at h
          cases fx
          · simp at h
            exact fin _ s2 h
          · simp only [↓reduceIte] at h
            cases h3 : bankSend w2 r.tokC r.mod a with
            | none => simp [h3] at h
            | some w3 =>
              simp only [h3] at h
              exact fin _ (s2.trans (send_same h3 (by simp) (by simp))) h


end FxVerif.Proofs.C10Tok
