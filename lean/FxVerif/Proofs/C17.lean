import FxVerif.Model.C17Machine
import FxVerif.Model.C17Proc
/-! helper lemmas for `Props/C17.lean` (core Lean only) -/
namespace FxVerif.Proofs.C17
open FxVerif.Model.C17 List

/-! ## sorting a permutation -/

/-- two sorted arrangements of the same entries are equal when the order is antisymmetric on the entries -/
theorem perm_sorted_eq {α : Type} (le : α → α → Bool) :
    ∀ (l₁ l₂ : List α), l₁.Perm l₂ → l₁.Pairwise (fun a b => le a b = true) → l₂.Pairwise (fun a b => le a b = true) →
      (∀ a b, a ∈ l₁ → b ∈ l₁ → le a b = true → le b a = true → a = b) → l₁ = l₂ := by
  intro l₁
  induction l₁ with
  | nil => intro l₂ h _ _ _; exact (h.symm.eq_nil).symm
  | cons a t ih =>
    intro l₂ h s₁ s₂ anti
    cases l₂ with
    | nil => exact absurd h.eq_nil (by simp)
    | cons b u =>
      have hab : a = b := by
        have ha : a ∈ b :: u := h.subset (by simp)
        have hb : b ∈ a :: t := h.symm.subset (by simp)
        rcases mem_cons.mp ha with h1 | h1
        · exact h1
        · rcases mem_cons.mp hb with h2 | h2
          · exact h2.symm
          · have r1 := (pairwise_cons.mp s₂).1 a h1
            have r2 := (pairwise_cons.mp s₁).1 b h2
            exact anti a b (by simp) (by simp [h2]) r2 r1
      subst hab
      have ht : t.Perm u := (perm_cons a).mp h
      rw [ih u ht (pairwise_cons.mp s₁).2 (pairwise_cons.mp s₂).2
        (fun x y hx hy => anti x y (mem_cons_of_mem _ hx) (mem_cons_of_mem _ hy))]

/-- `mergeSort` of a permutation: same result, for a transitive, total order that is antisymmetric on the entries -/
theorem mergeSort_eq_of_perm {α : Type} (le : α → α → Bool)
    (trans : ∀ a b c, le a b = true → le b c = true → le a c = true) (total : ∀ a b, (le a b || le b a) = true)
    {l₁ l₂ : List α} (h : l₁.Perm l₂) (anti : ∀ a b, a ∈ l₁ → b ∈ l₁ → le a b = true → le b a = true → a = b) :
    l₁.mergeSort le = l₂.mergeSort le := by
  apply perm_sorted_eq le
  · exact (mergeSort_perm l₁ le).trans (h.trans (mergeSort_perm l₂ le).symm)
  · exact pairwise_mergeSort trans total l₁
  · exact pairwise_mergeSort trans total l₂
  · intro a b ha hb
    exact anti a b ((mergeSort_perm l₁ le).mem_iff.mp ha) ((mergeSort_perm l₁ le).mem_iff.mp hb)

theorem strLe_trans (a b c : String) : strLe a b = true → strLe b c = true → strLe a c = true := by
  simp only [strLe, decide_eq_true_eq]
  exact String.le_trans

theorem strLe_total (a b : String) : (strLe a b || strLe b a) = true := by
  simp only [strLe, Bool.or_eq_true, decide_eq_true_eq]
  exact String.le_total a b

theorem strLe_antisymm (a b : String) : strLe a b = true → strLe b a = true → a = b := by
  simp only [strLe, decide_eq_true_eq]
  exact String.le_antisymm

/-- entries of an association list with distinct keys are determined by their key -/
theorem eq_of_key_eq {β : Type} : ∀ (l : List (String × β)), (l.map (·.1)).Nodup → ∀ a b, a ∈ l → b ∈ l → a.1 = b.1 → a = b := by
  intro l
  induction l with
  | nil => intro _ a b ha; simp at ha
  | cons x t ih =>
    intro hn a b ha hb hk
    simp only [map_cons, nodup_cons, mem_map, not_exists, not_and] at hn
    rcases mem_cons.mp ha with h1 | h1 <;> rcases mem_cons.mp hb with h2 | h2
    · rw [h1, h2]
    · subst h1; exact absurd hk.symm (hn.1 b h2)
    · subst h2; exact absurd hk (hn.1 a h1)
    · exact ih hn.2 a b h1 h2 hk

/-! ## the fee map has distinct keys -/

theorem keys_addFeeToMap (m : List FeeEntry) (tx : PoolTx) :
    (addFeeToMap m tx).map (·.1) = if m.any (fun e => e.1 == tx.token) then m.map (·.1) else m.map (·.1) ++ [tx.token] := by
  unfold addFeeToMap
  split
  · simp only [map_map]
    apply map_congr_left
    intro e _
    simp only [Function.comp]
    split <;> rfl
  · simp

theorem nodup_addFeeToMap (m : List FeeEntry) (tx : PoolTx) (h : (m.map (·.1)).Nodup) : ((addFeeToMap m tx).map (·.1)).Nodup := by
  rw [keys_addFeeToMap]
  split
  · exact h
  · rename_i hany
    rw [nodup_append]
    refine ⟨h, by simp, ?_⟩
    intro a ha b hb
    simp only [mem_singleton] at hb
    subst hb
    intro hab
    apply hany
    simp only [any_eq_true, beq_iff_eq]
    obtain ⟨e, he, hek⟩ := mem_map.mp ha
    exact ⟨e, he, by rw [hek, hab]⟩

theorem nodup_createBatchFees (pool : List PoolTx) (mx : Nat) (base : List (String × Nat)) :
    ((createBatchFees pool mx base).map (·.1)).Nodup := by
  unfold createBatchFees
  suffices h : ∀ (m : List FeeEntry), (m.map (·.1)).Nodup →
      ((pool.foldl (fun m tx =>
        let below := match base.find? (fun b => b.1 == tx.token) with
          | some b => decide (tx.fee < b.2)
          | none => false
        if below then m else if txCount m tx.token < mx then addFeeToMap m tx else m) m).map (·.1)).Nodup from h [] (by simp)
  induction pool with
  | nil => intro m hm; exact hm
  | cons tx rest ih =>
    intro m hm
    simp only [foldl_cons]
    apply ih
    repeat' split
    all_goals first | exact hm | exact nodup_addFeeToMap m tx hm

/-! ## a node's observations are those of the reference run when memory cannot influence state and output -/

theorem run_eq_pure {M S I O : Type} (h : Handler M S I O) (m₀ : M) (Inv : M → Prop) (hinit : Inv m₀)
    (hpres : ∀ m s i, Inv m → Inv (h m s i).1)
    (hindep : ∀ m m' s i, Inv m → Inv m' → (h m s i).2 = (h m' s i).2) :
    ∀ (evs : List (Ev I)) (n : Node M S), Inv n.mem →
      (runEvs h m₀ n evs).1.st = (runPure h m₀ n.st (blocksOf evs)).1 ∧
      (runEvs h m₀ n evs).2 = (runPure h m₀ n.st (blocksOf evs)).2 := by
  intro evs
  induction evs with
  | nil => intro n _; exact ⟨rfl, rfl⟩
  | cons e es ih =>
    intro n hn
    cases e with
    | deliver i =>
      have hi := hindep n.mem m₀ n.st i hn hinit
      have := ih ⟨(h n.mem n.st i).1, (h n.mem n.st i).2.1⟩ (hpres _ _ _ hn)
      simp only [runEvs, stepEv, blocksOf, runPure]
      simp only [← hi]
      exact ⟨this.1, by rw [this.2]⟩
    | serve i =>
      have := ih ⟨(h n.mem n.st i).1, n.st⟩ (hpres _ _ _ hn)
      simp only [runEvs, stepEv, blocksOf]
      exact this
    | restart =>
      have := ih ⟨m₀, n.st⟩ hinit
      simp only [runEvs, stepEv, blocksOf]
      exact this

theorem runPure_congr {M₁ M₂ S I O : Type} (h₁ : Handler M₁ S I O) (h₂ : Handler M₂ S I O) (m₁ : M₁) (m₂ : M₂)
    (hag : ∀ s i, (h₁ m₁ s i).2 = (h₂ m₂ s i).2) : ∀ (is : List I) (s : S), runPure h₁ m₁ s is = runPure h₂ m₂ s is := by
  intro is
  induction is with
  | nil => intro s; rfl
  | cons i rest ih =>
    intro s
    simp only [runPure]
    rw [hag s i, ih]

/-- float accumulation of integers: exact while the running total stays below 2^53 -/
theorem round53_exact {n : Nat} (h : n < 2 ^ 53) : round53 n = n := by
  unfold round53
  by_cases h0 : n = 0
  · simp [h0]
  · have : n.log2 < 53 := (Nat.log2_lt h0).mpr h
    simp only [h0, if_false]
    have h2 : n.log2 + 1 ≤ 53 := by omega
    simp [h2]

theorem foldl_fadd_exact : ∀ (l : List Int) (acc : Nat), acc + absSum l < 2 ^ 53 →
    l.foldl (fun acc v => fadd acc (round53 v.natAbs)) acc = acc + absSum l := by
  intro l
  induction l with
  | nil => intro acc _; simp [absSum]
  | cons v t ih =>
    intro acc h
    have hs : absSum (v :: t) = v.natAbs + absSum t := by simp [absSum]
    rw [hs] at h
    simp only [foldl_cons]
    have h1 : round53 v.natAbs = v.natAbs := round53_exact (by omega)
    have h2 : fadd acc v.natAbs = acc + v.natAbs := by unfold fadd; exact round53_exact (by omega)
    rw [h1, h2, ih (acc + v.natAbs) (by omega), hs]
    omega

theorem absSum_le_of_bound : ∀ (m : List Int), (∀ v ∈ m, v.natAbs ≤ 2 ^ 32) → absSum m ≤ m.length * 2 ^ 32 := by
  intro m
  induction m with
  | nil => intro _; simp [absSum]
  | cons a t ih =>
    intro hm
    have h1 := hm a (by simp)
    have h2 := ih (fun v hv => hm v (by simp [hv]))
    simp only [absSum, map_cons, sum_cons, length_cons] at *
    omega

end FxVerif.Proofs.C17
