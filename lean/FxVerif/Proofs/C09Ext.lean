import FxVerif.Model.C09
import FxVerif.Proofs.C09
/-! C09, round 3: the journal-extension invariant ALONE (no refinement to the snapshot semantics) under a weaker shape
condition — `dropsActionError` is allowed.  A `Run` that loses the error of its native action still leaves a StateDB that
reverts exactly: what such a method breaks is the success half of the property (a kept frame without effects), never the
failure half.  Core Lean only. -/
namespace FxVerif.Proofs.C09
open FxVerif.Model.C09

variable {N : Type}

/-- the shape conditions the failure half of the property needs (round 4: no un-journaled write on the error path either) -/
def restoring (sh : RunShape) : Bool := !sh.outerBefore && !sh.recovers && !sh.evmAfterWrite && !sh.outerOnError

theorem restoring_of_clean {sh : RunShape} (h : sh.clean = true) : restoring sh = true := by
  simp only [RunShape.clean, Bool.and_eq_true, Bool.not_eq_true'] at h
  simp [restoring, h.1.1.1.1, h.1.1.1.2, h.1.1.2, h.2]

inductive Restoring : List (Prog N) → Prop
  | nil : Restoring []
  | sstore {c k v rest} : Restoring rest → Restoring (.sstore c k v :: rest)
  | revert {c rest} : Restoring (.revert c :: rest)
  | stop {c rest} : Restoring (.stop c :: rest)
  | invalid {rest} : Restoring (.invalid :: rest)
  | call {h body rest} : Restoring body → Restoring rest → Restoring (.call h body :: rest)
  | pre {h req sh out inner act rest} : restoring sh = true → (∀ x ∈ inner, Restoring x.2) → Restoring rest →
      Restoring (.pre h req sh out inner act :: rest)

theorem restoring_of_cleanProg {p : List (Prog N)} (h : Clean p) : Restoring p := by
  induction h with
  | nil => exact .nil
  | sstore _ ih => exact .sstore ih
  | revert => exact .revert
  | stop => exact .stop
  | invalid => exact .invalid
  | call _ _ ihb ihr => exact .call ihb ihr
  | pre hsh _ _ ihi ihr => exact .pre (restoring_of_clean hsh) ihi ihr

/-- unless a Go panic unwound it, the result was reached from `s` by journaled operations only -/
def Inv (s : St N) (r : Outcome × St N × Nat) : Prop := r.1 ≠ .abort → Ext s r.2.1

theorem inv_of_ext {s s1 : St N} {r : Outcome × St N × Nat} (h1 : Ext s s1) (h : Inv s1 r) : Inv s r :=
  fun hne => h1.trans (h hne)

theorem runInner_ext (ev : Eval N) (ro : Bool) :
    ∀ (inner : List (Nat × List (Prog N))) (s : St N),
      (∀ x ∈ inner, ∀ ro' (s' : St N), Inv s' (ev ro' x.1 x.2 s')) →
      (runInner ev ro inner s).1 ≠ .panic → Ext s (runInner ev ro inner s).2 := by
  intro inner
  induction inner with
  | nil => intro s _ _; exact Ext.refl s
  | cons x rest ih =>
    intro s hev
    obtain ⟨g, body⟩ := x
    have hx : Inv s (ev ro g body s) := hev (g, body) (List.mem_cons_self ..) ro s
    have hrest : ∀ y ∈ rest, ∀ ro' (s' : St N), Inv s' (ev ro' y.1 y.2 s') := fun y hy => hev y (List.mem_cons_of_mem _ hy)
    simp only [runInner]
    by_cases hok : (ev ro g body s).1 = .ok
    · simp only [hok, ↓reduceIte]
      have hne : (ev ro g body s).1 ≠ .abort := by rw [hok]; decide
      intro hp
      exact (hx hne).trans (ih _ hrest hp)
    · simp only [hok, ↓reduceIte]
      by_cases hab : (ev ro g body s).1 = .abort
      · simp [hab]
      · simp only [hab, ↓reduceIte]
        intro _
        rw [revertTo_of_ext (hx hab)]
        exact Ext.refl s

theorem runPre_inv (ev : Eval N) (roCtx roCall : Bool) (gas req : Nat) (sh : RunShape) (out : N → N)
    (inner : List (Nat × List (Prog N))) (act : ActionX N) (s : St N) (hsh : restoring sh = true)
    (hev : ∀ x ∈ inner, ∀ ro' (s' : St N), Inv s' (ev ro' x.1 x.2 s')) :
    Inv s (runPre ev roCtx roCall gas req sh out inner act s) := by
  have hb : sh.outerBefore = false ∧ sh.recovers = false ∧ sh.evmAfterWrite = false ∧ sh.outerOnError = false := by
    simp only [restoring, Bool.and_eq_true, Bool.not_eq_true'] at hsh
    exact ⟨hsh.1.1.1, hsh.1.1.2, hsh.1.2, hsh.2⟩
  obtain ⟨h1, h3, h4, h6⟩ := hb
  unfold runPre
  by_cases hg : gas < req
  · simp only [hg, ↓reduceIte]; exact fun _ => Ext.refl s
  · simp only [hg, ↓reduceIte, h1, h3, h6, Bool.false_eq_true, runClosure, h4]
    have hiext := runInner_ext ev roCtx inner s hev
    generalize hri : runInner ev roCtx inner s = ri at hiext
    obtain ⟨r1, s1⟩ := ri
    simp only at hiext
    cases r1 with
    | ok =>
      simp only
      have hext1 : Ext s s1 := hiext (by decide)
      simp only [St.keeper]
      generalize hact : act roCall (gas - req) s1.native = a
      obtain ⟨ra, na, la⟩ := a
      have hextL : Ext s (s1.addLogs la) := hext1.trans (ext_addLogs s1 la)
      cases ra with
      | ok =>
        simp only
        cases hoa : sh.outerAfter with
        | false =>
          simp only [Bool.false_eq_true, ↓reduceIte]
          exact fun _ => ext_journal_snapshot hextL na
        | true =>
          simp only [↓reduceIte, St.poke]
          exact fun _ => ext_journal_snapshot hextL (out na)
      | err =>
        simp only
        cases sh.dropsActionError <;> simp only [Bool.false_eq_true, ↓reduceIte] <;> exact fun _ => ext_restore hextL
      | panic =>
        simp only
        exact fun h => absurd rfl h
    | err =>
      simp only
      cases sh.dropsActionError <;> simp only [Bool.false_eq_true, ↓reduceIte] <;>
        exact fun _ => ext_restore (hiext (by decide))
    | panic =>
      simp only
      exact fun h => absurd rfl h

theorem resolve_inv (h : CallHdr N) (s : St N) (keep : Nat) (r : Outcome × St N × Nat) (hr : Inv s r) :
    (∀ x, resolve h s.journal.length keep r = .inl x → Ext s x.1) ∧
    (∀ a, resolve h s.journal.length keep r = .inr a → Inv s a) := by
  unfold resolve
  by_cases hab : r.1 = .abort
  · simp only [hab, ↓reduceIte]
    exact ⟨fun x hx => (by cases hx), fun a ha => by cases ha; exact fun h => absurd rfl h⟩
  · simp only [hab, ↓reduceIte]
    have hext := hr hab
    by_cases hok : r.1 = .ok
    · simp only [hok, ↓reduceIte]
      by_cases hp : keep + r.2.2 < h.pOk
      · simp only [hp, ↓reduceIte]
        exact ⟨fun x hx => (by cases hx), fun a ha => by cases ha; exact fun _ => hext⟩
      · simp only [hp, ↓reduceIte]
        exact ⟨fun x hx => (by cases hx; exact hext), fun a ha => by cases ha⟩
    · simp only [hok, ↓reduceIte, revertTo_of_ext hext]
      by_cases hp : keep + (if r.1 = .revert then r.2.2 else 0) < h.pFail
      · simp only [hp, ↓reduceIte]
        exact ⟨fun x hx => (by cases hx), fun a ha => by cases ha; exact fun _ => Ext.refl s⟩
      · simp only [hp, ↓reduceIte]
        by_cases hs : h.swallow = true
        · simp only [hs, ↓reduceIte]
          exact ⟨fun x hx => (by cases hx; exact Ext.refl s), fun a ha => by cases ha⟩
        · simp only [hs, Bool.false_eq_true, ↓reduceIte]
          exact ⟨fun x hx => (by cases hx), fun a ha => by cases ha; exact fun _ => Ext.refl s⟩

/-- every program whose precompile nodes have restoring shapes (an action error may be dropped), every fuel, gas, static
flag and entry state: unless a panic unwound it, the resulting StateDB reverts to exactly the entry state -/
theorem exec_inv : ∀ (fuel : Nat) (ro : Bool) (gas : Nat) (p : List (Prog N)) (s : St N), Restoring p →
    Inv s (exec fuel ro gas p s) := by
  intro fuel
  induction fuel with
  | zero => intro ro gas p s _; exact fun _ => Ext.refl s
  | succ fuel ih =>
    intro ro gas p s hcl
    cases hcl with
    | nil => exact fun _ => Ext.refl s
    | @sstore c k v rest hrest =>
      simp only [exec]
      by_cases hc : gas < c ∨ ro = true
      · simp only [hc, ↓reduceIte]; exact fun _ => Ext.refl s
      · simp only [hc, ↓reduceIte]
        exact inv_of_ext (ext_sstore s k v) (ih ro (gas - c) rest (s.sstore k v) hrest)
    | @revert c rest =>
      simp only [exec]
      by_cases hc : gas < c <;> simp only [hc, ↓reduceIte] <;> exact fun _ => Ext.refl s
    | @stop c rest =>
      simp only [exec]
      by_cases hc : gas < c <;> simp only [hc, ↓reduceIte] <;> exact fun _ => Ext.refl s
    | @invalid rest => simp only [exec]; exact fun _ => Ext.refl s
    | @call h body rest hbody hrest =>
      simp only [exec]
      by_cases hc : gas < h.callc ∨ (ro = true ∧ h.xfer.isSome = true)
      · simp only [hc, ↓reduceIte]; exact fun _ => Ext.refl s
      · simp only [hc, ↓reduceIte]
        have hb : Inv s (if h.unfunded s.native then ((.revert, s, fwdGas h gas + h.stip) : Outcome × St N × Nat)
            else exec fuel (ro || h.kind == .staticcall) (fwdGas h gas + h.stip) body (s.enter h)) := by
          by_cases hu : h.unfunded s.native = true
          · simp only [hu, ↓reduceIte]; exact fun _ => Ext.refl s
          · simp only [hu]
            exact inv_of_ext (ext_enter s h) (ih (ro || h.kind == .staticcall) (fwdGas h gas + h.stip) body (s.enter h) hbody)
        have hres := resolve_inv h s (keepGas h gas) _ hb
        cases hr : resolve h s.journal.length (keepGas h gas)
            (if h.unfunded s.native then (.revert, s, fwdGas h gas + h.stip)
             else exec fuel (ro || h.kind == .staticcall) (fwdGas h gas + h.stip) body (s.enter h)) with
        | inl x => exact inv_of_ext (hres.1 x hr) (ih ro x.2 rest x.1 hrest)
        | inr a => exact hres.2 a hr
    | @pre h req sh out inner act rest hsh hinner hrest =>
      simp only [exec]
      by_cases hc : gas < h.callc ∨ (ro = true ∧ h.xfer.isSome = true)
      · simp only [hc, ↓reduceIte]; exact fun _ => Ext.refl s
      · simp only [hc, ↓reduceIte]
        have hb : Inv s (if h.unfunded s.native then ((.revert, s, fwdGas h gas + h.stip) : Outcome × St N × Nat)
            else runPre (exec fuel) ro (h.kind != .call) (fwdGas h gas + h.stip) req sh out inner act (s.enter h)) := by
          by_cases hu : h.unfunded s.native = true
          · simp only [hu, ↓reduceIte]; exact fun _ => Ext.refl s
          · simp only [hu]
            exact inv_of_ext (ext_enter s h)
              (runPre_inv (exec fuel) ro (h.kind != .call) (fwdGas h gas + h.stip) req sh out inner act (s.enter h) hsh
                (fun x hx ro' s' => ih ro' x.1 x.2 s' (hinner x hx)))
        have hres := resolve_inv h s (keepGas h gas) _ hb
        cases hr : resolve h s.journal.length (keepGas h gas)
            (if h.unfunded s.native then (.revert, s, fwdGas h gas + h.stip)
             else runPre (exec fuel) ro (h.kind != .call) (fwdGas h gas + h.stip) req sh out inner act (s.enter h)) with
        | inl x => exact inv_of_ext (hres.1 x hr) (ih ro x.2 rest x.1 hrest)
        | inr a => exact hres.2 a hr

end FxVerif.Proofs.C09
