import FxVerif.Model.C08Gen
import FxVerif.Proofs.C08Index
/-! helper lemmas for the erc20 genesis round trip (Model/C08Gen.lean) -/
namespace FxVerif.Proofs.C08
open FxVerif.Model.C08

/-! ### folds of `setKV` -/

theorem lookup_fold_none {α κ ν : Type} [DecidableEq κ] (f : α → κ) (g : α → ν) (l : List α) (init : List (κ × ν)) (k : κ)
    (h : ∀ x ∈ l, f x ≠ k) : lookup k (l.foldl (fun acc x => setKV (f x) (g x) acc) init) = lookup k init := by
  induction l generalizing init with
  | nil => rfl
  | cons y ys ih =>
    simp only [List.foldl_cons]
    rw [ih _ (fun x hx => h x (List.mem_cons_of_mem _ hx))]
    exact lookup_setKV_ne _ _ _ _ (fun e => h y (by simp) e.symm)

theorem lookup_fold_some {α κ ν : Type} [DecidableEq κ] (f : α → κ) (g : α → ν) (l : List α) (init : List (κ × ν)) (k : κ)
    (x : α) (hx : x ∈ l) (hk : f x = k) (hall : ∀ y ∈ l, f y = k → g y = g x) :
    lookup k (l.foldl (fun acc x => setKV (f x) (g x) acc) init) = some (g x) := by
  induction l generalizing init x with
  | nil => cases hx
  | cons y ys ih =>
    simp only [List.foldl_cons]
    by_cases hex : ∃ z ∈ ys, f z = k
    · obtain ⟨z, hz, hzk⟩ := hex
      have hgz : g z = g x := hall z (List.mem_cons_of_mem _ hz) hzk
      rw [← hgz]
      exact ih _ z hz hzk (fun w hw hwk => (hall w (List.mem_cons_of_mem _ hw) hwk).trans hgz.symm)
    · have hno : ∀ z ∈ ys, f z ≠ k := fun z hz e => hex ⟨z, hz, e⟩
      rw [lookup_fold_none f g ys _ k hno]
      have hxy : x = y := by
        rcases List.mem_cons.1 hx with e | e
        · exact e
        · exact absurd hk (hno x e)
      subst hxy
      rw [← hk]; exact lookup_setKV_same _ _ _

/-! ### what the import writes, field by field -/

/-- the aliases `HasDenomAlias` finds in the metadata `md` for `d` -/
def aliasesOf (md : List (Nat × List Nat)) (d : Nat) : List Nat :=
  match lookup d md with
  | some (a :: as) => a :: as
  | _ => []

theorem importPair_md (r : Bool) (i : Idx) (p : Pair) : (importPair r i p).md = i.md := by
  simp only [importPair, addPair, setAliases]
  cases r <;> simp only [Bool.false_eq_true, ↓reduceIte]
  split <;> rfl

theorem importPair_pairs (r : Bool) (i : Idx) (p : Pair) :
    (importPair r i p).pairs = setKV (p.denom, p.contract) p i.pairs := by
  simp only [importPair, addPair, setAliases]
  cases r <;> simp only [Bool.false_eq_true, ↓reduceIte]
  split <;> rfl

theorem importPair_byDenom (r : Bool) (i : Idx) (p : Pair) :
    (importPair r i p).byDenom = setKV p.denom (p.denom, p.contract) i.byDenom := by
  simp only [importPair, addPair, setAliases]
  cases r <;> simp only [Bool.false_eq_true, ↓reduceIte]
  split <;> rfl

theorem importPair_byErc (r : Bool) (i : Idx) (p : Pair) :
    (importPair r i p).byErc = setKV p.contract (p.denom, p.contract) i.byErc := by
  simp only [importPair, addPair, setAliases]
  cases r <;> simp only [Bool.false_eq_true, ↓reduceIte]
  split <;> rfl

theorem importPair_alias_false (i : Idx) (p : Pair) : (importPair false i p).aliasIdx = i.aliasIdx := by
  simp [importPair, addPair]

theorem importPair_alias_true (i : Idx) (p : Pair) :
    (importPair true i p).aliasIdx = (aliasesOf i.md p.denom).foldl (fun acc a => setKV a p.denom acc) i.aliasIdx := by
  simp only [importPair, addPair, setAliases, hasDenomAlias, aliasesOf, ↓reduceIte]
  cases h : lookup p.denom i.md with
  | none => rfl
  | some l => cases l <;> rfl

theorem fold_md (r : Bool) (ps : List Pair) (j : Idx) : (ps.foldl (importPair r) j).md = j.md := by
  induction ps generalizing j with
  | nil => rfl
  | cons p ps ih => simp only [List.foldl_cons]; rw [ih, importPair_md]

theorem fold_pairs (r : Bool) (ps : List Pair) (j : Idx) :
    (ps.foldl (importPair r) j).pairs = ps.foldl (fun acc p => setKV (p.denom, p.contract) p acc) j.pairs := by
  induction ps generalizing j with
  | nil => rfl
  | cons p ps ih => simp only [List.foldl_cons]; rw [ih, importPair_pairs]

theorem fold_byDenom (r : Bool) (ps : List Pair) (j : Idx) :
    (ps.foldl (importPair r) j).byDenom = ps.foldl (fun acc p => setKV p.denom (p.denom, p.contract) acc) j.byDenom := by
  induction ps generalizing j with
  | nil => rfl
  | cons p ps ih => simp only [List.foldl_cons]; rw [ih, importPair_byDenom]

theorem fold_byErc (r : Bool) (ps : List Pair) (j : Idx) :
    (ps.foldl (importPair r) j).byErc = ps.foldl (fun acc p => setKV p.contract (p.denom, p.contract) acc) j.byErc := by
  induction ps generalizing j with
  | nil => rfl
  | cons p ps ih => simp only [List.foldl_cons]; rw [ih, importPair_byErc]

theorem fold_alias_false (ps : List Pair) (j : Idx) : (ps.foldl (importPair false) j).aliasIdx = j.aliasIdx := by
  induction ps generalizing j with
  | nil => rfl
  | cons p ps ih => simp only [List.foldl_cons]; rw [ih, importPair_alias_false]

/-- the (alias, denomination) entries the restoring import writes, in order -/
def aliasEntries (md : List (Nat × List Nat)) (ps : List Pair) : List (Nat × Nat) :=
  ps.flatMap fun p => (aliasesOf md p.denom).map fun a => (a, p.denom)

theorem fold_alias_true (ps : List Pair) (j : Idx) :
    (ps.foldl (importPair true) j).aliasIdx =
      (aliasEntries j.md ps).foldl (fun acc e => setKV e.1 e.2 acc) j.aliasIdx := by
  induction ps generalizing j with
  | nil => rfl
  | cons p ps ih =>
    simp only [List.foldl_cons, aliasEntries, List.flatMap_cons, List.foldl_append]
    rw [ih, importPair_alias_true, importPair_md]
    simp only [aliasEntries, List.foldl_map]

/-! ### the exported pairs -/

theorem lookup_mem_pairs {κ ν : Type} [DecidableEq κ] {k : κ} {v : ν} {l : List (κ × ν)} (h : lookup k l = some v) :
    (k, v) ∈ l := by
  induction l with
  | nil => cases h
  | cons x xs ih =>
    obtain ⟨k', v'⟩ := x
    by_cases e : k' = k
    · subst e; simp [lookup] at h; subst h; simp
    · simp [lookup, e] at h; exact List.mem_cons_of_mem _ (ih h)

theorem mem_exportPairs {i : Idx} {p : Pair} : p ∈ exportPairs i ↔ ∃ id, lookup id i.pairs = some p := by
  simp only [exportPairs, List.mem_filterMap]
  constructor
  · rintro ⟨kv, _, h⟩; exact ⟨kv.1, h⟩
  · rintro ⟨id, h⟩
    exact ⟨(id, p), lookup_mem_pairs h, h⟩

/-- **the round trip keeps the pair records, the denom index, the contract index and the metadata** — whatever the loop
body does about aliases -/
theorem roundTrip_pairs (r : Bool) (i : Idx) (hi : IdxInv i) :
    (∀ id, lookup id (genesisRoundTrip r i).pairs = lookup id i.pairs) ∧
    (∀ d, lookup d (genesisRoundTrip r i).byDenom = lookup d i.byDenom) ∧
    (∀ ct, lookup ct (genesisRoundTrip r i).byErc = lookup ct i.byErc) ∧ (genesisRoundTrip r i).md = i.md := by
  refine ⟨fun id => ?_, fun d => ?_, fun ct => ?_, ?_⟩
  · simp only [genesisRoundTrip, importGenesis, fold_pairs]
    cases h : lookup id i.pairs with
    | none =>
      rw [lookup_fold_none (fun p : Pair => (p.denom, p.contract)) (fun p => p)]
      · rfl
      · intro p hp e
        obtain ⟨id', h'⟩ := mem_exportPairs.1 hp
        have := (hi.pairs_ok _ _ h').1
        rw [← e, ← this, h'] at h; cases h
    | some p =>
      have hid := (hi.pairs_ok _ _ h).1
      refine lookup_fold_some (fun p : Pair => (p.denom, p.contract)) (fun p => p) _ _ _ p (mem_exportPairs.2 ⟨id, h⟩)
        hid.symm (fun q hq e => ?_)
      obtain ⟨id', h'⟩ := mem_exportPairs.1 hq
      have := (hi.pairs_ok _ _ h').1
      rw [← this] at e; subst e
      rw [h] at h'; exact (Option.some.inj h').symm
  · simp only [genesisRoundTrip, importGenesis, fold_byDenom]
    cases h : lookup d i.byDenom with
    | none =>
      rw [lookup_fold_none (fun p : Pair => p.denom) (fun p => (p.denom, p.contract))]
      · rfl
      · intro p hp e
        obtain ⟨id', h'⟩ := mem_exportPairs.1 hp
        have := (hi.pairs_ok _ _ h').2.1
        rw [e, h] at this; cases this
    | some id =>
      obtain ⟨p, hp, hpd⟩ := hi.byDenom_ok _ _ h
      have hid := (hi.pairs_ok _ _ hp).1
      rw [hid]
      refine lookup_fold_some (fun p : Pair => p.denom) (fun p => (p.denom, p.contract)) _ _ _ p
        (mem_exportPairs.2 ⟨id, hp⟩) hpd (fun q hq e => ?_)
      obtain ⟨id', h'⟩ := mem_exportPairs.1 hq
      obtain ⟨hq1, hq2, _⟩ := hi.pairs_ok _ _ h'
      rw [e, h] at hq2
      rw [← hq1, ← hid]; exact (Option.some.inj hq2).symm
  · simp only [genesisRoundTrip, importGenesis, fold_byErc]
    cases h : lookup ct i.byErc with
    | none =>
      rw [lookup_fold_none (fun p : Pair => p.contract) (fun p => (p.denom, p.contract))]
      · rfl
      · intro p hp e
        obtain ⟨id', h'⟩ := mem_exportPairs.1 hp
        have := (hi.pairs_ok _ _ h').2.2
        rw [e, h] at this; cases this
    | some id =>
      obtain ⟨p, hp, hpc⟩ := hi.byErc_ok _ _ h
      have hid := (hi.pairs_ok _ _ hp).1
      rw [hid]
      refine lookup_fold_some (fun p : Pair => p.contract) (fun p => (p.denom, p.contract)) _ _ _ p
        (mem_exportPairs.2 ⟨id, hp⟩) hpc (fun q hq e => ?_)
      obtain ⟨id', h'⟩ := mem_exportPairs.1 hq
      obtain ⟨hq1, _, hq3⟩ := hi.pairs_ok _ _ h'
      rw [e, h] at hq3
      rw [← hq1, ← hid]; exact (Option.some.inj hq3).symm
  · simp only [genesisRoundTrip, importGenesis, fold_md]

theorem mem_aliasesOf {md : List (Nat × List Nat)} {d a : Nat} (h : a ∈ aliasesOf md d) :
    ∃ as, lookup d md = some as ∧ a ∈ as := by
  simp only [aliasesOf] at h
  split at h
  · rename_i x xs hl; exact ⟨_, hl, h⟩
  · cases h

theorem aliasesOf_of_mem {md : List (Nat × List Nat)} {d a : Nat} {as : List Nat} (hl : lookup d md = some as) (ha : a ∈ as) :
    a ∈ aliasesOf md d := by
  simp only [aliasesOf, hl]
  cases as with
  | nil => cases ha
  | cons x xs => exact ha

/-- **a restoring import rebuilds the alias index exactly** -/
theorem roundTrip_alias_restore (i : Idx) (hi : IdxInv i) (x : Nat) :
    lookup x (genesisRoundTrip true i).aliasIdx = lookup x i.aliasIdx := by
  simp only [genesisRoundTrip, importGenesis, fold_alias_true]
  have hmem : ∀ e : Nat × Nat, e ∈ aliasEntries i.md (exportPairs i) → lookup e.1 i.aliasIdx = some e.2 := by
    intro e he
    simp only [aliasEntries, List.mem_flatMap, List.mem_map] at he
    obtain ⟨p, hp, a, ha, rfl⟩ := he
    obtain ⟨id, hid⟩ := mem_exportPairs.1 hp
    obtain ⟨as, hl, hin⟩ := mem_aliasesOf ha
    have hreg : (lookup p.denom i.byDenom).isSome := by rw [(hi.pairs_ok _ _ hid).2.1]; rfl
    exact hi.md_ok _ _ hreg hl _ hin
  cases h : lookup x i.aliasIdx with
  | none =>
    rw [lookup_fold_none (fun e : Nat × Nat => e.1) (fun e => e.2)]
    · rfl
    · intro e he ex
      have := hmem e he
      rw [ex, h] at this; cases this
  | some d =>
    obtain ⟨hreg, as, hl, hin⟩ := hi.alias_ok _ _ h
    cases hd : lookup d i.byDenom with
    | none => rw [hd] at hreg; cases hreg
    | some id =>
      obtain ⟨p, hp, hpd⟩ := hi.byDenom_ok _ _ hd
      have hent : (x, d) ∈ aliasEntries i.md (exportPairs i) := by
        simp only [aliasEntries, List.mem_flatMap, List.mem_map]
        exact ⟨p, mem_exportPairs.2 ⟨id, hp⟩, x, aliasesOf_of_mem (hpd ▸ hl) hin, by rw [hpd]⟩
      refine lookup_fold_some (fun e : Nat × Nat => e.1) (fun e => e.2) _ _ _ (x, d) hent rfl (fun e he ex => ?_)
      have := hmem e he
      rw [ex, h] at this; exact (Option.some.inj this).symm

end FxVerif.Proofs.C08
