import FxVerif.Model.C16Store
/-!
# C16 — lemmas about the raw store update model (core Lean only)
-/
namespace FxVerif.Model.C16
open FxVerif.Gen

theorem sGet_sSet_same (S : Stores) (k : SKey) (v : Bytes) : sGet (sSet S k v) k = v := by
  simp [sGet, sSet]

theorem find_filter_other (S : Stores) (k k' : SKey) (h : k' ≠ k) :
    (S.filter (fun p => !decide (p.1 = k))).find? (fun p => decide (p.1 = k')) =
      S.find? (fun p => decide (p.1 = k')) := by
  induction S with
  | nil => rfl
  | cons p ps ih =>
    by_cases hp : p.1 = k
    · have hp' : ¬ p.1 = k' := by rw [hp]; exact Ne.symm h
      rw [List.filter_cons_of_neg (by simp [hp]), List.find?_cons_of_neg (by simp [hp'])]; exact ih
    · rw [List.filter_cons_of_pos (by simp [hp])]
      by_cases hp' : p.1 = k'
      · rw [List.find?_cons_of_pos (by simp [hp']), List.find?_cons_of_pos (by simp [hp'])]
      · rw [List.find?_cons_of_neg (by simp [hp']), List.find?_cons_of_neg (by simp [hp'])]; exact ih

theorem sGet_sSet_other (S : Stores) (k k' : SKey) (v : Bytes) (h : k' ≠ k) : sGet (sSet S k v) k' = sGet S k' := by
  unfold sGet sSet
  rw [List.find?_cons_of_neg (by simp [Ne.symm h]), find_filter_other S k k' h]

theorem casAll_cons_ok (known : List String) (e : Entry) (es : List Entry) (S : Stores)
    (hk : known.contains e.space = true) (ho : sGet S e.sk = e.old) :
    casAll known (e :: es) S = casAll known es (sSet S e.sk e.new) := by
  simp only [casAll]
  rw [if_neg (by rw [hk]; decide), if_neg (by simp [ho])]

theorem casAll_cons_unknown (known : List String) (e : Entry) (es : List Entry) (S : Stores)
    (hk : known.contains e.space = false) : casAll known (e :: es) S = (false, S) := by
  simp only [casAll]
  rw [if_pos (by rw [hk]; decide)]

theorem casAll_cons_mismatch (known : List String) (e : Entry) (es : List Entry) (S : Stores)
    (hk : known.contains e.space = true) (ho : sGet S e.sk ≠ e.old) : casAll known (e :: es) S = (false, S) := by
  simp only [casAll]
  rw [if_neg (by rw [hk]; decide), if_pos ho]

theorem field_old (e : Entry) : e.field "OldValue" = e.old := by simp [Entry.field]
theorem field_new (e : Entry) : e.field "Value" = e.new := by simp [Entry.field]

/-- the loop body in the order (look up, read, compare, write) is compare-and-set against the current value -/
theorem runLoop_canonical (known : List String) (v : String) :
    ∀ (es : List Entry) (S : Stores),
      runLoop known [.lookupSpace, .get v, .failUnlessEq v "OldValue", .set "Value"] es S = casAll known es S := by
  intro es
  induction es with
  | nil => intro S; rfl
  | cons e es ih =>
    intro S
    have hl : ∀ x : Bytes, lget [(v, x)] v = x := by intro x; simp [lget]
    cases hk : known.contains e.space with
    | false =>
      rw [casAll_cons_unknown known e es S hk]
      simp only [runLoop, runEntry, ustep, hk, Bool.false_eq_true, ↓reduceIte]
    | true =>
      by_cases ho : sGet S e.sk = e.old
      · rw [casAll_cons_ok known e es S hk ho]
        simp only [runLoop, runEntry, ustep, hk, ↓reduceIte, hl, field_old, field_new, ho]
        exact ih _
      · rw [casAll_cons_mismatch known e es S hk ho]
        simp only [runLoop, runEntry, ustep, hk, ↓reduceIte, hl, field_old, ho]

theorem runProg_single (known : List String) (l : List UStep) (es : List Entry) (S : Stores) :
    runProg known [l] es S = runLoop known l es S := by
  simp only [runProg]
  cases h : runLoop known l es S with
  | mk b S' => cases b <;> rfl

theorem writes_cons (e : Entry) (es : List Entry) (S : Stores) :
    writes (e :: es) S = writes es (sSet S e.sk e.new) := rfl

theorem writes_append (xs ys : List Entry) (S : Stores) : writes (xs ++ ys) S = writes ys (writes xs S) := by
  simp [writes, List.foldl_append]

theorem casAll_ok_state (known : List String) :
    ∀ (es : List Entry) (S : Stores), (casAll known es S).1 = true → (casAll known es S).2 = writes es S := by
  intro es
  induction es with
  | nil => intro S _; rfl
  | cons e es ih =>
    intro S h
    cases hk : known.contains e.space with
    | false => rw [casAll_cons_unknown known e es S hk] at h; simp at h
    | true =>
      by_cases ho : sGet S e.sk = e.old
      · rw [casAll_cons_ok known e es S hk ho] at h ⊢
        rw [writes_cons]; exact ih _ h
      · rw [casAll_cons_mismatch known e es S hk ho] at h; simp at h

theorem casAll_ok_iff (known : List String) :
    ∀ (es : List Entry) (S : Stores),
      (casAll known es S).1 = true ↔
        ∀ (pre : List Entry) (e : Entry) (post : List Entry), es = pre ++ e :: post →
          known.contains e.space = true ∧ sGet (writes pre S) e.sk = e.old := by
  intro es
  induction es with
  | nil =>
    intro S
    constructor
    · intro _ pre e post h; simp at h
    · intro _; rfl
  | cons e0 es ih =>
    intro S
    constructor
    · intro h pre e post hsplit
      cases hk : known.contains e0.space with
      | false => rw [casAll_cons_unknown known e0 es S hk] at h; simp at h
      | true =>
        by_cases ho : sGet S e0.sk = e0.old
        · rw [casAll_cons_ok known e0 es S hk ho] at h
          cases pre with
          | nil =>
            simp only [List.nil_append, List.cons.injEq] at hsplit
            obtain ⟨rfl, _⟩ := hsplit
            exact ⟨hk, ho⟩
          | cons p pre' =>
            simp only [List.cons_append, List.cons.injEq] at hsplit
            obtain ⟨rfl, hrest⟩ := hsplit
            rw [writes_cons]
            exact (ih _).mp h pre' e post hrest
        · rw [casAll_cons_mismatch known e0 es S hk ho] at h; simp at h
    · intro h
      have h0 := h [] e0 es rfl
      simp only [writes, List.foldl_nil] at h0
      rw [casAll_cons_ok known e0 es S h0.1 h0.2]
      apply (ih _).mpr
      intro pre e post hsplit
      have := h (e0 :: pre) e post (by simp [hsplit])
      rwa [writes_cons] at this

/-- on failure the context holds exactly the writes of the entries before the first failing one -/
theorem casAll_err_state (known : List String) :
    ∀ (es : List Entry) (S : Stores), (casAll known es S).1 = false →
      ∃ (pre : List Entry) (e : Entry) (post : List Entry), es = pre ++ e :: post ∧
        (casAll known es S).2 = writes pre S ∧ (casAll known pre S).1 = true ∧
        (known.contains e.space = false ∨ sGet (writes pre S) e.sk ≠ e.old) := by
  intro es
  induction es with
  | nil => intro S h; simp [casAll] at h
  | cons e0 es ih =>
    intro S h
    cases hk : known.contains e0.space with
    | false =>
      refine ⟨[], e0, es, rfl, ?_, rfl, Or.inl hk⟩
      rw [casAll_cons_unknown known e0 es S hk]; rfl
    | true =>
      by_cases ho : sGet S e0.sk = e0.old
      · rw [casAll_cons_ok known e0 es S hk ho] at h ⊢
        obtain ⟨pre, e, post, hs, hst, hpre, hbad⟩ := ih _ h
        refine ⟨e0 :: pre, e, post, by simp [hs], ?_, ?_, ?_⟩
        · rw [writes_cons]; exact hst
        · rw [casAll_cons_ok known e0 pre S hk ho]; exact hpre
        · rw [writes_cons]; exact hbad
      · refine ⟨[], e0, es, rfl, ?_, rfl, Or.inr ?_⟩
        · rw [casAll_cons_mismatch known e0 es S hk ho]; rfl
        · simpa [writes] using ho

/-- after all writes, a key holds the new value of the LAST entry that names it (else what it held before) -/
theorem sGet_writes :
    ∀ (es : List Entry) (S : Stores) (k : SKey),
      sGet (writes es S) k =
        match es.reverse.find? (fun e => decide (e.sk = k)) with
        | some e => e.new
        | none => sGet S k := by
  intro es
  induction es with
  | nil => intro S k; rfl
  | cons e0 es ih =>
    intro S k
    rw [writes_cons, ih]
    simp only [List.reverse_cons, List.find?_append]
    cases hf : es.reverse.find? (fun e => decide (e.sk = k)) with
    | some e => simp
    | none =>
      by_cases hk : e0.sk = k
      · subst hk; simp [sGet_sSet_same]
      · simp [hk, sGet_sSet_other S e0.sk k e0.new (Ne.symm hk)]

theorem viaCache_err (f : Stores → Res × Stores) (S : Stores) (h : (viaCache f S).1 = .err) : (viaCache f S).2 = S := by
  unfold viaCache at h ⊢
  cases hf : f S with
  | mk r S' => cases r <;> simp [hf] at h ⊢

theorem viaCache_ok (f : Stores → Res × Stores) (S : Stores) (h : (viaCache f S).1 = .ok) : viaCache f S = f S := by
  unfold viaCache at h ⊢
  cases hf : f S with
  | mk r S' => cases r <;> simp [hf] at h ⊢

theorem loopMsgs_break (fs : List (Stores → Res × Stores)) :
    ∀ (S : Stores) (e : Res), e = .ok → loopMsgs true fs S e = runMsgs fs S := by
  induction fs with
  | nil => intro S e he; subst he; rfl
  | cons f fs ih =>
    intro S e _
    simp only [loopMsgs, runMsgs]
    cases hf : f S with
    | mk r X => cases r <;> simp [ih]

end FxVerif.Model.C16
