import FxVerif.Model.C15
import FxVerif.Proofs.C15Lookup
/-!
# C15 — the SDK keeper functions, interpreted statement by statement, are the one-piece functions of the model

For the statement lists regenerated from the Cosmos SDK version selected by `/repo/go.mod` (`sdkCancelSteps`, …): the
interpreted `cancelRun`, `deleteProposalRun`, `chargeDepositRun`, `refundRun`, `burnRun` equal the hand-written `cancel`,
`refundDeposits`, `burnDeposits` the invariants are proved about.  A changed statement (a dropped guard, a reordered check,
a record that is no longer removed, a transfer that is no longer made) changes a list and one of these equalities stops
checking.
-/
namespace FxVerif.Proofs.C15
open FxVerif.Gen.C15 FxVerif.Model.C15

theorem sdkCancelSteps_order : sdkCancelSteps =
    ["sdkCtx", "getProposal", "needProposer", "checkProposer", "checkOpen", "checkNotEnded", "getParams", "chargeDeposit",
     "deleteVotesIfStarted", "deleteProposal", "log", "return"] := rfl

theorem sdkDeleteProposalSteps_order : sdkDeleteProposalSteps = ["getProposal", "removeInactive", "removeActive", "removeProposal"] := rfl

theorem sdkChargeSteps_order : sdkChargeSteps = ["rate", "charges0", "getDeposits", "depositLoop", "payCharges", "return"] := rfl

theorem sdkChargeBody_order : sdkChargeBody = ["depositor", "remaining0", "coinLoop", "refundRemaining", "removeDeposit"] := rfl

theorem sdkChargeDest_order : sdkChargeDest =
    ["destAddress == \"\" => burn", "distributionAddress.String() == destAddress => fundCommunityPool", "default => sendToDest"] := rfl

theorem sdkRefundCallback_order : sdkRefundCallback = ["depositor", "send", "remove", "return:return false, err"] := rfl

theorem sdkBurn_order : sdkBurnSteps = ["sum0", "walk", "burnSum"] ∧ sdkBurnCallback = ["accumulate", "remove"] := ⟨rfl, rfl⟩

/-- `DeleteProposal` on a stored proposal: both queue entries and the proposal are removed -/
theorem deleteProposalRun_eq {s : State} {pid : Nat} {p : Proposal} (hp : findProp s.props pid = some p) :
    deleteProposalRun pid s =
      { s with inactive := removeQ (p.depositEnd, pid) s.inactive, active := removeQ (p.votingEnd, pid) s.active,
               props := dropProp s.props pid } := by
  unfold deleteProposalRun
  rw [sdkDeleteProposalSteps_order]
  simp only [List.foldl]
  have e1 : deleteProposalStep pid { s := s } "getProposal" = { s := s, p := some p } := by
    simp [deleteProposalStep, hp]
  rw [e1]
  rfl

/-- one deposit of the interpreted loop of `ChargeDeposit` -/
theorem chargeBody_one (rate : Nat) (d : Dep) (g : Nat) (b : List (Addr × Nat)) (k c : Nat) :
    sdkChargeBody.foldl (chargeBodyStep rate d) ⟨g, b, k, c, false⟩ =
      (if g < d.amt - mulTrunc d.amt rate then ⟨g, b, d.amt - mulTrunc d.amt rate, c + (d.amt - (d.amt - mulTrunc d.amt rate)), true⟩
       else ⟨g - (d.amt - mulTrunc d.amt rate), credit b d.who (d.amt - mulTrunc d.amt rate), d.amt - mulTrunc d.amt rate,
             c + (d.amt - (d.amt - mulTrunc d.amt rate)), false⟩) := by
  rw [sdkChargeBody_order]
  have hc : chargeCoinOk = true := rfl
  have n1 : ∀ l, chargeBodyStep rate d l "depositor" = l := fun l => by
    simp only [chargeBodyStep]; split <;> rfl
  have n2 : ∀ l, chargeBodyStep rate d l "removeDeposit" = l := fun l => by
    simp only [chargeBodyStep]; split <;> rfl
  simp only [List.foldl, n1, n2]
  simp only [chargeBodyStep, hc]
  by_cases h : g < d.amt - mulTrunc d.amt rate
  · simp [h]
  · simp [h]

theorem chargeRunLoop_failed (rate : Nat) : ∀ (ds : List Dep) (l : ChargeLocals), l.failed = true → (chargeRunLoop rate ds l).failed = true := by
  intro ds
  induction ds with
  | nil => intro l h; simpa [chargeRunLoop] using h
  | cons d r ih =>
    intro l h
    simp only [chargeRunLoop]
    apply ih
    have : ∀ (tags : List String) (l : ChargeLocals), l.failed = true → (tags.foldl (chargeBodyStep rate d) l).failed = true := by
      intro tags
      induction tags with
      | nil => intro l h; simpa using h
      | cons t ts ih2 =>
        intro l h
        simp only [List.foldl]
        apply ih2
        simp [chargeBodyStep, h]
    exact this _ _ h

/-- the interpreted loop and the recursive `chargeLoop` agree: same failure, same balances, charges added up -/
theorem chargeRunLoop_eq (rate : Nat) : ∀ (ds : List Dep) (g : Nat) (b : List (Addr × Nat)) (k c : Nat),
    match chargeLoop rate ds g b with
    | none => (chargeRunLoop rate ds ⟨g, b, k, c, false⟩).failed = true
    | some (g', b', c') =>
      (chargeRunLoop rate ds ⟨g, b, k, c, false⟩).failed = false ∧ (chargeRunLoop rate ds ⟨g, b, k, c, false⟩).g = g' ∧
      (chargeRunLoop rate ds ⟨g, b, k, c, false⟩).b = b' ∧ (chargeRunLoop rate ds ⟨g, b, k, c, false⟩).chg = c + c' := by
  intro ds
  induction ds with
  | nil => intro g b k c; simp [chargeLoop, chargeRunLoop]
  | cons d r ih =>
    intro g b k c
    simp only [chargeLoop, chargeRunLoop, chargeBody_one]
    by_cases h : g < d.amt - mulTrunc d.amt rate
    · simp only [h, if_true]
      exact chargeRunLoop_failed rate r _ rfl
    · simp only [h, if_false]
      have := ih (g - (d.amt - mulTrunc d.amt rate)) (credit b d.who (d.amt - mulTrunc d.amt rate)) (d.amt - mulTrunc d.amt rate)
        (c + (d.amt - (d.amt - mulTrunc d.amt rate)))
      cases hl : chargeLoop rate r (g - (d.amt - mulTrunc d.amt rate)) (credit b d.who (d.amt - mulTrunc d.amt rate)) with
      | none => rw [hl] at this; simpa using this
      | some x =>
        obtain ⟨g', b', c'⟩ := x
        rw [hl] at this
        simp only at this ⊢
        refine ⟨this.1, this.2.1, this.2.2.1, ?_⟩
        rw [this.2.2.2]; omega

theorem chargeDestAct_eq (dest : Nat) :
    chargeDestAct dest sdkChargeDest = if dest = 0 then "burn" else if dest = 1 then "fundCommunityPool" else "sendToDest" := by
  rw [sdkChargeDest_order]
  by_cases h0 : dest = 0
  · subst h0; rfl
  · by_cases h1 : dest = 1
    · subst h1; rfl
    · simp [chargeDestAct, h0, h1]

/-- **`CancelProposal` of the SDK, statement by statement, is the model's `cancel`** -/
theorem cancelRun_eq (s : State) (pid : Nat) (who : Addr) : cancelRun s pid who = cancel s pid who := by
  unfold cancelRun cancel
  rw [sdkCancelSteps_order]
  have n : ∀ (l : SdkLocals) (t : String), t = "sdkCtx" ∨ t = "needProposer" ∨ t = "getParams" ∨ t = "log" ∨ t = "return" →
      cancelStepI pid who l t = l := by
    intro l t ht
    rcases ht with rfl | rfl | rfl | rfl | rfl <;>
      (simp only [cancelStepI]; split; · rfl
       · cases l.p <;> rfl)
  simp only [List.foldl]
  rw [n _ "sdkCtx" (by simp)]
  cases hp : findProp s.props pid with
  | none =>
    have e1 : cancelStepI pid who { s := s } "getProposal" = { s := s, err := some "err:notfound" } := by
      simp [cancelStepI, hp]
    have stay : ∀ t, cancelStepI pid who { s := s, err := some "err:notfound" } t = { s := s, err := some "err:notfound" } := by
      intro t; simp [cancelStepI]
    simp only [e1, stay]
  | some p =>
    have e1 : cancelStepI pid who { s := s } "getProposal" = { s := s, p := some p } := by
      simp [cancelStepI, hp]
    rw [e1, n _ "needProposer" (by simp)]
    have stay : ∀ (s0 : State) (e t : _), cancelStepI pid who { s := s0, p := some p, err := some e } t = { s := s0, p := some p, err := some e } := by
      intro s0 e t; simp [cancelStepI]
    by_cases h1 : p.proposer != who
    · have e2 : cancelStepI pid who { s := s, p := some p } "checkProposer" = { s := s, p := some p, err := some "err:proposer" } := by
        simp [cancelStepI, h1]
      simp only [e2, stay, h1, if_true]
    · have e2 : cancelStepI pid who { s := s, p := some p } "checkProposer" = { s := s, p := some p } := by
        simp [cancelStepI, h1]
      rw [e2]
      simp only [h1, Bool.false_eq_true, if_false]
      by_cases h2 : (!(p.status == .deposit || p.status == .voting)) = true
      · have e3 : cancelStepI pid who { s := s, p := some p } "checkOpen" = { s := s, p := some p, err := some "err:inactive" } := by
          simp only [cancelStepI]; simp [h2]
        simp only [e3, stay, h2, if_true]
      · have e3 : cancelStepI pid who { s := s, p := some p } "checkOpen" = { s := s, p := some p } := by
          simp only [cancelStepI]; simp [h2]
        rw [e3]
        simp only [h2, Bool.false_eq_true, if_false]
        by_cases h3 : (p.status == .voting && decide (p.votingEnd < s.time)) = true
        · have e4 : cancelStepI pid who { s := s, p := some p } "checkNotEnded" = { s := s, p := some p, err := some "err:ended" } := by
            simp only [cancelStepI]; simp [h3]
          simp only [e4, stay, h3, if_true]
        · have e4 : cancelStepI pid who { s := s, p := some p } "checkNotEnded" = { s := s, p := some p } := by
            simp only [cancelStepI]; simp [h3]
          rw [e4, n _ "getParams" (by simp)]
          simp only [h3, Bool.false_eq_true, if_false]
          -- ChargeDeposit
          have hcd : chargeDepositRun pid s =
              match chargeLoop s.params.cancelRatio (depsOf s.deps pid) s.gov s.bal with
              | none => none
              | some (g, b, c) =>
                if g < c then none else
                some { s with gov := g - c,
                              bal := if s.params.cancelDest ≥ 2 then credit b (s.params.cancelDest - 2) c else b,
                              deps := depsNot s.deps pid,
                              burned := if s.params.cancelDest == 0 then s.burned + c else s.burned,
                              charged := if s.params.cancelDest == 1 then s.charged + c else s.charged,
                              settled := s.settled ++ (depsOf s.deps pid).map
                                (fun d => ⟨d.pid, d.who, d.amt, .cancel (d.amt - (d.amt - mulTrunc d.amt s.params.cancelRatio))⟩) } := by
            unfold chargeDepositRun
            rw [sdkChargeSteps_order]
            have hrm : sdkChargeBody.contains "removeDeposit" = true := rfl
            have n : ∀ (acc : Option (State × ChargeLocals)) (t : String),
                t = "rate" ∨ t = "charges0" ∨ t = "getDeposits" ∨ t = "return" → chargeTopStep pid acc t = acc := by
              intro acc t ht
              rcases ht with rfl | rfl | rfl | rfl <;> (cases acc <;> rfl)
            simp only [List.foldl]
            rw [n _ "rate" (by simp), n _ "charges0" (by simp), n _ "getDeposits" (by simp), n _ "return" (by simp)]
            have key := chargeRunLoop_eq s.params.cancelRatio (depsOf s.deps pid) s.gov s.bal 0 0
            have eL : chargeTopStep pid (some (s, { g := s.gov, b := s.bal })) "depositLoop" =
                (if (chargeRunLoop s.params.cancelRatio (depsOf s.deps pid) { g := s.gov, b := s.bal }).failed then none else
                  some ({ s with gov := (chargeRunLoop s.params.cancelRatio (depsOf s.deps pid) { g := s.gov, b := s.bal }).g,
                                 bal := (chargeRunLoop s.params.cancelRatio (depsOf s.deps pid) { g := s.gov, b := s.bal }).b,
                                 deps := depsNot s.deps pid,
                                 settled := s.settled ++ (depsOf s.deps pid).map
                                   (fun d => ⟨d.pid, d.who, d.amt, .cancel (d.amt - (d.amt - mulTrunc d.amt s.params.cancelRatio))⟩) },
                        chargeRunLoop s.params.cancelRatio (depsOf s.deps pid) { g := s.gov, b := s.bal })) := by
              rfl
            rw [eL]
            generalize chargeRunLoop s.params.cancelRatio (depsOf s.deps pid) { g := s.gov, b := s.bal } = L at key ⊢
            obtain ⟨Lg, Lb, Lk, Lc, Lf⟩ := L
            cases hl : chargeLoop s.params.cancelRatio (depsOf s.deps pid) s.gov s.bal with
            | none =>
              rw [hl] at key
              simp only at key
              subst key
              rfl
            | some x =>
              obtain ⟨g, b, c⟩ := x
              rw [hl] at key
              simp only at key
              obtain ⟨k1, k2, k3, k4⟩ := key
              subst k1 k2 k3
              have k4' : Lc = c := by omega
              subst k4'
              have eP : ∀ (s0 : State) (l : ChargeLocals), chargeTopStep pid (some (s0, l)) "payCharges" =
                  (if s0.gov < l.chg then none else
                    some ({ s0 with gov := s0.gov - l.chg,
                                    bal := if chargeDestAct s0.params.cancelDest sdkChargeDest == "sendToDest" && s0.params.cancelDest ≥ 2 then credit s0.bal (s0.params.cancelDest - 2) l.chg else s0.bal,
                                    burned := if chargeDestAct s0.params.cancelDest sdkChargeDest == "burn" then s0.burned + l.chg else s0.burned,
                                    charged := if chargeDestAct s0.params.cancelDest sdkChargeDest == "fundCommunityPool" then s0.charged + l.chg else s0.charged }, l)) := fun _ _ => rfl
              simp only [Bool.false_eq_true, if_false, eP, chargeDestAct_eq]
              by_cases hg : Lg < Lc
              · simp [hg]
              · by_cases h0 : s.params.cancelDest = 0
                · simp [hg, h0]
                · by_cases h1' : s.params.cancelDest = 1
                  · simp [hg, h1']
                  · have : s.params.cancelDest ≥ 2 := by omega
                    simp [hg, h0, h1', this]
          have e5 : cancelStepI pid who { s := s, p := some p } "chargeDeposit" =
              match chargeDepositRun pid s with
              | none => { s := s, p := some p, err := some "err:funds" }
              | some s' => { s := s', p := some p } := by
            simp only [cancelStepI]
            cases chargeDepositRun pid s <;> rfl
          rw [e5, hcd]
          cases hl : chargeLoop s.params.cancelRatio (depsOf s.deps pid) s.gov s.bal with
          | none => simp only [stay]
          | some x =>
            obtain ⟨g, b, c⟩ := x
            simp only
            by_cases hg : g < c
            · simp only [hg, if_true, stay]
            · simp only [hg, if_false]
              have eV : ∀ s0 : State, cancelStepI pid who { s := s0, p := some p } "deleteVotesIfStarted" =
                  (if p.status == .voting then { s := deleteVotesRun pid s0, p := some p } else { s := s0, p := some p }) := fun _ => rfl
              have eD : ∀ s0 : State, cancelStepI pid who { s := s0, p := some p } "deleteProposal" =
                  { s := deleteProposalRun pid s0, p := some p } := fun _ => rfl
              have dv : ∀ s0 : State, deleteVotesRun pid s0 = { s0 with votes := votesNot s0.votes pid } := fun _ => rfl
              rw [eV]
              by_cases hst : (p.status == .voting) = true
              · simp only [hst, if_true]
                rw [eD, n _ "log" (by simp), n _ "return" (by simp), dv]
                simp (disch := exact hp) only [deleteProposalRun_eq (p := p)]
              · simp only [hst, Bool.false_eq_true, if_false]
                rw [eD, n _ "log" (by simp), n _ "return" (by simp)]
                simp (disch := exact hp) only [deleteProposalRun_eq (p := p)]

theorem refundCallback_one (d : Dep) (g : Nat) (b : List (Addr × Nat)) :
    sdkRefundCallback.foldl (refundCallback d) (g, b, false, false) =
      (if g < d.amt then (g, b, false, true) else (g - d.amt, credit b d.who d.amt, true, false)) := by
  rw [sdkRefundCallback_order]
  by_cases h : g < d.amt
  · simp [List.foldl, refundCallback, h]
  · simp [List.foldl, refundCallback, h]

theorem refundWalk_eq : ∀ (ds : List Dep) (g : Nat) (b : List (Addr × Nat)),
    refundWalk ds g b = match refundLoop ds g b with
      | .error _ => none
      | .ok (g', b') => some (g', b', true) := by
  intro ds
  induction ds with
  | nil => intro g b; simp [refundWalk, refundLoop]
  | cons d r ih =>
    intro g b
    simp only [refundWalk, refundLoop, refundCallback_one]
    by_cases h : g < d.amt
    · simp [h]
    · simp only [h, if_false, Bool.false_eq_true, ih]
      cases refundLoop r (g - d.amt) (credit b d.who d.amt) with
      | error e => simp
      | ok x => obtain ⟨g', b'⟩ := x; simp

theorem refundLoop_error : ∀ (ds : List Dep) (g : Nat) (b : List (Addr × Nat)) (e : Err),
    refundLoop ds g b = .error e → e = .halt "refund: insufficient module balance" := by
  intro ds
  induction ds with
  | nil => intro g b e h; simp [refundLoop] at h
  | cons d r ih =>
    intro g b e h
    simp only [refundLoop] at h
    split at h
    · cases h; rfl
    · exact ih _ _ _ h

/-- **`RefundAndDeleteDeposits` of the SDK, interpreted, is the model's `refundDeposits`** -/
theorem refundRun_eq (pid : Nat) (s : State) : refundRun pid s = refundDeposits pid s := by
  unfold refundRun refundDeposits
  rw [refundWalk_eq]
  cases h : refundLoop (depsOf s.deps pid) s.gov s.bal with
  | error e => simp [refundLoop_error _ _ _ _ h]
  | ok x => obtain ⟨g, b⟩ := x; simp

theorem burnWalk_eq : ∀ ds : List Dep, burnWalk ds = (sumAmt ds, true) := by
  intro ds
  induction ds with
  | nil => rfl
  | cons d r ih =>
    simp only [burnWalk, ih, sumAmt]
    rw [sdkBurn_order.2]
    simp

/-- **`DeleteAndBurnDeposits` of the SDK, interpreted, is the model's `burnDeposits`** -/
theorem burnRun_eq (pid : Nat) (s : State) : burnRun pid s = burnDeposits pid s := by
  unfold burnRun burnDeposits
  rw [sdkBurn_order.1]
  simp only [List.foldl, burnWalk_eq]
  by_cases h : s.gov < sumAmt (depsOf s.deps pid)
  · simp [h]
  · simp [h]

theorem activateSteps_order : activateSteps =
    ["sdkCtx", "startTime=blockTime", "setVotingStart", "var", "getParams", "periodByExpedited", "customPeriod",
     "endTime=start+period", "setVotingEnd", "setStatusVoting", "setProposal", "removeInactive", "setActive:votingEnd"] := rfl

/-- **`ActivateVotingPeriod`, statement by statement, is the model's `activate`**: start = block time, period = default of the
kind, then the custom period of the message type, end = START + period, the proposal stored with start, end and status,
the inactive entry removed, the active entry written under the STORED end -/
theorem activateRun_eq (s : State) (p : Proposal) : activateRun s p = activate s p := by
  unfold activateRun
  rw [activateSteps_order]
  have n1 : ∀ l, activateStep l "sdkCtx" = l := fun _ => rfl
  have n2 : ∀ l, activateStep l "var" = l := fun _ => rfl
  have n3 : ∀ l, activateStep l "getParams" = l := fun _ => rfl
  have e1 : ∀ l, activateStep l "startTime=blockTime" = { l with start := l.s.time } := fun _ => rfl
  have e2 : ∀ l, activateStep l "setVotingStart" = { l with p := { l.p with votingStart := l.start } } := fun _ => rfl
  have e3 : ∀ l, activateStep l "periodByExpedited" =
      { l with period := if l.p.expedited then l.s.params.expVotingPeriod else l.s.params.votingPeriod } := fun _ => rfl
  have e4 : ∀ l, activateStep l "customPeriod" =
      (match getCustom l.s.custom (propTypeP l.p.msgs) with
       | some c => { l with period := c.votingPeriod }
       | none => l) := fun l => by
    have : activateStep l "customPeriod" = { l with period := customPeriodOf l.s.custom l.p.msgs l.period } := rfl
    rw [this, customPeriodOf_eq]
    cases getCustom l.s.custom (propTypeP l.p.msgs) <;> rfl
  have e5 : ∀ l, activateStep l "endTime=start+period" = { l with endT := l.p.votingStart + l.period } := fun _ => rfl
  have e6 : ∀ l, activateStep l "setVotingEnd" = { l with p := { l.p with votingEnd := l.endT } } := fun _ => rfl
  have e7 : ∀ l, activateStep l "setStatusVoting" = { l with p := { l.p with status := .voting } } := fun _ => rfl
  have e8 : ∀ l, activateStep l "setProposal" = { l with s := { l.s with props := putProp l.s.props l.p } } := fun _ => rfl
  have e9 : ∀ l, activateStep l "removeInactive" =
      { l with s := { l.s with inactive := removeQ (l.p.depositEnd, l.p.id) l.s.inactive } } := fun _ => rfl
  have e10 : ∀ l, activateStep l "setActive:votingEnd" =
      { l with s := { l.s with active := insertQ (l.p.votingEnd, l.p.id) l.s.active } } := fun _ => rfl
  simp only [List.foldl, n1, n2, n3, e1, e2, e3, e5, e6, e7, e8, e9, e10]
  rw [e4]
  have h1 : activationDefaultByExpedited = true := rfl
  have h2 : activationUsesCustomPeriod = true := rfl
  have h4 : activationQueueKeyIsVotingEnd = true := rfl
  simp only [activate, activationQueueTime, activationPeriod, customPeriodOf_eq, h1, h2, h4, Bool.true_and, Bool.and_true, if_true]
  cases hc : getCustom s.custom (propTypeP p.msgs) with
  | none => cases he : p.expedited <;> simp
  | some c => simp

/-- the one-piece form of `dropInactive` the invariants are proved about -/
def dropInactiveSpec (pid : Nat) (s : State) : Except Err State :=
  match findProp s.props pid with
  | none => .error (.halt "inactive queue: proposal not found")
  | some p =>
    let s1 := { s with props := dropProp s.props pid,
                       inactive := removeQ (p.depositEnd, pid) s.inactive,
                       active := removeQ (p.votingEnd, pid) s.active }
    if inactiveSettleShapeOk then
      if !s.params.burnPrevote then refundDeposits pid s1 else burnDeposits pid s1
    else .ok s1

/-- **the inactive-queue step of the end-blocker — `DeleteProposal`, then `RefundAndDeleteDeposits` or
`DeleteAndBurnDeposits`, all three interpreted from the SDK's statement lists — is the one-piece form** -/
theorem dropInactive_eq (pid : Nat) (s : State) : dropInactive pid s = dropInactiveSpec pid s := by
  unfold dropInactive dropInactiveSpec
  cases hp : findProp s.props pid with
  | none => rfl
  | some p =>
    simp only [deleteProposalRun_eq hp, refundRun_eq, burnRun_eq]

theorem sdkSubmitSteps_order : sdkSubmitSteps =
    ["sdkCtx", "assertMetadata", "assertSummary", "assertTitle", "msgsStr0", "msgLoop", "nextId", "getParams",
     "submitTime=blockTime", "depositPeriod=maxDepositPeriod", "newProposal(depositEnd=submitTime+depositPeriod)", "setProposal",
     "inactiveQueueSet:depositEnd", "hooks", "event", "return"] := rfl

theorem sdkSubmitLoop_order : sdkSubmitLoop =
    ["msgsStr+=", "validateBasic", "getSigners", "oneSigner", "signerIsGov", "handler", "routable", "legacyDryRun"] := rfl

/-- the one-piece form of `submit` the invariants are proved about -/
def submitSpec (s : State) (proposer : Addr) (msgs : List Msg) (initial : Nat) (expedited : Bool) : Except String State :=
  if !checkMsgs msgs then .error "err:type" else
  if s.params.minInitialDepositRatio != 0 &&
      (initial == 0 || initial < mulRound (defaultMin s expedited) s.params.minInitialDepositRatio) then
    .error "err:small" else
  if !msgs.all (·.wellFormed) then .error "err:msg" else
  let p : Proposal := { id := s.nextId, msgs := msgs, proposer := proposer, status := .deposit, total := 0,
                        depositEnd := s.time + s.params.maxDepositPeriod, votingStart := 0, votingEnd := 0,
                        expedited := expedited }
  let s1 := { s with nextId := s.nextId + 1, props := s.props ++ [p],
                     inactive := insertQ (p.depositEnd, p.id) s.inactive }
  addDeposit s1 p.id proposer initial

/-- **`Keeper.SubmitProposal` of the SDK, statement by statement**: the messages are checked, the id is the next proposal id,
the deposit end is the block time + `MaxDepositPeriod`, the proposal is stored and entered into the inactive queue under
that deposit end -/
theorem sdkSubmitRun_eq (s : State) (proposer : Addr) (msgs : List Msg) (expedited : Bool) :
    sdkSubmitRun s proposer msgs expedited =
      if !msgs.all (·.wellFormed) then .error "err:msg" else
      .ok ({ s with nextId := s.nextId + 1,
                    props := s.props ++ [{ id := s.nextId, msgs := msgs, proposer := proposer, status := .deposit, total := 0,
                                           depositEnd := s.time + s.params.maxDepositPeriod, votingStart := 0, votingEnd := 0,
                                           expedited := expedited }],
                    inactive := insertQ (s.time + s.params.maxDepositPeriod, s.nextId) s.inactive }, s.nextId) := by
  unfold sdkSubmitRun
  rw [sdkSubmitSteps_order]
  have hck : submitLoopChecks = true := rfl
  have n : ∀ (l : SubmitLocals) (t : String),
      t = "sdkCtx" ∨ t = "assertMetadata" ∨ t = "assertSummary" ∨ t = "assertTitle" ∨ t = "msgsStr0" ∨ t = "getParams" ∨
      t = "hooks" ∨ t = "event" ∨ t = "return" → submitStepI proposer msgs expedited l t = l := by
    intro l t ht
    rcases ht with rfl | rfl | rfl | rfl | rfl | rfl | rfl | rfl | rfl <;>
      (simp only [submitStepI]; split <;> rfl)
  simp only [List.foldl]
  rw [n _ "sdkCtx" (by simp), n _ "assertMetadata" (by simp), n _ "assertSummary" (by simp), n _ "assertTitle" (by simp),
    n _ "msgsStr0" (by simp)]
  have eLoop : submitStepI proposer msgs expedited { s := s } "msgLoop" =
      (if submitLoopChecks && !msgs.all (·.wellFormed) then { s := s, err := some "err:msg" } else { s := s }) := rfl
  rw [eLoop, hck]
  by_cases hw : msgs.all (·.wellFormed) = true
  · simp only [hw, Bool.not_true, Bool.and_false, Bool.false_eq_true, if_false]
    have e1 : submitStepI proposer msgs expedited { s := s } "nextId" =
        { s := { s with nextId := s.nextId + 1 }, id := s.nextId } := rfl
    rw [e1, n _ "getParams" (by simp)]
    have e2 : ∀ (s0 : State) (i : Nat), submitStepI proposer msgs expedited { s := s0, id := i } "submitTime=blockTime" =
        { s := s0, id := i, submitTime := s0.time } := fun _ _ => rfl
    have e3 : ∀ (s0 : State) (i t : Nat), submitStepI proposer msgs expedited { s := s0, id := i, submitTime := t }
        "depositPeriod=maxDepositPeriod" = { s := s0, id := i, submitTime := t, depositPeriod := s0.params.maxDepositPeriod } :=
      fun _ _ _ => rfl
    have e4 : ∀ (s0 : State) (i t d : Nat), submitStepI proposer msgs expedited { s := s0, id := i, submitTime := t, depositPeriod := d }
        "newProposal(depositEnd=submitTime+depositPeriod)" =
        { s := s0, id := i, submitTime := t, depositPeriod := d,
          p := some { id := i, msgs := msgs, proposer := proposer, status := .deposit, total := 0, depositEnd := t + d,
                      votingStart := 0, votingEnd := 0, expedited := expedited } } := fun _ _ _ _ => rfl
    have e5 : ∀ (s0 : State) (i t d : Nat) (q : Proposal),
        submitStepI proposer msgs expedited { s := s0, id := i, submitTime := t, depositPeriod := d, p := some q } "setProposal" =
        { s := { s0 with props := s0.props ++ [q] }, id := i, submitTime := t, depositPeriod := d, p := some q } :=
      fun _ _ _ _ _ => rfl
    have e6 : ∀ (s0 : State) (i t d : Nat) (q : Proposal),
        submitStepI proposer msgs expedited { s := s0, id := i, submitTime := t, depositPeriod := d, p := some q }
          "inactiveQueueSet:depositEnd" =
        { s := { s0 with inactive := insertQ (q.depositEnd, q.id) s0.inactive }, id := i, submitTime := t, depositPeriod := d,
          p := some q } := fun _ _ _ _ _ => rfl
    rw [e2, e3, e4, e5, e6, n _ "hooks" (by simp), n _ "event" (by simp), n _ "return" (by simp)]
  · have hw' : msgs.all (·.wellFormed) = false := by simpa using hw
    simp only [hw', Bool.not_false, Bool.and_true, if_true]
    have stay : ∀ t, submitStepI proposer msgs expedited { s := s, err := some "err:msg" } t = { s := s, err := some "err:msg" } := by
      intro t; simp [submitStepI]
    simp only [stay]

/-- **`MsgSubmitProposal` through the interpreted SDK `SubmitProposal` is the one-piece `submit` of the invariants** -/
theorem submit_eq (s : State) (proposer : Addr) (msgs : List Msg) (initial : Nat) (expedited : Bool) :
    submit s proposer msgs initial expedited = submitSpec s proposer msgs initial expedited := by
  unfold submit submitSpec
  rw [sdkSubmitRun_eq]
  by_cases h1 : (!checkMsgs msgs) = true
  · simp only [h1, if_true]
  · simp only [h1, Bool.false_eq_true, if_false]
    split
    · rfl
    · by_cases hw : (!msgs.all (·.wellFormed)) = true
      · simp only [hw, if_true]
      · simp only [hw, Bool.false_eq_true, if_false]

theorem sdkAddVoteSteps_order : sdkAddVoteSteps =
    ["inVotingPeriod=VotingPeriodProposals.Has", "rejectUnlessVoting", "assertMetadata", "optionsValid", "newVote", "votesSet",
     "hooks", "sdkCtx", "event", "return"] := rfl

/-- the one-piece form of `vote` the invariants are proved about -/
def voteSpec (s : State) (pid : Nat) (voter : Addr) (opts : List (Opt × Nat)) : Except String State :=
  if !optsValid opts then .error "err:vote" else
  match findProp s.props pid with
  | none => .error "err:inactive"
  | some p =>
    if p.status == .voting then .ok { s with votes := setVote s.votes ⟨pid, voter, opts⟩ } else .error "err:inactive"

/-- **`AddVote` of the SDK, statement by statement, is the model's vote**: refused unless the proposal is in its voting period,
then `Votes.Set` under (proposal, voter) -/
theorem vote_eq (s : State) (pid : Nat) (voter : Addr) (opts : List (Opt × Nat)) : vote s pid voter opts = voteSpec s pid voter opts := by
  unfold vote voteSpec addVoteRun
  rw [sdkAddVoteSteps_order, voteWeightedAccepts_eq]
  by_cases ho : (!optsValid opts) = true
  · simp only [ho, if_true]
  · simp only [ho, Bool.false_eq_true, if_false]
    have e1 : addVoteStep pid voter opts (s, false, none) "inVotingPeriod=VotingPeriodProposals.Has" =
        (s, (match findProp s.props pid with | some p => p.status == .voting | none => false), none) := rfl
    have n : ∀ (acc : State × Bool × Option String) (t : String),
        t = "assertMetadata" ∨ t = "optionsValid" ∨ t = "newVote" ∨ t = "hooks" ∨ t = "sdkCtx" ∨ t = "event" ∨ t = "return" →
        addVoteStep pid voter opts acc t = acc := by
      intro acc t ht
      obtain ⟨a, b, c⟩ := acc
      rcases ht with rfl | rfl | rfl | rfl | rfl | rfl | rfl <;> (simp only [addVoteStep]; split <;> rfl)
    have e2 : ∀ (b : Bool), addVoteStep pid voter opts (s, b, none) "rejectUnlessVoting" =
        (if !b then (s, b, some "err:inactive") else (s, b, none)) := fun _ => rfl
    have e3 : ∀ (b : Bool), addVoteStep pid voter opts (s, b, none) "votesSet" =
        ({ s with votes := setVote s.votes ⟨pid, voter, opts⟩ }, b, none) := fun _ => rfl
    have stay : ∀ (b : Bool) (t : String), addVoteStep pid voter opts (s, b, some "err:inactive") t = (s, b, some "err:inactive") :=
      fun _ _ => by simp [addVoteStep]
    simp only [List.foldl]
    rw [e1, e2]
    cases hp : findProp s.props pid with
    | none => simp only [Bool.not_false, if_true, stay]
    | some p =>
      simp only
      by_cases hv : (p.status == .voting) = true
      · simp only [hv, Bool.not_true, Bool.false_eq_true, if_false, if_true]
        rw [n _ "assertMetadata" (by simp), n _ "optionsValid" (by simp), n _ "newVote" (by simp), e3, n _ "hooks" (by simp),
          n _ "sdkCtx" (by simp), n _ "event" (by simp), n _ "return" (by simp)]
      · have hv' : (p.status == .voting) = false := by simpa using hv
        simp only [hv', Bool.not_false, if_true, stay, Bool.false_eq_true, if_false]

end FxVerif.Proofs.C15
