import FxVerif.Proofs.C13
/-! inductive invariants of the oracle registry over arbitrary op lists -/
namespace FxVerif.Proofs.C13
open FxVerif.Model.C13 FxVerif.Gen.C13

/-- indexes agree with records (lookup semantics ⇒ one-to-one) -/
structure RegInv (s : State) : Prop where
  key : ∀ a o, Store.get s.oracles a = some o → o.addr = a
  bri : ∀ b a, Store.get s.byBridger b = some a ↔ ∃ o, Store.get s.oracles a = some o ∧ o.bridger = b
  ext : ∀ e a, Store.get s.byExt e = some a ↔ ∃ o, Store.get s.oracles a = some o ∧ o.ext = e

/-- per-record facts: penalty counter, stake bounds -/
def RecOk (p : Params) (o : Oracle) : Prop :=
  o.slashTimes ≤ 1 ∧ (o.online = true → o.slashTimes = 0) ∧ p.thr ≤ o.amount ∧ o.amount ≤ p.thr * p.mult

structure Inv (s : State) : Prop where
  reg : RegInv s
  recs : ∀ a o, Store.get s.oracles a = some o → RecOk s.p o

/-- the guards `BondedOracle` / `EditBridger` must make (regenerated) -/
def GuardCodeOk : Prop :=
  bondChecksProposal = true ∧ bondChecksOracle = true ∧ bondChecksBridger = true ∧ bondChecksExt = true ∧
  bondChecksBelow = true ∧ bondChecksAbove = true ∧ editChecksBridger = true ∧
  addChecksProposal = true ∧ addChecksBelow = true ∧ addChecksAbove = true ∧ addChecksSlashPaid = true ∧
  -- re-activation: back online, start height reset (only) for an oracle that was offline, penalty counter cleared
  addSetsOnline = true ∧ addSetsStartHeight = true ∧ addStartHeightOnlyWhenOffline = true ∧ addResetsSlashTimes = true

instance : Decidable GuardCodeOk := by unfold GuardCodeOk; infer_instance

theorem reactivate_eq (hc : GuardCodeOk) (h : Nat) (r : Oracle) :
    reactivate h r = { r with online := true, startHeight := (if r.online then r.startHeight else h), slashTimes := 0 } := by
  obtain ⟨_, _, _, _, _, _, _, _, _, _, _, r1, r2, r3, r4⟩ := hc
  simp [reactivate, r1, r2, r3, r4]

/-- records mapped by a function that keeps the key fields and `RecOk`; indexes untouched -/
theorem inv_mapVals (s t : State) (g : Oracle → Oracle) (hi : Inv s)
    (ho : t.oracles = Store.mapVals g s.oracles) (hb : t.byBridger = s.byBridger) (he : t.byExt = s.byExt)
    (hp : t.p = s.p)
    (hk : ∀ o, (g o).addr = o.addr ∧ (g o).bridger = o.bridger ∧ (g o).ext = o.ext)
    (hr : ∀ o, RecOk s.p o → RecOk s.p (g o)) : Inv t := by
  obtain ⟨⟨k, b, e⟩, r⟩ := hi
  refine ⟨⟨?_, ?_, ?_⟩, ?_⟩
  · intro a o h
    rw [ho, get_mapVals] at h
    cases hg : Store.get s.oracles a with
    | none => simp [hg] at h
    | some o0 => simp [hg] at h; rw [← h, (hk o0).1]; exact k a o0 hg
  · intro bb a
    rw [hb, b bb a, ho, get_mapVals]
    constructor
    · rintro ⟨o, h1, h2⟩; exact ⟨g o, by simp [h1], by rw [(hk o).2.1]; exact h2⟩
    · rintro ⟨o, h1, h2⟩
      cases hg : Store.get s.oracles a with
      | none => simp [hg] at h1
      | some o0 => simp [hg] at h1; exact ⟨o0, rfl, by rw [← h2, ← h1, (hk o0).2.1]⟩
  · intro ee a
    rw [he, e ee a, ho, get_mapVals]
    constructor
    · rintro ⟨o, h1, h2⟩; exact ⟨g o, by simp [h1], by rw [(hk o).2.2]; exact h2⟩
    · rintro ⟨o, h1, h2⟩
      cases hg : Store.get s.oracles a with
      | none => simp [hg] at h1
      | some o0 => simp [hg] at h1; exact ⟨o0, rfl, by rw [← h2, ← h1, (hk o0).2.2]⟩
  · intro a o h
    rw [ho, get_mapVals] at h
    rw [hp]
    cases hg : Store.get s.oracles a with
    | none => simp [hg] at h
    | some o0 => simp [hg] at h; rw [← h]; exact hr o0 (r a o0 hg)

theorem inv_same (s t : State) (hi : Inv s) (ho : t.oracles = s.oracles) (hb : t.byBridger = s.byBridger)
    (he : t.byExt = s.byExt) (hp : t.p = s.p) : Inv t := by
  apply inv_mapVals s t id hi (by rw [ho, mapVals_id]) hb he hp (fun o => ⟨rfl, rfl, rfl⟩) (fun o h => h)

/-- one record rewritten in place, key fields kept -/
theorem inv_setRec (s t : State) (a : Nat) (r r' : Oracle) (hi : Inv s) (hg : Store.get s.oracles a = some r)
    (ho : t.oracles = Store.set s.oracles a r') (hb : t.byBridger = s.byBridger) (he : t.byExt = s.byExt)
    (hp : t.p = s.p) (h1 : r'.addr = r.addr) (h2 : r'.bridger = r.bridger) (h3 : r'.ext = r.ext)
    (hr : RecOk s.p r') : Inv t := by
  obtain ⟨⟨k, b, e⟩, rr⟩ := hi
  refine ⟨⟨?_, ?_, ?_⟩, ?_⟩
  · intro a' o h
    rw [ho, get_set] at h
    split at h
    · rename_i heq; injection h with h; rw [← h, h1, heq]; exact k a r hg
    · exact k a' o h
  · intro bb a'
    rw [hb, b bb a', ho]
    constructor
    · rintro ⟨o, h1', h2'⟩
      by_cases heq : a' = a
      · subst heq; rw [hg] at h1'; injection h1' with h1'
        exact ⟨r', by rw [get_set]; simp, by rw [h2, h1']; exact h2'⟩
      · exact ⟨o, by rw [get_set]; simp [heq, h1'], h2'⟩
    · rintro ⟨o, h1', h2'⟩
      rw [get_set] at h1'
      by_cases heq : a' = a
      · subst heq; simp at h1'; exact ⟨r, hg, by rw [← h2', ← h1', h2]⟩
      · simp [heq] at h1'; exact ⟨o, h1', h2'⟩
  · intro ee a'
    rw [he, e ee a', ho]
    constructor
    · rintro ⟨o, h1', h2'⟩
      by_cases heq : a' = a
      · subst heq; rw [hg] at h1'; injection h1' with h1'
        exact ⟨r', by rw [get_set]; simp, by rw [h3, h1']; exact h2'⟩
      · exact ⟨o, by rw [get_set]; simp [heq, h1'], h2'⟩
    · rintro ⟨o, h1', h2'⟩
      rw [get_set] at h1'
      by_cases heq : a' = a
      · subst heq; simp at h1'; exact ⟨r, hg, by rw [← h2', ← h1', h3]⟩
      · simp [heq] at h1'; exact ⟨o, h1', h2'⟩
  · intro a' o h
    rw [ho, get_set] at h
    rw [hp]
    split at h
    · injection h with h; rw [← h]; exact hr
    · exact rr a' o h

/-! ## staking helpers do not touch the registry -/

def RegFrame (s t : State) : Prop :=
  t.oracles = s.oracles ∧ t.byBridger = s.byBridger ∧ t.byExt = s.byExt ∧ t.p = s.p

theorem RegFrame.trans {a b c : State} (h1 : RegFrame a b) (h2 : RegFrame b c) : RegFrame a c :=
  ⟨h2.1.trans h1.1, h2.2.1.trans h1.2.1, h2.2.2.1.trans h1.2.2.1, h2.2.2.2.trans h1.2.2.2⟩

theorem stakeDelegate_frame (s t : State) (o v amt : Nat) (h : stakeDelegate s o v amt = some t) : RegFrame s t := by
  unfold stakeDelegate at h
  split at h
  · injection h with h; subst h; exact ⟨rfl, rfl, rfl, rfl⟩
  · simp at h

theorem stakeUndelegateAll_frame (s t : State) (o v : Nat) (h : stakeUndelegateAll s o v = some t) : RegFrame s t := by
  unfold stakeUndelegateAll at h
  split at h
  · simp at h
  · simp only at h
    split at h
    · simp at h
    · injection h with h; subst h; exact ⟨rfl, rfl, rfl, rfl⟩

theorem stakeRedelegateAll_frame (s t : State) (o a b : Nat) (h : stakeRedelegateAll s o a b = some t) : RegFrame s t := by
  unfold stakeRedelegateAll at h
  split at h
  · simp at h
  · split at h
    · simp at h
    · split at h
      · simp at h
      · split at h
        · simp at h
        · injection h with h; subst h; exact ⟨rfl, rfl, rfl, rfl⟩

theorem stakeMature_frame (s : State) (t : Nat) : RegFrame s (stakeMature s t) := ⟨rfl, rfl, rfl, rfl⟩

theorem undelegateFold_frame (l : List Oracle) : ∀ (s t : State),
    l.foldl (fun (acc : Option State) o => match acc with
      | none => none
      | some st => stakeUndelegateAll st o.addr o.val) (some s) = some t → RegFrame s t := by
  induction l with
  | nil => intro s t h; simp at h; subst h; exact ⟨rfl, rfl, rfl, rfl⟩
  | cons o l ih =>
    intro s t h
    simp only [List.foldl_cons] at h
    cases hu : stakeUndelegateAll s o.addr o.val with
    | none =>
      rw [hu] at h
      have : ∀ l' : List Oracle, l'.foldl (fun (acc : Option State) o => match acc with
          | none => none
          | some st => stakeUndelegateAll st o.addr o.val) none = none := by
        intro l'; induction l' with
        | nil => rfl
        | cons _ _ ih' => simpa using ih'
      rw [this] at h; simp at h
    | some s1 =>
      rw [hu] at h
      exact RegFrame.trans (stakeUndelegateAll_frame s s1 _ _ hu) (ih s1 t h)

theorem inv_frame (s t : State) (hi : Inv s) (hf : RegFrame s t) : Inv t :=
  inv_same s t hi hf.1 hf.2.1 hf.2.2.1 hf.2.2.2

/-! ## every op keeps the invariant -/

theorem gov_inv (s : State) (l : List Nat) (hi : Inv s) : Inv (govUpdate s l).1 := by
  unfold govUpdate
  split
  · exact hi
  · simp only
    split
    · exact hi
    · split
      · exact hi
      · rename_i s2 hfold
        have hf := undelegateFold_frame _ _ _ hfold
        have hi2 : Inv s2 := inv_frame _ _ (inv_same s _ hi rfl rfl rfl rfl) hf
        refine inv_mapVals s2 _ (fun o => if (!l.contains o.addr && s.proposal.contains o.addr) = true
            then { o with online := false } else o) hi2 rfl rfl rfl rfl ?_ ?_
        · intro o; split <;> exact ⟨rfl, rfl, rfl⟩
        · intro o ho; split
          · exact ⟨ho.1, by simp, ho.2.2⟩
          · exact ho

theorem add_inv (hc : GuardCodeOk) (s : State) (o amt : Nat) (hi : Inv s) : Inv (addDelegate s o amt).1 := by
  have hre := reactivate_eq hc
  obtain ⟨_, _, _, _, _, _, _, a1, a2, a3, a4, _⟩ := hc
  unfold addDelegate
  simp only [a1, a2, a3, a4, Bool.true_and, hre]
  split
  · exact hi
  · split
    · exact hi
    · rename_i r hr
      try simp only
      split
      · exact hi
      · split
        · exact hi
        · split
          · exact hi
          · split
            · exact hi
            · rename_i hlo hhi _
              split
              · exact hi
              · rename_i s2 hs2
                have hf : RegFrame s s2 := by
                  split at hs2
                  · exact RegFrame.trans (b := { s with bal := Store.set s.bal o (getBal s.bal o - amt), burned := s.burned + slashAmount s.p r }) ⟨rfl, rfl, rfl, rfl⟩ (stakeDelegate_frame _ _ _ _ _ hs2)
                  · injection hs2 with hs2; subst hs2; exact ⟨rfl, rfl, rfl, rfl⟩
                have hi2 := inv_frame _ _ hi hf
                have hr2 : Store.get s2.oracles o = some r := by rw [hf.1]; exact hr
                refine inv_setRec s2 _ o r _ hi2 hr2 rfl rfl rfl rfl rfl rfl rfl ?_
                rw [hf.2.2.2]
                exact ⟨by simp, by simp, by simpa using hlo, by simpa using hhi⟩

theorem redel_inv (s : State) (o v : Nat) (hi : Inv s) : Inv (reDelegate s o v).1 := by
  unfold reDelegate
  split
  · exact hi
  · rename_i r hr
    split
    · exact hi
    · split
      · exact hi
      · split
        · exact hi
        · rename_i s1 hs1
          have hf := stakeRedelegateAll_frame _ _ _ _ _ hs1
          have hi2 := inv_frame _ _ hi hf
          refine inv_setRec s1 _ o r _ hi2 (by rw [hf.1]; exact hr) rfl rfl rfl rfl rfl rfl rfl ?_
          rw [hf.2.2.2]; exact hi.recs o r hr

theorem withdraw_inv (s : State) (o : Nat) (hi : Inv s) : Inv (withdrawReward s o).1 := by
  unfold withdrawReward
  split
  · exact hi
  · split
    · exact hi
    · split
      · exact hi
      · split
        · exact hi
        · exact inv_same s _ hi rfl rfl rfl rfl

theorem confirm_inv (s : State) (k : Kind) (n e b : Nat) (sg : Bool) (hi : Inv s) : Inv (confirm s k n e b sg).1 := by
  unfold confirm
  split
  · exact hi
  · split
    · exact hi
    · split
      · exact hi
      · split
        · exact hi
        · split
          · exact hi
          · split
            · exact hi
            · split
              · exact hi
              · cases k <;> exact inv_same s _ hi rfl rfl rfl rfl

theorem block_inv (hcode : SlashCodeOk) (s : State) (dt : Nat) (hi : Inv s) : Inv (block s dt).1 := by
  unfold block
  split
  · exact hi
  · rename_i s1 he
    obtain ⟨hc, g, hg, hrel⟩ := endBlock_rel hcode s s.height s1 he
    have hi1 : Inv s1 := by
      refine inv_mapVals s s1 g hi hg hc.bb hc.be hc.p (fun o => ⟨(hrel o).1, (hrel o).2.1, (hrel o).2.2.1⟩) ?_
      intro o ho
      obtain ⟨_, _, _, h4, _, _, h7⟩ := hrel o
      rcases h7 with h7 | ⟨h8, h9, h10, _⟩
      · rw [h7]; exact ho
      · refine ⟨?_, ?_, ?_, ?_⟩
        · rw [h10, ho.2.1 h8]; omega
        · intro hon; rw [h9] at hon; exact absurd hon (by simp)
        · rw [h4]; exact ho.2.2.1
        · rw [h4]; exact ho.2.2.2
    exact inv_same s1 _ hi1 rfl rfl rfl rfl

theorem inv_insert (s t : State) (o b e : Nat) (r : Oracle) (hi : Inv s)
    (hno : Store.get s.oracles o = none) (hnb : Store.get s.byBridger b = none) (hne : Store.get s.byExt e = none)
    (ho : t.oracles = Store.set s.oracles o r) (hb : t.byBridger = Store.set s.byBridger b o)
    (he : t.byExt = Store.set s.byExt e o) (hp : t.p = s.p)
    (h1 : r.addr = o) (h2 : r.bridger = b) (h3 : r.ext = e) (hr : RecOk s.p r) : Inv t := by
  obtain ⟨⟨k, bi, ei⟩, rr⟩ := hi
  refine ⟨⟨?_, ?_, ?_⟩, ?_⟩
  · intro a x h
    rw [ho, get_set] at h
    grind
  · intro bb a
    rw [hb, ho, get_set, get_set]
    have := bi bb a
    have := bi b
    grind
  · intro ee a
    rw [he, ho, get_set, get_set]
    have := ei ee a
    have := ei e
    grind
  · intro a x h
    rw [ho, get_set] at h
    rw [hp]
    grind

theorem inv_remove (s t : State) (o : Nat) (r : Oracle) (hi : Inv s) (hg : Store.get s.oracles o = some r)
    (ho : t.oracles = Store.erase s.oracles o) (hb : t.byBridger = Store.erase s.byBridger r.bridger)
    (he : t.byExt = Store.erase s.byExt r.ext) (hp : t.p = s.p) : Inv t := by
  obtain ⟨⟨k, bi, ei⟩, rr⟩ := hi
  refine ⟨⟨?_, ?_, ?_⟩, ?_⟩
  · intro a x h
    rw [ho, get_erase] at h
    grind
  · intro bb a
    rw [hb, ho, get_erase, get_erase]
    have := bi bb a
    have := bi r.bridger o
    have := bi r.bridger a
    grind
  · intro ee a
    rw [he, ho, get_erase, get_erase]
    have := ei ee a
    have := ei r.ext o
    have := ei r.ext a
    grind
  · intro a x h
    rw [ho, get_erase] at h
    rw [hp]
    grind

theorem inv_rebridge (s t : State) (o b : Nat) (r : Oracle) (hi : Inv s) (hg : Store.get s.oracles o = some r)
    (hnb : Store.get s.byBridger b = none)
    (ho : t.oracles = Store.set s.oracles o { r with bridger := b })
    (hb : t.byBridger = Store.set (Store.erase s.byBridger r.bridger) b o)
    (he : t.byExt = s.byExt) (hp : t.p = s.p) : Inv t := by
  obtain ⟨⟨k, bi, ei⟩, rr⟩ := hi
  refine ⟨⟨?_, ?_, ?_⟩, ?_⟩
  · intro a x h
    rw [ho, get_set] at h
    have := k o r hg
    grind
  · intro bb a
    rw [hb, ho, get_set, get_erase, get_set]
    have := bi bb a
    have := bi r.bridger o
    have := bi r.bridger a
    have := bi b a
    grind
  · intro ee a
    rw [he, ho, get_set]
    have := ei ee a
    have := ei ee o
    grind
  · intro a x h
    rw [ho, get_set] at h
    rw [hp]
    have := rr o r hg
    unfold RecOk at *
    grind

theorem bond_inv (hc : GuardCodeOk) (s : State) (o b e v amt : Nat) (hi : Inv s) : Inv (bond s o b e v amt).1 := by
  obtain ⟨g1, g2, g3, g4, g5, g6, _⟩ := hc
  unfold bond
  simp only [g1, g2, g3, g4, g5, g6, Bool.true_and]
  split
  · exact hi
  · split
    · exact hi
    · rename_i hno
      split
      · exact hi
      · rename_i hnb
        split
        · exact hi
        · rename_i hne
          split
          · exact hi
          · rename_i hlo
            split
            · exact hi
            · rename_i hhi
              split
              · exact hi
              · split
                · exact hi
                · rename_i s2 hs2
                  have hf : RegFrame s s2 :=
                    RegFrame.trans (b := { s with bal := Store.set s.bal o (getBal s.bal o - amt) }) ⟨rfl, rfl, rfl, rfl⟩
                      (stakeDelegate_frame _ _ _ _ _ hs2)
                  have hi2 := inv_frame _ _ hi hf
                  refine inv_insert s2 _ o b e ⟨o, b, e, amt, s.height, true, v, 0⟩ hi2 ?_ ?_ ?_ rfl rfl rfl rfl rfl rfl rfl ?_
                  · rw [hf.1]; simpa [Store.has] using hno
                  · rw [hf.2.1]; simpa [Store.has] using hnb
                  · rw [hf.2.2.1]; simpa [Store.has] using hne
                  · rw [hf.2.2.2]; exact ⟨by simp, by simp, by simpa using hlo, by simpa using hhi⟩

theorem editb_inv (hc : GuardCodeOk) (s : State) (o b : Nat) (hi : Inv s) : Inv (editBridger s o b).1 := by
  obtain ⟨_, _, _, _, _, _, g7⟩ := hc
  unfold editBridger
  simp only [g7, Bool.true_and]
  split
  · exact hi
  · rename_i r hr
    split
    · exact hi
    · split
      · exact hi
      · split
        · exact hi
        · rename_i hnb
          exact inv_rebridge s _ o b r hi hr (by simpa [Store.has] using hnb) rfl rfl rfl rfl

theorem unbond_inv (s : State) (o : Nat) (hi : Inv s) : Inv (unbond s o).1 := by
  unfold unbond
  split
  · exact hi
  · split
    · exact hi
    · rename_i r hr
      split
      · exact hi
      · simp only
        split
        · exact hi
        · split
          · exact hi
          · exact inv_remove s _ o r hi hr rfl rfl rfl rfl

theorem step_inv (hs : SlashCodeOk) (hg : GuardCodeOk) (s : State) (op : Op) (hi : Inv s) : Inv (step s op).1 := by
  cases op with
  | gov l => exact gov_inv s l hi
  | bond o b e v amt => exact bond_inv hg s o b e v amt hi
  | add o amt => exact add_inv hg s o amt hi
  | redel o v => exact redel_inv s o v hi
  | editb o b => exact editb_inv hg s o b hi
  | withdraw o => exact withdraw_inv s o hi
  | fund o amt => exact inv_same s _ hi rfl rfl rfl rfl
  | mint o amt => exact inv_same s _ hi rfl rfl rfl rfl
  | tick dt => exact inv_same s _ hi rfl rfl rfl rfl
  | unbond o => exact unbond_inv s o hi
  | mkbatch => simp only [step, mkBatch]; split <;> first | exact hi | exact inv_same s _ hi rfl rfl rfl rfl
  | mkcall => exact inv_same s _ hi rfl rfl rfl rfl
  | conf k n e b sg => exact confirm_inv s k n e b sg hi
  | observe n => simp only [step, observe]; repeat' split
                 all_goals first | exact hi | exact inv_same s _ hi rfl rfl rfl rfl
  | event bs bcs cs obs => exact inv_same s _ hi rfl rfl rfl rfl
  | block dt => exact block_inv hs s dt hi
  | valslash v num den => simp only [step, valSlash]; split <;> first | exact hi | exact inv_same s _ hi rfl rfl rfl rfl

theorem init_inv (p : Params) (bals : Store Nat Nat) : Inv (init p bals) := by
  refine ⟨⟨?_, ?_, ?_⟩, ?_⟩ <;> simp [init, Store.get]

theorem run_inv (hs : SlashCodeOk) (hg : GuardCodeOk) : ∀ (ops : List Op) (s : State), Inv s → Inv (run s ops) := by
  intro ops
  induction ops with
  | nil => intro s hi; exact hi
  | cons op ops ih => intro s hi; exact ih _ (step_inv hs hg s op hi)

end FxVerif.Proofs.C13
