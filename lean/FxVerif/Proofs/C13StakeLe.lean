import FxVerif.Proofs.C13Owed
/-!
Stake accounting for EVERY history, validator slashing included.

`StakeInv` (`C13Stake.lean`) is stated for histories without `.valslash`.  A validator slash multiplies every delegation to
the validator by `(den - num) / den` (floor), so "delegated = recorded" becomes "delegated ≤ recorded".  What stays true
for every op list (`StakeLeInv`):

* `own`  a delegation of a delegate address exists only towards the validator its oracle record names;
* `le`   whatever is delegated on behalf of a record is at most its `DelegateAmount` (for EVERY record, removed or not);
* `sent` `DelegateAmount` is exactly what the oracle transferred (ghost `sent`) (for EVERY record, removed or not);
* `out`  off the governance list ⇒ nothing is delegated.

What is FALSE once validators can be slashed: "ghost `undel = 0` ⇒ a delegation EXISTS" (the first half of
`StakeInv.acc`).  A slash can bring a delegation down to 0 tokens (`num = den`, or the floor of a small amount); a
governance removal then undelegates 0 tokens, the ghost `undel` stays 0, the delegation entry is gone, and a re-approval
(+ `AddDelegate` of 0) gives a listed, even online, record with `undel = 0` and nothing delegated (witness in
`Props/C13.lean`: `slashedToZero`).  Neither `0 < thr` nor restricting to listed records repairs that: `gov_stake` used
`0 < thr` only to conclude "removed ⇒ `undel > 0`", which needs "delegated = recorded".  So existence is stated with a
hypothesis on the HISTORY instead of the ghost: along the op list governance never removed the record of `a`
(`neverRemoved`, decidable; implied by "every governance update has `a` on its list") — `LeK.ex`, `run_lek`.
No positive-threshold hypothesis is needed anywhere.
-/
namespace FxVerif.Proofs.C13
open FxVerif.Model.C13 FxVerif.Gen.C13

structure StakeLeInv (s : State) : Prop where
  /-- a delegation of a delegate address exists only towards the validator its oracle record names -/
  own : ∀ o v t, Store.get s.deleg (o, v) = some t → ∃ r, Store.get s.oracles o = some r ∧ r.val = v
  /-- delegated on behalf of a record ≤ its recorded stake (equal until a validator slash, never more) -/
  le : ∀ a r t, Store.get s.oracles a = some r → Store.get s.deleg (a, r.val) = some t → t ≤ r.amount
  /-- recorded stake = what the oracle transferred to its delegate address -/
  sent : ∀ a r, Store.get s.oracles a = some r → (ghOf s a).sent = r.amount
  /-- off the governance list ⇒ nothing is delegated any more -/
  out : ∀ a r, Store.get s.oracles a = some r → a ∉ s.proposal → Store.get s.deleg (a, r.val) = none

/-- `StakeLeInv` plus: the records of the addresses in `K` (the addresses governance never drops) have a delegation -/
structure LeK (K : Nat → Prop) (s : State) : Prop extends StakeLeInv s where
  ex : ∀ a r, K a → Store.get s.oracles a = some r → ∃ t, Store.get s.deleg (a, r.val) = some t

theorem StakeLeInv.lek (s : State) (hi : StakeLeInv s) : LeK (fun _ => False) s :=
  ⟨hi, fun _ _ hk => hk.elim⟩

/-- the shape of `StakeInv.acc` with `≤`, for the record of an address in `K` -/
theorem LeK.acc {K : Nat → Prop} {s : State} (hi : LeK K s) (a : Nat) (r : Oracle) (hk : K a)
    (hr : Store.get s.oracles a = some r) :
    (∃ t, Store.get s.deleg (a, r.val) = some t ∧ t ≤ r.amount) ∧ (ghOf s a).sent = r.amount := by
  obtain ⟨t, ht⟩ := hi.ex a r hk hr
  exact ⟨⟨t, ht, hi.le a r t hr ht⟩, hi.sent a r hr⟩

/-- states that agree on everything the invariant reads -/
theorem lek_same {K : Nat → Prop} (s t : State) (hi : LeK K s) (ho : t.oracles = s.oracles) (hd : t.deleg = s.deleg)
    (hg : t.gh = s.gh) (hp : t.proposal = s.proposal) : LeK K t := by
  have hgh : ∀ a, ghOf t a = ghOf s a := by intro a; simp [ghOf, hg]
  refine ⟨⟨?_, ?_, ?_, ?_⟩, ?_⟩
  · intro o v x h; rw [hd] at h; rw [ho]; exact hi.own o v x h
  · intro a r x h hx; rw [ho] at h; rw [hd] at hx; exact hi.le a r x h hx
  · intro a r h; rw [ho] at h; rw [hgh]; exact hi.sent a r h
  · intro a r h hn; rw [ho] at h; rw [hp] at hn; rw [hd]; exact hi.out a r h hn
  · intro a r hk h; rw [ho] at h; rw [hd]; exact hi.ex a r hk h

/-- records mapped by a function that keeps amount and validator -/
theorem lek_mapVals {K : Nat → Prop} (s t : State) (g : Oracle → Oracle) (hi : LeK K s)
    (ho : t.oracles = Store.mapVals g s.oracles) (hd : t.deleg = s.deleg) (hg : t.gh = s.gh)
    (hp : t.proposal = s.proposal) (hk : ∀ o, (g o).amount = o.amount ∧ (g o).val = o.val) : LeK K t := by
  have hgh : ∀ a, ghOf t a = ghOf s a := by intro a; simp [ghOf, hg]
  have hrec : ∀ a r, Store.get t.oracles a = some r → ∃ r0, Store.get s.oracles a = some r0 ∧ r = g r0 := by
    intro a r h
    rw [ho, get_mapVals] at h
    cases hr : Store.get s.oracles a with
    | none => rw [hr] at h; simp at h
    | some r0 => rw [hr] at h; simp at h; exact ⟨r0, rfl, h.symm⟩
  refine ⟨⟨?_, ?_, ?_, ?_⟩, ?_⟩
  · intro o v x h; rw [hd] at h
    obtain ⟨r, hr, hv⟩ := hi.own o v x h
    exact ⟨g r, by rw [ho, get_mapVals, hr]; rfl, by rw [(hk r).2]; exact hv⟩
  · intro a r x h hx
    obtain ⟨r0, hr0, e⟩ := hrec a r h
    subst e
    rw [hd, (hk r0).2] at hx
    rw [(hk r0).1]
    exact hi.le a r0 x hr0 hx
  · intro a r h
    obtain ⟨r0, hr0, e⟩ := hrec a r h
    subst e
    rw [hgh, (hk r0).1]
    exact hi.sent a r0 hr0
  · intro a r h hn
    obtain ⟨r0, hr0, e⟩ := hrec a r h
    subst e
    rw [hp] at hn
    rw [hd, (hk r0).2]
    exact hi.out a r0 hr0 hn
  · intro a r hka h
    obtain ⟨r0, hr0, e⟩ := hrec a r h
    subst e
    rw [hd, (hk r0).2]
    exact hi.ex a r0 hka hr0

/-- every delegation replaced by something not larger (and kept as an entry): records, ghosts, list untouched -/
theorem lek_delegShrink {K : Nat → Prop} (s t : State) (f : Nat × Nat → Nat → Nat) (hi : LeK K s)
    (hf : ∀ k x, f k x ≤ x) (hd : ∀ k, Store.get t.deleg k = (Store.get s.deleg k).map (f k))
    (ho : t.oracles = s.oracles) (hg : t.gh = s.gh) (hp : t.proposal = s.proposal) : LeK K t := by
  have hgh : ∀ a, ghOf t a = ghOf s a := by intro a; simp [ghOf, hg]
  have hsome : ∀ k x, Store.get t.deleg k = some x → ∃ y, Store.get s.deleg k = some y ∧ x = f k y := by
    intro k x h
    rw [hd] at h
    cases hy : Store.get s.deleg k with
    | none => rw [hy] at h; simp at h
    | some y => rw [hy] at h; simp at h; exact ⟨y, rfl, h.symm⟩
  refine ⟨⟨?_, ?_, ?_, ?_⟩, ?_⟩
  · intro o v x h
    obtain ⟨y, hy, _⟩ := hsome _ _ h
    rw [ho]; exact hi.own o v y hy
  · intro a r x h hx
    rw [ho] at h
    obtain ⟨y, hy, e⟩ := hsome _ _ hx
    have h1 := hi.le a r y h hy
    have h2 := hf (a, r.val) y
    omega
  · intro a r h; rw [ho] at h; rw [hgh]; exact hi.sent a r h
  · intro a r h hn
    rw [ho] at h; rw [hp] at hn
    rw [hd, hi.out a r h hn]; rfl
  · intro a r hk h
    rw [ho] at h
    obtain ⟨y, hy⟩ := hi.ex a r hk h
    exact ⟨f (a, r.val) y, by rw [hd, hy]; rfl⟩

/-- one record written under address `a`; delegations and ghosts of every OTHER address untouched; the local facts about
address `a` are supplied by the caller -/
theorem lek_update {K : Nat → Prop} (s t : State) (a : Nat) (r' : Oracle) (hi : LeK K s)
    (ho : t.oracles = Store.set s.oracles a r') (hp : t.proposal = s.proposal)
    (hdel : ∀ k : Nat × Nat, k.1 ≠ a → Store.get t.deleg k = Store.get s.deleg k)
    (hgh : ∀ x, x ≠ a → ghOf t x = ghOf s x)
    (hown : ∀ v x, Store.get t.deleg (a, v) = some x → v = r'.val)
    (hle : ∀ x, Store.get t.deleg (a, r'.val) = some x → x ≤ r'.amount)
    (hsent : (ghOf t a).sent = r'.amount)
    (hout : a ∉ s.proposal → Store.get t.deleg (a, r'.val) = none)
    (hex : K a → ∃ x, Store.get t.deleg (a, r'.val) = some x) : LeK K t := by
  refine ⟨⟨?_, ?_, ?_, ?_⟩, ?_⟩
  · intro o v x h
    rw [ho, get_set]
    by_cases e : o = a
    · subst e; simp only [if_true]; exact ⟨r', rfl, (hown v x h).symm⟩
    · simp only [e, if_false]
      rw [hdel (o, v) e] at h
      exact hi.own o v x h
  · intro a' r x hr hx
    rw [ho, get_set] at hr
    by_cases e : a' = a
    · subst e; simp only [if_true] at hr; injection hr with hr; subst hr; exact hle x hx
    · simp only [e, if_false] at hr
      rw [hdel (a', r.val) e] at hx
      exact hi.le a' r x hr hx
  · intro a' r hr
    rw [ho, get_set] at hr
    by_cases e : a' = a
    · subst e; simp only [if_true] at hr; injection hr with hr; subst hr; exact hsent
    · simp only [e, if_false] at hr
      rw [hgh a' e]
      exact hi.sent a' r hr
  · intro a' r hr hn
    rw [ho, get_set] at hr
    rw [hp] at hn
    by_cases e : a' = a
    · subst e; simp only [if_true] at hr; injection hr with hr; subst hr; exact hout hn
    · simp only [e, if_false] at hr
      rw [hdel (a', r.val) e]
      exact hi.out a' r hr hn
  · intro a' r hk hr
    rw [ho, get_set] at hr
    by_cases e : a' = a
    · subst e; simp only [if_true] at hr; injection hr with hr; subst hr; exact hex hk
    · simp only [e, if_false] at hr
      rw [hdel (a', r.val) e]
      exact hi.ex a' r hk hr

/-! ## the governance removal fold keeps the ghost `sent` -/

theorem undelFold_sent : ∀ (l : List Oracle) (s t : State), l.foldl undelStep (some s) = some t →
    ∀ a, (ghOf t a).sent = (ghOf s a).sent := by
  intro l
  induction l with
  | nil => intro s t h a; simp at h; subst h; rfl
  | cons o rest ih =>
    intro s t h a
    simp only [List.foldl_cons] at h
    have hstep : undelStep (some s) o = stakeUndelegateAll s o.addr o.val := rfl
    rw [hstep] at h
    cases hu : stakeUndelegateAll s o.addr o.val with
    | none => rw [hu, fold_none] at h; simp at h
    | some s1 =>
      rw [hu] at h
      obtain ⟨t0, _, _, hgh⟩ := stakeUndelegateAll_char s s1 _ _ hu
      rw [ih s1 t h a]
      by_cases e : a = o.addr
      · subst e; simp [ghOf, hgh, get_set]
      · simp [ghOf, hgh, get_set, e]

/-! ## every op keeps the invariant -/

theorem gov_lek {K : Nat → Prop} (s : State) (l : List Nat)
    (hl : ∀ a, K a → a ∈ s.proposal → Store.has s.oracles a = true → a ∈ l) (hinv : Inv s) (hfit : FitInv s)
    (hi : LeK K s) : LeK K (govUpdate s l).1 := by
  unfold govUpdate
  split
  · exact hi
  · simp only
    split
    · exact hi
    · split
      · exact hi
      · rename_i s2 hfold
        generalize hL : (Store.vals s.oracles).filter (fun o => !l.contains o.addr && s.proposal.contains o.addr) = L at hfold
        have hf := undelegateFold_frame _ _ _ hfold
        have hpf0 := undelegateFold_prop _ _ _ hfold
        have hpf : s2.proposal = l := hpf0
        have hvals : (Store.vals s.oracles).map (·.addr) = s.oracles.map (·.1) := by
          simp only [Store.vals, List.map_map]
          apply List.map_congr_left
          intro p hp
          exact hfit.key p hp
        have hnd : (L.map (·.addr)).Nodup := by
          rw [← hL]
          exact List.Nodup.sublist (List.Sublist.map _ List.filter_sublist) (by rw [hvals]; exact hfit.nodup)
        have hfold' : L.foldl undelStep (some { s with proposal := l }) = some s2 := hfold
        obtain ⟨cb, _, _⟩ := undelFold_char L _ s2 hfold' hnd
        have hsent := undelFold_sent L _ s2 hfold'
        have memL : ∀ a r, Store.get s.oracles a = some r → (r ∈ L ↔ (a ∉ l ∧ a ∈ s.proposal)) := by
          intro a r hr
          have hk : r.addr = a := hinv.reg.key a r hr
          rw [← hL, List.mem_filter]
          constructor
          · intro h; simpa [hk] using h.2
          · intro h; exact ⟨mem_vals_of_get _ _ _ hr, by simpa [hk] using h⟩
        have offL : ∀ o ∈ L, o.addr ∉ l ∧ o.addr ∈ s.proposal := by
          intro o ho
          rw [← hL] at ho
          have := (List.mem_filter.mp ho).2
          simp only [Bool.and_eq_true, Bool.not_eq_true', List.contains_eq_mem, decide_eq_false_iff_not,
            decide_eq_true_eq] at this
          exact this
        have hi2 : LeK K s2 := by
          refine ⟨⟨?_, ?_, ?_, ?_⟩, ?_⟩
          · intro o v x h
            rw [cb] at h
            split at h
            · simp at h
            · rw [hf.1]; exact hi.own o v x h
          · intro a r x hr hx
            rw [hf.1] at hr
            have hr' : Store.get s.oracles a = some r := hr
            rw [cb] at hx
            split at hx
            · simp at hx
            · exact hi.le a r x hr' hx
          · intro a r hr
            rw [hf.1] at hr
            have hr' : Store.get s.oracles a = some r := hr
            rw [hsent a]
            exact hi.sent a r hr'
          · intro a r hr hn
            rw [hf.1] at hr
            have hr' : Store.get s.oracles a = some r := hr
            rw [hpf] at hn
            rw [cb]
            split
            · rfl
            · by_cases hp : a ∈ s.proposal
              · exfalso
                rename_i hany
                have hin : r ∈ L := (memL a r hr').mpr ⟨hn, hp⟩
                apply hany
                rw [List.any_eq_true]
                exact ⟨r, hin, by simp [hinv.reg.key a r hr']⟩
              · exact hi.out a r hr' hp
          · intro a r hk hr
            rw [hf.1] at hr
            have hr' : Store.get s.oracles a = some r := hr
            rw [cb]
            have : L.any (fun o => (o.addr, o.val) == (a, r.val)) = false := by
              rw [List.any_eq_false]
              intro o ho hc
              have hoa : o.addr = a := (by simpa using hc : o.addr = a ∧ o.val = r.val).1
              obtain ⟨h1, h2⟩ := offL o ho
              rw [hoa] at h1 h2
              exact h1 (hl a hk h2 (by simp [Store.has, hr']))
            simp only [this, Bool.false_eq_true, if_false]
            exact hi.ex a r hk hr'
        exact lek_mapVals s2 _ (fun o => if (!l.contains o.addr && s.proposal.contains o.addr) = true
            then { o with online := false } else o) hi2 rfl rfl rfl rfl (by intro o; split <;> exact ⟨rfl, rfl⟩)

theorem bond_lek {K : Nat → Prop} (hc : GuardCodeOk) (s : State) (o b e v amt : Nat) (hi : LeK K s) :
    LeK K (bond s o b e v amt).1 := by
  obtain ⟨g1, g2, g3, g4, g5, g6, _⟩ := hc
  unfold bond
  simp only [g1, g2, g3, g4, g5, g6, Bool.true_and]
  split
  · exact hi
  · rename_i hprop
    split
    · exact hi
    · rename_i hnone
      split
      · exact hi
      · split
        · exact hi
        · split
          · exact hi
          · split
            · exact hi
            · split
              · exact hi
              · split
                · exact hi
                · rename_i s2 hs2
                  have hno : Store.get s.oracles o = none := by simpa [Store.has] using hnone
                  have hin : o ∈ s.proposal := by simpa using hprop
                  have hf := stakeDelegate_frame _ _ _ _ _ hs2
                  have hpf0 := stakeDelegate_prop _ _ _ _ _ hs2
                  have hpf : s2.proposal = s.proposal := hpf0
                  obtain ⟨hd, hg⟩ := stakeDelegate_char _ _ _ _ _ hs2
                  have hnone' : ∀ v', Store.get s.deleg (o, v') = none := by
                    intro v'
                    cases h : Store.get s.deleg (o, v') with
                    | none => rfl
                    | some x => obtain ⟨r, hr, _⟩ := hi.own o v' x h; rw [hno] at hr; simp at hr
                  have hd' : s2.deleg = Store.set s.deleg (o, v) amt := by
                    rw [hd]; show Store.set s.deleg (o, v) ((Store.get s.deleg (o, v)).getD 0 + amt) = _
                    rw [hnone' v]; simp
                  have hg' : s2.gh = s.gh := hg
                  refine lek_update s _ o ⟨o, b, e, amt, s.height, true, v, 0⟩ hi (by simp only [refreshPower, hf.1]) hpf
                    ?_ ?_ ?_ ?_ ?_ ?_ ?_
                  · intro k hk
                    simp only [refreshPower]
                    rw [hd', get_set]
                    have : ¬ k = (o, v) := by intro e'; apply hk; rw [e']
                    simp [this]
                  · intro x hx
                    simp only [refreshPower, ghOf]
                    rw [ghOf_set_ne _ _ _ _ hx, hg']
                  · intro v' x h
                    simp only [refreshPower] at h
                    rw [hd', get_set] at h
                    by_cases e' : (o, v') = (o, v)
                    · injection e' with _ e2
                    · simp only [e', if_false] at h
                      rw [hnone' v'] at h; simp at h
                  · intro x hx
                    simp only [refreshPower] at hx
                    rw [hd', get_set] at hx
                    simp only [if_true] at hx
                    injection hx with hx
                    simp only [← hx]; exact Nat.le_refl _
                  · simp only [refreshPower, ghOf]
                    rw [get_set]
                    simp
                  · intro hn; exact absurd hin hn
                  · intro _
                    simp only [refreshPower]
                    rw [hd', get_set]
                    exact ⟨amt, by simp⟩

theorem add_lek {K : Nat → Prop} (hc : GuardCodeOk) (s : State) (o amt : Nat) (hi : LeK K s) :
    LeK K (addDelegate s o amt).1 := by
  have hre := reactivate_eq hc
  obtain ⟨_, _, _, _, _, _, _, a1, a2, a3, a4, _⟩ := hc
  unfold addDelegate
  simp only [a1, a2, a3, a4, Bool.true_and, hre]
  split
  · exact hi
  · rename_i hprop
    split
    · exact hi
    · rename_i r hr
      try simp only
      split
      · exact hi
      · split
        · exact hi
        · split
          · exact hi
          · split
            · exact hi
            · split
              · exact hi
              · rename_i s2 hs2
                have hin : o ∈ s.proposal := by simpa using hprop
                let r' : Oracle := { r with amount := r.amount + (amt - slashAmount s.p r), online := true, startHeight := (if r.online then r.startHeight else s.height), slashTimes := 0 }
                have hown0 : ∀ v' x, Store.get s.deleg (o, v') = some x → v' = r.val := by
                  intro v' x h
                  obtain ⟨r0, hr0, hv⟩ := hi.own o v' x h
                  rw [hr] at hr0; injection hr0 with e'; rw [e']; exact hv.symm
                have hs0 : ((Store.get s.gh o).getD {}).sent = r.amount := hi.sent o r hr
                by_cases hpos : amt - slashAmount s.p r > 0
                · rw [if_pos hpos] at hs2
                  have hf := stakeDelegate_frame _ _ _ _ _ hs2
                  have hpf0 := stakeDelegate_prop _ _ _ _ _ hs2
                  have hpf : s2.proposal = s.proposal := hpf0
                  obtain ⟨hd, hg⟩ := stakeDelegate_char _ _ _ _ _ hs2
                  have hd' : s2.deleg = Store.set s.deleg (o, r.val) ((Store.get s.deleg (o, r.val)).getD 0 + (amt - slashAmount s.p r)) := hd
                  have hg' : s2.gh = s.gh := hg
                  have hold : (Store.get s.deleg (o, r.val)).getD 0 ≤ r.amount := by
                    cases h : Store.get s.deleg (o, r.val) with
                    | none => simp
                    | some x => simpa using hi.le o r x hr h
                  refine lek_update s _ o r' hi (by simp only [refreshPower, hf.1]; rfl) hpf ?_ ?_ ?_ ?_ ?_ ?_ ?_
                  · intro k hk
                    simp only [refreshPower]
                    rw [hd', get_set]
                    have : ¬ k = (o, r.val) := by intro e'; apply hk; rw [e']
                    simp [this]
                  · intro x hx
                    simp only [refreshPower, ghOf]
                    rw [ghOf_set_ne _ _ _ _ hx, hg']
                  · intro v' x h
                    simp only [refreshPower] at h
                    rw [hd', get_set] at h
                    by_cases e' : (o, v') = (o, r.val)
                    · injection e' with _ e2
                    · simp only [e', if_false] at h
                      exact absurd (hown0 v' x h) (by intro e2; apply e'; rw [e2])
                  · intro x hx
                    simp only [refreshPower] at hx
                    have hx' : Store.get s2.deleg (o, r.val) = some x := hx
                    rw [hd', get_set] at hx'
                    simp only [if_true] at hx'
                    injection hx' with hx'
                    show x ≤ r.amount + (amt - slashAmount s.p r)
                    omega
                  · simp only [refreshPower, ghOf]
                    rw [get_set]
                    simp only [if_true, Option.getD_some]
                    rw [hg']
                    show ((Store.get s.gh o).getD {}).sent + (amt - slashAmount s.p r) = r.amount + (amt - slashAmount s.p r)
                    rw [hs0]
                  · intro hn; exact absurd hin hn
                  · intro _
                    simp only [refreshPower]
                    show ∃ x, Store.get s2.deleg (o, r.val) = some x
                    rw [hd', get_set, if_pos rfl]
                    exact ⟨_, rfl⟩
                · rw [if_neg hpos] at hs2
                  injection hs2 with hs2; subst hs2
                  have hz : amt - slashAmount s.p r = 0 := by omega
                  refine lek_update s _ o r' hi (by simp only [refreshPower]; rfl) rfl ?_ ?_ ?_ ?_ ?_ ?_ ?_
                  · intro k _; rfl
                  · intro x hx
                    simp only [refreshPower, ghOf]
                    rw [ghOf_set_ne _ _ _ _ hx]
                  · intro v' x h; exact hown0 v' x h
                  · intro x hx
                    have := hi.le o r x hr hx
                    show x ≤ r.amount + (amt - slashAmount s.p r)
                    omega
                  · simp only [refreshPower, ghOf]
                    rw [get_set]
                    simp only [if_true, Option.getD_some]
                    show ((Store.get s.gh o).getD {}).sent + (amt - slashAmount s.p r) = r.amount + (amt - slashAmount s.p r)
                    rw [hs0]
                  · intro hn; exact absurd hin hn
                  · intro hk; exact hi.ex o r hk hr

theorem redel_lek {K : Nat → Prop} (s : State) (o v : Nat) (hfit : FitInv s) (hi : LeK K s) :
    LeK K (reDelegate s o v).1 := by
  unfold reDelegate
  split
  · exact hi
  · rename_i r hr
    split
    · exact hi
    · rename_i hon
      split
      · exact hi
      · split
        · exact hi
        · rename_i s1 hs1
          have hf := stakeRedelegateAll_frame _ _ _ _ _ hs1
          have hpf0 := stakeRedelegateAll_prop _ _ _ _ _ hs1
          have hpf : s1.proposal = s.proposal := hpf0
          obtain ⟨t0, hd0, hne, hd, hg⟩ := stakeRedelegateAll_char _ _ _ _ _ hs1
          have hown0 : ∀ v' x, Store.get s.deleg (o, v') = some x → v' = r.val := by
            intro v' x h
            obtain ⟨r0, hr0, hv⟩ := hi.own o v' x h
            rw [hr] at hr0; injection hr0 with e'; rw [e']; exact hv.symm
          have hdst : Store.get s.deleg (o, v) = none := by
            cases h : Store.get s.deleg (o, v) with
            | none => rfl
            | some x => exact absurd (hown0 v x h) (fun e => hne e.symm)
          have hd' : s1.deleg = Store.set (Store.erase s.deleg (o, r.val)) (o, v) t0 := by
            rw [hd, hdst]; simp
          have honl : r.online = true := by simpa using hon
          have hin : o ∈ s.proposal := hfit.onl (o, r) (mem_of_get _ _ _ hr) honl
          refine lek_update s _ o { r with val := v } hi (by simp only [hf.1]) hpf ?_ ?_ ?_ ?_ ?_ ?_ ?_
          · intro k hk
            simp only
            rw [hd', get_set, get_erase]
            have h1 : ¬ k = (o, v) := by intro e'; apply hk; rw [e']
            have h2 : ¬ k = (o, r.val) := by intro e'; apply hk; rw [e']
            simp [h1, h2]
          · intro x _
            simp only [ghOf, hg]
          · intro v' x h
            simp only at h
            rw [hd', get_set, get_erase] at h
            by_cases e' : (o, v') = (o, v)
            · injection e' with _ e2
            · simp only [e', if_false] at h
              split at h
              · simp at h
              · rename_i hne2
                exact absurd (hown0 v' x h) (by intro e2; apply hne2; rw [e2])
          · intro x hx
            simp only at hx
            rw [hd', get_set] at hx
            simp only [if_true] at hx
            injection hx with hx
            have := hi.le o r t0 hr hd0
            show x ≤ r.amount
            omega
          · simp only [ghOf, hg]
            exact hi.sent o r hr
          · intro hn; exact absurd hin hn
          · intro _
            simp only
            rw [hd', get_set]
            exact ⟨t0, by simp⟩

theorem editb_lek {K : Nat → Prop} (s : State) (o b : Nat) (hi : LeK K s) : LeK K (editBridger s o b).1 := by
  unfold editBridger
  split
  · exact hi
  · rename_i r hr
    split
    · exact hi
    · split
      · exact hi
      · split
        · exact hi
        · have hown0 : ∀ v' x, Store.get s.deleg (o, v') = some x → v' = r.val := by
            intro v' x h
            obtain ⟨r0, hr0, hv⟩ := hi.own o v' x h
            rw [hr] at hr0; injection hr0 with e'; rw [e']; exact hv.symm
          exact lek_update s _ o { r with bridger := b } hi rfl rfl (fun _ _ => rfl) (fun _ _ => rfl) hown0
            (fun x hx => hi.le o r x hr hx) (hi.sent o r hr) (fun hn => hi.out o r hr hn) (fun hk => hi.ex o r hk hr)

theorem withdraw_lek {K : Nat → Prop} (s : State) (o : Nat) (hi : LeK K s) : LeK K (withdrawReward s o).1 := by
  unfold withdrawReward
  split
  · exact hi
  · split
    · exact hi
    · split
      · exact hi
      · split
        · exact hi
        · exact lek_same s _ hi rfl rfl rfl rfl

theorem unbond_lek {K : Nat → Prop} (s : State) (o : Nat) (hi : LeK K s) : LeK K (unbond s o).1 := by
  unfold unbond
  split
  · exact hi
  · rename_i hprop
    split
    · exact hi
    · rename_i r hr
      split
      · exact hi
      · simp only
        split
        · exact hi
        · split
          · exact hi
          · have hn : o ∉ s.proposal := by simpa using hprop
            have hnone : ∀ v', Store.get s.deleg (o, v') = none := by
              intro v'
              cases h : Store.get s.deleg (o, v') with
              | none => rfl
              | some x =>
                obtain ⟨r0, hr0, hv⟩ := hi.own o v' x h
                rw [hr] at hr0; injection hr0 with e'
                have := hi.out o r hr hn
                rw [e', hv] at this; rw [this] at h; simp at h
            have hrec : ∀ a r0, (if a = o then none else Store.get s.oracles a) = some r0 →
                a ≠ o ∧ Store.get s.oracles a = some r0 := by
              intro a r0 h
              by_cases e : a = o
              · simp [e] at h
              · simp only [e, if_false] at h; exact ⟨e, h⟩
            refine ⟨⟨?_, ?_, ?_, ?_⟩, ?_⟩
            · intro o' v' x h
              simp only at h ⊢
              have : o' ≠ o := by intro e; subst e; rw [hnone v'] at h; simp at h
              rw [get_erase]; simp only [this, if_false]
              exact hi.own o' v' x h
            · intro a r0 x hr0 hx
              simp only at hr0 hx
              rw [get_erase] at hr0
              obtain ⟨_, hr0⟩ := hrec a r0 hr0
              exact hi.le a r0 x hr0 hx
            · intro a r0 hr0
              simp only at hr0 ⊢
              rw [get_erase] at hr0
              obtain ⟨e, hr0⟩ := hrec a r0 hr0
              have hg : ghOf { s with burned := s.burned + slashAmount s.p r, dbal := Store.set s.dbal o 0, bal := Store.set s.bal o (getBal s.bal o + (getBal s.dbal o - slashAmount s.p r)), byExt := Store.erase s.byExt r.ext, byBridger := Store.erase s.byBridger r.bridger, oracles := Store.erase s.oracles o, gh := Store.erase s.gh o } a = ghOf s a := by
                simp [ghOf, get_erase, e]
              rw [hg]
              exact hi.sent a r0 hr0
            · intro a r0 hr0 hn0
              simp only at hr0 hn0 ⊢
              rw [get_erase] at hr0
              obtain ⟨_, hr0⟩ := hrec a r0 hr0
              exact hi.out a r0 hr0 hn0
            · intro a r0 hk hr0
              simp only at hr0 ⊢
              rw [get_erase] at hr0
              obtain ⟨_, hr0⟩ := hrec a r0 hr0
              exact hi.ex a r0 hk hr0

theorem confirm_lek {K : Nat → Prop} (s : State) (k : Kind) (n e b : Nat) (sg : Bool) (hi : LeK K s) :
    LeK K (confirm s k n e b sg).1 := by
  unfold confirm
  split
  · exact hi
  · split
    · exact hi
    · split
      · exact hi
      · split
        · exact hi
        · split
          · exact hi
          · split
            · exact hi
            · split
              · exact hi
              · cases k <;> exact lek_same s _ hi rfl rfl rfl rfl

theorem block_lek {K : Nat → Prop} (hcode : SlashCodeOk) (s : State) (dt : Nat) (hi : LeK K s) : LeK K (block s dt).1 := by
  unfold block
  split
  · exact hi
  · rename_i s1 he
    obtain ⟨hc, g, hg, hrel⟩ := endBlock_rel hcode s s.height s1 he
    have h1 : LeK K s1 := lek_mapVals s s1 g hi hg hc.dl hc.gh hc.pr
      (fun o => ⟨(hrel o).2.2.2.1, (hrel o).2.2.2.2.2.1⟩)
    exact lek_same s1 _ h1 rfl rfl rfl rfl

/-! ## the validator slash -/

/-- lookup after a map that keeps every key -/
theorem get_mapKey {κ α : Type} [DecidableEq κ] (F : κ × α → κ × α) (f : κ → α → α)
    (hF : ∀ p, F p = (p.1, f p.1 p.2)) (d : Store κ α) (k : κ) :
    Store.get (d.map F) k = (Store.get d k).map (f k) := by
  have hFe : F = fun p => (p.1, f p.1 p.2) := funext hF
  subst hFe
  unfold Store.get
  induction d with
  | nil => rfl
  | cons p rest ih =>
    by_cases hp : p.1 = k
    · simp [hp]
    · have hb : (p.1 == k) = false := by simpa using hp
      simp only [List.map_cons, List.find?_cons, hb]
      exact ih

/-- lookup in the delegation store after a validator slash -/
theorem get_slashMap (d : Store (Nat × Nat) Nat) (v num den : Nat) (k : Nat × Nat) :
    Store.get (d.map (fun p => if p.1.2 == v then (p.1, p.2 * (den - num) / den) else p)) k =
      (Store.get d k).map (fun x => if k.2 == v then x * (den - num) / den else x) :=
  get_mapKey _ (fun k x => if k.2 == v then x * (den - num) / den else x) (by intro p; split <;> rfl) d k

theorem valslash_lek {K : Nat → Prop} (s : State) (v num den : Nat) (hi : LeK K s) : LeK K (valSlash s v num den).1 := by
  unfold valSlash
  split
  · exact hi
  · refine lek_delegShrink s _ (fun k x => if k.2 == v then x * (den - num) / den else x) hi ?_ ?_ rfl rfl rfl
    · intro k x
      split
      · exact Nat.div_le_of_le_mul (by rw [Nat.mul_comm den x]; exact Nat.mul_le_mul_left x (Nat.sub_le den num))
      · exact Nat.le_refl x
    · intro k
      exact get_slashMap s.deleg v num den k

/-! ## all ops -/

/-- the op is a governance update that REMOVES the record of `a`: `a` is on the list, has a record, and is not on the
new list (exactly the records `UpdateProposalOracles` undelegates) -/
def removes (a : Nat) (s : State) : Op → Bool
  | .gov l => s.proposal.contains a && Store.has s.oracles a && !l.contains a
  | _ => false

/-- along the op list, starting from `s`, governance never removes the record of `a` -/
def neverRemoved (a : Nat) : State → List Op → Bool
  | _, [] => true
  | s, op :: ops => !removes a s op && neverRemoved a (step s op).1 ops

/-- a simple sufficient condition: every governance update of the history has `a` on its list -/
theorem neverRemoved_of_listed (a : Nat) : ∀ (ops : List Op) (s : State), (∀ l, Op.gov l ∈ ops → a ∈ l) →
    neverRemoved a s ops = true := by
  intro ops
  induction ops with
  | nil => intro _ _; rfl
  | cons op ops ih =>
    intro s h
    simp only [neverRemoved, Bool.and_eq_true, Bool.not_eq_true']
    refine ⟨?_, ih _ (fun l hl => h l (List.mem_cons_of_mem _ hl))⟩
    cases op with
    | gov l => have := h l List.mem_cons_self; simp [removes, this]
    | _ => rfl

theorem step_lek {K : Nat → Prop} (hs : SlashCodeOk) (hg : GuardCodeOk) (s : State) (op : Op)
    (hop : ∀ a, K a → removes a s op = false) (hinv : Inv s) (hfit : FitInv s) (hi : LeK K s) : LeK K (step s op).1 := by
  cases op with
  | gov l =>
    refine gov_lek s l ?_ hinv hfit hi
    intro a hk h1 h2
    have := hop a hk
    simp only [removes, List.contains_eq_mem, h1, h2, decide_true, Bool.true_and, Bool.not_eq_false',
      decide_eq_true_eq] at this
    exact this
  | bond o b e v amt => exact bond_lek hg s o b e v amt hi
  | add o amt => exact add_lek hg s o amt hi
  | redel o v => exact redel_lek s o v hfit hi
  | editb o b => exact editb_lek s o b hi
  | withdraw o => exact withdraw_lek s o hi
  | fund o amt => exact lek_same s _ hi rfl rfl rfl rfl
  | mint o amt => exact lek_same s _ hi rfl rfl rfl rfl
  | tick dt => exact lek_same s _ hi rfl rfl rfl rfl
  | unbond o => exact unbond_lek s o hi
  | mkbatch => simp only [step, mkBatch]; split <;> first | exact hi | exact lek_same s _ hi rfl rfl rfl rfl
  | mkcall => exact lek_same s _ hi rfl rfl rfl rfl
  | conf k n e b sg => exact confirm_lek s k n e b sg hi
  | observe n => simp only [step, observe]; repeat' split
                 all_goals first | exact hi | exact lek_same s _ hi rfl rfl rfl rfl
  | event bs bcs cs obs => exact lek_same s _ hi rfl rfl rfl rfl
  | block dt => exact block_lek hs s dt hi
  | valslash v num den => exact valslash_lek s v num den hi

/-- **every op, validator slash included, keeps `StakeLeInv`** (no hypothesis on the threshold is needed) -/
theorem step_stakeLe (hs : SlashCodeOk) (hg : GuardCodeOk) (s : State) (op : Op)
    (hinv : Inv s) (hfit : FitInv s) (hi : StakeLeInv s) : StakeLeInv (step s op).1 :=
  (step_lek (K := fun _ => False) hs hg s op (fun _ hk => hk.elim) hinv hfit hi.lek).toStakeLeInv

theorem init_lek (K : Nat → Prop) (p : Params) (bals : Store Nat Nat) : LeK K (init p bals) := by
  refine ⟨⟨?_, ?_, ?_, ?_⟩, ?_⟩ <;> simp [init, Store.get, ghOf]

theorem init_stakeLe (p : Params) (bals : Store Nat Nat) : StakeLeInv (init p bals) :=
  (init_lek (fun _ => False) p bals).toStakeLeInv

/-- **`StakeLeInv` holds along every op list** -/
theorem run_stakeLe (hs : SlashCodeOk) (hg : GuardCodeOk) : ∀ (ops : List Op) (s : State),
    Inv s → FitInv s → StakeLeInv s → StakeLeInv (run s ops) := by
  intro ops
  induction ops with
  | nil => intro s _ _ hi; exact hi
  | cons op ops ih =>
    intro s hinv hfit hi
    exact ih _ (step_inv hs hg s op hinv) (step_fit hs hg s op hfit) (step_stakeLe hs hg s op hinv hfit hi)

/-- … and while governance never removes the record of `a`, its delegation EXISTS (possibly with 0 tokens after slashes) -/
theorem run_lek (hs : SlashCodeOk) (hg : GuardCodeOk) (a : Nat) : ∀ (ops : List Op) (s : State),
    neverRemoved a s ops = true → Inv s → FitInv s → LeK (· = a) s → LeK (· = a) (run s ops) := by
  intro ops
  induction ops with
  | nil => intro s _ _ _ hi; exact hi
  | cons op ops ih =>
    intro s hops hinv hfit hi
    simp only [neverRemoved, Bool.and_eq_true, Bool.not_eq_true'] at hops
    exact ih _ hops.2 (step_inv hs hg s op hinv) (step_fit hs hg s op hfit)
      (step_lek hs hg s op (fun x hx => by subst hx; exact hops.1) hinv hfit hi)

end FxVerif.Proofs.C13
