import FxVerif.Model.C16Sem
/-!
# C16 — soundness of the decision procedures of `Model/C16Sem.lean` (core Lean only)

* `atomsWith_sound` … `guardCmp_sound`: the normal form of a guard condition is its meaning;
* `protectedAt_sound`: a protected implementation rejects every authority that is not related to the keeper's authority,
  with the state unchanged, whatever the rest of the code does;
* `fold_decodable_exact`: a string that bech32-decodes and case-folds to a lower-case ASCII string is that string or its
  upper-case form.
-/
namespace FxVerif.Model.C16

theorem relK_comm (cfg : AddrCfg) (c : CmpK) (a b : Str) : relK cfg c a b = relK cfg c b a := by
  cases c <;> simp only [relK, foldEq] <;>
    exact Bool.eq_iff_iff.mpr ⟨fun h => beq_iff_eq.mpr (beq_iff_eq.mp h).symm, fun h => beq_iff_eq.mpr (beq_iff_eq.mp h).symm⟩

/-- value of an atom list under a polarity -/
def satB (env : Env) (auth : Str) (p : Bool) (as : List Atom) : Bool :=
  if p then as.any (fun a => a.holds env auth) else !(as.any (fun a => a.holds env auth))

theorem satB_not (env : Env) (auth : Str) (p : Bool) (as : List Atom) :
    satB env auth (!p) as = !(satB env auth p as) := by
  cases p <;> simp [satB]

theorem mkAtom_holds (env : Env) (auth : Str) (c : CmpK) (a b : SExpr) :
    (mkAtom c a b).holds env auth = relK env.cfg c (evalS env auth a) (evalS env auth b) := by
  unfold mkAtom
  by_cases h : isGovPair a b = true
  · simp only [h, ↓reduceIte, Atom.holds]
    simp only [isGovPair, Bool.or_eq_true, Bool.and_eq_true, beq_iff_eq] at h
    rcases h with ⟨rfl, rfl⟩ | ⟨rfl, rfl⟩
    · simp [evalS]
    · simp only [evalS]; exact relK_comm _ _ _ _
  · simp [h, Atom.holds]

theorem atomsWith_sound (env : Env) (auth : Str) (cv : String → List SExpr → Bool)
    (ca : Bool → String → List SExpr → Option (List Atom))
    (hcall : ∀ p h args as, ca p h args = some as → cv h args = satB env auth p as) :
    ∀ (b : BExpr) (p : Bool) (as : List Atom), atomsWith ca p b = some as →
      evalBWith env auth cv b = satB env auth p as := by
  intro b
  induction b with
  | ne a b =>
    intro p as h
    cases p <;> simp [atomsWith] at h
    subst h; simp [evalBWith, satB, mkAtom_holds]
  | eq a b =>
    intro p as h
    cases p <;> simp [atomsWith] at h
    subst h; simp [evalBWith, satB, mkAtom_holds]
  | equalFold a b =>
    intro p as h
    cases p <;> simp [atomsWith] at h
    subst h; simp [evalBWith, satB, mkAtom_holds]
  | addrEq a b =>
    intro p as h
    cases p <;> simp [atomsWith] at h
    subst h; simp [evalBWith, satB, mkAtom_holds]
  | not x ih =>
    intro p as h
    have h' : atomsWith ca (!p) x = some as := by cases p <;> simpa [atomsWith] using h
    have := ih (!p) as h'
    simp only [evalBWith, this, satB_not, Bool.not_not]
  | and x y ihx ihy =>
    intro p as h
    cases p with
    | true => simp [atomsWith] at h
    | false =>
      simp only [atomsWith] at h
      cases hx : atomsWith ca false x with
      | none => simp [hx] at h
      | some xs =>
        cases hy : atomsWith ca false y with
        | none => simp [hx, hy] at h
        | some ys =>
          simp only [hx, hy, Option.some.injEq] at h
          subst h
          simp only [evalBWith, ihx false xs hx, ihy false ys hy, satB, Bool.false_eq_true, ↓reduceIte, List.any_append,
            Bool.not_or]
  | or x y ihx ihy =>
    intro p as h
    cases p with
    | false => simp [atomsWith] at h
    | true =>
      simp only [atomsWith] at h
      cases hx : atomsWith ca true x with
      | none => simp [hx] at h
      | some xs =>
        cases hy : atomsWith ca true y with
        | none => simp [hx, hy] at h
        | some ys =>
          simp only [hx, hy, Option.some.injEq] at h
          subst h
          simp only [evalBWith, ihx true xs hx, ihy true ys hy, satB, ↓reduceIte, List.any_append]
  | call hname args =>
    intro p as h
    have h' : ca p hname args = some as := by cases p <;> simpa [atomsWith] using h
    simp only [evalBWith, hcall p hname args as h']
  | other i s =>
    intro p as h
    cases p <;> simp [atomsWith] at h
  | decEq d a b =>
    intro p as h
    cases p <;> simp [atomsWith] at h
    subst h; simp [evalBWith, satB, mkAtom_holds]
  | decodes d a =>
    intro p as h
    cases p <;> simp [atomsWith] at h

theorem atoms0_sound (env : Env) (auth : Str) (b : BExpr) (p : Bool) (as : List Atom)
    (h : atoms0 p b = some as) : evalB0 env auth b = satB env auth p as :=
  atomsWith_sound env auth _ _ (by intro p h args as hh; simp at hh) b p as h

theorem helperAtoms_sound (env : Env) (auth : Str) (p : Bool) (body : List HStmt) (as : List Atom)
    (h : helperAtoms p body = some as) : helperVal env auth false body = satB env auth p as := by
  unfold helperAtoms at h
  split at h
  · rename_i c
    simp only [helperVal, atoms0_sound env auth c p as h]
    cases satB env auth p as <;> rfl
  · rename_i c
    have := atoms0_sound env auth c (!p) as h
    simp only [helperVal, this, satB_not]
    cases satB env auth p as <;> rfl
  · rename_i c
    simp only [helperVal, atoms0_sound env auth c p as h]
  · rename_i c
    simp only [helperVal, atoms0_sound env auth c p as h]
    cases satB env auth p as <;> rfl
  · simp at h

theorem callAtoms_sound (hs : List Helper) (env : Env) (auth : Str) (p : Bool) (h : String) (args : List SExpr)
    (as : List Atom) (hh : callAtoms hs p h args = some as) : callVal hs env auth h args = satB env auth p as := by
  unfold callAtoms at hh
  unfold callVal
  cases hf : findHelper hs h with
  | none => simp [hf] at hh
  | some hp =>
    simp only [hf] at hh ⊢
    exact helperAtoms_sound env auth p _ as hh

theorem atoms_sound (hs : List Helper) (env : Env) (auth : Str) (b : BExpr) (p : Bool) (as : List Atom)
    (h : atoms hs p b = some as) : evalB hs env auth b = satB env auth p as :=
  atomsWith_sound env auth _ _ (fun p hn args as hh => callAtoms_sound hs env auth p hn args as hh) b p as h

/-- the meaning of a recognised authority guard: it rejects exactly the authorities that are not `c`-related to the
keeper's authority -/
theorem guardCmp_sound (hs : List Helper) (env : Env) (auth : Str) (g : BExpr) (c : CmpK)
    (h : guardCmp hs g = some c) : evalB hs env auth g = !(relK env.cfg c env.gov auth) := by
  unfold guardCmp at h
  split at h
  · rename_i c' heq
    simp only [Option.some.injEq] at h
    subst h
    simp [atoms_sound hs env auth g false _ heq, satB, Atom.holds]
  · simp at h

/-! ## execution -/

theorem protectedBody_sound {σ : Type} (hs : List Helper) (env : Env) (auth : Str) (W : World σ) (T m : String)
    (call : String → String → σ → Res × σ) (chk : String → String → Option CmpK) (c : CmpK)
    (hrel : relK env.cfg c env.gov auth = false)
    (hchk : ∀ T' m' s, chk T' m' = some c → call T' m' s = (.err, s)) :
    ∀ (body : List Stmt) (s : σ), protectedBody hs chk body = some c →
      execBody hs env auth W T m call body s = (.err, s) := by
  intro body
  induction body with
  | nil => intro s h; simp [protectedBody] at h
  | cons st rest ih =>
    intro s h
    cases st with
    | rejectIf g =>
      simp only [protectedBody] at h
      cases hg : guardCmp hs g with
      | some c' =>
        simp only [hg, Option.some.injEq] at h
        subst h
        simp [execBody, guardCmp_sound hs env auth g c' hg, hrel]
      | none =>
        simp only [hg] at h
        by_cases hp : pureB g = true
        · simp only [hp, ↓reduceIte] at h
          simp only [execBody]
          split
          · rfl
          · exact ih s h
        · simp [hp] at h
    | nop src =>
      simp only [protectedBody] at h
      simp only [execBody]
      exact ih s h
    | work id src => simp [protectedBody] at h
    | ensureModuleAcc n src => simp [protectedBody] at h
    | forward needRoute targets m' =>
      simp only [protectedBody] at h
      cases targets with
      | nil => simp at h
      | cons T0 ts =>
        simp only at h
        cases h0 : chk T0 m' with
        | none => simp [h0] at h
        | some c0 =>
          simp only [h0] at h
          split at h
          · rename_i hall
            simp only [Option.some.injEq] at h
            subst h
            simp only [execBody]
            by_cases hr : (needRoute && !W.routeOk) = true
            · simp [hr]
            · simp only [hr, Bool.false_eq_true, ↓reduceIte]
              have hlt : W.pick % (T0 :: ts).length < (T0 :: ts).length := Nat.mod_lt _ (by simp)
              rw [List.getElem?_eq_getElem hlt]
              simp only
              apply hchk
              have hmem : (T0 :: ts)[W.pick % (T0 :: ts).length] ∈ T0 :: ts := List.getElem_mem hlt
              rcases List.mem_cons.mp hmem with heq | hin
              · rw [heq]; exact h0
              · have := List.all_eq_true.mp hall _ hin
                simpa using this
          · simp at h

/-- a protected implementation rejects every authority that is not related (in the way its guard compares) to the
keeper's authority and leaves the state untouched — for every world: whatever the rest of any handler does, whichever
route exists, whichever of the possible forward targets is the dynamic type -/
theorem protectedAt_sound {σ : Type} (P : Program) (env : Env) (auth : Str) (W : World σ) (c : CmpK)
    (hrel : relK env.cfg c env.gov auth = false) :
    ∀ (f : Nat) (T m : String) (s : σ), protectedAt P f T m = some c → exec P env auth W f T m s = (.err, s) := by
  intro f
  induction f with
  | zero => intro T m s h; simp [protectedAt] at h
  | succ f ih =>
    intro T m s h
    simp only [protectedAt] at h
    simp only [exec]
    cases hr : resolve P T m with
    | none => simp [hr] at h
    | some impl =>
      simp only [hr] at h ⊢
      exact protectedBody_sound P.helpers env auth W impl.recv impl.method (exec P env auth W f) (protectedAt P f) c hrel
        (fun T' m' s' hh => ih T' m' s' hh) impl.body s h

/-- a body that starts with an authority guard lets a related authority through to the rest of the body -/
theorem guard_passes {σ : Type} (hs : List Helper) (env : Env) (auth : Str) (W : World σ) (T m : String)
    (call : String → String → σ → Res × σ) (g : BExpr) (rest : List Stmt) (c : CmpK) (s : σ)
    (h : guardCmp hs g = some c) (hrel : relK env.cfg c env.gov auth = true) :
    execBody hs env auth W T m call (.rejectIf g :: rest) s = execBody hs env auth W T m call rest s := by
  simp [execBody, guardCmp_sound hs env auth g c h, hrel]

/-! ## look-alike encodings -/

theorem lowerC_of_not_upper (c : Nat) (h : isUpperC c = false) : lowerC c = c := by simp [lowerC, h]

theorem upper_lower_of_not_lower (c : Nat) (h : isLowerC c = false) : upperC (lowerC c) = c := by
  unfold lowerC upperC
  by_cases hu : isUpperC c = true
  · simp only [hu, ↓reduceIte]
    simp only [isUpperC, Bool.and_eq_true, decide_eq_true_eq] at hu
    have : isLowerC (c + 32) = true := by simp [isLowerC]; omega
    simp [this]
  · simp [hu, h]

theorem foldC_ascii (c : Nat) (h : c ≤ 126) : foldC c = lowerC c := by
  unfold foldC
  have h1 : c ≠ 0x17F := by omega
  have h2 : c ≠ 0x212A := by omega
  simp [h1, h2]

/-- `s` consists of ASCII characters none of which is an upper-case letter (a bech32 string as the SDK prints it) -/
def lowerAsciiStr (s : Str) : Bool := s.all (fun c => decide (c ≤ 126) && !isUpperC c)

theorem map_fold_lowerAscii (g : Str) (h : lowerAsciiStr g = true) : g.map foldC = g := by
  induction g with
  | nil => rfl
  | cons c cs ih =>
    simp only [lowerAsciiStr, List.all_cons, Bool.and_eq_true, decide_eq_true_eq, Bool.not_eq_true'] at h
    have ihh := ih (by simpa [lowerAsciiStr] using h.2)
    simp [List.map_cons, foldC_ascii c h.1.1, lowerC_of_not_upper c h.1.2, ihh]

theorem map_fold_ascii (a : Str) (h : a.all (fun c => decide (33 ≤ c) && decide (c ≤ 126)) = true) :
    a.map foldC = a.map lowerC := by
  induction a with
  | nil => rfl
  | cons c cs ih =>
    simp only [List.all_cons, Bool.and_eq_true, decide_eq_true_eq] at h
    simp [List.map_cons, foldC_ascii c h.1.2, ih (by simpa using h.2)]

theorem map_lower_id (a : Str) (h : a.any isUpperC = false) : a.map lowerC = a := by
  induction a with
  | nil => rfl
  | cons c cs ih =>
    simp only [List.any_cons, Bool.or_eq_false_iff] at h
    simp [List.map_cons, lowerC_of_not_upper c h.1, ih h.2]

theorem map_upper_lower (a : Str) (h : a.any isLowerC = false) : (a.map lowerC).map upperC = a := by
  induction a with
  | nil => rfl
  | cons c cs ih =>
    simp only [List.any_cons, Bool.or_eq_false_iff] at h
    simp [List.map_cons, upper_lower_of_not_lower c h.1, ih h.2]

theorem accAddress_frontOk (cfg : AddrCfg) (a : Str) (h : (accAddress cfg a).isSome = true) : bechFrontOk a = true := by
  unfold accAddress at h
  by_cases hs : a.all isSpaceC = true
  · simp [hs] at h
  · simp only [hs, Bool.false_eq_true, ↓reduceIte] at h
    unfold bechDecode at h
    by_cases hf : bechFrontOk a = true
    · exact hf
    · simp [hf] at h

/-- a string that decodes as a bech32 address and is case-fold-equal to a lower-case ASCII string `g` is `g` itself or
`g` in upper case — no other look-alike passes both `ValidateBasic` and a `strings.EqualFold` guard -/
theorem fold_decodable_exact (cfg : AddrCfg) (g a : Str) (hg : lowerAsciiStr g = true)
    (hf : foldEq g a = true) (hd : (accAddress cfg a).isSome = true) : a = g ∨ a = g.map upperC := by
  have hfront := accAddress_frontOk cfg a hd
  simp only [bechFrontOk, Bool.and_eq_true, decide_eq_true_eq, Bool.not_eq_true', Bool.and_eq_false_iff] at hfront
  obtain ⟨⟨_, hascii⟩, hmixed⟩ := hfront
  have hmap : a.map lowerC = g := by
    have := map_fold_ascii a hascii
    simp only [foldEq, beq_iff_eq] at hf
    rw [map_fold_lowerAscii g hg] at hf
    rw [← this]; exact hf.symm
  rcases hmixed with hl | hu
  · right
    rw [← hmap]; exact (map_upper_lower a hl).symm
  · left
    rw [← hmap]; exact (map_lower_id a hu).symm

theorem lower_upper_of_not_upper (c : Nat) (h : isUpperC c = false) : lowerC (upperC c) = c := by
  unfold upperC
  by_cases hl : isLowerC c = true
  · simp only [hl, ↓reduceIte]
    simp only [isLowerC, Bool.and_eq_true, decide_eq_true_eq] at hl
    have hu : isUpperC (c - 32) = true := by simp [isUpperC]; omega
    simp only [lowerC, hu, ↓reduceIte]; omega
  · simp only [hl, Bool.false_eq_true, ↓reduceIte]; exact lowerC_of_not_upper c h

theorem isSpaceC_upper (c : Nat) : isSpaceC (upperC c) = isSpaceC c := by
  unfold upperC
  by_cases hl : isLowerC c = true
  · simp only [hl, ↓reduceIte]
    simp only [isLowerC, Bool.and_eq_true, decide_eq_true_eq] at hl
    have h1 : isSpaceC (c - 32) = false := by
      simp only [isSpaceC, Bool.or_eq_false_iff, beq_eq_false_iff_ne, Bool.and_eq_false_iff, decide_eq_false_iff_not]
      omega
    have h2 : isSpaceC c = false := by
      simp only [isSpaceC, Bool.or_eq_false_iff, beq_eq_false_iff_ne, Bool.and_eq_false_iff, decide_eq_false_iff_not]
      omega
    rw [h1, h2]
  · simp [hl]

theorem printable_upper (c : Nat) : (decide (33 ≤ upperC c) && decide (upperC c ≤ 126)) = (decide (33 ≤ c) && decide (c ≤ 126)) := by
  unfold upperC
  by_cases hl : isLowerC c = true
  · simp only [hl, ↓reduceIte]
    simp only [isLowerC, Bool.and_eq_true, decide_eq_true_eq] at hl
    have a : (decide (33 ≤ c - 32) && decide (c - 32 ≤ 126)) = true := by simp; omega
    have b : (decide (33 ≤ c) && decide (c ≤ 126)) = true := by simp; omega
    rw [a, b]
  · simp [hl]

theorem not_lower_upper (c : Nat) : isLowerC (upperC c) = false := by
  unfold upperC
  by_cases hl : isLowerC c = true
  · simp only [hl, ↓reduceIte]
    simp only [isLowerC, Bool.and_eq_true, decide_eq_true_eq] at hl
    simp only [isLowerC, Bool.and_eq_false_iff, decide_eq_false_iff_not]; omega
  · simp [hl]

theorem lowerAscii_no_upper (g : Str) (h : lowerAsciiStr g = true) : g.any isUpperC = false := by
  induction g with
  | nil => rfl
  | cons c cs ih =>
    simp only [lowerAsciiStr, List.all_cons, Bool.and_eq_true, decide_eq_true_eq, Bool.not_eq_true'] at h
    simp [List.any_cons, h.1.2, ih (by simpa [lowerAsciiStr] using h.2)]

theorem map_lower_upper (g : Str) (h : g.any isUpperC = false) : (g.map upperC).map lowerC = g := by
  induction g with
  | nil => rfl
  | cons c cs ih =>
    simp only [List.any_cons, Bool.or_eq_false_iff] at h
    simp [List.map_cons, lower_upper_of_not_upper c h.1, ih h.2]

/-- the upper-case spelling of a lower-case bech32 string decodes to the same address -/
theorem accAddress_upper (cfg : AddrCfg) (g : Str) (hg : lowerAsciiStr g = true) :
    accAddress cfg (g.map upperC) = accAddress cfg g := by
  have hnu := lowerAscii_no_upper g hg
  have hsp : (g.map upperC).all isSpaceC = g.all isSpaceC := by
    simp [List.all_map, Function.comp_def, isSpaceC_upper]
  have hfront : bechFrontOk (g.map upperC) = bechFrontOk g := by
    have h1 : (g.map upperC).all (fun c => decide (33 ≤ c) && decide (c ≤ 126)) = g.all (fun c => decide (33 ≤ c) && decide (c ≤ 126)) := by
      simp [List.all_map, Function.comp_def, printable_upper]
    have h2 : (g.map upperC).any isLowerC = false := by
      simp [List.any_map, Function.comp_def, not_lower_upper]
    simp only [bechFrontOk, List.length_map, h1, h2, hnu, Bool.false_and, Bool.and_false]
  have hdec : bechDecode (g.map upperC) = bechDecode g := by
    simp only [bechDecode, hfront, map_lower_upper g hnu, map_lower_id g hnu]
  simp only [accAddress, hsp, hdec]

/-! ## `common.BytesToAddress` (round 4) -/

theorem evmAddr_suffix (pad g : List Nat) (hg : g.length = 20) : evmAddr (pad ++ g) = g := by
  have h1 : (pad ++ g).length - 20 = pad.length := by simp [List.length_append, hg]
  simp only [evmAddr, h1, List.drop_left', hg]
  simp

theorem evmAddr_length (bz : List Nat) : (evmAddr bz).length = 20 := by
  simp only [evmAddr, List.length_append, List.length_replicate, List.length_drop]
  omega

end FxVerif.Model.C16
