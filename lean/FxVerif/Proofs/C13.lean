import FxVerif.Model.C13
/-! helper lemmas for the C13 / C07 theorems: store algebra, frame facts of the end-blocker -/
namespace FxVerif.Proofs.C13
open FxVerif.Model.C13 FxVerif.Gen.C13

section store
variable {κ α : Type} [DecidableEq κ]

theorem find_filter_ne (l : List (κ × α)) (k k' : κ) (h : k' ≠ k) :
    (l.filter (fun p => p.1 != k)).find? (fun p => p.1 == k') = l.find? (fun p => p.1 == k') := by
  rw [List.find?_filter]
  congr 1; funext p
  by_cases hp : p.1 = k' <;> simp [hp, h]

theorem find_filter_self (l : List (κ × α)) (k : κ) :
    (l.filter (fun p => p.1 != k)).find? (fun p => p.1 == k) = none := by
  rw [List.find?_filter]
  simp

theorem get_erase (s : Store κ α) (k k' : κ) :
    Store.get (Store.erase s k) k' = if k' = k then none else Store.get s k' := by
  unfold Store.get Store.erase
  by_cases h : k' = k
  · subst h; simp [find_filter_self]
  · simp [h, find_filter_ne _ _ _ h]

theorem get_set (s : Store κ α) (k k' : κ) (v : α) :
    Store.get (Store.set s k v) k' = if k' = k then some v else Store.get s k' := by
  by_cases h : k' = k
  · subst h; simp [Store.get, Store.set, List.find?_cons]
  · have h' : k ≠ k' := fun e => h e.symm
    have := get_erase s k k'
    simp only [h, ↓reduceIte] at this
    simp [Store.set, Store.get, List.find?_cons, h, h'] at this ⊢
    exact this

theorem get_mapVals (f : α → α) (s : Store κ α) (k : κ) :
    Store.get (Store.mapVals f s) k = (Store.get s k).map f := by
  unfold Store.get Store.mapVals
  induction s with
  | nil => rfl
  | cons a l ih =>
    by_cases ha : a.1 = k
    · simp [ha]
    · have hb : (a.1 == k) = false := by simpa using ha
      simp only [List.map_cons, List.find?_cons, hb]
      exact ih

theorem mapVals_mapVals (f g : α → α) (s : Store κ α) :
    Store.mapVals f (Store.mapVals g s) = Store.mapVals (f ∘ g) s := by
  simp [Store.mapVals, List.map_map, Function.comp_def]

theorem mapVals_id (s : Store κ α) : Store.mapVals id s = s := by
  simp [Store.mapVals]

theorem vals_mapVals (f : α → α) (s : Store κ α) : Store.vals (Store.mapVals f s) = (Store.vals s).map f := by
  simp [Store.vals, Store.mapVals, List.map_map, Function.comp_def]

theorem mem_vals_of_get (s : Store κ α) (k : κ) (v : α) (h : Store.get s k = some v) : v ∈ Store.vals s := by
  unfold Store.get at h
  cases hf : s.find? (fun p => p.1 == k) with
  | none => simp [hf] at h
  | some p =>
    simp [hf] at h
    have := List.mem_of_find?_eq_some hf
    exact List.mem_map.mpr ⟨p, this, h⟩

theorem has_eq_false (s : Store κ α) (k : κ) : Store.has s k = false ↔ Store.get s k = none := by
  simp [Store.has]

end store
end FxVerif.Proofs.C13
