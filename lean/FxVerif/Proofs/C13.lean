import FxVerif.Model.C13
/-! helper lemmas for the C13 / C07 theorems: store algebra, frame facts of the end-blocker -/
namespace FxVerif.Proofs.C13
open FxVerif.Model.C13 FxVerif.Gen.C13

section store
variable {κ α : Type} [DecidableEq κ]

theorem find_filter_ne (l : List (κ × α)) (k k' : κ) (h : k' ≠ k) :
    (l.filter (fun p => p.1 != k)).find? (fun p => p.1 == k') = l.find? (fun p => p.1 == k') := by
  rw [List.find?_filter]
  congr 1; funext p
  by_cases hp : p.1 = k' <;> simp [hp, h]

theorem find_filter_self (l : List (κ × α)) (k : κ) :
    (l.filter (fun p => p.1 != k)).find? (fun p => p.1 == k) = none := by
  rw [List.find?_filter]
  simp

theorem get_erase (s : Store κ α) (k k' : κ) :
    Store.get (Store.erase s k) k' = if k' = k then none else Store.get s k' := by
  unfold Store.get Store.erase
  by_cases h : k' = k
  · subst h; simp [find_filter_self]
  · simp [h, find_filter_ne _ _ _ h]

theorem get_set (s : Store κ α) (k k' : κ) (v : α) :
    Store.get (Store.set s k v) k' = if k' = k then some v else Store.get s k' := by
  by_cases h : k' = k
  · subst h; simp [Store.get, Store.set, List.find?_cons]
  · have h' : k ≠ k' := fun e => h e.symm
    have := get_erase s k k'
    simp only [h, ↓reduceIte] at this
    simp [Store.set, Store.get, List.find?_cons, h, h'] at this ⊢
    exact this

theorem get_mapVals (f : α → α) (s : Store κ α) (k : κ) :
    Store.get (Store.mapVals f s) k = (Store.get s k).map f := by
  unfold Store.get Store.mapVals
  induction s with
  | nil => rfl
  | cons a l ih =>
    by_cases ha : a.1 = k
    · simp [ha]
    · have hb : (a.1 == k) = false := by simpa using ha
      simp only [List.map_cons, List.find?_cons, hb]
      exact ih

theorem mapVals_mapVals (f g : α → α) (s : Store κ α) :
    Store.mapVals f (Store.mapVals g s) = Store.mapVals (f ∘ g) s := by
  simp [Store.mapVals, List.map_map, Function.comp_def]

theorem mapVals_id (s : Store κ α) : Store.mapVals id s = s := by
  simp [Store.mapVals]

theorem vals_mapVals (f : α → α) (s : Store κ α) : Store.vals (Store.mapVals f s) = (Store.vals s).map f := by
  simp [Store.vals, Store.mapVals, List.map_map, Function.comp_def]

theorem mem_vals_of_get (s : Store κ α) (k : κ) (v : α) (h : Store.get s k = some v) : v ∈ Store.vals s := by
  unfold Store.get at h
  cases hf : s.find? (fun p => p.1 == k) with
  | none => simp [hf] at h
  | some p =>
    simp [hf] at h
    have := List.mem_of_find?_eq_some hf
    exact List.mem_map.mpr ⟨p, this, h⟩

theorem has_eq_false (s : Store κ α) (k : κ) : Store.has s k = false ↔ Store.get s k = none := by
  simp [Store.has]

end store
end FxVerif.Proofs.C13

namespace FxVerif.Proofs.C13
open FxVerif.Model.C13 FxVerif.Gen.C13

/-! ## what the end-blocker may change -/

/-- a missed signing of oracle record `o` at block height `h`, in terms of the state at the start of the block -/
def Missed (s : State) (h : Nat) (o : Oracle) : Prop :=
  h > s.p.window ∧
  ((∃ x ∈ s.osets, o.startHeight ≤ x.height ∧ x.height + s.p.window < h ∧ o.ext ∉ confExts s.osConf x.nonce) ∨
   (∃ x ∈ s.batches, o.startHeight ≤ x.height ∧ x.height + s.p.window < h ∧ o.ext ∉ confExts s.batchConf x.nonce) ∨
   (∃ x ∈ s.calls, o.startHeight ≤ x.height ∧ x.height + s.p.window ≤ h ∧ o.ext ∉ confExts s.callConf x.nonce))

/-- relation between a record at the start of the block and the same record later in the end-blocker -/
def RecRel (s0 : State) (h : Nat) (o o' : Oracle) : Prop :=
  o'.addr = o.addr ∧ o'.bridger = o.bridger ∧ o'.ext = o.ext ∧ o'.amount = o.amount ∧ o'.startHeight = o.startHeight ∧
  o'.val = o.val ∧
  (o' = o ∨ (o.online = true ∧ o'.online = false ∧ o'.slashTimes = o.slashTimes + 1 ∧ Missed s0 h o))

/-- everything the slashing loops leave alone -/
structure SameCore (s t : State) : Prop where
  p : t.p = s.p
  bb : t.byBridger = s.byBridger
  be : t.byExt = s.byExt
  oc : t.osConf = s.osConf
  bc : t.batchConf = s.batchConf
  cc : t.callConf = s.callConf
  os : t.osets = s.osets
  bt : t.batches = s.batches
  cl : t.calls = s.calls
  dl : t.deleg = s.deleg
  ub : t.ubds = s.ubds
  rd : t.reds = s.reds
  db : t.dbal = s.dbal
  bl : t.bal = s.bal
  gh : t.gh = s.gh
  pr : t.proposal = s.proposal
  bu : t.burned = s.burned
  hi : t.height = s.height
  ti : t.time = s.time

theorem SameCore.refl (s : State) : SameCore s s := by constructor <;> rfl

theorem SameCore.trans {a b c : State} (h1 : SameCore a b) (h2 : SameCore b c) : SameCore a c := by
  constructor
  · exact h2.p.trans h1.p
  · exact h2.bb.trans h1.bb
  · exact h2.be.trans h1.be
  · exact h2.oc.trans h1.oc
  · exact h2.bc.trans h1.bc
  · exact h2.cc.trans h1.cc
  · exact h2.os.trans h1.os
  · exact h2.bt.trans h1.bt
  · exact h2.cl.trans h1.cl
  · exact h2.dl.trans h1.dl
  · exact h2.ub.trans h1.ub
  · exact h2.rd.trans h1.rd
  · exact h2.db.trans h1.db
  · exact h2.bl.trans h1.bl
  · exact h2.gh.trans h1.gh
  · exact h2.pr.trans h1.pr
  · exact h2.bu.trans h1.bu
  · exact h2.hi.trans h1.hi
  · exact h2.ti.trans h1.ti

structure SlashRel (s0 : State) (h : Nat) (t : State) : Prop where
  core : SameCore s0 t
  recs : ∃ g : Oracle → Oracle, t.oracles = Store.mapVals g s0.oracles ∧ ∀ o, RecRel s0 h o (g o)

theorem RecRel.refl (s0 : State) (h : Nat) (o : Oracle) : RecRel s0 h o o :=
  ⟨rfl, rfl, rfl, rfl, rfl, rfl, Or.inl rfl⟩

theorem SlashRel.refl (s0 : State) (h : Nat) : SlashRel s0 h s0 :=
  ⟨SameCore.refl s0, id, (mapVals_id _).symm, fun o => RecRel.refl s0 h o⟩

theorem shouldSlash_congr (skip : Cmp) (o o' : Oracle) (oh : Nat) (conf : List Nat)
    (h1 : o'.startHeight = o.startHeight) (h2 : o'.ext = o.ext) :
    shouldSlash skip o' oh conf = shouldSlash skip o oh conf := by
  simp [shouldSlash, h1, h2]

/-- one `slashPass` (plus a cursor move) keeps `SlashRel`, provided the loop-body condition implies a missed signing -/
theorem slashPass_rel (s0 t : State) (h : Nat) (skip : Cmp) (oh : Nat) (conf : List Nat) (t' : State)
    (hr : SlashRel s0 h t)
    (hcore : SameCore (slashPass t h skip oh conf) t')
    (horc : t'.oracles = (slashPass t h skip oh conf).oracles)
    (hw : ∀ o : Oracle, shouldSlash skip o oh conf = true → Missed s0 h o) :
    SlashRel s0 h t' := by
  obtain ⟨hc, g, hg, hrel⟩ := hr
  refine ⟨SameCore.trans (SameCore.trans hc ?_) hcore, ?_⟩
  · constructor <;> rfl
  · refine ⟨(fun o => if o.online && shouldSlash skip o oh conf
        then { o with online := false, slashTimes := o.slashTimes + 1 } else o) ∘ g, ?_, ?_⟩
    · rw [horc]; simp only [slashPass]; rw [hg, mapVals_mapVals]
    · intro o
      obtain ⟨h1, h2, h3, h4, h5, h6, h7⟩ := hrel o
      simp only [Function.comp]
      split
      · rename_i hc2
        simp only [Bool.and_eq_true] at hc2
        refine ⟨h1, h2, h3, h4, h5, h6, ?_⟩
        rcases h7 with h7 | h7
        · right
          rw [h7] at hc2
          exact ⟨hc2.1, rfl, by rw [h7], hw o hc2.2⟩
        · exfalso; rw [h7.2.1] at hc2; exact Bool.false_ne_true hc2.1
      · exact ⟨h1, h2, h3, h4, h5, h6, h7⟩

/-- the loop body of `slashLoop` -/
def loopF {β : Type} (height nonce : β → Nat) (confOf : State → List Conf) (skip : Cmp) (arg : SlashArg)
    (site : String) (setCur : State → β → State) (h : Nat) (snap : List Oracle) :
    Except String (State × Bool) → β → Except String (State × Bool) :=
  fun acc x =>
    match acc with
    | .error e => .error e
    | .ok (st, hs) =>
      let c := called snap skip (height x) (confExts (confOf st) (nonce x))
      if c && arg != .oracleAddress then .error site else
      .ok (setCur (slashPass st h skip (height x) (confExts (confOf st) (nonce x))) x, hs || c)

theorem slashLoop_eq {β : Type} (xs : List β) (height nonce : β → Nat) (confOf : State → List Conf) (skip : Cmp)
    (arg : SlashArg) (site : String) (setCur : State → β → State) (h : Nat) (snap : List Oracle) (s : State) :
    slashLoop xs height nonce confOf skip arg site setCur h snap s =
      xs.foldl (loopF height nonce confOf skip arg site setCur h snap) (.ok (s, false)) := rfl

theorem foldl_loop_rel {β : Type} (height nonce : β → Nat) (confOf : State → List Conf) (skip : Cmp)
    (arg : SlashArg) (site : String) (setCur : State → β → State) (h : Nat) (snap : List Oracle) (s0 : State)
    (harg : arg = .oracleAddress)
    (hcur : ∀ st x, SameCore st (setCur st x) ∧ (setCur st x).oracles = st.oracles)
    (hconf : ∀ st, SameCore s0 st → confOf st = confOf s0) :
    ∀ (xs : List β),
      (∀ x ∈ xs, ∀ o, shouldSlash skip o (height x) (confExts (confOf s0) (nonce x)) = true → Missed s0 h o) →
      ∀ (st : State) (hs : Bool), SlashRel s0 h st →
      ∃ st' hs', xs.foldl (loopF height nonce confOf skip arg site setCur h snap) (.ok (st, hs)) = .ok (st', hs') ∧
        SlashRel s0 h st' := by
  intro xs
  induction xs with
  | nil => intro _ st hs hr; exact ⟨st, hs, rfl, hr⟩
  | cons x xs ih =>
    intro hw st hs hr
    simp only [List.foldl_cons]
    have hstep : loopF height nonce confOf skip arg site setCur h snap (.ok (st, hs)) x =
        .ok (setCur (slashPass st h skip (height x) (confExts (confOf st) (nonce x))) x,
             hs || called snap skip (height x) (confExts (confOf st) (nonce x))) := by
      simp [loopF, harg]
    rw [hstep]
    apply ih (fun y hy => hw y (List.mem_cons_of_mem _ hy))
    have hc := hconf st hr.core
    refine slashPass_rel s0 st h skip (height x) (confExts (confOf st) (nonce x)) _ hr (hcur _ x).1 (hcur _ x).2 ?_
    rw [hc]
    exact hw x (List.mem_cons_self)

/-! ## facts of the code the proofs rest on (regenerated: they stop being `rfl` when the code changes) -/

theorem shouldSlash_gt (o : Oracle) (oh : Nat) (conf : List Nat) (hm : slashWhenConfirmMissing = true)
    (h : shouldSlash .gt o oh conf = true) : o.startHeight ≤ oh ∧ o.ext ∉ conf := by
  simp [shouldSlash, evalCmp, hm] at h
  exact ⟨h.1, h.2⟩

theorem mem_takeWhile {α : Type} (p : α → Bool) (l : List α) (a : α) (h : a ∈ l.takeWhile p) : a ∈ l ∧ p a = true := by
  induction l with
  | nil => simp at h
  | cons b l ih =>
    by_cases hb : p b = true
    · simp only [List.takeWhile_cons, hb, ↓reduceIte, List.mem_cons] at h
      rcases h with h | h
      · subst h; exact ⟨List.mem_cons_self, hb⟩
      · exact ⟨List.mem_cons_of_mem _ (ih h).1, (ih h).2⟩
    · simp [List.takeWhile_cons, hb] at h

theorem mem_unslashedSets (s : State) (maxH : Nat) (x : OSet) (hw : oracleSetWindowCmp = .gt)
    (h : x ∈ unslashedSets s maxH) : x ∈ s.osets ∧ x.height < maxH := by
  unfold unslashedSets at h
  obtain ⟨h2, h1⟩ := mem_takeWhile _ _ _ h
  simp [hw, evalCmp] at h1
  exact ⟨(List.mem_filter.mp h2).1, h1⟩

theorem mem_unslashedBatches (s : State) (maxH : Nat) (x : Obj)
    (h : x ∈ unslashedBatches s maxH) : x ∈ s.batches ∧ x.height < maxH := by
  unfold unslashedBatches at h
  have := List.mem_filter.mp h
  simp at this
  exact ⟨this.1, this.2.2⟩

theorem mem_unslashedCalls (s : State) (maxH : Nat) (x : Obj) (hw : bridgeCallWindowCmp = .le)
    (h : x ∈ unslashedCalls s maxH) : x ∈ s.calls ∧ x.height ≤ maxH := by
  unfold unslashedCalls at h
  obtain ⟨h2, h1⟩ := mem_takeWhile _ _ _ h
  simp [hw, evalCmp] at h1
  exact ⟨(List.mem_filter.mp h2).1, h1⟩

/-- the code facts the slashing theorems need, as one decidable proposition over `Gen.C13` -/
def SlashCodeOk : Prop :=
  oracleSetSlashArg = .oracleAddress ∧ batchSlashArg = .oracleAddress ∧ bridgeCallSlashArg = .oracleAddress ∧
  oracleSetStartSkip = .gt ∧ batchStartSkip = .gt ∧ bridgeCallStartSkip = .gt ∧
  slashWhenConfirmMissing = true ∧ oracleSetWindowCmp = .gt ∧ bridgeCallWindowCmp = .le ∧
  batchRangeHalfOpen = true ∧ slashingGuardCmp = .le ∧
  -- the model matches confirms with oracles by EXTERNAL address (`confExts`, `shouldSlash`): that is what the code must do
  slashConfirmFill = .external ∧ slashConfirmLookup = .external ∧
  -- every loop walks the snapshot of online oracles taken at the start of `slashing` (not, e.g., the members of the set)
  oracleSetLoopDomain = .onlineSnapshot ∧ batchLoopDomain = .onlineSnapshot ∧ bridgeCallLoopDomain = .onlineSnapshot

instance : Decidable SlashCodeOk := by unfold SlashCodeOk; infer_instance

theorem refreshPower_rel (s0 t : State) (h : Nat) (hr : SlashRel s0 h t) : SlashRel s0 h (refreshPower t) := by
  obtain ⟨hc, hg⟩ := hr
  exact ⟨SameCore.trans hc (by constructor <;> rfl), hg⟩

/-- `slashing` never panics (given the code facts) and only does what `SlashRel` allows -/
theorem slashing_rel (hcode : SlashCodeOk) (s : State) (h : Nat) :
    ∃ s', slashing s h = .ok s' ∧ SlashRel s h s' := by
  obtain ⟨ha1, ha2, ha3, hs1, hs2, hs3, hm, hw1, hw3, _, _, _, _, hd1, hd2, hd3⟩ := hcode
  unfold slashing
  simp only [oracleSetSlashingBy, batchSlashingBy, bridgeCallSlashingBy, hd1, hd2, hd3]
  by_cases hwin : h ≤ s.p.window
  · simp only [hwin, ↓reduceIte]; exact ⟨s, rfl, SlashRel.refl s h⟩
  · simp only [hwin, ↓reduceIte]
    have hgt : h > s.p.window := Nat.lt_of_not_le hwin
    -- oracle sets
    obtain ⟨s1, b1, e1, r1⟩ := foldl_loop_rel (β := OSet) (·.height) (·.nonce) (·.osConf) oracleSetStartSkip oracleSetSlashArg
      "SlashOracle:MustAccAddressFromBech32(oracleSetSlashing)" (fun st x => { st with curOS := x.nonce }) h (onlineOracles s) s
      ha1 (fun st x => ⟨by constructor <;> rfl, rfl⟩) (fun st hc => hc.oc) (unslashedSets s (h - s.p.window))
      (by
        intro x hx o hsl
        rw [hs1] at hsl
        obtain ⟨hx1, hx2⟩ := mem_unslashedSets s _ x hw1 hx
        obtain ⟨h1, h2⟩ := shouldSlash_gt o x.height _ hm hsl
        exact ⟨hgt, Or.inl ⟨x, hx1, h1, by omega, h2⟩⟩) s false (SlashRel.refl s h)
    have e1' : oracleSetSlashing s h (onlineOracles s) (h - s.p.window) = .ok (s1, b1) := by
      unfold oracleSetSlashing; rw [slashLoop_eq]; exact e1
    rw [e1']
    -- batches
    obtain ⟨s2, b2, e2, r2⟩ := foldl_loop_rel (β := Obj) (·.height) (·.nonce) (·.batchConf) batchStartSkip batchSlashArg
      "SlashOracle:MustAccAddressFromBech32(batchSlashing)" (fun st x => { st with curBatch := x.height }) h (onlineOracles s) s
      ha2 (fun st x => ⟨by constructor <;> rfl, rfl⟩) (fun st hc => hc.bc) (unslashedBatches s1 (h - s.p.window))
      (by
        intro x hx o hsl
        rw [hs2] at hsl
        obtain ⟨hx1, hx2⟩ := mem_unslashedBatches s1 _ x hx
        rw [r1.core.bt] at hx1
        obtain ⟨h1, h2⟩ := shouldSlash_gt o x.height _ hm hsl
        exact ⟨hgt, Or.inr (Or.inl ⟨x, hx1, h1, by omega, h2⟩)⟩) s1 false r1
    have e2' : batchSlashing s1 h (onlineOracles s) (h - s.p.window) = .ok (s2, b2) := by
      unfold batchSlashing; rw [slashLoop_eq]; exact e2
    simp only [e2']
    -- bridge calls
    obtain ⟨s3, b3, e3, r3⟩ := foldl_loop_rel (β := Obj) (·.height) (·.nonce) (·.callConf) bridgeCallStartSkip bridgeCallSlashArg
      "SlashOracle:MustAccAddressFromBech32(bridgeCallSlashing)" (fun st x => { st with curCall := x.nonce }) h (onlineOracles s) s
      ha3 (fun st x => ⟨by constructor <;> rfl, rfl⟩) (fun st hc => hc.cc) (unslashedCalls s2 (h - s.p.window))
      (by
        intro x hx o hsl
        rw [hs3] at hsl
        obtain ⟨hx1, hx2⟩ := mem_unslashedCalls s2 _ x hw3 hx
        rw [r2.core.cl] at hx1
        obtain ⟨h1, h2⟩ := shouldSlash_gt o x.height _ hm hsl
        exact ⟨hgt, Or.inr (Or.inr ⟨x, hx1, h1, by omega, h2⟩)⟩) s2 false r2
    have e3' : bridgeCallSlashing s2 h (onlineOracles s) (h - s.p.window) = .ok (s3, b3) := by
      unfold bridgeCallSlashing; rw [slashLoop_eq]; exact e3
    simp only [e3']
    refine ⟨_, rfl, ?_⟩
    split
    · exact refreshPower_rel s s3 h r3
    · exact r3

/-! ## `GetCurrentOracleSet` arithmetic -/

theorem le_sum_of_mem {α : Type} (f : α → Nat) (l : List α) (a : α) (h : a ∈ l) : f a ≤ (l.map f).sum := by
  induction l with
  | nil => simp at h
  | cons b l ih =>
    simp only [List.map_cons, List.sum_cons]
    rcases List.mem_cons.mp h with h | h
    · subst h; omega
    · have := ih h; omega

theorem sum_filter_le {α : Type} (f : α → Nat) (p : α → Bool) (l : List α) :
    ((l.filter p).map f).sum ≤ (l.map f).sum := by
  induction l with
  | nil => simp
  | cons b l ih =>
    by_cases hb : p b = true
    · simp only [List.filter_cons, hb, ↓reduceIte, List.map_cons, List.sum_cons]; omega
    · simp only [List.filter_cons, hb, List.map_cons, List.sum_cons]; simp; omega

/-- the `uint64` arithmetic of `GetCurrentOracleSet` stays in range: the sum of all record powers is below 2^64 -/
def PowerFits (s : State) : Prop := ((Store.vals s.oracles).map (power s.p)).sum < u64

instance (s : State) : Decidable (PowerFits s) := by unfold PowerFits; infer_instance

/-- … in fact only the ONLINE oracles are summed -/
def OnlinePowerFits (s : State) : Prop := ((onlineOracles s).map (power s.p)).sum < u64

instance (s : State) : Decidable (OnlinePowerFits s) := by unfold OnlinePowerFits; infer_instance

theorem PowerFits.online {s : State} (hf : PowerFits s) : OnlinePowerFits s := by
  have h3 := sum_filter_le (power s.p) (fun o => o.online) (Store.vals s.oracles)
  unfold PowerFits at hf
  unfold OnlinePowerFits onlineOracles
  omega

theorem currentMembers_ok_online (hskip : currentSetSkip = .nonPositive) (s : State) (hf : OnlinePowerFits s) :
    ∃ cur, currentMembers s = .ok cur := by
  unfold currentMembers
  have hkept : keptMember = fun m => decide (m.2 > 0) := by funext m; simp [keptMember, hskip]
  rw [hkept]
  generalize hps : (((onlineOracles s).map (fun o => (o.ext, power s.p o))).filter (fun m => m.2 > 0)) = ps
  have hsum : (ps.map (·.2)).sum < u64 := by
    rw [← hps]
    have h1 := sum_filter_le (fun m : Nat × Nat => m.2) (fun m => decide (m.2 > 0)) ((onlineOracles s).map (fun o => (o.ext, power s.p o)))
    have h2 : (((onlineOracles s).map (fun o => (o.ext, power s.p o))).map (fun m : Nat × Nat => m.2)).sum
        = ((onlineOracles s).map (power s.p)).sum := by
      simp [List.map_map, Function.comp_def]
    unfold OnlinePowerFits at hf
    omega
  have hany : ps.any (fun m => decide (m.2 ≥ u64)) = false := by
    rw [List.any_eq_false]
    intro m hm
    have := le_sum_of_mem (fun m : Nat × Nat => m.2) ps m hm
    simp only [ge_iff_le, decide_eq_true_eq]
    omega
  simp only [hany, Bool.false_eq_true, ↓reduceIte]
  by_cases hemp : ps.isEmpty = true
  · simp [hemp]
  · have hne : ps ≠ [] := by simpa using hemp
    obtain ⟨m, hm⟩ := List.exists_mem_of_ne_nil ps hne
    have hpos : m.2 > 0 := by
      rw [← hps] at hm
      have := (List.mem_filter.mp hm).2
      simpa using this
    have hle := le_sum_of_mem (fun m : Nat × Nat => m.2) ps m hm
    have hmod : (ps.map (·.2)).sum % u64 = (ps.map (·.2)).sum := Nat.mod_eq_of_lt hsum
    have hnz : ((ps.map (·.2)).sum % u64 == 0) = false := by
      rw [hmod]; simp; omega
    simp [hnz]

theorem currentMembers_ok (hskip : currentSetSkip = .nonPositive) (s : State) (hf : PowerFits s) :
    ∃ cur, currentMembers s = .ok cur :=
  currentMembers_ok_online hskip s hf.online

/-! ## the whole crosschain end-blocker -/

/-- what the whole end-blocker leaves alone (it may add / prune oracle sets and prune their confirms) -/
structure OuterCore (s t : State) : Prop where
  p : t.p = s.p
  bb : t.byBridger = s.byBridger
  be : t.byExt = s.byExt
  bc : t.batchConf = s.batchConf
  cc : t.callConf = s.callConf
  bt : t.batches = s.batches
  cl : t.calls = s.calls
  dl : t.deleg = s.deleg
  ub : t.ubds = s.ubds
  rd : t.reds = s.reds
  db : t.dbal = s.dbal
  bl : t.bal = s.bal
  gh : t.gh = s.gh
  pr : t.proposal = s.proposal
  bu : t.burned = s.burned
  hi : t.height = s.height
  ti : t.time = s.time

theorem OuterCore.refl (s : State) : OuterCore s s := by constructor <;> rfl

theorem OuterCore.trans {a b c : State} (h1 : OuterCore a b) (h2 : OuterCore b c) : OuterCore a c := by
  constructor
  · exact h2.p.trans h1.p
  · exact h2.bb.trans h1.bb
  · exact h2.be.trans h1.be
  · exact h2.bc.trans h1.bc
  · exact h2.cc.trans h1.cc
  · exact h2.bt.trans h1.bt
  · exact h2.cl.trans h1.cl
  · exact h2.dl.trans h1.dl
  · exact h2.ub.trans h1.ub
  · exact h2.rd.trans h1.rd
  · exact h2.db.trans h1.db
  · exact h2.bl.trans h1.bl
  · exact h2.gh.trans h1.gh
  · exact h2.pr.trans h1.pr
  · exact h2.bu.trans h1.bu
  · exact h2.hi.trans h1.hi
  · exact h2.ti.trans h1.ti

theorem SameCore.outer {s t : State} (h : SameCore s t) : OuterCore s t :=
  ⟨h.p, h.bb, h.be, h.bc, h.cc, h.bt, h.cl, h.dl, h.ub, h.rd, h.db, h.bl, h.gh, h.pr, h.bu, h.hi, h.ti⟩

structure EndRel (s0 : State) (h : Nat) (t : State) : Prop where
  core : OuterCore s0 t
  recs : ∃ g : Oracle → Oracle, t.oracles = Store.mapVals g s0.oracles ∧ ∀ o, RecRel s0 h o (g o)

theorem powerFits_of_recs (s0 t : State) (h : Nat) (hp : t.p = s0.p)
    (hg : ∃ g : Oracle → Oracle, t.oracles = Store.mapVals g s0.oracles ∧ ∀ o, RecRel s0 h o (g o))
    (hf : PowerFits s0) : PowerFits t := by
  obtain ⟨g, hg, hrel⟩ := hg
  unfold PowerFits at hf ⊢
  rw [hg, vals_mapVals, List.map_map, hp]
  have : (power s0.p ∘ g) = power s0.p := by
    funext o; simp [Function.comp, power, (hrel o).2.2.2.1]
  rw [this]; exact hf

theorem createOracleSetRequest_frame (s : State) (h : Nat) (s' : State) (he : createOracleSetRequest s h = .ok s') :
    OuterCore s s' ∧ s'.oracles = s.oracles := by
  unfold createOracleSetRequest at he
  cases hcur : currentMembers s with
  | error e => rw [hcur] at he; simp at he
  | ok cur =>
    rw [hcur] at he
    simp only at he
    cases hneed : needOracleSet s h cur with
    | error e => rw [hneed] at he; simp at he
    | ok need =>
      rw [hneed] at he
      simp only at he
      by_cases hc : (need && !cur.isEmpty) = true
      · rw [if_pos hc] at he; injection he with he; subst he; exact ⟨by constructor <;> rfl, rfl⟩
      · rw [if_neg hc] at he; injection he with he; subst he; exact ⟨OuterCore.refl s, rfl⟩

/-- what the refresh decision needs from the code (regenerated): the nil test of the latest oracle set comes before the
power-difference step (which dereferences it), and the float is rendered with a FIXED number of decimals that
`LegacyNewDecFromStr` accepts (≤ 18) -/
def RefreshCodeOk : Prop :=
  currentSetSkip = .nonPositive ∧
  needChecks = [.latestNil, .slashThisBlock, .powerDiff] ∧
  (match powerDiffFormat with | .fixed n => decide (n ≤ decPrecision) | _ => false) = true

instance : Decidable RefreshCodeOk := by unfold RefreshCodeOk; infer_instance

/-- with a fixed format of at most 18 decimals every power difference parses -/
theorem powerDiffParsed_isSome (hr : RefreshCodeOk) (delta : Nat) : ∃ v, powerDiffParsed delta = some v := by
  obtain ⟨_, _, hf⟩ := hr
  unfold powerDiffParsed
  cases hfmt : powerDiffFormat with
  | fixed n =>
    rw [hfmt] at hf
    have hn : n ≤ decPrecision := by simpa using hf
    simp only [hn, if_true]
    exact ⟨_, rfl⟩
  | shortest => rw [hfmt] at hf; simp at hf
  | other => rw [hfmt] at hf; simp at hf

/-- the refresh decision never panics -/
theorem needOracleSet_total (hr : RefreshCodeOk) (s : State) (h : Nat) (cur : List (Nat × Nat)) :
    ∃ b, needOracleSet s h cur = .ok b := by
  unfold needOracleSet
  rw [hr.2.1]
  simp only [needGo]
  cases hl : latestSet s with
  | none => exact ⟨true, rfl⟩
  | some latest =>
    simp only
    split
    · exact ⟨true, rfl⟩
    · obtain ⟨v, hv⟩ := powerDiffParsed_isSome hr (powerDelta cur latest.members)
      rw [hv]
      simp only
      split
      · exact ⟨true, rfl⟩
      · exact ⟨false, rfl⟩

theorem createOracleSetRequest_total_online (hr : RefreshCodeOk) (s : State) (h : Nat) (hf : OnlinePowerFits s) :
    ∃ s', createOracleSetRequest s h = .ok s' := by
  obtain ⟨cur, hcur⟩ := currentMembers_ok_online hr.1 s hf
  obtain ⟨need, hneed⟩ := needOracleSet_total hr s h cur
  unfold createOracleSetRequest
  rw [hcur]
  simp only [hneed]
  by_cases hc : (need && !cur.isEmpty) = true
  · rw [if_pos hc]; exact ⟨_, rfl⟩
  · rw [if_neg hc]; exact ⟨_, rfl⟩

theorem createOracleSetRequest_total (hr : RefreshCodeOk) (s : State) (h : Nat) (hf : PowerFits s) :
    ∃ s', createOracleSetRequest s h = .ok s' := createOracleSetRequest_total_online hr s h hf.online

theorem sum_map_le {α : Type} (f g : α → Nat) (l : List α) (h : ∀ x ∈ l, f x ≤ g x) : (l.map f).sum ≤ (l.map g).sum := by
  induction l with
  | nil => simp
  | cons a t ih =>
    have h1 := h a (by simp)
    have h2 := ih (fun x hx => h x (by simp [hx]))
    simp only [List.map_cons, List.sum_cons]; omega

theorem sum_filter_eq {α : Type} (f : α → Nat) (p : α → Bool) (l : List α) :
    ((l.filter p).map f).sum = (l.map (fun x => if p x then f x else 0)).sum := by
  induction l with
  | nil => simp
  | cons a t ih =>
    by_cases hp : p a = true
    · simp only [List.filter_cons, hp, if_true, List.map_cons, List.sum_cons, ih]
    · simp only [List.filter_cons, hp, List.map_cons, List.sum_cons]; simp; exact ih

/-- slashing only takes oracles offline, so the online power does not grow -/
theorem onlineFits_of_recs (s0 t : State) (h : Nat) (hp : t.p = s0.p)
    (hg : ∃ g : Oracle → Oracle, t.oracles = Store.mapVals g s0.oracles ∧ ∀ o, RecRel s0 h o (g o))
    (hf : OnlinePowerFits s0) : OnlinePowerFits t := by
  obtain ⟨g, hg, hrel⟩ := hg
  unfold OnlinePowerFits onlineOracles at hf ⊢
  rw [hg, vals_mapVals, hp, sum_filter_eq, List.map_map]
  rw [sum_filter_eq] at hf
  refine Nat.lt_of_le_of_lt (sum_map_le _ _ _ ?_) hf
  intro o _
  obtain ⟨_, _, _, hamt, _, _, hor⟩ := hrel o
  simp only [Function.comp]
  rcases hor with e | ⟨h1, h2, _⟩
  · rw [e]; exact Nat.le_refl _
  · simp [h2]

theorem prune_frame (s : State) (h : Nat) : OuterCore s (pruneOracleSet s h) ∧ (pruneOracleSet s h).oracles = s.oracles := by
  unfold pruneOracleSet
  split
  · exact ⟨OuterCore.refl s, rfl⟩
  · split
    · exact ⟨OuterCore.refl s, rfl⟩
    · exact ⟨by constructor <;> rfl, rfl⟩

/-- whatever the crosschain end-blocker returns, it changed records only as `RecRel` allows -/
theorem endBlock_rel (hcode : SlashCodeOk) (s : State) (h : Nat) (s' : State) (he : endBlock s h = .ok s') :
    EndRel s h s' := by
  obtain ⟨s1, e1, r1⟩ := slashing_rel hcode s h
  unfold endBlock at he
  rw [e1] at he
  simp only at he
  cases e2 : createOracleSetRequest s1 h with
  | error e => rw [e2] at he; simp at he
  | ok s2 =>
    rw [e2] at he
    simp only at he
    injection he with he
    subst he
    obtain ⟨c2, o2⟩ := createOracleSetRequest_frame s1 h s2 e2
    obtain ⟨c3, o3⟩ := prune_frame s2 h
    refine ⟨OuterCore.trans (OuterCore.trans r1.core.outer c2) c3, ?_⟩
    obtain ⟨g, hg, hrel⟩ := r1.recs
    exact ⟨g, by rw [o3, o2, hg], hrel⟩

/-- the crosschain end-blocker is total, given the code facts and the `uint64` range -/
theorem endBlock_total_online (hcode : SlashCodeOk) (hr : RefreshCodeOk) (s : State) (h : Nat) (hf : OnlinePowerFits s) :
    ∃ s', endBlock s h = .ok s' := by
  obtain ⟨s1, e1, r1⟩ := slashing_rel hcode s h
  have hf1 : OnlinePowerFits s1 := onlineFits_of_recs s s1 h r1.core.p r1.recs hf
  obtain ⟨s2, e2⟩ := createOracleSetRequest_total_online hr s1 h hf1
  exact ⟨pruneOracleSet s2 h, by unfold endBlock; rw [e1]; simp only [e2]⟩

theorem endBlock_total (hcode : SlashCodeOk) (hr : RefreshCodeOk) (s : State) (h : Nat) (hf : PowerFits s) :
    ∃ s', endBlock s h = .ok s' := endBlock_total_online hcode hr s h hf.online

end FxVerif.Proofs.C13
