import FxVerif.Proofs.C07Gov
/-!
`DeductionsFit` (a fact about an intermediate state of the tally model) reduced to a fact about the tally INPUT: for every
bonded validator, the shares of the delegations that voting delegators hold with it add up to at most the validator's
delegator shares.
-/
namespace FxVerif.Proofs.C07Gov
open FxVerif.Model.C07Gov FxVerif.Gen.C07

/-- shares a delegation list carries to validator `j` -/
def dedOfDels (j : Nat) (dels : List (Nat × Int)) : Int := ((dels.filter (fun d => d.1 == j)).map (·.2)).sum

/-- shares all voters together hold with validator `j` -/
def dedSum (j : Nat) (voters : List GVoter) : Int := (voters.map (fun v => dedOfDels j v.dels)).sum

theorem delegationStep_at (opts : List (Opt × Int)) (acc acc' : Acc) (d : Nat × Int) (j : Nat)
    (h : delegationStep opts acc d = .ok acc') :
    (acc.vals[j]? = none → acc'.vals[j]? = none) ∧
    (∀ v, acc.vals[j]? = some v → ∃ v', acc'.vals[j]? = some v' ∧ v'.shares = v.shares ∧
      v'.ded = v.ded + (if d.1 = j then d.2 else 0)) := by
  unfold delegationStep at h
  cases hv : acc.vals[d.1]? with
  | none =>
    rw [hv] at h; simp only at h; injection h with h; subst h
    refine ⟨id, ?_⟩
    intro v hj
    refine ⟨v, hj, rfl, ?_⟩
    by_cases e : d.1 = j
    · rw [e] at hv; rw [hv] at hj; simp at hj
    · simp [e]
  | some w =>
    rw [hv] at h; simp only at h
    cases hq : decQuo (d.2 * w.tokens) w.shares with
    | none => rw [hq] at h; simp at h
    | some vp =>
      rw [hq] at h; simp only at h; injection h with h; subst h
      simp only
      by_cases e : d.1 = j
      · subst e
        refine ⟨?_, ?_⟩
        · intro hn; rw [hn] at hv; simp at hv
        · intro v hj
          rw [hv] at hj; injection hj with hj; subst hj
          have hlt : d.1 < acc.vals.length := by
            rcases Nat.lt_or_ge d.1 acc.vals.length with h | h
            · exact h
            · rw [List.getElem?_eq_none h] at hv; simp at hv
          refine ⟨{ w with ded := w.ded + d.2 }, ?_, rfl, by simp⟩
          rw [List.getElem?_set_self hlt]
      · refine ⟨?_, ?_⟩
        · intro hn; rw [List.getElem?_set_ne e]; exact hn
        · intro v hj
          refine ⟨v, by rw [List.getElem?_set_ne e]; exact hj, rfl, by simp [e]⟩

theorem delsFold_at (opts : List (Opt × Int)) (j : Nat) : ∀ (dels : List (Nat × Int)) (acc acc' : Acc),
    foldE (delegationStep opts) acc dels = .ok acc' →
    (acc.vals[j]? = none → acc'.vals[j]? = none) ∧
    (∀ v, acc.vals[j]? = some v → ∃ v', acc'.vals[j]? = some v' ∧ v'.shares = v.shares ∧ v'.ded = v.ded + dedOfDels j dels) := by
  intro dels
  induction dels with
  | nil =>
    intro acc acc' h
    simp only [foldE] at h; injection h with h; subst h
    exact ⟨id, fun v hv => ⟨v, hv, rfl, by simp [dedOfDels]⟩⟩
  | cons d rest ih =>
    intro acc acc' h
    simp only [foldE] at h
    cases h1 : delegationStep opts acc d with
    | error e => rw [h1] at h; simp at h
    | ok a1 =>
      rw [h1] at h; simp only at h
      obtain ⟨n1, s1⟩ := delegationStep_at opts acc a1 d j h1
      obtain ⟨n2, s2⟩ := ih a1 acc' h
      refine ⟨fun hn => n2 (n1 hn), ?_⟩
      intro v hv
      obtain ⟨v1, hv1, hs1, hd1⟩ := s1 v hv
      obtain ⟨v2, hv2, hs2, hd2⟩ := s2 v1 hv1
      refine ⟨v2, hv2, by rw [hs2, hs1], ?_⟩
      rw [hd2, hd1]
      by_cases e : d.1 = j
      · subst e
        simp only [dedOfDels, List.filter_cons, beq_self_eq_true, if_true, List.map_cons, List.sum_cons]
        omega
      · have : (d.1 == j) = false := by simpa using e
        simp only [dedOfDels, List.filter_cons, this, e, if_false]
        simp

theorem votersFold_at (j : Nat) : ∀ (voters : List GVoter) (acc acc' : Acc),
    foldE voterStep acc voters = .ok acc' →
    (acc.vals[j]? = none → acc'.vals[j]? = none) ∧
    (∀ v, acc.vals[j]? = some v → ∃ v', acc'.vals[j]? = some v' ∧ v'.shares = v.shares ∧ v'.ded = v.ded + dedSum j voters) := by
  intro voters
  induction voters with
  | nil =>
    intro acc acc' h
    simp only [foldE] at h; injection h with h; subst h
    exact ⟨id, fun v hv => ⟨v, hv, rfl, by simp [dedSum]⟩⟩
  | cons vt rest ih =>
    intro acc acc' h
    simp only [foldE] at h
    cases h1 : voterStep acc vt with
    | error e => rw [h1] at h; simp at h
    | ok a1 =>
      rw [h1] at h; simp only at h
      obtain ⟨n1, s1⟩ := delsFold_at vt.opts j vt.dels acc a1 h1
      obtain ⟨n2, s2⟩ := ih a1 acc' h
      refine ⟨fun hn => n2 (n1 hn), ?_⟩
      intro v hv
      obtain ⟨v1, hv1, hs1, hd1⟩ := s1 v hv
      obtain ⟨v2, hv2, hs2, hd2⟩ := s2 v1 hv1
      refine ⟨v2, hv2, by rw [hs2, hs1], ?_⟩
      rw [hd2, hd1]
      simp only [dedSum, List.map_cons, List.sum_cons]
      omega

/-- the staking invariant on the tally INPUT: no pending deductions, and for each bonded validator the voting delegators'
shares add up to at most its delegator shares -/
def DelegationsFit (i : TallyIn) : Prop :=
  (∀ v ∈ i.vals, v.ded = 0) ∧ ∀ j v, i.vals[j]? = some v → dedSum j i.voters ≤ v.shares

theorem deductionsFit_of_input (i : TallyIn) (h : DelegationsFit i) : DeductionsFit i := by
  intro a ha v hv
  obtain ⟨j, hj⟩ := List.getElem?_of_mem hv
  obtain ⟨n, s⟩ := votersFold_at j i.voters { vals := i.vals } a ha
  cases h0 : i.vals[j]? with
  | none => have := n h0; rw [this] at hj; simp at hj
  | some v0 =>
    obtain ⟨v', hv', hs, hd⟩ := s v0 h0
    rw [hv'] at hj; injection hj with hj; subst hj
    have hz : v0.ded = 0 := h.1 v0 (List.mem_of_getElem? h0)
    have := h.2 j v0 h0
    rw [hd, hs, hz]; omega

end FxVerif.Proofs.C07Gov
